package corr

// C05 — component `twccsnd`: twcc.SenderInterceptor (the loop that serialises Record and
// BuildFeedbackPacket) under testing/synctest: virtual clock, deterministic ticks.
//
// ops:   cfg interval=<ms> media=<u32>   (optional first line; default 100 ms)
//        pkt seq=<u16>                   an RTP packet carrying that transport-wide number arrives now
//        adv us=<n>                      advance the virtual clock
//        bind ssrc=<u32> tcc=<0|1>       BindRemoteStream of a further remote stream (or again of a bound one), with
//                                        (1) or without (0) the transport-cc extension in its StreamInfo
//        pkt seq=<u16> ssrc=<u32> [ext=<0|1>]   a packet of that stream (`bad-op` when not bound); ext=0: this packet
//                                        lacks the transport-cc extension
//        mal seq=<u16> ssrc=<u32> kind=<k>      a packet of that stream, carrying the extension, in an unusual wire form
//                                        (c05_sender_malformed_test.go): forms the RTP header parser accepts are
//                                        recorded like any packet; forms it rejects make the Read of a stream
//                                        that negotiated the extension fail (`err:read`) and record nothing
//        nowriter                        (first op, after `cfg` if there is one) no RTCP writer is bound when the case
//                                        starts: the application binds its remote streams first.  A Read of a packet
//                                        that carries the extension then returns only when the writer is bound …
//        bindw                           … BindRTCPWriter now (`bad-op` when one is bound): the packets read so far are
//                                        recorded, each with the time of ITS read, and the ticker starts now
// The stream `media` is bound, with the extension, when the case starts; `pkt seq=` is a packet of it.
// Every stream negotiates its OWN extension id (c05ExtID, a function of the SSRC) among other header
// extensions under the remaining ids, and every packet carries other extensions under all the ids it does
// not use for transport-cc (c05_sender_streams_test.go).  The protocol, and the model, have no notion of
// ids: each stream is read under the id it negotiated, a stream without the extension records nothing.
// observable: after every `adv`, for every batch the interceptor wrote to the bound RTCPWriter:
// `write n=<k>` and the canonical `fb …` line of every packet (sender SSRC is random: masked).
// The bound RTCPWriter may refuse chosen calls (ambient `failrtcp=`, ambient_test.go): the attempted batch is
// printed all the same, and feedback the transport refused is lost — the interceptor logs the error and goes on —,
// so the model has nothing to learn about which attempts failed.
// The bound RTCPWriter may also be SLOW (ambient options private to this component: `slowrtcp=<ms>` and, optionally,
// `slowat=<calls>` in the syntax of failrtcp=): (virtual) time passes inside its Write while RTP keeps arriving —
// every Read is then issued from a goroutine of its own, as the transport's reader goroutines do.  The arrival time
// of a packet is the time at which it was read (C05: "arrival times are those of the packets' arrival"), not the
// time at which the interceptor's goroutine got round to it, so as long as the Write returns before the next tick
// (Go's select would otherwise choose at random between the tick and the waiting packets) the model has nothing
// to learn about a slow transport either.

import (
	"fmt"
	"regexp"
	"strings"
	"sync"
	"testing"
	"testing/synctest"
	"time"

	"github.com/pion/interceptor"
	"github.com/pion/interceptor/pkg/twcc"
	"github.com/pion/logging"
	"github.com/pion/rtcp"
	"github.com/pion/rtp"
)

var c05MaskSS = regexp.MustCompile(`^fb ss=\d+ `)

func c05SndCase(r *Rng, tier string, idx int) Case {
	classes := []string{"steady", "bursty", "idle", "reorder", "ticks", "wrap", "streams", "streamsmix", "writefail", "malformed", "slowwrite", "latebind"}
	cl := classes[idx%len(classes)]
	// 4 long runs in the quick tier (360 cases), 80 in the thorough tier (7200 cases)
	if idx%90 == 47 {
		return c05SndLongCase(r)
	}
	if cl == "slowwrite" || cl == "latebind" {
		return c05SndSlowCase(r, cl)
	}
	if cl == "streams" || cl == "streamsmix" {
		return c05SndStreamsCase(r, cl)
	}
	if cl == "malformed" {
		return c05SndMalformedCase(r)
	}
	class := cl
	if cl == "writefail" { // ordinary traffic of one of the other classes over a transport that refuses some RTCP writes
		cl = c05PickS(r, "steady", "bursty", "idle", "reorder", "ticks", "wrap")
	}
	var ops []string
	interval := r.Pick(100, 100, 100, 50, 20, 250, 1000)
	if r.Chance(1, 2) {
		ops = append(ops, fmt.Sprintf("cfg interval=%d media=%d", interval, r.U64()&0xFFFFFFFF))
	} else {
		interval = 100
	}
	if r.Chance(1, 5) {
		ops = append(ops, fmt.Sprintf("adv us=%d", r.Pick(1, 1000, 250000)))
	}
	seq := r.Intn(65536)
	if cl == "wrap" {
		seq = r.Pick(65530, 65535, 0, 32760)
	}
	n := r.Range(10, 150)
	for i := 0; i < n; i++ {
		switch cl {
		case "steady":
			ops = append(ops, fmt.Sprintf("pkt seq=%d", seq&0xFFFF), fmt.Sprintf("adv us=%d", r.Pick(1000, 1000, 5000, 20000)))
			seq++
		case "bursty":
			for k := r.Range(1, 8); k > 0; k-- {
				ops = append(ops, fmt.Sprintf("pkt seq=%d", seq&0xFFFF))
				seq++
			}
			seq += r.Pick(0, 0, 1, 5, 30)
			ops = append(ops, fmt.Sprintf("adv us=%d", r.Pick(0, 1, 250, 30000, 64000, 99999, 100000, 100001)))
		case "idle":
			ops = append(ops, fmt.Sprintf("pkt seq=%d", seq&0xFFFF))
			seq += r.Pick(1, 1, 2, 10)
			if r.Chance(1, 25) {
				seq += r.Pick(1000, 40000)
			}
			ops = append(ops, fmt.Sprintf("adv us=%d", r.Pick(1000, 400000, 499999, 500000, 600000, 9000000, 70000000)))
		case "reorder":
			a, b := seq, seq+r.Range(1, 5)
			ops = append(ops, fmt.Sprintf("pkt seq=%d", b&0xFFFF), fmt.Sprintf("adv us=%d", r.Pick(0, 500, 3000, 120000)),
				fmt.Sprintf("pkt seq=%d", a&0xFFFF), fmt.Sprintf("adv us=%d", r.Pick(0, 500, 3000, 120000)))
			if r.Chance(1, 4) {
				ops = append(ops, fmt.Sprintf("pkt seq=%d", a&0xFFFF)) // duplicate
			}
			seq = b + 1
		case "ticks": // arrivals exactly on, just before and just after tick instants
			ops = append(ops, fmt.Sprintf("pkt seq=%d", seq&0xFFFF))
			seq += r.Pick(1, 1, 3)
			ops = append(ops, fmt.Sprintf("adv us=%d", interval*1000*r.Pick(1, 1, 2)+r.Pick(-1, 0, 0, 1)))
		case "wrap":
			ops = append(ops, fmt.Sprintf("pkt seq=%d", seq&0xFFFF), fmt.Sprintf("adv us=%d", r.Pick(100, 10000, 100000)))
			seq += r.Pick(1, 1, 2, 7)
			if r.Chance(1, 25) {
				seq += r.Pick(32767, 32768, 40000)
			}
		}
	}
	ops = append(ops, fmt.Sprintf("adv us=%d", r.Pick(100000, 250000, 1000000, 2000000)))
	if cl == "idle" && r.Chance(1, 10) {
		ops = append(ops, c05PickS(r, "adv us=-1", "pkt seq=65536", "adv", "tick"))
	}
	if class == "writefail" {
		return Case{Class: class, Ops: c05AmbientFail(r, ops)}
	}
	return Case{Class: cl, Ops: c05Ambient(r, ops)}
}

// c05SndLongCase: class `longrun` — ONE binding of the interceptor (one Recorder) that lives for 260..640 feedback
// intervals with a packet or two in each: the 8-bit feedback packet count of its reports passes 255 once or twice
// ("increases by one per packet (mod 256)" is about every report of a session, and sessions last hours).  Intervals
// without any packet (no report, no count used up) and with a lost number are mixed in.
func c05SndLongCase(r *Rng) Case {
	interval := r.Pick(20, 50, 100)
	ops := []string{fmt.Sprintf("cfg interval=%d media=%d", interval, r.U64()&0xFFFFFFFF)}
	seq := r.Intn(65536)
	target := r.Pick(260, 300, 515, 530, 640)
	for pk := 0; pk < target; {
		left := interval * 1000
		switch r.Intn(8) {
		case 0: // nothing arrives during this interval
		case 1: // two packets, a number lost between them
			d := r.Range(1, left/2)
			ops = append(ops, fmt.Sprintf("pkt seq=%d", seq&0xFFFF), fmt.Sprintf("adv us=%d", d), fmt.Sprintf("pkt seq=%d", (seq+2)&0xFFFF))
			seq += 3
			left -= d
			pk++
		default:
			ops = append(ops, fmt.Sprintf("pkt seq=%d", seq&0xFFFF))
			seq++
			pk++
		}
		ops = append(ops, fmt.Sprintf("adv us=%d", left))
	}
	ops = append(ops, fmt.Sprintf("adv us=%d", r.Pick(100000, 250000)))
	return Case{Class: "longrun", Ops: c05Ambient(r, ops)}
}

// c05FailSched draws the calls of the bottom RTCP writer that fail: one, two in a row, a few scattered ones, every
// k-th, all of them.
func c05FailSched(r *Rng) string {
	a := r.Range(1, 6)
	switch r.Intn(6) {
	case 0:
		return fmt.Sprintf("failrtcp=%d", a)
	case 1:
		return fmt.Sprintf("failrtcp=%d,%d", a, a+1)
	case 2:
		return fmt.Sprintf("failrtcp=%d,%d,%d", a, a+r.Range(2, 4), a+r.Range(5, 12))
	case 3:
		return fmt.Sprintf("failrtcp=%%%d", r.Range(2, 5))
	case 4:
		return fmt.Sprintf("failrtcp=%d,%%%d", a, r.Range(3, 7))
	}
	return "failrtcp=%1"
}

// c05AmbientFail: an ambient (alone, in a one-element chain, or between neighbours) whose RTCP writer refuses
// chosen calls.
func c05AmbientFail(r *Rng, ops []string) []string {
	before := c05PickS(r, "", "", "stats", "noop", "rtpfb,stats")
	after := c05PickS(r, "", "", "stats", "noop")
	amb := ambWith(ambOp(before, after, r.Bool(), false, r.Chance(1, 3), false), c05FailSched(r))
	return append([]string{amb}, ops...)
}

// c05Ambient puts the sender interceptor of some cases into a chain with transparent, silent neighbours (the stats
// interceptor before or after it — it parses the same packets through the shared attribute cache —, the rtpfb
// interceptor, a NoOp) and lets the transport return nil attributes.
func c05Ambient(r *Rng, ops []string) []string {
	if !r.Chance(1, 3) {
		return ops
	}
	before := c05PickS(r, "", "stats", "stats", "noop", "rtpfb,stats")
	after := c05PickS(r, "", "", "stats", "noop")
	amb := ambOp(before, after, true, false, r.Chance(1, 3), false)
	if r.Chance(1, 3) { // the caller passes its own Attributes map (one per packet), as pion/webrtc does
		amb = ambWith(amb, "attrs=1")
	}
	if r.Chance(1, 4) {
		amb = ambWith(amb, c05FailSched(r))
	}
	return append([]string{amb}, ops...)
}

// c05SndSlowCase: classes `slowwrite` and `latebind`.  One to three streams that negotiated the extension share the
// transport-wide counter; packets arrive every 0..40 ms.  slowwrite: every (or every k-th, or some) Write of the
// bound RTCP writer takes 50..500 ms, less than the feedback interval, so packets are read while the interceptor's
// goroutine is inside Write.  latebind: the case opens with `nowriter`; the streams are bound and packets arrive
// (sometimes spread over more than an interval) before `bindw`; in half of these cases the writer is slow as well.
func c05SndSlowCase(r *Rng, cl string) Case {
	var ops []string
	interval := r.Pick(100, 100, 250, 250, 1000)
	media := uint32(c05Media)
	if interval != 100 || r.Bool() {
		media = uint32(r.U64())
		ops = append(ops, fmt.Sprintf("cfg interval=%d media=%d", interval, media))
	}
	slow := cl == "slowwrite" || r.Bool()
	amb := ""
	if slow {
		var d int
		switch interval {
		case 100:
			d = r.Pick(50, 60, 75, 99)
		case 250:
			d = r.Pick(50, 100, 150, 200, 249)
		default:
			d = r.Pick(50, 125, 300, 400, 500, 999)
		}
		before := c05PickS(r, "", "", "", "stats", "noop")
		amb = ambWith(ambOp(before, "", before != "" || r.Chance(1, 3), false, r.Chance(1, 4), false), fmt.Sprintf("slowrtcp=%d", d))
		switch r.Intn(4) {
		case 0:
			amb = ambWith(amb, fmt.Sprintf("slowat=%%%d", r.Range(2, 3)))
		case 1:
			a := r.Range(1, 3)
			amb = ambWith(amb, fmt.Sprintf("slowat=%d,%d,%d", a, a+r.Range(1, 2), a+r.Range(3, 6)))
		}
		if r.Chance(1, 4) {
			amb = ambWith(amb, "attrs=1")
		}
		if r.Chance(1, 5) {
			amb = ambWith(amb, c05FailSched(r))
		}
	}
	ssrcs := []uint32{media}
	for k := r.Pick(0, 0, 1, 2); k > 0; k-- {
		ssrcs = append(ssrcs, media+uint32(r.Range(1, 1<<20)))
	}
	if cl == "latebind" {
		ops = append(ops, "nowriter")
	}
	for _, s := range ssrcs[1:] {
		ops = append(ops, fmt.Sprintf("bind ssrc=%d tcc=1", s))
	}
	seq := r.Intn(65536)
	if r.Chance(1, 5) {
		seq = 65536 - r.Range(1, 30)
	}
	traffic := func(n int, gaps []int) {
		for ; n > 0; n-- {
			for k := r.Pick(1, 1, 1, 2, 4); k > 0; k-- {
				s := ssrcs[r.Intn(len(ssrcs))]
				if s == media && r.Bool() {
					ops = append(ops, fmt.Sprintf("pkt seq=%d", seq&0xFFFF))
				} else {
					ops = append(ops, fmt.Sprintf("pkt seq=%d ssrc=%d", seq&0xFFFF, s))
				}
				seq += r.Pick(1, 1, 1, 1, 2, 3)
			}
			ops = append(ops, fmt.Sprintf("adv us=%d", gaps[r.Intn(len(gaps))]))
		}
	}
	gaps := []int{0, 250, 1000, 5000, 10000, 20000, 40000}
	if r.Chance(1, 4) { // arrivals on the instants at which a Write begins and ends
		gaps = []int{interval * 250, interval * 500, 10000, 25000, 50000}
	}
	if cl == "latebind" {
		if r.Chance(1, 4) {
			ops = append(ops, fmt.Sprintf("adv us=%d", r.Pick(1, 1000, 300000)))
		}
		if !r.Chance(1, 8) { // (else: the writer is bound before the first packet after all)
			traffic(r.Range(1, 12), append(gaps, interval*400, interval*1000+1))
		}
		ops = append(ops, "bindw")
		if r.Chance(1, 3) {
			ops = append(ops, fmt.Sprintf("adv us=%d", r.Pick(0, 1, interval*1000-1, interval*1000)))
		}
	}
	traffic(r.Range(10, 80), gaps)
	if r.Chance(1, 3) { // a pause, then more
		ops = append(ops, fmt.Sprintf("adv us=%d", r.Pick(600000, 2000000)))
		traffic(r.Range(5, 30), gaps)
	}
	ops = append(ops, "adv us=2500000") // every Write has returned, every Read with it
	if cl == "latebind" && r.Chance(1, 10) {
		ops = append(ops, c05PickS(r, "bindw", "nowriter"))
	}
	if amb != "" {
		ops = append([]string{amb}, ops...)
	}
	return Case{Class: cl, Ops: ops}
}

func c05SndRun(t *testing.T, ops []string, o *Out) {
	synctest.Test(t, func(t *testing.T) {
		interval := 100 * time.Millisecond
		media := uint32(c05Media)
		start := 0
		cfgOK := true
		if len(ops) > 0 && strings.HasPrefix(ops[0], "cfg ") {
			_, m := kv(ops[0])
			iv, ok1 := c05ParseU(m["interval"], 3600000)
			md, ok2 := c05ParseU(m["media"], 0xFFFFFFFF)
			if ok1 && ok2 && iv > 0 && len(strings.Fields(ops[0])) == 3 {
				interval = time.Duration(iv) * time.Millisecond
				media = uint32(md)
			} else {
				o.P("bad-op")
				cfgOK = false
			}
			start = 1
		}
		wbound := true
		if cfgOK && start < len(ops) && ops[start] == "nowriter" {
			wbound = false
			start++
		}
		// a slow transport below: the chosen calls of the bound RTCP writer take `slowD` of (virtual) time
		var slowD time.Duration
		slowAt := parseSched("%1")
		if o.Amb != nil && o.Amb.Opts["slowrtcp"] != "" {
			slowD = time.Duration(atoi(o.Amb.Opts["slowrtcp"])) * time.Millisecond
			if sc := o.Amb.Opts["slowat"]; sc != "" {
				slowAt = parseSched(sc)
			}
		}
		// a Read may have to wait for the interceptor's goroutine (it is inside a slow Write, or does not exist
		// yet): every Read is then issued from a goroutine of its own
		async := slowD > 0 || !wbound
		quiet := logging.NewDefaultLoggerFactory() // a refused write is logged by the interceptor: not an observable
		quiet.DefaultLogLevel = logging.LogLevelDisabled
		f, err := twcc.NewSenderInterceptor(twcc.SendInterval(interval), twcc.WithLoggerFactory(quiet))
		if err != nil {
			o.P("err:new")
			return
		}
		ic0, err := f.NewInterceptor("")
		if err != nil {
			o.P("err:new")
			return
		}
		ic := o.Wrap(ic0) // the case's ambient: transparent neighbours / a one-element chain (ambient_test.go)
		var mu sync.Mutex
		var batches [][]rtcp.Packet
		nBatch := 0
		muted := false
		defer o.EndKept()
		rtcpWriter := interceptor.RTCPWriterFunc(func(pkts []rtcp.Packet, _ interceptor.Attributes) (int, error) {
			mu.Lock()
			if muted { // the case is over (see the end of the interpreter)
				mu.Unlock()
				return 0, nil
			}
			batches = append(batches, pkts)
			nBatch++
			n := nBatch
			// the writer owns what it was given (it may queue it): kept by pointer, re-rendered after every later op
			o.KeepRTCPs(fmt.Sprintf("write#%d", nBatch), pkts)
			mu.Unlock()
			err := o.RTCPWriteErr() // the transport may refuse chosen calls (ambient failrtcp=)
			if slowD > 0 && slowAt.hit(int64(n)) {
				time.Sleep(slowD) // … and may be slow
			}
			return 0, err
		})
		if wbound {
			ic.BindRTCPWriter(rtcpWriter)
		}
		var cur []byte
		// an `adv` is spent lazily: inside the wrapped reader when a packet follows, else before the next op
		pendUs := int64(-1)
		var flush func()
		spend := func() {
			if pendUs >= 0 {
				us := pendUs
				pendUs = -1
				time.Sleep(time.Duration(us) * time.Microsecond)
				synctest.Wait()
				flush()
			}
		}
		readers := map[uint32]interceptor.RTPReader{}
		hasTcc := map[uint32]bool{}
		arrived := make(chan struct{}, 1)
		bind := func(ssrc uint32, tcc bool) {
			hasTcc[ssrc] = tcc
			readers[ssrc] = ic.BindRemoteStream(c05StreamInfo(ssrc, tcc),
				interceptor.RTPReaderFunc(func(b []byte, a interceptor.Attributes) (int, interceptor.Attributes, error) {
					if async { // on the Read's own goroutine; the interpreter waits for `arrived`
						if pendUs >= 0 {
							us := pendUs
							pendUs = -1
							time.Sleep(time.Duration(us) * time.Microsecond)
							synctest.Wait() // a tick at this very instant comes first, as in the model
						}
						n := copy(b, cur)
						arrived <- struct{}{}
						return n, o.Bottom(a), nil
					}
					spend() // a blocking transport: the time until the packet arrives passes inside this Read
					return copy(b, cur), o.Bottom(a), nil
				}))
		}
		// read hands the packet `cur` to the stream's reader.  async: from a goroutine of its own; a Read that has not
		// returned once everything has come to rest is waiting for the interceptor's goroutine and is looked at
		// again after every later op (`sweep`).
		var waiting []chan error
		sweep := func(final bool) {
			keep := waiting[:0]
			for _, d := range waiting {
				select {
				case err := <-d:
					if err != nil {
						o.P("err:read")
					}
				default:
					if final {
						o.P("read-blocked") // no model prints this: the Read never came back
					}
					keep = append(keep, d)
				}
			}
			waiting = keep
		}
		read := func(reader interceptor.RTPReader, buf []byte) {
			if !async {
				if _, _, err := reader.Read(buf, o.Attrs(nil)); err != nil {
					o.P("err:read")
				}
				synctest.Wait()
				return
			}
			done := make(chan error, 1)
			attrs := o.Attrs(nil)
			own := make([]byte, len(buf))
			go func() {
				_, _, err := reader.Read(own, attrs)
				done <- err
			}()
			<-arrived
			synctest.Wait()
			flush()
			sweep(false)
			select {
			case err := <-done:
				if err != nil {
					o.P("err:read")
				}
			default:
				waiting = append(waiting, done)
			}
		}
		bind(media, true)
		flush = func() {
			mu.Lock()
			bs := batches
			batches = nil
			mu.Unlock()
			for _, b := range bs {
				o.P("write n=%d", len(b))
				for _, p := range b {
					o.P("%s", c05MaskSS.ReplaceAllString(c05FbLine(p), "fb ss=* "))
				}
			}
		}
		buf := make([]byte, 1500)
		rtpSeq := uint16(0)
		for _, op := range ops[start:] {
			o.CheckKept()
			sweep(false)
			fs := strings.Fields(op)
			name, m := kv(op)
			switch {
			case op == "bindw" && !wbound:
				spend()
				wbound = true
				ic.BindRTCPWriter(rtcpWriter)
				synctest.Wait()
				flush()
			case name == "bind" && len(fs) == 3:
				ssrc, ok1 := c05ParseU(m["ssrc"], 0xFFFFFFFF)
				tcc, ok2 := c05ParseU(m["tcc"], 1)
				spend()
				if !ok1 || !ok2 {
					o.P("bad-op")
					continue
				}
				bind(uint32(ssrc), tcc == 1)
			case name == "pkt" && len(fs) >= 2 && len(fs) <= 4:
				seq, ok := c05ParseU(m["seq"], 65535)
				ssrc, ext := uint64(media), uint64(1)
				if len(fs) >= 3 {
					var ok2 bool
					ssrc, ok2 = c05ParseU(m["ssrc"], 0xFFFFFFFF)
					ok = ok && ok2
				}
				if len(fs) == 4 {
					var ok2 bool
					ext, ok2 = c05ParseU(m["ext"], 1)
					ok = ok && ok2
				}
				reader := readers[uint32(ssrc)]
				if !ok || reader == nil {
					spend()
					o.P("bad-op")
					continue
				}
				h := rtp.Header{Version: 2, SSRC: uint32(ssrc), SequenceNumber: rtpSeq, PayloadType: 96}
				rtpSeq++
				if err := c05SetExtensions(&h, uint16(seq), hasTcc[uint32(ssrc)], ext == 1); err != nil {
					spend()
					o.P("err:ext")
					continue
				}
				raw, err := (&rtp.Packet{Header: h, Payload: []byte{1, 2, 3}}).Marshal()
				if err != nil {
					spend()
					o.P("err:rtp")
					continue
				}
				cur = raw
				read(reader, buf)
			case name == "mal" && len(fs) == 4:
				seq, ok := c05ParseU(m["seq"], 65535)
				ssrc, ok2 := c05ParseU(m["ssrc"], 0xFFFFFFFF)
				kind, known := c05MalKinds[m["kind"]]
				reader := readers[uint32(ssrc)]
				if !ok || !ok2 || !known || reader == nil {
					spend()
					o.P("bad-op")
					continue
				}
				raw, err := c05Malformed(uint32(ssrc), rtpSeq, uint16(seq), hasTcc[uint32(ssrc)], m["kind"])
				rtpSeq++
				if err != nil {
					spend()
					o.P("err:rtp")
					continue
				}
				_ = kind
				cur = raw
				read(reader, buf)
			case name == "adv" && len(fs) == 2:
				spend()
				us, ok := c05ParseU(m["us"], 1<<40)
				if !ok {
					o.P("bad-op")
					continue
				}
				spend()
				pendUs = int64(us)
			default:
				spend()
				o.P("bad-op")
			}
		}
		spend()
		if len(waiting) > 0 && wbound {
			// the case ends while a Write is in progress: the Reads that wait for it return when it does (what the
			// interceptor writes from now on is no longer part of the case)
			mu.Lock()
			muted = true
			mu.Unlock()
			time.Sleep(slowD)
			synctest.Wait()
		}
		sweep(wbound) // (without a writer the Reads are still waiting, rightly; Close releases them)
		o.CheckKeptAll()
		if err := ic.Close(); err != nil {
			o.P("err:close")
		}
		synctest.Wait()
		flush()
		o.CheckKeptAll()
	})
}

func init() {
	register("twccsnd", &Comp{
		N: func(tier string) int {
			if tier == "thorough" {
				return 7200
			}
			return 360
		},
		Gen: c05SndCase,
		Run: c05SndRun,
	})
}

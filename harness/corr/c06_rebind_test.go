package corr

// C06 — component `receiverreport`, scenario class `rebind`: BindRemoteStream is called again for an SSRC —
// without UnbindRemoteStream in between (a renegotiation that changes the clock rate), after an Unbind, with
// the Bind of a second SSRC in between, twice in a row, or before the first packet — and the sender starts a
// fresh sequence-number / timestamp space.  A Bind starts a fresh stream (the model's `store` replaces,
// as sync.Map.Store does): every field of the reports after it (extended highest number and its cycle
// count, interval and cumulative loss, jitter with the NEW clock rate, LSR/DLSR = 0 until a new sender
// report) must be a recount of the packets received since that Bind only.

import "fmt"

func c06Rebind(r *Rng) Case {
	ops := []string{}
	interval := r.Pick(1000000000, 1000000000, 100000000, 20000000)
	if r.Chance(1, 4) {
		ops = append(ops, fmt.Sprintf("cfg interval=%d skew=%d", interval, c06Skew(r)))
	} else if interval != 1000000000 || r.Chance(1, 4) {
		ops = append(ops, fmt.Sprintf("cfg interval=%d", interval))
	}
	rates := []int{8000, 16000, 48000, 90000, 1000, 1}
	type st struct{ ssrc, rate, ext, ts, tsStep, pace int }
	fresh := func(s *st, rate int) { // a new sequence / timestamp space and clock rate
		s.rate = rate
		s.ext = r.Intn(65536)
		if r.Chance(1, 4) {
			s.ext = 65536 - r.Range(1, 20) // the new space wraps soon
		}
		s.ts = int(r.U64() % (1 << 32))
		s.pace = r.Pick(20000000, 33333333, 10000000, 1000000)
		s.tsStep = int(float64(s.rate) * float64(s.pace) / 1e9)
	}
	bind := func(s *st) {
		ops = append(ops, fmt.Sprintf("bind ssrc=%d rate=%d dt=%d", s.ssrc, s.rate, r.Pick(0, 0, 1000, 5000000)))
	}
	// some packets of the given streams with loss, duplicates, reordering, sender reports and ticks
	phase := func(n int, ss ...*st) {
		for i := 0; i < n; i++ {
			s := ss[r.Intn(len(ss))]
			seq, ts := -1, -1
			switch r.Intn(8) {
			case 0:
				s.ext += r.Range(2, 30)
			case 1: // late packet
				back := r.Range(1, 20)
				seq, ts = (s.ext-back)&0xFFFF, (s.ts-back*s.tsStep)&0xFFFFFFFF
			case 2: // duplicate of the highest
				seq, ts = s.ext&0xFFFF, s.ts
			default:
				s.ext++
			}
			if seq < 0 {
				s.ts = (s.ts + s.tsStep) & 0xFFFFFFFF
				seq, ts = s.ext&0xFFFF, s.ts
			}
			ops = append(ops, fmt.Sprintf("rtp ssrc=%d seq=%d ts=%d dt=%d", s.ssrc, seq, ts, s.pace+r.Range(-s.pace/2, s.pace/2)))
			if r.Chance(1, 6) {
				ops = append(ops, fmt.Sprintf("sr ssrc=%d ntp=%d rtp=%d dt=%d", s.ssrc, r.U64(), r.Intn(1<<32), r.Pick(0, 1000, 7000000)))
			}
			if r.Chance(1, 5) {
				ops = append(ops, "tick")
			}
		}
		ops = append(ops, "tick")
	}
	otherRate := func(old int) int {
		for {
			if x := rates[r.Intn(len(rates))]; x != old {
				return x
			}
		}
	}
	// late packets through the reader of an earlier binding of the SSRC (op `stale`): they continue the OLD numbering,
	// or would be the next / an older / a far newer packet of the new binding; the reports count the new binding only
	staleOps := func(s *st, oldExt, oldTs int) {
		for k := r.Pick(0, 1, 1, 2, 3); k > 0; k-- {
			seq, ts := oldExt+k, oldTs+k*s.tsStep
			if r.Bool() {
				seq, ts = s.ext+r.Pick(1, 1, 2, 0, -1, -5, 100, 32768, 40000), s.ts+r.Pick(0, s.tsStep, -s.tsStep)
			}
			ops = append(ops, fmt.Sprintf("stale ssrc=%d k=%d seq=%d ts=%d dt=%d", s.ssrc, r.Intn(4), seq&0xFFFF, ts&0xFFFFFFFF, r.Pick(0, 1000, s.pace)))
			if r.Chance(1, 4) {
				ops = append(ops, "tick")
			}
		}
	}
	a := &st{ssrc: r.Pick(1, 2, 0, 4294967295, 777, 123456789)}
	fresh(a, r.Pick(90000, 48000, 8000))
	b := &st{ssrc: a.ssrc ^ 1}
	fresh(b, r.Pick(90000, 48000, 8000))
	bind(a)
	variant := r.Pick(0, 0, 0, 1, 2, 3, 4)
	if variant != 4 {
		phase(r.Range(3, 25), a)
	}
	for rounds := r.Pick(1, 1, 2, 3); rounds > 0; rounds-- {
		oldExt, oldTs := a.ext, a.ts
		switch variant {
		case 0, 4: // bound again while still bound (4: before the first packet)
			fresh(a, otherRate(a.rate))
			bind(a)
		case 1: // Unbind, then Bind
			ops = append(ops, fmt.Sprintf("unbind ssrc=%d dt=%d", a.ssrc, r.Pick(0, 1000)))
			if r.Bool() {
				ops = append(ops, "tick")
			}
			fresh(a, otherRate(a.rate))
			bind(a)
		case 2: // the Bind of a second SSRC in between
			fresh(b, b.rate)
			bind(b)
			phase(r.Range(1, 10), a, b)
			fresh(a, otherRate(a.rate))
			bind(a)
		case 3: // twice in a row, the second with the rate that counts
			fresh(a, otherRate(a.rate))
			bind(a)
			fresh(a, otherRate(a.rate))
			bind(a)
		}
		stale := r.Chance(2, 3)
		if stale && r.Bool() {
			staleOps(a, oldExt, oldTs) // before the new binding has received anything
		}
		if variant == 2 {
			phase(r.Range(3, 25), a, b)
		} else {
			phase(r.Range(3, 25), a)
		}
		if stale {
			staleOps(a, oldExt, oldTs)
			phase(r.Range(1, 6), a)
			ops = append(ops, "tick")
		}
		variant = r.Pick(0, 0, 1, 2, 3)
	}
	if r.Bool() {
		ops = append(ops, "tick")
	}
	return Case{Class: "rebind", Ops: ops}
}

package corr

// The "ambient" of a case: what surrounds the interceptor under test.  By property C01 every interceptor of the
// library is transparent for traffic it does not own, so a component's model stays valid when the interceptor is
// built into a chain with transparent, silent neighbours, when the caller passes fresh StreamInfo pointers, and
// when the transport below returns nil attributes.  (An Attributes map belongs to ONE packet: it caches the parsed
// header / parsed RTCP packets under fixed keys, so a caller that hands the same map to a second Read gets the
// first packet's parse on the unchanged tree.  `reuse=1` exists to demonstrate exactly that and is not generated.)  The
// first op of a case may be
//
//	amb before=stats,resp after=rtpfb chain=1 reuse=1 nilattr=1 freshinfo=1
//
// which the framework strips before the component's interpreter runs (the Lean drivers ignore the line): the
// component's outputs must not change.  A change in shared code (attributes.go, chain.go, streaminfo.go, the
// packet factory, a neighbour that edits shared state) then shows up under the property it breaks.
//
// `reusehdr=1`: the application keeps ONE rtp.Header value (one CSRC array, one Extensions array) and one
// extension payload buffer and fills them in place for every packet it writes (`o.Header(h)`).  It may: an
// interceptor that keeps a packet beyond Write keeps a copy.  A shallow copy anywhere in the chain then shows up as
// a retransmission / repair packet that carries a later packet's CSRCs or extension elements.
//
// Neighbours must be silent for the component's observables; a component chooses them per class in its generator
// (never on its malformed-input classes unless the neighbour passes malformed input through unchanged).

import (
	"io"
	"strings"

	"github.com/pion/interceptor"
	"github.com/pion/interceptor/pkg/nack"
	"github.com/pion/interceptor/pkg/packetdump"
	"github.com/pion/interceptor/pkg/rtpfb"
	"github.com/pion/interceptor/pkg/stats"
	"github.com/pion/interceptor/pkg/twcc"
	"github.com/pion/logging"
	"github.com/pion/rtp"
)

// Amb is the parsed `amb` op.
type Amb struct {
	Before, After []string // neighbour kinds: stats, resp, rtpfb, hdr, dumps, dumpr, noop
	Chain         bool     // build through interceptor.NewChain even without neighbours
	Reuse         bool     // the caller passes one long-lived Attributes map to every Read/Write
	NilAttr       bool     // the transport below returns nil attributes from Read
	FreshInfo     bool     // Unbind* gets an equal but distinct *StreamInfo
	ReuseHdr      bool     // the application fills ONE rtp.Header / one extension payload buffer in place for every write
	attrs         interceptor.Attributes
	hdr           *rtp.Header
	csrc          []uint32
	extBuf        []byte
}

func parseAmb(op string) Amb {
	_, m := kv(op)
	split := func(s string) []string {
		if s == "" || s == "-" {
			return nil
		}
		return strings.Split(s, ",")
	}
	return Amb{Before: split(m["before"]), After: split(m["after"]), Chain: m["chain"] == "1", Reuse: m["reuse"] == "1",
		NilAttr: m["nilattr"] == "1", FreshInfo: m["freshinfo"] == "1", ReuseHdr: m["reusehdr"] == "1"}
}

func ambNeighbour(kind string) interceptor.Interceptor {
	lf := logging.NewDefaultLoggerFactory()
	lf.DefaultLogLevel = logging.LogLevelDisabled
	var f interceptor.Factory
	var err error
	switch kind {
	case "stats":
		f, err = stats.NewInterceptor(stats.WithLoggerFactory(lf))
	case "resp":
		f, err = nack.NewResponderInterceptor()
	case "rtpfb":
		f, err = rtpfb.NewInterceptor()
	case "hdr":
		f, err = twcc.NewHeaderExtensionInterceptor()
	case "dumps":
		f, err = packetdump.NewSenderInterceptor(packetdump.RTPWriter(io.Discard), packetdump.RTCPWriter(io.Discard))
	case "dumpr":
		f, err = packetdump.NewReceiverInterceptor(packetdump.RTPWriter(io.Discard), packetdump.RTCPWriter(io.Discard))
	case "noop":
		return &interceptor.NoOp{}
	default:
		panic("unknown ambient neighbour " + kind)
	}
	if err != nil {
		panic(err)
	}
	ic, err := f.NewInterceptor("amb")
	if err != nil {
		panic(err)
	}
	return ic
}

// Wrap builds the interceptor under test into its ambient chain (identity when the case has no ambient).
// interceptor.Chain binds in list order, every interceptor wrapping what the previous one returned: the FIRST
// neighbour of `Before` is innermost (next to the transport: last to see a written packet, first to see a read one),
// the LAST neighbour of `After` is outermost (next to the application).
func (o *Out) Wrap(ic interceptor.Interceptor) interceptor.Interceptor {
	if o == nil || o.Amb == nil || (!o.Amb.Chain && len(o.Amb.Before)+len(o.Amb.After) == 0) {
		return ic
	}
	var all []interceptor.Interceptor
	for _, k := range o.Amb.Before {
		all = append(all, ambNeighbour(k))
	}
	all = append(all, ic)
	for _, k := range o.Amb.After {
		all = append(all, ambNeighbour(k))
	}
	return interceptor.NewChain(all)
}

// Attrs is the Attributes value the caller passes to the next Read/Write: one reused map with `reuse=1`
// (whatever earlier calls cached in it is still there), otherwise what the component would have passed.
func (o *Out) Attrs(dflt interceptor.Attributes) interceptor.Attributes {
	if o == nil || o.Amb == nil || !o.Amb.Reuse {
		return dflt
	}
	if o.Amb.attrs == nil {
		o.Amb.attrs = interceptor.Attributes{}
	}
	return o.Amb.attrs
}

// Has reports whether the ambient chain holds a neighbour of the given kind below (`Before`) resp. above (`After`)
// the interceptor under test.
func (o *Out) Has(kind string, below bool) bool {
	if o == nil || o.Amb == nil {
		return false
	}
	l := o.Amb.After
	if below {
		l = o.Amb.Before
	}
	for _, k := range l {
		if k == kind {
			return true
		}
	}
	return false
}

// Header is the *rtp.Header the application passes to Write for a packet whose header is `h`: `h` itself, or - with
// `reusehdr=1` - the application's one long-lived header, filled in place with the fields of `h` (CSRCs written into
// the same array, extension elements into the same Extensions array, their payloads into one shared byte buffer).
// Whatever an earlier Write left in that header (an element an interceptor appended) is overwritten.
func (o *Out) Header(h *rtp.Header) *rtp.Header {
	if o == nil || o.Amb == nil || !o.Amb.ReuseHdr || h == nil {
		return h
	}
	a := o.Amb
	if a.hdr == nil {
		a.hdr = &rtp.Header{Extensions: make([]rtp.Extension, 0, 8)}
		a.csrc = make([]uint32, 0, 16)
		a.extBuf = make([]byte, 0, 8192)
	}
	r := a.hdr
	exts := r.Extensions[:0] // the array of the previous packet (possibly grown by an interceptor)
	*r = *h
	r.CSRC = nil
	if h.CSRC != nil {
		r.CSRC = append(a.csrc[:0], h.CSRC...)
		a.csrc = r.CSRC
	}
	r.Extensions = nil
	if h.Extensions != nil {
		r.Extensions = append(exts, h.Extensions...)
		// move every element's payload into the one buffer (SetExtension replaces the payload of an existing id;
		// an element the profile check refuses keeps the slice it came with)
		x, buf := r.Extension, a.extBuf[:0]
		r.Extension = true // GetExtensionIDs / SetExtension look at the elements only when the flag is set
		for _, id := range r.GetExtensionIDs() {
			p := r.GetExtension(id)
			if p == nil || len(buf)+len(p) > cap(buf) {
				continue
			}
			off := len(buf)
			buf = append(buf, p...)
			_ = r.SetExtension(id, buf[off:len(buf):len(buf)])
		}
		r.Extension = x
	}
	return r
}

// Bottom is what the transport below returns as attributes from a Read that was given `a`.
func (o *Out) Bottom(a interceptor.Attributes) interceptor.Attributes {
	if o != nil && o.Amb != nil && o.Amb.NilAttr {
		return nil
	}
	return a
}

// UnbindInfo is the StreamInfo pointer handed to Unbind*: an equal copy at another address with `freshinfo=1`.
func (o *Out) UnbindInfo(info *interceptor.StreamInfo) *interceptor.StreamInfo {
	if o == nil || o.Amb == nil || !o.Amb.FreshInfo || info == nil {
		return info
	}
	c := *info
	c.RTPHeaderExtensions = append([]interceptor.RTPHeaderExtension(nil), info.RTPHeaderExtensions...)
	c.RTCPFeedback = append([]interceptor.RTCPFeedback(nil), info.RTCPFeedback...)
	return &c
}

// ambOp renders an `amb` op for generators.
func ambOp(before, after string, chain, reuse, nilattr, freshinfo bool) string {
	b := func(x bool) string {
		if x {
			return "1"
		}
		return "0"
	}
	if before == "" {
		before = "-"
	}
	if after == "" {
		after = "-"
	}
	return "amb before=" + before + " after=" + after + " chain=" + b(chain) + " reuse=" + b(reuse) + " nilattr=" + b(nilattr) + " freshinfo=" + b(freshinfo)
}

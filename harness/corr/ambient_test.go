package corr

// The "ambient" of a case: what surrounds the interceptor under test.  By property C01 every interceptor of the
// library is transparent for traffic it does not own, so a component's model stays valid when the interceptor is
// built into a chain with transparent, silent neighbours, when the caller passes fresh StreamInfo pointers, and
// when the transport below returns nil attributes.  (An Attributes map belongs to ONE packet: it caches the parsed
// header / parsed RTCP packets under fixed keys, so a caller that hands the same map to a second Read gets the
// first packet's parse on the unchanged tree.  `reuse=1` exists to demonstrate exactly that and is not generated.)  The
// first op of a case may be
//
//	amb before=stats,resp after=rtpfb chain=1 reuse=1 nilattr=1 freshinfo=1
//
// which the framework strips before the component's interpreter runs (the Lean drivers ignore the line): the
// component's outputs must not change.  A change in shared code (attributes.go, chain.go, streaminfo.go, the
// packet factory, a neighbour that edits shared state) then shows up under the property it breaks.
//
// `reusehdr=1`: the application keeps ONE rtp.Header value (one CSRC array, one Extensions array) and one
// extension payload buffer and fills them in place for every packet it writes (`o.Header(h)`).  It may: an
// interceptor that keeps a packet beyond Write keeps a copy.  A shallow copy anywhere in the chain then shows up as
// a retransmission / repair packet that carries a later packet's CSRCs or extension elements.
// Further options (all of them invisible to a correct interceptor's model):
//
//	attrs=1           the caller passes a fresh, non-nil Attributes map to every Read/Write (what pion/webrtc does), so
//	                  the interceptors of the chain share one packet's parse cache
//	failrtp=2,3       the calls (1-based) of the bottom RTP writer that return an error; `%4` = every 4th call.  The
//	failrtcp=1,%5     same for the bottom RTCP writer.  The attempted write is still an observable (the component
//	                  prints it as usual); a correct interceptor's later behaviour is what it would have been
//	                  without the failure.
//	errs=eof,osclosed!  WHICH error a failing call returns (a cyclic schedule over the failing calls of both bottom
//	                  writers): closedpipe = io.ErrClosedPipe, osclosed = os.ErrClosed, eof = io.EOF, netclosed =
//	                  net.ErrClosed, canceled = context.Canceled, shortwrite = io.ErrShortWrite, fresh = a new
//	                  errors.New value.  Plain names give a DISTINCT value per failing call that wraps the sentinel
//	                  (errors.Is finds the sentinel, the value itself, and errAmbWrite); `name!` gives the bare
//	                  sentinel.  Without `errs=` the schedule is derived from the text of the `amb` op, so every case
//	                  with a failing writer has its own.  A transport error is the transport's business: an
//	                  interceptor that is still bound keeps working afterwards whatever the value says (C11 "until
//	                  Close", C10 "no call blocks forever").  ambErrsLost(err) lists the values returned by failing
//	                  calls since the last ambErrsMark() that errors.Is does not find in `err` (C01: "errors from
//	                  every member are reported").
//	shapes=padonly,plain,pad1,padmax   a cyclic schedule of wire shapes for the RTP packets the component hands to a
//	                  Read (o.ShapeRaw): the P bit with the padding count in the last octet — the whole payload
//	                  (padding-only), 1, payload-1 —, at unchanged length.  Interceptors parse the header only;
//	                  whatever follows it is payload to them.
//
// Two further general tools live here:
//
//   - `failclose`, a neighbour whose Close returns an error (ErrAmbClose; packetdump with a failing log writer, the cc
//     interceptor with an estimator whose Close fails, an application interceptor): whatever its position, every
//     other member of the chain must still be closed — its goroutines end, its containers are released.
//   - InfoGuard: the *StreamInfo handed to Bind*/Unbind* is the CALLER's.  The chain passes the same pointer to every
//     member, so an interceptor that edits it ("defaults" a field, sorts a list, appends to it) changes what the
//     members bound after it — and the application — see.  A harness wraps every Bind*/Unbind* call in
//     o.InfoGuard(call, info, func(){…}); a difference between a deep copy taken before and the struct after prints
//     `INFO-MUTATED …`, which no model prints.
//
// Neighbours must be silent for the component's observables; a component chooses them per class in its generator
// (never on its malformed-input classes unless the neighbour passes malformed input through unchanged).

import (
	"context"
	"errors"
	"fmt"
	"io"
	"net"
	"os"
	"reflect"
	"strings"
	"sync"
	"sync/atomic"

	"github.com/pion/interceptor"
	"github.com/pion/interceptor/pkg/nack"
	"github.com/pion/interceptor/pkg/packetdump"
	"github.com/pion/interceptor/pkg/rtpfb"
	"github.com/pion/interceptor/pkg/stats"
	"github.com/pion/interceptor/pkg/twcc"
	"github.com/pion/logging"
	"github.com/pion/rtp"
)

// Amb is the parsed `amb` op.
type Amb struct {
	Before, After []string // neighbour kinds: stats, resp, rtpfb, hdr, dumps, dumpr, noop, failclose
	Chain         bool     // build through interceptor.NewChain even without neighbours
	Reuse         bool     // the caller passes one long-lived Attributes map to every Read/Write
	NilAttr       bool     // the transport below returns nil attributes from Read
	FreshInfo     bool     // Unbind* gets an equal but distinct *StreamInfo
	ReuseHdr      bool     // the application fills ONE rtp.Header / one extension payload buffer in place for every write
	attrs         interceptor.Attributes
	hdr           *rtp.Header
	csrc          []uint32
	extBuf        []byte
	FreshAttr     bool     // the caller passes a fresh non-nil Attributes map to every Read/Write
	FailRTP       ambSched // which calls of the bottom RTP writer fail
	FailRTCP      ambSched // which calls of the bottom RTCP writer fail
	Shapes        []string // cyclic schedule of wire shapes for RTP packets handed to a Read
	Errs          []string // cyclic schedule of error kinds for the failing calls of the bottom writers
	nErr          int64
	errMu         *sync.Mutex
	errLog        []error // values returned by failing calls since the last ErrsMark
	nRTP, nRTCP   int64
	nShape        int64
	Opts          map[string]string // every k=v of the op: options private to one component's interpreter
}

// ambSched is a set of 1-based call numbers: listed ones and every multiple of the `%k` entries.
type ambSched struct {
	at    map[int64]bool
	every []int64
}

func parseSched(s string) ambSched {
	sc := ambSched{at: map[int64]bool{}}
	if s == "" || s == "-" {
		return sc
	}
	for _, x := range strings.Split(s, ",") {
		if strings.HasPrefix(x, "%") {
			if k := atoi(x[1:]); k > 0 {
				sc.every = append(sc.every, int64(k))
			}
			continue
		}
		sc.at[int64(atoi(x))] = true
	}
	return sc
}

func (sc ambSched) hit(n int64) bool {
	if sc.at[n] {
		return true
	}
	for _, k := range sc.every {
		if n%k == 0 {
			return true
		}
	}
	return false
}

var errAmbWrite = errors.New("ambient: the transport refused this write")

// AmbErrKinds are the well-known values a transport (or any io.Writer the application supplies) fails with.
var AmbErrKinds = []string{"closedpipe", "osclosed", "eof", "netclosed", "canceled", "shortwrite", "fresh"}

// ambErr is one failing call's own error value: it wraps the sentinel of its kind, and errors.Is also finds
// errAmbWrite in it (harnesses written before `errs=` test for that).
type ambErr struct {
	n    int64
	kind string
	base error
}

func (e *ambErr) Error() string { return fmt.Sprintf("write #%d refused (%s): %v", e.n, e.kind, e.base) }
func (e *ambErr) Unwrap() error { return e.base }
func (e *ambErr) Is(target error) bool {
	return target == errAmbWrite //nolint:errorlint // identity is meant
}

// AmbErrOf is the error value of one failing call: `kind` names the sentinel; with a trailing `!` the bare
// sentinel itself, otherwise a distinct value that wraps it (n tells the values of one case apart).
func AmbErrOf(kind string, n int64) error {
	bare := strings.HasSuffix(kind, "!")
	kind = strings.TrimSuffix(kind, "!")
	var base error
	switch kind {
	case "closedpipe":
		base = io.ErrClosedPipe
	case "osclosed":
		base = os.ErrClosed
	case "eof":
		base = io.EOF
	case "netclosed":
		base = net.ErrClosed
	case "canceled":
		base = context.Canceled
	case "shortwrite":
		base = io.ErrShortWrite
	case "fresh":
		base = errors.New("ambient: a fresh error value") //nolint:err113 // a value nobody can know
	default:
		base = errAmbWrite
		kind = "amb"
	}
	if bare {
		return base
	}
	return &ambErr{n: n, kind: kind, base: base}
}

// AmbFailWriter is an io.Writer an application may hand to an interceptor (a dump file, a log): the calls of the
// schedule fail with the error kinds of `Kinds` in turn, every other call succeeds and discards.
type AmbFailWriter struct {
	Sched ambSched
	Kinds []string
	n, k  int64
}

func (w *AmbFailWriter) Write(p []byte) (int, error) {
	if w.Sched.hit(atomic.AddInt64(&w.n, 1)) {
		k := atomic.AddInt64(&w.k, 1)
		kind := "amb"
		if len(w.Kinds) > 0 {
			kind = w.Kinds[int(k-1)%len(w.Kinds)]
		}
		return 0, AmbErrOf(kind, k)
	}
	return len(p), nil
}

// ambErrKinds draws an `errs=` schedule for generators: 1..7 kinds (a writer that keeps failing walks through all of
// them), one in four of them bare.
func ambErrKinds(r *Rng) string {
	n := r.Range(1, 7)
	xs := make([]string, n)
	for i := range xs {
		xs[i] = AmbErrKinds[r.Intn(len(AmbErrKinds))]
		if r.Chance(1, 4) {
			xs[i] += "!"
		}
	}
	return "errs=" + strings.Join(xs, ",")
}

// nextErr is the value the next failing call returns.
func (a *Amb) nextErr() error {
	n := atomic.AddInt64(&a.nErr, 1)
	err := errAmbWrite
	if len(a.Errs) > 0 {
		err = AmbErrOf(a.Errs[int(n-1)%len(a.Errs)], n)
	}
	a.errMu.Lock()
	a.errLog = append(a.errLog, err)
	a.errMu.Unlock()
	return err
}

// ErrsMark forgets the failures seen so far; ErrsLost lists the values returned by failing calls since the last
// mark that errors.Is does not find in `err` ("" when every one of them is reported).
func (o *Out) ErrsMark() {
	if o != nil && o.Amb != nil {
		o.Amb.errMu.Lock()
		o.Amb.errLog = nil
		o.Amb.errMu.Unlock()
	}
}

func (o *Out) ErrsLost(err error) string {
	if o == nil || o.Amb == nil {
		return ""
	}
	o.Amb.errMu.Lock()
	defer o.Amb.errMu.Unlock()
	var lost []string
	for _, e := range o.Amb.errLog {
		if !errors.Is(err, e) {
			lost = append(lost, strings.ReplaceAll(e.Error(), " ", "_"))
		}
	}
	return strings.Join(lost, ";")
}

func parseAmb(op string) Amb {
	_, m := kv(op)
	split := func(s string) []string {
		if s == "" || s == "-" {
			return nil
		}
		return strings.Split(s, ",")
	}
	errs := split(m["errs"])
	if _, given := m["errs"]; !given && (m["failrtp"] != "" || m["failrtcp"] != "") {
		// no schedule given: the case's own, derived from the text of the op (distinct wrapping values only, so that
		// errors.Is(err, errAmbWrite) keeps holding for harnesses that test it)
		h := uint64(14695981039346656037) // FNV-1a
		for i := 0; i < len(op); i++ {
			h = (h ^ uint64(op[i])) * 1099511628211
		}
		r := NewRng(h)
		for k := r.Range(1, 3); k > 0; k-- {
			errs = append(errs, AmbErrKinds[r.Intn(len(AmbErrKinds))])
		}
	}
	return Amb{Before: split(m["before"]), After: split(m["after"]), Chain: m["chain"] == "1", Reuse: m["reuse"] == "1",
		NilAttr: m["nilattr"] == "1", FreshInfo: m["freshinfo"] == "1", ReuseHdr: m["reusehdr"] == "1", FreshAttr: m["attrs"] == "1",
		FailRTP: parseSched(m["failrtp"]), FailRTCP: parseSched(m["failrtcp"]), Shapes: split(m["shapes"]), Opts: m, Errs: errs, errMu: &sync.Mutex{}}
}

func ambNeighbour(kind string) interceptor.Interceptor {
	lf := logging.NewDefaultLoggerFactory()
	lf.DefaultLogLevel = logging.LogLevelDisabled
	var f interceptor.Factory
	var err error
	switch kind {
	case "stats":
		f, err = stats.NewInterceptor(stats.WithLoggerFactory(lf))
	case "resp":
		f, err = nack.NewResponderInterceptor()
	case "rtpfb":
		f, err = rtpfb.NewInterceptor()
	case "hdr":
		f, err = twcc.NewHeaderExtensionInterceptor()
	case "dumps":
		f, err = packetdump.NewSenderInterceptor(packetdump.RTPWriter(io.Discard), packetdump.RTCPWriter(io.Discard))
	case "dumpr":
		f, err = packetdump.NewReceiverInterceptor(packetdump.RTPWriter(io.Discard), packetdump.RTCPWriter(io.Discard))
	case "noop":
		return &interceptor.NoOp{}
	case "failclose":
		return &ambFailClose{}
	default:
		panic("unknown ambient neighbour " + kind)
	}
	if err != nil {
		panic(err)
	}
	ic, err := f.NewInterceptor("amb")
	if err != nil {
		panic(err)
	}
	return ic
}

// ErrAmbClose is what the `failclose` neighbour's Close returns.
var ErrAmbClose = errors.New("ambient neighbour: close failed")

// ambFailClose is transparent for all traffic; its Close fails (every time it is called).
type ambFailClose struct{ interceptor.NoOp }

func (*ambFailClose) Close() error { return ErrAmbClose }

// cloneInfo is a deep copy of the fields an interceptor could edit (the Attributes bag, which exists to be written
// to, is left out).
func cloneInfo(info *interceptor.StreamInfo) *interceptor.StreamInfo {
	if info == nil {
		return nil
	}
	c := *info
	c.Attributes = nil
	c.RTPHeaderExtensions = append([]interceptor.RTPHeaderExtension(nil), info.RTPHeaderExtensions...)
	c.RTCPFeedback = append([]interceptor.RTCPFeedback(nil), info.RTCPFeedback...)
	return &c
}

// infoDiff lists the fields in which `now` differs from the copy `was` ("" when equal).
func infoDiff(was, now *interceptor.StreamInfo) string {
	if was == nil || now == nil {
		return ""
	}
	var d []string
	add := func(name string, a, b any) {
		if fmt.Sprint(a) != fmt.Sprint(b) {
			d = append(d, fmt.Sprintf("%s:%v->%v", name, a, b))
		}
	}
	add("ID", was.ID, now.ID)
	add("SSRC", was.SSRC, now.SSRC)
	add("SSRCRetransmission", was.SSRCRetransmission, now.SSRCRetransmission)
	add("SSRCForwardErrorCorrection", was.SSRCForwardErrorCorrection, now.SSRCForwardErrorCorrection)
	add("PayloadType", was.PayloadType, now.PayloadType)
	add("PayloadTypeRetransmission", was.PayloadTypeRetransmission, now.PayloadTypeRetransmission)
	add("PayloadTypeForwardErrorCorrection", was.PayloadTypeForwardErrorCorrection, now.PayloadTypeForwardErrorCorrection)
	add("MimeType", was.MimeType, now.MimeType)
	add("ClockRate", was.ClockRate, now.ClockRate)
	add("Channels", was.Channels, now.Channels)
	add("SDPFmtpLine", was.SDPFmtpLine, now.SDPFmtpLine)
	add("RTPHeaderExtensions", fmt.Sprintf("%+v", was.RTPHeaderExtensions), fmt.Sprintf("%+v", now.RTPHeaderExtensions))
	add("RTCPFeedback", fmt.Sprintf("%+v", was.RTCPFeedback), fmt.Sprintf("%+v", now.RTCPFeedback))
	return strings.ReplaceAll(strings.Join(d, ";"), " ", "_")
}

// InfoGuard runs one Bind*/Unbind* call and reports an edit of the caller's StreamInfo.
func (o *Out) InfoGuard(call string, info *interceptor.StreamInfo, f func()) {
	was := cloneInfo(info)
	f()
	if d := infoDiff(was, info); d != "" && o != nil {
		o.P("INFO-MUTATED call=%s ssrc=%d %s", call, was.SSRC, d)
	}
}

// Wrap builds the interceptor under test into its ambient chain (identity when the case has no ambient).
// interceptor.Chain binds in list order, every interceptor wrapping what the previous one returned: the FIRST
// neighbour of `Before` is innermost (next to the transport: last to see a written packet, first to see a read one),
// the LAST neighbour of `After` is outermost (next to the application).
func (o *Out) Wrap(ic interceptor.Interceptor) interceptor.Interceptor {
	if o == nil || o.Amb == nil || (!o.Amb.Chain && len(o.Amb.Before)+len(o.Amb.After) == 0) {
		return ic
	}
	var all []interceptor.Interceptor
	for _, k := range o.Amb.Before {
		all = append(all, ambNeighbour(k))
	}
	all = append(all, ic)
	for _, k := range o.Amb.After {
		all = append(all, ambNeighbour(k))
	}
	return interceptor.NewChain(all)
}

// Attrs is the Attributes value the caller passes to the next Read/Write: one reused map with `reuse=1`
// (whatever earlier calls cached in it is still there), otherwise what the component would have passed.
func (o *Out) Attrs(dflt interceptor.Attributes) interceptor.Attributes {
	if o != nil && o.Amb != nil && o.Amb.FreshAttr && !o.Amb.Reuse && dflt == nil {
		return interceptor.Attributes{}
	}
	if o == nil || o.Amb == nil || !o.Amb.Reuse {
		return dflt
	}
	if o.Amb.attrs == nil {
		o.Amb.attrs = interceptor.Attributes{}
	}
	return o.Amb.attrs
}

// Has reports whether the ambient chain holds a neighbour of the given kind below (`Before`) resp. above (`After`)
// the interceptor under test.
func (o *Out) Has(kind string, below bool) bool {
	if o == nil || o.Amb == nil {
		return false
	}
	l := o.Amb.After
	if below {
		l = o.Amb.Before
	}
	for _, k := range l {
		if k == kind {
			return true
		}
	}
	return false
}

// Header is the *rtp.Header the application passes to Write for a packet whose header is `h`: `h` itself, or - with
// `reusehdr=1` - the application's one long-lived header, filled in place with the fields of `h` (CSRCs written into
// the same array, extension elements into the same Extensions array, their payloads into one shared byte buffer).
// Whatever an earlier Write left in that header (an element an interceptor appended) is overwritten.
func (o *Out) Header(h *rtp.Header) *rtp.Header {
	if o == nil || o.Amb == nil || !o.Amb.ReuseHdr || h == nil {
		return h
	}
	a := o.Amb
	if a.hdr == nil {
		a.hdr = &rtp.Header{Extensions: make([]rtp.Extension, 0, 8)}
		a.csrc = make([]uint32, 0, 16)
		a.extBuf = make([]byte, 0, 8192)
	}
	r := a.hdr
	exts := r.Extensions[:0] // the array of the previous packet (possibly grown by an interceptor)
	*r = *h
	r.CSRC = nil
	if h.CSRC != nil {
		r.CSRC = append(a.csrc[:0], h.CSRC...)
		a.csrc = r.CSRC
	}
	r.Extensions = nil
	if h.Extensions != nil {
		r.Extensions = append(exts, h.Extensions...)
		// move every element's payload into the one buffer (SetExtension replaces the payload of an existing id;
		// an element the profile check refuses keeps the slice it came with)
		x, buf := r.Extension, a.extBuf[:0]
		r.Extension = true // GetExtensionIDs / SetExtension look at the elements only when the flag is set
		for _, id := range r.GetExtensionIDs() {
			p := r.GetExtension(id)
			if p == nil || len(buf)+len(p) > cap(buf) {
				continue
			}
			off := len(buf)
			buf = append(buf, p...)
			_ = r.SetExtension(id, buf[off:len(buf):len(buf)])
		}
		r.Extension = x
	}
	return r
}

// Bottom is what the transport below returns as attributes from a Read that was given `a`.
func (o *Out) Bottom(a interceptor.Attributes) interceptor.Attributes {
	if o != nil && o.Amb != nil && o.Amb.NilAttr {
		return nil
	}
	return a
}

// RTPWriteErr is called by the component's bottom RTP writer once per call: the error this call returns (the
// component records / prints the attempted write as usual).
func (o *Out) RTPWriteErr() error {
	if o == nil || o.Amb == nil {
		return nil
	}
	if o.Amb.FailRTP.hit(atomic.AddInt64(&o.Amb.nRTP, 1)) {
		return o.Amb.nextErr()
	}
	return nil
}

// RTCPWriteErr: the same for the bottom RTCP writer.
func (o *Out) RTCPWriteErr() error {
	if o == nil || o.Amb == nil {
		return nil
	}
	if o.Amb.FailRTCP.hit(atomic.AddInt64(&o.Amb.nRTCP, 1)) {
		return o.Amb.nextErr()
	}
	return nil
}

// ambRTPHeaderLen is the length of the RTP header of a well-formed marshalled packet (12 + CSRCs + extension block).
func ambRTPHeaderLen(raw []byte) int {
	if len(raw) < 12 {
		return -1
	}
	n := 12 + 4*int(raw[0]&0x0F)
	if raw[0]&0x10 != 0 {
		if len(raw) < n+4 {
			return -1
		}
		n += 4 + 4*(int(raw[n+2])<<8|int(raw[n+3]))
	}
	if len(raw) < n {
		return -1
	}
	return n
}

// ShapeRaw gives a marshalled, well-formed RTP packet the next wire shape of the case's schedule, in place and at
// unchanged length: `padonly` — P bit, the padding count (last octet) is everything after the header; `pad1` — P bit,
// count 1; `padmax` — P bit, count = payload-1; `plain` (and any packet the shape does not fit: empty payload,
// more than 255 octets to cover) — unchanged.
func (o *Out) ShapeRaw(raw []byte) []byte {
	if o == nil || o.Amb == nil || len(o.Amb.Shapes) == 0 {
		return raw
	}
	shape := o.Amb.Shapes[int(atomic.AddInt64(&o.Amb.nShape, 1)-1)%len(o.Amb.Shapes)]
	h := ambRTPHeaderLen(raw)
	if h < 0 || raw[0]&0x20 != 0 {
		return raw
	}
	pl := len(raw) - h
	count := 0
	switch shape {
	case "padonly":
		count = pl
	case "pad1":
		count = 1
	case "padmax":
		count = pl - 1
	}
	if count < 1 || count > 255 || count > pl {
		return raw
	}
	raw[0] |= 0x20
	raw[len(raw)-1] = byte(count)
	return raw
}

// UnbindInfo is the StreamInfo pointer handed to Unbind*: an equal copy at another address with `freshinfo=1`.
func (o *Out) UnbindInfo(info *interceptor.StreamInfo) *interceptor.StreamInfo {
	if o == nil || o.Amb == nil || !o.Amb.FreshInfo || info == nil {
		return info
	}
	c := *info
	c.RTPHeaderExtensions = append([]interceptor.RTPHeaderExtension(nil), info.RTPHeaderExtensions...)
	c.RTCPFeedback = append([]interceptor.RTCPFeedback(nil), info.RTCPFeedback...)
	return &c
}

// ambOp renders an `amb` op for generators.
func ambOp(before, after string, chain, reuse, nilattr, freshinfo bool) string {
	b := func(x bool) string {
		if x {
			return "1"
		}
		return "0"
	}
	if before == "" {
		before = "-"
	}
	if after == "" {
		after = "-"
	}
	return "amb before=" + before + " after=" + after + " chain=" + b(chain) + " reuse=" + b(reuse) + " nilattr=" + b(nilattr) + " freshinfo=" + b(freshinfo)
}

// ambWith appends further options (`attrs=1`, `failrtcp=2,3`, `shapes=…`) to an `amb` op.
func ambWith(op string, extra ...string) string {
	for _, e := range extra {
		if e != "" {
			op += " " + e
		}
	}
	return op
}

// ambShapes draws a `shapes=` schedule: 1..6 entries, padding-only packets in most of them.
func ambShapes(r *Rng) string {
	all := []string{"padonly", "padonly", "pad1", "padmax", "plain"}
	n := r.Range(1, 6)
	xs := make([]string, n)
	for i := range xs {
		xs[i] = all[r.Intn(len(all))]
	}
	return "shapes=" + strings.Join(xs, ",")
}

// Two peer connections: a registry builds one interceptor per PeerConnection from ONE factory.  An op written as
//
//	twin <op>
//
// is addressed to a second interceptor built from the same factory as the one under test.  The Lean side
// (Driver/Util.lean, runLines) runs it on a second, independent instance of the same model and prefixes its output
// with `twin `: whatever the twin sends or reads, the first instance prints what it would have printed alone.

// twinOp splits the `twin ` prefix off an op: who = 1 for the twin, 0 for the interceptor under test.
func twinOp(op string) (rest string, who int) {
	if strings.HasPrefix(op, "twin ") {
		return strings.TrimSpace(op[len("twin "):]), 1
	}
	return op, 0
}

// PW prints an output line of instance `who` (the twin's lines carry the prefix `twin `).
func (o *Out) PW(who int, format string, a ...any) {
	if who == 1 {
		o.P("twin "+format, a...)
		return
	}
	o.P(format, a...)
}

// twinInterleave merges the op lists of two independently generated cases into one case: the first list
// unchanged and in order, the second in order with every op addressed to the twin; runs of 1..maxRun ops alternate.
func twinInterleave(r *Rng, a, b []string, maxRun int) []string {
	out := make([]string, 0, len(a)+len(b))
	for len(a) > 0 || len(b) > 0 {
		for k := r.Range(1, maxRun); k > 0 && len(a) > 0; k-- {
			out = append(out, a[0])
			a = a[1:]
		}
		for k := r.Range(1, maxRun); k > 0 && len(b) > 0; k-- {
			out = append(out, "twin "+b[0])
			b = b[1:]
		}
	}
	return out
}

// infoGuard remembers a deep copy of a caller's StreamInfo; Check reports whether the interceptor edited it
// (the StreamInfo handed to Bind*Stream stays the caller's: the same value is handed to every interceptor of
// the chain and to the matching Unbind).
type infoGuard struct {
	p    *interceptor.StreamInfo
	copy interceptor.StreamInfo
}

func guardInfo(info *interceptor.StreamInfo) infoGuard {
	c := *info
	if info.RTPHeaderExtensions != nil { // keep nil and empty apart: reflect.DeepEqual does
		c.RTPHeaderExtensions = make([]interceptor.RTPHeaderExtension, len(info.RTPHeaderExtensions))
		copy(c.RTPHeaderExtensions, info.RTPHeaderExtensions)
	}
	if info.RTCPFeedback != nil {
		c.RTCPFeedback = make([]interceptor.RTCPFeedback, len(info.RTCPFeedback))
		copy(c.RTCPFeedback, info.RTCPFeedback)
	}
	if info.Attributes != nil {
		c.Attributes = interceptor.Attributes{}
		for k, v := range info.Attributes {
			c.Attributes[k] = v
		}
	}
	return infoGuard{p: info, copy: c}
}

// Check returns "" when the StreamInfo is unchanged, otherwise a description for a STREAMINFO-EDITED line.
func (g infoGuard) Check() string {
	if reflect.DeepEqual(*g.p, g.copy) {
		return ""
	}
	return fmt.Sprintf("before=%+v after=%+v", g.copy, *g.p)
}

package corr

// C05 — component `twccrec`: the public twcc.Recorder (NewRecorder, Record, BuildFeedbackPacket).
//
// ops:   cfg sender=<u32> media=<u32>      fresh recorder (default sender=16909060 media=168496141)
//        rec seq=<u16> t=<int64 µs> [ssrc=<u32>]
//        recrun seq=<u16> t=<int64> n=<1..40000> dt=<int64> step=<1..1000>   n records: seq+i*step at t+i*dt
//        build
// observable per build: `build n=<packets>` and, for every returned rtcp.TransportLayerCC, after
// Marshal -> Unmarshal by the real pion/rtcp, one `fb …` line (see c05FbLine).

import (
	"fmt"
	"strings"
	"testing"

	"github.com/pion/interceptor/pkg/twcc"
	"github.com/pion/rtcp"
)

const (
	c05Sender = 16909060
	c05Media  = 168496141
)

// c05FbLine prints a feedback packet in canonical text, from the packet the real rtcp parser returns
// for the bytes the real marshaller produced.
func c05FbLine(p rtcp.Packet) string {
	orig, ok := p.(*rtcp.TransportLayerCC)
	if !ok {
		return fmt.Sprintf("fb err:type %T", p)
	}
	raw, err := orig.Marshal()
	if err != nil {
		return "fb err:marshal"
	}
	var fb rtcp.TransportLayerCC
	if err = fb.Unmarshal(raw); err != nil {
		return "fb err:unmarshal"
	}
	var cs []string
	for _, ch := range fb.PacketChunks {
		switch c := ch.(type) {
		case *rtcp.RunLengthChunk:
			cs = append(cs, fmt.Sprintf("R:%d:%d", c.PacketStatusSymbol, c.RunLength))
		case *rtcp.StatusVectorChunk:
			var sb strings.Builder
			if c.SymbolSize == rtcp.TypeTCCSymbolSizeOneBit {
				sb.WriteString("V1:")
			} else if c.SymbolSize == rtcp.TypeTCCSymbolSizeTwoBit {
				sb.WriteString("V2:")
			} else {
				fmt.Fprintf(&sb, "V?%d:", c.SymbolSize)
			}
			for _, s := range c.SymbolList {
				fmt.Fprintf(&sb, "%d", s)
			}
			cs = append(cs, sb.String())
		default:
			cs = append(cs, "?")
		}
	}
	var ds []string
	for _, d := range fb.RecvDeltas {
		k := "?"
		switch d.Type {
		case rtcp.TypeTCCPacketReceivedSmallDelta:
			k = "S"
		case rtcp.TypeTCCPacketReceivedLargeDelta:
			k = "L"
		}
		if d.Delta%rtcp.TypeTCCDeltaScaleFactor != 0 {
			k = "X" + k
		}
		ds = append(ds, fmt.Sprintf("%s:%d", k, d.Delta/rtcp.TypeTCCDeltaScaleFactor))
	}
	join := func(xs []string) string {
		if len(xs) == 0 {
			return "-"
		}
		return strings.Join(xs, ",")
	}
	pad := 0
	if fb.Header.Padding {
		pad = 1
	}
	return fmt.Sprintf("fb ss=%d ms=%d base=%d n=%d ref=%d cnt=%d chunks=%s deltas=%s len=%d hdr=%d pad=%d",
		fb.SenderSSRC, fb.MediaSSRC, fb.BaseSequenceNumber, fb.PacketStatusCount, fb.ReferenceTime, fb.FbPktCount,
		join(cs), join(ds), len(raw), 4*(int(fb.Header.Length)+1), pad)
}

// c05Gen is the generator state of one case.
type c05Gen struct {
	r   *Rng
	ops []string
	seq int   // next transport-wide sequence number (unbounded; masked when emitted)
	t   int64 // current arrival time, µs
	// history of emitted (seq) for duplicates
	hist   []int
	pBuild int // chance in 1000 of a build after a record
	max    int
	// cost control: a build reports up to 2^15 statuses from the lowest number recorded since the
	// previous build; the sum over a case is bounded so that no case takes seconds.
	lowSince, high int
	estLast, estU  int
	anySince       bool
	budget         int
}

func (g *c05Gen) full() bool { return len(g.ops) >= g.max }

func (g *c05Gen) rec(seq int, t int64) {
	if g.full() {
		return
	}
	if t < 0 {
		t = 0
	}
	g.ops = append(g.ops, fmt.Sprintf("rec seq=%d t=%d", ((seq%65536)+65536)%65536, t))
	// cost estimate on the generator's own half-range unwrapping of what was emitted
	d := (((seq - g.estLast) % 65536) + 65536) % 65536
	if d >= 32768 {
		d -= 65536
	}
	u := g.estU + d
	g.estLast, g.estU = seq, u
	if u > g.high || g.high-u > 32768 {
		g.high = u
	}
	if !g.anySince || u < g.lowSince {
		g.lowSince = u
	}
	g.anySince = true
	if g.r.Intn(1000) < g.pBuild {
		g.build()
	}
}

func (g *c05Gen) build() {
	if g.full() {
		return
	}
	g.ops = append(g.ops, "build")
	if g.anySince {
		span := g.high - g.lowSince + 1
		if span > 32768 {
			span = 32768
		}
		if span > 0 {
			g.budget -= span
		}
		g.anySince = false
		if g.budget < 0 && g.max > len(g.ops) {
			g.max = len(g.ops)
		}
	}
}

// segment kinds
func (g *c05Gen) steady(n int, dt int64) {
	for i := 0; i < n; i++ {
		g.rec(g.seq, g.t)
		g.seq++
		g.t += dt
	}
}

func (g *c05Gen) jitter(n int) {
	for i := 0; i < n; i++ {
		g.rec(g.seq, g.t)
		g.seq++
		g.t += int64(g.r.Pick(0, 1, 124, 125, 126, 249, 250, 251, 374, 375, 376, 1000, 5000, 20000, 63624, 63625, 63750, 63874, 63875, 63876, 64000, 70000))
	}
}

func (g *c05Gen) straddle(n int) {
	for i := 0; i < n; i++ {
		k := g.t/64000 + int64(g.r.Range(0, 2))
		g.t = k*64000 + int64(g.r.Pick(-251, -250, -126, -125, -124, -1, 0, 1, 124, 125, 126, 250, 63999))
		if g.t < 0 {
			g.t = 0
		}
		g.rec(g.seq, g.t)
		g.seq++
	}
}

func (g *c05Gen) overflow(n int) {
	for i := 0; i < n; i++ {
		g.rec(g.seq, g.t)
		g.seq++
		g.t += 8191750 + int64(g.r.Pick(-250, -126, -125, -124, -1, 0, 1, 124, 125, 126, 249, 250, 251, 500))
	}
	g.rec(g.seq, g.t)
	g.seq++
}

// negative overflow: numbers in increasing order get decreasing times 8.19 s apart
func (g *c05Gen) negOverflow(n int) {
	base := g.t + int64(n+1)*8193000
	for i := 0; i < n; i++ {
		g.rec(g.seq, base)
		g.seq++
		base -= 8192000 + int64(g.r.Pick(-250, -126, -125, -124, -1, 0, 1, 124, 125, 126, 250))
	}
	g.t += int64(n+1) * 8193000
}

// reorder: a block of k numbers delivered in a shuffled order at increasing times.
func (g *c05Gen) reorder(k int, dt int64) {
	idx := make([]int, k)
	for i := range idx {
		idx[i] = i
	}
	for i := k - 1; i > 0; i-- {
		j := g.r.Intn(i + 1)
		idx[i], idx[j] = idx[j], idx[i]
	}
	for _, d := range idx {
		g.rec(g.seq+d, g.t)
		g.t += dt
	}
	g.seq += k
}

func (g *c05Gen) silence() {
	g.t += int64(g.r.Pick(400_000, 499_999, 500_000, 500_001, 600_000, 2_000_000, 60_000_000, 300_000_000, 1_800_000_000))
}

func (g *c05Gen) loss(n int) { g.seq += n }

func (g *c05Gen) dup() {
	if len(g.hist) == 0 {
		return
	}
	s := g.hist[g.r.Intn(len(g.hist))]
	g.rec(s, g.t+int64(g.r.Pick(0, 250, 1000, 100000, 600000)))
}

// late: a number before everything seen recently
func (g *c05Gen) late() {
	back := g.r.Pick(1, 2, 5, 100, 127, 128, 129, 1000, 32766, 32767, 32768, 32769, 40000)
	g.rec(g.seq-back, g.t)
	g.t += int64(g.r.Pick(0, 1000))
}

var c05Classes = []string{
	"steady", "zero", "straddle", "overflow", "negdelta", "silence", "lossburst", "wrapjump",
	"dup", "buildevery", "reftime", "mixed", "runs", "edge",
}

// c05Giant: tens of thousands of records and (almost) no build: the only way to reach the size
// split of one feedback packet (maxDeltaBytes = 48 KiB of recv deltas, F-33/F-37). The records are
// written as `recrun` ops so that a case stays a few dozen lines. The generator keeps its own count of
// the delta bytes (1 for a spacing below 63.75 ms, 2 otherwise) and puts losses around the number at
// which the packet is full: either a stretch where every other number is lost (whatever the exact split
// point, the packet that no longer fits is preceded by a lost number) or one loss burst of drawn
// length at the estimated split point -1/0/+1. Ranges of the two packets of the build must not overlap.
func c05Giant(r *Rng) Case {
	var ops []string
	seq := r.Intn(65536)
	t := int64(r.Pick(0, 1000, 100000, 123456789))
	emit := func(n int, dt int64, step int) {
		if n <= 0 {
			return
		}
		ops = append(ops, fmt.Sprintf("recrun seq=%d t=%d n=%d dt=%d step=%d", seq%65536, t, n, dt, step))
		seq += n * step
		t += int64(n) * dt
	}
	if r.Chance(1, 4) {
		ops = append(ops, fmt.Sprintf("cfg sender=%d media=%d", r.U64()&0xFFFFFFFF, r.U64()&0xFFFFFFFF))
	}
	rounds := r.Pick(1, 1, 2)
	for k := 0; k < rounds; k++ {
		small := int64(r.Pick(0, 250, 1000, 20000, 60000))
		large := int64(r.Pick(64000, 70000, 100000, 8000000))
		nSmall := r.Pick(0, 0, 1, 500, 3000, 8000, 14000) // one-byte deltas first: the split point moves
		// delta bytes after the i-th record of this build (0-based): the very first delta is relative to
		// the 64 ms reference (one byte, as t0 % 64 ms is small here); the next nSmall are small, the rest large.
		// the record with index `fit` is the first that does not fit any more.
		bytes, fit := 0, 0
		for bytes < 49152 {
			if fit == 0 || fit <= nSmall {
				bytes++
			} else {
				bytes += 2
			}
			fit++
		}
		mode := r.Intn(4)
		switch mode {
		case 0, 1: // every other number lost in a stretch around the split point
			half := r.Pick(3, 10, 40)
			emit(nSmall, small, 1)
			emit(fit-half-nSmall, large, 1)
			emit(2*half, large, r.Pick(2, 2, 3))
			emit(r.Range(0, 600), large, 1)
		case 2: // one loss burst of drawn length at the estimated split point
			emit(nSmall, small, 1)
			emit(fit+r.Pick(-1, 0, 0, 0, 1)-nSmall, large, 1)
			seq += r.Pick(1, 1, 2, 3, 7, 8, 14, 15, 40, 200)
			emit(r.Range(1, 600), large, 1)
		default: // no loss at all, or a build in the middle
			emit(nSmall, small, 1)
			cut := r.Range(1, fit-nSmall)
			emit(cut, large, 1)
			if r.Chance(1, 2) {
				ops = append(ops, "build")
			}
			emit(fit-nSmall-cut+r.Range(0, 600), large, 1)
		}
		ops = append(ops, "build")
		// a late packet inside the reported range: everything above it is reported again
		if r.Chance(1, 3) {
			ops = append(ops, fmt.Sprintf("rec seq=%d t=%d", (seq-r.Range(2, 30000)+65536*4)%65536, t))
			ops = append(ops, "build")
		}
		t += int64(r.Pick(1000, 70000, 600000))
	}
	emit(3, 1000, 1)
	ops = append(ops, "build")
	return Case{Class: "giant", Ops: ops}
}

// c05Long: MANY SMALL builds from ONE Recorder. The clause "the feedback packet count increases by one per packet
// (mod 256)" speaks about every packet a recorder ever makes, so a case must outlive the 8-bit count: 260..640 feedback
// packets, one per build mostly, sometimes two (the second arrival is more than the largest delta, 8191.75 ms, after
// the first: it does not fit the packet), sometimes none (a build with nothing new must not use up a count).  Three
// ops per packet: the whole case costs less than one `giant` record run.
func c05Long(r *Rng) Case {
	var ops []string
	if r.Chance(1, 4) {
		ops = append(ops, fmt.Sprintf("cfg sender=%d media=%d", r.U64()&0xFFFFFFFF, r.U64()&0xFFFFFFFF))
	}
	seq := r.Intn(65536)
	t := int64(r.Pick(0, 1000, 63999, 64000, 123456789))
	rec := func(dt int64) {
		ops = append(ops, fmt.Sprintf("rec seq=%d t=%d", seq%65536, t))
		seq++
		t += dt
	}
	target := r.Pick(260, 300, 515, 530, 640) // 515 and more: the count passes 255 twice
	for pk := 0; pk < target; {
		switch r.Intn(10) {
		case 0: // two packets from one build
			rec(8191750 + int64(r.Pick(250, 1000, 500000)))
			rec(int64(r.Pick(250, 1000, 20000)))
			pk += 2
		case 1: // a build with nothing new in between
			rec(int64(r.Pick(250, 1000, 20000)))
			ops = append(ops, "build")
			pk++
		case 2: // a few numbers lost before the packet
			seq += r.Pick(1, 2, 7, 14, 30)
			rec(int64(r.Pick(250, 1000, 70000)))
			pk++
		case 3: // two records, one packet
			rec(int64(r.Pick(0, 250, 1000)))
			rec(int64(r.Pick(250, 1000, 20000)))
			pk++
		default:
			rec(int64(r.Pick(250, 1000, 1000, 20000, 70000, 600000)))
			pk++
		}
		ops = append(ops, "build")
	}
	return Case{Class: "longrun", Ops: ops}
}

func c05Case(r *Rng, tier string, idx int) Case {
	// 8 giant cases in the quick tier (1000 cases), 1 in 1000 in the thorough tier (cost)
	if (tier != "thorough" && idx%125 == 77) || (tier == "thorough" && idx%1000 == 777) {
		return c05Giant(r)
	}
	// 8 long runs in the quick tier, 1 in 500 in the thorough tier
	if (tier != "thorough" && idx%125 == 33) || (tier == "thorough" && idx%500 == 333) {
		return c05Long(r)
	}
	cl := c05Classes[idx%len(c05Classes)]
	g := &c05Gen{r: r, max: r.Range(20, 300), budget: 45000}
	g.seq = r.Intn(65536)
	if r.Chance(1, 3) {
		g.seq = r.Pick(0, 1, 65535, 65534, 65000, 32767, 32768)
	}
	g.seq += 65536 * 4 // keep the generator's own arithmetic positive
	g.t = int64(r.Pick(0, 1, 1000, 63999, 64000, 500000, 1000000, 123456789))
	g.pBuild = r.Pick(0, 10, 30, 100, 300)
	if r.Chance(1, 4) {
		g.ops = append(g.ops, fmt.Sprintf("cfg sender=%d media=%d", r.U64()&0xFFFFFFFF, r.U64()&0xFFFFFFFF))
	}
	if r.Chance(1, 20) {
		g.build() // build before anything was recorded
	}
	seg := func(kind string) {
		switch kind {
		case "steady":
			g.steady(r.Range(1, 40), int64(r.Pick(1000, 1000, 1000, 250, 5000, 20000)))
		case "zero":
			g.steady(r.Range(1, 40), 0)
		case "jitter":
			g.jitter(r.Range(1, 30))
		case "straddle":
			g.straddle(r.Range(1, 20))
		case "overflow":
			g.overflow(r.Range(1, 4))
		case "negoverflow":
			g.negOverflow(r.Range(2, 4))
		case "reorder":
			g.reorder(r.Range(2, 12), int64(r.Pick(0, 100, 1000, 30000, 70000)))
		case "silence":
			g.silence()
		case "loss":
			g.loss(r.Pick(1, 1, 2, 3, 6, 7, 8, 13, 14, 15, 20, 100, 127, 128, 129, 500, 8190, 8191, 8192, 20000, 32765, 32766, 32767, 32768, 40000))
		case "lossrand":
			g.loss(r.Range(1, 40000))
		case "jump":
			g.loss(r.Pick(32767, 32768, 32769, 40000, 65535, 65536, 65537, 70000))
		case "back":
			g.seq -= r.Pick(1, 2, 100, 1000, 32767, 32768, 32769, 40000)
		case "dup":
			g.dup()
		case "late":
			g.late()
		case "build":
			g.build()
		case "runs":
			// long runs of one symbol with single interruptions: run-length/one-bit/two-bit carry-over
			for k := r.Range(1, 4); k > 0; k-- {
				switch r.Intn(4) {
				case 0:
					g.steady(r.Pick(1, 6, 7, 8, 13, 14, 15, 20), 1000)
				case 1:
					g.steady(r.Pick(1, 6, 7, 8, 13, 14, 15), 70000)
				case 2:
					g.loss(r.Pick(1, 6, 7, 8, 13, 14, 15, 20))
				case 3:
					g.reorder(2, 1000)
				}
			}
		}
	}
	var menu []string
	switch cl {
	case "steady":
		menu = []string{"steady", "steady", "steady", "jitter", "build", "loss"}
	case "zero":
		menu = []string{"zero", "zero", "steady", "build", "loss"}
	case "straddle":
		menu = []string{"straddle", "straddle", "jitter", "build", "loss"}
	case "overflow":
		menu = []string{"overflow", "overflow", "negoverflow", "steady", "build", "loss"}
	case "negdelta":
		menu = []string{"reorder", "reorder", "late", "steady", "build", "negoverflow"}
	case "silence":
		menu = []string{"silence", "silence", "steady", "build", "build", "loss", "dup", "late"}
	case "lossburst":
		menu = []string{"loss", "lossrand", "steady", "steady", "build", "silence"}
	case "wrapjump":
		menu = []string{"jump", "back", "steady", "build", "loss", "late", "silence"}
	case "dup":
		menu = []string{"dup", "dup", "steady", "build", "reorder", "silence", "late"}
	case "buildevery":
		g.pBuild = 1000
		menu = []string{"steady", "jitter", "loss", "reorder", "dup", "late", "silence", "overflow", "runs"}
	case "reftime":
		g.t = int64(r.Pick(1<<24, 1<<24-1, 1<<32, 1<<32-1, 3<<24))*64000 + int64(r.Pick(-70000, -1, 0, 1, 63999))
		menu = []string{"steady", "jitter", "build", "loss", "straddle", "silence"}
	case "runs":
		menu = []string{"runs", "runs", "runs", "build"}
	case "edge":
		menu = []string{"late", "back", "jump", "dup", "silence", "build", "steady", "loss", "negoverflow", "overflow"}
	default: // mixed
		menu = []string{"steady", "zero", "jitter", "straddle", "overflow", "negoverflow", "reorder", "silence", "loss", "lossrand", "jump", "back", "dup", "late", "build", "runs"}
	}
	for !g.full() {
		seg(menu[r.Intn(len(menu))])
	}
	if cl == "edge" && r.Chance(1, 5) {
		g.ops = append(g.ops, c05PickS(r, "rec seq=70000 t=0", "rec seq=1", "frob", "rec seq=1 t=x", "build x",
			fmt.Sprintf("rec seq=%d t=-1", g.seq%65536), fmt.Sprintf("rec seq=%d t=-700000", (g.seq+3)%65536),
			fmt.Sprintf("rec seq=%d t=%d ssrc=77", g.seq%65536, g.t)))
		g.max += 4
		g.steady(3, 1000)
	}
	if r.Chance(9, 10) {
		g.ops = append(g.ops, "build")
	}
	if r.Chance(1, 4) {
		g.ops = append(g.ops, "build")
	}
	return Case{Class: cl, Ops: g.ops}
}

// c05PickS picks one of the strings.
func c05PickS(r *Rng, xs ...string) string { return xs[r.Intn(len(xs))] }

func c05ParseU(s string, max uint64) (uint64, bool) {
	if s == "" || len(s) > 20 {
		return 0, false
	}
	var n uint64
	for _, ch := range s {
		if ch < '0' || ch > '9' {
			return 0, false
		}
		d := uint64(ch - '0')
		if n > (max-d)/10 {
			return 0, false
		}
		n = n*10 + d
	}
	return n, n <= max
}

func c05ParseI(s string) (int64, bool) {
	neg := false
	if strings.HasPrefix(s, "-") {
		neg = true
		s = s[1:]
	}
	n, ok := c05ParseU(s, 1<<62)
	if !ok {
		return 0, false
	}
	if neg {
		return -int64(n), true
	}
	return int64(n), true
}

func c05Run(_ *testing.T, ops []string, o *Out) {
	media := uint32(c05Media)
	rec := twcc.NewRecorder(c05Sender)
	// every packet a build returned belongs to the caller: it is kept (by pointer) and re-rendered after every later
	// op — the consumer may marshal it whenever it gets round to sending it (retain_test.go)
	defer o.EndKept()
	nBuild := 0
	for _, op := range ops {
		o.CheckKept()
		f := strings.Fields(op)
		name, m := kv(op)
		switch {
		case name == "cfg" && len(f) == 3:
			s, ok1 := c05ParseU(m["sender"], 0xFFFFFFFF)
			md, ok2 := c05ParseU(m["media"], 0xFFFFFFFF)
			if !ok1 || !ok2 {
				o.P("bad-op")
				continue
			}
			media = uint32(md)
			rec = twcc.NewRecorder(uint32(s))
		case name == "rec" && (len(f) == 3 || len(f) == 4):
			seq, ok1 := c05ParseU(m["seq"], 65535)
			t, ok2 := c05ParseI(m["t"])
			ssrc := uint64(media)
			ok3 := true
			if len(f) == 4 {
				ssrc, ok3 = c05ParseU(m["ssrc"], 0xFFFFFFFF)
			}
			if !ok1 || !ok2 || !ok3 {
				o.P("bad-op")
				continue
			}
			rec.Record(uint32(ssrc), uint16(seq), t)
		case name == "recrun" && len(f) == 6:
			// n records: number seq+i*step (mod 2^16) at time t+i*dt
			seq, ok1 := c05ParseU(m["seq"], 65535)
			t, ok2 := c05ParseI(m["t"])
			n, ok3 := c05ParseU(m["n"], 40000)
			dt, ok4 := c05ParseI(m["dt"])
			step, ok5 := c05ParseU(m["step"], 1000)
			if !ok1 || !ok2 || !ok3 || !ok4 || !ok5 || n == 0 || step == 0 || dt > 1<<40 || dt < -(1<<40) {
				o.P("bad-op")
				continue
			}
			for i := uint64(0); i < n; i++ {
				rec.Record(media, uint16(seq+i*step), t+int64(i)*dt)
			}
		case op == "build":
			pkts := rec.BuildFeedbackPacket()
			o.P("build n=%d", len(pkts))
			for _, p := range pkts {
				o.P("%s", c05FbLine(p))
			}
			nBuild++
			o.KeepRTCPs(fmt.Sprintf("build#%d", nBuild), pkts)
		default:
			o.P("bad-op")
		}
	}
}

func init() {
	register("twccrec", &Comp{
		N: func(tier string) int {
			if tier == "thorough" {
				return 100000
			}
			return 1000
		},
		Gen: c05Case,
		Run: c05Run,
	})
}

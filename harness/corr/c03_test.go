package corr

// C03 — NACK generator. Two components:
//
//	receivelog  unit level, through the verif hook nack.VerifReceiveLog
//	            ops: new size=S | add seq=Q | missing skip=K   -> prints `ok`/`err:size`, nothing, the list
//	nackgen     public API: nack.GeneratorInterceptor inside a testing/synctest bubble
//	            ops: cfg size=S skip=K max=M | bind ssrc=A nack=0|1 | unbind ssrc=A | rtp ssrc=A seq=Q |
//	                 rtperr ssrc=A | rtpbad ssrc=A | tick | ticks n=N | failnext n=K
//	            `failnext n=K`: the next K calls of the bound RTCP writer return an error (fault injection). A failing
//	            Write has still been handed the packet, so it is recorded like any other: whatever the writer returns,
//	            every stream with missing packets gets its NACK at every tick.
//	            observable per tick: one line per TransportLayerNack reaching the bound RTCP writer,
//	            `[at=i ]nack ssrc=A <pairs expanded, sorted>`, lines sorted by media SSRC; sender SSRC masked.

import (
	"errors"
	"fmt"
	"sort"
	"strings"
	"testing"
	"testing/synctest"
	"time"

	"github.com/pion/interceptor"
	"github.com/pion/interceptor/pkg/nack"
	"github.com/pion/rtcp"
	"github.com/pion/rtp"
)

var c03Sizes = []int{64, 128, 256, 512, 1024, 2048, 4096, 8192, 16384, 32768}

// c03Classes are the scenario classes shared by both components.
var c03Classes = []string{
	"inorder", "bernoulli", "burst", "reorder", "dup", "jumps", "offsets", "late", "skipsweep", "mixed", "uniform",
}

// c03Stream produces the arrival order of one RTP stream (unwrapped numbers; callers mask to 16 bit).
type c03Stream struct {
	r     *Rng
	size  int
	class string
	next  int   // next fresh number of the sender
	hi    int   // highest number delivered so far
	sent  []int // delivered numbers (for duplicates)
	held  []int // packets held back for reordering
	big   int   // remaining budget of large gaps (keeps the printed lists bounded)
	lossN int
	lossD int
}

func newC03Stream(r *Rng, size int, class string) *c03Stream {
	s := &c03Stream{r: r, size: size, class: class, lossN: 0, lossD: 1}
	// start offsets around 0 / 32768 / 65535, or anywhere
	switch {
	case class == "offsets" || r.Chance(1, 3):
		s.next = r.Pick(0, 1, 2, 32766, 32767, 32768, 32769, 65533, 65534, 65535,
			65536-size, 65536-size-1, 65536-size+1, 32768-size, 65535-size/2)
	default:
		s.next = r.Intn(65536)
	}
	s.next += 65536 // keep unwrapped numbers positive when stepping behind
	s.hi = s.next
	s.big = 1
	if size <= 1024 {
		s.big = 3
	}
	switch class {
	case "bernoulli", "mixed":
		s.lossN, s.lossD = r.Pick(1, 1, 1, 2), r.Pick(20, 5, 3, 3)
	case "reorder", "dup", "late", "offsets", "skipsweep":
		s.lossN, s.lossD = 1, r.Pick(10, 25)
	}
	return s
}

func (s *c03Stream) deliver(x int) int {
	if x > s.hi {
		s.hi = x
	}
	if len(s.sent) < 512 {
		s.sent = append(s.sent, x)
	} else {
		s.sent[s.r.Intn(len(s.sent))] = x
	}
	return x
}

// gap draws a gap length for burst losses and jumps; large gaps consume the budget.
func (s *c03Stream) gap(edge bool) int {
	r := s.r
	if edge && s.big > 0 && r.Chance(1, 2) {
		s.big--
		return r.Pick(s.size-2, s.size-1, s.size, s.size+1, s.size+2, 2*s.size, 2*s.size+1,
			32767, 32766, 32767-s.size, s.size/2, 3*s.size/2)
	}
	return r.Pick(1, 1, 2, 2, 3, 5, 8, 16, 17, 18, 31, 40, 63)
}

// lateTarget draws a late sequence number relative to the highest delivered one.
func (s *c03Stream) lateTarget() int {
	r := s.r
	back := r.Pick(s.size, s.size, s.size-1, s.size+1, s.size-2, s.size+2, 2*s.size, 2*s.size-1, 2*s.size+1,
		3*s.size, s.size/2, 1, 2, 32767, 32768, 32767-s.size, 32768-s.size, r.Range(1, 32768), r.Range(1, 2*s.size))
	if back > 32768 {
		back = 32768
	}
	return s.hi - back
}

// step returns the next arrivals (possibly none).
func (s *c03Stream) step() []int {
	r := s.r
	var out []int
	// release held packets
	if len(s.held) > 0 && r.Chance(1, 3) {
		i := r.Intn(len(s.held))
		out = append(out, s.deliver(s.held[i]))
		s.held = append(s.held[:i], s.held[i+1:]...)
	}
	ev := "fresh"
	p := r.Intn(100)
	switch s.class {
	case "inorder", "bernoulli":
	case "burst":
		if p < 8 {
			ev = "burst"
		}
	case "reorder":
		if p < 30 {
			ev = "hold"
		}
	case "dup":
		if p < 30 {
			ev = "dup"
		}
	case "jumps":
		if p < 8 {
			ev = "jump"
		} else if p < 12 {
			ev = "late"
		}
	case "offsets", "skipsweep":
		if p < 4 {
			ev = "burst"
		} else if p < 8 {
			ev = "hold"
		} else if p < 10 {
			ev = "dup"
		}
	case "late":
		if p < 25 {
			ev = "late"
		} else if p < 30 {
			ev = "burst"
		} else if p < 33 {
			ev = "jump"
		}
	case "mixed":
		switch {
		case p < 5:
			ev = "burst"
		case p < 15:
			ev = "hold"
		case p < 22:
			ev = "dup"
		case p < 25:
			ev = "jump"
		case p < 32:
			ev = "late"
		}
	case "uniform":
		if p < 50 {
			return append(out, s.deliver(65536+r.Intn(65536)))
		}
	}
	switch ev {
	case "fresh":
		x := s.next
		s.next++
		if s.lossN > 0 && r.Chance(s.lossN, s.lossD) {
			return out // lost
		}
		out = append(out, s.deliver(x))
	case "burst":
		s.next += s.gap(true)
	case "jump":
		s.next += s.gap(true)
		x := s.next
		s.next++
		out = append(out, s.deliver(x))
	case "hold":
		// reorder depth up to size (and a little beyond)
		n := r.Pick(1, 1, 2, 3)
		for i := 0; i < n; i++ {
			s.held = append(s.held, s.next)
			s.next++
		}
		if r.Chance(1, 6) {
			s.next += r.Pick(s.size/2, s.size-3, s.size-1, s.size)
		}
	case "dup":
		if len(s.sent) > 0 {
			out = append(out, s.deliver(s.sent[r.Intn(len(s.sent))]))
		}
	case "late":
		out = append(out, s.lateTarget())
	}
	return out
}

func c03Skip(r *Rng, size int, class string) int {
	if class == "skipsweep" {
		return r.Pick(0, 1, 2, 3, size/2, size-2, size-1, size, size+1, r.Range(0, size+1))
	}
	switch r.Intn(10) {
	case 0, 1, 2, 3, 4:
		return 0
	case 5, 6:
		return r.Pick(1, 2, 3)
	case 7:
		return r.Range(0, 16)
	default:
		return r.Range(0, size+1)
	}
}

// c03Budget bounds the number of list-printing ops of a case by the window size.
func c03Budget(r *Rng, size int) int {
	switch {
	case size <= 256:
		return r.Range(4, 24)
	case size <= 2048:
		return r.Range(3, 8)
	default:
		return r.Range(2, 3)
	}
}

func c03SizeFor(idx int) int { return c03Sizes[(idx/len(c03Classes))%len(c03Sizes)] }

func u16list(xs []uint16) string { return joinInts(xs) }

func init() {
	register("receivelog", &Comp{
		N: func(tier string) int {
			if tier == "thorough" {
				return 40000
			}
			return 2000
		},
		Gen: func(r *Rng, tier string, idx int) Case {
			// a separate malformed / edge stream
			if idx%41 == 40 {
				switch r.Intn(3) {
				case 0:
					sz := r.Pick(0, 1, 63, 65, 100, 32767, 32769, 65535, 48)
					return Case{Class: "malformed", Ops: []string{fmt.Sprintf("new size=%d", sz), "add seq=1", "missing skip=0"}}
				case 1:
					return Case{Class: "malformed", Ops: []string{"add seq=5", "missing skip=0", "new size=64", "missing skip=0",
						"missing skip=1", "add seq=70000", "add seq=7", "missing skip=0", "frob", "add", "missing skip=x"}}
				default:
					// skip far beyond the window (any uint16)
					sz := c03Sizes[r.Intn(4)]
					ops := []string{fmt.Sprintf("new size=%d", sz)}
					st := newC03Stream(r, sz, "bernoulli")
					for i := 0; i < 30; i++ {
						for _, x := range st.step() {
							ops = append(ops, fmt.Sprintf("add seq=%d", x&0xFFFF))
						}
						if r.Chance(1, 5) {
							ops = append(ops, fmt.Sprintf("missing skip=%d", r.Pick(32767, 32768, 32769, 40000, 65535, 65535-sz, r.Range(sz, 65535))))
						}
					}
					return Case{Class: "hugeskip", Ops: ops}
				}
			}
			cl := c03Classes[idx%len(c03Classes)]
			size := c03SizeFor(idx)
			ops := []string{fmt.Sprintf("new size=%d", size)}
			st := newC03Stream(r, size, cl)
			n := r.Range(20, 260)
			budget := c03Budget(r, size)
			every := n/budget + 1
			for i := 0; i < n; i++ {
				for _, x := range st.step() {
					ops = append(ops, fmt.Sprintf("add seq=%d", x&0xFFFF))
				}
				if budget > 0 && (r.Intn(every) == 0 || i == n-1) {
					budget--
					ops = append(ops, fmt.Sprintf("missing skip=%d", c03Skip(r, size, cl)))
				}
			}
			return Case{Class: cl, Ops: ops}
		},
		Run: func(t *testing.T, ops []string, o *Out) {
			var l *nack.VerifReceiveLog
			for _, op := range ops {
				name, m, ok := c03Parse(op)
				switch {
				case ok && name == "new" && c03Has(m, 65535, "size"):
					nl, err := nack.VerifNewReceiveLog(uint16(m["size"]))
					if err != nil {
						if errors.Is(err, nack.ErrInvalidSize) {
							o.P("err:size")
						} else {
							o.P("err:other")
						}
						continue
					}
					l = nl
					o.P("ok")
				case ok && name == "add" && c03Has(m, 65535, "seq") && l != nil:
					l.Add(uint16(m["seq"]))
				case ok && name == "missing" && c03Has(m, 65535, "skip") && l != nil:
					o.P("%s", u16list(l.MissingSeqNumbers(uint16(m["skip"]))))
				default:
					o.P("bad-op")
				}
			}
		},
	})

	register("nackgen", &Comp{
		N: func(tier string) int {
			if tier == "thorough" {
				return 30000
			}
			return 1500
		},
		// the application of the case (streaminfo_test.go): the order of its option list, the StreamInfo it hands to
		// Unbind, what it does with its StreamInfo after Bind
		Gen: func(r *Rng, tier string, idx int) Case {
			ar := NewRng(r.s ^ 0xA9903) // its own stream: the case is the one generated before
			cs := c03GenNackgen(r, tier, idx)
			if cs.Class != "malformed" && ar.Chance(3, 4) {
				cs.Ops = withApp(cs.Ops, genApp(ar, 3, 2, 0, 3))
			}
			return cs
		},
		Run: c03RunNackgen,
	})
}

// c03Parse splits `name k=v …` with decimal values; ok=false on anything else.
func c03Parse(op string) (string, map[string]int, bool) {
	f := strings.Fields(op)
	if len(f) == 0 {
		return "", nil, false
	}
	m := map[string]int{}
	for _, x := range f[1:] {
		i := strings.IndexByte(x, '=')
		if i <= 0 || i == len(x)-1 || len(x)-i > 10 {
			return f[0], nil, false
		}
		n := 0
		for _, ch := range x[i+1:] {
			if ch < '0' || ch > '9' {
				return f[0], nil, false
			}
			n = n*10 + int(ch-'0')
		}
		if _, dup := m[x[:i]]; dup {
			return f[0], nil, false
		}
		m[x[:i]] = n
	}
	return f[0], m, true
}

// c03Has: exactly the given keys are present and every value is <= max.
func c03Has(m map[string]int, max int, keys ...string) bool {
	if len(m) != len(keys) {
		return false
	}
	for _, k := range keys {
		v, ok := m[k]
		if !ok || v > max {
			return false
		}
	}
	return true
}

// c03BindOp: the stream's feedback list either as one of the two fixed lists (`nack=0|1`) or as any list over the
// shared alphabet, in any order, with near-duplicates of the plain `nack` entry before and after it (`fbl=<code>`).
func c03BindOp(r *Rng, ssrc, nackOK int) string {
	if r.Chance(1, 3) {
		return fmt.Sprintf("bind ssrc=%d nack=%d", ssrc, nackOK)
	}
	return fmt.Sprintf("bind ssrc=%d fbl=%d", ssrc, genFeedbackCode(r, nackOK == 1))
}

func c03GenNackgen(r *Rng, tier string, idx int) Case {
	if idx%37 == 36 {
		switch r.Intn(3) {
		case 0:
			return Case{Class: "malformed", Ops: []string{
				fmt.Sprintf("cfg size=%d skip=0 max=0", r.Pick(0, 1, 63, 65, 100, 32767, 32769, 65535)), "bind ssrc=1 nack=1", "tick"}}
		case 1:
			return Case{Class: "malformed", Ops: []string{"tick", "bind ssrc=1 nack=1", "cfg size=64 skip=0 max=1", "rtp ssrc=1 seq=1",
				"rtp ssrc=1 seq=70000", "rtp ssrc=1", "bind ssrc=1 nack=2", "bind ssrc=1 nack=1", "rtp ssrc=1 seq=1", "rtp ssrc=1 seq=3",
				"frob", "tick x=1", "ticks n=0", "failnext n=0", "failnext", "failnext n=1 m=2", "failnext n=1", "tick", "cfg size=64 skip=0 max=1", "unbind ssrc=9", "rtp ssrc=9 seq=1", "tick"}}
		default:
			// long quiescent tail: a number missing for many ticks (counter behaviour, F-03)
			max := r.Pick(1, 2, 3)
			n := r.Pick(300, 1000, 5000)
			return Case{Class: "longtail", Ops: []string{fmt.Sprintf("cfg size=64 skip=0 max=%d", max), "bind ssrc=7 nack=1",
				"rtp ssrc=7 seq=10", "rtp ssrc=7 seq=13", fmt.Sprintf("ticks n=%d", n), "rtp ssrc=7 seq=11", "tick", "tick",
				"rtp ssrc=7 seq=16", fmt.Sprintf("ticks n=%d", r.Pick(2, 5, 70))}}
		}
	}
	if idx%9 == 4 {
		return c03GenWriteFail(r)
	}
	cl := c03Classes[idx%len(c03Classes)]
	size := c03SizeFor(idx)
	skip := c03Skip(r, size, cl)
	max := r.Pick(0, 0, 1, 2, 3)
	ops := []string{fmt.Sprintf("cfg size=%d skip=%d max=%d", size, skip, max)}
	ns := r.Pick(1, 1, 2, 3)
	ssrcs := []int{}
	for len(ssrcs) < ns {
		s := r.Pick(1, 2, 5, 1000, 65536, 4294967295, 4294967294, 77)
		dup := false
		for _, x := range ssrcs {
			dup = dup || x == s
		}
		if !dup {
			ssrcs = append(ssrcs, s)
		}
	}
	streams := map[int]*c03Stream{}
	for i, s := range ssrcs {
		scl := cl
		if i > 0 && r.Chance(1, 2) {
			scl = c03Classes[r.Intn(len(c03Classes))]
		}
		streams[s] = newC03Stream(r, size, scl)
		nackOK := 1
		if r.Chance(1, 12) {
			nackOK = 0
		}
		if i == 0 || r.Chance(2, 3) {
			ops = append(ops, c03BindOp(r, s, nackOK))
		}
	}
	n := r.Range(20, 240)
	budget := c03Budget(r, size)
	every := n/budget + 1
	for i := 0; i < n; i++ {
		s := ssrcs[r.Intn(len(ssrcs))]
		for _, x := range streams[s].step() {
			ops = append(ops, fmt.Sprintf("rtp ssrc=%d seq=%d", s, x&0xFFFF))
		}
		switch p := r.Intn(400); {
		case p < 3:
			ops = append(ops, fmt.Sprintf("unbind ssrc=%d", s))
		case p < 8:
			ops = append(ops, c03BindOp(r, s, r.Pick(1, 1, 1, 0)))
		case p < 10:
			ops = append(ops, fmt.Sprintf("rtperr ssrc=%d", s))
		case p < 12:
			ops = append(ops, fmt.Sprintf("rtpbad ssrc=%d", s))
		}
		if budget > 0 && (r.Intn(every) == 0 || i == n-1) {
			budget--
			if r.Chance(1, 6) {
				ops = append(ops, fmt.Sprintf("failnext n=%d", r.Pick(1, 1, 2, 3)))
			}
			if r.Chance(1, 8) {
				ops = append(ops, fmt.Sprintf("ticks n=%d", r.Pick(2, 3, 4, 5)))
			} else {
				ops = append(ops, "tick")
			}
		}
	}
	return Case{Class: cl, Ops: ops}
}

// c03GenWriteFail: several bound streams that all lose packets between ticks, a NACK limit, and an RTCP writer
// that fails at drawn calls: the NACK of every stream must reach the writer at every tick whatever an earlier
// Write of the same tick returned (streams are independent; the counters have been charged already).
func c03GenWriteFail(r *Rng) Case {
	size := r.Pick(64, 64, 128, 256, 512)
	max := r.Pick(1, 1, 1, 2, 3, 0)
	skip := r.Pick(0, 0, 0, 1, 2)
	ops := []string{fmt.Sprintf("cfg size=%d skip=%d max=%d", size, skip, max)}
	ns := r.Pick(2, 2, 3, 3, 4)
	all := []int{1, 2, 5, 77, 1000, 65536, 4294967294, 4294967295}
	ssrcs := []int{}
	streams := map[int]*c03Stream{}
	for len(ssrcs) < ns {
		s := all[r.Intn(len(all))]
		if streams[s] != nil {
			continue
		}
		ssrcs = append(ssrcs, s)
		streams[s] = newC03Stream(r, size, []string{"bernoulli", "burst", "mixed", "bernoulli"}[r.Intn(4)])
		ops = append(ops, c03BindOp(r, s, 1))
	}
	nt := r.Range(6, 30)
	for t := 0; t < nt; t++ {
		// every stream gets traffic (and with it fresh losses) before the tick
		for _, s := range ssrcs {
			k := r.Range(2, 8)
			for i := 0; i < k; i++ {
				for _, x := range streams[s].step() {
					ops = append(ops, fmt.Sprintf("rtp ssrc=%d seq=%d", s, x&0xFFFF))
				}
			}
		}
		if r.Chance(2, 3) {
			ops = append(ops, fmt.Sprintf("failnext n=%d", r.Pick(1, 1, 1, 2, ns)))
		}
		if r.Chance(1, 10) {
			ops = append(ops, fmt.Sprintf("ticks n=%d", r.Pick(2, 3)))
		} else {
			ops = append(ops, "tick")
		}
	}
	return Case{Class: "writefail", Ops: ops}
}

type c03Nack struct {
	at   int
	ssrc uint32
	list []int
}

const c03Interval = 100 * time.Millisecond

func c03RunNackgen(t *testing.T, ops []string, o *Out) {
	app, ops := appOf(ops)
	synctest.Test(t, func(t *testing.T) {
		// what the application bound, per SSRC: its description of the stream and the object it handed to Bind
		descs, lives := map[uint32]*interceptor.StreamInfo{}, map[uint32]*interceptor.StreamInfo{}
		bindAs := func(desc *interceptor.StreamInfo) *interceptor.StreamInfo {
			live := app.BindInfo(desc)
			descs[desc.SSRC], lives[desc.SSRC] = desc, live
			return live
		}
		var (
			icpt    interceptor.Interceptor
			t0      time.Time
			ticksAt int // number of ticks delivered so far
			got     []c03Nack
			readers = map[uint32]interceptor.RTPReader{}
			pending []byte
			pendErr error
			buf     = make([]byte, 1500)
			failN   int // the next failN writer calls fail
		)
		// every packet handed to the RTCP writer is the writer's (it may queue it): kept by pointer and re-rendered
		// after every later op, before Close and after Close (retain_test.go)
		defer o.EndKept()
		defer func() {
			o.CheckKeptAll()
			if icpt != nil {
				_ = icpt.Close()
				synctest.Wait()
			}
		}()
		nWritten := 0
		writer := interceptor.RTCPWriterFunc(func(pkts []rtcp.Packet, _ interceptor.Attributes) (int, error) {
			for _, p := range pkts {
				nWritten++
				o.KeepRTCP(fmt.Sprintf("written#%d", nWritten), p)
				n, ok := p.(*rtcp.TransportLayerNack)
				if !ok {
					got = append(got, c03Nack{at: -1})
					continue
				}
				var list []int
				for i := range n.Nacks {
					for _, q := range n.Nacks[i].PacketList() {
						list = append(list, int(q))
					}
				}
				sort.Ints(list)
				got = append(got, c03Nack{at: int(time.Since(t0) / c03Interval), ssrc: n.MediaSSRC, list: list})
			}
			if failN > 0 {
				failN--
				return 0, errors.New("transient transport error")
			}
			return 0, nil
		})
		source := interceptor.RTPReaderFunc(func(b []byte, a interceptor.Attributes) (int, interceptor.Attributes, error) {
			if pendErr != nil {
				return 0, nil, pendErr
			}
			return copy(b, pending), a, nil
		})
		flush := func(from int, many bool) {
			sort.SliceStable(got, func(i, j int) bool {
				if got[i].at != got[j].at {
					return got[i].at < got[j].at
				}
				return got[i].ssrc < got[j].ssrc
			})
			for _, g := range got {
				switch {
				case g.at < 0:
					o.P("other-rtcp")
				case many:
					o.P("at=%d nack ssrc=%d %s", g.at-from, g.ssrc, joinInts(g.list))
				default:
					o.P("nack ssrc=%d %s", g.ssrc, joinInts(g.list))
				}
			}
			got = got[:0]
		}
		for _, op := range ops {
			o.CheckKept()
			name, m, ok := c03Parse(op)
			if !ok {
				o.P("bad-op")
				continue
			}
			if name == "cfg" {
				if icpt != nil || !c03Has(m, 65535, "size", "skip", "max") {
					o.P("bad-op")
					continue
				}
				// options that set different fields commute: the list in the order the application wrote it
				f, err := nack.NewGeneratorInterceptor(appShuffle(app, []nack.GeneratorOption{
					nack.GeneratorSize(uint16(m["size"])),
					nack.GeneratorSkipLastN(uint16(m["skip"])),
					nack.GeneratorMaxNacksPerPacket(uint16(m["max"])),
					nack.GeneratorInterval(c03Interval),
				})...)
				if err != nil {
					o.P("err:other")
					continue
				}
				i, err := f.NewInterceptor("")
				if err != nil {
					if errors.Is(err, nack.ErrInvalidSize) {
						o.P("err:size")
					} else {
						o.P("err:other")
					}
					continue
				}
				icpt = i
				t0 = time.Now()
				icpt.BindRTCPWriter(writer)
				synctest.Wait() // the loop goroutine has created its ticker at t0
				time.Sleep(c03Interval / 2)
				synctest.Wait()
				o.P("ok")
				continue
			}
			if icpt == nil {
				o.P("bad-op")
				continue
			}
			switch {
			case name == "bind" && c03Has(m, 1<<32-1, "ssrc", "nack") && m["nack"] <= 1:
				info := &interceptor.StreamInfo{SSRC: uint32(m["ssrc"])}
				if m["nack"] == 1 {
					info.RTCPFeedback = []interceptor.RTCPFeedback{{Type: "nack", Parameter: ""}}
				} else {
					info.RTCPFeedback = []interceptor.RTCPFeedback{{Type: "nack", Parameter: "pli"}, {Type: "transport-cc"}}
				}
				info = bindAs(info)
				readers[info.SSRC] = icpt.BindRemoteStream(info, source)
				app.AfterBind(info)
			case name == "bind" && c03Has(m, 1<<32-1, "ssrc", "fbl"):
				// the stream's RTCPFeedback list by its code (streaminfo_test.go): any order, near-duplicates
				fbl, okc := feedbackOfCode(m["fbl"])
				if !okc {
					o.P("bad-op")
					continue
				}
				info := bindAs(&interceptor.StreamInfo{SSRC: uint32(m["ssrc"]), RTCPFeedback: fbl})
				readers[info.SSRC] = icpt.BindRemoteStream(info, source)
				for i, fb := range info.RTCPFeedback { // the StreamInfo is the caller's
					if want, _ := feedbackOfCode(m["fbl"]); len(want) != len(info.RTCPFeedback) || want[i] != fb {
						o.P("streaminfo-modified")
						break
					}
				}
				app.AfterBind(info)
			case name == "unbind" && c03Has(m, 1<<32-1, "ssrc"):
				// the stream is named by its SSRC: a StreamInfo rebuilt from it alone, or (app op) any other value the
				// application may hold for that SSRC by now
				ui := &interceptor.StreamInfo{SSRC: uint32(m["ssrc"])}
				if desc := descs[ui.SSRC]; app != nil && desc != nil {
					ui = app.UnbindInfo(desc, lives[ui.SSRC])
				}
				o.InfoGuard("UnbindRemoteStream", ui, func() { icpt.UnbindRemoteStream(ui) })
			case (name == "rtp" && c03Has(m, 1<<32-1, "ssrc", "seq") && m["seq"] <= 65535) ||
				((name == "rtperr" || name == "rtpbad") && c03Has(m, 1<<32-1, "ssrc")):
				rd := readers[uint32(m["ssrc"])]
				if rd == nil {
					continue // never bound: there is no reader to call
				}
				pendErr = nil
				switch name {
				case "rtp":
					pkt := rtp.Packet{Header: rtp.Header{Version: 2, SSRC: uint32(m["ssrc"]), SequenceNumber: uint16(m["seq"]),
						PayloadType: 96}, Payload: []byte{1, 2, 3}}
					raw, err := pkt.Marshal()
					if err != nil {
						panic(err)
					}
					pending = raw
				case "rtperr":
					pendErr = errors.New("read failed")
				case "rtpbad":
					pending = []byte{0x80, 0x60, 0x00}
				}
				_, _, _ = rd.Read(buf, nil)
			case name == "failnext" && c03Has(m, 1000000, "n") && m["n"] >= 1:
				failN = m["n"]
			case name == "tick" && len(m) == 0:
				time.Sleep(c03Interval)
				synctest.Wait()
				flush(ticksAt, false)
				ticksAt++
			case name == "ticks" && c03Has(m, 1000000, "n") && m["n"] >= 1:
				time.Sleep(time.Duration(m["n"]) * c03Interval)
				synctest.Wait()
				flush(ticksAt, true)
				ticksAt += m["n"]
			default:
				o.P("bad-op")
			}
		}
	})
}

package corr

// Component `attrs`: interceptor.Attributes (attributes.go) against Model/AttrCache.lean.  One map, any sequence
// of GetRTPHeader / GetRTCPPackets calls on parseable and unparseable bytes, and the application's own keys in
// between.  The parsers (pion/rtp, pion/rtcp) are parameters of the model: the op says what they answer for the
// bytes of the call (the interpreter checks that they do).

import (
	"fmt"
	"strconv"
	"testing"

	"github.com/pion/interceptor"
	"github.com/pion/rtcp"
	"github.com/pion/rtp"
)

func attrsRawRTP(p, h int) []byte {
	hd := rtp.Header{Version: 2, PayloadType: 96, SequenceNumber: uint16(h), SSRC: 7}
	b, _ := hd.Marshal()
	if p == 1 {
		return append(b, 1, 2, 3)
	}
	// unparseable: truncated below the fixed header, or a CSRC count that reaches beyond the bytes
	switch h % 3 {
	case 0:
		return b[:h%12]
	case 1:
		b[0] |= 0x0F
		return b
	}
	return nil
}

func attrsRawRTCP(p, h int) []byte {
	b, _ := (&rtcp.ReceiverReport{SSRC: uint32(h)}).Marshal()
	if p == 1 {
		return b
	}
	switch h % 3 {
	case 0:
		return b[:h%8]
	case 1:
		b[3] = 200 // length field beyond the bytes
		return b
	}
	return []byte{}
}

func init() {
	register("attrs", &Comp{
		N: func(tier string) int {
			if tier == "thorough" {
				return 40000
			}
			return 800
		},
		Gen: func(r *Rng, tier string, idx int) Case {
			classes := []string{"mixed", "failfirst", "userkeys", "rtponly"}
			cl := classes[idx%len(classes)]
			ops := []string{"new"}
			n := r.Range(3, 14)
			for i := 0; i < n; i++ {
				p := r.Pick(1, 1, 0)
				if cl == "failfirst" && i < 2 {
					p = 0
				}
				h := r.Pick(0, 1, 2, 7, 255, 256, 65535, r.Intn(65536))
				switch {
				case cl == "userkeys" && r.Bool():
					if r.Bool() {
						ops = append(ops, fmt.Sprintf("set k=%d v=%d", r.Pick(0, 1, 2, -1, 255), r.Range(0, 9)))
					} else {
						ops = append(ops, fmt.Sprintf("getk k=%d", r.Pick(0, 1, 2, -1, 255)))
					}
				case cl == "rtponly" || r.Bool():
					ops = append(ops, fmt.Sprintf("rtp p=%d h=%d", p, h))
				default:
					ops = append(ops, fmt.Sprintf("rtcp p=%d h=%d", p, h))
				}
				if r.Chance(1, 12) {
					ops = append(ops, "new")
				}
			}
			return Case{Class: cl, Ops: ops}
		},
		Run: func(t *testing.T, ops []string, o *Out) {
			a := interceptor.Attributes{}
			for _, op := range ops {
				name, f := kv(op)
				switch name {
				case "new":
					a = interceptor.Attributes{}
				case "rtp", "rtcp":
					p, e1 := strconv.Atoi(f["p"])
					h, e2 := strconv.Atoi(f["h"])
					if e1 != nil || e2 != nil || p < 0 || p > 1 || h < 0 || h >= 65536 || f["p"][0] == '+' || f["h"][0] == '+' {
						o.P("bad-op")
						continue
					}
					if name == "rtp" {
						raw := attrsRawRTP(p, h)
						var fresh rtp.Header
						if _, err := fresh.Unmarshal(raw); (err == nil) != (p == 1) {
							o.P("PARSER-DISAGREES rtp p=%d h=%d", p, h)
							continue
						}
						hd, err := a.GetRTPHeader(raw)
						if err != nil {
							o.P("err")
						} else {
							o.P("hdr %d", hd.SequenceNumber)
						}
					} else {
						raw := attrsRawRTCP(p, h)
						if _, err := rtcp.Unmarshal(raw); (err == nil) != (p == 1) {
							o.P("PARSER-DISAGREES rtcp p=%d h=%d", p, h)
							continue
						}
						pk, err := a.GetRTCPPackets(raw)
						if err != nil {
							o.P("err")
						} else if rr, ok := pk[0].(*rtcp.ReceiverReport); ok && len(pk) == 1 {
							o.P("pkts %d", rr.SSRC)
						} else {
							o.P("pkts ?")
						}
					}
				case "set":
					k, e1 := strconv.Atoi(f["k"])
					v, e2 := strconv.Atoi(f["v"])
					if e1 != nil || e2 != nil || f["k"][0] == '+' || f["v"][0] == '+' {
						o.P("bad-op")
						continue
					}
					a.Set(k, v)
				case "getk":
					k, e1 := strconv.Atoi(f["k"])
					if e1 != nil || f["k"][0] == '+' {
						o.P("bad-op")
						continue
					}
					if v, ok := a.Get(k).(int); ok {
						o.P("val %d", v)
					} else {
						o.P("val -")
					}
				default:
					o.P("bad-op")
				}
			}
		},
	})
}

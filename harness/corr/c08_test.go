package corr

// C08 — RFC 8888 congestion control feedback.
//
//	ccfbrec  public API rfc8888.Recorder (NewRecorder, AddPacket, BuildReport)
//	         ops: add at=<ns> ssrc=A seq=Q ecn=E | build at=<ns> max=<bytes>
//	              addrun at=<ns> ssrc=A seq=Q n=N step=<ns> ecn=E   (N in-order packets Q,Q+1,… at at,at+step,…)
//	              buildrun at=<ns> n=N step=<ns> max=<bytes>        (N reports at at,at+step,…, all printed)
//	         observable per build: `report ts=<ntp32> n=<blocks> len=<len(Marshal())>` and, sorted by SSRC,
//	         `b ssrc=A begin=B cnt=N m=<1.ecn.ato | 0, ...>`
//	ccfbint  rfc8888.SenderInterceptor inside a testing/synctest bubble (real ticker, real time.Now)
//	         ops: cfg interval=<ms> [skew=<ms>] | writer | bind ssrc=A | rtp ssrc=A seq=Q | adv ms=D | close | step ns=<+-n>
//	         step: only with a configured clock (cfg … skew=): the clock given with SenderNow is a wall clock and is
//	         stepped by n ns from now on while the ticker (monotonic) keeps its pace; arrival times and report
//	         instants are the stepped clock's (model: clock and next tick instant move by n).
//	         skew: the clock configured with rfc8888.SenderNow runs `skew` ms ahead of (negative: behind) the
//	         bubble's clock, which drives the default ticker (and is the value its channel delivers): arrival
//	         times and the report time must both be the configured clock's; the model's clock starts at
//	         2000-01-01 + skew (kept inside NTP era 0).
//	         The ambient of a case (first op `amb … shapes=…`, ambient_test.go) gives the RTP packets wire shapes
//	         with the P bit: padding-only (the count in the last octet covers the whole payload), count 1,
//	         count = payload-1.  The unchanged interceptor parses the header only and records every packet it
//	         is handed, so the model has nothing to learn about shapes.
//	         observables: `read ok|blocked` per rtp, the reports reaching the RTCP writer per adv,
//	         `closed released=<n>` (Reads that were blocked in the hand-off and returned on Close).

import (
	"fmt"
	"sort"
	"strings"
	"sync/atomic"
	"testing"
	"testing/synctest"
	"time"

	"github.com/pion/interceptor"
	"github.com/pion/interceptor/pkg/rfc8888"
	"github.com/pion/rtcp"
	"github.com/pion/rtp"
)

func c08ShowReport(o *Out, rep *rtcp.CCFeedbackReport) {
	ln := "err"
	if b, err := rep.Marshal(); err == nil {
		ln = fmt.Sprint(len(b))
		// the marshalled form must parse back to the same structure sizes
		var back rtcp.CCFeedbackReport
		if err := back.Unmarshal(b); err != nil || len(back.ReportBlocks) != len(rep.ReportBlocks) {
			ln += "!unmarshal"
		}
	}
	if rep.SenderSSRC != 0 {
		ln += "!sender"
	}
	o.P("report ts=%d n=%d len=%s", rep.ReportTimestamp, len(rep.ReportBlocks), ln)
	blocks := append([]rtcp.CCFeedbackReportBlock{}, rep.ReportBlocks...)
	sort.SliceStable(blocks, func(i, j int) bool { return blocks[i].MediaSSRC < blocks[j].MediaSSRC })
	for _, b := range blocks {
		var sb strings.Builder
		if len(b.MetricBlocks) == 0 {
			sb.WriteByte('-')
		}
		for i, m := range b.MetricBlocks {
			if i > 0 {
				sb.WriteByte(',')
			}
			if m.Received {
				fmt.Fprintf(&sb, "1.%d.%d", uint8(m.ECN), m.ArrivalTimeOffset)
			} else if m.ECN != 0 || m.ArrivalTimeOffset != 0 {
				fmt.Fprintf(&sb, "0.%d.%d", uint8(m.ECN), m.ArrivalTimeOffset) // never expected
			} else {
				sb.WriteByte('0')
			}
		}
		o.P("b ssrc=%d begin=%d cnt=%d m=%s", b.MediaSSRC, b.BeginSequence, len(b.MetricBlocks), sb.String())
	}
}

// c08Ages are report-time − arrival-time values (ns) on and around the encoding boundaries.
func c08Age(r *Rng) int64 {
	const unit = 1953125 // 2/1024 s in ns: every even ATO boundary is a whole number of ns
	switch r.Intn(17) {
	case 14, 15, 16:
		return c08HugeAge(r, 58)
	case 0:
		return 0
	case 1:
		return int64(r.Pick(1, 976562, 976563, 976564, 1953124, 1953125, 1953126))
	case 2: // k/1024 s boundaries ± 1 ns
		k := int64(r.Range(1, 8192))
		return (k*unit+1)/2 + int64(r.Range(-1, 1))
	case 3: // around saturation: 0x1FFD, 0x1FFE, 0x1FFF
		k := int64(r.Pick(8188, 8189, 8190, 8191, 8192))
		return (k*unit+1)/2 + int64(r.Range(-1, 1))
	case 4:
		return int64(r.Pick(7990000000, 7998046874, 7998046875, 7998046876, 8000000000, 8000000001))
	case 5:
		return int64(r.Pick(63900000000, 63999999999, 64000000000, 64000976563, 65000000000, 72000000000))
	case 6:
		return int64(r.Pick(1000, 3600, 86400, 1000000)) * 1000000000
	case 7: // arrival after the report time
		return -int64(r.Pick(1, 2, 1000, 976563, 1000000000, 65000000000))
	case 8:
		return int64(r.Intn(8000)) * 1000000
	default:
		return int64(r.U64() % 200000000)
	}
}

// c08HugeAge draws an age (ns) near k*2^e (e up to maxExp, k = 1..7): within ±8.5 s, the width of the
// unsaturated offset range, so that any arithmetic that wraps at a power of two lands in range.
func c08HugeAge(r *Rng, maxExp int) int64 {
	e := uint(r.Range(33, maxExp))
	if r.Chance(1, 3) {
		e = uint(r.Pick(53, 54, 54, 55, 56))
		if int(e) > maxExp {
			e = uint(maxExp)
		}
	}
	k := int64(1)
	if e < 61 {
		k = int64(r.Pick(1, 1, 2, 3, 5, 7))
	}
	base := k << e
	if base < 0 || base>>e != k {
		base = 1 << e
	}
	var j int64
	switch r.Intn(6) {
	case 0:
		j = int64(r.Pick(-1, 0, 1, 976562, 976563))
	case 1:
		j = int64(r.Pick(7998046874, 7998046875, 7998046876, 8000000000, -7998046875))
	case 2:
		j = -int64(r.U64() % 8500000000)
	default:
		j = int64(r.U64() % 8500000000)
	}
	if base+j < 0 { // overflow of int64: keep the base
		return base
	}
	return base + j
}

func c08Max(r *Rng, k int) int {
	switch r.Intn(8) {
	case 0:
		return r.Range(0, 12+8*k+8) // sizes that cannot hold the headers, and just above
	case 1:
		return 12 + 8*k + r.Range(-1, 24)
	case 2:
		return r.Pick(1200, 1500, 1199, 1201, 1202, 1203, 1497, 1498, 1499)
	case 3:
		return r.Range(0, 1500)
	default:
		return 12 + 8*k + r.Range(0, 4*k*12) // budgets of a few blocks per stream, every residue
	}
}

var c08RecClasses = []string{
	"inorder", "loss", "reorder", "dupsame", "duplater", "wrap", "ages", "future", "maxsweep", "headers",
	"gapskept", "multi", "oddeven", "bigrange", "mixed", "longrun", "hugeages", "idlestream",
}

type c08Stream struct {
	ssrc uint32
	next int   // next fresh number of the sender (unwrapped)
	seen []int // delivered numbers
	held []int // held back for reordering
}

// c08GenLongRun: long loss-free in-order runs (tens of thousands of packets, across one or two 16-bit
// wraps) written with `addrun`, with periodic small reports, then a disturbance (loss, reordering,
// duplicate, jump, very old duplicate) and ordinary traffic and reports.
func c08GenLongRun(r *Rng) []string {
	var ops []string
	ssrc := uint32(r.Pick(1, 7, 123456, 4294967295))
	other := ssrc + 1
	two := r.Chance(1, 3)
	seq := r.Intn(65536)
	if r.Bool() {
		seq = r.Pick(0, 1, 30000, 32768, 50000, 60000, 65000, 65535)
	}
	oseq := r.Intn(65536)
	clock := int64(1500000000)*1000000000 + int64(r.Intn(1000000000))
	step := int64(r.Pick(1000000, 5000000, 20000000, 250000))
	small := func() int { return r.Pick(20, 24, 28, 28, 36, 44, 60, 100) }
	run := func(total int) {
		for total > 0 {
			c := r.Range(150, 700)
			if c > total {
				c = total
			}
			ops = append(ops, fmt.Sprintf("addrun at=%d ssrc=%d seq=%d n=%d step=%d ecn=0", clock, ssrc, seq&0xFFFF, c, step))
			clock += int64(c) * step
			seq += c
			total -= c
			if two && r.Chance(1, 4) {
				ops = append(ops, fmt.Sprintf("add at=%d ssrc=%d seq=%d ecn=0", clock, other, oseq&0xFFFF))
				oseq++
			}
			mx := small()
			if two {
				mx += 8
			}
			if r.Chance(1, 40) {
				mx = 1200
			}
			ops = append(ops, fmt.Sprintf("build at=%d max=%d", clock+int64(r.Intn(50000000)), mx))
		}
	}
	add := func(n int) {
		ops = append(ops, fmt.Sprintf("add at=%d ssrc=%d seq=%d ecn=%d", clock, ssrc, n&0xFFFF, r.Intn(4)))
		clock += step
	}
	segs := r.Range(1, 2)
	for sg := 0; sg < segs; sg++ {
		total := r.Pick(32760, 32768, 32769, 32770, 33000, 40000, 65530, 65536, 65537, 70000)
		if r.Chance(1, 4) {
			total = r.Range(1000, 34000)
		}
		if sg > 0 {
			total = r.Pick(33000, 2000, 500, 34000)
		}
		run(total)
		// disturbance
		switch r.Intn(6) {
		case 0: // single loss
			seq++
			add(seq)
			seq++
		case 1: // burst loss
			seq += r.Range(2, 30)
			add(seq)
			seq++
		case 2: // swap
			add(seq + 1)
			add(seq)
			seq += 2
		case 3: // recent duplicate, then a loss
			add(seq - r.Range(1, 50))
			seq++
			add(seq)
			seq++
		case 4: // jump ahead
			seq += r.Pick(100, 1000, 5000)
			add(seq)
			seq++
		default: // very old duplicate (more than half a cycle back), then a loss
			add(seq - r.Pick(32769, 40000, 65535, 65536))
			seq++
			add(seq)
			seq++
		}
		n := r.Range(1, 12)
		ops = append(ops, fmt.Sprintf("addrun at=%d ssrc=%d seq=%d n=%d step=%d ecn=0", clock, ssrc, seq&0xFFFF, n, step))
		clock += int64(n) * step
		seq += n
		ops = append(ops, fmt.Sprintf("build at=%d max=%d", clock, r.Pick(1200, 1200, 1500, 100, 44)))
		if r.Bool() {
			add(seq)
			seq++
			ops = append(ops, fmt.Sprintf("build at=%d max=1200", clock))
		}
	}
	return ops
}

// c08GenHugeAges: packets that are still unacknowledged (behind a never-filled gap, or simply reported
// late) when reports are built after ages near k*2^e ns, e up to 63 and beyond the range of
// time.Duration; the arrivals may lie before 1970, the report times stay in NTP era 0.
func c08GenHugeAges(r *Rng) []string {
	var ops []string
	const era = int64(2085978495) * 1000000000
	k := r.Range(1, 2)
	age := c08HugeAge(r, 63)
	ref := int64(r.U64() % uint64(era-20000000000))
	if r.Chance(1, 6) { // ages beyond int64: Sub saturates
		age = int64(1<<62) + int64(r.U64()%(1<<61))
		ref = era/2 + int64(r.U64()%uint64(era/2-20000000000))
	}
	clock := ref - age // wraps only if ref-age < -2^63
	if age > 0 && clock > ref {
		clock = -1 << 63
	}
	seqs := make([]int, k)
	for i := range seqs {
		seqs[i] = r.Intn(65536)
	}
	// arrivals within a few hundred ms after `clock`, with a gap that is never filled
	n := r.Range(2, 8)
	for p := 0; p < n; p++ {
		i := r.Intn(k)
		if p == 1 || r.Chance(1, 6) {
			seqs[i]++
		}
		ops = append(ops, fmt.Sprintf("add at=%d ssrc=%d seq=%d ecn=%d", clock, 10+i, seqs[i]&0xFFFF, r.Intn(4)))
		seqs[i]++
		if clock < (1<<63-1)-50000000 {
			clock += int64(r.Intn(50000000))
		}
	}
	at := ref
	for b := r.Range(2, 6); b > 0; b-- {
		switch r.Intn(4) {
		case 0:
			at += int64(r.Intn(3000000000))
		case 1:
			at = ref + int64(r.Pick(0, 1, 976563, 7998046875, 8000000000))
		default:
			at += int64(r.Pick(1, 1000000, 100000000, 999999999))
		}
		if at < 0 || at >= era {
			at = ref
		}
		mx := 1200
		if r.Chance(1, 4) {
			mx = c08Max(r, k)
		}
		ops = append(ops, fmt.Sprintf("build at=%d max=%d", at, mx))
		if r.Chance(1, 3) { // a fresh packet at the report time (age 0 next to the huge ones)
			i := r.Intn(k)
			ops = append(ops, fmt.Sprintf("add at=%d ssrc=%d seq=%d ecn=0", at, 10+i, seqs[i]&0xFFFF))
			seqs[i]++
		}
	}
	return ops
}

// c08GenIdleStream: one stream falls silent (everything acknowledged, or with a gap still pending)
// for hundreds of consecutive reports (`buildrun`) while others keep flowing, then resumes with a
// duplicate of an old acknowledged number, a gap, or the next number.
func c08GenIdleStream(r *Rng) []string {
	var ops []string
	k := r.Range(2, 3)
	ssrc := []int{r.Pick(1, 10, 4000000000), 0, 0}
	ssrc[1], ssrc[2] = ssrc[0]+1, ssrc[0]+r.Pick(2, 5)
	seq := make([]int, k)
	for i := range seq {
		seq[i] = r.Intn(65536)
		if r.Chance(1, 4) {
			seq[i] = 65536 - r.Range(1, 10)
		}
	}
	clock := int64(1500000000)*1000000000 + int64(r.Intn(1000000000))
	const step = 100000000
	for i := 0; i < k; i++ {
		n := r.Range(3, 15)
		if i == 0 && r.Chance(1, 4) { // a gap that is never filled: the stream stays pending while silent
			ops = append(ops, fmt.Sprintf("add at=%d ssrc=%d seq=%d ecn=0", clock, ssrc[0], seq[0]&0xFFFF))
			seq[0] += 2
		}
		ops = append(ops, fmt.Sprintf("addrun at=%d ssrc=%d seq=%d n=%d step=1000000 ecn=0", clock, ssrc[i], seq[i]&0xFFFF, n))
		seq[i] += n
		clock += int64(n) * 1000000
	}
	ops = append(ops, fmt.Sprintf("build at=%d max=1200", clock))
	budget := 800 // consecutive builds per case (model speed)
	for rounds := r.Range(1, 3); rounds > 0 && budget > 0; rounds-- {
		for i := 1; i < k; i++ {
			if r.Bool() {
				n := r.Range(1, 3)
				ops = append(ops, fmt.Sprintf("addrun at=%d ssrc=%d seq=%d n=%d step=1000000 ecn=0", clock, ssrc[i], seq[i]&0xFFFF, n))
				seq[i] += n
			}
		}
		n := r.Pick(20, 150, 299, 300, 301, 302, 310, 350, 600, 1000)
		if n > budget {
			n = budget
		}
		budget -= n
		mx := 1200
		if r.Chance(1, 5) {
			mx = c08Max(r, k)
		}
		ops = append(ops, fmt.Sprintf("buildrun at=%d n=%d step=%d max=%d", clock+step, n, step, mx))
		clock += int64(n) * step
		if r.Chance(1, 5) { // the silent stream shows a sign of life: next number, or an old duplicate
			if r.Bool() {
				ops = append(ops, fmt.Sprintf("add at=%d ssrc=%d seq=%d ecn=0", clock, ssrc[0], seq[0]&0xFFFF))
				seq[0]++
			} else {
				ops = append(ops, fmt.Sprintf("add at=%d ssrc=%d seq=%d ecn=0", clock, ssrc[0], (seq[0]-r.Range(1, 5))&0xFFFF))
			}
		}
	}
	// resumption
	for i := r.Range(1, 3); i > 0; i-- {
		switch r.Intn(4) {
		case 0, 1: // late duplicate of an acknowledged number, then the next new one
			ops = append(ops, fmt.Sprintf("add at=%d ssrc=%d seq=%d ecn=0", clock, ssrc[0], (seq[0]-r.Range(1, 9))&0xFFFF))
			ops = append(ops, fmt.Sprintf("add at=%d ssrc=%d seq=%d ecn=0", clock+1000000, ssrc[0], seq[0]&0xFFFF))
			seq[0]++
		case 2: // a gap
			seq[0] += r.Range(1, 20)
			ops = append(ops, fmt.Sprintf("add at=%d ssrc=%d seq=%d ecn=0", clock, ssrc[0], seq[0]&0xFFFF))
			seq[0]++
		default:
			ops = append(ops, fmt.Sprintf("add at=%d ssrc=%d seq=%d ecn=0", clock, ssrc[0], seq[0]&0xFFFF))
			seq[0]++
		}
		clock += step
		ops = append(ops, fmt.Sprintf("build at=%d max=1200", clock))
	}
	return ops
}

func c08GenRec(r *Rng, tier string, idx int) Case {
	cl := c08RecClasses[idx%len(c08RecClasses)]
	if tier == "thorough" && (cl == "longrun" || cl == "idlestream") && (idx/len(c08RecClasses))%4 != 0 {
		cl = "mixed" // the long-history classes cost ~50 ms each in the model: every 4th round in the thorough tier
	}
	switch cl {
	case "longrun":
		return Case{Class: cl, Ops: c08GenLongRun(r)}
	case "hugeages":
		return Case{Class: cl, Ops: c08GenHugeAges(r)}
	case "idlestream":
		return Case{Class: cl, Ops: c08GenIdleStream(r)}
	}
	k := 1
	switch cl {
	case "multi", "maxsweep", "headers", "oddeven", "mixed":
		k = r.Range(1, 5)
	case "inorder", "loss", "ages":
		k = r.Range(1, 2)
	}
	streams := make([]*c08Stream, k)
	for i := range streams {
		s := &c08Stream{ssrc: uint32(r.Pick(1, 2, 3, 7, 1000, 4294967295, 123456) + i*10)}
		if r.Chance(1, 8) {
			s.ssrc = uint32(r.U64())
		}
		for j := 0; j < i; j++ {
			if streams[j].ssrc == s.ssrc {
				s.ssrc += uint32(i)
			}
		}
		s.next = r.Intn(65536)
		if cl == "wrap" || r.Chance(1, 6) {
			s.next = 65536 - r.Range(1, 12)
		}
		if r.Chance(1, 10) {
			s.next = r.Pick(0, 1, 32767, 32768)
		}
		streams[i] = s
	}
	clock := int64(1500000000)*1000000000 + int64(r.Intn(1000000000))
	if r.Chance(1, 10) {
		clock = int64(r.U64() % (2085978495 * 1000000000))
	}
	var ops []string
	emit := func(s *c08Stream, n int, at int64) {
		ecn := 0
		if r.Chance(1, 4) {
			ecn = r.Intn(4)
		}
		if r.Chance(1, 60) {
			ecn = r.Intn(256)
		}
		ops = append(ops, fmt.Sprintf("add at=%d ssrc=%d seq=%d ecn=%d", at, s.ssrc, n&0xFFFF, ecn))
		s.seen = append(s.seen, n)
	}
	rounds := r.Range(2, 6)
	if cl == "gapskept" {
		rounds = r.Range(6, 14)
	}
	for round := 0; round < rounds; round++ {
		npk := r.Range(0, 10)
		if cl == "maxsweep" {
			npk = r.Range(4, 30)
		}
		for p := 0; p < npk; p++ {
			s := streams[r.Intn(k)]
			clock += int64(r.Intn(20000000))
			n := s.next
			s.next++
			switch cl {
			case "inorder", "ages", "future", "maxsweep", "headers", "multi", "oddeven":
				emit(s, n, clock)
			case "loss":
				if !r.Chance(1, 4) {
					emit(s, n, clock)
				}
			case "gapskept":
				// a number that is never filled, early in the stream; then in-order traffic
				if !(round == 0 && p == 1) && !r.Chance(1, 12) {
					emit(s, n, clock)
				}
			case "reorder":
				if r.Chance(1, 3) {
					s.held = append(s.held, n)
				} else {
					emit(s, n, clock)
				}
				if len(s.held) > 0 && r.Chance(1, 3) {
					j := r.Intn(len(s.held))
					emit(s, s.held[j], clock+int64(r.Intn(1000)))
					s.held = append(s.held[:j], s.held[j+1:]...)
				}
			case "dupsame":
				emit(s, n, clock)
				if r.Chance(1, 2) {
					emit(s, n, clock)
				}
			case "duplater":
				emit(s, n, clock)
				if len(s.seen) > 0 && r.Chance(1, 2) {
					clock += int64(r.Pick(1, 976563, 500000000, 2000000000))
					emit(s, s.seen[r.Intn(len(s.seen))], clock)
				}
			case "wrap":
				if !r.Chance(1, 6) {
					emit(s, n, clock)
				}
				if r.Chance(1, 8) {
					s.next += r.Range(1, 5)
				}
			case "bigrange":
				emit(s, n, clock)
				if r.Chance(1, 6) {
					s.next += r.Pick(100, 370, 592, 593, 739, 740, 741, 1000, 3000, 20000, 32000)
				}
			default: // mixed
				switch r.Intn(6) {
				case 0: // lost
				case 1:
					s.held = append(s.held, n)
				case 2:
					emit(s, n, clock)
					emit(s, n, clock+int64(r.Intn(3))*500000000)
				case 3:
					emit(s, n, clock)
					if len(s.seen) > 0 {
						emit(s, s.seen[r.Intn(len(s.seen))], clock+1)
					}
				default:
					emit(s, n, clock)
				}
				if len(s.held) > 0 && r.Chance(1, 4) {
					emit(s, s.held[0], clock)
					s.held = s.held[1:]
				}
			}
		}
		// one or two builds
		nb := 1
		if r.Chance(1, 5) {
			nb = 2
		}
		for b := 0; b < nb; b++ {
			at := clock + int64(r.U64()%200000000)
			mx := 1200
			switch cl {
			case "ages", "future", "duplater", "gapskept":
				at = clock + c08Age(r)
				if cl == "future" && r.Bool() {
					at = clock - int64(r.Pick(1, 1000, 1000000000))
				}
				if r.Chance(1, 3) {
					mx = c08Max(r, k)
				}
			case "maxsweep", "oddeven", "multi", "mixed", "bigrange":
				mx = c08Max(r, k)
				if cl == "bigrange" && r.Bool() {
					mx = r.Pick(1200, 1500, 1499, 1498, 1497, 800)
				}
				if r.Chance(1, 4) {
					at = clock + c08Age(r)
				}
			case "headers":
				mx = r.Range(0, 12+8*k+6)
				if r.Chance(1, 3) {
					mx = c08Max(r, k)
				}
			default:
				if r.Chance(1, 3) {
					mx = c08Max(r, k)
				}
			}
			ops = append(ops, fmt.Sprintf("build at=%d max=%d", at, mx))
			if at > clock && at-clock < 2000000000 {
				clock = at
			}
		}
	}
	return Case{Class: cl, Ops: ops}
}

func c08RunRec(t *testing.T, ops []string, o *Out) {
	rec := rfc8888.NewRecorder()
	// a report BuildReport returned is the caller's: kept by pointer, re-rendered after every later op (retain_test.go)
	defer o.EndKept()
	nRep := 0
	build := func(at time.Time, mx int) *rtcp.CCFeedbackReport {
		rep := rec.BuildReport(at, mx)
		nRep++
		if rep != nil {
			o.KeepRTCP(fmt.Sprintf("report#%d", nRep), rep)
		}
		return rep
	}
	for _, op := range ops {
		o.CheckKept()
		var at int64
		var ssrc uint32
		var seq uint16
		var ecn uint8
		var mx, n int
		var step int64
		switch {
		case scan(op, "add at=%d ssrc=%d seq=%d ecn=%d", &at, &ssrc, &seq, &ecn) && len(strings.Fields(op)) == 5:
			rec.AddPacket(time.Unix(0, at), ssrc, seq, ecn)
		case scan(op, "build at=%d max=%d", &at, &mx) && len(strings.Fields(op)) == 3:
			c08ShowReport(o, build(time.Unix(0, at), mx))
		case scan(op, "addrun at=%d ssrc=%d seq=%d n=%d step=%d ecn=%d", &at, &ssrc, &seq, &n, &step, &ecn) &&
			len(strings.Fields(op)) == 7 && n >= 0 && n <= 200000:
			for i := 0; i < n; i++ {
				rec.AddPacket(time.Unix(0, at+int64(i)*step), ssrc, seq+uint16(i), ecn)
			}
		case scan(op, "buildrun at=%d n=%d step=%d max=%d", &at, &n, &step, &mx) &&
			len(strings.Fields(op)) == 5 && n >= 0 && n <= 5000:
			for i := 0; i < n; i++ {
				c08ShowReport(o, build(time.Unix(0, at+int64(i)*step), mx))
			}
		default:
			o.P("bad-op")
		}
	}
}

var c08IntClasses = []string{
	"steady", "loss", "multi", "latewriter", "readafterclose", "closenowriter", "idle", "oldgap", "dup", "wrap",
	"longidle",
}

// c08GenInt: the classes of c08GenIntPlain, a third of them with wire shapes on the RTP packets, and the class
// `padding`: packet-carrying classes, always shaped.
func c08GenInt(r *Rng, tier string, idx int) Case {
	n := len(c08IntClasses) + 2
	if idx%n == n-2 {
		// class `clockstep` — "the report timestamp / arrival-time offsets are what the configured clock says": the
		// SenderNow clock is a wall clock that is stepped back (by more than a report interval, by less) or forward between
		// packets and reports while the ticker keeps its pace.  Traffic of a packet-carrying class, steps anywhere after
		// the configuration.
		cs := c08GenIntPlain(r, tier, r.Pick(0, 1, 2, 3, 7, 8, 9)) // steady, loss, multi, latewriter, oldgap, dup, wrap
		cs.Class = "clockstep"
		var iv, sk int
		if !scan(cs.Ops[0], "cfg interval=%d skew=%d", &iv, &sk) {
			if !scan(cs.Ops[0], "cfg interval=%d", &iv) {
				return cs
			}
			cs.Ops[0] += " skew=0"
		}
		ivNs := iv * 1000000
		stepOp := func() string {
			return fmt.Sprintf("step ns=%d", r.Pick(-1, -1000, -1000000, -ivNs/2, -ivNs+1, -ivNs, -ivNs-1, -2*ivNs, -5*ivNs-7, -3600000000000,
				-86400000000000, 1, 1000000, ivNs/3, ivNs, 3*ivNs, 3600000000000, 86400000000000))
		}
		out := []string{cs.Ops[0]}
		for _, op := range cs.Ops[1:] {
			out = append(out, op)
			if r.Chance(1, 6) {
				out = append(out, stepOp())
			}
		}
		// two successive reports with a step between them and one packet each
		var ssrc, seq int
		for _, op := range cs.Ops {
			if scan(op, "rtp ssrc=%d seq=%d", &ssrc, &seq) && out[len(out)-1] != "close" {
				out = append(out, fmt.Sprintf("rtp ssrc=%d seq=%d", ssrc, (seq+70)&0xFFFF), fmt.Sprintf("adv ms=%d", iv), stepOp(),
					fmt.Sprintf("rtp ssrc=%d seq=%d", ssrc, (seq+71)&0xFFFF), fmt.Sprintf("adv ms=%d", 2*iv))
				break
			}
		}
		cs.Ops = out
		if r.Chance(1, 3) {
			cs.Ops = append([]string{ambWith(ambOp("", "", false, false, false, false), ambShapes(r))}, cs.Ops...)
		}
		return cs
	}
	if idx%n == n-1 {
		cs := c08GenIntPlain(r, tier, r.Pick(0, 1, 2, 7, 8, 9)) // steady, loss, multi, oldgap, dup, wrap
		cs.Class = "padding"
		cs.Ops = append([]string{ambWith(ambOp("", "", false, false, false, false), ambShapes(r))}, cs.Ops...)
		return cs
	}
	cs := c08GenIntPlain(r, tier, idx%n)
	if r.Chance(1, 3) {
		cs.Ops = append([]string{ambWith(ambOp("", "", false, false, false, false), ambShapes(r))}, cs.Ops...)
	}
	return cs
}

func c08GenIntPlain(r *Rng, tier string, idx int) Case {
	cl := c08IntClasses[idx%len(c08IntClasses)]
	interval := r.Pick(100, 100, 50, 20, 250, 1000)
	if cl == "oldgap" {
		interval = r.Pick(1000, 2000, 4000)
	}
	ops := []string{fmt.Sprintf("cfg interval=%d", interval)}
	// a third of the cases: a configured clock (SenderNow) that is not the ticker's clock
	skew := 0
	if r.Chance(1, 3) {
		skew = r.Pick(1, -1, 999, -1000, 3600000, -3600000, 86400000, -86400000, 315576000000, -315576000000,
			1104537600000, -2900000000000)
		ops[0] += fmt.Sprintf(" skew=%d", skew)
	}
	k := 1
	if cl == "multi" || r.Chance(1, 4) {
		k = r.Range(2, 5)
	}
	ssrcs := make([]int, k)
	next := make([]int, k)
	for i := range ssrcs {
		ssrcs[i] = r.Pick(1, 5, 77, 4000000000) + i
		next[i] = r.Intn(65536)
		if cl == "wrap" || r.Chance(1, 5) {
			next[i] = 65536 - r.Range(1, 6)
		}
		ops = append(ops, fmt.Sprintf("bind ssrc=%d", ssrcs[i]))
	}
	rtp := func(i int) {
		ops = append(ops, fmt.Sprintf("rtp ssrc=%d seq=%d", ssrcs[i], next[i]&0xFFFF))
	}
	switch cl {
	case "latewriter":
		rtp(0)
		next[0]++
		if r.Bool() {
			ops = append(ops, fmt.Sprintf("adv ms=%d", r.Range(0, 300)))
		}
		ops = append(ops, "writer")
	case "closenowriter":
		if r.Bool() {
			rtp(0)
			next[0]++
		}
		ops = append(ops, "close")
		if r.Bool() {
			ops = append(ops, "writer")
		}
		rtp(0)
		ops = append(ops, fmt.Sprintf("adv ms=%d", r.Range(0, 300)))
		return Case{Class: cl, Ops: ops}
	default:
		ops = append(ops, "writer")
	}
	if cl == "idle" {
		ops = append(ops, fmt.Sprintf("adv ms=%d", r.Range(0, 1000)), "close")
		return Case{Class: cl, Ops: ops}
	}
	if cl == "longidle" {
		// a stream is fully acknowledged, stays silent for hundreds of report intervals while another may
		// keep flowing, then resumes with a duplicate of an old number, a gap, or the next number
		interval = r.Pick(100, 50, 20)
		ops[0] = fmt.Sprintf("cfg interval=%d", interval)
		if skew != 0 {
			ops[0] += fmt.Sprintf(" skew=%d", skew)
		}
		for j := r.Range(2, 8); j > 0; j-- {
			i := r.Intn(k)
			rtp(i)
			next[i]++
			if r.Bool() {
				ops = append(ops, fmt.Sprintf("adv ms=%d", r.Range(1, interval)))
			}
		}
		ops = append(ops, fmt.Sprintf("adv ms=%d", 2*interval))
		left := 700
		for rounds := r.Range(1, 3); rounds > 0 && left > 0; rounds-- {
			n := r.Pick(100, 299, 300, 301, 302, 320, 400)
			if n > left {
				n = left
			}
			left -= n
			ops = append(ops, fmt.Sprintf("adv ms=%d", n*interval))
			if k > 1 && r.Bool() {
				rtp(1)
				next[1]++
			}
		}
		for j := r.Range(1, 3); j > 0; j-- {
			switch r.Intn(3) {
			case 0:
				ops = append(ops, fmt.Sprintf("rtp ssrc=%d seq=%d", ssrcs[0], (next[0]-r.Range(1, 6))&0xFFFF))
				rtp(0)
				next[0]++
			case 1:
				next[0] += r.Range(1, 9)
				rtp(0)
				next[0]++
			default:
				rtp(0)
				next[0]++
			}
			ops = append(ops, fmt.Sprintf("adv ms=%d", interval))
		}
		ops = append(ops, "close")
		return Case{Class: cl, Ops: ops}
	}
	steps := r.Range(3, 25)
	for s := 0; s < steps; s++ {
		i := r.Intn(k)
		switch cl {
		case "loss", "oldgap":
			if cl == "oldgap" && s == 1 || r.Chance(1, 5) {
				next[i]++ // lost
			}
			rtp(i)
			next[i]++
		case "dup":
			rtp(i)
			if r.Bool() {
				if r.Bool() {
					ops = append(ops, fmt.Sprintf("adv ms=%d", r.Range(1, interval)))
				}
				rtp(i)
			}
			next[i]++
		default:
			rtp(i)
			next[i]++
		}
		switch r.Intn(5) {
		case 0:
			ops = append(ops, fmt.Sprintf("adv ms=%d", interval))
		case 1:
			ops = append(ops, fmt.Sprintf("adv ms=%d", r.Range(0, 2*interval)))
		case 2:
			ops = append(ops, fmt.Sprintf("adv ms=%d", r.Range(0, 10)))
		case 3:
			if cl == "oldgap" {
				ops = append(ops, fmt.Sprintf("adv ms=%d", r.Pick(7000, 8000, 9000, 30000, 66000)))
			}
		}
	}
	ops = append(ops, fmt.Sprintf("adv ms=%d", r.Range(0, 3*interval)))
	ops = append(ops, "close")
	if cl == "readafterclose" || r.Chance(1, 4) {
		rtp(0)
		ops = append(ops, fmt.Sprintf("adv ms=%d", 2*interval))
		if r.Bool() {
			ops = append(ops, "writer")
			rtp(0)
			ops = append(ops, "close")
		}
	}
	return Case{Class: cl, Ops: ops}
}

func c08RunInt(t *testing.T, ops []string, o *Out) {
	synctest.Test(t, func(t *testing.T) {
		var (
			icpt    interceptor.Interceptor
			reports []*rtcp.CCFeedbackReport
			readers = map[uint32]interceptor.RTPReader{}
			pending []byte
			blocked []chan struct{}
		)
		// every packet handed to the RTCP writer is the writer's (it may queue it): kept by pointer and re-rendered
		// after every later op, before Close and after Close (retain_test.go)
		defer o.EndKept()
		defer func() {
			o.CheckKeptAll()
			if icpt != nil {
				_ = icpt.Close()
				synctest.Wait()
			}
		}()
		nWritten := 0
		writer := interceptor.RTCPWriterFunc(func(pkts []rtcp.Packet, _ interceptor.Attributes) (int, error) {
			for _, p := range pkts {
				nWritten++
				o.KeepRTCP(fmt.Sprintf("written#%d", nWritten), p)
				if rep, ok := p.(*rtcp.CCFeedbackReport); ok {
					reports = append(reports, rep)
				} else {
					reports = append(reports, nil)
				}
			}
			return 0, nil
		})
		// a blocking transport: when an `adv` is directly followed by `rtp`, the interceptor's Read is entered
		// first and the wrapped reader returns the packet only after the time has passed (gate)
		var gate chan struct{}
		source := interceptor.RTPReaderFunc(func(b []byte, a interceptor.Attributes) (int, interceptor.Attributes, error) {
			if g := gate; g != nil {
				<-g
			}
			return copy(b, pending), a, nil
		})
		pendMs := -1
		closedSeen := false
		flush := func() {
			for _, rep := range reports {
				if rep == nil {
					o.P("other-rtcp")
					continue
				}
				c08ShowReport(o, rep)
			}
			reports = nil
		}
		var skewNs atomic.Int64 // configured clock minus bubble clock (cfg skew=, step ns=)
		hasClock := false       // the case configured SenderNow
		for _, op := range ops {
			o.CheckKept()
			var a, b int
			withSkew := len(strings.Fields(op)) == 3 && scan(op, "cfg interval=%d skew=%d", &a, &b) &&
				b >= -3000000000000 && b <= 1130000000000
			if (withSkew || len(strings.Fields(op)) == 2 && scan(op, "cfg interval=%d", &a)) && icpt == nil && a >= 1 && a <= 100000 {
				opts := []rfc8888.Option{rfc8888.SendInterval(time.Duration(a) * time.Millisecond)}
				if withSkew {
					skewNs.Store(int64(time.Duration(b) * time.Millisecond))
					hasClock = true
					opts = append(opts, rfc8888.SenderNow(func() time.Time { return time.Now().Add(time.Duration(skewNs.Load())) }))
				}
				f, err := rfc8888.NewSenderInterceptor(opts...)
				if err != nil {
					o.P("err:factory")
					return
				}
				i, err := f.NewInterceptor("")
				if err != nil {
					o.P("err:new")
					return
				}
				icpt = i
				o.P("ok")
				continue
			}
			if icpt == nil {
				o.P("bad-op")
				continue
			}
			isRTP := scan(op, "rtp ssrc=%d seq=%d", &a, &b) && a >= 0 && a < 1<<32 && b >= 0 && b < 65536
			if pendMs >= 0 && !isRTP {
				time.Sleep(time.Duration(pendMs) * time.Millisecond)
				synctest.Wait()
				flush()
				pendMs = -1
			}
			switch {
			case op == "writer":
				icpt.BindRTCPWriter(writer)
				synctest.Wait()
				// a Read that was waiting for the loop has been taken by it
				kept := blocked[:0]
				for _, ch := range blocked {
					select {
					case <-ch:
					default:
						kept = append(kept, ch)
					}
				}
				blocked = kept
			case scan(op, "bind ssrc=%d", &a) && a >= 0 && a < 1<<32:
				readers[uint32(a)] = icpt.BindRemoteStream(&interceptor.StreamInfo{SSRC: uint32(a)}, source)
			case scan(op, "rtp ssrc=%d seq=%d", &a, &b) && a >= 0 && a < 1<<32 && b >= 0 && b < 65536:
				rd := readers[uint32(a)]
				if rd == nil {
					rd = icpt.BindRemoteStream(&interceptor.StreamInfo{SSRC: uint32(a)}, source)
					readers[uint32(a)] = rd
				}
				pkt := rtp.Packet{Header: rtp.Header{Version: 2, SSRC: uint32(a), SequenceNumber: uint16(b)}, Payload: []byte{1, 2, 3}}
				raw, err := pkt.Marshal()
				if err != nil {
					o.P("err:marshal")
					continue
				}
				pending = o.ShapeRaw(raw) // the case's wire shapes (P bit: padding-only, count 1, count = payload-1)
				done := make(chan struct{})
				var n int
				var rerr error
				if pendMs >= 0 {
					gate = make(chan struct{})
				}
				go func() {
					defer close(done)
					n, _, rerr = rd.Read(make([]byte, 1500), nil)
				}()
				if pendMs >= 0 {
					synctest.Wait()
					time.Sleep(time.Duration(pendMs) * time.Millisecond)
					synctest.Wait()
					flush()
					pendMs = -1
					close(gate)
					gate = nil
				}
				synctest.Wait()
				select {
				case <-done:
					if rerr != nil || n != len(raw) {
						o.P("read err")
					} else {
						o.P("read ok")
					}
				default:
					o.P("read blocked")
					blocked = append(blocked, done)
				}
			case scan(op, "adv ms=%d", &a) && a >= 0 && a <= 100000000:
				pendMs = a
			case scan(op, "step ns=%d", &a) && len(strings.Fields(op)) == 2 && hasClock && a >= -90000000000000 && a <= 90000000000000:
				// the configured clock is a wall clock: it is stepped by a ns (NTP correction); the ticker keeps its pace
				skewNs.Add(int64(a))
			case op == "close":
				closedSeen = true
				_ = icpt.Close()
				synctest.Wait()
				rel := 0
				kept := blocked[:0]
				for _, ch := range blocked {
					select {
					case <-ch:
						rel++
					default:
						kept = append(kept, ch)
					}
				}
				blocked = kept
				flush()
				o.P("closed released=%d", rel)
			default:
				o.P("bad-op")
			}
		}
		if pendMs >= 0 && icpt != nil {
			time.Sleep(time.Duration(pendMs) * time.Millisecond)
			synctest.Wait()
			flush()
		}
		if len(blocked) > 0 && closedSeen { // without Close a Read may legitimately still wait for the loop
			o.P("LEAK %d Read calls still blocked at the end of the case", len(blocked))
		}
	})
}

func init() {
	register("ccfbrec", &Comp{
		N: func(tier string) int {
			if tier == "thorough" {
				return 150000
			}
			return 1500
		},
		Gen: c08GenRec,
		Run: c08RunRec,
	})
	register("ccfbint", &Comp{
		N: func(tier string) int {
			if tier == "thorough" {
				return 22000
			}
			return 440
		},
		Gen: c08GenInt,
		Run: c08RunInt,
	})
}

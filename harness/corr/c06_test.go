package corr

// C06 — receiver reports.  Component `receiverreport`: the public ReceiverInterceptor is driven inside a
// testing/synctest bubble (virtual clock, starts 2000-01-01 00:00:00 UTC) with ReceiverNow(time.Now) and
// ReceiverInterval; the ticker is the library's own time.NewTicker on the virtual clock, created when the
// interceptor is (at the start of the case), so ticks fall at start + k*interval.  Whenever the clock is
// advanced across tick instants the reports of those ticks are printed before the op's own effect
// (a tick that falls exactly on an arrival instant is processed first).
//
// ops (every op first advances the clock by dt ns):
//   cfg interval=<ns> [skew=<ns>]            only as the first op (default 1 s).  skew: the clock configured with
//                                            ReceiverNow runs `skew` ns ahead of (negative: behind) the clock that
//                                            drives the ticker (the bubble's time.Now); arrival times AND report
//                                            times are the configured clock's, the values the ticker channel
//                                            delivers are not.  The model's clock starts at 2000-01-01 + skew.
//   bind ssrc=<u32> rate=<u32> dt=<ns>       BindRemoteStream
//   rtp ssrc=<u32> seq=<u16> ts=<u32> dt=<ns>   one RTP packet read through the bound reader
//   sr ssrc=<u32> ntp=<u64> rtp=<u32> dt=<ns>   one incoming rtcp.SenderReport through BindRTCPReader
//                                            optional `hs=<u32>`: the SSRC in the packet's RTP header (default: the
//                                            stream's).  The reception history of a bound stream is what was READ THROUGH
//                                            ITS READER (BindRemoteStream's return value), whatever SSRC the header
//                                            carries: the stream's RTX / FEC SSRC (optional `rtx=` / `fec=` on bind fill
//                                            StreamInfo.SSRCRetransmission / SSRCForwardErrorCorrection), the SSRC of
//                                            ANOTHER bound stream, an unrelated one.  The unchanged code agrees
//                                            (receiver_interceptor.go: the closure calls ITS stream's processRTP and never
//                                            looks at header.SSRC), so the model ignores hs / rtx / fec.
//   tick                                     advance the clock to the next tick instant
//   step ns=<+-n>                            the clock configured with ReceiverNow is a WALL clock: from now on it reads n
//                                            ns more (negative: less) — an NTP correction — while the ticker (monotonic)
//                                            keeps its pace.  Arrival times, sender-report arrival times and report
//                                            instants are the configured clock's: the model's clock and its next tick
//                                            instant both move by n.  (The code clamps a negative DLSR to 0 and takes
//                                            |D| for the jitter sample; the model does the same.)
//   jumprun ssrc= seq= ts= n= step= tsstep= dt= keep=   n times [advance dt; one RTP packet; advance to the next
//                                            tick instant]; packet i carries seq+i*step (mod 2^16), ts+i*tsstep
//                                            (mod 2^32).  Prints one digest line over all reports of the run
//                                            (`run reports= lostsum= fracsum= lostmax= extsum= jitsum=`, sums mod 2^32)
//                                            and then the last `keep` reports in full.
//   unbind ssrc=<u32> dt=<ns>                UnbindRemoteStream
// output: per tick and stream (sorted by media SSRC), every field of every ReceptionReport:
//   `rr ssrc= ext= frac= lost= jit= lsr= dlsr=`   (the receiver's own random SSRC is masked)

import (
	"fmt"
	"sort"
	"sync"
	"testing"
	"testing/synctest"
	"time"

	"github.com/pion/interceptor"
	"github.com/pion/interceptor/pkg/report"
	"github.com/pion/rtcp"
	"github.com/pion/rtp"
)

type c06Rec struct {
	at time.Time
	rr rtcp.ReceptionReport
	n  int
}

func c06Run(t *testing.T, ops []string, o *Out) {
	synctest.Test(t, func(t *testing.T) {
		var (
			icpt     interceptor.Interceptor
			interval = time.Second
			skew     time.Duration // configured clock minus bubble clock (cfg skew= and step ns=); read under synctest order only
			start    = time.Now()
			mu       sync.Mutex
			pending  []c06Rec
			readers  = map[uint32]interceptor.RTPReader{}
			retired  = map[uint32][]interceptor.RTPReader{} // readers of earlier bindings (unbound or replaced), per SSRC
			rtcpIn   interceptor.RTCPReader
			curRTP   []byte
			curRTCP  []byte
		)
		// every packet handed to the RTCP writer is the writer's (it may queue it): kept by pointer and re-rendered
		// after every later op, before Close and after Close (retain_test.go)
		defer o.EndKept()
		defer func() {
			o.CheckKeptAll()
			if icpt != nil {
				_ = icpt.Close()
				synctest.Wait()
			}
		}()
		nWritten := 0
		inside := -1
		var spendInside func()
		ensure := func() {
			if icpt != nil {
				return
			}
			f, err := report.NewReceiverInterceptor(report.ReceiverNow(func() time.Time { return time.Now().Add(skew) }),
				report.ReceiverInterval(interval))
			if err != nil {
				panic(err)
			}
			icpt, err = f.NewInterceptor("")
			if err != nil {
				panic(err)
			}
			icpt = o.Wrap(icpt) // the case's ambient: transparent neighbours around the receiver interceptor (ambient_test.go)
			icpt.BindRTCPWriter(interceptor.RTCPWriterFunc(func(pkts []rtcp.Packet, _ interceptor.Attributes) (int, error) {
				mu.Lock()
				defer mu.Unlock()
				for _, p := range pkts {
					nWritten++
					o.KeepRTCP(fmt.Sprintf("written#%d", nWritten), p)
					if rr, ok := p.(*rtcp.ReceiverReport); ok {
						for _, r := range rr.Reports {
							pending = append(pending, c06Rec{at: time.Now(), rr: r, n: len(rr.Reports)})
						}
					}
				}
				return 0, nil
			}))
			rtcpIn = icpt.BindRTCPReader(interceptor.RTCPReaderFunc(func(b []byte, a interceptor.Attributes) (int, interceptor.Attributes, error) {
				spendInside()
				return copy(b, curRTCP), o.Bottom(a), nil
			}))
			synctest.Wait()
		}
		printRR := func(p c06Rec) string {
			r := p.rr
			x := ""
			if p.n != 1 {
				x = fmt.Sprintf(" n=%d", p.n)
			}
			return fmt.Sprintf("rr ssrc=%d ext=%d frac=%d lost=%d jit=%d lsr=%d dlsr=%d%s", r.SSRC, r.LastSequenceNumber, r.FractionLost,
				r.TotalLost, r.Jitter, r.LastSenderReport, r.Delay, x)
		}
		var sink func(c06Rec) // nil: print every report; otherwise the run collector
		flush := func() {
			mu.Lock()
			ps := pending
			pending = nil
			mu.Unlock()
			sort.SliceStable(ps, func(i, j int) bool {
				if !ps[i].at.Equal(ps[j].at) {
					return ps[i].at.Before(ps[j].at)
				}
				return ps[i].rr.SSRC < ps[j].rr.SSRC
			})
			for _, p := range ps {
				if sink != nil {
					sink(p)
				} else {
					o.P("%s", printRR(p))
				}
			}
		}
		adv := func(ns int) {
			ensure()
			if ns > 0 {
				time.Sleep(time.Duration(ns))
			}
			synctest.Wait()
			flush()
		}
		// a blocking transport: the time before a packet arrives passes INSIDE the wrapped reader's Read
		// (the interceptor's Read was entered earlier); `inside = ns` hands the advance to the next inner read
		spendInside = func() {
			if inside >= 0 {
				ns := inside
				inside = -1
				adv(ns)
			}
		}
		buf := make([]byte, 1500)
		hdrSSRC := func(m map[string]string, dflt uint32) uint32 {
			if v, ok := m["hs"]; ok {
				return uint32(atoi(v))
			}
			return dflt
		}
		readRTP := func(rd interceptor.RTPReader, ssrc uint32, seq uint16, ts uint32) {
			p := rtp.Packet{Header: rtp.Header{Version: 2, SequenceNumber: seq, Timestamp: ts, SSRC: ssrc}, Payload: []byte{1, 2, 3}}
			var err error
			if curRTP, err = p.Marshal(); err != nil {
				panic(err)
			}
			if _, _, err = rd.Read(buf, interceptor.Attributes{}); err != nil {
				panic(err)
			}
		}
		for i, op := range ops {
			o.CheckKept()
			name, m := kv(op)
			need := func(keys ...string) bool {
				for _, k := range keys {
					if _, ok := m[k]; !ok {
						return false
					}
				}
				return true
			}
			switch {
			case name == "cfg" && need("interval") && i == 0 && atoi(m["interval"]) > 0:
				interval = time.Duration(atoi(m["interval"]))
				if need("skew") {
					skew = time.Duration(atoi(m["skew"]))
				}
			case name == "bind" && need("ssrc", "rate", "dt"):
				adv(atoi(m["dt"]))
				ssrc := uint32(atoi(m["ssrc"]))
				if rd, ok := readers[ssrc]; ok {
					retired[ssrc] = append(retired[ssrc], rd) // the receive loop of the old binding may still hold its reader
				}
				readers[ssrc] = icpt.BindRemoteStream(
					&interceptor.StreamInfo{SSRC: ssrc, ClockRate: uint32(atoi(m["rate"]))},
					interceptor.RTPReaderFunc(func(b []byte, a interceptor.Attributes) (int, interceptor.Attributes, error) {
						spendInside()
						return copy(b, curRTP), o.Bottom(a), nil
					}))
			case name == "rtp" && need("ssrc", "seq", "ts", "dt"):
				rd, ok := readers[uint32(atoi(m["ssrc"]))]
				if !ok {
					o.P("bad-op")
					continue
				}
				inside = atoi(m["dt"])
				readRTP(rd, hdrSSRC(m, uint32(atoi(m["ssrc"]))), uint16(atoi(m["seq"])), uint32(atoi(m["ts"])))
			case name == "sr" && need("ssrc", "ntp", "rtp", "dt"):
				ensure()
				inside = atoi(m["dt"])
				var ntpv uint64
				if _, err := fmt.Sscanf(m["ntp"], "%d", &ntpv); err != nil {
					spendInside()
					o.P("bad-op")
					continue
				}
				// `pre`: sender reports of other SSRCs that come first in the same compound packet
				var pkts []rtcp.Packet
				for k, ps := range parseInts(m["pre"]) {
					pkts = append(pkts, &rtcp.SenderReport{SSRC: uint32(ps), NTPTime: ntpv + uint64(k) + 1, RTPTime: 7})
				}
				pkts = append(pkts, &rtcp.SenderReport{SSRC: uint32(atoi(m["ssrc"])), NTPTime: ntpv, RTPTime: uint32(atoi(m["rtp"]))})
				var err error
				if curRTCP, err = rtcp.Marshal(pkts); err != nil {
					panic(err)
				}
				if _, _, err = rtcpIn.Read(buf, interceptor.Attributes{}); err != nil {
					panic(err)
				}
			case name == "tick":
				ensure()
				el := time.Since(start)
				adv(int(interval - el%interval))
			case name == "step" && need("ns"):
				// no time passes; the interceptor exists from the first op on (as for every other op)
				ensure()
				synctest.Wait()
				skew += time.Duration(atoi(m["ns"]))
			case name == "jumprun" && need("ssrc", "seq", "ts", "n", "step", "tsstep", "dt", "keep"):
				ssrc := uint32(atoi(m["ssrc"]))
				rd, ok := readers[ssrc]
				n, seq, ts, step, tsstep := atoi(m["n"]), atoi(m["seq"]), atoi(m["ts"]), atoi(m["step"]), atoi(m["tsstep"])
				if !ok || n <= 0 || n > 100000 || seq >= 65536 || step >= 65536 || ts >= 1<<32 || tsstep >= 1<<32 {
					o.P("bad-op")
					continue
				}
				var all []c06Rec
				sink = func(p c06Rec) { all = append(all, p) }
				for k := 0; k < n; k++ {
					adv(atoi(m["dt"]))
					readRTP(rd, ssrc, uint16(seq), uint32(ts))
					el := time.Since(start)
					adv(int(interval - el%interval))
					seq, ts = (seq+step)&0xFFFF, (ts+tsstep)&0xFFFFFFFF
				}
				sink = nil
				var lostsum, fracsum, lostmax, extsum, jitsum uint32
				for _, p := range all {
					lostsum += p.rr.TotalLost
					fracsum += uint32(p.rr.FractionLost)
					extsum += p.rr.LastSequenceNumber
					jitsum += p.rr.Jitter
					if p.rr.TotalLost > lostmax {
						lostmax = p.rr.TotalLost
					}
				}
				o.P("run reports=%d lostsum=%d fracsum=%d lostmax=%d extsum=%d jitsum=%d", len(all), lostsum, fracsum, lostmax, extsum, jitsum)
				keep := atoi(m["keep"])
				if keep > len(all) {
					keep = len(all)
				}
				for _, p := range all[len(all)-keep:] {
					o.P("%s", printRR(p))
				}
			case name == "unbind" && need("ssrc", "dt"):
				ssrc := uint32(atoi(m["ssrc"]))
				if _, ok := readers[ssrc]; !ok {
					o.P("bad-op")
					continue
				}
				adv(atoi(m["dt"]))
				icpt.UnbindRemoteStream(&interceptor.StreamInfo{SSRC: ssrc})
				retired[ssrc] = append(retired[ssrc], readers[ssrc])
				delete(readers, ssrc) // later reads through the orphaned reader: op `stale`
			case name == "stale" && need("ssrc", "k", "seq", "ts", "dt"):
				// stale ssrc= k= seq= ts= dt= : a packet read through a STALE handle — the RTPReader returned by an earlier
				// BindRemoteStream of this SSRC whose stream has since been unbound or replaced (a receive loop that had not
				// noticed yet).  The reports of the CURRENT binding are a recount of what was read through the current
				// binding: for the model the op only lets time pass.
				ssrc := uint32(atoi(m["ssrc"]))
				old := retired[ssrc]
				if len(old) == 0 {
					o.P("bad-op")
					continue
				}
				inside = atoi(m["dt"])
				readRTP(old[atoi(m["k"])%len(old)], hdrSSRC(m, ssrc), uint16(atoi(m["seq"])), uint32(atoi(m["ts"])))
			default:
				o.P("bad-op")
			}
		}
	})
}

// c06Gen: one stream position (ext seq, ts, arrival pacing) is walked forward; the class decides which
// disturbances are applied.
func c06Gen(r *Rng, tier string, idx int) Case {
	classes := []string{"inorder", "loss", "dup", "reorder", "seqwrap", "cycles", "tsfwd", "tsback", "tsconst",
		"clockjump", "sr", "srforeign", "ticks", "idle", "multi", "mixed", "late8192", "f08", "jumprun", "frac256",
		"clockstep", "hdrssrc"}
	cl := classes[idx%len(classes)]
	class := cl
	// class `clockstep` — "the report instant / arrival instant is what the configured clock says": ReceiverNow is a wall
	// clock, and a wall clock is stepped (NTP correction) while the ticker keeps its pace: back by more than a report
	// interval, back by less, forward; between two packets (one jitter sample sees the step), between a sender report and
	// the receiver report that echoes it (DLSR: the code clamps a negative delay to 0), between two reports.
	stepping := cl == "clockstep"
	if stepping {
		cl = []string{"inorder", "loss", "reorder", "sr", "sr", "sr", "multi", "mixed", "ticks", "idle"}[r.Intn(10)]
	}
	// class `hdrssrc` — "the reception history of a bound stream is what was read through its reader": packets whose
	// header SSRC is not StreamInfo.SSRC — the stream's RTX / FEC SSRC, the SSRC of ANOTHER bound stream, an unrelated
	// one — belong to the stream whose reader delivered them (a demultiplexer that routes RTX to the media stream does
	// exactly this) and to no other.
	foreign := cl == "hdrssrc"
	if foreign {
		cl = []string{"multi", "multi", "multi", "mixed", "inorder", "loss", "reorder", "sr"}[r.Intn(8)]
	}
	// sat24 (rare: each case runs ~2100 report intervals): the summed interval losses cross 2^24-1 while every
	// interval stays inside the 8192 history; the cumulative count must saturate there and stay saturated.
	if (tier != "thorough" && idx%900 == 7) || (tier == "thorough" && idx%2500 == 7) {
		return c06Sat24(r, idx)
	}
	// rebind: an SSRC is bound again (with or without an Unbind) with another clock rate and a fresh
	// sequence/timestamp space (c06_rebind_test.go)
	if idx%21 == 20 {
		return c06Rebind(r)
	}
	big := tier == "thorough" && cl == "cycles" && idx%7000 == 5 // one `cycles` case in 7000 wraps the 16-bit cycle counter
	ops := []string{}
	interval := 1000000000
	switch cl {
	case "clockjump":
		interval = r.Pick(1000000000, 60000000000)
	case "ticks", "idle":
		interval = r.Pick(1000000, 20000000, 1000000000)
	case "mixed":
		interval = r.Pick(100000000, 1000000000, 5000000000)
	}
	if interval != 1000000000 || r.Chance(1, 8) {
		ops = append(ops, fmt.Sprintf("cfg interval=%d", interval))
	}
	if r.Chance(1, 4) {
		ops = []string{fmt.Sprintf("cfg interval=%d skew=%d", interval, c06Skew(r))}
	}
	rates := []int{8000, 48000, 90000, 1, 4294967295, 1000}
	stepOp := func() string {
		return fmt.Sprintf("step ns=%d", r.Pick(-1, -1000000, -interval/2, -interval+1, -interval, -interval-1, -2*interval, -5*interval-7,
			-3600000000000, -86400000000000, 1, 1000000, interval/3, interval, 3*interval, 3600000000000, 86400000000000))
	}
	type st struct{ ssrc, rate, ext, ts, tsStep, pace, rtx, fec, rtxSeq int }
	nstreams := 1
	if cl == "multi" || cl == "mixed" {
		nstreams = r.Range(1, 3)
	}
	if foreign && nstreams < 2 && r.Chance(3, 4) {
		nstreams = r.Range(2, 3)
	}
	streams := []*st{}
	for i := 0; i < nstreams; i++ {
		s := &st{ssrc: r.Pick(1, 2, 3, 0, 4294967295, 777) + i*11, rate: r.Pick(8000, 48000, 90000), ext: r.Intn(65536),
			ts: int(r.U64() % (1 << 32)), pace: r.Pick(20000000, 33333333, 10000000, 1000000)}
		if s.ssrc > 4294967295 {
			s.ssrc -= 100
		}
		if cl == "mixed" || r.Chance(1, 6) {
			s.rate = rates[r.Intn(len(rates))]
		}
		// nominal timestamp step: rate * pace
		s.tsStep = int(float64(s.rate) * float64(s.pace) / 1e9)
		switch cl {
		case "seqwrap":
			s.ext = 65536 - r.Range(1, 30)
		case "tsfwd":
			s.ts = (1 << 32) - r.Range(1, 6)*s.tsStep - r.Intn(3)
		case "tsback":
			s.ts = r.Range(0, 5) * s.tsStep
		case "tsconst":
			s.tsStep = 0
		}
		x := ""
		if foreign {
			s.rtxSeq = r.Intn(65536)
			if r.Chance(3, 4) {
				s.rtx = (s.ssrc + r.Pick(1, 1000, 2147483648) + i) & 0xFFFFFFFF
				x += fmt.Sprintf(" rtx=%d", s.rtx)
			}
			if r.Chance(1, 2) {
				s.fec = (s.ssrc + r.Pick(2, 2000, 3000000000) + i) & 0xFFFFFFFF
				x += fmt.Sprintf(" fec=%d", s.fec)
			}
		}
		if stepping && r.Chance(1, 4) {
			ops = append(ops, stepOp()) // before any stream is bound
		}
		streams = append(streams, s)
		ops = append(ops, fmt.Sprintf("bind ssrc=%d rate=%d dt=%d%s", s.ssrc, s.rate, r.Pick(0, 0, 1000, 500000000), x))
	}
	// a header SSRC that is not the stream's (class hdrssrc)
	hsPick := func(s *st) int {
		o := streams[r.Intn(len(streams))]
		c := []int{s.rtx, s.rtx, s.fec, o.ssrc, o.ssrc, o.ssrc, o.rtx, o.fec, r.Pick(0, 4294967295, 555555, s.ssrc^1, s.ssrc^0x80000000)}
		if v := c[r.Intn(len(c))]; v != 0 || r.Chance(1, 8) {
			return v
		}
		return o.ssrc
	}
	n := r.Range(5, 60)
	if cl == "cycles" {
		n = r.Range(20, 400)
		if big {
			n = 140000
		}
	}
	if cl == "f08" {
		n = r.Range(3, 12)
	}
	if cl == "jumprun" || cl == "frac256" {
		n = r.Range(2, 6)
	}
	tickOp := func() {
		if r.Chance(1, 3) {
			ops = append(ops, "tick")
		} else {
			ops = append(ops, fmt.Sprintf("sr ssrc=%d ntp=0 rtp=0 dt=%d", 4000000000+r.Intn(5), interval)) // foreign SSRC: only advances the clock
		}
	}
	for i := 0; i < n; i++ {
		s := streams[r.Intn(len(streams))]
		dt := s.pace + r.Range(-s.pace/2, s.pace/2)
		seqAdv, tsAdv := 1, s.tsStep
		emitSeq, emitTs := -1, -1
		switch cl {
		case "loss":
			if r.Chance(1, 4) {
				seqAdv = r.Range(2, 40)
			}
		case "dup":
			if r.Chance(1, 3) {
				seqAdv, tsAdv = 0, 0
			}
		case "reorder", "late8192":
			if r.Chance(1, 3) {
				back := r.Pick(1, 2, 3, 10, 100, 1000, 8190, 8191)
				if cl == "late8192" {
					back = r.Pick(8191, 8192, 8193, 16384, 20000, 32767, 32768, 32769, 40000, 65535)
				}
				emitSeq = (s.ext - back) & 0xFFFF
				emitTs = (s.ts - back*s.tsStep) & 0xFFFFFFFF
			} else if r.Chance(1, 3) {
				seqAdv = r.Range(1, 200)
			}
		case "seqwrap":
			seqAdv = r.Pick(1, 1, 2, 5)
		case "cycles":
			seqAdv = r.Pick(32767, 32767, 30000, 20000, 8192, 1)
			if big {
				seqAdv = 32767
			}
			tsAdv = s.tsStep * r.Pick(1, 1, 100)
		case "tsback":
			if r.Chance(1, 3) {
				tsAdv = -r.Range(1, 3) * s.tsStep
			}
		case "tsfwd":
			if r.Chance(1, 5) {
				tsAdv = r.Pick(1<<31, (1<<31)-1, (1<<31)+1, 1<<30)
			}
		case "clockjump":
			if r.Chance(1, 6) {
				dt = r.Pick(3600000000000, 600000000000, 61000000000, 1)
			}
		case "idle":
			if r.Chance(1, 4) {
				for k := r.Range(1, 4); k > 0; k-- {
					ops = append(ops, "tick")
				}
			}
		case "jumprun":
			// a short run of [jump, report] pairs, then the stream goes on (the usual packet below)
			if r.Chance(1, 2) {
				step := r.Pick(1, 2, 255, 256, 257, 512, 2048, 4096, 8000, 8191, 8192)
				k := r.Range(1, 12)
				ops = append(ops, fmt.Sprintf("jumprun ssrc=%d seq=%d ts=%d n=%d step=%d tsstep=%d dt=%d keep=%d", s.ssrc, (s.ext+step)&0xFFFF,
					(s.ts+s.tsStep)&0xFFFFFFFF, k, step, s.tsStep, r.Pick(0, 1000, s.pace), r.Range(0, 3)))
				s.ext += step * k
				s.ts = (s.ts + s.tsStep*k) & 0xFFFFFFFF
			}
		case "frac256":
			// a report interval of exactly e = 256*k numbers of which m arrive, m around a multiple of k: the float
			// quotient 256*lost/e is an exact integer (or just off one); every packet 1 ms apart, inside one interval
			k := r.Pick(1, 1, 2, 3, 4, 5, 8, 16, 31, 32)
			e := 256 * k
			m := k*r.Range(1, 4) + r.Pick(-1, 0, 0, 1)
			if m < 1 {
				m = 1
			}
			if m > e {
				m = e
			}
			if m > 150 {
				m = 150
			}
			ops = append(ops, "tick")
			offs := map[int]bool{e: true}
			for len(offs) < m {
				offs[r.Range(1, e)] = true
			}
			sorted := []int{}
			for x := range offs {
				sorted = append(sorted, x)
			}
			sort.Ints(sorted)
			if r.Chance(1, 4) && len(sorted) > 2 { // some of them out of order
				sorted[0], sorted[len(sorted)-2] = sorted[len(sorted)-2], sorted[0]
			}
			for _, x := range sorted {
				ops = append(ops, fmt.Sprintf("rtp ssrc=%d seq=%d ts=%d dt=%d", s.ssrc, (s.ext+x)&0xFFFF, (s.ts+x*s.tsStep)&0xFFFFFFFF, 1000000))
			}
			ops = append(ops, "tick")
			s.ext += e
			s.ts = (s.ts + e*s.tsStep) & 0xFFFFFFFF
		case "f08":
			// a report interval of more than 8192 numbers with some of them missing (excluded point: expects F-08)
			seqAdv = r.Pick(8193, 8200, 10000, 16384, 20000, 32767)
		case "mixed":
			switch r.Intn(8) {
			case 0:
				seqAdv = r.Range(2, 300)
			case 1:
				seqAdv, tsAdv = 0, 0
			case 2:
				back := r.Pick(1, 5, 50, 3000)
				emitSeq = (s.ext - back) & 0xFFFF
				emitTs = (s.ts - back*s.tsStep) & 0xFFFFFFFF
			case 3:
				dt = r.Pick(0, 1, 999999999, 2500000000)
			}
		}
		if emitSeq < 0 {
			s.ext += seqAdv
			s.ts = (s.ts + tsAdv) & 0xFFFFFFFF
			emitSeq, emitTs = s.ext&0xFFFF, s.ts
		}
		if big {
			dt = 1000 // keep the whole case inside one report interval's worth of ticks
		}
		if foreign && r.Chance(1, 3) {
			ops = append(ops, fmt.Sprintf("rtp ssrc=%d seq=%d ts=%d dt=%d hs=%d", s.ssrc, emitSeq, emitTs, dt, hsPick(s)))
		} else {
			ops = append(ops, fmt.Sprintf("rtp ssrc=%d seq=%d ts=%d dt=%d", s.ssrc, emitSeq, emitTs, dt))
		}
		if foreign && r.Chance(1, 4) {
			// retransmissions / repair packets the demultiplexer hands to this stream's reader: their own SSRC and numbering,
			// the timestamp of an earlier packet
			for k := r.Pick(1, 1, 2, 3); k > 0; k-- {
				s.rtxSeq = (s.rtxSeq + 1) & 0xFFFF
				ops = append(ops, fmt.Sprintf("rtp ssrc=%d seq=%d ts=%d dt=%d hs=%d", s.ssrc, s.rtxSeq, (s.ts-r.Pick(0, 1, 2, 5)*s.tsStep)&0xFFFFFFFF,
					r.Pick(0, 1000, 1000000, 20000000), hsPick(s)))
			}
		}
		if stepping && r.Chance(1, 6) {
			ops = append(ops, stepOp()) // between two packets / between a packet and the next report
		}
		if cl == "f08" && r.Chance(1, 2) {
			// fill part of the gap late (within the 8192 window it is seen, beyond it is not)
			for k := r.Range(1, 6); k > 0; k-- {
				back := r.Range(1, seqAdv-1)
				ops = append(ops, fmt.Sprintf("rtp ssrc=%d seq=%d ts=%d dt=%d", s.ssrc, (s.ext-back)&0xFFFF, s.ts, 1000))
			}
		}
		if cl == "sr" || cl == "srforeign" || cl == "mixed" || cl == "multi" {
			if r.Chance(1, 4) {
				ssrc := s.ssrc
				if cl == "srforeign" || (cl != "sr" && r.Chance(1, 3)) {
					ssrc = r.Pick((s.ssrc+1)&0xFFFFFFFF, 999999, 0)
				}
				ntpv := r.U64()
				if r.Chance(1, 4) {
					ntpv = uint64(r.Pick(0, 65535, 65536, 1<<32)) + uint64(r.Intn(2))<<48
				}
				op := fmt.Sprintf("sr ssrc=%d ntp=%d rtp=%d dt=%d", ssrc, ntpv, r.Intn(1<<32), r.Pick(0, 1000, 7000000, 1500000000))
				if r.Chance(1, 3) && ntpv < 1<<63 {
					// a compound packet: reports of foreign (and sometimes other bound) streams first
					pre := []int{r.Pick(999998, 0, 77)}
					if r.Bool() && len(streams) > 0 {
						pre = append(pre, streams[r.Intn(len(streams))].ssrc)
					}
					op += " pre=" + joinInts(pre)
				}
				ops = append(ops, op)
				if stepping && r.Chance(1, 2) {
					ops = append(ops, stepOp()) // between a sender report and the receiver report that echoes it
					if r.Bool() {
						ops = append(ops, "tick")
					}
				}
			}
		}
		tp := 8
		if cl == "ticks" || cl == "idle" || cl == "f08" {
			tp = 2
		}
		if cl == "cycles" {
			tp = 50
		}
		if !big && r.Chance(1, tp) {
			tickOp()
			if stepping && r.Chance(1, 2) {
				ops = append(ops, stepOp(), "tick") // two successive reports with a step between them and nothing else
			}
		}
		if cl == "mixed" && r.Chance(1, 25) {
			ops = append(ops, fmt.Sprintf("unbind ssrc=%d dt=0", s.ssrc), "tick", fmt.Sprintf("bind ssrc=%d rate=%d dt=0", s.ssrc, s.rate))
		}
	}
	ops = append(ops, "tick")
	if stepping {
		ops = append(ops, stepOp(), "tick")
	}
	if r.Bool() {
		ops = append(ops, "tick")
	}
	return Case{Class: class, Ops: c06Ambient(r, ops)}
}

// c06Ambient: in a third of the cases the receiver interceptor sits in a chain with transparent neighbours that see
// the same packets (the NACK responder and the stats interceptor parse the same RTCP through the shared attribute
// cache; rtpfb attaches attributes; the TWCC header extension interceptor ignores streams that did not negotiate it),
// and the transport may return nil attributes.  Only receiver reports are observed, so feedback the neighbours emit
// is invisible here.
func c06Ambient(r *Rng, ops []string) []string {
	if !r.Chance(1, 3) {
		return ops
	}
	pick := func(xs ...string) string { return xs[r.Intn(len(xs))] }
	return append([]string{ambOp(pick("", "resp", "stats", "resp,stats", "rtpfb", "noop"), pick("", "", "stats", "resp", "hdr"), true, false, r.Chance(1, 2), false)}, ops...)
}

// c06Skew: by how much (ns) the configured clock is ahead of the ticker's: a millisecond to decades, both signs.
func c06Skew(r *Rng) int {
	return r.Pick(1, -1) * r.Pick(1000000, 999999999, 1000000000, 3600000000000, 86400000000000, 315576000000000000,
		1104537600000000000, 2900000000000000000)
}

// c06Sat24: see the call site.  Variants: cross (n reports of `step-1` lost each, ending 5..150 reports beyond the
// crossing), exact (the sum lands exactly on 2^24-1, then +1, then more), over1 (the sum lands exactly on 2^24).
func c06Sat24(r *Rng, idx int) Case {
	ssrc, rate := r.Pick(1, 5, 4294967295), r.Pick(8000, 90000)
	seq, ts := r.Intn(65536), int(r.U64()%(1<<32))
	ops := []string{fmt.Sprintf("bind ssrc=%d rate=%d dt=0", ssrc, rate), fmt.Sprintf("rtp ssrc=%d seq=%d ts=%d dt=1000", ssrc, seq, ts), "tick"}
	run := func(n, step, keep int) {
		ops = append(ops, fmt.Sprintf("jumprun ssrc=%d seq=%d ts=%d n=%d step=%d tsstep=%d dt=%d keep=%d", ssrc, (seq+step)&0xFFFF,
			(ts+3000)&0xFFFFFFFF, n, step, 3000, r.Pick(1000, 20000000), keep))
		seq, ts = (seq+n*step)&0xFFFF, (ts+n*3000)&0xFFFFFFFF
	}
	variant := []string{"cross", "exact", "over1"}[(idx/900+idx/2500)%3]
	switch variant {
	case "cross":
		step := r.Pick(8000, 8192, 8191, 7680, 4096)
		n := (1<<24)/(step-1) + r.Range(5, 150)
		run(n, step, r.Range(1, 4))
	case "exact":
		run(2048, 8192, 2) // 2048 * 8191 = 16775168
		run(1, 2048, 1)    // + 2047 = 16777215 = 2^24-1 exactly
		run(1, 2, 1)       // one more lost: stays
	case "over1":
		run(2048, 8192, 2)
		run(1, 2049, 1) // + 2048 = 2^24: saturates
	}
	// the stream goes on: saturation must hold afterwards too
	for i := r.Range(1, 4); i > 0; i-- {
		adv := r.Pick(1, 2, 3, 100, 8000)
		seq = (seq + adv) & 0xFFFF
		ts = (ts + 3000) & 0xFFFFFFFF
		ops = append(ops, fmt.Sprintf("rtp ssrc=%d seq=%d ts=%d dt=20000000", ssrc, seq, ts), "tick")
	}
	run(r.Range(2, 20), r.Pick(2, 300, 8192), 2)
	ops = append(ops, "tick")
	return Case{Class: "sat24-" + variant, Ops: ops}
}

func init() {
	register("receiverreport", &Comp{
		N: func(tier string) int {
			if tier == "thorough" {
				return 100000
			}
			return 2700
		},
		Gen: c06Gen,
		Run: c06Run,
	})
}

package corr

// C05 — component `twccsnd`, scenario class `malformed`: packets in unusual wire forms read through the sender
// interceptor, alone or in a chain with the stats interceptor before or after it, with the caller's own (non-nil)
// Attributes map — so that every interceptor of the chain sees the same packet's parse cache.
//
// The property (the feedback marks received exactly what was received) speaks about packets that were delivered:
// a packet whose Read fails is never handed to the application, so it must not be recorded either.  What the
// unchanged code does (twcc/sender_interceptor.go, attributes.go, pion/rtp Header.Unmarshal):
//   - forms the header parser accepts — version bits other than 2 (not checked), the P bit, a CSRC list, the
//     two-byte extension profile — are recorded like any packet that carries the extension;
//   - forms it rejects — fewer than 12 octets, a CSRC count beyond the packet, the X bit without the 4-octet
//     extension header, an extension length beyond the packet, an extension ELEMENT that overruns the extension
//     block (before or after the transport-cc element) — make the Read of a stream that negotiated the extension
//     return the parse error, and nothing is recorded.  A stream without the extension is not parsed at all.
// A neighbour that parsed the same packet first (the stats interceptor logs the error and passes the packet on)
// changes nothing.

import (
	"fmt"

	"github.com/pion/rtp"
)

// c05MalKinds: kind -> the RTP header parser accepts the packet.
var c05MalKinds = map[string]bool{
	"ver0": true, "ver1": true, "ver3": true, "padbit": true, "csrcok": true, "twobyte": true,
	"short": false, "csrc": false, "xcut": false, "extlen": false, "exttail": false, "extnext": false, "extown": false, "exthead": false,
}

var c05MalOK = []string{"ver0", "ver1", "ver3", "padbit", "csrcok", "twobyte"}
var c05MalBad = []string{"short", "csrc", "xcut", "extlen", "exttail", "exttail", "extnext", "extnext", "extown", "exthead"}

// c05Malformed builds the packet of stream `ssrc` with transport-wide number `seq` (all 14 extension ids in use, see
// c05SetExtensions) and gives it the wire form `kind`.
func c05Malformed(ssrc uint32, rtpSeq, seq uint16, tcc bool, kind string) ([]byte, error) {
	h := rtp.Header{Version: 2, SSRC: ssrc, SequenceNumber: rtpSeq, PayloadType: 96}
	switch kind {
	case "csrcok":
		h.CSRC = []uint32{ssrc ^ 1, 7, 0xFFFFFFFF}
	case "twobyte":
		h.Extension = true
		h.ExtensionProfile = rtp.ExtensionProfileTwoByte
	}
	if err := c05SetExtensions(&h, seq, tcc, true); err != nil {
		return nil, err
	}
	raw, err := (&rtp.Packet{Header: h, Payload: []byte{1, 2, 3}}).Marshal()
	if err != nil {
		return nil, err
	}
	// one-byte form without CSRCs: the elements start at 16, the block ends at 16 + 4*words
	blockEnd := 16 + 4*(int(raw[14])<<8|int(raw[15]))
	own := c05ExtID(ssrc)
	switch kind {
	case "ver0", "ver1", "ver3":
		raw[0] = raw[0]&0x3F | (kind[3]-'0')<<6
	case "padbit":
		raw[0] |= 0x20
	case "short":
		raw = raw[:11]
	case "csrc": // fifteen CSRCs announced, the packet ends inside the list
		raw[0] |= 0x0F
		if len(raw) > 71 {
			raw = raw[:71]
		}
	case "xcut": // the X bit, but the packet ends inside the 4-octet extension header
		raw = raw[:14]
	case "extlen": // the extension block is announced longer than the packet
		words := (len(raw)-16)/4 + 1
		raw[14], raw[15] = byte(words>>8), byte(words)
	case "exttail", "extnext", "extown", "exthead":
		// the length nibble of ONE element is raised to 16 octets so that it overruns the extension block:
		//   exttail  the last element that is not the stream's transport-cc element (the block is broken AFTER the
		//            transport-cc element unless that one is the last of the block)
		//   extnext  the element that follows the transport-cc element (the last one when none follows); the block
		//            is announced to end within 4 octets of it, the rest of the old block counts as payload
		//   extown   the element under the stream's own id, the block shortened likewise
		//   exthead  the first element, the block shortened likewise
		var offs, ids []int
		for off := 16; off < blockEnd; {
			if raw[off] == 0 {
				off++
				continue
			}
			offs, ids = append(offs, off), append(ids, int(raw[off]>>4))
			off += 2 + int(raw[off]&0x0F)
		}
		at := -1
		for i, id := range ids {
			isTcc := id == own && tcc
			switch kind {
			case "exttail":
				if !isTcc {
					at = offs[i]
				}
			case "extown":
				if id == own {
					at = offs[i]
				}
			case "exthead":
				if i == 0 {
					at = offs[i]
				}
			case "extnext":
				if i == len(ids)-1 && at < 0 || i > 0 && ids[i-1] == own && tcc {
					at = offs[i]
				}
			}
		}
		if at < 0 {
			return nil, fmt.Errorf("no element to break")
		}
		raw[at] |= 0x0F
		if kind != "exttail" {
			words := (at + 1 - 16 + 3) / 4
			raw[14], raw[15] = byte(words>>8), byte(words)
		}
	}
	return raw, nil
}

// c05SndMalformedCase: ordinary traffic of one to three streams with packets in unusual wire forms mixed in, always
// in an ambient (a chain; the stats interceptor before — it parses first — or after the sender interceptor; the
// caller's own Attributes map most of the time).
func c05SndMalformedCase(r *Rng) Case {
	var ops []string
	media := uint32(c05Media)
	if r.Chance(1, 2) {
		media = uint32(r.U64())
		ops = append(ops, fmt.Sprintf("cfg interval=%d media=%d", r.Pick(100, 100, 50, 20, 250), media))
	}
	type strm struct {
		ssrc uint32
		tcc  bool
	}
	streams := []strm{{media, true}}
	for k := r.Intn(3); k > 0; k-- {
		s := strm{media + uint32(r.Range(1, 100000)), r.Chance(3, 4)}
		streams = append(streams, s)
		ops = append(ops, fmt.Sprintf("bind ssrc=%d tcc=%d", s.ssrc, b2i(s.tcc)))
	}
	seq := r.Intn(65536)
	for n := r.Range(8, 60); n > 0; n-- {
		s := streams[r.Intn(len(streams))]
		switch r.Intn(5) {
		case 0: // a form the parser rejects: not delivered, not recorded — the number stays missing (or comes again, well-formed)
			ops = append(ops, fmt.Sprintf("mal seq=%d ssrc=%d kind=%s", seq&0xFFFF, s.ssrc, c05MalBad[r.Intn(len(c05MalBad))]))
			if r.Bool() {
				ops = append(ops, fmt.Sprintf("adv us=%d", r.Pick(0, 250, 5000)), fmt.Sprintf("pkt seq=%d ssrc=%d", seq&0xFFFF, s.ssrc))
			}
			seq++
		case 1:
			ops = append(ops, fmt.Sprintf("mal seq=%d ssrc=%d kind=%s", seq&0xFFFF, s.ssrc, c05MalOK[r.Intn(len(c05MalOK))]))
			seq++
		default:
			ops = append(ops, fmt.Sprintf("pkt seq=%d ssrc=%d", seq&0xFFFF, s.ssrc))
			seq += r.Pick(1, 1, 1, 2)
		}
		ops = append(ops, fmt.Sprintf("adv us=%d", r.Pick(0, 250, 1000, 5000, 20000, 64000, 100000, 100001)))
	}
	ops = append(ops, fmt.Sprintf("adv us=%d", r.Pick(100000, 250000, 1000000)))
	if r.Chance(1, 10) {
		ops = append(ops, c05PickS(r, "mal seq=1 ssrc=1", fmt.Sprintf("mal seq=1 ssrc=%d kind=nosuch", media), fmt.Sprintf("mal seq=65536 ssrc=%d kind=short", media),
			fmt.Sprintf("mal seq=1 ssrc=%d kind=short", media+100001), fmt.Sprintf("mal seq=1 ssrc=%d kind=ver0 x=1", media)), "adv us=100000")
	}
	before := c05PickS(r, "stats", "stats", "", "noop", "rtpfb,stats", "stats,noop")
	after := c05PickS(r, "", "", "stats", "noop")
	amb := ambOp(before, after, true, false, r.Chance(1, 5), false)
	if r.Chance(3, 4) {
		amb = ambWith(amb, "attrs=1")
	}
	if r.Chance(1, 6) {
		amb = ambWith(amb, c05FailSched(r))
	}
	return Case{Class: "malformed", Ops: append([]string{amb}, ops...)}
}

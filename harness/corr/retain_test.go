package corr

// "An output already handed out is never rewritten."
//
// Every object the library hands to the application or to the writer below it — an RTCP packet written by a report /
// feedback / NACK loop, the []PacketReport of an rtpfb report, a FEC repair packet, the []rtcp.Packet of
// twcc.Recorder.BuildFeedbackPacket — belongs to whoever received it: the property texts speak about "each report",
// "every repair packet", "every feedback packet" the consumer RECEIVED, and a consumer may queue what it received and
// look at it (marshal it, decode it, send it) after any number of later operations.  A library that keeps a pointer
// into what it gave away and writes through it later (a scratch report, a reused backing array, a cached packet that
// is "refreshed") emits objects that are right at the moment of emission and wrong afterwards; an op-by-op comparison
// that renders each output at emission and drops it can not see that.
//
// The helper keeps the OBJECT (a closure over the pointer / slice the library returned: never a deep copy — the point
// is to see the library write into what it returned) together with its rendering at emission:
//
//	o.Keep(label, render)   record render() now
//	o.CheckKept()           re-render the kept outputs; one `OUTPUT-REWRITTEN <label> was=… now=…` line per output
//	                        whose rendering changed (reported once).  Bounded: when much has been kept only the most
//	                        recent outputs (≈ keptBudget characters of rendering) are re-rendered.
//	o.CheckKeptAll()        the same over everything kept (end of the case: before Close and after Close)
//	o.EndKept()             CheckKeptAll and forget the case
//
// No model prints OUTPUT-REWRITTEN, so any such line is a difference.  The helper is usable by every component; the
// state lives in a side table keyed by the case's *Out (framework_test.go is not edited).

import (
	"fmt"
	"strings"
	"sync"

	"github.com/pion/rtcp"
	"github.com/pion/rtp"
)

type keptOutput struct {
	label    string
	was      string
	cost     int           // what one re-rendering costs, in bytes looked at
	fp       func() uint64 // optional cheap fingerprint of the object: when set, render is called only when it changed
	fpWas    uint64
	render   func() string
	reported bool
}

type keptSet struct {
	mu    sync.Mutex
	items []*keptOutput
}

// keptBudget bounds the work of one CheckKept call (characters of rendering re-produced).
const keptBudget = 1 << 16

var keptSets sync.Map // *Out -> *keptSet

func (o *Out) kept(create bool) *keptSet {
	if o == nil {
		return nil
	}
	if v, ok := keptSets.Load(o); ok {
		return v.(*keptSet)
	}
	if !create {
		return nil
	}
	v, _ := keptSets.LoadOrStore(o, &keptSet{})
	return v.(*keptSet)
}

// Keep records an output the library has just handed out: `render` must read the object itself (through the pointer
// or slice that was handed out) every time it is called.
func (o *Out) Keep(label string, render func() string) { o.keepCost(label, 0, render) }

// keepCost: as Keep, for an output whose re-rendering looks at `cost` bytes (a rendering may be much shorter than
// the object it fingerprints).
func (o *Out) keepCost(label string, cost int, render func() string) {
	ks := o.kept(true)
	if ks == nil {
		return
	}
	k := &keptOutput{label: label, was: render(), render: render}
	k.cost = max(cost, len(k.was)) + 16
	o.addKept(ks, k)
}

// KeepFast: as Keep, for big outputs that are re-read very often: `fingerprint` hashes every field of the object
// (cheaply, no formatting); the rendering is produced once at emission and again only when the fingerprint differs.
func (o *Out) KeepFast(label string, cost int, fingerprint func() uint64, render func() string) {
	ks := o.kept(true)
	if ks == nil {
		return
	}
	k := &keptOutput{label: label, was: render(), render: render, fp: fingerprint, fpWas: fingerprint()}
	k.cost = cost + 16
	o.addKept(ks, k)
}

func (o *Out) addKept(ks *keptSet, k *keptOutput) {
	ks.mu.Lock()
	ks.items = append(ks.items, k)
	ks.mu.Unlock()
}

// KeptN is the number of outputs kept so far (for labels).
func (o *Out) KeptN() int {
	ks := o.kept(false)
	if ks == nil {
		return 0
	}
	ks.mu.Lock()
	defer ks.mu.Unlock()
	return len(ks.items)
}

func (o *Out) checkKept(budget int) {
	ks := o.kept(false)
	if ks == nil {
		return
	}
	ks.mu.Lock()
	items := append([]*keptOutput(nil), ks.items...)
	ks.mu.Unlock()
	var found []string
	for i := len(items) - 1; i >= 0; i-- {
		k := items[i]
		if k.reported {
			continue
		}
		if budget >= 0 {
			if budget == 0 {
				break
			}
			budget -= min(budget, k.cost)
		}
		if k.fp != nil && k.fp() == k.fpWas {
			continue
		}
		if now := k.render(); now != k.was || k.fp != nil {
			k.reported = true
			found = append(found, fmt.Sprintf("OUTPUT-REWRITTEN %s was=[%s] now=[%s]", k.label, keptClip(k.was), keptClip(now)))
		}
	}
	for i := len(found) - 1; i >= 0; i-- { // in emission order
		o.P("%s", found[i])
	}
}

// CheckKept re-renders the most recently kept outputs (all of them while little has been kept).
func (o *Out) CheckKept() { o.checkKept(keptBudget) }

// CheckKeptAll re-renders every kept output.
func (o *Out) CheckKeptAll() { o.checkKept(-1) }

// EndKept is the last check of a case; the kept outputs are released.
func (o *Out) EndKept() {
	o.checkKept(-1)
	if o != nil {
		keptSets.Delete(o)
	}
}

func keptClip(s string) string {
	s = strings.ReplaceAll(s, "\n", "|")
	if len(s) > 400 {
		return s[:200] + "…" + s[len(s)-190:]
	}
	return s
}

// keptMix folds one 64-bit value into an FNV-1a style running hash.
func keptMix(h, v uint64) uint64 {
	for i := 0; i < 8; i++ {
		h ^= v & 0xFF
		h *= 1099511628211
		v >>= 8
	}
	return h
}

const keptFNVInit = uint64(14695981039346656037)

// keptFNV is a short fingerprint of a byte string for renderings of big outputs.
func keptFNV(b []byte) uint64 {
	h := uint64(14695981039346656037)
	for _, c := range b {
		h ^= uint64(c)
		h *= 1099511628211
	}
	return h
}

// keptBytes renders a byte string: hex when short, length + fingerprint + both ends otherwise.
func keptBytes(b []byte) string {
	if len(b) <= 48 {
		return hexs(b)
	}
	return fmt.Sprintf("%d:%016x:%x..%x", len(b), keptFNV(b), b[:12], b[len(b)-12:])
}

// KeepRTCP keeps one RTCP packet the library handed out.  The rendering is the packet's wire form (what the consumer
// will send when it gets round to it) plus the Go value: both must stay what they were.
func (o *Out) KeepRTCP(label string, p rtcp.Packet) {
	cost := 0
	if p != nil {
		func() {
			defer func() { _ = recover() }()
			cost = p.MarshalSize()
		}()
	}
	o.keepCost(label, cost, func() string { return renderRTCP(p) })
}

// KeepRTCPs keeps every packet of a batch and the batch slice itself (length and element identity).
func (o *Out) KeepRTCPs(label string, pkts []rtcp.Packet) {
	for i, p := range pkts {
		o.KeepRTCP(fmt.Sprintf("%s/%d", label, i), p)
	}
	if len(pkts) > 0 {
		o.Keep(label+"/slice", func() string {
			now := make([]string, len(pkts))
			for i, p := range pkts {
				now[i] = fmt.Sprintf("%T@%p", p, p)
			}
			return strings.Join(now, ",")
		})
	}
}

func renderRTCP(p rtcp.Packet) (s string) {
	defer func() {
		if r := recover(); r != nil {
			s = fmt.Sprintf("%T panic:%v", p, r)
		}
	}()
	if p == nil {
		return "nil"
	}
	raw, err := p.Marshal()
	if err != nil {
		return fmt.Sprintf("%T err:%v", p, err)
	}
	extra := ""
	switch x := p.(type) {
	case *rtcp.TransportLayerCC:
		// the wire form does not say whether a delta was stored as small or large when both encode alike
		var sb strings.Builder
		h := uint64(14695981039346656037)
		for _, d := range x.RecvDeltas {
			h ^= uint64(d.Type)<<56 ^ uint64(d.Delta)
			h *= 1099511628211
		}
		fmt.Fprintf(&sb, " deltas=%d:%016x chunks=%d", len(x.RecvDeltas), h, len(x.PacketChunks))
		extra = sb.String()
	case *rtcp.ReceiverReport:
		extra = fmt.Sprintf(" reports=%d", len(x.Reports))
	case *rtcp.TransportLayerNack:
		extra = fmt.Sprintf(" nacks=%d", len(x.Nacks))
	case *rtcp.CCFeedbackReport:
		extra = fmt.Sprintf(" blocks=%d", len(x.ReportBlocks))
	}
	return fmt.Sprintf("%T %s%s", p, keptBytes(raw), extra)
}

// KeepRTP keeps one RTP packet the library handed out (header and payload by reference).
func (o *Out) KeepRTP(label string, h *rtp.Header, payload []byte) {
	o.keepCost(label, len(payload), func() string { return renderRTPKept(h, payload) })
}

func renderRTPKept(h *rtp.Header, payload []byte) (s string) {
	defer func() {
		if r := recover(); r != nil {
			s = fmt.Sprintf("rtp panic:%v", r)
		}
	}()
	hs := "nil"
	if h != nil {
		if raw, err := h.Marshal(); err == nil {
			hs = keptBytes(raw)
		} else {
			hs = "err:" + err.Error()
		}
	}
	return fmt.Sprintf("rtp hdr=%s payload=%s", hs, keptBytes(payload))
}

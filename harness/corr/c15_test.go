package corr

// Component `twcchdr` (property C15): pkg/twcc HeaderExtensionInterceptor through its public
// API (BindLocalStream + the returned RTPWriter).  Sequential cases are compared op for op with
// the Lean model; the `conc` op runs real concurrent writers and prints only a verdict.

import (
	"bytes"
	"runtime"
	"context"
	"encoding/hex"
	"errors"
	"fmt"
	"io"
	"net"
	"os"
	"strings"
	"sync"
	"testing"
	"testing/synctest"

	"github.com/pion/interceptor"
	"github.com/pion/interceptor/pkg/twcc"
	"github.com/pion/rtcp"
	"github.com/pion/rtp"
)

const twccURI = "http://www.ietf.org/id/draft-holmer-rmcat-transport-wide-cc-extensions-01"

var errBottom = errors.New("bottom writer failed")

// c15BottomErrs: the error VALUES the bottom writer returns for `be=<code>` - the interceptor must hand any of
// them back unchanged and the number stays consumed whatever the value is.
var c15BottomErrs = []struct {
	name string
	err  error
}{
	{"nil", nil}, {"bottom", errBottom}, {"closedpipe", io.ErrClosedPipe}, {"eof", io.EOF},
	{"wrapped-closedpipe", fmt.Errorf("transport: %w", io.ErrClosedPipe)}, {"netclosed", net.ErrClosed},
	{"canceled", context.Canceled}, {"shortwrite", io.ErrShortWrite}, {"deadline", os.ErrDeadlineExceeded},
	{"osclosed", os.ErrClosed},
}

// ---- header shapes shared by the C15 and C01 harnesses -----------------------------------

// hdrShape is the op-line form of an rtp.Header.
type hdrShape struct {
	V, PT, Seq, TS, SSRC, Prof, Pad int
	P, X, M                         bool
	CC                              []int
	Ext                             []extElem
}

type extElem struct {
	ID      int
	Payload []byte
}

func b01(b bool) int {
	if b {
		return 1
	}
	return 0
}

func (h hdrShape) String() string {
	ext := "-"
	if len(h.Ext) > 0 {
		parts := make([]string, len(h.Ext))
		for i, e := range h.Ext {
			parts[i] = fmt.Sprintf("%d:%s", e.ID, hexs(e.Payload))
		}
		ext = strings.Join(parts, ";")
	}
	return fmt.Sprintf("v=%d p=%d x=%d m=%d pt=%d seq=%d ts=%d ssrc=%d cc=%s prof=%d ext=%s pad=%d",
		h.V, b01(h.P), b01(h.X), b01(h.M), h.PT, h.Seq, h.TS, h.SSRC, joinInts(h.CC), h.Prof, ext, h.Pad)
}

func unhex(s string) ([]byte, bool) {
	if s == "-" || s == "" {
		return []byte{}, true
	}
	b, err := hex.DecodeString(s)
	return b, err == nil
}

// parseHdr builds a real rtp.Header from the op fields; ok=false on anything the public API
// of pion/rtp cannot represent (the generator never produces such lines).
func parseHdr(m map[string]string) (h *rtp.Header, ok bool) {
	defer func() {
		if recover() != nil {
			h, ok = nil, false
		}
	}()
	for _, k := range []string{"v", "p", "x", "m", "pt", "seq", "ts", "ssrc", "cc", "prof", "ext", "pad"} {
		if _, have := m[k]; !have {
			return nil, false
		}
	}
	h = &rtp.Header{
		Version:          uint8(atoi(m["v"])),
		Padding:          m["p"] == "1",
		Marker:           m["m"] == "1",
		PayloadType:      uint8(atoi(m["pt"])),
		SequenceNumber:   uint16(atoi(m["seq"])),
		Timestamp:        uint32(atoi(m["ts"])),
		SSRC:             uint32(atoi(m["ssrc"])),
		ExtensionProfile: uint16(atoi(m["prof"])),
		PaddingSize:      byte(atoi(m["pad"])),
	}
	for _, c := range parseInts(m["cc"]) {
		h.CSRC = append(h.CSRC, uint32(c))
	}
	if m["ext"] != "-" {
		h.Extension = true // so that SetExtension checks against the given profile and appends
		seen := map[int]bool{}
		for _, e := range strings.Split(m["ext"], ";") {
			kvp := strings.SplitN(e, ":", 2)
			if len(kvp) != 2 {
				return nil, false
			}
			id := atoi(kvp[0])
			p, good := unhex(kvp[1])
			if !good || seen[id] || id < 0 || id > 255 {
				return nil, false
			}
			seen[id] = true
			if err := h.SetExtension(uint8(id), p); err != nil {
				return nil, false
			}
		}
	}
	h.Extension = m["x"] == "1"
	return h, true
}

// genExtElems draws extension elements valid for the profile (distinct ids).
func genExtElems(r *Rng, prof int, n int, mustHave int) []extElem {
	var out []extElem
	used := map[int]bool{}
	add := func(id int) {
		if used[id] {
			return
		}
		used[id] = true
		var l int
		switch prof {
		case 0xBEDE:
			l = r.Range(1, 16)
			if r.Chance(1, 30) {
				l = 0 // representable, marshals as garbage; the model mirrors it
			}
		case 0x1000:
			l = r.Pick(0, 1, 2, 3, 4, 17, 40, 255)
		}
		if id == mustHave && r.Chance(2, 3) {
			l = 2 // what the element of a forwarded packet looks like: a transport-cc number
		}
		p := make([]byte, l)
		for i := range p {
			p[i] = byte(r.U64())
		}
		out = append(out, extElem{ID: id, Payload: p})
	}
	switch prof {
	case 0xBEDE, 0x1000:
		for i := 0; i < n; i++ {
			if mustHave > 0 && (prof == 0x1000 || mustHave <= 14) && r.Chance(1, 3) {
				add(mustHave)
				continue
			}
			if prof == 0xBEDE {
				add(r.Range(1, 14))
			} else if r.Chance(1, 4) {
				add(r.Range(15, 255))
			} else {
				add(r.Range(1, 14))
			}
		}
	default: // RFC 3550: a single element with id 0
		if n > 0 {
			l := 4 * r.Range(0, 4)
			if r.Chance(1, 8) {
				l = r.Range(1, 7) // not a whole number of words: Marshal fails
			}
			p := make([]byte, l)
			for i := range p {
				p[i] = byte(r.U64())
			}
			out = append(out, extElem{ID: 0, Payload: p})
		}
	}
	return out
}

// genHdr draws a header shape. kind: 0 none, 1 one-byte, 2 two-byte, 3 RFC 3550, 4 stale list with x=0, -1 any of 0..2.
func genHdr(r *Rng, kind int, twccID int) hdrShape {
	h := hdrShape{V: 2, PT: r.Intn(128), Seq: r.Intn(65536), TS: int(r.U64() & 0xFFFFFFFF), SSRC: int(r.U64() & 0xFFFFFFFF)}
	if r.Chance(1, 12) {
		h.V = r.Pick(0, 1, 3, 2, 255, 6)
	}
	if r.Chance(1, 12) {
		h.PT = r.Range(128, 255)
	}
	if r.Chance(1, 8) {
		h.Seq = r.Pick(0, 65535, 32768)
		h.TS = r.Pick(0, 0xFFFFFFFF)
		h.SSRC = r.Pick(0, 0xFFFFFFFF)
	}
	h.M = r.Bool()
	if r.Chance(1, 3) {
		n := r.Intn(16)
		for i := 0; i < n; i++ {
			h.CC = append(h.CC, int(r.U64()&0xFFFFFFFF))
		}
	}
	if r.Chance(1, 4) {
		h.P = true
		h.Pad = r.Range(1, 255)
	} else if r.Chance(1, 20) {
		h.P = r.Bool()
		h.Pad = r.Pick(0, 0, 7)
	}
	if kind < 0 {
		kind = r.Intn(3)
	}
	switch kind {
	case 0:
		if r.Chance(1, 6) {
			h.Prof = r.Pick(0xBEDE, 0x1000, 0x1234)
		}
	case 1:
		h.X, h.Prof = true, 0xBEDE
		h.Ext = genExtElems(r, h.Prof, r.Intn(5), twccID)
	case 2:
		h.X, h.Prof = true, 0x1000
		h.Ext = genExtElems(r, h.Prof, r.Intn(5), twccID)
	case 3:
		h.X, h.Prof = true, r.Pick(0x1234, 0, 0xC0DE, 0xC2DE, 0xFFFF, 0xBEDF)
		h.Ext = genExtElems(r, h.Prof, r.Intn(2), 0)
	case 4:
		h.X, h.Prof = false, r.Pick(0xBEDE, 0x1000)
		h.Ext = genExtElems(r, h.Prof, r.Range(1, 3), twccID)
	}
	return h
}

func genPayload(r *Rng) []byte {
	n := r.Intn(24)
	if r.Chance(1, 10) {
		n = r.Pick(0, 1, 1200, 1459, 1460)
	}
	p := make([]byte, n)
	for i := range p {
		p[i] = byte(r.U64())
	}
	return p
}

// ---- the component -----------------------------------------------------------------------

func c15ErrClass(err error) string {
	if err == nil {
		return "nil"
	}
	for _, e := range c15BottomErrs[1:] {
		if err == e.err { // the very value the bottom writer returned
			return e.name
		}
	}
	s := err.Error()
	switch {
	case s == "header is nil":
		return "hdrnil"
	case strings.Contains(s, "between 1 and 14"):
		return "ext-onebyte-id"
	case strings.Contains(s, "16bytes or less"):
		return "ext-onebyte-size"
	case strings.Contains(s, "between 1 and 255"):
		return "ext-twobyte-id"
	case strings.Contains(s, "255bytes or less"):
		return "ext-twobyte-size"
	case strings.Contains(s, "must be 0 for non-RFC"):
		return "ext-3550-id"
	}
	return "other"
}

func hdrHex(h *rtp.Header) string {
	if h == nil {
		return "nil"
	}
	b, err := h.Marshal()
	if err != nil {
		return "err"
	}
	return hexs(b)
}

func newHdrExt(t *testing.T) *twcc.HeaderExtensionInterceptor {
	f, err := twcc.NewHeaderExtensionInterceptor()
	if err != nil {
		t.Fatal(err)
	}
	i, err := f.NewInterceptor("")
	if err != nil {
		t.Fatal(err)
	}
	return i.(*twcc.HeaderExtensionInterceptor) //nolint:forcetypeassert
}

func parseDecls(s string) ([]interceptor.RTPHeaderExtension, bool) {
	var out []interceptor.RTPHeaderExtension
	if s == "-" {
		return out, true
	}
	for _, e := range strings.Split(s, ",") {
		kvp := strings.SplitN(e, ":", 2)
		if len(kvp) != 2 {
			return nil, false
		}
		uri := "urn:ietf:params:rtp-hdrext:sdes:mid"
		switch kvp[0] {
		case "t":
			uri = twccURI
		case "o":
		default:
			return nil, false
		}
		out = append(out, interceptor.RTPHeaderExtension{URI: uri, ID: atoi(kvp[1])})
	}
	return out, true
}

// c15NearMiss: URIs that are NOT the transport-cc URI although they look like it.  RFC 8285 (section 5: "the URI
// ... MUST be compared as case-sensitive strings") and the property text ("streams that did not negotiate the
// extension pass through untouched") make a stream that declares only such entries a stream without the extension:
// it is not stamped and consumes no number; next to an exact entry the exact entry's id is the negotiated one.
// `bind ... near=<i>.<k>,...` gives the i-th declared entry (an `o` entry: "some other URI" for the model) the
// k-th of these URIs; the Lean driver does not read the field.
var c15NearMiss = []string{
	"HTTP://www.ietf.org/id/draft-holmer-rmcat-transport-wide-cc-extensions-01",  // scheme in upper case
	"http://WWW.IETF.ORG/id/draft-holmer-rmcat-transport-wide-cc-extensions-01",  // host in upper case
	"http://www.ietf.org/id/Draft-Holmer-Rmcat-Transport-Wide-CC-Extensions-01",  // title case
	"HTTP://WWW.IETF.ORG/ID/DRAFT-HOLMER-RMCAT-TRANSPORT-WIDE-CC-EXTENSIONS-01",  // all upper case
	"http://www.ietf.org/id/draft-holmer-rmcat-transport-wide-cc-extensions-01/", // trailing slash
	"http://www.ietf.org/id/draft-holmer-rmcat-transport-wide-cc-extensions-01 ", // trailing space
	" http://www.ietf.org/id/draft-holmer-rmcat-transport-wide-cc-extensions-01", // leading space
	"http://www.ietf.org/id/draft-holmer-rmcat-transport-wide-cc-extensions-02",  // the later draft (another format)
	"http://www.ietf.org/id/draft-holmer-rmcat-transport-wide-cc-extensions",     // a prefix
	"http://www.ietf.org/id/draft-holmer-rmcat-transport-wide-cc-extensions-0",   // one character short
	"http://www.ietf.org/id/draft-holmer-rmcat-transport-wide-cc-extensions-011", // one character more
	"www.ietf.org/id/draft-holmer-rmcat-transport-wide-cc-extensions-01",         // a suffix
	"https://www.ietf.org/id/draft-holmer-rmcat-transport-wide-cc-extensions-01", // another scheme
	"http://www.ietf.org/id/draft-holmer-rmcat-transport-wide-cc-extensions-01\n", // trailing newline
	"http://www.ietf.org/id/draft-holmer-rmcat-transport-wide-cc-extensions-01#x", // fragment
	"http://www.ietf.org/id/draft-holmer-rmcat-transport_wide_cc-extensions-01",  // underscores
	"http://www.webrtc.org/experiments/rtp-hdrext/abs-send-time",                 // a real neighbour
	"transport-cc", // the RTCP feedback name, not an extension URI
	"",
}

// c15ApplyNear rewrites the URIs named by `near=`; an entry that is not an `o` entry (or does not exist) is left alone.
func c15ApplyNear(ds []interceptor.RTPHeaderExtension, near string) {
	if near == "" || near == "-" {
		return
	}
	for _, e := range strings.Split(near, ",") {
		ik := strings.SplitN(e, ".", 2)
		if len(ik) != 2 {
			continue
		}
		i, k := atoi(ik[0]), atoi(ik[1])
		if i < 0 || i >= len(ds) || k < 0 || k >= len(c15NearMiss) || ds[i].URI == twccURI {
			continue
		}
		ds[i].URI = c15NearMiss[k]
	}
}

// c15Owned is something the CALLER owns and may still look at after Write returned: a receive buffer a header
// was parsed from, or a slice it handed to SetExtension / passed as payload.  `orig` is its content at hand-over.
type c15Owned struct {
	cur, orig []byte
}

// c15Run: cases whose ambient chain holds other interceptors run inside a synctest bubble, so that "the NACK
// responder's retransmission goroutine has finished" is a point the interpreter can wait for.
func c15Run(t *testing.T, ops []string, o *Out) {
	app, ops := appOf(ops)
	if o != nil && o.Amb != nil && len(o.Amb.Before)+len(o.Amb.After) > 0 {
		synctest.Test(t, func(t *testing.T) { c15RunCase(t, ops, o, synctest.Wait, app) })
		return
	}
	c15RunCase(t, ops, o, func() {}, app)
}

// c15Sent: what a retransmitting party keeps of a packet written with header.SSRC == the stream's SSRC
// (the NACK responder's rule): a deep copy as handed to Write, and the line the bottom writer printed for it.
type c15Sent struct {
	h    *rtp.Header
	pl   []byte
	line string
	wire bool // it reached the bottom writer
}

func c15RunCase(t *testing.T, ops []string, o *Out, settle func(), app *App) {
	ic := newHdrExt(t)
	// the interceptor under test inside the case's ambient chain (ambient_test.go); the chain's RTCP reader is
	// where NACKs for a NACK-responder neighbour come in
	var chain interceptor.Interceptor
	var rtcpReader interceptor.RTCPReader
	var rtcpIn []byte
	build := func() {
		if chain != nil {
			_ = chain.Close()
		}
		chain = o.Wrap(ic)
		rtcpReader = chain.BindRTCPReader(interceptor.RTCPReaderFunc(
			func(b []byte, a interceptor.Attributes) (int, interceptor.Attributes, error) {
				return copy(b, rtcpIn), o.Bottom(a), nil
			}))
	}
	build()
	defer func() {
		_ = chain.Close()
		settle()
	}()
	sent := map[[2]int]*c15Sent{}
	var lastLine string
	var lastWire bool
	writers := map[int]interceptor.RTPWriter{}
	// the bottom writer of the next call: result to return
	var bn, be int
	var burst *[]uint16 // non-nil while a burst op runs: record numbers instead of printing
	burstOK := true
	// retain mode: the bottom writer keeps the header OBJECTS (a transport that batches until flush) and they
	// are printed at `flush` only - what they look like then is what would go on the wire
	retain := false
	type kept struct {
		h *rtp.Header
		p []byte
	}
	var held []kept
	var owned []c15Owned
	own := func(b []byte) {
		if len(b) > 0 {
			owned = append(owned, c15Owned{cur: b, orig: append([]byte(nil), b...)})
		}
	}
	ownHeader := func(h *rtp.Header) {
		if h == nil {
			return
		}
		for _, id := range h.GetExtensionIDs() {
			own(h.GetExtension(id))
		}
	}
	bufs := map[int][]byte{}
	// the EDITING transport (`ed=<bits>` on a write / writeu op, never together with `retain`): once it has put the
	// packet on the wire (the `w` line) the bottom writer treats the transport-cc element of the header it was handed
	// as its own scratch space, the way a forwarding hop that rewrites abs-send-time / transport-cc elements does:
	// bit 0 rewrites the payload bytes h.GetExtension(id) returns in place, bit 1 appends to that slice.  The header
	// a writer is handed is the writer's for the duration of the call; later packets still carry THEIR numbers.
	negID := map[int]uint8{}
	var edit int
	var editID uint8
	scribbleExt := func(h *rtp.Header) {
		if edit == 0 || retain || h == nil || editID == 0 {
			return
		}
		e := h.GetExtension(editID)
		if e == nil {
			return
		}
		if edit&1 != 0 {
			for i := range e {
				e[i] = ^e[i] - byte(i)
			}
		}
		if edit&2 != 0 {
			_ = append(e, 0xDE, 0xAD, 0xBE, 0xEF, 0xDE, 0xAD, 0xBE, 0xEF, 0xDE, 0xAD)
		}
	}
	wline := func(h *rtp.Header, p []byte) {
		pad := 0
		if h != nil {
			pad = int(h.PaddingSize)
		}
		lastLine, lastWire = fmt.Sprintf("w hdr=%s pad=%d pl=%s", hdrHex(h), pad, hexs(p)), true
		o.P("%s", lastLine)
	}
	bottom := interceptor.RTPWriterFunc(func(h *rtp.Header, p []byte, _ interceptor.Attributes) (int, error) {
		if burst != nil {
			ids := h.GetExtensionIDs()
			var e rtp.TransportCCExtension
			if len(ids) != 1 || h.ExtensionProfile != rtp.ExtensionProfileOneByte || e.Unmarshal(h.GetExtension(ids[0])) != nil {
				burstOK = false
				return 0, nil
			}
			*burst = append(*burst, e.TransportSequence)
			return 0, nil
		}
		if retain {
			held = append(held, kept{h, p})
		} else {
			wline(h, p)
			scribbleExt(h)
		}
		return bn, c15BottomErrs[be].err
	})
	for _, op := range ops {
		func() {
			defer func() {
				if r := recover(); r != nil {
					if s, ok := r.(string); ok && strings.HasPrefix(s, "bad int") {
						o.P("bad-op")
						return
					}
					panic(r)
				}
			}()
			name, m := kv(op)
			switch name {
			case "setc":
				v := atoi(m["v"])
				ic = newHdrExt(t)
				build()
				writers = map[int]interceptor.RTPWriter{}
				sent = map[[2]int]*c15Sent{}
				negID = map[int]uint8{}
				ic.VerifSetNextSequenceNr(uint32(v))
			case "bind":
				ds, ok := parseDecls(m["exts"])
				if !ok || m["s"] == "" {
					o.P("bad-op")
					return
				}
				s := atoi(m["s"])
				c15ApplyNear(ds, m["near"])
				negID[s] = 0
				for _, d := range ds {
					if d.URI == twccURI { // the exact URI: what the stream negotiated
						negID[s] = uint8(d.ID) //nolint:gosec
						break
					}
				}
				info := app.BindInfo(&interceptor.StreamInfo{SSRC: uint32(s), RTPHeaderExtensions: ds,
					RTCPFeedback: []interceptor.RTCPFeedback{{Type: "nack", Parameter: "pli"}, {Type: "transport-cc"}, {Type: "nack"}}})
				nfb := len(info.RTCPFeedback)
				writers[s] = chain.BindLocalStream(info, bottom)
				if len(info.RTPHeaderExtensions) != len(ds) || len(info.RTCPFeedback) != nfb {
					o.P("streaminfo-modified")
				}
				for i := range ds {
					if i < len(info.RTPHeaderExtensions) && info.RTPHeaderExtensions[i] != ds[i] {
						o.P("streaminfo-modified")
					}
				}
				// BindLocalStream has returned: the StreamInfo and the extension list in it are the application's again
				app.AfterBind(info)
			case "retain":
				retain = true
			case "buf":
				// a caller-owned receive buffer holding the wire form of the packet
				h, ok := parseHdr(m)
				pl, ok2 := unhex(m["pl"])
				if !ok || !ok2 || m["k"] == "" {
					o.P("bad-op")
					return
				}
				hb, err := h.Marshal()
				if err != nil {
					o.P("bad-op")
					return
				}
				b := append(hb, pl...)
				bufs[atoi(m["k"])] = b
				own(b)
			case "writeu":
				// forward a received packet: the header is parsed from the caller's buffer and aliases it
				w, ok := writers[atoi(m["s"])]
				b, ok2 := bufs[atoi(m["k"])]
				code := atoi(m["be"])
				if !ok || !ok2 || m["bn"] == "" || code < 0 || code >= len(c15BottomErrs) {
					o.P("bad-op")
					return
				}
				h := &rtp.Header{}
				n, err := h.Unmarshal(b)
				if err != nil {
					o.P("bad-op")
					return
				}
				bn, be = atoi(m["bn"]), code
				edit, editID = atoi("0"+m["ed"]), negID[atoi(m["s"])]
				rn, werr := w.Write(h, b[n:], interceptor.Attributes{})
				edit = 0
				o.P("ret n=%d err=%s", rn, c15ErrClass(werr))
			case "flush":
				for _, k := range held {
					wline(k.h, k.p)
				}
				held = nil
				mod := false
				for _, x := range owned {
					if !bytes.Equal(x.cur, x.orig) {
						mod = true
					}
				}
				o.P("caller-buffer-modified=%v", mod)
			case "write", "writenil":
				w, ok := writers[atoi(m["s"])]
				pl, ok2 := unhex(m["pl"])
				code := 0
				if m["be"] != "" {
					code = atoi(m["be"])
				}
				if !ok || !ok2 || m["bn"] == "" || m["be"] == "" || code < 0 || code >= len(c15BottomErrs) {
					o.P("bad-op")
					return
				}
				var h *rtp.Header
				if name == "write" {
					var ok3 bool
					if h, ok3 = parseHdr(m); !ok3 {
						o.P("bad-op")
						return
					}
				}
				ownHeader(h) // the slices the caller handed to SetExtension stay the caller's
				own(pl)
				bn, be = atoi(m["bn"]), code
				var keep *c15Sent
				if h != nil && int(h.SSRC) == atoi(m["s"]) {
					c := h.Clone()
					keep = &c15Sent{h: &c, pl: append([]byte(nil), pl...)}
				}
				lastWire = false
				// with `reusehdr=1` the application fills its one long-lived header in place (ambient_test.go)
				edit, editID = atoi("0"+m["ed"]), negID[atoi(m["s"])]
				n, err := w.Write(o.Header(h), pl, o.Attrs(interceptor.Attributes{}))
				edit = 0
				o.P("ret n=%d err=%s", n, c15ErrClass(err))
				if keep != nil {
					keep.line, keep.wire = lastLine, lastWire
					sent[[2]int{atoi(m["s"]), int(keep.h.SequenceNumber)}] = keep
				}
			case "rtx":
				// the packet first written on stream s with RTP sequence number seq is asked for again (a NACK).
				// pos=outer: it is retransmitted from ABOVE the interceptor under test (it passes through it once
				// more: a fresh transport-wide number); pos=inner: from BELOW it (what was first sent goes out again).
				// The retransmitting party is the NACK responder of the ambient chain when there is one at that
				// position; otherwise the application (outer) resp. the transport (inner) itself, from its own copy.
				sx, seq, code := atoi(m["s"]), atoi(m["seq"]), atoi("0"+m["be"])
				pos := m["pos"]
				if _, ok := writers[sx]; !ok || retain || (pos != "outer" && pos != "inner") || m["seq"] == "" || seq > 65535 ||
					m["bn"] == "" || m["be"] == "" || code < 0 || code >= len(c15BottomErrs) {
					o.P("bad-op")
					return
				}
				bn, be = atoi(m["bn"]), code
				if o.Has("resp", pos == "inner") {
					raw, err := rtcp.Marshal([]rtcp.Packet{&rtcp.TransportLayerNack{SenderSSRC: 5, MediaSSRC: uint32(sx),
						Nacks: []rtcp.NackPair{{PacketID: uint16(seq)}}}})
					if err != nil {
						panic(err)
					}
					rtcpIn = raw
					if _, _, err := rtcpReader.Read(make([]byte, 1500), o.Attrs(interceptor.Attributes{})); err != nil {
						o.P("err:read")
					}
					settle() // the retransmission goroutine is done
					return
				}
				k, ok := sent[[2]int{sx, seq}]
				switch {
				case !ok:
				case pos == "outer":
					// a fresh copy of the kept header per retransmission, as the responder makes one (F-41)
					hc := k.h.Clone()
					_, _ = writers[sx].Write(&hc, k.pl, interceptor.Attributes{})
				case k.wire:
					o.P("%s", k.line)
				}
			case "burst":
				s, n := atoi(m["s"]), atoi(m["n"])
				w, ok := writers[s]
				if !ok || n <= 0 || n > 200000 {
					o.P("bad-op")
					return
				}
				// n minimal packets (no extension yet) through the stream's writer; digest only
				nums := make([]uint16, 0, n)
				be = 0
				burst, burstOK = &nums, true
				for i := 0; i < n; i++ {
					if _, err := w.Write(&rtp.Header{Version: 2, SequenceNumber: uint16(i)}, nil, nil); err != nil {
						burstOK = false
					}
				}
				burst = nil
				run := burstOK && len(nums) == n
				for i := 1; i < len(nums); i++ {
					if nums[i] != nums[i-1]+1 {
						run = false
					}
				}
				first, last := -1, -1
				if len(nums) > 0 {
					first, last = int(nums[0]), int(nums[len(nums)-1])
				}
				o.P("burst first=%d last=%d run=%v count=%d", first, last, run, len(nums))
			case "conc":
				o.P("%s", c15Conc(t, uint32(atoi(m["c0"])), parseInts(m["ids"]), atoi(m["per"]), atoi(m["epochs"]), uint64(atoi(m["seed"])), atoi("0"+m["fail"])))
			default:
				o.P("bad-op")
			}
		}()
	}
}

// c15Conc: real concurrent writers, one goroutine per stream, `epochs` rounds of `per` packets
// each with a barrier between rounds (so that the 16-bit numbers of one round unwrap
// unambiguously: a round hands out at most 32768 numbers).  Only the verdict is printed.
//
// fail > 0: on every stream every fail-th call of the bottom writer fails, with the error values of
// c15BottomErrs in rotation, after a scheduling point (a slow, failing transport).  The number such a packet
// carried stays consumed, so the verdict is computed over all packets handed to the bottom writer; the error
// must come back to the writer goroutine as the very value the bottom writer returned.
func c15Conc(t *testing.T, c0 uint32, ids []int, per, epochs int, seed uint64, fail int) string {
	g := len(ids)
	if g < 1 || g > 16 || per < 1 || g*per > 32768 || g*per*epochs > 400000 {
		return "bad-op"
	}
	ic := newHdrExt(t)
	ic.VerifSetNextSequenceNr(c0)
	type rec struct {
		nums      []uint16 // negotiated: transport sequence numbers in bottom order
		bad       bool
		untouched int
		calls     int
		want      error // what the bottom writer returned for the call in progress
	}
	failNow := func(r *rec) error {
		r.calls++
		r.want = nil
		if fail > 0 && r.calls%fail == 0 {
			r.want = c15BottomErrs[1+(r.calls/fail)%(len(c15BottomErrs)-1)].err
			runtime.Gosched()
		}
		return r.want
	}
	recs := make([]*rec, g)
	writers := make([]interceptor.RTPWriter, g)
	nNeg := 0
	for i := range ids {
		i := i
		recs[i] = &rec{}
		id := uint8(ids[i])
		if id != 0 {
			nNeg++
		}
		bottom := interceptor.RTPWriterFunc(func(h *rtp.Header, p []byte, _ interceptor.Attributes) (int, error) {
			r := recs[i]
			if id == 0 {
				// pass-through: the header must be exactly what the writer built (marker carries the check)
				if h.Extension == (h.SequenceNumber%3 != 0) && (!h.Extension || len(h.GetExtensionIDs()) == 1) && len(p) == 3 {
					r.untouched++
				} else {
					r.bad = true
				}
				return len(p), failNow(r)
			}
			var e rtp.TransportCCExtension
			if err := e.Unmarshal(h.GetExtension(id)); err != nil || len(p) != 3 {
				r.bad = true
				return 0, failNow(r)
			}
			// the pre-existing element (id 14 resp. 15, never negotiated here) must still be there
			if (h.SequenceNumber%3 == 1 && len(h.GetExtension(14)) != 1) || (h.SequenceNumber%3 == 2 && len(h.GetExtension(15)) != 1) {
				r.bad = true
			}
			r.nums = append(r.nums, e.TransportSequence)
			return len(p), failNow(r)
		})
		var decls []interceptor.RTPHeaderExtension
		if ids[i] != 0 {
			decls = []interceptor.RTPHeaderExtension{{URI: "urn:x", ID: 3}, {URI: twccURI, ID: ids[i]}}
		} else if i%2 == 0 {
			decls = []interceptor.RTPHeaderExtension{{URI: twccURI, ID: 0}}
		}
		writers[i] = ic.BindLocalStream(&interceptor.StreamInfo{SSRC: uint32(i), RTPHeaderExtensions: decls}, bottom)
	}
	payload := []byte{1, 2, 3}
	for e := 0; e < epochs; e++ {
		var wg sync.WaitGroup
		start := make(chan struct{})
		for i := 0; i < g; i++ {
			wg.Add(1)
			go func(i int) {
				defer wg.Done()
				<-start
				for k := 0; k < per; k++ {
					seq := uint16(e*per + k)
					h := &rtp.Header{Version: 2, SequenceNumber: seq, SSRC: uint32(i)}
					switch seq % 3 { // 0: no extension yet; 1: one-byte profile with another element; 2: two-byte
					case 1:
						h.Extension, h.ExtensionProfile = true, rtp.ExtensionProfileOneByte
						_ = h.SetExtension(14, []byte{9})
					case 2:
						h.Extension, h.ExtensionProfile = true, rtp.ExtensionProfileTwoByte
						_ = h.SetExtension(15, []byte{9})
					}
					if _, err := writers[i].Write(h, payload, nil); err != recs[i].want {
						recs[i].bad = true
					}
				}
			}(i)
		}
		close(start)
		wg.Wait()
	}
	// verdict
	perEpoch := uint64(nNeg * per)
	total := perEpoch * uint64(epochs)
	seen := make([]bool, total)
	consecutive, increasing := true, true
	count, untouched := 0, 0
	for i, r := range recs {
		if r.bad {
			consecutive = false
		}
		if ids[i] == 0 {
			untouched += r.untouched
			continue
		}
		if len(r.nums) != per*epochs {
			consecutive = false
		}
		count += len(r.nums)
		prev := int64(-1)
		for j, n := range r.nums {
			e := uint64(j / per)
			base := uint64(c0) + e*perEpoch
			off := uint64(n - uint16(base)) // unwrap inside the epoch
			if off >= perEpoch {
				consecutive = false
				continue
			}
			u := e*perEpoch + off // index relative to c0
			if seen[u] {
				consecutive = false
			}
			seen[u] = true
			if int64(u) <= prev {
				increasing = false
			}
			prev = int64(u)
		}
	}
	for _, s := range seen {
		if !s {
			consecutive = false
		}
	}
	return fmt.Sprintf("verdict consecutive=%v perstream-increasing=%v count=%d untouched=%d", consecutive, increasing, count, untouched)
}

func init() {
	register("twcchdr", &Comp{
		N: func(tier string) int {
			if tier == "thorough" {
				return 120000
			}
			return 1500
		},
		// the application of the case (streaminfo_test.go): how it writes the feedback list down, what it does with its
		// StreamInfo (and the extension list in it) after BindLocalStream returned
		Gen: func(r *Rng, tier string, idx int) Case {
			ar := NewRng(r.s ^ 0xA9915)
			cs := c15Gen(r, tier, idx)
			if cs.Class != "conc" && ar.Chance(2, 3) {
				cs.Ops = withApp(cs.Ops, genApp(ar, 0, 3, 2, 0))
			}
			// in a quarter of the cases of every class the "other" URIs of the StreamInfos are near misses of the
			// transport-cc URI (c15NearMiss): they are other URIs
			if cs.Class != "conc" && cs.Class != "nearmiss" && ar.Chance(1, 4) {
				cs.Ops = c15AddNear(ar, cs.Ops, 2)
			}
			return cs
		},
		Run: c15Run,
	})
}

func c15Decls(r *Rng, id int) string {
	// other URIs before/after, possibly a second transport-cc entry (the first one wins)
	var parts []string
	for i := r.Intn(3); i > 0; i-- {
		parts = append(parts, fmt.Sprintf("o:%d", r.Range(0, 20)))
	}
	if id != -1000 {
		parts = append(parts, fmt.Sprintf("t:%d", id))
		if r.Chance(1, 5) {
			parts = append(parts, fmt.Sprintf("t:%d", r.Range(1, 14)))
		}
	}
	for i := r.Intn(2); i > 0; i-- {
		parts = append(parts, fmt.Sprintf("o:%d", r.Range(0, 20)))
	}
	if len(parts) == 0 {
		return "-"
	}
	return strings.Join(parts, ",")
}

// c15AddNear gives `o` entries of the bind ops a near-miss URI (each with chance 1/den).
func c15AddNear(r *Rng, ops []string, den int) []string {
	out := make([]string, len(ops))
	for j, op := range ops {
		out[j] = op
		name, m := kv(op)
		if name != "bind" || m["exts"] == "" || m["exts"] == "-" || m["near"] != "" {
			continue
		}
		var near []string
		for i, e := range strings.Split(m["exts"], ",") {
			if strings.HasPrefix(e, "o:") && r.Chance(1, den) {
				near = append(near, fmt.Sprintf("%d.%d", i, r.Intn(len(c15NearMiss))))
			}
		}
		if len(near) > 0 {
			out[j] = op + " near=" + strings.Join(near, ",")
		}
	}
	return out
}

// c15GenNearMiss (class `nearmiss`): streams whose StreamInfo names the exact transport-cc URI next to streams that
// name only near misses of it (other letter case, a trailing slash or space, a prefix, a suffix, the -02 draft ...),
// alone, several of them, with the ids real negotiations use, and streams that list a near miss BEFORE the exact
// entry under another id.  Property text: a stream that did not negotiate the extension passes through untouched
// (and so consumes no number: the run on the negotiated streams stays gap-free); the negotiated id is the id of the
// entry with THE URI.
func c15GenNearMiss(r *Rng) []string {
	var ops []string
	if r.Chance(1, 3) {
		ops = append(ops, "retain")
	}
	switch r.Intn(3) {
	case 0:
		ops = append(ops, fmt.Sprintf("setc v=%d", r.Range(1, 5)*65536-r.Range(0, 6)))
	case 1:
		ops = append(ops, fmt.Sprintf("setc v=%d", r.U64()&0xFFFFFFFF))
	}
	ns := r.Range(2, 4)
	ids := make([]int, ns)
	for s := 0; s < ns; s++ {
		exact := s == 0 || r.Chance(1, 3) // stream 0 always negotiated: its numbers show whether others consume any
		var parts, near []string
		add := func(kind string, id int, k int) {
			if k >= 0 {
				near = append(near, fmt.Sprintf("%d.%d", len(parts), k))
			}
			parts = append(parts, fmt.Sprintf("%s:%d", kind, id))
		}
		if r.Chance(1, 3) {
			add("o", r.Range(1, 14), -1)
		}
		nearID := r.Range(1, 14)
		// the near misses of this stream (one to three), before and/or after the exact entry
		nBefore, nAfter := r.Pick(1, 1, 0, 2), r.Pick(0, 0, 1)
		if !exact && nBefore+nAfter == 0 {
			nBefore = 1
		}
		for i := 0; i < nBefore; i++ {
			add("o", nearID, r.Intn(len(c15NearMiss)))
			nearID = nearID%14 + 1
		}
		ids[s] = 0
		if exact {
			ids[s] = nearID%14 + 1
			if r.Chance(1, 6) {
				ids[s] = r.Range(15, 255)
			}
			add("t", ids[s], -1)
		}
		for i := 0; i < nAfter; i++ {
			add("o", r.Range(1, 14), r.Intn(len(c15NearMiss)))
		}
		if r.Chance(1, 4) {
			add("o", r.Range(1, 20), -1)
		}
		op := fmt.Sprintf("bind s=%d exts=%s", s, strings.Join(parts, ","))
		if len(near) > 0 {
			op += " near=" + strings.Join(near, ",")
		}
		ops = append(ops, op)
	}
	n := r.Range(6, 16)
	for i := 0; i < n; i++ {
		s := r.Intn(ns)
		kind := r.Pick(0, 1, 2, 1, 2, 4)
		// elements that are already in the header: the id the near miss was declared with among them
		h := genHdr(r, kind, r.Range(1, 14))
		pl := genPayload(r)
		be := 0
		if r.Chance(1, 8) {
			be = r.Range(1, len(c15BottomErrs)-1)
		}
		ops = append(ops, fmt.Sprintf("write s=%d %s pl=%s bn=%d be=%d", s, h.String(), hexs(pl), r.Pick(len(pl), 0, 1500), be))
	}
	return append(ops, "flush")
}

// c15GenEditW (class `editw`): the transport below edits what it is handed.  The bottom writer rewrites in place the
// payload bytes of the transport-cc element it finds (h.GetExtension(id)) and/or appends to that slice (`ed=` bits,
// see scribbleExt) - it owns the header for the call.  Every later packet still leaves with ITS number (property
// text: the numbers form one gap-free run mod 2^16, each packet carries the number it was assigned): the next
// packets, and - after a burst that takes the counter once around the 16-bit space - the packets that get the SAME
// 16-bit numbers as the edited ones.
func c15GenEditW(r *Rng) []string {
	var ops []string
	switch r.Intn(3) {
	case 0:
		ops = append(ops, fmt.Sprintf("setc v=%d", r.Range(1, 5)*65536-r.Range(0, 6)))
	case 1:
		ops = append(ops, fmt.Sprintf("setc v=%d", r.U64()&0xFFFFFFFF))
	}
	ns := r.Range(1, 3)
	ids := make([]int, ns)
	for s := 0; s < ns; s++ {
		ids[s] = r.Range(1, 14)
		if s > 0 && r.Chance(1, 5) {
			ids[s] = r.Pick(0, -1000, 15, 200) // not negotiated (never edited) / a two-byte id
		}
		ops = append(ops, fmt.Sprintf("bind s=%d exts=%s", s, c15Decls(r, ids[s])))
	}
	consumed := 0
	write := func(edChance int) {
		s := r.Intn(ns)
		eff := ids[s]
		if eff < 0 || eff > 255 {
			eff = 0
		}
		kind := r.Pick(0, 1, 2, 1, 2, 4)
		if eff > 14 {
			kind = r.Pick(2, 2, 0, 1)
		}
		h := genHdr(r, kind, eff)
		pl := genPayload(r)
		ed := 0
		if r.Chance(edChance, 4) {
			ed = r.Pick(1, 2, 3, 1, 3)
		}
		be := 0
		if r.Chance(1, 10) {
			be = r.Range(1, len(c15BottomErrs)-1)
		}
		ops = append(ops, fmt.Sprintf("write s=%d %s pl=%s bn=%d be=%d ed=%d", s, h.String(), hexs(pl), r.Pick(len(pl), 0, 1500), be, ed))
		if eff != 0 {
			consumed++ // every Write on a negotiated stream takes a number, accepted or not
		}
	}
	n1 := r.Range(3, 9)
	for i := 0; i < n1; i++ {
		write(3)
	}
	if !r.Chance(1, 5) {
		// once around: the next write gets the 16-bit number of one of the first writes again
		ops = append(ops, fmt.Sprintf("burst s=0 n=%d", 65536-consumed+r.Pick(0, 0, 1, 2)))
	}
	for i := r.Range(n1, n1+6); i > 0; i-- {
		write(1)
	}
	return append(ops, "flush")
}

func c15Gen(r *Rng, tier string, idx int) Case {
	// the framework seeds case i with s0+i*gamma and splitmix64 steps by the same gamma, so the
	// raw streams of neighbouring cases are shifted copies of each other; re-key from one output.
	r = NewRng(r.U64() ^ 0xC15C15C15)
	classes := []string{"onebyte", "twobyte", "noext", "mixed", "excluded", "wrap16", "wrap32", "stale", "burst", "alias", "faults",
		"rtxinner", "rtxouter", "nearmiss", "editw"}
	cl := classes[idx%len(classes)]
	concEvery := 125
	if tier == "thorough" {
		concEvery = 400
	}
	if idx%concEvery == 7 {
		cl = "conc"
	}
	var ops []string
	if cl == "conc" {
		// one class-defining op: 1..16 goroutines, >= 70 000 packets on negotiated streams
		g := r.Range(1, 16)
		ids := make([]int, g)
		neg := 0
		for i := range ids {
			if i == 0 || !r.Chance(1, 4) {
				ids[i] = r.Range(1, 13)
				neg++
			}
		}
		per := 32768 / g
		if per > 4000 {
			per = r.Range(2000, 4000)
		}
		if g == 1 {
			per = r.Range(20000, 32768)
		}
		epochs := (70000 + neg*per - 1) / (neg * per)
		if r.Chance(1, 3) {
			epochs++
		}
		for g*per*epochs > 400000 {
			per--
		}
		c0 := r.Pick(0, 65000, 4294967295-30000, 4294960000, int(r.U64()&0xFFFFFFFF))
		ops = append(ops, fmt.Sprintf("conc c0=%d ids=%s per=%d epochs=%d seed=%d fail=%d", c0, joinInts(ids), per, epochs, r.Intn(1<<30), r.Pick(0, 2, 3, 7, 50)))
		return Case{Class: cl, Ops: ops}
	}
	if cl == "rtxinner" || cl == "rtxouter" {
		return Case{Class: cl, Ops: c15GenRtx(r, cl == "rtxinner")}
	}
	if cl == "nearmiss" {
		return Case{Class: cl, Ops: c15GenNearMiss(r)}
	}
	if cl == "editw" {
		return Case{Class: cl, Ops: c15GenEditW(r)}
	}
	// the bottom writer's result: mostly success; failures with different error VALUES
	faultDen := 6
	if cl == "faults" {
		faultDen = 2
	}
	beCode := func() int {
		if r.Chance(1, faultDen) {
			return r.Range(1, len(c15BottomErrs)-1)
		}
		return 0
	}
	// the bottom writer keeps the header objects until the end of the case (printed at `flush`)
	if cl == "alias" || r.Chance(1, 3) {
		ops = append(ops, "retain")
	}
	// counter preset
	switch cl {
	case "wrap16":
		ops = append(ops, fmt.Sprintf("setc v=%d", r.Range(1, 5)*65536-r.Range(0, 6)))
	case "wrap32":
		ops = append(ops, fmt.Sprintf("setc v=%d", 4294967295-r.Range(0, 6)))
	default:
		if r.Chance(1, 4) {
			ops = append(ops, fmt.Sprintf("setc v=%d", r.U64()&0xFFFFFFFF))
		}
	}
	// streams
	ns := r.Range(1, 4)
	ids := make([]int, ns) // effective id (for choosing pre-existing elements)
	for s := 0; s < ns; s++ {
		id := r.Range(1, 14)
		switch cl {
		case "twobyte":
			if r.Chance(1, 3) {
				id = r.Range(15, 255)
			}
		case "mixed", "noext", "stale":
			if r.Chance(1, 3) {
				id = r.Pick(0, -1000, 0)
			}
		case "excluded":
			id = r.Pick(15, 16, 255, 256, 257, 512, 0, -1, -256, -255, 3, 14, 100)
		}
		if s == 0 && cl == "burst" {
			id = r.Range(1, 14)
		}
		if cl == "alias" && s > 0 && r.Chance(2, 3) {
			id = ids[0] // the same id on several streams, as after a real negotiation
		}
		ids[s] = id
		ops = append(ops, fmt.Sprintf("bind s=%d exts=%s", s, c15Decls(r, id)))
	}
	n := r.Range(3, 14)
	for i := 0; i < n; i++ {
		s := r.Intn(ns)
		eff := ids[s]
		if eff < 0 || eff > 255 {
			eff = 0
		}
		kind := -1
		switch cl {
		case "onebyte":
			kind = 1
		case "twobyte":
			kind = 2
		case "noext":
			kind = 0
		case "stale":
			kind = r.Pick(4, 4, 0, 1)
		case "excluded":
			kind = r.Pick(3, 3, 1, 2, 0)
		case "mixed", "faults":
			kind = r.Pick(0, 1, 2, 3, 4, 1, 2)
		case "alias":
			kind = r.Pick(1, 2, 1, 2, 0)
		}
		if cl == "alias" && r.Chance(2, 3) {
			// a received packet, parsed from the caller's buffer, is forwarded to one or several streams (SFU
			// fan-out): all the parsed headers alias the buffer.  Only shapes that survive marshal -> Unmarshal.
			h := genHdr(r, kind, eff)
			h.V, h.P, h.Pad = 2, false, 0
			h.PT &= 127
			var ext []extElem
			for _, e := range h.Ext {
				if !(h.Prof == 0xBEDE && len(e.Payload) == 0) {
					ext = append(ext, e)
				}
			}
			h.Ext = ext
			k := i
			ops = append(ops, fmt.Sprintf("buf k=%d %s pl=%s", k, h.String(), hexs(genPayload(r))))
			for j := r.Range(1, 4); j > 0; j-- {
				ops = append(ops, fmt.Sprintf("writeu s=%d k=%d bn=%d be=%d", r.Intn(ns), k, r.Intn(100), beCode()))
			}
			continue
		}
		if cl == "burst" && i == n/2 {
			ops = append(ops, fmt.Sprintf("burst s=0 n=%d", r.Pick(70000, 65536, 65537, 1, 100, 131072)))
			continue
		}
		if (cl == "excluded" || cl == "mixed") && r.Chance(1, 8) {
			ops = append(ops, fmt.Sprintf("writenil s=%d pl=%s bn=%d be=%d", s, hexs(genPayload(r)), r.Intn(100), beCode()))
			continue
		}
		h := genHdr(r, kind, eff)
		pl := genPayload(r)
		bn := r.Pick(len(pl), len(pl)+12, 0, 1500, -1)
		ops = append(ops, fmt.Sprintf("write s=%d %s pl=%s bn=%d be=%d", s, h.String(), hexs(pl), bn, beCode()))
	}
	ops = append(ops, "flush")
	return Case{Class: cl, Ops: ops}
}

// c15GenRtx: the header-extension interceptor in a chain with the NACK responder below it (`inner`: application ->
// twcc -> responder -> transport, the order pion/webrtc registers them in) or above it (`outer`: application ->
// responder -> twcc -> transport, so that retransmissions get fresh transport-wide numbers), other transparent
// neighbours around them, an application that mostly re-uses ONE rtp.Header and one extension payload buffer for
// every packet, and NACKs that trigger retransmissions between the writes.  Every packet that reaches the bottom
// writer - media or retransmission - must be the one the model predicts: a retransmission equals what was first
// sent (inner) resp. differs from it in the fresh number only (outer).  One case in six has no responder: the
// application / transport retransmits from its own copy.
func c15GenRtx(r *Rng, inner bool) []string {
	var ops []string
	pos := "outer"
	if inner {
		pos = "inner"
	}
	if !r.Chance(1, 6) {
		before, after := c05PickS(r, "", "", "stats", "noop"), c05PickS(r, "", "", "stats", "noop")
		if inner {
			before = c05PickS(r, "resp", "resp", "resp,stats", "noop,resp", "stats,resp")
		} else {
			after = c05PickS(r, "resp", "resp", "stats,resp", "resp,noop", "resp,stats")
		}
		amb := ambOp(before, after, true, false, r.Chance(1, 4), false)
		if r.Chance(3, 4) {
			amb += " reusehdr=1"
		}
		ops = append(ops, amb)
	}
	switch r.Intn(4) {
	case 0:
		ops = append(ops, fmt.Sprintf("setc v=%d", r.Range(1, 5)*65536-r.Range(0, 6)))
	case 1:
		ops = append(ops, fmt.Sprintf("setc v=%d", r.U64()&0xFFFFFFFF))
	}
	ns := r.Range(1, 3)
	ids := make([]int, ns)
	next := make([]int, ns)
	hist := make([][]int, ns)
	for s := 0; s < ns; s++ {
		ids[s] = r.Range(1, 14)
		if r.Chance(1, 6) {
			ids[s] = r.Pick(0, -1000, 15, 200) // not negotiated / a two-byte id
		}
		ops = append(ops, fmt.Sprintf("bind s=%d exts=%s", s, c15Decls(r, ids[s])))
		next[s] = r.Pick(r.Intn(65536), 65530, 0, 65535)
	}
	beCode := func() int {
		if r.Chance(1, 8) {
			return r.Range(1, len(c15BottomErrs)-1)
		}
		return 0
	}
	rtx := func() {
		s := r.Intn(ns)
		seq := (next[s] + r.Range(1, 9)) & 0xFFFF // never sent
		if len(hist[s]) > 0 && !r.Chance(1, 8) {
			seq = hist[s][len(hist[s])-1-r.Intn(min(len(hist[s]), 6))]
		}
		ops = append(ops, fmt.Sprintf("rtx s=%d seq=%d pos=%s bn=%d be=%d", s, seq, pos, r.Intn(100), beCode()))
		if r.Chance(1, 4) { // asked for again
			ops = append(ops, fmt.Sprintf("rtx s=%d seq=%d pos=%s bn=%d be=%d", s, seq, pos, r.Intn(100), beCode()))
		}
	}
	n := r.Range(6, 22)
	for i := 0; i < n; i++ {
		if i > 1 && r.Chance(1, 3) {
			rtx()
			continue
		}
		s := r.Intn(ns)
		eff := ids[s]
		if eff < 0 || eff > 255 {
			eff = 0
		}
		h := genHdr(r, r.Pick(0, 1, 2, 1, 2, 1, 2, 4, 3), eff)
		// the stream's own SSRC (the responder keeps nothing else) and its next sequence number, in order
		h.SSRC = s
		if r.Chance(1, 12) {
			h.SSRC = s + 100 // another SSRC on this writer: passed on, never kept
		}
		next[s] = (next[s] + r.Pick(1, 1, 1, 2, 3)) & 0xFFFF
		h.Seq = next[s]
		if h.SSRC == s {
			hist[s] = append(hist[s], h.Seq)
		}
		pl := genPayload(r)
		ops = append(ops, fmt.Sprintf("write s=%d %s pl=%s bn=%d be=%d", s, h.String(), hexs(pl), r.Pick(len(pl), 0, 1500), beCode()))
	}
	for k := r.Range(1, 3); k > 0; k-- {
		rtx()
	}
	return append(ops, "flush")
}

package corr

// C16 — component `gccbwe`: gcc.SendSideBWE in a synctest bubble with a recording Pacer
// (wrapping the real NoOpPacer or LeakyBucketPacer) and a recording OnTargetBitrateChange callback.
//
// The estimator's floating-point stages are oracles of the Lean model, so the tie is TRACE
// ACCEPTANCE.  The generator executes every scenario on the real code (in a bubble obtained
// through testing.RunTests, because Gen has no *testing.T) and writes, after every feedback op,
// a line  TRACE t=<GetTargetBitrate> p=<SetTargetBitrate calls since the last TRACE>
// cb=<callback values since the last TRACE, sorted (the callbacks run in their own goroutines)>
// dt=<delayTargetBitrate> lt=<lossTargetBitrate> st=<state> us=<usage> min= max=  into the ops.
// The Lean driver reads these lines as ops and answers `accept` / `reject <why>` according to the
// control skeleton; in run mode this interpreter re-executes the scenario on the real code and
// answers `accept` / `reject <why>` by applying the property's clauses directly to what it observes
// now (bounds, pacer = callback = getter).  Every other op prints the same deterministic line on
// both sides (`wr err=…`).
//
// ops: cfg init= min= max= pacer=noop|leaky ext=<1: TWCC header extension, 0: none (RFC 8888)> [pcerr=<1: the pacer's Close returns an error>] | sent n= size= gap=<µs> | adv us=
//      | fb kind=twcc|8888 base=<first seq> a=<arrival µs or x, comma separated> [bad=short|unk] | close | gate open=0|1
//      | wr0 what=nil|none|other     WriteRTCP of a batch that feeds nothing: a nil slice, an empty slice, packets that are
//                                    no transport feedback (PLI + RR).  `wr err=nil` while open, `wr err=closed` after Close
//                                    ("after Close EVERY call returns the closed error": the batch need not hold anything)
//      | sent … [nilp=1]             the payload handed to Write is nil (with size=0: empty inputs on the RTP path too)
//
// Class `empty` (and a sprinkling in every class): empty inputs on every entry point before and after Close — wr0 in its
// three forms, feedback that marks no packet received (`a=x,x`: the TWCC recorder then builds NO packet, WriteRTCP gets
// an empty batch; the RFC 8888 report holds only not-received metric blocks), RTP writes with an empty / a nil payload.
//
// Scenario classes beyond one estimator fed well-formed reports by a caller whose callback returns at once:
//
//   - `bad=short|unk` damages the TWCC report after it was built — the last receive delta is dropped (more received
//     symbols than deltas) / a chunk of an unknown type is appended.  The feedback adapter rejects such a report as a
//     whole (`wr err=invalid`), BEFORE anything reaches the estimator, and the session goes on with RTP writes and
//     well-formed feedback (mostly about the same packets: the report is sent again intact).  The observation after
//     a rejected report must be the previous one with no publish (`reject a-rejected-report-changed-the-estimator`
//     otherwise), and every later step is checked like any other.  (A second estimator that is never given the
//     damaged reports cannot serve as the reference: the rate calculator and the arrival-group accumulator run in two
//     goroutines that update the rate controller in an order the scheduler picks, so two estimators with equal inputs
//     may differ in delayTargetBitrate.)
//   - `gate open=0`: from now on the change callback does not return (it records the value it was given on entry and
//     then waits for the harness) while feedback keeps arriving and the target keeps changing; `gate open=1` lets all
//     of them go, passes some virtual time and checks the estimator at quiescence: no callback is still running, no
//     value turned up only now (every change was handed to the application when it happened, whatever earlier
//     invocations were doing), and the getter's value is among the values of the last step that delivered any
//     (`quiet ok`, otherwise `quiet <what>`).  The per-step clauses (callback values = pacer rates) stay in force
//     while the gate is closed.
//   - a call into the estimator that does not come back (a lock left held) freezes the whole bubble — a goroutine
//     waiting for a sync.Mutex is not durably blocked, so virtual time stops —; the session therefore runs under a
//     real-time progress watchdog: `BLOCKED <op>` after gccPatience without the session reaching its next call.

import (
	"errors"
	"fmt"
	"os"
	"sort"
	"strings"
	"sync"
	"sync/atomic"
	"testing"
	"testing/synctest"
	"time"

	"github.com/pion/interceptor"
	"github.com/pion/interceptor/pkg/gcc"
	"github.com/pion/interceptor/pkg/twcc"
	"github.com/pion/rtcp"
	"github.com/pion/rtp"
)

type gccRecPacer struct {
	gcc.Pacer
	mu       sync.Mutex
	rates    []int
	closeErr error // what Close returns (an application supplied pacer may fail to close)
	closed   bool
}

var errGccPacerClose = errors.New("pacer close failed")

func (p *gccRecPacer) Close() error {
	p.mu.Lock()
	was := p.closed
	p.closed = true
	p.mu.Unlock()
	if !was {
		_ = p.Pacer.Close()
	}
	return p.closeErr
}

func (p *gccRecPacer) SetTargetBitrate(r int) {
	p.mu.Lock()
	p.rates = append(p.rates, r)
	p.mu.Unlock()
	p.Pacer.SetTargetBitrate(r)
}

type gccObs struct {
	target     int
	pacer, cbs []int
	dt, lt     int
	st, us     string
}

func (ob gccObs) line(min, max int) string {
	return fmt.Sprintf("TRACE t=%d p=%s cb=%s dt=%d lt=%d st=%s us=%s min=%d max=%d",
		ob.target, joinInts(ob.pacer), joinInts(ob.cbs), ob.dt, ob.lt, ob.st, ob.us, min, max)
}

// check applies the clauses of C16 to one observation.
func (ob gccObs) check(prev, min, max int) string {
	switch {
	case ob.target < min:
		return "reject below-min"
	case ob.target > max:
		return "reject above-max"
	case ob.target <= 0:
		return "reject non-positive"
	}
	if len(ob.pacer) == 0 {
		if ob.target != prev || len(ob.cbs) != 0 {
			return "reject changed-without-publish"
		}
		return "accept"
	}
	if ob.pacer[len(ob.pacer)-1] != ob.target {
		return "reject pacer-differs-from-getter"
	}
	s := append([]int(nil), ob.pacer...)
	sort.Ints(s)
	if len(s) != len(ob.cbs) {
		return "reject callback-count"
	}
	for i := range s {
		if s[i] != ob.cbs[i] {
			return "reject callback-differs-from-pacer"
		}
		if s[i] < min || s[i] > max {
			return "reject published-out-of-bounds"
		}
	}
	return "accept"
}

// gccParseTrace reads a recorded TRACE line back.
func gccParseTrace(m map[string]string) (ob gccObs, ok bool) {
	defer func() {
		if recover() != nil {
			ok = false
		}
	}()
	for _, k := range []string{"t", "p", "cb", "dt", "lt", "st", "us", "min", "max"} {
		if _, has := m[k]; !has {
			return ob, false
		}
	}
	if (m["st"] != "increase" && m["st"] != "decrease" && m["st"] != "hold") || (m["us"] != "overuse" && m["us"] != "underuse" && m["us"] != "normal") {
		return ob, false
	}
	_, _ = atoi(m["min"]), atoi(m["max"])
	return gccObs{target: atoi(m["t"]), pacer: parseInts(m["p"]), cbs: parseInts(m["cb"]), dt: atoi(m["dt"]), lt: atoi(m["lt"]),
		st: m["st"], us: m["us"]}, true
}

// gccAcceptorVerdict is Interceptor.Gcc.accepts (lean/Interceptor/Model/Gcc.lean) with the driver's wrapping, word
// for word.  It is used ONLY for TRACE lines that no longer belong to the execution (see the TRACE op): there the
// interpreter has nothing of its own to say and repeats the acceptor, so that the two sides agree.
func gccAcceptorVerdict(cmin, cmax, tmin, tmax, prev int, prevUpd bool, o gccObs) string {
	if tmin != cmin || tmax != cmax {
		return "reject cfg-mismatch"
	}
	lastD := prev
	if len(o.pacer) > 0 {
		lastD = o.pacer[len(o.pacer)-1]
	}
	sorted := append([]int(nil), o.pacer...)
	sort.Ints(sorted)
	same := len(sorted) == len(o.cbs)
	for i := 0; same && i < len(sorted); i++ {
		same = sorted[i] == o.cbs[i]
	}
	distinct, outOfBounds := true, false
	q := prev
	for _, x := range o.pacer {
		distinct = distinct && x != q
		q = x
		outOfBounds = outOfBounds || x < cmin || x > cmax
	}
	clamp := func(b, lo, hi int) int {
		if b > hi {
			b = hi
		}
		if b < lo {
			b = lo
		}
		return b
	}
	why := ""
	switch {
	case o.target < cmin:
		why = "below-min"
	case o.target > cmax:
		why = "above-max"
	case o.target <= 0:
		why = "non-positive"
	case lastD != o.target:
		why = "getter-differs-from-last-pacer-rate"
	case !same:
		why = "callbacks-differ-from-pacer-rates"
	case !distinct:
		why = "publish-without-change"
	case outOfBounds:
		why = "published-out-of-bounds"
	case o.dt == 0 && o.lt == 0:
		if prevUpd {
			why = "stats-reset"
		} else if len(o.pacer) > 0 {
			why = "publish-without-stats"
		}
	case o.dt < cmin || o.dt > cmax:
		why = "delay-target-not-clamped"
	case o.lt > o.dt:
		why = "loss-target-above-wanted"
	case o.target != clamp(min(o.dt, o.lt), cmin, cmax):
		why = "target-not-min-of-estimates"
	case !((o.us == "overuse" && o.st == "decrease") || (o.us == "normal" && o.st == "increase")):
		why = "state-not-transition-of-usage"
	}
	if why == "" {
		return "accept"
	}
	return "reject " + why
}

// gccInst is one estimator with its recording pacer, callback log and stream writer.
type gccInst struct {
	bwe  *gcc.SendSideBWE
	rec  *gccRecPacer
	w    interceptor.RTPWriter
	cbMu sync.Mutex
	cbs  []int // values the callback was given (recorded on entry) since the last observation
	// the gate: while non-nil a callback invocation waits for it after recording its value
	gate            chan struct{}
	entered, exited int
}

func newGccInst(o *Out, ini, mn, mx int, pk string, ext, pcerr bool) *gccInst {
	in := &gccInst{}
	if pk == "noop" {
		in.rec = &gccRecPacer{Pacer: gcc.NewNoOpPacer()}
	} else {
		in.rec = &gccRecPacer{Pacer: gcc.NewLeakyBucketPacer(ini)}
	}
	if pcerr {
		in.rec.closeErr = errGccPacerClose
	}
	var err error
	in.bwe, err = gcc.NewSendSideBWE(gcc.SendSideBWEInitialBitrate(ini), gcc.SendSideBWEMinBitrate(mn),
		gcc.SendSideBWEMaxBitrate(mx), gcc.SendSideBWEPacer(in.rec))
	if err != nil {
		panic(err)
	}
	in.bwe.OnTargetBitrateChange(func(b int) {
		in.cbMu.Lock()
		in.cbs = append(in.cbs, b)
		in.entered++
		g := in.gate
		in.cbMu.Unlock()
		if g != nil {
			<-g
		}
		in.cbMu.Lock()
		in.exited++
		in.cbMu.Unlock()
	})
	info := &interceptor.StreamInfo{SSRC: 1}
	if ext {
		info.RTPHeaderExtensions = []interceptor.RTPHeaderExtension{
			{URI: "http://www.ietf.org/id/draft-holmer-rmcat-transport-wide-cc-extensions-01", ID: 5}}
	}
	o.InfoGuard("AddStream", info, func() { // the caller's StreamInfo comes back unedited (ambient_test.go)
		in.w = in.bwe.AddStream(info,
			interceptor.RTPWriterFunc(func(h *rtp.Header, p []byte, _ interceptor.Attributes) (int, error) {
				return h.MarshalSize() + len(p), nil
			}))
	})
	return in
}

func (in *gccInst) setGate(closed bool) {
	in.cbMu.Lock()
	defer in.cbMu.Unlock()
	if closed && in.gate == nil {
		in.gate = make(chan struct{})
	}
	if !closed && in.gate != nil {
		close(in.gate)
		in.gate = nil
	}
}

// feed hands one feedback to WriteRTCP and classifies the result.
func (in *gccInst) feed(pkts []rtcp.Packet) string {
	var err error
	panicked := false
	func() {
		defer func() {
			if recover() != nil {
				panicked = true
			}
		}()
		err = in.bwe.WriteRTCP(pkts, nil)
	}()
	synctest.Wait()
	switch {
	case panicked:
		return "wr PANIC"
	case err == nil:
		return "wr err=nil"
	case errors.Is(err, gcc.ErrSendSideBWEClosed):
		return "wr err=closed"
	case err.Error() == "invalid feedback": // internal/cc.errInvalidFeedback (unexported)
		return "wr err=invalid"
	default:
		return "wr err=other"
	}
}

// observe takes what the property talks about: getter, pacer calls and callback values since the last observation, stats.
func (in *gccInst) observe() gccObs {
	st := in.bwe.GetStats()
	ob := gccObs{target: in.bwe.GetTargetBitrate()}
	in.rec.mu.Lock()
	ob.pacer, in.rec.rates = in.rec.rates, nil
	in.rec.mu.Unlock()
	in.cbMu.Lock()
	ob.cbs, in.cbs = in.cbs, nil
	in.cbMu.Unlock()
	sort.Ints(ob.cbs)
	ob.dt, _ = st["delayTargetBitrate"].(int)
	ob.lt, _ = st["lossTargetBitrate"].(int)
	ob.st, _ = st["state"].(string)
	ob.us, _ = st["usage"].(string)
	return ob
}

// c09Other is the chunk of an unknown type (c09_test.go); gccDamage makes a built TWCC report one the adapter rejects.
func gccDamage(pkts []rtcp.Packet, how string) bool {
	for _, p := range pkts {
		fb, ok := p.(*rtcp.TransportLayerCC)
		if !ok {
			continue
		}
		switch how {
		case "short":
			if len(fb.RecvDeltas) == 0 {
				return false
			}
			fb.RecvDeltas = fb.RecvDeltas[:len(fb.RecvDeltas)-1]
		case "unk":
			fb.PacketChunks = append(fb.PacketChunks, c09Other{})
		default:
			return false
		}
		return true
	}
	return false
}

// gccProgress is bumped by the session before every call into the code under test (see gccWatched).
type gccProgress struct {
	n    atomic.Int64
	what atomic.Value
}

func (p *gccProgress) at(what string) {
	if p != nil {
		p.what.Store(what)
		p.n.Add(1)
	}
}

// gccPatience: real time without progress after which a call counts as blocked for good.  One call is a few
// goroutine hand-overs (microseconds of CPU); the virtual clock cannot help, it stands still while a goroutine
// waits for a mutex.
const gccPatience = 8 * time.Second

// gccWatched runs a session in its own goroutine and gives up on it (the goroutine and its bubble are left behind)
// when it makes no progress for gccPatience; the lines printed so far and a BLOCKED line are the case's output.
func gccWatched(o *Out, session func(so *Out, pr *gccProgress)) (blocked bool) {
	so := &Out{Amb: o.Amb}
	pr := &gccProgress{}
	done := make(chan any, 1)
	go func() {
		defer func() { done <- recover() }()
		session(so, pr)
	}()
	tick := time.NewTicker(250 * time.Millisecond)
	defer tick.Stop()
	last, idle := int64(-1), 0
	for {
		select {
		case r := <-done:
			o.lines = append(o.lines, so.lines...)
			if r != nil {
				panic(r)
			}
			return false
		case <-tick.C:
			if n := pr.n.Load(); n != last {
				last, idle = n, 0
				continue
			}
			idle++
			if time.Duration(idle)*250*time.Millisecond >= gccPatience {
				what, _ := pr.what.Load().(string)
				_ = pr.n.Load()
				o.lines = append(o.lines, so.lines...)
				o.P("BLOCKED %s did not return within %v of real time (virtual time stands still: a goroutine waits for a lock)", what, gccPatience)
				return true
			}
		}
	}
}

// gccSession executes ops on the real code.  For every fb op it calls onFb with the fresh
// observation; TRACE ops are answered from the observation of the preceding fb.
func gccSession(t *testing.T, ops []string, o *Out, onFb func(gccObs, int, int), pr *gccProgress) {
	synctest.Test(t, func(t *testing.T) {
		start := time.Now()
		var in *gccInst
		min, max, prev := 0, 0, 0
		closed := false
		seq, tw := 0, 0
		var last *gccObs
		rprev, rprevUpd := 0, false // the acceptor's chain over the RECORDED lines (see TRACE)
		var before *gccObs          // the observation before the last feedback
		untouched := ""    // set when a rejected report left a trace in the estimator
		var lastCbStep []int // callback values of the last step that delivered any
		defer func() {
			if in != nil {
				in.setGate(false)
				if !closed {
					pr.at("Close (end of the case)")
					_ = in.bwe.Close()
				}
			}
		}()
		for _, op := range ops {
			name, m := kv(op)
			switch name {
			case "cfg":
				ini, ok1 := c17NatOK(m, "init", 2_000_000_000)
				mn, ok2 := c17NatOK(m, "min", 2_000_000_000)
				mx, ok3 := c17NatOK(m, "max", 2_000_000_000)
				pk := m["pacer"]
				ext := m["ext"]
				pcerr, havePc := m["pcerr"]
				if !havePc {
					pcerr = "0"
				}
				if !ok1 || !ok2 || !ok3 || in != nil || (pk != "noop" && pk != "leaky") || (ext != "0" && ext != "1") ||
					(pcerr != "0" && pcerr != "1") || mn < 1 || mn > ini || ini > mx {
					o.P("bad-op")
					continue
				}
				pr.at("NewSendSideBWE/AddStream")
				in = newGccInst(o, ini, mn, mx, pk, ext == "1", pcerr == "1")
				min, max, prev, rprev = mn, mx, ini, ini
				synctest.Wait()
			case "sent":
				n, ok1 := c17NatOK(m, "n", 2000)
				size, ok2 := c17NatOK(m, "size", 1460)
				gap, ok3 := c17NatOK(m, "gap", 10_000_000)
				if !ok1 || !ok2 || !ok3 || in == nil {
					o.P("bad-op")
					continue
				}
				for i := 0; i < n; i++ {
					pr.at("the RTP write of `" + op + "`")
					h := &rtp.Header{Version: 2, PayloadType: 96, SequenceNumber: uint16(seq), SSRC: 1, Timestamp: uint32(seq) * 3000}
					ext, _ := (&rtp.TransportCCExtension{TransportSequence: uint16(tw)}).Marshal()
					_ = h.SetExtension(5, ext)
					payload := make([]byte, size)
					if m["nilp"] == "1" && size == 0 {
						payload = nil
					}
					_, _ = in.w.Write(h, payload, nil)
					seq++
					tw++
					if gap > 0 {
						time.Sleep(time.Duration(gap) * time.Microsecond)
					}
					synctest.Wait()
				}
			case "wr0":
				what := m["what"]
				if in == nil || (what != "nil" && what != "none" && what != "other") {
					o.P("bad-op")
					continue
				}
				var pkts []rtcp.Packet
				switch what {
				case "none":
					pkts = []rtcp.Packet{}
				case "other":
					pkts = []rtcp.Packet{&rtcp.PictureLossIndication{SenderSSRC: 99, MediaSSRC: 1}, &rtcp.ReceiverReport{SSRC: 99}}
				}
				pr.at("the WriteRTCP of `" + op + "`")
				o.P("%s", in.feed(pkts))
			case "adv":
				d, ok := c17NatOK(m, "us", 600_000_000)
				if !ok {
					o.P("bad-op")
					continue
				}
				pr.at("adv")
				time.Sleep(time.Duration(d) * time.Microsecond)
				synctest.Wait()
			case "gate":
				if in == nil || (m["open"] != "0" && m["open"] != "1") {
					o.P("bad-op")
					continue
				}
				pr.at("gate")
				if m["open"] == "0" {
					in.setGate(true)
					continue
				}
				in.setGate(false)
				time.Sleep(time.Millisecond)
				synctest.Wait()
				in.cbMu.Lock()
				late := append([]int(nil), in.cbs...)
				in.cbs = nil
				running := in.entered - in.exited
				in.cbMu.Unlock()
				getter := in.bwe.GetTargetBitrate()
				among := len(lastCbStep) == 0
				for _, v := range lastCbStep {
					among = among || v == getter
				}
				switch {
				case running != 0:
					o.P("quiet callbacks-still-running=%d", running)
				case len(late) != 0:
					o.P("quiet callback-values-delivered-only-now=%s getter=%d", joinInts(late), getter)
				case !among && !closed:
					o.P("quiet getter=%d is-not-among-the-last-callback-values=%s", getter, joinInts(lastCbStep))
				default:
					o.P("quiet ok")
				}
			case "fb":
				base, ok := c17NatOK(m, "base", 65535)
				kind := m["kind"]
				arr := strings.Split(m["a"], ",")
				how, damaged := m["bad"]
				if !ok || in == nil || (kind != "twcc" && kind != "8888") || m["a"] == "" || len(arr) > 1000 ||
					(damaged && (kind != "twcc" || (how != "short" && how != "unk"))) {
					o.P("bad-op")
					continue
				}
				build := func() (pkts []rtcp.Packet, bad bool) {
					if kind == "twcc" {
						r := twcc.NewRecorder(99)
						for i, a := range arr {
							if a == "x" {
								continue
							}
							v, okv := c17NatOK(map[string]string{"v": a}, "v", 1<<40)
							if !okv {
								return nil, true
							}
							r.Record(1, uint16(base+i), int64(v))
						}
						return r.BuildFeedbackPacket(), false
					}
					nowUs := time.Since(start).Microseconds()
					rep := &rtcp.CCFeedbackReport{SenderSSRC: 99,
						ReportTimestamp: uint32(uint64(nowUs) * 65536 / 1_000_000)}
					blk := rtcp.CCFeedbackReportBlock{MediaSSRC: 1, BeginSequence: uint16(base)}
					for _, a := range arr {
						if a == "x" {
							blk.MetricBlocks = append(blk.MetricBlocks, rtcp.CCFeedbackMetricBlock{Received: false})
							continue
						}
						v, okv := c17NatOK(map[string]string{"v": a}, "v", 1<<40)
						if !okv {
							return nil, true
						}
						off := (nowUs - int64(v)) * 1024 / 1_000_000
						if off < 0 {
							off = 0
						}
						if off > 0x1FFD {
							off = 0x1FFD
						}
						blk.MetricBlocks = append(blk.MetricBlocks, rtcp.CCFeedbackMetricBlock{Received: true, ArrivalTimeOffset: uint16(off)})
					}
					rep.ReportBlocks = []rtcp.CCFeedbackReportBlock{blk}
					return []rtcp.Packet{rep}, false
				}
				pkts, bad := build()
				if !bad && damaged && !gccDamage(pkts, how) {
					bad = true // nothing to damage (no received packet): not a report the adapter rejects
				}
				if bad {
					o.P("bad-op")
					continue
				}
				pr.at("the WriteRTCP of `" + op + "`")
				o.P("%s", in.feed(pkts))
				if closed {
					continue
				}
				ob := in.observe()
				if len(ob.cbs) > 0 {
					lastCbStep = ob.cbs
				}
				if damaged && before != nil && ob.line(min, max) != (gccObs{target: before.target, dt: before.dt, lt: before.lt, st: before.st, us: before.us}).line(min, max) {
					// nothing of a rejected report reaches the estimator: no publish, the getter and the stats as they were
					untouched = "reject a-rejected-report-changed-the-estimator: before " + before.line(min, max) + " / after " + ob.line(min, max)
				}
				before = &ob
				last = &ob
				if onFb != nil {
					onFb(ob, min, max)
				}
			case "TRACE":
				if last == nil {
					o.P("bad-op")
					continue
				}
				rec, recOK := gccParseTrace(m)
				switch {
				case recOK && (rec.line(atoi(m["min"]), atoi(m["max"])) != last.line(min, max)):
					// The line was recorded in another context (ops before it were removed while a failing case was
					// being reduced): it says nothing about the code.  Answer what the acceptor answers for the
					// recorded values, so that such a case is no witness and the reduction keeps away from it.
					o.P("%s", gccAcceptorVerdict(min, max, atoi(m["min"]), atoi(m["max"]), rprev, rprevUpd, rec))
				case untouched != "":
					o.P("%s", untouched)
				default:
					o.P("%s", last.check(prev, min, max))
				}
				untouched = ""
				prev = last.target
				if recOK {
					rprev, rprevUpd = rec.target, !(rec.dt == 0 && rec.lt == 0)
				} else {
					rprev, rprevUpd = last.target, !(last.dt == 0 && last.lt == 0)
				}
				last = nil
			case "close":
				if in == nil {
					o.P("bad-op")
					continue
				}
				synctest.Wait()
				pr.at("Close")
				func() {
					defer func() {
						if recover() != nil {
							o.P("close PANIC")
						}
					}()
					err := in.bwe.Close()
					switch {
					case err == nil:
						o.P("close err=nil")
					case errors.Is(err, errGccPacerClose):
						o.P("close err=pacer")
					default:
						o.P("close err=other")
					}
				}()
				closed = true
				synctest.Wait()
			default:
				o.P("bad-op")
			}
		}
	})
}

// inBubbleT obtains a *testing.T for the generator (Gen has none) so that it can open a bubble.
func inBubbleT(f func(t *testing.T)) {
	testing.RunTests(func(pat, str string) (bool, error) { return true, nil },
		[]testing.InternalTest{{Name: "gccgen", F: f}})
}

func genGcc(r *Rng, tier string, idx int) Case {
	classes := []string{"wellformed", "lossy", "heavyloss", "reordered", "identical", "hugegaps", "congested",
		"rfc8888", "mixed", "closed", "minabove100k", "minequalsmax", "ratecalc", "slowcb", "rejected", "empty"}
	cl := classes[idx%len(classes)]
	type cfgT struct{ ini, mn, mx int }
	grid := []cfgT{{10_000, 5_000, 50_000_000}, {1_000_000, 1_000_000, 1_000_000}, {2_000_000, 1_000_000, 5_000_000},
		{150_000, 150_000, 200_000}, {1, 1, 1000}, {800_000, 100_000, 100_000_000}, {150_000_000, 5_000, 200_000_000},
		{300_000, 100_001, 2_000_000}, {100_000, 100_000, 100_000}}
	cfg := grid[r.Intn(len(grid))]
	switch cl {
	case "minabove100k":
		cfg = []cfgT{{2_000_000, 1_000_000, 5_000_000}, {1_000_000, 1_000_000, 50_000_000}, {300_000, 100_001, 2_000_000}}[r.Intn(3)]
	case "minequalsmax":
		v := r.Pick(1, 5000, 100_000, 1_000_000, 150_000_000)
		cfg = cfgT{v, v, v}
	}
	if cl == "slowcb" || cl == "rejected" {
		// configurations in which the target moves with almost every feedback
		cfg = []cfgT{{10_000, 5_000, 50_000_000}, {2_000_000, 1_000_000, 5_000_000}, {800_000, 100_000, 100_000_000},
			{300_000, 100_001, 2_000_000}, {150_000_000, 5_000, 200_000_000}}[r.Intn(5)]
	}
	pacer := "noop"
	if r.Chance(1, 3) {
		pacer = "leaky"
	}
	ext := 1
	if cl == "rfc8888" || (cl != "minabove100k" && cl != "rejected" && r.Chance(1, 6)) {
		ext = 0
	}
	pcerr := 0
	if r.Chance(1, 3) {
		pcerr = 1 // an application supplied pacer whose Close fails
	}
	ops := []string{fmt.Sprintf("cfg init=%d min=%d max=%d pacer=%s ext=%d pcerr=%d", cfg.ini, cfg.mn, cfg.mx, pacer, ext, pcerr)}
	nfb := r.Range(20, 60)
	if tier == "thorough" {
		nfb = r.Range(50, 300)
	}
	tw := 0
	nowUs := 0
	closeAt := -1
	if cl == "closed" || (cl == "empty" && r.Bool()) {
		closeAt = r.Range(1, nfb-1)
	}
	owd := r.Pick(5_000, 20_000, 100_000) // one way delay µs
	queue := 0                            // growing queueing delay (congested)
	loss := 0
	switch cl {
	case "lossy":
		loss = r.Pick(1, 2, 5, 10)
	case "heavyloss":
		loss = r.Pick(20, 43, 50, 90, 100)
	case "minabove100k":
		loss = r.Pick(0, 15, 43, 60)
	}
	lastArr, rcMode := 0, 0
	gated := 0 // feedbacks left until the callback gate opens again (0: open)
	gates := cl == "slowcb" || (cl == "rejected" && r.Chance(1, 3))
	// an input that feeds nothing (class `empty`, now and then in every class)
	emptyOp := func() string {
		switch r.Intn(7) {
		case 0:
			return "wr0 what=nil"
		case 1:
			return "wr0 what=none"
		case 2:
			return "wr0 what=other"
		case 3:
			return fmt.Sprintf("fb kind=twcc base=%d a=%s", tw&0xFFFF, []string{"x", "x,x", "x,x,x,x,x,x,x,x"}[r.Intn(3)])
		case 4:
			return fmt.Sprintf("fb kind=8888 base=%d a=%s", tw&0xFFFF, []string{"x", "x,x"}[r.Intn(2)])
		case 5:
			tw++
			return "sent n=1 size=0 gap=0 nilp=1"
		}
		tw++
		return "sent n=1 size=0 gap=0"
	}
	for i := 0; i < nfb; i++ {
		if i == closeAt {
			ops = append(ops, "close")
		}
		if (cl == "empty" && r.Chance(1, 3)) || r.Chance(1, 40) {
			ops = append(ops, emptyOp())
		}
		if gates {
			switch {
			case gated == 0 && r.Chance(1, 4):
				ops = append(ops, "gate open=0")
				gated = r.Range(1, 8)
			case gated == 1:
				ops = append(ops, "gate open=1")
				gated = 0
			case gated > 1:
				gated--
			}
		}
		n := r.Range(1, 12)
		size := r.Pick(100, 500, 1000, 1200)
		gap := r.Pick(0, 500, 1000, 5000, 10_000)
		if cl == "hugegaps" && r.Chance(1, 4) {
			gap = r.Pick(1_000_000, 3_000_000)
			n = r.Range(1, 3)
		}
		ops = append(ops, fmt.Sprintf("sent n=%d size=%d gap=%d", n, size, gap))
		sendT := make([]int, n)
		for k := range sendT {
			sendT[k] = nowUs + k*gap
		}
		nowUs += n * gap
		a := make([]string, n)
		prevArr := 0
		for k := 0; k < n; k++ {
			arr := sendT[k] + owd + queue
			mode := cl
			if cl == "mixed" || cl == "closed" || cl == "empty" || cl == "rfc8888" || cl == "minabove100k" || cl == "minequalsmax" || cl == "slowcb" || cl == "rejected" {
				mode = []string{"wellformed", "reordered", "identical", "congested", "wellformed"}[r.Intn(5)]
			}
			switch mode {
			case "ratecalc":
				// whole feedbacks (and runs of feedbacks) with identical or strictly decreasing arrival
				// times: rateCalculator.run divides by dt = 0 / dt < 0
				if k == 0 {
					rcMode = r.Intn(4)
				}
				switch {
				case lastArr == 0 || rcMode == 3:
					arr += r.Range(0, 300)
				case rcMode == 0:
					arr = lastArr
				case rcMode == 1:
					arr = lastArr - r.Pick(1, 250, 251, 1000)
				default:
					arr = lastArr - r.Range(1, 100_000)
				}
			case "reordered":
				arr += r.Range(-4000, 4000)
				if r.Chance(1, 5) && prevArr > 2000 {
					arr = prevArr - r.Range(1, 2000) // decreasing arrival times
				}
			case "identical":
				if k > 0 && r.Chance(2, 3) {
					arr = prevArr // zero inter-arrival
				}
			case "congested":
				queue += r.Range(0, 3000)
			case "hugegaps":
				if r.Chance(1, 10) {
					arr += r.Pick(2_000_000, 10_000_000)
				}
			default:
				arr += r.Range(0, 300)
			}
			if arr < 0 {
				arr = 0
			}
			prevArr = arr
			lastArr = arr
			if r.Intn(100) < loss && !(k == 0 && loss < 100) {
				a[k] = "x"
			} else {
				a[k] = fmt.Sprint(arr)
			}
		}
		if cl == "congested" && r.Chance(1, 6) {
			queue /= 2
		}
		rtt := r.Pick(1000, 10_000, 50_000, 200_000)
		ops = append(ops, fmt.Sprintf("adv us=%d", rtt))
		nowUs += rtt
		kind := "twcc"
		if ext == 0 {
			kind = "8888"
		}
		fbOp := fmt.Sprintf("fb kind=%s base=%d a=%s", kind, tw&0xFFFF, strings.Join(a, ","))
		received := false
		for _, x := range a {
			received = received || x != "x"
		}
		lost := false
		if cl == "rejected" && kind == "twcc" && received && r.Chance(1, 3) {
			// a report the feedback adapter rejects, then (mostly) the well-formed one about the same packets
			for k := r.Pick(1, 1, 1, 2, 3); k > 0; k-- {
				ops = append(ops, fbOp+" bad="+[]string{"short", "unk"}[r.Intn(2)])
			}
			lost = r.Chance(1, 4)
		}
		if !lost {
			ops = append(ops, fbOp)
		}
		tw += n
	}
	if gated > 0 && r.Chance(3, 4) {
		ops = append(ops, "gate open=1") // otherwise the Close of the tail finds callbacks still running
		gated = 0
	}
	// lifecycle tail: Close (the drawn pacer may fail to close), feedback of both kinds after Close,
	// sometimes a second Close and feedback again
	if cl == "closed" || cl == "empty" || r.Chance(1, 3) {
		if closeAt < 0 {
			ops = append(ops, "close")
		}
		tail := func() {
			for k := r.Pick(0, 1, 2); k > 0 || (cl == "empty" && k > -3); k-- {
				ops = append(ops, emptyOp())
			}
			for _, k := range []string{"twcc", "8888"} {
				if r.Chance(3, 4) {
					ops = append(ops, fmt.Sprintf("fb kind=%s base=%d a=%d,%d", k, (tw-2)&0xFFFF, nowUs+1000, nowUs+2000))
				}
			}
		}
		tail()
		if r.Chance(1, 3) {
			ops = append(ops, "close")
			tail()
		}
	}
	if gated > 0 {
		ops = append(ops, "gate open=1")
	}
	// execute on the real code and interleave the observed TRACE lines.  Once a session has been given up as
	// blocked the remaining cases are written without TRACE lines (the run will report the blocked call; a
	// generator that waits gccPatience for every later case would not finish).
	var traces []string
	var tmu sync.Mutex
	if !gccGenBlocked.Load() {
		if gccWatched(&Out{}, func(so *Out, pr *gccProgress) {
			inBubbleT(func(t *testing.T) {
				gccSession(t, ops, so, func(ob gccObs, mn, mx int) {
					tmu.Lock()
					traces = append(traces, ob.line(mn, mx))
					tmu.Unlock()
				}, pr)
			})
		}) {
			gccGenBlocked.Store(true)
		}
	}
	tmu.Lock()
	traces = append([]string(nil), traces...)
	tmu.Unlock()
	var out []string
	ti := 0
	closed := false
	for _, op := range ops {
		out = append(out, op)
		if op == "close" {
			closed = true
		}
		if strings.HasPrefix(op, "fb ") && !closed && ti < len(traces) {
			out = append(out, traces[ti])
			ti++
		}
	}
	return Case{Class: cl, Ops: out}
}

var gccGenBlocked atomic.Bool

func init() {
	register("gccbwe", &Comp{N: c17N(1000, 6000), Gen: genGcc,
		Run: func(t *testing.T, ops []string, o *Out) {
			gccWatched(o, func(so *Out, pr *gccProgress) {
				if os.Getenv("VERIF_GCC_TRACE") != "" { // aid for writing corpus files: print the fresh TRACE lines
					gccSession(t, ops, so, func(ob gccObs, mn, mx int) { so.P("%s", ob.line(mn, mx)) }, pr)
					return
				}
				gccSession(t, ops, so, nil, pr)
			})
		}})
}

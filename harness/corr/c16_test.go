package corr

// C16 — component `gccbwe`: gcc.SendSideBWE in a synctest bubble with a recording Pacer
// (wrapping the real NoOpPacer or LeakyBucketPacer) and a recording OnTargetBitrateChange callback.
//
// The estimator's floating-point stages are oracles of the Lean model, so the tie is TRACE
// ACCEPTANCE.  The generator executes every scenario on the real code (in a bubble obtained
// through testing.RunTests, because Gen has no *testing.T) and writes, after every feedback op,
// a line  TRACE t=<GetTargetBitrate> p=<SetTargetBitrate calls since the last TRACE>
// cb=<callback values since the last TRACE, sorted (the callbacks run in their own goroutines)>
// dt=<delayTargetBitrate> lt=<lossTargetBitrate> st=<state> us=<usage> min= max=  into the ops.
// The Lean driver reads these lines as ops and answers `accept` / `reject <why>` according to the
// control skeleton; in run mode this interpreter re-executes the scenario on the real code and
// answers `accept` / `reject <why>` by applying the property's clauses directly to what it observes
// now (bounds, pacer = callback = getter).  Every other op prints the same deterministic line on
// both sides (`wr err=…`).
//
// ops: cfg init= min= max= pacer=noop|leaky ext=<1: TWCC header extension, 0: none (RFC 8888)> [pcerr=<1: the pacer's Close returns an error>] | sent n= size= gap=<µs> | adv us=
//      | fb kind=twcc|8888 base=<first seq> a=<arrival µs or x, comma separated> | close

import (
	"errors"
	"fmt"
	"os"
	"sort"
	"strings"
	"sync"
	"testing"
	"testing/synctest"
	"time"

	"github.com/pion/interceptor"
	"github.com/pion/interceptor/pkg/gcc"
	"github.com/pion/interceptor/pkg/twcc"
	"github.com/pion/rtcp"
	"github.com/pion/rtp"
)

type gccRecPacer struct {
	gcc.Pacer
	mu       sync.Mutex
	rates    []int
	closeErr error // what Close returns (an application supplied pacer may fail to close)
	closed   bool
}

var errGccPacerClose = errors.New("pacer close failed")

func (p *gccRecPacer) Close() error {
	p.mu.Lock()
	was := p.closed
	p.closed = true
	p.mu.Unlock()
	if !was {
		_ = p.Pacer.Close()
	}
	return p.closeErr
}

func (p *gccRecPacer) SetTargetBitrate(r int) {
	p.mu.Lock()
	p.rates = append(p.rates, r)
	p.mu.Unlock()
	p.Pacer.SetTargetBitrate(r)
}

type gccObs struct {
	target     int
	pacer, cbs []int
	dt, lt     int
	st, us     string
}

func (ob gccObs) line(min, max int) string {
	return fmt.Sprintf("TRACE t=%d p=%s cb=%s dt=%d lt=%d st=%s us=%s min=%d max=%d",
		ob.target, joinInts(ob.pacer), joinInts(ob.cbs), ob.dt, ob.lt, ob.st, ob.us, min, max)
}

// check applies the clauses of C16 to one observation.
func (ob gccObs) check(prev, min, max int) string {
	switch {
	case ob.target < min:
		return "reject below-min"
	case ob.target > max:
		return "reject above-max"
	case ob.target <= 0:
		return "reject non-positive"
	}
	if len(ob.pacer) == 0 {
		if ob.target != prev || len(ob.cbs) != 0 {
			return "reject changed-without-publish"
		}
		return "accept"
	}
	if ob.pacer[len(ob.pacer)-1] != ob.target {
		return "reject pacer-differs-from-getter"
	}
	s := append([]int(nil), ob.pacer...)
	sort.Ints(s)
	if len(s) != len(ob.cbs) {
		return "reject callback-count"
	}
	for i := range s {
		if s[i] != ob.cbs[i] {
			return "reject callback-differs-from-pacer"
		}
		if s[i] < min || s[i] > max {
			return "reject published-out-of-bounds"
		}
	}
	return "accept"
}

// gccSession executes ops on the real code.  For every fb op it calls onFb with the fresh
// observation; TRACE ops are answered from the observation of the preceding fb.
func gccSession(t *testing.T, ops []string, o *Out, onFb func(gccObs, int, int)) {
	synctest.Test(t, func(t *testing.T) {
		start := time.Now()
		var bwe *gcc.SendSideBWE
		var rec *gccRecPacer
		var w interceptor.RTPWriter
		var cbMu sync.Mutex
		var cbs []int
		min, max, prev := 0, 0, 0
		closed := false
		seq, tw := 0, 0
		var last *gccObs
		defer func() {
			if bwe != nil && !closed {
				_ = bwe.Close()
			}
		}()
		for _, op := range ops {
			name, m := kv(op)
			switch name {
			case "cfg":
				ini, ok1 := c17NatOK(m, "init", 2_000_000_000)
				mn, ok2 := c17NatOK(m, "min", 2_000_000_000)
				mx, ok3 := c17NatOK(m, "max", 2_000_000_000)
				pk := m["pacer"]
				ext := m["ext"]
				pcerr, havePc := m["pcerr"]
				if !havePc {
					pcerr = "0"
				}
				if !ok1 || !ok2 || !ok3 || bwe != nil || (pk != "noop" && pk != "leaky") || (ext != "0" && ext != "1") ||
					(pcerr != "0" && pcerr != "1") || mn < 1 || mn > ini || ini > mx {
					o.P("bad-op")
					continue
				}
				if pk == "noop" {
					rec = &gccRecPacer{Pacer: gcc.NewNoOpPacer()}
				} else {
					rec = &gccRecPacer{Pacer: gcc.NewLeakyBucketPacer(ini)}
				}
				if pcerr == "1" {
					rec.closeErr = errGccPacerClose
				}
				var err error
				bwe, err = gcc.NewSendSideBWE(gcc.SendSideBWEInitialBitrate(ini), gcc.SendSideBWEMinBitrate(mn),
					gcc.SendSideBWEMaxBitrate(mx), gcc.SendSideBWEPacer(rec))
				if err != nil {
					panic(err)
				}
				bwe.OnTargetBitrateChange(func(b int) {
					cbMu.Lock()
					cbs = append(cbs, b)
					cbMu.Unlock()
				})
				info := &interceptor.StreamInfo{SSRC: 1}
				if ext == "1" {
					info.RTPHeaderExtensions = []interceptor.RTPHeaderExtension{
						{URI: "http://www.ietf.org/id/draft-holmer-rmcat-transport-wide-cc-extensions-01", ID: 5}}
				}
				w = bwe.AddStream(info,
					interceptor.RTPWriterFunc(func(h *rtp.Header, p []byte, _ interceptor.Attributes) (int, error) {
						return h.MarshalSize() + len(p), nil
					}))
				min, max, prev = mn, mx, ini
				synctest.Wait()
			case "sent":
				n, ok1 := c17NatOK(m, "n", 2000)
				size, ok2 := c17NatOK(m, "size", 1460)
				gap, ok3 := c17NatOK(m, "gap", 10_000_000)
				if !ok1 || !ok2 || !ok3 || bwe == nil {
					o.P("bad-op")
					continue
				}
				for i := 0; i < n; i++ {
					h := &rtp.Header{Version: 2, PayloadType: 96, SequenceNumber: uint16(seq), SSRC: 1, Timestamp: uint32(seq) * 3000}
					ext, _ := (&rtp.TransportCCExtension{TransportSequence: uint16(tw)}).Marshal()
					_ = h.SetExtension(5, ext)
					_, _ = w.Write(h, make([]byte, size), nil)
					seq++
					tw++
					if gap > 0 {
						time.Sleep(time.Duration(gap) * time.Microsecond)
					}
					synctest.Wait()
				}
			case "adv":
				d, ok := c17NatOK(m, "us", 600_000_000)
				if !ok {
					o.P("bad-op")
					continue
				}
				time.Sleep(time.Duration(d) * time.Microsecond)
				synctest.Wait()
			case "fb":
				base, ok := c17NatOK(m, "base", 65535)
				kind := m["kind"]
				arr := strings.Split(m["a"], ",")
				if !ok || bwe == nil || (kind != "twcc" && kind != "8888") || m["a"] == "" || len(arr) > 1000 {
					o.P("bad-op")
					continue
				}
				var pkts []rtcp.Packet
				bad := false
				if kind == "twcc" {
					r := twcc.NewRecorder(99)
					for i, a := range arr {
						if a == "x" {
							continue
						}
						v, okv := c17NatOK(map[string]string{"v": a}, "v", 1<<40)
						if !okv {
							bad = true
							break
						}
						r.Record(1, uint16(base+i), int64(v))
					}
					if !bad {
						pkts = r.BuildFeedbackPacket()
					}
				} else {
					nowUs := time.Since(start).Microseconds()
					rep := &rtcp.CCFeedbackReport{SenderSSRC: 99,
						ReportTimestamp: uint32(uint64(nowUs) * 65536 / 1_000_000)}
					blk := rtcp.CCFeedbackReportBlock{MediaSSRC: 1, BeginSequence: uint16(base)}
					for _, a := range arr {
						if a == "x" {
							blk.MetricBlocks = append(blk.MetricBlocks, rtcp.CCFeedbackMetricBlock{Received: false})
							continue
						}
						v, okv := c17NatOK(map[string]string{"v": a}, "v", 1<<40)
						if !okv {
							bad = true
							break
						}
						off := (nowUs - int64(v)) * 1024 / 1_000_000
						if off < 0 {
							off = 0
						}
						if off > 0x1FFD {
							off = 0x1FFD
						}
						blk.MetricBlocks = append(blk.MetricBlocks, rtcp.CCFeedbackMetricBlock{Received: true, ArrivalTimeOffset: uint16(off)})
					}
					rep.ReportBlocks = []rtcp.CCFeedbackReportBlock{blk}
					pkts = []rtcp.Packet{rep}
				}
				if bad {
					o.P("bad-op")
					continue
				}
				var err error
				panicked := false
				func() {
					defer func() {
						if recover() != nil {
							panicked = true
						}
					}()
					err = bwe.WriteRTCP(pkts, nil)
				}()
				synctest.Wait()
				switch {
				case panicked:
					o.P("wr PANIC")
				case err == nil:
					o.P("wr err=nil")
				case errors.Is(err, gcc.ErrSendSideBWEClosed):
					o.P("wr err=closed")
				default:
					o.P("wr err=other")
				}
				if closed {
					continue
				}
				st := bwe.GetStats()
				ob := gccObs{target: bwe.GetTargetBitrate()}
				rec.mu.Lock()
				ob.pacer, rec.rates = rec.rates, nil
				rec.mu.Unlock()
				cbMu.Lock()
				ob.cbs, cbs = cbs, nil
				cbMu.Unlock()
				sort.Ints(ob.cbs)
				ob.dt, _ = st["delayTargetBitrate"].(int)
				ob.lt, _ = st["lossTargetBitrate"].(int)
				ob.st, _ = st["state"].(string)
				ob.us, _ = st["usage"].(string)
				last = &ob
				if onFb != nil {
					onFb(ob, min, max)
				}
			case "TRACE":
				if last == nil {
					o.P("bad-op")
					continue
				}
				o.P("%s", last.check(prev, min, max))
				prev = last.target
				last = nil
			case "close":
				if bwe == nil {
					o.P("bad-op")
					continue
				}
				synctest.Wait()
				func() {
					defer func() {
						if recover() != nil {
							o.P("close PANIC")
						}
					}()
					err := bwe.Close()
					switch {
					case err == nil:
						o.P("close err=nil")
					case errors.Is(err, errGccPacerClose):
						o.P("close err=pacer")
					default:
						o.P("close err=other")
					}
				}()
				closed = true
				synctest.Wait()
			default:
				o.P("bad-op")
			}
		}
	})
}

// inBubbleT obtains a *testing.T for the generator (Gen has none) so that it can open a bubble.
func inBubbleT(f func(t *testing.T)) {
	testing.RunTests(func(pat, str string) (bool, error) { return true, nil },
		[]testing.InternalTest{{Name: "gccgen", F: f}})
}

func genGcc(r *Rng, tier string, idx int) Case {
	classes := []string{"wellformed", "lossy", "heavyloss", "reordered", "identical", "hugegaps", "congested",
		"rfc8888", "mixed", "closed", "minabove100k", "minequalsmax", "ratecalc"}
	cl := classes[idx%len(classes)]
	type cfgT struct{ ini, mn, mx int }
	grid := []cfgT{{10_000, 5_000, 50_000_000}, {1_000_000, 1_000_000, 1_000_000}, {2_000_000, 1_000_000, 5_000_000},
		{150_000, 150_000, 200_000}, {1, 1, 1000}, {800_000, 100_000, 100_000_000}, {150_000_000, 5_000, 200_000_000},
		{300_000, 100_001, 2_000_000}, {100_000, 100_000, 100_000}}
	cfg := grid[r.Intn(len(grid))]
	switch cl {
	case "minabove100k":
		cfg = []cfgT{{2_000_000, 1_000_000, 5_000_000}, {1_000_000, 1_000_000, 50_000_000}, {300_000, 100_001, 2_000_000}}[r.Intn(3)]
	case "minequalsmax":
		v := r.Pick(1, 5000, 100_000, 1_000_000, 150_000_000)
		cfg = cfgT{v, v, v}
	}
	pacer := "noop"
	if r.Chance(1, 3) {
		pacer = "leaky"
	}
	ext := 1
	if cl == "rfc8888" || (cl != "minabove100k" && r.Chance(1, 6)) {
		ext = 0
	}
	pcerr := 0
	if r.Chance(1, 3) {
		pcerr = 1 // an application supplied pacer whose Close fails
	}
	ops := []string{fmt.Sprintf("cfg init=%d min=%d max=%d pacer=%s ext=%d pcerr=%d", cfg.ini, cfg.mn, cfg.mx, pacer, ext, pcerr)}
	nfb := r.Range(20, 60)
	if tier == "thorough" {
		nfb = r.Range(50, 300)
	}
	tw := 0
	nowUs := 0
	closeAt := -1
	if cl == "closed" {
		closeAt = r.Range(1, nfb-1)
	}
	owd := r.Pick(5_000, 20_000, 100_000) // one way delay µs
	queue := 0                            // growing queueing delay (congested)
	loss := 0
	switch cl {
	case "lossy":
		loss = r.Pick(1, 2, 5, 10)
	case "heavyloss":
		loss = r.Pick(20, 43, 50, 90, 100)
	case "minabove100k":
		loss = r.Pick(0, 15, 43, 60)
	}
	lastArr, rcMode := 0, 0
	for i := 0; i < nfb; i++ {
		if i == closeAt {
			ops = append(ops, "close")
		}
		n := r.Range(1, 12)
		size := r.Pick(100, 500, 1000, 1200)
		gap := r.Pick(0, 500, 1000, 5000, 10_000)
		if cl == "hugegaps" && r.Chance(1, 4) {
			gap = r.Pick(1_000_000, 3_000_000)
			n = r.Range(1, 3)
		}
		ops = append(ops, fmt.Sprintf("sent n=%d size=%d gap=%d", n, size, gap))
		sendT := make([]int, n)
		for k := range sendT {
			sendT[k] = nowUs + k*gap
		}
		nowUs += n * gap
		a := make([]string, n)
		prevArr := 0
		for k := 0; k < n; k++ {
			arr := sendT[k] + owd + queue
			mode := cl
			if cl == "mixed" || cl == "closed" || cl == "rfc8888" || cl == "minabove100k" || cl == "minequalsmax" {
				mode = []string{"wellformed", "reordered", "identical", "congested", "wellformed"}[r.Intn(5)]
			}
			switch mode {
			case "ratecalc":
				// whole feedbacks (and runs of feedbacks) with identical or strictly decreasing arrival
				// times: rateCalculator.run divides by dt = 0 / dt < 0
				if k == 0 {
					rcMode = r.Intn(4)
				}
				switch {
				case lastArr == 0 || rcMode == 3:
					arr += r.Range(0, 300)
				case rcMode == 0:
					arr = lastArr
				case rcMode == 1:
					arr = lastArr - r.Pick(1, 250, 251, 1000)
				default:
					arr = lastArr - r.Range(1, 100_000)
				}
			case "reordered":
				arr += r.Range(-4000, 4000)
				if r.Chance(1, 5) && prevArr > 2000 {
					arr = prevArr - r.Range(1, 2000) // decreasing arrival times
				}
			case "identical":
				if k > 0 && r.Chance(2, 3) {
					arr = prevArr // zero inter-arrival
				}
			case "congested":
				queue += r.Range(0, 3000)
			case "hugegaps":
				if r.Chance(1, 10) {
					arr += r.Pick(2_000_000, 10_000_000)
				}
			default:
				arr += r.Range(0, 300)
			}
			if arr < 0 {
				arr = 0
			}
			prevArr = arr
			lastArr = arr
			if r.Intn(100) < loss && !(k == 0 && loss < 100) {
				a[k] = "x"
			} else {
				a[k] = fmt.Sprint(arr)
			}
		}
		if cl == "congested" && r.Chance(1, 6) {
			queue /= 2
		}
		rtt := r.Pick(1000, 10_000, 50_000, 200_000)
		ops = append(ops, fmt.Sprintf("adv us=%d", rtt))
		nowUs += rtt
		kind := "twcc"
		if ext == 0 {
			kind = "8888"
		}
		ops = append(ops, fmt.Sprintf("fb kind=%s base=%d a=%s", kind, tw&0xFFFF, strings.Join(a, ",")))
		tw += n
	}
	// lifecycle tail: Close (the drawn pacer may fail to close), feedback of both kinds after Close,
	// sometimes a second Close and feedback again
	if cl == "closed" || r.Chance(1, 3) {
		if closeAt < 0 {
			ops = append(ops, "close")
		}
		tail := func() {
			for _, k := range []string{"twcc", "8888"} {
				if r.Chance(3, 4) {
					ops = append(ops, fmt.Sprintf("fb kind=%s base=%d a=%d,%d", k, (tw-2)&0xFFFF, nowUs+1000, nowUs+2000))
				}
			}
		}
		tail()
		if r.Chance(1, 3) {
			ops = append(ops, "close")
			tail()
		}
	}
	// execute on the real code and interleave the observed TRACE lines
	var traces []string
	inBubbleT(func(t *testing.T) {
		gccSession(t, ops, &Out{}, func(ob gccObs, mn, mx int) { traces = append(traces, ob.line(mn, mx)) })
	})
	var out []string
	ti := 0
	closed := false
	for _, op := range ops {
		out = append(out, op)
		if op == "close" {
			closed = true
		}
		if strings.HasPrefix(op, "fb ") && !closed && ti < len(traces) {
			out = append(out, traces[ti])
			ti++
		}
	}
	return Case{Class: cl, Ops: out}
}

func init() {
	register("gccbwe", &Comp{N: c17N(1000, 6000), Gen: genGcc,
		Run: func(t *testing.T, ops []string, o *Out) {
			if os.Getenv("VERIF_GCC_TRACE") != "" { // aid for writing corpus files: print the fresh TRACE lines
				gccSession(t, ops, o, func(ob gccObs, mn, mx int) { o.P("%s", ob.line(mn, mx)) })
				return
			}
			gccSession(t, ops, o, nil)
		}})
}

package corr

// C13 — caller-owned buffers are not retained or modified after a call returns.
// Component `scribble`: every interceptor that emits or stores anything derived from packet
// contents is driven with the SAME packet history under a mode flag:
//
//	mode=fresh   a fresh header object, payload slice, read buffer, attributes map and RTCP
//	             packet slice for every call; nothing is overwritten afterwards
//	mode=reuse   ONE header object (with one CSRC backing array, one []Extension backing array
//	             and one backing array for all extension payloads), ONE payload buffer, ONE read
//	             buffer, ONE attributes map and ONE []rtcp.Packet slice for every call; all of
//	             them are overwritten with a recognisable pattern (payload/read buffer/extension
//	             payload bytes 0xEE, CSRC entries 0xEEEEEEEE, header scalars xored, attributes
//	             cleared and set to {238:238}, RTCP slice elements replaced by a sentinel PLI)
//	             immediately after the call has returned and before any goroutine of the
//	             interceptor gets to run again
//
// The generator emits every history twice (a fresh and a reuse case, identical otherwise); the
// Lean model (Model/Alias.lean, Driver/Scribble.lean) does not depend on the mode because every
// storing site of every interceptor is a copy (Facts/C13.lean), so both must print the same.
//
// ops
//	new ic=<responder|flexfec|leaky|pacing|pdsend|pdrecv|stats|jitter|twccsend|rtpfb|sr|rr>
//	    mode=<fresh|reuse> [size= rtx=] [n= f=]
//	w <header fields> pl=<hex> at=<k:v,..|->      RTP Write through the bound local stream
//	r <header fields> pl=<hex>                    RTP Read through the bound remote stream (the
//	                                              bottom reader delivers the marshalled packet)
//	nack pairs=<pid>:<blp>,..                     RTCP Read of one TransportLayerNack (media 1000)
//	ack ssrc= begin= recv=<0|1>,..                RTCP Read of one CCFeedbackReport
//	cr kind=<pli|nack|rr> a= b=                   RTCP Read of one small packet
//	cw kind=<pli|nack|rr> a= b=                   RTCP Write of one small packet
//	adv us=                                       virtual time passes
//	get                                           stats.Get(1000)
//	close
// observables
//	w n= err= pmod=<caller payload modified during the call> hmod=<caller header modified>
//	r n= err= b=<hex of the bytes returned>
//	out hdr=<marshalled header> pad= pl= at=      every packet reaching the bottom RTP writer
//	                                              (sequence number of RTX packets masked)
//	rtcp <canonical form>                         every packet reaching the bottom RTCP writer
//	dump <line>                                   every line the packet dumper wrote
//	rep ssrc= seq= size= arrived=                 rtpfb packet reports found in the attributes
//	stats out=<pkts>,<bytes>,<hdr> in=<pkts>,<bytes>,<hdr>

import (
	"bytes"
	"encoding/hex"
	"fmt"
	"runtime"
	"sort"
	"strings"
	"sync"
	"testing"
	"testing/synctest"
	"time"

	"github.com/pion/interceptor"
	"github.com/pion/interceptor/pkg/flexfec"
	"github.com/pion/interceptor/pkg/gcc"
	"github.com/pion/interceptor/pkg/jitterbuffer"
	"github.com/pion/interceptor/pkg/nack"
	"github.com/pion/interceptor/pkg/pacing"
	"github.com/pion/interceptor/pkg/packetdump"
	"github.com/pion/interceptor/pkg/report"
	"github.com/pion/interceptor/pkg/rtpfb"
	"github.com/pion/interceptor/pkg/stats"
	"github.com/pion/interceptor/pkg/twcc"
	"github.com/pion/rtcp"
	"github.com/pion/rtp"
)

const (
	c13SSRC    = 1000
	c13RtxSSRC = 2000
	c13RtxPT   = 97
	c13TwccID  = 5
	c13TwccURI = "http://www.ietf.org/id/draft-holmer-rmcat-transport-wide-cc-extensions-01"
)

var c13ICs = []string{"responder", "flexfec", "leaky", "pacing", "pdsend", "pdrecv", "stats", "jitter",
	"twccsend", "rtpfb", "sr", "rr"}

// the ops each interceptor is driven with (anything else is `bad-op` on both sides)
var c13Supported = map[string]string{
	"responder": " w nack adv close ", "flexfec": " w adv close ", "leaky": " w adv close ", "pacing": " w adv close ",
	"pdsend": " w cw adv close ", "pdrecv": " r cr adv close ", "stats": " w r get adv close ", "jitter": " r adv close ",
	"twccsend": " r adv close ", "rtpfb": " w ack adv close ", "sr": " w adv close ", "rr": " r adv close ",
}

// c13Env is the caller: it owns the memory handed to the interceptor.
type c13Env struct {
	o     *Out
	reuse bool
	mu    sync.Mutex // bottom writers may run on interceptor goroutines
	main  string     // goroutine id of the caller
	lines []string   // printed by the caller's goroutine (during a call)
	async []string   // printed by goroutines of the interceptor

	// the caller's reusable memory (mode=reuse)
	hdr    *rtp.Header
	csrc   [15]uint32
	extArr []rtp.Extension
	extBuf []byte
	pay    []byte
	rbuf   []byte
	attrs  interceptor.Attributes
	pkts   []rtcp.Packet

	dump   *c13Sink
	gate   chan struct{} // formatter callbacks wait here until the caller has finished scribbling
	gating bool
}

type c13Sink struct {
	mu  sync.Mutex
	buf bytes.Buffer
}

func (s *c13Sink) Write(p []byte) (int, error) {
	s.mu.Lock()
	defer s.mu.Unlock()
	return s.buf.Write(p)
}

func (s *c13Sink) take() []string {
	s.mu.Lock()
	defer s.mu.Unlock()
	txt := s.buf.String()
	s.buf.Reset()
	if txt == "" {
		return nil
	}
	return strings.Split(strings.TrimSuffix(txt, "\n"), "\n")
}

// c13Goid is the id of the running goroutine (first line of its stack trace).
func c13Goid() string {
	var buf [64]byte
	f := strings.Fields(string(buf[:runtime.Stack(buf[:], false)]))
	if len(f) < 2 {
		return "?"
	}
	return f[1]
}

// emit records an observable line; lines produced on the caller's goroutine (synchronously,
// during a call) are printed before those produced by the interceptor's own goroutines, so the
// order does not depend on the scheduler.
func (e *c13Env) emit(format string, a ...any) {
	l := fmt.Sprintf(format, a...)
	own := c13Goid() == e.main
	e.mu.Lock()
	if own {
		e.lines = append(e.lines, l)
	} else {
		e.async = append(e.async, l)
	}
	e.mu.Unlock()
}

func (e *c13Env) flush() {
	e.mu.Lock()
	for _, l := range e.lines {
		e.o.P("%s", l)
	}
	for _, l := range e.async {
		e.o.P("%s", l)
	}
	e.lines, e.async = nil, nil
	e.mu.Unlock()
	if e.dump != nil {
		for _, l := range e.dump.take() {
			e.o.P("dump %s", l)
		}
	}
}

func c13Attrs(a interceptor.Attributes) string {
	var ks []int
	for k, v := range a {
		ki, ok1 := k.(int)
		_, ok2 := v.(int)
		if ok1 && ok2 {
			ks = append(ks, ki)
		}
	}
	if len(ks) == 0 {
		return "-"
	}
	sort.Ints(ks)
	parts := make([]string, len(ks))
	for i, k := range ks {
		parts[i] = fmt.Sprintf("%d:%d", k, a[k].(int))
	}
	return strings.Join(parts, ",")
}

func c13HdrHex(h *rtp.Header, maskRtx bool) string {
	hh := h.Clone()
	if maskRtx && hh.SSRC == c13RtxSSRC {
		hh.SequenceNumber = 0 // rtp.NewRandomSequencer
	}
	b, err := hh.Marshal()
	if err != nil {
		return "err"
	}
	return hexs(b)
}

func (e *c13Env) rtpWriter() interceptor.RTPWriter {
	return interceptor.RTPWriterFunc(func(h *rtp.Header, p []byte, a interceptor.Attributes) (int, error) {
		e.emit("out hdr=%s pad=%d pl=%s at=%s", c13HdrHex(h, true), h.PaddingSize, hexs(p), c13Attrs(a))
		return h.MarshalSize() + len(p), nil
	})
}

func c13RTCPLine(p rtcp.Packet) string {
	switch v := p.(type) {
	case *rtcp.SenderReport:
		return fmt.Sprintf("sr ssrc=%d ntp=%d rtp=%d pkts=%d octets=%d", v.SSRC, v.NTPTime, v.RTPTime, v.PacketCount, v.OctetCount)
	case *rtcp.ReceiverReport:
		var parts []string
		for _, r := range v.Reports {
			parts = append(parts, fmt.Sprintf("%d/%d/%d/%d/%d/%d/%d", r.SSRC, r.LastSequenceNumber, r.TotalLost,
				r.FractionLost, r.Jitter, r.LastSenderReport, r.Delay))
		}
		if len(parts) == 0 {
			parts = []string{"-"}
		}
		return "rr " + strings.Join(parts, ",")
	case *rtcp.TransportLayerCC:
		var recv []int
		idx := 0
		for _, ch := range v.PacketChunks {
			switch c := ch.(type) {
			case *rtcp.RunLengthChunk:
				for i := 0; i < int(c.RunLength) && idx < int(v.PacketStatusCount); i++ {
					if c.PacketStatusSymbol != rtcp.TypeTCCPacketNotReceived {
						recv = append(recv, int(v.BaseSequenceNumber+uint16(idx)))
					}
					idx++
				}
			case *rtcp.StatusVectorChunk:
				for _, s := range c.SymbolList {
					if idx >= int(v.PacketStatusCount) {
						break
					}
					if s != rtcp.TypeTCCPacketNotReceived {
						recv = append(recv, int(v.BaseSequenceNumber+uint16(idx)))
					}
					idx++
				}
			}
		}
		return fmt.Sprintf("fb ssrc=%d recv=%s", v.MediaSSRC, joinInts(recv))
	default:
		b, err := p.Marshal()
		if err != nil {
			return "raw err"
		}
		return "raw " + hexs(b)
	}
}

func (e *c13Env) rtcpWriter() interceptor.RTCPWriter {
	return interceptor.RTCPWriterFunc(func(pkts []rtcp.Packet, _ interceptor.Attributes) (int, error) {
		for _, p := range pkts {
			e.emit("rtcp %s", c13RTCPLine(p))
		}
		return 0, nil
	})
}

// c13Shape parses the header fields and payload of a w / r op.
type c13Pkt struct {
	h   hdrShape
	pl  []byte
	at  [][2]int
	raw map[string]string
}

func c13ParsePkt(m map[string]string) (p c13Pkt, ok bool) {
	defer func() {
		if recover() != nil {
			ok = false
		}
	}()
	for _, k := range []string{"v", "p", "x", "m", "pt", "seq", "ts", "ssrc", "cc", "prof", "ext", "pad", "pl"} {
		if _, have := m[k]; !have {
			return p, false
		}
	}
	h := hdrShape{V: atoi(m["v"]), P: m["p"] == "1", X: m["x"] == "1", M: m["m"] == "1", PT: atoi(m["pt"]),
		Seq: atoi(m["seq"]), TS: atoi(m["ts"]), SSRC: atoi(m["ssrc"]), Prof: atoi(m["prof"]), Pad: atoi(m["pad"])}
	for _, k := range []string{"p", "x", "m"} {
		if m[k] != "0" && m[k] != "1" {
			return p, false
		}
	}
	h.CC = parseInts(m["cc"])
	if h.V != 2 || h.PT < 0 || h.PT > 127 || h.Seq < 0 || h.Seq > 65535 || h.TS < 0 || h.TS > 0xFFFFFFFF ||
		h.SSRC < 0 || h.SSRC > 0xFFFFFFFF || len(h.CC) > 15 || h.Pad < 0 || h.Pad > 255 ||
		(h.Prof != 0 && h.Prof != 0xBEDE && h.Prof != 0x1000) {
		return p, false
	}
	for _, c := range h.CC {
		if c < 0 || c > 0xFFFFFFFF {
			return p, false
		}
	}
	if m["ext"] != "-" {
		seen := map[int]bool{}
		for _, e := range strings.Split(m["ext"], ";") {
			kvp := strings.SplitN(e, ":", 2)
			if len(kvp) != 2 {
				return p, false
			}
			id := atoi(kvp[0])
			b, good := unhex(kvp[1])
			if !good || seen[id] || id < 1 || id > 255 {
				return p, false
			}
			if h.Prof == 0xBEDE && (id > 14 || len(b) < 1 || len(b) > 16) {
				return p, false
			}
			if h.Prof == 0x1000 && len(b) > 255 {
				return p, false
			}
			seen[id] = true
			h.Ext = append(h.Ext, extElem{ID: id, Payload: b})
		}
	}
	// canonical headers only: the extension bit is set exactly when a profile is given
	if h.X != (h.Prof != 0) || (!h.X && len(h.Ext) != 0) || (h.P != (h.Pad != 0)) {
		return p, false
	}
	pl, good := unhex(m["pl"])
	if !good || len(pl) > 1400 {
		return p, false
	}
	p.h, p.pl = h, pl
	if at, have := m["at"]; have && at != "-" {
		for _, e := range strings.Split(at, ",") {
			kvp := strings.SplitN(e, ":", 2)
			if len(kvp) != 2 {
				return p, false
			}
			k, v := atoi(kvp[0]), atoi(kvp[1])
			if k < 0 || k > 200 || v < 0 || v > 1000000 || (len(p.at) > 0 && k <= p.at[len(p.at)-1][0]) {
				return p, false
			}
			p.at = append(p.at, [2]int{k, v})
		}
	}
	return p, true
}

// build puts the header into dst; in reuse mode every slice-typed field of the header lives in
// the caller's long-lived backing arrays.
func (e *c13Env) build(dst *rtp.Header, h hdrShape, reuse bool) {
	ext := dst.Extensions[:0]
	*dst = rtp.Header{Version: uint8(h.V), Padding: h.P, Marker: h.M, PayloadType: uint8(h.PT),
		SequenceNumber: uint16(h.Seq), Timestamp: uint32(h.TS), SSRC: uint32(h.SSRC),
		ExtensionProfile: uint16(h.Prof), PaddingSize: byte(h.Pad)}
	if len(h.CC) > 0 {
		if reuse {
			dst.CSRC = e.csrc[:len(h.CC)]
		} else {
			dst.CSRC = make([]uint32, len(h.CC))
		}
		for i, c := range h.CC {
			dst.CSRC[i] = uint32(c)
		}
	}
	if h.X {
		dst.Extension = true
		if reuse {
			dst.Extensions = ext
		}
		off := 0
		for _, x := range h.Ext {
			var p []byte
			if reuse {
				p = e.extBuf[off : off+len(x.Payload) : off+len(x.Payload)]
				off += len(x.Payload)
			} else {
				p = make([]byte, len(x.Payload))
			}
			copy(p, x.Payload)
			if err := dst.SetExtension(uint8(x.ID), p); err != nil {
				panic("setext: " + err.Error())
			}
		}
	}
}

func (e *c13Env) scribbleHeader(h *rtp.Header) {
	for i := range e.extBuf {
		e.extBuf[i] = 0xEE
	}
	for i := range e.csrc {
		e.csrc[i] = 0xEEEEEEEE
	}
	h.SequenceNumber ^= 0x5555
	h.Timestamp ^= 0x55555555
	h.SSRC ^= 0x55555555
	h.Marker = !h.Marker
	h.PayloadType ^= 0x55
}

func (e *c13Env) scribbleAttrs() {
	clear(e.attrs)
	e.attrs[0xEE] = 0xEE
}

func c13Fill(b []byte) {
	for i := range b {
		b[i] = 0xEE
	}
}

func c13Err(err error) string {
	switch {
	case err == nil:
		return "nil"
	case strings.Contains(err.Error(), "buffering"):
		return "buffering"
	case strings.Contains(err.Error(), "pacer closed"):
		return "closed"
	case strings.Contains(err.Error(), "overflow"):
		return "overflow"
	case strings.Contains(err.Error(), "short buffer"):
		return "short"
	default:
		return "other"
	}
}

// release lets the formatter callbacks of the packet dumper proceed: the caller has finished
// overwriting its memory.
func (e *c13Env) release() {
	if e.gating {
		e.gate <- struct{}{}
	}
}

func c13SmallRTCP(kind string, a, b int) rtcp.Packet {
	switch kind {
	case "pli":
		return &rtcp.PictureLossIndication{SenderSSRC: uint32(a), MediaSSRC: uint32(b)}
	case "nack":
		return &rtcp.TransportLayerNack{SenderSSRC: uint32(a), MediaSSRC: c13SSRC,
			Nacks: []rtcp.NackPair{{PacketID: uint16(b), LostPackets: rtcp.PacketBitmap(a)}}}
	case "rr":
		return &rtcp.ReceiverReport{SSRC: uint32(a), Reports: []rtcp.ReceptionReport{{SSRC: c13SSRC,
			LastSequenceNumber: uint32(b), TotalLost: uint32(a % 1000), Jitter: uint32(b % 777)}}}
	}
	return nil
}

func runScribble(t *testing.T, ops []string, o *Out) {
	synctest.Test(t, func(t *testing.T) {
		e := &c13Env{o: o, hdr: &rtp.Header{}, extArr: make([]rtp.Extension, 0, 16), extBuf: make([]byte, 4096),
			pay: make([]byte, 1500), rbuf: make([]byte, 1500), attrs: interceptor.Attributes{},
			pkts: make([]rtcp.Packet, 4), gate: make(chan struct{}, 64)}
		e.hdr.Extensions = e.extArr
		e.main = c13Goid()
		var (
			ic       interceptor.Interceptor
			pacer    *gcc.LeakyBucketPacer
			statsIC  *stats.Interceptor
			icName   string
			w        interceptor.RTPWriter
			rd       interceptor.RTPReader
			cr       interceptor.RTCPReader
			cw       interceptor.RTCPWriter
			wire     []byte // what the bottom readers deliver next
			closed   bool
			closeAll = func() {
				if closed {
					return
				}
				closed = true
				if ic != nil {
					_ = ic.Close()
				}
				if pacer != nil {
					_ = pacer.Close()
				}
				synctest.Wait()
			}
		)
		defer closeAll()
		bottomRTP := interceptor.RTPReaderFunc(func(b []byte, a interceptor.Attributes) (int, interceptor.Attributes, error) {
			return copy(b, wire), a, nil
		})
		bottomRTCP := interceptor.RTCPReaderFunc(func(b []byte, a interceptor.Attributes) (int, interceptor.Attributes, error) {
			return copy(b, wire), a, nil
		})
		// one RTCP read with a caller-owned buffer and attributes map
		rtcpRead := func(data []byte) (interceptor.Attributes, error) {
			wire = data
			buf, at := make([]byte, 1500), interceptor.Attributes{}
			if e.reuse {
				buf, at = e.rbuf, e.attrs
				clear(at)
			}
			_, attr, err := cr.Read(buf, at)
			var reps []string
			if attr != nil {
				if rep, ok := attr.Get(rtpfb.CCFBAttributesKey).(rtpfb.Report); ok {
					for _, pr := range rep.PacketReports {
						reps = append(reps, fmt.Sprintf("rep ssrc=%d seq=%d size=%d arrived=%d", pr.SSRC,
							pr.RTPSequenceNumber, pr.Size, b2i(pr.Arrived)))
					}
				}
			}
			if e.reuse {
				c13Fill(e.rbuf)
				e.scribbleAttrs()
			}
			e.release()
			for _, l := range reps {
				e.emit("%s", l)
			}
			return attr, err
		}
		for _, op := range ops {
			name, m := kv(op)
			for len(e.gate) > 0 {
				<-e.gate
			}
			if name != "new" && (icName == "" || closed || !strings.Contains(c13Supported[icName], " "+name+" ")) {
				o.P("bad-op")
				continue
			}
			switch name {
			case "new":
				if icName != "" || (m["mode"] != "fresh" && m["mode"] != "reuse") {
					o.P("bad-op")
					continue
				}
				e.reuse = m["mode"] == "reuse"
				info := &interceptor.StreamInfo{SSRC: c13SSRC, ClockRate: 90000,
					RTCPFeedback: []interceptor.RTCPFeedback{{Type: "nack"}}}
				var fac interceptor.Factory
				var err error
				switch m["ic"] {
				case "responder":
					size, ok1 := c17NatOK(m, "size", 32768)
					rtx, ok2 := c17NatOK(m, "rtx", 1)
					if !ok1 || !ok2 || size == 0 || size&(size-1) != 0 {
						o.P("bad-op")
						continue
					}
					if rtx == 1 {
						info.SSRCRetransmission, info.PayloadTypeRetransmission = c13RtxSSRC, c13RtxPT
					}
					fac, err = nack.NewResponderInterceptor(nack.ResponderSize(uint16(size)))
				case "flexfec":
					n, ok1 := c17NatOK(m, "n", 20)
					f, ok2 := c17NatOK(m, "f", 20)
					if !ok1 || !ok2 || n < 1 {
						o.P("bad-op")
						continue
					}
					info.PayloadTypeForwardErrorCorrection, info.SSRCForwardErrorCorrection = 49, 7777
					fac, err = flexfec.NewFecInterceptor(flexfec.NumMediaPackets(uint32(n)), flexfec.NumFECPackets(uint32(f)))
				case "leaky":
					pacer = gcc.NewLeakyBucketPacer(1_000_000_000)
				case "pacing":
					fac = pacing.NewInterceptor(pacing.InitialRate(1_000_000_000), pacing.Interval(5*time.Millisecond))
				case "pdsend", "pdrecv":
					e.dump = &c13Sink{}
					e.gating = true
					opts := []packetdump.PacketDumperOption{
						packetdump.RTPWriter(e.dump), packetdump.RTCPWriter(e.dump),
						packetdump.RTPFormatter(func(p *rtp.Packet, a interceptor.Attributes) string {
							<-e.gate
							return fmt.Sprintf("rtp hdr=%s pad=%d pl=%s at=%s\n", c13HdrHex(&p.Header, false), p.Header.PaddingSize,
								hexs(p.Payload), c13Attrs(a))
						}),
						packetdump.RTCPFormatter(func(ps []rtcp.Packet, a interceptor.Attributes) string {
							<-e.gate
							var parts []string
							for _, p := range ps {
								parts = append(parts, strings.ReplaceAll(c13RTCPLine(p), " ", "_"))
							}
							return fmt.Sprintf("rtcp n=%d %s at=%s\n", len(ps), strings.Join(parts, "|"), c13Attrs(a))
						}),
					}
					if m["ic"] == "pdsend" {
						fac, err = packetdump.NewSenderInterceptor(opts...)
					} else {
						fac, err = packetdump.NewReceiverInterceptor(opts...)
					}
				case "stats":
					fac, err = stats.NewInterceptor()
				case "jitter":
					fac, err = jitterbuffer.NewInterceptor()
				case "twccsend":
					info.RTPHeaderExtensions = []interceptor.RTPHeaderExtension{{URI: c13TwccURI, ID: c13TwccID}}
					fac, err = twcc.NewSenderInterceptor(twcc.SendInterval(100 * time.Millisecond))
				case "rtpfb":
					fac, err = rtpfb.NewInterceptor()
				case "sr":
					fac, err = report.NewSenderInterceptor(report.SenderInterval(time.Second))
				case "rr":
					fac, err = report.NewReceiverInterceptor(report.ReceiverInterval(time.Second))
				default:
					o.P("bad-op")
					continue
				}
				if err != nil {
					panic(err)
				}
				icName = m["ic"]
				if fac != nil {
					if ic, err = fac.NewInterceptor("x"); err != nil {
						panic(err)
					}
					if s, ok := ic.(*stats.Interceptor); ok {
						statsIC = s
					}
					cw = ic.BindRTCPWriter(e.rtcpWriter())
					cr = ic.BindRTCPReader(bottomRTCP)
					w = ic.BindLocalStream(info, e.rtpWriter())
					rd = ic.BindRemoteStream(info, bottomRTP)
				} else {
					pacer.AddStream(c13SSRC, e.rtpWriter())
					w = pacer
				}
				synctest.Wait()
			case "w":
				p, ok := c13ParsePkt(m)
				if !ok || w == nil {
					o.P("bad-op")
					continue
				}
				var h *rtp.Header
				var pay []byte
				var at interceptor.Attributes
				if e.reuse {
					h, pay, at = e.hdr, e.pay[:len(p.pl)], e.attrs
					clear(at)
				} else {
					h, pay, at = &rtp.Header{}, make([]byte, len(p.pl)), interceptor.Attributes{}
				}
				e.build(h, p.h, e.reuse)
				copy(pay, p.pl)
				for _, kvp := range p.at {
					at[kvp[0]] = kvp[1]
				}
				hsnap, _ := h.Marshal()
				hpad := h.PaddingSize
				n, err := w.Write(h, pay, at)
				pmod := !bytes.Equal(pay, p.pl)
				hnow, _ := h.Marshal()
				hmod := !bytes.Equal(hsnap, hnow) || hpad != h.PaddingSize
				if e.reuse {
					c13Fill(e.pay)
					e.scribbleHeader(h)
					e.scribbleAttrs()
				}
				e.release()
				e.emit("w n=%d err=%s pmod=%d hmod=%d", n, c13Err(err), b2i(pmod), b2i(hmod))
			case "r":
				p, ok := c13ParsePkt(m)
				if !ok || rd == nil || p.h.P {
					o.P("bad-op")
					continue
				}
				fh := &rtp.Header{}
				e.build(fh, p.h, false)
				var err error
				wire, err = (&rtp.Packet{Header: *fh, Payload: p.pl}).Marshal()
				if err != nil {
					o.P("bad-op")
					continue
				}
				buf, at := make([]byte, 1500), interceptor.Attributes{}
				if e.reuse {
					buf, at = e.rbuf, e.attrs
					clear(at)
				}
				n, _, err := rd.Read(buf, at)
				got := "-"
				if n >= 0 && n <= len(buf) && (err == nil) {
					got = hexs(buf[:n])
				}
				if e.reuse {
					c13Fill(e.rbuf)
					e.scribbleAttrs()
				}
				e.release()
				e.emit("r n=%d err=%s b=%s", n, c13Err(err), got)
			case "nack":
				var pairs []rtcp.NackPair
				good := cr != nil && m["pairs"] != ""
				for _, s := range strings.Split(m["pairs"], ",") {
					kvp := strings.SplitN(s, ":", 2)
					if len(kvp) != 2 {
						good = false
						break
					}
					a, ok1 := c17NatOK(map[string]string{"x": kvp[0]}, "x", 65535)
					b, ok2 := c17NatOK(map[string]string{"x": kvp[1]}, "x", 65535)
					if !ok1 || !ok2 {
						good = false
						break
					}
					pairs = append(pairs, rtcp.NackPair{PacketID: uint16(a), LostPackets: rtcp.PacketBitmap(b)})
				}
				if !good || len(pairs) > 8 {
					o.P("bad-op")
					continue
				}
				data, err := (&rtcp.TransportLayerNack{SenderSSRC: 1, MediaSSRC: c13SSRC, Nacks: pairs}).Marshal()
				if err != nil {
					panic(err)
				}
				_, err = rtcpRead(data)
				e.emit("cr err=%s", c13Err(err))
			case "ack":
				ssrc, ok1 := c17NatOK(m, "ssrc", 0xFFFFFFFF)
				begin, ok2 := c17NatOK(m, "begin", 65535)
				recv := []int{}
				ok3 := true
				func() {
					defer func() {
						if recover() != nil {
							ok3 = false
						}
					}()
					recv = parseInts(m["recv"])
				}()
				if !ok1 || !ok2 || !ok3 || len(recv) == 0 || len(recv) > 64 || cr == nil {
					o.P("bad-op")
					continue
				}
				blocks := make([]rtcp.CCFeedbackMetricBlock, len(recv))
				for i, b := range recv {
					if b != 0 && b != 1 {
						ok3 = false
					}
					blocks[i] = rtcp.CCFeedbackMetricBlock{Received: b == 1, ECN: rtcp.ECNNonECT, ArrivalTimeOffset: uint16(i % 8)}
				}
				if !ok3 {
					o.P("bad-op")
					continue
				}
				data, err := (&rtcp.CCFeedbackReport{SenderSSRC: 1, ReportTimestamp: 1 << 16,
					ReportBlocks: []rtcp.CCFeedbackReportBlock{{MediaSSRC: uint32(ssrc), BeginSequence: uint16(begin), MetricBlocks: blocks}}}).Marshal()
				if err != nil {
					panic(err)
				}
				_, err = rtcpRead(data)
				e.emit("cr err=%s", c13Err(err))
			case "cr", "cw":
				a, ok1 := c17NatOK(m, "a", 0xFFFFFFFF)
				b, ok2 := c17NatOK(m, "b", 0xFFFFFFFF)
				pk := c13SmallRTCP(m["kind"], a, b)
				if !ok1 || !ok2 || pk == nil || cr == nil {
					o.P("bad-op")
					continue
				}
				if name == "cr" {
					data, err := pk.Marshal()
					if err != nil {
						panic(err)
					}
					_, err = rtcpRead(data)
					e.emit("cr err=%s", c13Err(err))
				} else {
					pkts, at := []rtcp.Packet{pk}, interceptor.Attributes{}
					if e.reuse {
						pkts, at = e.pkts[:1], e.attrs
						pkts[0] = pk
						clear(at)
					}
					at[7] = a % 1000
					_, err := cw.Write(pkts, at)
					if e.reuse {
						for i := range e.pkts {
							e.pkts[i] = &rtcp.PictureLossIndication{SenderSSRC: 0xEEEEEEEE, MediaSSRC: 0xEEEEEEEE}
						}
						e.scribbleAttrs()
					}
					e.release()
					e.emit("cw err=%s", c13Err(err))
				}
			case "adv":
				d, ok := c17NatOK(m, "us", 60_000_000)
				if !ok {
					o.P("bad-op")
					continue
				}
				time.Sleep(time.Duration(d) * time.Microsecond)
			case "get":
				if statsIC == nil {
					o.P("bad-op")
					continue
				}
				s := statsIC.Get(c13SSRC)
				if s == nil {
					e.emit("stats nil")
				} else {
					e.emit("stats out=%d,%d,%d in=%d,%d,%d", s.OutboundRTPStreamStats.PacketsSent, s.OutboundRTPStreamStats.BytesSent,
						s.OutboundRTPStreamStats.HeaderBytesSent, s.InboundRTPStreamStats.PacketsReceived,
						s.InboundRTPStreamStats.BytesReceived, s.InboundRTPStreamStats.HeaderBytesReceived)
				}
			case "close":
				closeAll()
			default:
				o.P("bad-op")
				continue
			}
			synctest.Wait()
			e.flush()
		}
	})
}

// ---- generator ----

func c13GenHdr(r *Rng, ssrc, seq, ts int, twcc int) hdrShape {
	h := hdrShape{V: 2, PT: r.Pick(96, 100, 111, r.Intn(128)), Seq: seq & 0xFFFF, TS: ts & 0xFFFFFFFF, SSRC: ssrc, M: r.Chance(1, 4)}
	if r.Chance(1, 3) {
		for i, n := 0, r.Range(1, 4); i < n; i++ {
			h.CC = append(h.CC, int(r.U64()&0xFFFFFFFF))
		}
	}
	kind := r.Intn(3)
	if twcc >= 0 {
		kind = r.Range(1, 2)
	}
	switch kind {
	case 1:
		h.X, h.Prof = true, 0xBEDE
	case 2:
		h.X, h.Prof = true, 0x1000
	}
	if h.X {
		for _, x := range genExtElems(r, h.Prof, r.Range(0, 3), 0) {
			if (h.Prof == 0xBEDE && len(x.Payload) == 0) || x.ID == c13TwccID {
				continue
			}
			h.Ext = append(h.Ext, x)
		}
		if twcc >= 0 {
			x := extElem{ID: c13TwccID, Payload: []byte{byte(twcc >> 8), byte(twcc)}}
			pos := r.Intn(len(h.Ext) + 1)
			h.Ext = append(h.Ext[:pos], append([]extElem{x}, h.Ext[pos:]...)...)
		}
	}
	return h
}

func c13PktOp(op string, h hdrShape, pl []byte, at string) string {
	s := op + " " + h.String() + " pl=" + hexs(pl)
	if at != "" {
		s += " at=" + at
	}
	return s
}

func c13GenPayload(r *Rng, max int) []byte {
	n := r.Intn(20)
	if r.Chance(1, 8) {
		n = r.Pick(0, 1, 2, max)
	}
	if n > max {
		n = max
	}
	p := make([]byte, n)
	for i := range p {
		p[i] = byte(r.U64())
	}
	return p
}

func c13GenAttrs(r *Rng) string {
	if r.Chance(1, 2) {
		return "-"
	}
	var parts []string
	k := 0
	for i, n := 0, r.Range(1, 3); i < n; i++ {
		k += r.Range(1, 20)
		parts = append(parts, fmt.Sprintf("%d:%d", k, r.Intn(1000)))
	}
	return strings.Join(parts, ",")
}

// c13GenOps draws the history of one interceptor (mode-independent).
func c13GenOps(r *Rng, icn string) (params string, ops []string) {
	seq := r.Pick(0, 65520, r.Intn(65536))
	ts := int(r.U64() & 0xFFFFFFFF)
	tw := r.Pick(0, 100, 60000)
	adv := func(lo, hi int) { ops = append(ops, fmt.Sprintf("adv us=%d", r.Range(lo, hi))) }
	media := func(op string, ssrc int, withPad bool, twcc int, maxPl int) {
		h := c13GenHdr(r, ssrc, seq, ts, twcc)
		if withPad && r.Chance(1, 6) {
			h.P, h.Pad = true, r.Range(1, 9)
		}
		at := ""
		if op == "w" {
			at = c13GenAttrs(r)
		}
		ops = append(ops, c13PktOp(op, h, c13GenPayload(r, maxPl), at))
	}
	step := func() {
		seq++
		ts += r.Intn(4000)
	}
	n := r.Range(3, 24)
	switch icn {
	case "responder":
		size := r.Pick(1, 4, 8, 64, 1024)
		params = fmt.Sprintf("size=%d rtx=%d", size, r.Intn(2))
		for i := 0; i < n; i++ {
			switch {
			case r.Chance(1, 12):
				media("w", c13SSRC+1, true, -1, 1200)
			case r.Chance(1, 10): // a late packet (inside or outside the window)
				late := (seq - r.Pick(1, 2, 3, size, size+1, 40)) & 0xFFFF
				h := c13GenHdr(r, c13SSRC, late, ts, -1)
				ops = append(ops, c13PktOp("w", h, c13GenPayload(r, 1200), c13GenAttrs(r)))
			case r.Chance(1, 10):
				seq += r.Range(1, 5)
				fallthrough
			default:
				media("w", c13SSRC, true, -1, 1200)
				step()
			}
			if r.Chance(1, 3) {
				var pairs []string
				for j, k := 0, r.Range(1, 3); j < k; j++ {
					pairs = append(pairs, fmt.Sprintf("%d:%d", (seq-r.Range(1, 20))&0xFFFF, r.Pick(0, 1, 3, 0x8001, r.Intn(65536))))
				}
				ops = append(ops, "nack pairs="+strings.Join(pairs, ","))
			}
		}
	case "flexfec":
		nm := r.Range(1, 6)
		params = fmt.Sprintf("n=%d f=%d", nm, r.Range(0, nm))
		for i, k := 0, nm*r.Range(1, 4)+r.Intn(nm); i < k; i++ {
			if r.Chance(1, 10) {
				media("w", c13SSRC+1, false, -1, 60)
				continue
			}
			media("w", c13SSRC, false, -1, 60)
			step()
		}
	case "leaky", "pacing":
		for i := 0; i < n; i++ {
			for j, k := 0, r.Range(1, 4); j < k; j++ {
				media("w", c13SSRC, true, -1, 1200)
				step()
			}
			if r.Chance(2, 3) {
				adv(0, 12000)
			}
		}
		adv(5000, 20000)
	case "pdsend":
		for i := 0; i < n; i++ {
			if r.Chance(1, 4) {
				ops = append(ops, fmt.Sprintf("cw kind=%s a=%d b=%d", []string{"pli", "nack", "rr"}[r.Intn(3)], r.Intn(1<<20), r.Intn(65536)))
				continue
			}
			media("w", r.Pick(c13SSRC, c13SSRC+1), true, -1, 200)
			step()
		}
	case "pdrecv":
		for i := 0; i < n; i++ {
			if r.Chance(1, 4) {
				ops = append(ops, fmt.Sprintf("cr kind=%s a=%d b=%d", []string{"pli", "nack", "rr"}[r.Intn(3)], r.Intn(1<<20), r.Intn(65536)))
				continue
			}
			media("r", r.Pick(c13SSRC, c13SSRC+1), false, -1, 200)
			step()
		}
	case "stats":
		for i := 0; i < n; i++ {
			switch r.Intn(5) {
			case 0:
				ops = append(ops, "get")
			case 1, 2:
				media("w", r.Pick(c13SSRC, c13SSRC, c13SSRC+1), true, -1, 300)
				step()
			default:
				media("r", r.Pick(c13SSRC, c13SSRC, c13SSRC+1), false, -1, 300)
				step()
			}
		}
		ops = append(ops, "get")
	case "jitter":
		for i, k := 0, r.Range(45, 75); i < k; i++ {
			if r.Chance(1, 10) {
				seq += r.Range(1, 3)
			}
			if r.Chance(1, 12) {
				seq -= r.Range(1, 3)
			}
			media("r", c13SSRC, false, -1, 40)
			step()
		}
	case "twccsend":
		for i := 0; i < n; i++ {
			for j, k := 0, r.Range(1, 4); j < k; j++ {
				media("r", c13SSRC, false, tw&0xFFFF, 40)
				tw += r.Range(1, 3)
				step()
			}
			if r.Chance(1, 2) {
				adv(1000, 30000)
			} else {
				adv(100000, 130000)
			}
		}
		adv(100000, 100000)
	case "rtpfb":
		first := seq
		for i := 0; i < n; i++ {
			media("w", c13SSRC, true, -1, 300)
			step()
			if r.Chance(1, 4) {
				cnt := r.Range(1, 6)
				var bits []int
				for j := 0; j < cnt; j++ {
					bits = append(bits, r.Pick(1, 1, 0))
				}
				begin := first + r.Intn(seq-first+1)
				ops = append(ops, fmt.Sprintf("ack ssrc=%d begin=%d recv=%s", r.Pick(c13SSRC, c13SSRC, c13SSRC+1), begin&0xFFFF, joinInts(bits)))
				adv(1000, 20000)
			}
		}
		ops = append(ops, fmt.Sprintf("ack ssrc=%d begin=%d recv=1,1,1", c13SSRC, first&0xFFFF))
	case "sr":
		for i := 0; i < n; i++ {
			media("w", c13SSRC, true, -1, 300)
			step()
			if r.Chance(1, 3) {
				adv(100000, 900000)
			}
		}
		adv(1000000, 1000000)
	case "rr":
		for i := 0; i < n; i++ {
			if r.Chance(1, 8) {
				seq += r.Range(1, 4)
			}
			media("r", c13SSRC, false, -1, 300)
			step()
			if r.Chance(1, 3) {
				adv(100000, 900000)
			}
		}
		adv(1000000, 1000000)
	}
	ops = append(ops, "close")
	return params, ops
}

func genScribble(r *Rng, tier string, idx int) Case {
	// both members of a pair draw from the same stream: (seed, pair index)
	pair := idx / 2
	mode := []string{"fresh", "reuse"}[idx%2]
	rr := NewRng(mixSeed(*fSeed^0xC13C13, uint64(pair)))
	icn := c13ICs[pair%len(c13ICs)]
	params, ops := c13GenOps(rr, icn)
	first := fmt.Sprintf("new ic=%s mode=%s", icn, mode)
	if params != "" {
		first += " " + params
	}
	return Case{ID: fmt.Sprintf("s%d-%d-%s", *fSeed, pair, mode), Class: icn + ":" + mode, Ops: append([]string{first}, ops...)}
}

func init() {
	register("scribble", &Comp{N: c17N(720, 60000), Gen: genScribble, Run: runScribble})
	_ = hex.EncodeToString
}

package corr

// C17 — pacers: components `pacing` (pkg/pacing token-bucket interceptor) and `leaky`
// (gcc.LeakyBucketPacer).  Both run inside a testing/synctest bubble, so their tickers run on
// the virtual clock and every delivery instant is reproducible.
//
// ops (pacing):  new rate=<bit/s> ivl=<µs> | bind s=<k> | w s=<k> ssrc= seq= cc= xp= xl= pl= [nw=1]
//                | setrate r=<bit/s> | adv us=<µs> | close
//                | hook after=<k> r=<bit/s>   (pacing only) the NEXT WRITER changes the rate: from inside its k-th
//                  hand-over from now on (counted over all streams) it calls InterceptorFactory.SetRate(r) — re-entrantly,
//                  on the pacer's own goroutine, possibly while one tick is still draining a backlog.  Prints
//                  `hook t=<µs> r=<r>` after the `d` line of that hand-over.
// ops (leaky):   new rate=<bit/s> | bind s=<ssrc> | w ssrc= seq= cc= xp= xl= pl= [nw=1]
//                | setrate r= | adv us= | close
//                re-entrancy (leaky; "the transport below is synchronous"): `w … re=1` marks a packet; the `bind … in=1`
//                and `w … in=1` ops that follow are NOT performed by the application goroutine but by the NEXT WRITER of the
//                marked packet, from inside the call that hands it over (on the pacer's goroutine, in the middle of a tick's
//                drain): it registers a stream (AddStream) / writes a packet through the pacer it is being called by.  The
//                model executes the ops in sequence; the two are the same history when the marked packet is handed over in
//                the `adv` that follows the nested ops and nothing handed over before it in that `adv` belongs to a nested
//                bind's SSRC (the generator sees to both; the interpreter finds out by a rehearsal of the case in sequence
//                on an object of its own, and nests only then - so cut-down cases stay meaningful).  Any other op between
//                the nested ops and the `adv`, or the end of the case, performs them in sequence instead.  The model
//                driver ignores `re=` and `in=`.  `REENTER-UNREACHED` (a line no model prints): the rehearsal saw the
//                marked packet handed over, the run itself did not.
// observables:   `w n=<n> err=<class>` for every Write (after Close: `w post-close`, the select in
//                the pacing interceptor picks at random between accepting and errPacerClosed),
//                `d t=<µs since case start> s=<stream> seq=<seq> h=<header digest> p=<payload digest>`
//                for every packet that reaches a bottom writer, in order.
//
// The rate bound, evaluated on the REAL trace of every pacing case (c17Env): C17 says "cumulative bits released never
// exceed burst + rate x elapsed".  Across rate changes the bound is piecewise: for every regime c — the start of the
// case and every SetRate, at time t_c, to rate r_c, with burst b_c = burst(r_c, interval) = max(12000, r_c/(1000/ms)) —
// and every later instant t,
//
//	bits handed to the next writers in (t_c, t]  <=  b_c + SUM over the regimes j from c on of r_j x (time spent in j up to t)
//
// (a hand-over from inside which SetRate is called counts for the regimes before the change only).  This is
// `envelope_run` of Props/C17.lean started at the state a SetRate leaves (tokens <= b_c as seen by every later
// operation: `advance_cap`); the theorem is about the exact bucket, the real one computes in binary64, so the check
// allows 1 bit.  A violation prints `ENVELOPE-VIOLATED …`, a line no model prints.

import (
	"errors"
	"fmt"
	"math/big"
	"sort"
	"strings"
	"sync"
	"testing"
	"testing/synctest"
	"time"

	"github.com/pion/interceptor"
	"github.com/pion/interceptor/pkg/gcc"
	"github.com/pion/interceptor/pkg/pacing"
	"github.com/pion/rtp"
)

type c17Shape struct {
	ssrc, seq, cc, xp, pl int
	xl                    []int
}

func fnv(h uint32, bs ...byte) uint32 {
	for _, b := range bs {
		h ^= uint32(b)
		h *= 16777619
	}
	return h
}

const fnvInit = 2166136261

func be32(x uint32) []byte { return []byte{byte(x >> 24), byte(x >> 16), byte(x >> 8), byte(x)} }

// c17Build makes the header and payload an op line describes (all content is a function of the
// op's parameters, so the Lean driver can predict the digests).
func c17Build(s c17Shape) (*rtp.Header, []byte, bool) {
	h := &rtp.Header{
		Version:        2,
		Marker:         s.seq%2 == 1,
		PayloadType:    96,
		SequenceNumber: uint16(s.seq),
		Timestamp:      uint32(s.seq) * 3000,
		SSRC:           uint32(s.ssrc),
	}
	for i := 0; i < s.cc; i++ {
		h.CSRC = append(h.CSRC, uint32(s.ssrc)+uint32(i)+1)
	}
	if s.xp != 0 {
		h.Extension = true
		if s.xp == 1 {
			h.ExtensionProfile = rtp.ExtensionProfileOneByte
		} else {
			h.ExtensionProfile = rtp.ExtensionProfileTwoByte
		}
		for j, l := range s.xl {
			p := make([]byte, l)
			for k := range p {
				p[k] = byte(s.seq + 7*j + k)
			}
			if err := h.SetExtension(uint8(j+1), p); err != nil {
				return nil, nil, false
			}
		}
	} else if len(s.xl) != 0 {
		return nil, nil, false
	}
	pay := make([]byte, s.pl)
	for k := range pay {
		pay[k] = byte(s.seq*13 + s.ssrc + k*31)
	}
	return h, pay, true
}

// c17HdrDigest hashes the fields of a header as the next writer sees them.
func c17HdrDigest(h *rtp.Header) uint32 {
	b2i := func(b bool) byte {
		if b {
			return 1
		}
		return 0
	}
	d := fnv(fnvInit, h.Version, b2i(h.Padding), b2i(h.Extension), b2i(h.Marker), h.PayloadType,
		byte(h.SequenceNumber>>8), byte(h.SequenceNumber))
	d = fnv(d, be32(h.Timestamp)...)
	d = fnv(d, be32(h.SSRC)...)
	d = fnv(d, byte(len(h.CSRC)))
	for _, c := range h.CSRC {
		d = fnv(d, be32(c)...)
	}
	d = fnv(d, byte(h.ExtensionProfile>>8), byte(h.ExtensionProfile))
	ids := h.GetExtensionIDs()
	d = fnv(d, byte(len(ids)))
	for _, id := range ids {
		p := h.GetExtension(id)
		d = fnv(d, id, byte(len(p)))
		d = fnv(d, p...)
	}
	return d
}

// c17Scribble overwrites everything the caller still owns after Write returned.
func c17Scribble(h *rtp.Header, pay []byte) {
	for i := range pay {
		pay[i] ^= 0xA5
	}
	for i := range h.CSRC {
		h.CSRC[i] ^= 0xFFFF
	}
	for _, id := range h.GetExtensionIDs() {
		p := h.GetExtension(id)
		for i := range p {
			p[i] ^= 0x5A
		}
	}
	h.SequenceNumber ^= 0x5555
	h.Timestamp ^= 0x5555
	h.Marker = !h.Marker
}

func c17ParseShape(m map[string]string) (s c17Shape, ok bool) {
	defer func() {
		if recover() != nil {
			ok = false
		}
	}()
	for _, k := range []string{"ssrc", "seq", "cc", "xp", "xl", "pl"} {
		if _, have := m[k]; !have {
			return s, false
		}
	}
	s.ssrc, s.seq, s.cc, s.xp, s.pl = atoi(m["ssrc"]), atoi(m["seq"]), atoi(m["cc"]), atoi(m["xp"]), atoi(m["pl"])
	s.xl = parseInts(m["xl"])
	if s.ssrc < 0 || s.ssrc >= 1<<32 || s.seq < 0 || s.seq > 65535 || s.cc < 0 || s.cc > 15 ||
		s.xp < 0 || s.xp > 2 || s.pl < 0 || s.pl > 4000 || len(s.xl) > 14 {
		return s, false
	}
	for _, l := range s.xl {
		if l < 0 || (s.xp == 1 && (l < 1 || l > 16)) || l > 255 {
			return s, false
		}
	}
	if s.xp == 0 && len(s.xl) != 0 {
		return s, false
	}
	return s, true
}

type c17Ent struct {
	stream, seq int
	line        string // timed canonical line
	body        string // "s=… seq=… h=… p=…" without the time
}

type c17Rec struct {
	mu    sync.Mutex
	start time.Time
	lines []string
	ents  []c17Ent // the same deliveries, structured (used by the concurrent-writer block)
	// after (pacing only) is called, still inside the next writer, for every hand-over: the rate bound of the case and
	// the armed hook; the lines it returns follow the `d` line
	after func(bytes int) []string
	// which error a failing next-writer call returns (per case), and how many have failed
	errKinds []string
	nFail    int64
	// enter (leaky only) is called inside the next writer at every hand-over, after the `d` line was recorded:
	// the re-entrant calls of the case are made from here
	enter func(stream, seq int)
}

// c17Regime: one start point of the piecewise rate bound.
type c17Regime struct {
	t0  time.Duration // since the start of the case
	acc *big.Int      // burst + rate x elapsed booked up to c17Env.tcur, in 1e-9 bit
	rel int64         // bits handed over since t0
}

// c17Env evaluates the rate bound on the real trace and carries the armed hook.
type c17Env struct {
	start     time.Time
	ivlUs     int
	rate      int
	tcur      time.Time
	regs      []*c17Regime
	fac       *pacing.InterceptorFactory
	hookAfter int // > 0: armed
	hookRate  int
}

var c17Giga = big.NewInt(1_000_000_000)

// c17Burst is burst(rate, interval) of pkg/pacing.
func c17Burst(rate, ivlUs int) int {
	ms := ivlUs / 1000
	if ms == 0 {
		ms = 1
	}
	return max(8*1500, int(float64(rate)/float64(1000/ms)))
}

func (e *c17Env) book(now time.Time) {
	d := new(big.Int).Mul(big.NewInt(int64(e.rate)), big.NewInt(now.Sub(e.tcur).Nanoseconds()))
	for _, g := range e.regs {
		g.acc.Add(g.acc, d)
	}
	e.tcur = now
}

// change: the rate is `rate` from `now` on (also the start of the case).
func (e *c17Env) change(now time.Time, rate int) {
	if e.regs != nil {
		e.book(now)
	}
	e.tcur, e.rate = now, rate
	b := new(big.Int).Mul(big.NewInt(int64(c17Burst(rate, e.ivlUs))), c17Giga)
	e.regs = append(e.regs, &c17Regime{t0: now.Sub(e.start), acc: b})
}

// handOver: `bytes` reach a next writer now.
func (e *c17Env) handOver(bytes int) (lines []string) {
	if e.regs == nil {
		return nil
	}
	now := time.Now()
	e.book(now)
	for _, g := range e.regs {
		g.rel += 8 * int64(bytes)
		lhs := new(big.Int).Mul(big.NewInt(g.rel), c17Giga)
		rhs := new(big.Int).Add(g.acc, c17Giga) // 1 bit for the binary64 arithmetic of the real bucket
		if lhs.Cmp(rhs) > 0 {
			lines = append(lines, fmt.Sprintf("ENVELOPE-VIOLATED t=%d since=%d released=%d bound=%s", now.Sub(e.start).Microseconds(),
				g.t0.Microseconds(), g.rel, new(big.Int).Div(g.acc, c17Giga)))
			break
		}
	}
	if e.hookAfter > 0 {
		e.hookAfter--
		if e.hookAfter == 0 {
			e.fac.SetRate("x", e.hookRate) // re-entrant: we are inside the pacer's call of the next writer
			e.change(now, e.hookRate)
			lines = append(lines, fmt.Sprintf("hook t=%d r=%d", now.Sub(e.start).Microseconds(), e.hookRate))
		}
	}
	return lines
}

func (r *c17Rec) writer(stream int) interceptor.RTPWriter { return r.writerG(stream, 0, nil) }

// writerG makes a NEW next-writer instance for a stream: gen identifies the instance (0 = first
// bind, 1 = first re-bind …; printed as ` w=<gen>` when > 0), fail (optional) is asked at every
// call whether this call returns an error.
func (r *c17Rec) writerG(stream, gen int, fail func() bool) interceptor.RTPWriter {
	return interceptor.RTPWriterFunc(func(h *rtp.Header, p []byte, _ interceptor.Attributes) (int, error) {
		r.mu.Lock()
		defer r.mu.Unlock()
		failed := fail != nil && fail()
		body := fmt.Sprintf("s=%d seq=%d h=%08x p=%08x", stream, h.SequenceNumber, c17HdrDigest(h), fnv(fnvInit, p...))
		if gen > 0 {
			body += fmt.Sprintf(" w=%d", gen)
		}
		tag := "d"
		if failed {
			tag = "df"
		}
		line := fmt.Sprintf("%s t=%d %s", tag, time.Since(r.start).Microseconds(), body)
		r.lines = append(r.lines, line)
		r.ents = append(r.ents, c17Ent{stream: stream, seq: int(h.SequenceNumber), line: line, body: body})
		if r.after != nil {
			r.lines = append(r.lines, r.after(h.MarshalSize()+len(p))...)
		}
		if r.enter != nil {
			r.enter(stream, int(h.SequenceNumber))
		}
		if failed {
			// which error: one of the well-known values a transport fails with, chosen per case (ambient_test.go); a
			// pacer keeps releasing the packets behind the failed one whatever the value
			if len(r.errKinds) > 0 {
				r.nFail++
				return 0, AmbErrOf(r.errKinds[int(r.nFail-1)%len(r.errKinds)], r.nFail)
			}
			return 0, errC17Writer
		}
		return h.MarshalSize() + len(p), nil
	})
}

var errC17Writer = errors.New("next writer failed")

// c17ErrKinds derives the case's schedule of error kinds from the text of its ops.
func c17ErrKinds(ops []string) []string {
	h := uint64(14695981039346656037)
	for _, op := range ops {
		for i := 0; i < len(op); i++ {
			h = (h ^ uint64(op[i])) * 1099511628211
		}
	}
	r := NewRng(h)
	if r.Chance(1, 4) {
		return nil // the harness's own value
	}
	return strings.Split(strings.TrimPrefix(ambErrKinds(r), "errs="), ",")
}

func (r *c17Rec) flush(o *Out) {
	r.mu.Lock()
	defer r.mu.Unlock()
	for _, l := range r.lines {
		o.P("%s", l)
	}
	r.lines = nil
	r.ents = nil
}

func c17Err(err error) string {
	switch {
	case err == nil:
		return "nil"
	case strings.Contains(err.Error(), "pacer closed"):
		return "closed"
	case strings.Contains(err.Error(), "overflow"):
		return "overflow"
	default:
		return "other"
	}
}

func c17NatOK(m map[string]string, k string, max int) (v int, ok bool) {
	defer func() {
		if recover() != nil {
			ok = false
		}
	}()
	s, have := m[k]
	if !have || s == "" || len(s) > 12 {
		return 0, false
	}
	v = atoi(s)
	return v, v >= 0 && v <= max
}

func runPacing(t *testing.T, ops []string, o *Out) {
	synctest.Test(t, func(t *testing.T) {
		rec := &c17Rec{start: time.Now(), errKinds: c17ErrKinds(ops)}
		env := &c17Env{start: rec.start}
		rec.after = env.handOver
		var fac *pacing.InterceptorFactory
		var ic interceptor.Interceptor
		writers := map[int]interceptor.RTPWriter{}
		binds := map[int]int{}
		closed := false
		type cwW struct {
			sh c17Shape
			sl int
		}
		var cw map[int][]cwW // non-nil between cwbegin and cwend
		cwDone := false
		defer func() {
			if ic != nil && !closed {
				_ = ic.Close()
			}
		}()
		for _, op := range ops {
			name, m := kv(op)
			if cwDone && name != "close" { // the bucket state after a concurrent block depends on the schedule
				o.P("bad-op")
				continue
			}
			if cw != nil && name != "cww" && name != "cwend" {
				o.P("bad-op")
				continue
			}
			switch name {
			case "cwbegin":
				if ic == nil || closed {
					o.P("bad-op")
					continue
				}
				cw = map[int][]cwW{}
				env.hookAfter = 0 // which hand-over is the k-th depends on the schedule inside the block
			case "cww":
				st, ok := c17NatOK(m, "s", 1000)
				sh, ok2 := c17ParseShape(m)
				sl, ok3 := c17NatOK(m, "sl", 1_000_000)
				if cw == nil || !ok || !ok2 || !ok3 || writers[st] == nil {
					o.P("bad-op")
					continue
				}
				cw[st] = append(cw[st], cwW{sh, sl})
			case "cwend":
				drain, ok := c17NatOK(m, "drain", 600_000_000)
				if cw == nil || !ok {
					o.P("bad-op")
					continue
				}
				synctest.Wait()
				// one real goroutine per stream; the acceptance index is taken under a harness mutex
				// held around the Write call, so it is the order in which the sends reached the queue
				type acc struct {
					stream, seq, n int
					err            string
				}
				var mu sync.Mutex
				var order []acc
				results := map[int][]acc{}
				var wg sync.WaitGroup
				streams := []int{}
				for st := range cw {
					streams = append(streams, st)
				}
				sort.Ints(streams)
				for _, st := range streams {
					wg.Add(1)
					go func(st int, ws []cwW, w interceptor.RTPWriter) {
						defer wg.Done()
						for _, x := range ws {
							if x.sl > 0 {
								time.Sleep(time.Duration(x.sl) * time.Microsecond)
							}
							h, pay, _ := c17Build(x.sh)
							mu.Lock()
							n, err := w.Write(h, pay, interceptor.Attributes{})
							a := acc{st, x.sh.seq, n, c17Err(err)}
							if err == nil {
								order = append(order, a)
							}
							results[st] = append(results[st], a)
							mu.Unlock()
							c17Scribble(h, pay)
						}
					}(st, cw[st], writers[st])
				}
				wg.Wait()
				time.Sleep(time.Duration(drain) * time.Microsecond)
				synctest.Wait()
				inBlock := map[[2]int]bool{}
				for _, a := range order {
					inBlock[[2]int{a.stream, a.seq}] = true
				}
				rec.mu.Lock()
				ents := rec.ents
				for _, l := range rec.lines {
					if strings.HasPrefix(l, "ENVELOPE-VIOLATED") {
						o.P("%s", l)
					}
				}
				rec.ents, rec.lines = nil, nil
				rec.mu.Unlock()
				var blk []c17Ent
				for _, e := range ents {
					if inBlock[[2]int{e.stream, e.seq}] {
						blk = append(blk, e)
					} else {
						o.P("%s", e.line) // left over from before the block: released first, timing unaffected
					}
				}
				for _, st := range streams {
					for _, a := range results[st] {
						o.P("cw s=%d n=%d err=%s", st, a.n, a.err)
					}
				}
				for _, st := range streams {
					for _, e := range blk {
						if e.stream == st {
							o.P("cwd %s", e.body)
						}
					}
				}
				ord := "ok"
				if len(blk) > len(order) {
					ord = "bad"
				}
				for i := range blk {
					if i < len(order) && (blk[i].stream != order[i].stream || blk[i].seq != order[i].seq) {
						ord = "bad"
					}
				}
				o.P("cwsum accepted=%d delivered=%d order=%s", len(order), len(blk), ord)
				cw = nil
				cwDone = true
				continue
			case "new":
				r, ok1 := c17NatOK(m, "rate", 2_000_000_000)
				iv, ok2 := c17NatOK(m, "ivl", 1_000_000)
				if !ok1 || !ok2 || iv < 1000 || fac != nil {
					o.P("bad-op")
					continue
				}
				fac = pacing.NewInterceptor(pacing.InitialRate(r), pacing.Interval(time.Duration(iv)*time.Microsecond))
				var err error
				ic, err = fac.NewInterceptor("x")
				if err != nil {
					panic(err)
				}
				env.fac, env.ivlUs = fac, iv
				env.change(time.Now(), r)
				synctest.Wait()
			case "bind":
				s, ok := c17NatOK(m, "s", 1000)
				if !ok || ic == nil {
					o.P("bad-op")
					continue
				}
				writers[s] = ic.BindLocalStream(&interceptor.StreamInfo{SSRC: uint32(s)}, rec.writerG(s, binds[s], nil))
				binds[s]++
			case "w":
				s, ok := c17NatOK(m, "s", 1000)
				sh, ok2 := c17ParseShape(m)
				w := writers[s]
				if !ok || !ok2 || w == nil {
					o.P("bad-op")
					continue
				}
				h, pay, ok3 := c17Build(sh)
				if !ok3 {
					o.P("bad-op")
					continue
				}
				n, err := w.Write(h, pay, interceptor.Attributes{})
				c17Scribble(h, pay)
				if closed && ((err == nil && n == rtpLen(sh)) || (n == 0 && c17Err(err) == "closed")) {
					o.P("w post-close")
				} else {
					o.P("w n=%d err=%s", n, c17Err(err))
				}
				if m["nw"] != "1" {
					synctest.Wait()
				}
			case "setrate":
				r, ok := c17NatOK(m, "r", 2_000_000_000)
				if !ok || fac == nil {
					o.P("bad-op")
					continue
				}
				fac.SetRate("x", r)
				rec.mu.Lock()
				env.change(time.Now(), r)
				rec.mu.Unlock()
			case "hook":
				k, ok := c17NatOK(m, "after", 100_000)
				r, ok2 := c17NatOK(m, "r", 2_000_000_000)
				if !ok || !ok2 || k < 1 || fac == nil || closed {
					o.P("bad-op")
					continue
				}
				rec.mu.Lock()
				env.hookAfter, env.hookRate = k, r
				rec.mu.Unlock()
			case "adv":
				d, ok := c17NatOK(m, "us", 600_000_000)
				if !ok {
					o.P("bad-op")
					continue
				}
				time.Sleep(time.Duration(d) * time.Microsecond)
				synctest.Wait()
			case "close":
				if ic == nil || closed {
					o.P("bad-op")
					continue
				}
				synctest.Wait()
				_ = ic.Close()
				closed = true
			default:
				o.P("bad-op")
				continue
			}
			rec.flush(o)
		}
	})
}

// rtpLen is the size the real library reports for the packet an op describes.
func rtpLen(s c17Shape) int {
	h, p, ok := c17Build(s)
	if !ok {
		return -1
	}
	return h.MarshalSize() + len(p)
}

// c17Leaky is what the `leaky` ops need of the object under test: the LeakyBucketPacer itself, or (component
// `bwepacer`) a gcc.SendSideBWE built WITHOUT a pacer option, whose default pacer must be a leaky bucket that runs
// at the configured initial bitrate from the start (C16: "the pacer is told the same rate" - also the first one).
type c17Leaky interface {
	AddStream(ssrc uint32, w interceptor.RTPWriter)
	Write(h *rtp.Header, p []byte, a interceptor.Attributes) (int, error)
	SetTargetBitrate(r int)
	Close() error
}

// c17BwePacer drives the default pacer of a SendSideBWE through the estimator's public API only: AddStream hands
// out the pacer as the stream's writer.
type c17BwePacer struct {
	bwe   *gcc.SendSideBWE
	w     interceptor.RTPWriter
	spare uint32 // an SSRC no op of the case uses
	init  int
	o     *Out
}

func (b *c17BwePacer) pacer() interceptor.RTPWriter {
	if b.w == nil { // nothing bound yet: get hold of the pacer through a stream no packet belongs to
		b.w = b.bwe.AddStream(&interceptor.StreamInfo{SSRC: b.spare}, interceptor.RTPWriterFunc(
			func(*rtp.Header, []byte, interceptor.Attributes) (int, error) { return 0, nil }))
	}
	return b.w
}

func (b *c17BwePacer) AddStream(ssrc uint32, w interceptor.RTPWriter) {
	info := &interceptor.StreamInfo{SSRC: ssrc}
	b.o.InfoGuard("AddStream", info, func() { b.w = b.bwe.AddStream(info, w) })
}

func (b *c17BwePacer) Write(h *rtp.Header, p []byte, a interceptor.Attributes) (int, error) {
	return b.pacer().Write(h, p, a)
}

func (b *c17BwePacer) SetTargetBitrate(r int) {
	if lb, ok := b.pacer().(*gcc.LeakyBucketPacer); ok {
		lb.SetTargetBitrate(r)
		return
	}
	b.o.P("DEFAULT-PACER-IS-NOT-THE-LEAKY-BUCKET %T", b.pacer())
}

func (b *c17BwePacer) Close() error { return b.bwe.Close() }

func runBwePacer(t *testing.T, ops []string, o *Out) {
	used := map[uint32]bool{}
	for _, op := range ops {
		_, m := kv(op)
		for _, k := range []string{"s", "ssrc"} {
			if v, ok := c17NatOK(m, k, 1<<32-1); ok {
				used[uint32(v)] = true
			}
		}
	}
	spare := uint32(0x5EED5EED)
	for used[spare] {
		spare++
	}
	runLeakyWith(t, ops, o, func(o *Out, r int, m map[string]string) c17Leaky {
		mn, ok1 := c17NatOK(m, "min", 2_000_000_000)
		mx, ok2 := c17NatOK(m, "max", 2_000_000_000)
		if !ok1 || !ok2 || mn < 1 || mn > r || r > mx {
			return nil
		}
		bwe, err := gcc.NewSendSideBWE(gcc.SendSideBWEInitialBitrate(r), gcc.SendSideBWEMinBitrate(mn), gcc.SendSideBWEMaxBitrate(mx))
		if err != nil {
			return nil
		}
		if got := bwe.GetTargetBitrate(); got != r {
			o.P("TARGET-IS-NOT-THE-INITIAL-BITRATE %d", got)
		}
		return &c17BwePacer{bwe: bwe, spare: spare, init: r, o: o}
	})
}

func runLeaky(t *testing.T, ops []string, o *Out) {
	runLeakyWith(t, ops, o, func(_ *Out, r int, _ map[string]string) c17Leaky { return gcc.NewLeakyBucketPacer(r) })
}

func runLeakyWith(t *testing.T, ops []string, o *Out, mk func(o *Out, rate int, m map[string]string) c17Leaky) {
	synctest.Test(t, func(t *testing.T) {
		// Which marked packets (`re=1`, by op index) may have their nested ops performed by the next writer: those for
		// which the nested and the sequential reading of the ops are the same history.  Found by a rehearsal of the case
		// on an object of its own with every op performed in sequence: in the `adv` after the nested ops the marked
		// packet is handed over, and nothing handed over before it in that `adv` belongs to a stream the nested ops
		// register.  (Everything else - a marked packet of a stream without writer, a backlog the budget does not
		// cover, a packet of the registered stream ahead - is performed in sequence, as the model does.)
		var nest map[int]bool
		for _, op := range ops {
			if _, m := kv(op); m["in"] == "1" {
				nest = map[int]bool{}
				c17LeakyPass(ops, &Out{Amb: o.Amb}, mk, nil, nest)
				break
			}
		}
		c17LeakyPass(ops, o, mk, nest, nil)
	})
}

// c17LeakyPass runs the ops once.  learn != nil: the rehearsal (all ops in sequence), which fills learn.
func c17LeakyPass(ops []string, o *Out, mk func(o *Out, rate int, m map[string]string) c17Leaky, nest, learn map[int]bool) {
	{
		rec := &c17Rec{start: time.Now(), errKinds: c17ErrKinds(ops)}
		var p c17Leaky
		lbinds, lcalls, lfails := map[int]int{}, map[int]int{}, map[int]map[int]bool{}
		closed := false
		defer func() {
			if p != nil && !closed {
				_ = p.Close()
			}
		}()
		// re-entrancy: the calls the next writer of the marked packet makes from inside its hand-over
		var (
			pend    []func(emit func(string)) // the nested ops, in order
			pendOut []string                  // their output lines (printed where the model prints them: before the tick's)
			armed   bool
			trigS   int
			trigSeq int
			// the rehearsal's view of the scene: the marked op, the SSRCs its nested ops register, how many nested ops
			scIdx, scN = -1, 0
			scBinds    = map[int]bool{}
		)
		runPend := func(emit func(string)) {
			ps := pend
			pend, armed = nil, false
			for _, f := range ps {
				f(emit)
			}
		}
		seqEmit := func(l string) { o.P("%s", l) }
		rec.enter = func(stream, seq int) { // on the pacer's goroutine, inside the next writer (rec.mu held)
			if armed && len(pend) > 0 && stream == trigS && seq == trigSeq {
				runPend(func(l string) { pendOut = append(pendOut, l) })
			}
		}
		defer func() {
			if len(pend) > 0 && p != nil && !closed { // the case ends before a tick: in sequence, as the model does
				runPend(seqEmit)
			}
		}()
		for idx, op := range ops {
			name, m := kv(op)
			if len(pend) > 0 && m["in"] != "1" && name != "adv" {
				runPend(seqEmit) // something else comes first: the nested ops are ordinary sequential ops
			}
			if learn != nil && scIdx >= 0 {
				switch {
				case m["in"] == "1":
					scN++
					if v, ok := c17NatOK(m, "s", 1<<32-1); ok && name == "bind" {
						scBinds[v] = true
					}
				case name == "adv" && scN > 0:
				case scN > 0 || name == "adv" || name == "close":
					scIdx = -1
				}
			}
			switch name {
			case "new":
				r, ok := c17NatOK(m, "rate", 2_000_000_000)
				if !ok || p != nil {
					o.P("bad-op")
					continue
				}
				if p = mk(o, r, m); p == nil {
					o.P("bad-op")
					continue
				}
				synctest.Wait()
			case "bind":
				s, ok := c17NatOK(m, "s", 1<<32-1)
				if !ok || p == nil {
					o.P("bad-op")
					continue
				}
				fl := []int{}
				if v, have := m["fail"]; have {
					okf := true
					func() {
						defer func() {
							if recover() != nil {
								okf = false
							}
						}()
						fl = parseInts(v)
					}()
					if !okf || len(fl) > 64 {
						o.P("bad-op")
						continue
					}
					bad := false
					for _, k := range fl {
						if k < 0 || k > 100000 {
							bad = true
						}
					}
					if bad {
						o.P("bad-op")
						continue
					}
				}
				// the failure schedule is per SSRC (calls counted across writer instances); a re-bind replaces it
				set := map[int]bool{}
				for _, k := range fl {
					set[k] = true
				}
				lfails[s] = set
				ss := s
				w := rec.writerG(s, lbinds[s], func() bool {
					lcalls[ss]++
					return lfails[ss][lcalls[ss]]
				})
				lbinds[s]++
				if m["in"] == "1" && armed {
					pp := p
					pend = append(pend, func(func(string)) { pp.AddStream(uint32(ss), w) })
					continue
				}
				p.AddStream(uint32(s), w)
			case "w":
				sh, ok := c17ParseShape(m)
				if !ok || p == nil {
					o.P("bad-op")
					continue
				}
				h, pay, ok3 := c17Build(sh)
				if !ok3 {
					o.P("bad-op")
					continue
				}
				if m["in"] == "1" && armed {
					pp := p
					pend = append(pend, func(emit func(string)) {
						n, err := pp.Write(h, pay, interceptor.Attributes{})
						c17Scribble(h, pay)
						emit(fmt.Sprintf("w n=%d err=%s", n, c17Err(err)))
					})
					continue
				}
				n, err := p.Write(h, pay, interceptor.Attributes{})
				c17Scribble(h, pay)
				o.P("w n=%d err=%s", n, c17Err(err))
				if m["re"] == "1" && len(pend) == 0 && !closed {
					trigS, trigSeq = sh.ssrc, sh.seq
					armed = nest[idx]
					if learn != nil {
						scIdx, scN, scBinds = idx, 0, map[int]bool{}
					}
				}
				if m["nw"] != "1" {
					synctest.Wait()
				}
			case "setrate":
				r, ok := c17NatOK(m, "r", 2_000_000_000)
				if !ok || p == nil {
					o.P("bad-op")
					continue
				}
				p.SetTargetBitrate(r)
			case "adv":
				d, ok := c17NatOK(m, "us", 600_000_000)
				if !ok {
					o.P("bad-op")
					continue
				}
				time.Sleep(time.Duration(d) * time.Microsecond)
				synctest.Wait()
				rec.mu.Lock()
				if learn != nil && scIdx >= 0 {
					for _, e := range rec.ents { // what this adv handed over, in order
						if scBinds[e.stream] {
							break
						}
						if e.stream == trigS && e.seq == trigSeq {
							learn[scIdx] = true
							break
						}
					}
					scIdx = -1
				}
				for _, l := range pendOut {
					o.P("%s", l)
				}
				pendOut = nil
				rec.mu.Unlock()
				if len(pend) > 0 {
					// the marked packet was not handed over in this adv: the case is outside what the nested reading
					// and the sequential reading of its ops agree on (a malformed case, not a finding about the pacer)
					o.P("REENTER-UNREACHED s=%d seq=%d", trigS, trigSeq)
					runPend(seqEmit)
				}
				armed = false
			case "close":
				if p == nil || closed {
					o.P("bad-op")
					continue
				}
				synctest.Wait()
				_ = p.Close()
				closed = true
				synctest.Wait()
			default:
				o.P("bad-op")
				continue
			}
			rec.flush(o)
		}
	}
}

// ---- generators ----

func c17GenShape(r *Rng, class string) (cc, xp int, xl []int, pl int) {
	switch r.Intn(4) {
	case 0: // plain
	case 1:
		cc = r.Intn(16)
	case 2:
		cc = r.Pick(0, 0, 1, 15)
		xp = 1
		for i, n := 0, r.Range(0, 4); i < n; i++ {
			xl = append(xl, r.Range(1, 16))
		}
	case 3:
		cc = r.Pick(0, 2, 15)
		xp = 2
		for i, n := 0, r.Range(0, 5); i < n; i++ {
			xl = append(xl, r.Pick(0, 1, 3, 16, 17, 40, 255))
		}
	}
	switch r.Intn(6) {
	case 0:
		pl = r.Pick(0, 1, 1459, 1460)
	case 1:
		pl = r.Range(1000, 1460)
	default:
		pl = r.Range(0, 1460)
	}
	return
}

func c17WriteOp(stream int, pacingComp bool, ssrc, seq, cc, xp int, xl []int, pl int, nw bool) string {
	s := ""
	if pacingComp {
		s = fmt.Sprintf("w s=%d ", stream)
	} else {
		s = "w "
	}
	s += fmt.Sprintf("ssrc=%d seq=%d cc=%d xp=%d xl=%s pl=%d", ssrc, seq&0xFFFF, cc, xp, joinInts(xl), pl)
	if nw {
		s += " nw=1"
	}
	return s
}

func c17Rate(r *Rng) int {
	switch r.Intn(8) {
	case 0:
		return r.Pick(1000, 8000, 64000)
	case 1:
		return r.Range(1000, 100_000)
	case 2:
		return r.Pick(1_000_000, 2_400_000, 2_400_001, 10_000_000)
	case 3:
		return r.Range(100_000_000, 1_000_000_000)
	case 4:
		return r.Pick(999_999_937, 1_000_000_000, 123_456_789)
	default:
		return r.Range(100_000, 20_000_000)
	}
}

func genPacing(r *Rng, tier string, idx int) Case {
	classes := []string{"steady", "burst", "ratechange", "multistream", "shapes", "lowrate", "highrate",
		"oversize", "closed", "intervals", "edge", "concurrent", "rebind", "rehook"}
	cl := classes[idx%len(classes)]
	if cl == "rehook" {
		return genPacingRehook(r)
	}
	if cl == "rebind" {
		return genPacingRebind(r)
	}
	if cl == "concurrent" {
		return genPacingConcurrent(r)
	}
	rate := c17Rate(r)
	ivl := 5000
	switch cl {
	case "lowrate":
		rate = r.Pick(1000, 2000, 8000, 30_000, 64_000)
		ivl = r.Pick(5000, 20_000, 100_000)
	case "highrate":
		rate = r.Range(50_000_000, 1_000_000_000)
	case "intervals":
		ivl = r.Pick(1000, 2000, 2500, 3000, 7000, 10_000, 33_000, 100_000, 1_000_000, 1500)
	case "edge":
		rate = r.Pick(2_400_000, 1_000_000, 8_000_000)
	case "oversize":
		rate = r.Pick(2_400_000, 1_000_000, 500_000, 2_450_000)
	}
	ops := []string{fmt.Sprintf("new rate=%d ivl=%d", rate, ivl)}
	ns := 1
	if cl == "multistream" {
		ns = r.Range(2, 4)
	}
	for s := 0; s < ns; s++ {
		ops = append(ops, fmt.Sprintf("bind s=%d", s))
	}
	seq := make([]int, ns)
	for s := range seq {
		seq[s] = r.Pick(0, 65530, r.Intn(65536))
	}
	ticksLeft := 3000
	adv := func(maxTicks int) {
		if ticksLeft <= 0 {
			return
		}
		k := r.Range(0, maxTicks)
		if k > ticksLeft {
			k = ticksLeft
		}
		ticksLeft -= k
		us := k * ivl
		switch r.Intn(3) {
		case 0:
			us += r.Intn(ivl)
		case 1:
			us += r.Pick(0, 1, ivl-1, ivl/2)
		}
		ops = append(ops, fmt.Sprintf("adv us=%d", us))
	}
	write := func(nw bool) {
		s := r.Intn(ns)
		cc, xp, xl, pl := c17GenShape(r, cl)
		switch cl {
		case "oversize":
			if r.Chance(1, 4) {
				cc, pl = 15, r.Range(1428, 1460) // 12+60+pl >= 1500 bytes
			}
		case "edge":
			if r.Chance(1, 3) {
				cc, xp, xl = 0, 0, nil
				pl = r.Pick(1487, 1488, 1489, 613, 625-12, 1000-12)
			}
		}
		ops = append(ops, c17WriteOp(s, true, 1000+s, seq[s], cc, xp, xl, pl, nw))
		seq[s]++
	}
	n := r.Range(3, 40)
	closedAt := -1
	if cl == "closed" {
		closedAt = r.Range(0, n)
	}
	for i := 0; i < n; i++ {
		if i == closedAt {
			ops = append(ops, "close")
		}
		switch cl {
		case "burst":
			for j, m := 0, r.Range(1, 30); j < m; j++ {
				write(r.Chance(1, 2))
			}
			adv(200)
		case "ratechange":
			if r.Chance(1, 3) {
				nr := c17Rate(r)
				if r.Chance(1, 12) {
					nr = 0
				}
				ops = append(ops, fmt.Sprintf("setrate r=%d", nr))
			}
			write(false)
			adv(20)
		case "lowrate":
			write(false)
			adv(80)
		default:
			if r.Chance(1, 10) {
				ops = append(ops, fmt.Sprintf("setrate r=%d", c17Rate(r)))
			}
			for j, m := 0, r.Range(1, 4); j < m; j++ {
				write(r.Chance(1, 4))
			}
			adv(r.Pick(1, 3, 10, 60))
		}
	}
	adv(400)
	return Case{Class: cl, Ops: ops}
}

// genPacingRehook: the rate changes (InterceptorFactory.SetRate, up and down by factors of 10 .. 10000) not only between
// ticks but RE-ENTRANTLY, from inside the next writer's k-th hand-over, while one tick is draining a backlog — with
// an old burst (rate/200 at 5 ms: up to millions of bits) much larger than the new one (12000 bits).  Whoever may call
// SetRate may call it from there (a congestion controller that reacts to what it sees leaving): the bits released
// after the change are bounded by the NEW burst plus the new rate times the time since (head of the file).
func genPacingRehook(r *Rng) Case {
	ivl := r.Pick(5000, 5000, 5000, 10_000, 1000, 20_000)
	hi := func() int {
		return r.Pick(20_000_000, 100_000_000, 100_000_000, 400_000_000, 1_000_000_000, r.Range(20_000_000, 500_000_000))
	}
	lo := func(x int) int { return r.Pick(1_000_000, 100_000, 2_400_000, 10_000, x/10, x/100, x/1000, 0) }
	rate := hi()
	if r.Chance(1, 5) {
		rate = lo(rate) + 1000 // starts low: the first change goes up
	}
	ops := []string{fmt.Sprintf("new rate=%d ivl=%d", rate, ivl)}
	ns := r.Pick(1, 1, 2, 3)
	seq := make([]int, ns)
	for s := 0; s < ns; s++ {
		ops = append(ops, fmt.Sprintf("bind s=%d", s))
		seq[s] = r.Pick(0, 65530, r.Intn(65536))
	}
	queued := 0
	write := func(n int) {
		for i := 0; i < n; i++ {
			s := r.Intn(ns)
			cc, xp, xl := r.Pick(0, 0, 0, 2), 0, []int(nil)
			if r.Chance(1, 6) {
				xp, xl = 1, []int{r.Range(1, 16)}
			}
			pl := r.Pick(1200, 1200, 1000, r.Range(200, 1200))
			ops = append(ops, c17WriteOp(s, true, 1000+s, seq[s], cc, xp, xl, pl, r.Chance(1, 2)))
			seq[s]++
		}
		queued += n
	}
	adv := func(ticks int) {
		ops = append(ops, fmt.Sprintf("adv us=%d", ticks*ivl+r.Pick(0, 0, 1, ivl/2, ivl-1)))
	}
	for round, rounds := 0, r.Range(2, 4); round < rounds; round++ {
		// a backlog of about one (old) burst, often more
		n := c17Burst(rate, ivl)/9700 + r.Range(-3, 12)
		n = min(max(n, 4), 130)
		write(n)
		down := rate >= 10_000_000
		nr := hi()
		if down {
			nr = lo(rate)
		}
		k := r.Range(1, n-1) // fires while the tick is draining the backlog
		if r.Chance(1, 6) {
			k = n + r.Range(0, 5) // fires later: not in this backlog
		}
		if r.Chance(1, 8) {
			ops = append(ops, fmt.Sprintf("setrate r=%d", nr)) // an ordinary change between ticks, for comparison
		} else {
			ops = append(ops, fmt.Sprintf("hook after=%d r=%d", k, nr))
		}
		adv(r.Pick(1, 1, 2, 3, 8))
		rate = nr
		if r.Chance(1, 2) {
			write(r.Range(1, 20))
			adv(r.Pick(1, 2, 10, 40))
		}
		if r.Chance(1, 3) { // a second change while the rest of the backlog trickles out at the low rate
			nr = r.Pick(hi(), hi(), lo(hi()))
			ops = append(ops, fmt.Sprintf("hook after=%d r=%d", r.Range(1, 4), nr))
			adv(r.Pick(2, 10, 60))
			rate = nr
		}
	}
	adv(r.Pick(20, 200, 400))
	if r.Chance(1, 3) {
		ops = append(ops, "close")
	}
	return Case{Class: "rehook", Ops: ops}
}

// genPacingConcurrent: 2-4 real goroutines, one per stream, write without any synctest.Wait between
// the writes (some sleep a little, so ticks and the loop's drain interleave with the writers).
// Which packet is released at which tick depends on the schedule, so the block's observable is
// order-insensitive across streams: per stream the Write results and the deliveries (seq, header
// digest, payload digest) in order, plus the harness's own check that the global delivery order is
// the acceptance order.  All packets are < burst bits and the drain time is long enough for all
// of them, whatever the interleaving.
func genPacingConcurrent(r *Rng) Case {
	rate := r.Pick(100_000, 500_000, 1_000_000, 2_400_000, 10_000_000, 100_000_000, r.Range(100_000, 20_000_000))
	ivl := r.Pick(2500, 5000, 5000, 10_000, 20_000)
	ops := []string{fmt.Sprintf("new rate=%d ivl=%d", rate, ivl)}
	ns := r.Range(2, 4)
	seq := make([]int, ns)
	for s := 0; s < ns; s++ {
		ops = append(ops, fmt.Sprintf("bind s=%d", s))
		seq[s] = r.Pick(0, 65530, r.Intn(65536))
	}
	bits := 0
	shape := func() (cc, xp int, xl []int, pl int) {
		cc = r.Pick(0, 0, 3, 15)
		if r.Chance(1, 3) {
			xp = 1
			for i, n := 0, r.Range(0, 4); i < n; i++ {
				xl = append(xl, r.Range(1, 16))
			}
		}
		pl = r.Pick(0, 1, 100, 1200, r.Range(0, 1200))
		return
	}
	// a few ordinary writes first; some are still queued when the block starts
	for i, n := 0, r.Range(0, 6); i < n; i++ {
		s := r.Intn(ns)
		cc, xp, xl, pl := shape()
		bits += 8 * rtpLen(c17Shape{ssrc: 1000 + s, seq: seq[s] & 0xFFFF, cc: cc, xp: xp, xl: xl, pl: pl})
		ops = append(ops, c17WriteOp(s, true, 1000+s, seq[s], cc, xp, xl, pl, false))
		seq[s]++
	}
	if r.Chance(1, 2) {
		ops = append(ops, fmt.Sprintf("adv us=%d", r.Range(0, 3*ivl)))
	}
	ops = append(ops, "cwbegin")
	per := make([][]string, ns)
	for s := 0; s < ns; s++ {
		for i, n := 0, r.Range(3, 15); i < n; i++ {
			cc, xp, xl, pl := shape()
			bits += 8 * rtpLen(c17Shape{ssrc: 1000 + s, seq: seq[s] & 0xFFFF, cc: cc, xp: xp, xl: xl, pl: pl})
			sl := 0
			if r.Chance(1, 3) {
				sl = r.Pick(1, ivl/2, ivl, 2*ivl+1, r.Range(1, 3*ivl))
			}
			per[s] = append(per[s], fmt.Sprintf("cww s=%d ssrc=%d seq=%d cc=%d xp=%d xl=%s pl=%d sl=%d",
				s, 1000+s, seq[s]&0xFFFF, cc, xp, joinInts(xl), pl, sl))
			seq[s]++
		}
	}
	// the op order of the cww lines is irrelevant to the harness (one goroutine per stream); shuffle it
	idx := make([]int, ns)
	for {
		var cand []int
		for s := 0; s < ns; s++ {
			if idx[s] < len(per[s]) {
				cand = append(cand, s)
			}
		}
		if len(cand) == 0 {
			break
		}
		s := cand[r.Intn(len(cand))]
		ops = append(ops, per[s][idx[s]])
		idx[s]++
	}
	drain := 2*(bits*1000/rate)*1000 + 10*ivl + 100_000
	ops = append(ops, fmt.Sprintf("cwend drain=%d", drain))
	if r.Chance(1, 2) {
		ops = append(ops, "close")
	}
	return Case{Class: "concurrent", Ops: ops}
}

// genLeakyEnv: the environment of the leaky bucket misbehaves or changes.
//
//	wfail : the stream's next writer returns an error at drawn calls; afterwards bursts of several
//	        packets are queued within one tick (distinct lengths and contents), so a buffer that was
//	        handed back to the pool wrongly shows up as a packet delivered with another packet's bytes.
//	rebind: the SAME ssrc is given a NEW writer mid-stream (AddStream again), mostly with no other
//	        stream's packet in between; every delivery line names the writer instance (` w=<gen>`).
func genLeakyEnv(r *Rng, cl string) Case {
	rate := r.Pick(500_000, 1_000_000, 2_000_000, 8_000_000, 50_000_000, r.Range(300_000, 20_000_000))
	ops := []string{fmt.Sprintf("new rate=%d", rate)}
	ns := r.Pick(1, 1, 1, 2)
	ssrcs := make([]int, ns)
	seq := make([]int, ns)
	failList := func() string {
		var fl []int
		for k := 1; k <= 12; k++ {
			if r.Chance(1, 4) {
				fl = append(fl, k)
			}
		}
		return joinInts(fl)
	}
	bind := func(s int) {
		op := fmt.Sprintf("bind s=%d", ssrcs[s])
		if cl == "wfail" || r.Chance(1, 4) {
			op += " fail=" + failList()
		}
		ops = append(ops, op)
	}
	for s := range ssrcs {
		ssrcs[s] = r.Pick(s+1, 0xFFFFFFF0+s, r.Intn(1<<32))
		seq[s] = r.Pick(0, 65530, r.Intn(65536))
		bind(s)
	}
	write := func(s int, nw bool) {
		cc, xp, xl, pl := c17GenShape(r, cl)
		if r.Chance(1, 2) {
			pl = r.Range(1, 1460) // distinct lengths within a burst
		}
		ops = append(ops, c17WriteOp(0, false, ssrcs[s], seq[s], cc, xp, xl, pl, nw))
		seq[s]++
	}
	adv := func() {
		k := r.Pick(1, 1, 2, 3, 10)
		ops = append(ops, fmt.Sprintf("adv us=%d", k*5000+r.Pick(0, 0, 1, 2500)))
	}
	cur := 0
	for i, n := 0, r.Range(6, 30); i < n; i++ {
		if cl == "rebind" && r.Chance(1, 4) {
			bind(cur) // same ssrc, new writer, nothing of another stream in between
		}
		if ns > 1 && r.Chance(1, 6) {
			cur = r.Intn(ns)
		}
		for j, m := 0, r.Pick(1, 2, 3, 4, 6); j < m; j++ {
			write(cur, r.Chance(1, 2))
		}
		if r.Chance(4, 5) {
			adv()
		}
	}
	ops = append(ops, "adv us=1000000")
	return Case{Class: cl, Ops: ops}
}

// genPacingRebind: BindLocalStream again for the same stream mid-stream: packets written through the
// old handle (even if still queued) belong to the old next-writer, later ones to the new one.
func genPacingRebind(r *Rng) Case {
	rate := r.Pick(100_000, 500_000, 1_000_000, 10_000_000, r.Range(100_000, 20_000_000))
	ivl := r.Pick(5000, 5000, 10_000, 2500)
	ops := []string{fmt.Sprintf("new rate=%d ivl=%d", rate, ivl)}
	ns := r.Pick(1, 1, 2)
	seq := make([]int, ns)
	for s := 0; s < ns; s++ {
		ops = append(ops, fmt.Sprintf("bind s=%d", s))
		seq[s] = r.Pick(0, 65530, r.Intn(65536))
	}
	cur := 0
	for i, n := 0, r.Range(5, 25); i < n; i++ {
		if r.Chance(1, 4) {
			ops = append(ops, fmt.Sprintf("bind s=%d", cur))
		}
		if ns > 1 && r.Chance(1, 5) {
			cur = r.Intn(ns)
		}
		for j, m := 0, r.Pick(1, 2, 3, 5); j < m; j++ {
			cc, xp, xl, pl := c17GenShape(r, "rebind")
			if pl > 1300 {
				pl = 1300
			}
			ops = append(ops, c17WriteOp(cur, true, 1000+cur, seq[cur], cc, xp, xl, pl, r.Chance(1, 3)))
			seq[cur]++
		}
		if r.Chance(3, 4) {
			ops = append(ops, fmt.Sprintf("adv us=%d", r.Pick(1, 1, 2, 5, 20)*ivl+r.Pick(0, 1, ivl/2)))
		}
	}
	ops = append(ops, fmt.Sprintf("adv us=%d", 400*ivl))
	return Case{Class: "rebind", Ops: ops}
}

// genLeakyReenter: the transport below is synchronous and calls back into the pacer.  The next writer of one
// stream, while it is being handed a packet in the middle of a tick's drain, registers another stream (a new one, or
// an existing one with a new writer) and / or writes packets through the pacer; packets of the stream it registers
// may already sit behind the packet in the queue.  By C17 every accepted packet that is dequeued after its stream
// got a writer reaches that writer (the one registered when it is dequeued) exactly once.
//
// The nested and the sequential reading of the ops agree because (a) the queue is empty before each scene (the
// `adv` before it has more ticks than packets were queued, and every tick releases at least one packet at these
// rates), (b) what is queued ahead of the marked packet fits the first tick's budget and is of other streams than
// the ones the nested ops register, (c) the nested ops are directly followed by the `adv`.
func genLeakyReenter(r *Rng) Case {
	rate := r.Pick(500_000, 1_000_000, 2_000_000, 8_000_000, 50_000_000, r.Range(300_000, 20_000_000))
	budget0 := 5 * rate / 8000 // a tick's budget 5 ms after the last release (more after a pause)
	ops := []string{fmt.Sprintf("new rate=%d", rate)}
	var ssrcs, seq []int
	fresh := func() int {
		for {
			v := r.Pick(len(ssrcs)+1, 0xFFFFFFF0+len(ssrcs), r.Intn(1<<32))
			dup := false
			for _, x := range ssrcs {
				dup = dup || x == v
			}
			if !dup {
				ssrcs = append(ssrcs, v)
				seq = append(seq, r.Pick(0, 65530, r.Intn(65536)))
				return len(ssrcs) - 1
			}
		}
	}
	bound := []int{}
	for i, n := 0, r.Range(1, 3); i < n; i++ {
		s := fresh()
		bound = append(bound, s)
		ops = append(ops, fmt.Sprintf("bind s=%d", ssrcs[s]))
	}
	q := 0 // at most this many packets are queued
	wr := func(s int, extra string, maxLen int) int {
		cc, xp, xl, pl := c17GenShape(r, "reenter")
		sh := c17Shape{ssrc: ssrcs[s], seq: seq[s] & 0xFFFF, cc: cc, xp: xp, xl: xl, pl: pl}
		if maxLen > 0 && rtpLen(sh) > maxLen {
			cc, xp, xl = 0, 0, nil
			pl = r.Range(0, max(0, maxLen-12))
			sh = c17Shape{ssrc: ssrcs[s], seq: seq[s] & 0xFFFF, pl: pl}
		}
		ops = append(ops, c17WriteOp(0, false, ssrcs[s], seq[s], cc, xp, xl, pl, r.Chance(1, 2))+extra)
		seq[s]++
		q++
		return rtpLen(sh)
	}
	drain := func() {
		ops = append(ops, fmt.Sprintf("adv us=%d", (q+2)*5000+r.Pick(0, 0, 1, 2500, 4999)))
		q = 0
	}
	for scene, n := 0, r.Range(1, 4); scene < n; scene++ {
		// ordinary traffic, then everything drains
		for i, m := 0, r.Range(0, 6); i < m; i++ {
			wr(bound[r.Intn(len(bound))], "", 0)
			if r.Chance(1, 3) {
				ops = append(ops, fmt.Sprintf("adv us=%d", r.Pick(1, 1, 2, 3)*5000+r.Pick(0, 1, 2500)))
			}
		}
		drain()
		// the scene: a = the stream whose next writer calls back; b = the stream it registers
		a := bound[r.Intn(len(bound))]
		b, rebind := -1, false
		if len(bound) > 1 && r.Chance(1, 3) {
			for b = a; b == a; b = bound[r.Intn(len(bound))] {
			}
			rebind = true // an existing stream gets a NEW writer from inside a's writer
		} else if r.Chance(5, 6) {
			b = fresh()
		} // else: nested writes only
		// ahead of the marked packet: packets of streams other than b that leave budget for the marked one
		used := 0
		for i, m := 0, r.Pick(0, 0, 1, 2); i < m; i++ {
			s := bound[r.Intn(len(bound))]
			if s == b || budget0-used < 16 {
				continue
			}
			used += wr(s, "", budget0-used-2)
		}
		wr(a, " re=1", 0)
		if b >= 0 { // packets of b accepted before b is registered (or re-registered), behind the marked packet
			for i, m := 0, r.Pick(0, 0, 1, 2, 3); i < m; i++ {
				wr(b, "", 0)
			}
			ops = append(ops, fmt.Sprintf("bind s=%d in=1", ssrcs[b]))
			if !rebind {
				bound = append(bound, b)
			}
		}
		for i, m := 0, r.Pick(0, 1, 1, 2, 3); i < m; i++ { // the writer writes: b's first packets, or somebody's next
			s := b
			if b < 0 || r.Chance(1, 4) {
				s = bound[r.Intn(len(bound))]
			}
			wr(s, " in=1", 0)
		}
		ops = append(ops, fmt.Sprintf("adv us=%d", r.Pick(1, 1, 2, 3, 10)*5000+r.Pick(0, 0, 1, 2500)))
	}
	for i, m := 0, r.Range(0, 5); i < m; i++ {
		wr(bound[r.Intn(len(bound))], "", 0)
	}
	drain()
	ops = append(ops, "adv us=100000")
	return Case{Class: "reenter", Ops: ops}
}

func genLeaky(r *Rng, tier string, idx int) Case {
	classes := []string{"steady", "burst", "idle", "unknown", "latebind", "oversize", "ratechange", "zero", "closed", "shapes",
		"wfail", "rebind"}
	cl := classes[idx%len(classes)]
	if cl == "latebind" && (idx/len(classes))%2 == 1 {
		return genLeakyReenter(r) // a stream bound late - by the next writer of another one, in the middle of a tick
	}
	if cl == "wfail" || cl == "rebind" {
		return genLeakyEnv(r, cl)
	}
	rate := c17Rate(r)
	if cl == "zero" {
		rate = 0
	}
	ops := []string{fmt.Sprintf("new rate=%d", rate)}
	ns := r.Range(1, 4)
	ssrcs := make([]int, ns)
	seq := make([]int, ns+1)
	for s := range ssrcs {
		ssrcs[s] = r.Pick(s+1, 0xFFFFFFF0+s, r.Intn(1<<32))
		if cl != "latebind" {
			ops = append(ops, fmt.Sprintf("bind s=%d", ssrcs[s]))
		}
	}
	ticksLeft := 4000
	adv := func(maxTicks int) {
		k := r.Range(0, maxTicks)
		if k > ticksLeft {
			k = ticksLeft
		}
		ticksLeft -= k
		us := k * 5000
		switch r.Intn(3) {
		case 0:
			us += r.Intn(5000)
		case 1:
			us += r.Pick(0, 1, 4999, 2500)
		}
		ops = append(ops, fmt.Sprintf("adv us=%d", us))
	}
	write := func(nw bool) {
		s := r.Intn(ns)
		ssrc := ssrcs[s]
		cc, xp, xl, pl := c17GenShape(r, cl)
		if cl == "unknown" && r.Chance(1, 3) {
			s = ns
			ssrc = 77777
		}
		if cl == "oversize" && r.Chance(1, 3) {
			pl = r.Pick(1461, 1462, 1500, 2000, 3000, r.Range(1461, 4000))
		}
		ops = append(ops, c17WriteOp(0, false, ssrc, seq[s], cc, xp, xl, pl, nw))
		seq[s]++
	}
	n := r.Range(3, 40)
	closedAt := -1
	if cl == "closed" {
		closedAt = r.Range(0, n)
	}
	bindAt := r.Range(0, n)
	for i := 0; i < n; i++ {
		if i == closedAt {
			ops = append(ops, "close")
		}
		if cl == "latebind" && i == bindAt {
			for s := range ssrcs {
				ops = append(ops, fmt.Sprintf("bind s=%d", ssrcs[s]))
			}
		}
		switch cl {
		case "burst":
			for j, m := 0, r.Range(1, 30); j < m; j++ {
				write(r.Chance(1, 2))
			}
			adv(100)
		case "idle":
			adv(600)
			for j, m := 0, r.Range(1, 10); j < m; j++ {
				write(false)
			}
			adv(3)
		case "ratechange", "zero":
			if r.Chance(1, 3) {
				nr := c17Rate(r)
				if r.Chance(1, 8) {
					nr = 0
				}
				ops = append(ops, fmt.Sprintf("setrate r=%d", nr))
			}
			write(false)
			adv(20)
		default:
			for j, m := 0, r.Range(1, 4); j < m; j++ {
				write(r.Chance(1, 4))
			}
			adv(r.Pick(1, 3, 10, 60))
		}
	}
	adv(300)
	return Case{Class: cl, Ops: ops}
}

// genBwePacer: the scenarios of `leaky`, run against the default pacer of a SendSideBWE (model: the leaky bucket at
// the INITIAL bitrate).  The bitrate options are unusual but legal: very low initial / minimum bitrates, a non-default
// initial bitrate, init = min, init = max.  No feedback arrives, so the estimate stays the initial bitrate.
func genBwePacer(r *Rng, tier string, idx int) Case {
	c := genLeaky(r, tier, idx)
	for i, op := range c.Ops {
		name, m := kv(op)
		if name != "new" {
			continue
		}
		rate, ok := c17NatOK(m, "rate", 2_000_000_000)
		if !ok {
			break
		}
		if r.Chance(1, 4) && c.Class != "reenter" { // (the reenter scenes rely on every tick having a budget)
			rate = r.Pick(1, 100, 800, 1000, 1500, 1599, 1600, 5000, 10_000, 10_001, 20_000_000)
		}
		if rate < 1 {
			rate = 1
		}
		var mn, mx int
		switch r.Intn(5) {
		case 0:
			mn, mx = rate, rate
		case 1:
			mn, mx = 1, rate // init = max
		case 2:
			mn, mx = rate, 2_000_000_000 // init = min
		case 3:
			mn, mx = rate/2+1, min(2*rate, 2_000_000_000)
		default:
			mn, mx = min(rate, 5000), max(rate, 50_000_000) // the package's default bounds where they fit
		}
		if mn > rate {
			mn = rate
		}
		c.Ops[i] = fmt.Sprintf("new rate=%d min=%d max=%d", rate, mn, mx)
		break
	}
	c.Class = "bwe-" + c.Class
	return c
}

func c17N(quick, thorough int) func(string) int {
	return func(tier string) int {
		if tier == "thorough" {
			return thorough
		}
		return quick
	}
}

func init() {
	register("pacing", &Comp{N: c17N(1100, 33000), Gen: genPacing, Run: runPacing})
	register("leaky", &Comp{N: c17N(1000, 30000), Gen: genLeaky, Run: runLeaky})
	register("bwepacer", &Comp{N: c17N(500, 12000), Gen: genBwePacer, Run: runBwePacer})
}

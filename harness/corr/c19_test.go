package corr

// C19 — component `stats`: the public stats interceptor driven through its Bind* wrappers with
// a virtual clock (SetNowFunc); observables: every field of stats.Stats returned by
// Getter.Get (integers; durations as ns; floats as IEEE bit patterns; times as UnixNano).
//
// ops
//   bindL ssrc=S rate=R [tcc=ID] | bindR ssrc=S rate=R     (tcc: the StreamInfo carries a negotiated transport-cc header
//                                                            extension with that id; the stats interceptor does not read it)
//   rtpOut via=S ssrc=H seq=N ts=T cc=C xp=P xs=L pl=K     (header shape: C CSRCs, extension
//   rtpIn  via=S ssrc=H seq=N ts=T cc=C xp=P xs=L pl=K a=M   profile P 0 none/1 one-byte/2 two-byte/
//                                                             3 other, extension payload lengths L)
//   rtpInErr via=S | rtpInShort via=S n=K        (inner reader fails | K<12 bytes)
//   rtcpIn a=M PKT… | rtcpOut PKT… | rtcpInErr | rtcpInShort n=K
//   adv ns=D (may be negative) | get ssrc=S | close
// The ambient of a case (first op `amb … shapes=…`, ambient_test.go) gives the incoming RTP packets wire shapes with
// the P bit — padding-only (the count in the last octet covers everything after the header), count 1, count =
// payload-1 — at unchanged length.  The unchanged stats recorder parses the header only (Attributes.GetRTPHeader) and
// counts header bytes = the header's MarshalSize and bytes = everything after it, padding included, so `pl` of such a
// packet is payload + padding and the model has nothing to learn.
// The ambient may also put the stats interceptor into a CHAIN (o.Wrap; class `chain` and a quarter of all other cases).
// "bytes / header bytes sent equal a recount of the packets that passed through": what is recounted is the packet as it
// was handed to the stats interceptor, so the model stays the component's own whatever its neighbours do afterwards.
// BELOW it on the write path sits the one interceptor of the library that edits the header it is handed in a
// size-changing way — the TWCC header extension (`hdr`; `bindL … tcc=ID` negotiates the extension, the packets written
// do not carry it yet, or carry an element with that id and another length) — alone or with transparent members
// (NoOp, packetdump, rtpfb, a NACK responder without a nack stream, a second stats interceptor); ABOVE it only
// transparent members (a member above that edits the header would change what passes through).  The same chain is
// transparent on the read paths and for RTCP.  The bottom RTP writer may refuse chosen calls (`failrtp=`): a packet
// that passed through is counted whatever happens to it further down.
// The ambient may name the EPOCH of the injected clock (`epoch=zero|unix0|ntp0|y2000|ntpwrap|y2262`, an option private
// to this component; class `epoch`): the clock reads epoch + the time the case has run.  "Whatever the clock's epoch":
// counters do not depend on the clock at all, jitter depends on differences of clock readings only, and
// LastPacketReceivedTimestamp is a clock reading, printed as its distance from the epoch — so the model, whose clock
// starts in 2000, has nothing to learn.  The class sticks to traffic without LSR/DLSR/DLRR round trips: a round-trip
// time is the difference between a clock reading and an NTP timestamp, which cannot express most of these epochs.
// The ambient may make the transport below SYNCHRONOUS (`nest=N`, an option private to this component; class `reenter`
// and a fifth of the ordinary cases): an in-process loop-back transport delivers the peer's answer while Write is still
// on the stack.  The up to N ops directly after an `rtcpOut` that are adv / get / rtcpIn / rtcpInErr / rtcpInShort run
// on the same goroutine INSIDE the bottom RTCP writer, before it returns (through the chain's neighbours too).  "At
// every query the counts equal a recount of the packets that passed through" and RTT "from the most recent matching
// report": the packet handed on has passed through, so the outputs are those of the ops in sequence — the model has
// nothing to learn.  Class `reenter`: SR / XR-RRTR / NACK written, queried and answered (LSR / LRR of that report) at once.
// a=M: the attributes the *caller* passes: nil | fresh | stale (the map of the previous call,
// still holding that call's parse cache).  The inner reader always returns a new empty map.
// PKT: SR:ssrc:ntp:pc:oc:B  RR:ssrc:B  (B: `-` or blocks `ssrc/fl/tl/lsn/jit/lsr/dlsr` joined by +)
//      XR:ssrc:X (X: `-` or blocks joined by +: `T~ntp` (RRTR), `D~ssrc.lrr.dlrr~…` (DLRR))
//      NACK:sender:media  PLI:sender:media  FIR:sender:media:E (E: `-` or entry SSRCs joined by +)
//      BYE:E

import (
	"errors"
	"fmt"
	"math"
	"strconv"
	"strings"
	"testing"
	"testing/synctest"
	"time"

	"github.com/pion/interceptor"
	"github.com/pion/interceptor/pkg/stats"
	"github.com/pion/interceptor/pkg/verifhooks"
	"github.com/pion/logging"
	"github.com/pion/rtcp"
	"github.com/pion/rtp"
)

const c19Start = int64(946684800) * 1e9

func c19u(s string, bits int) (uint64, bool) {
	v, err := strconv.ParseUint(s, 10, bits)
	return v, err == nil
}

func c19list(s string, sep string) []string {
	if s == "-" || s == "" {
		return nil
	}
	return strings.Split(s, sep)
}

func c19blocks(s string) ([]rtcp.ReceptionReport, bool) {
	var out []rtcp.ReceptionReport
	for _, b := range c19list(s, "+") {
		f := strings.Split(b, "/")
		if len(f) != 7 {
			return nil, false
		}
		var v [7]uint64
		for i := range f {
			bits := 32
			if i == 1 {
				bits = 8
			}
			x, ok := c19u(f[i], bits)
			if !ok {
				return nil, false
			}
			v[i] = x
		}
		out = append(out, rtcp.ReceptionReport{
			SSRC: uint32(v[0]), FractionLost: uint8(v[1]), TotalLost: uint32(v[2]),
			LastSequenceNumber: uint32(v[3]), Jitter: uint32(v[4]), LastSenderReport: uint32(v[5]), Delay: uint32(v[6]),
		})
	}
	return out, true
}

func c19ssrcs(s string) ([]uint32, bool) {
	var out []uint32
	for _, x := range c19list(s, "+") {
		v, ok := c19u(x, 32)
		if !ok {
			return nil, false
		}
		out = append(out, uint32(v))
	}
	return out, true
}

func c19pkt(tok string) (rtcp.Packet, bool) {
	f := strings.Split(tok, ":")
	u := func(i int, bits int) (uint64, bool) {
		if i >= len(f) {
			return 0, false
		}
		return c19u(f[i], bits)
	}
	switch f[0] {
	case "SR":
		if len(f) != 6 {
			return nil, false
		}
		ssrc, ok1 := u(1, 32)
		ntp, ok2 := u(2, 64)
		pc, ok3 := u(3, 32)
		oc, ok4 := u(4, 32)
		bl, ok5 := c19blocks(f[5])
		if !(ok1 && ok2 && ok3 && ok4 && ok5) {
			return nil, false
		}
		return &rtcp.SenderReport{SSRC: uint32(ssrc), NTPTime: ntp, PacketCount: uint32(pc), OctetCount: uint32(oc), Reports: bl}, true
	case "RR":
		if len(f) != 3 {
			return nil, false
		}
		ssrc, ok1 := u(1, 32)
		bl, ok2 := c19blocks(f[2])
		if !(ok1 && ok2) {
			return nil, false
		}
		return &rtcp.ReceiverReport{SSRC: uint32(ssrc), Reports: bl}, true
	case "XR":
		if len(f) != 3 {
			return nil, false
		}
		ssrc, ok1 := u(1, 32)
		if !ok1 {
			return nil, false
		}
		xr := &rtcp.ExtendedReport{SenderSSRC: uint32(ssrc)}
		for _, b := range c19list(f[2], "+") {
			g := strings.Split(b, "~")
			switch g[0] {
			case "T":
				if len(g) != 2 {
					return nil, false
				}
				n, ok := c19u(g[1], 64)
				if !ok {
					return nil, false
				}
				xr.Reports = append(xr.Reports, &rtcp.ReceiverReferenceTimeReportBlock{NTPTimestamp: n})
			case "D":
				d := &rtcp.DLRRReportBlock{}
				for _, sr := range g[1:] {
					h := strings.Split(sr, ".")
					if len(h) != 3 {
						return nil, false
					}
					a, oka := c19u(h[0], 32)
					b2, okb := c19u(h[1], 32)
					c, okc := c19u(h[2], 32)
					if !(oka && okb && okc) {
						return nil, false
					}
					d.Reports = append(d.Reports, rtcp.DLRRReport{SSRC: uint32(a), LastRR: uint32(b2), DLRR: uint32(c)})
				}
				xr.Reports = append(xr.Reports, d)
			default:
				return nil, false
			}
		}
		return xr, true
	case "NACK", "PLI":
		if len(f) != 3 {
			return nil, false
		}
		s, ok1 := u(1, 32)
		m, ok2 := u(2, 32)
		if !(ok1 && ok2) {
			return nil, false
		}
		if f[0] == "NACK" {
			return &rtcp.TransportLayerNack{SenderSSRC: uint32(s), MediaSSRC: uint32(m), Nacks: []rtcp.NackPair{{PacketID: 7, LostPackets: 1}}}, true
		}
		return &rtcp.PictureLossIndication{SenderSSRC: uint32(s), MediaSSRC: uint32(m)}, true
	case "FIR":
		if len(f) != 4 {
			return nil, false
		}
		s, ok1 := u(1, 32)
		m, ok2 := u(2, 32)
		es, ok3 := c19ssrcs(f[3])
		if !(ok1 && ok2 && ok3) {
			return nil, false
		}
		p := &rtcp.FullIntraRequest{SenderSSRC: uint32(s), MediaSSRC: uint32(m)}
		for i, e := range es {
			p.FIR = append(p.FIR, rtcp.FIREntry{SSRC: e, SequenceNumber: uint8(i)})
		}
		return p, true
	case "BYE":
		if len(f) != 2 {
			return nil, false
		}
		es, ok := c19ssrcs(f[1])
		if !ok {
			return nil, false
		}
		return &rtcp.Goodbye{Sources: es}, true
	}
	return nil, false
}

func c19pkts(toks []string) ([]rtcp.Packet, bool) {
	var out []rtcp.Packet
	for _, t := range toks {
		p, ok := c19pkt(t)
		if !ok {
			return nil, false
		}
		out = append(out, p)
	}
	return out, len(out) > 0
}

// c19header builds the RTP header of the given shape.
func c19header(m map[string]string) (*rtp.Header, int, bool) {
	need := []string{"ssrc", "seq", "ts", "cc", "xp", "xs", "pl"}
	for _, k := range need {
		if _, ok := m[k]; !ok {
			return nil, 0, false
		}
	}
	ssrc, ok1 := c19u(m["ssrc"], 32)
	seq, ok2 := c19u(m["seq"], 16)
	ts, ok3 := c19u(m["ts"], 32)
	cc, ok4 := c19u(m["cc"], 8)
	xp, ok5 := c19u(m["xp"], 8)
	pl, ok6 := c19u(m["pl"], 16)
	if !(ok1 && ok2 && ok3 && ok4 && ok5 && ok6) || cc > 15 || xp > 3 || pl > 1500 {
		return nil, 0, false
	}
	var xs []int
	for _, x := range c19list(m["xs"], ",") {
		v, ok := c19u(x, 16)
		if !ok {
			return nil, 0, false
		}
		xs = append(xs, int(v))
	}
	h := &rtp.Header{Version: 2, SSRC: uint32(ssrc), SequenceNumber: uint16(seq), Timestamp: uint32(ts), PayloadType: 96}
	for i := 0; i < int(cc); i++ {
		h.CSRC = append(h.CSRC, uint32(1000+i))
	}
	switch xp {
	case 0:
		if len(xs) != 0 {
			return nil, 0, false
		}
	case 1, 2:
		h.Extension = true
		h.ExtensionProfile = rtp.ExtensionProfileOneByte
		if xp == 2 {
			h.ExtensionProfile = rtp.ExtensionProfileTwoByte
		}
		if len(xs) > 14 {
			return nil, 0, false
		}
		for i, l := range xs {
			if xp == 1 && (l < 1 || l > 16) || l > 255 {
				return nil, 0, false
			}
			if err := h.SetExtension(uint8(i+1), make([]byte, l)); err != nil {
				return nil, 0, false
			}
		}
	case 3:
		h.Extension = true
		h.ExtensionProfile = 0x1234
		if len(xs) > 1 || len(xs) == 1 && xs[0]%4 != 0 {
			return nil, 0, false
		}
		if len(xs) == 1 {
			if err := h.SetExtension(0, make([]byte, xs[0])); err != nil {
				return nil, 0, false
			}
		}
	}
	return h, int(pl), true
}

func c19time(t time.Time) string {
	if t.IsZero() {
		return "zero"
	}
	return strconv.FormatInt(t.UnixNano(), 10)
}

func c19bits(f float64) uint64 {
	if f == 0 {
		f = 0 // signed zero is not modelled
	}
	return math.Float64bits(f)
}

// c19Epochs: the zero time.Time (year 1), the Unix and the NTP epoch, the harness's default, 16 s before NTP era 0
// ends (2036-02-07 06:28:16 UTC) and 16 s before the last instant whose UnixNano fits an int64.
var c19Epochs = map[string]time.Time{
	"zero":    {},
	"unix0":   time.Unix(0, 0),
	"ntp0":    time.Date(1900, 1, 1, 0, 0, 0, 0, time.UTC),
	"y2000":   time.Unix(0, c19Start),
	"ntpwrap": time.Date(2036, 2, 7, 6, 28, 0, 0, time.UTC),
	"y2262":   time.Date(2262, 4, 11, 23, 47, 0, 0, time.UTC),
}

var c19EpochNames = []string{"zero", "zero", "unix0", "ntp0", "y2000", "ntpwrap", "y2262"}

func c19stats(s *stats.Stats) string { return c19statsAt(s, nil) }

// c19statsAt: epoch != nil — clock readings (LastPacketReceivedTimestamp) are printed as c19Start + their distance
// from the epoch of the injected clock.
func c19statsAt(s *stats.Stats, epoch *time.Time) string {
	if s == nil {
		return "nil"
	}
	lts := c19time(s.InboundRTPStreamStats.LastPacketReceivedTimestamp)
	if epoch != nil && (s.InboundRTPStreamStats.PacketsReceived > 0 || !s.InboundRTPStreamStats.LastPacketReceivedTimestamp.IsZero()) {
		// (a packet received when the clock read the zero time.Time has that time as its timestamp)
		lts = strconv.FormatInt(c19Start+int64(s.InboundRTPStreamStats.LastPacketReceivedTimestamp.Sub(*epoch)), 10)
	}
	i, o, ri, ro := s.InboundRTPStreamStats, s.OutboundRTPStreamStats, s.RemoteInboundRTPStreamStats, s.RemoteOutboundRTPStreamStats
	return fmt.Sprintf("in pr=%d lost=%d jit=%d lts=%s hb=%d b=%d fir=%d pli=%d nack=%d | out ps=%d bs=%d hb=%d nack=%d fir=%d pli=%d"+
		" | rin pr=%d lost=%d jit=%d rtt=%d trtt=%d fl=%d n=%d | rout ps=%d bs=%d ts=%s rs=%d rtt=%d trtt=%d n=%d",
		i.PacketsReceived, i.PacketsLost, c19bits(i.Jitter), lts, i.HeaderBytesReceived, i.BytesReceived,
		i.FIRCount, i.PLICount, i.NACKCount,
		o.PacketsSent, o.BytesSent, o.HeaderBytesSent, o.NACKCount, o.FIRCount, o.PLICount,
		ri.PacketsReceived, ri.PacketsLost, c19bits(ri.Jitter), int64(ri.RoundTripTime), int64(ri.TotalRoundTripTime), c19bits(ri.FractionLost),
		ri.RoundTripTimeMeasurements,
		ro.PacketsSent, ro.BytesSent, c19time(ro.RemoteTimeStamp), ro.ReportsSent, int64(ro.RoundTripTime), int64(ro.TotalRoundTripTime),
		ro.RoundTripTimeMeasurements)
}

var errC19Read = errors.New("inner reader failed")

func c19run(t *testing.T, ops []string, o *Out) {
	now := c19Start
	var epoch *time.Time
	if o.Amb != nil && o.Amb.Opts["epoch"] != "" {
		e, ok := c19Epochs[o.Amb.Opts["epoch"]]
		if !ok {
			panic("unknown epoch " + o.Amb.Opts["epoch"])
		}
		epoch = &e
	}
	nest := 0
	if o.Amb != nil && o.Amb.Opts["nest"] != "" {
		n, err := strconv.Atoi(o.Amb.Opts["nest"])
		if err != nil || n < 0 {
			panic("bad nest " + o.Amb.Opts["nest"])
		}
		nest = n
	}
	lf := logging.NewDefaultLoggerFactory()
	lf.DefaultLogLevel = logging.LogLevelDisabled
	f, err := stats.NewInterceptor(
		stats.SetNowFunc(func() time.Time {
			if epoch != nil {
				return epoch.Add(time.Duration(now - c19Start))
			}
			return time.Unix(0, now)
		}),
		stats.WithLoggerFactory(lf),
	)
	if err != nil {
		o.P("err:new")
		return
	}
	var getter stats.Getter
	f.OnNewPeerConnection(func(_ string, g stats.Getter) { getter = g })
	icpt0, err := f.NewInterceptor("c19")
	if err != nil || getter == nil {
		o.P("err:new")
		return
	}
	icpt := o.Wrap(icpt0) // the case's ambient: the stats interceptor as one member of a chain (ambient_test.go)
	var pending []byte
	pendingErr := false
	// a clock advance that is directly followed by a read is spent INSIDE the wrapped reader (a blocking
	// transport: the caller entered Read earlier, the packet arrives later): the arrival time is when Read returns
	waitNs := int64(0)
	inner := func(b []byte, _ interceptor.Attributes) (int, interceptor.Attributes, error) {
		now += waitNs
		waitNs = 0
		if pendingErr {
			return 0, nil, errC19Read
		}
		n := copy(b, pending)
		return n, o.Bottom(interceptor.Attributes{}), nil
	}
	rtcpR := icpt.BindRTCPReader(interceptor.RTCPReaderFunc(inner))
	// nest=N: the transport below is synchronous — the up to N ops that follow an rtcpOut run inside the bottom writer
	var nested []string
	var step func(op string)
	runNested := func() {
		qs := nested
		nested = nil
		for _, q := range qs {
			step(q)
		}
	}
	rtcpW := icpt.BindRTCPWriter(interceptor.RTCPWriterFunc(func(p []rtcp.Packet, _ interceptor.Attributes) (int, error) {
		runNested()
		return len(p), nil
	}))
	lw := map[uint32]interceptor.RTPWriter{}
	rr := map[uint32]interceptor.RTPReader{}
	var last interceptor.Attributes
	callerAttr := func(mode string) (interceptor.Attributes, bool) {
		switch mode {
		case "nil":
			return nil, true
		case "fresh":
			last = interceptor.Attributes{}
			return last, true
		case "stale":
			if last == nil {
				last = interceptor.Attributes{}
			}
			return last, true
		}
		return nil, false
	}
	buf := make([]byte, 4096)
	defer func() { _ = icpt.Close() }()

	step = func(op string) {
		name, m := kv(op)
		if name != "adv" && !strings.HasPrefix(name, "rtpIn") && !strings.HasPrefix(name, "rtcpIn") {
			now += waitNs
			waitNs = 0
		}
		switch name {
		case "bindL", "bindR":
			ssrc, ok1 := c19u(m["ssrc"], 32)
			rate, ok2 := c19u(m["rate"], 32)
			if !(ok1 && ok2) || rate == 0 {
				o.P("bad-op")
				return
			}
			info := &interceptor.StreamInfo{SSRC: uint32(ssrc), ClockRate: uint32(rate)}
			if id, ok := c19u(m["tcc"], 8); ok && id >= 1 && name == "bindL" { // a negotiated transport-cc extension (read by neighbours only)
				info.RTPHeaderExtensions = []interceptor.RTPHeaderExtension{{URI: c12TwccURI, ID: int(id)}}
			}
			if name == "bindL" {
				o.InfoGuard("BindLocalStream", info, func() {
					lw[uint32(ssrc)] = icpt.BindLocalStream(info, interceptor.RTPWriterFunc(
						func(_ *rtp.Header, p []byte, _ interceptor.Attributes) (int, error) { return len(p), o.RTPWriteErr() }))
				})
			} else {
				o.InfoGuard("BindRemoteStream", info, func() {
					rr[uint32(ssrc)] = icpt.BindRemoteStream(info, interceptor.RTPReaderFunc(inner))
				})
			}
			synctest.Wait() // the goroutine that calls rec.Start() has run
		case "rtpOut":
			via, ok := c19u(m["via"], 32)
			h, pl, ok2 := c19header(m)
			w := lw[uint32(via)]
			if !ok || !ok2 || w == nil {
				o.P("bad-op")
				return
			}
			_, _ = w.Write(h, make([]byte, pl), o.Attrs(interceptor.Attributes{}))
		case "rtpIn":
			via, ok := c19u(m["via"], 32)
			h, pl, ok2 := c19header(m)
			rd := rr[uint32(via)]
			at, ok3 := callerAttr(m["a"])
			if !ok || !ok2 || !ok3 || rd == nil {
				o.P("bad-op")
				return
			}
			hb, err := h.Marshal()
			if err != nil {
				o.P("bad-op")
				return
			}
			pending, pendingErr = o.ShapeRaw(append(hb, make([]byte, pl)...)), false // the case's wire shapes (P bit, padding-only …)
			_, _, _ = rd.Read(buf, at)
		case "rtpInErr", "rtpInShort":
			via, ok := c19u(m["via"], 32)
			rd := rr[uint32(via)]
			n := uint64(0)
			ok2 := true
			if name == "rtpInShort" {
				n, ok2 = c19u(m["n"], 8)
			}
			if !ok || !ok2 || rd == nil || n >= 12 {
				o.P("bad-op")
				return
			}
			pending, pendingErr = make([]byte, n), name == "rtpInErr"
			_, _, _ = rd.Read(buf, interceptor.Attributes{})
		case "rtcpIn":
			fs := strings.Fields(op)
			if len(fs) < 3 || !strings.HasPrefix(fs[1], "a=") {
				o.P("bad-op")
				return
			}
			at, ok := callerAttr(fs[1][2:])
			pk, ok2 := c19pkts(fs[2:])
			if !ok || !ok2 {
				o.P("bad-op")
				return
			}
			raw, err := rtcp.Marshal(pk)
			if err == nil {
				_, err = rtcp.Unmarshal(raw) // the model takes parsed packets: only parsable input
			}
			if err != nil || len(raw) > len(buf) {
				o.P("bad-op")
				return
			}
			pending, pendingErr = raw, false
			_, _, _ = rtcpR.Read(buf, at)
		case "rtcpInErr", "rtcpInShort":
			n := uint64(0)
			ok := true
			if name == "rtcpInShort" {
				n, ok = c19u(m["n"], 8)
			}
			if !ok || n >= 4 {
				o.P("bad-op")
				return
			}
			pending, pendingErr = make([]byte, n), name == "rtcpInErr"
			_, _, _ = rtcpR.Read(buf, interceptor.Attributes{})
		case "rtcpOut":
			pk, ok := c19pkts(strings.Fields(op)[1:])
			if !ok {
				o.P("bad-op")
				return
			}
			_, _ = rtcpW.Write(pk, interceptor.Attributes{})
		case "adv":
			d, err := strconv.ParseInt(m["ns"], 10, 64)
			if err != nil {
				o.P("bad-op")
				return
			}
			waitNs += d
		case "get":
			ssrc, ok := c19u(m["ssrc"], 32)
			if !ok {
				o.P("bad-op")
				return
			}
			o.P("%s", c19statsAt(getter.Get(uint32(ssrc)), epoch))
		case "close":
			_ = icpt.Close()
		default:
			o.P("bad-op")
		}
	}
	for i := 0; i < len(ops); i++ {
		if name, _ := kv(ops[i]); nest > 0 && name == "rtcpOut" {
			j := i + 1
			for j < len(ops) && j-i-1 < nest && c19nestable(ops[j]) {
				j++
			}
			nested = ops[i+1 : j]
			step(ops[i])
			runNested() // the bottom writer was not reached (an op the interpreter refuses): in sequence
			i = j - 1
			continue
		}
		step(ops[i])
	}
}

// c19nestable: the ops a synchronous transport can cause while the RTCP Write is still on the stack — the peer's
// answer arrives (rtcpIn…), time passes (adv), the application polls the statistics (get).
func c19nestable(op string) bool {
	switch name, _ := kv(op); name {
	case "adv", "get", "rtcpIn", "rtcpInErr", "rtcpInShort":
		return true
	}
	return false
}

// ---------------------------------------------------------------------------------------
// generator

type c19gen struct {
	r     *Rng
	ops   []string
	now   int64
	pool  []uint32          // SSRCs in play (bound or foreign)
	local map[uint32]bool   // bound local
	rem   map[uint32]bool   // bound remote
	rate  map[uint32]uint32 // clock rate of the recorder
	seq   map[uint32]int    // next sequence number per (direction<<32|ssrc) key collapsed
	ts    map[uint32]uint32
	srs   []uint64 // NTP times of SRs written
	rrts  []uint64 // NTP times of RRTR blocks written
	smallPl bool   // incoming packets short enough for a one-octet padding count
	re      bool   // class `reenter`: reports written are often answered at once (answered)
}

func (g *c19gen) add(format string, a ...any) { g.ops = append(g.ops, fmt.Sprintf(format, a...)) }

func (g *c19gen) anySSRC() uint32 { return g.pool[g.r.Intn(len(g.pool))] }

func (g *c19gen) bound() []uint32 {
	var out []uint32
	for _, s := range g.pool {
		if g.local[s] || g.rem[s] {
			out = append(out, s)
		}
	}
	return out
}

func (g *c19gen) boundSSRC() uint32 {
	b := g.bound()
	if len(b) == 0 || g.r.Chance(1, 6) {
		return g.anySSRC()
	}
	return b[g.r.Intn(len(b))]
}

func (g *c19gen) bind(local bool, s uint32) {
	rate := uint32(g.r.Pick(90000, 48000, 8000, 1, 1000, 44100, 4294967295, 3))
	if _, ok := g.rate[s]; !ok {
		g.rate[s] = rate
	}
	if local {
		g.local[s] = true
		g.add("bindL ssrc=%d rate=%d", s, rate)
	} else {
		g.rem[s] = true
		g.add("bindR ssrc=%d rate=%d", s, rate)
	}
}

func (g *c19gen) shape() string {
	r := g.r
	cc := 0
	if r.Chance(1, 3) {
		cc = r.Intn(16)
	}
	xp := 0
	xs := "-"
	if r.Chance(1, 2) {
		xp = r.Range(1, 3)
		n := r.Intn(4)
		var l []int
		switch xp {
		case 1:
			for i := 0; i < n; i++ {
				l = append(l, r.Range(1, 16))
			}
		case 2:
			for i := 0; i < n; i++ {
				l = append(l, r.Pick(0, 1, 2, 3, 4, 17, 255, r.Intn(256)))
			}
		case 3:
			if n > 0 {
				l = append(l, 4*r.Intn(6))
			}
		}
		xs = joinInts(l)
	}
	if g.smallPl { // lengths a one-octet padding count can cover
		return fmt.Sprintf("cc=%d xp=%d xs=%s pl=%d", cc, xp, xs, r.Pick(1, 2, 3, 100, 255, 256, 257, 1200, r.Intn(256), r.Intn(256)))
	}
	return fmt.Sprintf("cc=%d xp=%d xs=%s pl=%d", cc, xp, xs, r.Pick(0, 1, 100, 1200, r.Intn(1400)))
}

func (g *c19gen) attr() string {
	switch g.r.Intn(12) {
	case 0:
		return "nil"
	case 1:
		return "stale"
	}
	return "fresh"
}

// rtp emits one RTP op in direction dir ("In"/"Out") through stream via.
func (g *c19gen) rtp(dir string, via uint32, mode string) {
	r := g.r
	key := via
	if dir == "In" {
		key ^= 0x55555555
	}
	if _, ok := g.seq[key]; !ok {
		g.seq[key] = r.Pick(0, 1, 65530, 65535, 32768, r.Intn(65536))
		g.ts[key] = uint32(r.U64())
	}
	cur := g.seq[key]
	seq := cur
	switch mode {
	case "dup":
		seq = cur - 1
	case "reorder":
		seq = cur - r.Range(2, 40)
	case "jump":
		seq = cur + r.Pick(2, 3, 50, 1000, 32767, 32768, 40000)
		g.seq[key] = seq + 1
	case "uniform":
		seq = r.Intn(65536)
	default:
		g.seq[key] = cur + 1
	}
	seq = ((seq % 65536) + 65536) % 65536
	g.seq[key] = g.seq[key] % 65536
	switch r.Intn(4) {
	case 0:
		g.ts[key] += uint32(r.Pick(0, 160, 960, 3000, 90000))
	case 1:
		g.ts[key] = uint32(r.U64())
	case 2:
		g.ts[key] += uint32(float64(g.rate[via]) * 0.02)
	}
	h := via
	if r.Chance(1, 10) {
		h = g.anySSRC() // header SSRC differs from the stream's
	}
	if dir == "In" {
		g.add("rtpIn via=%d ssrc=%d seq=%d ts=%d %s a=%s", via, h, seq, g.ts[key], g.shape(), g.attr())
	} else {
		g.add("rtpOut via=%d ssrc=%d seq=%d ts=%d %s", via, h, seq, g.ts[key], g.shape())
	}
}

func (g *c19gen) adv(class string) {
	r := g.r
	var d int64
	switch class {
	case "clock":
		switch r.Intn(6) {
		case 0:
			d = -int64(r.Intn(5e9))
		case 1:
			d = int64(r.U64() % uint64(3e18)) // decades
		case 2:
			d = -int64(r.U64() % uint64(9e17))
		case 3:
			d = int64(r.Pick(1, 999999999, 1000000000, 1000000001))
		default:
			d = int64(r.Intn(2e9))
		}
	default:
		switch r.Intn(8) {
		case 0:
			d = int64(r.Intn(1000))
		case 1:
			d = int64(r.Intn(10)) * 1e9
		case 2:
			d = -int64(r.Intn(3e7))
		default:
			d = int64(r.Intn(2e8))
		}
	}
	if g.now+d < 86400e9 || g.now+d > 4e18 {
		d = 0
	}
	g.now += d
	g.add("adv ns=%d", d)
}

func (g *c19gen) ntpNow() uint64 {
	if g.r.Chance(1, 8) {
		return g.r.U64()
	}
	if g.now > 2085978495e9 { // beyond NTP era 0 ToNTP is not meaningful; any value does
		return g.r.U64()
	}
	return verifhooks.ToNTP(time.Unix(0, g.now))
}

func (g *c19gen) block(ssrc uint32) string {
	r := g.r
	lsr, dlsr := uint32(0), uint32(0)
	if len(g.srs) > 0 && r.Chance(5, 6) {
		k := len(g.srs) - 1 - r.Intn(min(len(g.srs), 7))
		lsr = uint32(g.srs[k] >> 16)
		dlsr = uint32(r.Pick(1, 65536, 6553, 655360, r.Intn(1<<20), int(uint32(r.U64()))))
		if r.Chance(1, 10) {
			lsr++
		}
		if r.Chance(1, 12) {
			dlsr = 0
		}
	} else if r.Bool() {
		lsr, dlsr = uint32(r.U64()), uint32(r.U64())
	}
	lsn := uint32(r.Intn(70000))
	if r.Chance(1, 5) {
		lsn = uint32(r.U64())
	}
	return fmt.Sprintf("%d/%d/%d/%d/%d/%d/%d", ssrc, r.Intn(256), r.Pick(0, 1, 100, r.Intn(1<<24), 70000), lsn,
		uint32(r.Pick(0, 1, 90, 4500, int(uint32(r.U64())))), lsr, dlsr)
}

func (g *c19gen) blocks() string {
	n := g.r.Pick(0, 1, 1, 1, 2, 3)
	var b []string
	for i := 0; i < n; i++ {
		b = append(b, g.block(g.boundSSRC()))
	}
	if len(b) == 0 {
		return "-"
	}
	return strings.Join(b, "+")
}

func (g *c19gen) xr(out bool) string {
	r := g.r
	n := r.Pick(0, 1, 1, 2, 3)
	var b []string
	for i := 0; i < n; i++ {
		if out && r.Chance(3, 4) || !out && r.Chance(1, 5) {
			v := g.ntpNow()
			if out {
				g.rrts = append(g.rrts, v)
			}
			b = append(b, fmt.Sprintf("T~%d", v))
			continue
		}
		d := "D"
		for j := r.Intn(4); j > 0; j-- {
			lrr, dl := uint32(0), uint32(0)
			if len(g.rrts) > 0 && r.Chance(5, 6) {
				k := len(g.rrts) - 1 - r.Intn(min(len(g.rrts), 7))
				lrr = uint32(g.rrts[k] >> 16)
				dl = uint32(r.Pick(1, 65536, 6553, r.Intn(1<<20), int(uint32(r.U64()))))
				if r.Chance(1, 12) {
					dl = 0
				}
			} else if r.Bool() {
				lrr, dl = uint32(r.U64()), uint32(r.U64())
			}
			d += fmt.Sprintf("~%d.%d.%d", g.boundSSRC(), lrr, dl)
		}
		b = append(b, d)
	}
	x := "-"
	if len(b) > 0 {
		x = strings.Join(b, "+")
	}
	return fmt.Sprintf("XR:%d:%s", g.boundSSRC(), x)
}

func (g *c19gen) pkt(kind string, out bool) string {
	r := g.r
	switch kind {
	case "SR":
		v := g.ntpNow()
		if out && len(g.srs) > 0 && r.Chance(1, 10) {
			v = g.srs[r.Intn(len(g.srs))] // a repeated NTP time
		}
		s := g.boundSSRC()
		if out {
			g.srs = append(g.srs, v)
		}
		return fmt.Sprintf("SR:%d:%d:%d:%d:%s", s, v, uint32(r.Intn(100000)), uint32(r.U64()), g.blocks())
	case "RR":
		return fmt.Sprintf("RR:%d:%s", g.boundSSRC(), g.blocks())
	case "XR":
		return g.xr(out)
	case "NACK", "PLI":
		return fmt.Sprintf("%s:%d:%d", kind, g.anySSRC(), g.boundSSRC())
	case "FIR":
		var e []uint32
		ne := r.Pick(0, 1, 1, 1, 2, 3)
		if !out && ne == 0 {
			ne = 1 // pion/rtcp cannot unmarshal a FIR without entries
		}
		for j := ne; j > 0; j-- {
			e = append(e, g.boundSSRC())
		}
		media := g.boundSSRC()
		if len(e) > 0 && r.Chance(2, 3) {
			media = e[r.Intn(len(e))]
		}
		if r.Chance(1, 8) {
			media = 0
		}
		return fmt.Sprintf("FIR:%d:%d:%s", g.anySSRC(), media, strings.ReplaceAll(joinInts(e), ",", "+"))
	}
	var e []uint32
	for j := r.Intn(3); j > 0; j-- {
		e = append(e, g.anySSRC())
	}
	return "BYE:" + strings.ReplaceAll(joinInts(e), ",", "+")
}

var c19kinds = []string{"SR", "RR", "XR", "NACK", "PLI", "FIR", "BYE"}

func (g *c19gen) compound(out bool, kinds []string) {
	r := g.r
	n := r.Pick(1, 1, 2, 2, 3, 4, 6)
	var p []string
	for i := 0; i < n; i++ {
		p = append(p, g.pkt(kinds[r.Intn(len(kinds))], out))
	}
	if out {
		g.add("rtcpOut %s", strings.Join(p, " "))
	} else {
		g.add("rtcpIn a=%s %s", g.attr(), strings.Join(p, " "))
	}
}

func (g *c19gen) get() {
	s := g.boundSSRC()
	g.add("get ssrc=%d", s)
}

// answered emits what a synchronous (loop-back) transport makes of a report: the write of SR / XR-RRTR / NACK …,
// [time passes], the application's query, the peer's RR / XR-DLRR that answers the report just written (LSR / LRR of
// the most recent SR / RRTR), a query.  With `nest=` the interpreter runs all of that inside the bottom writer.
func (g *c19gen) answered() {
	r := g.r
	switch r.Intn(5) {
	case 0:
		g.compound(true, []string{"SR"})
	case 1:
		g.compound(true, []string{"XR", "XR", "SR"})
	case 2:
		g.compound(true, []string{"SR", "SR", "NACK", "PLI", "FIR"})
	case 3:
		g.compound(true, []string{"NACK", "NACK", "PLI", "FIR"})
	default:
		g.compound(true, c19kinds)
	}
	if r.Bool() {
		g.adv("")
	}
	if r.Chance(3, 4) {
		g.get()
	}
	srs, rrts := g.srs, g.rrts
	if len(srs) > 0 {
		g.srs = srs[len(srs)-1:]
	}
	if len(rrts) > 0 {
		g.rrts = rrts[len(rrts)-1:]
	}
	g.compound(false, []string{"RR", "RR", "XR", "XR", "SR"}) // (incoming packets are not remembered in g.srs / g.rrts)
	g.srs, g.rrts = srs, rrts
	if r.Bool() {
		g.get()
	}
}

// c19gencase: the classes of c19genplain, a quarter of them with wire shapes on the incoming RTP, and the class
// `padding`: incoming-RTP-heavy traffic (counts / wrap / mixed / lifecycle) of short packets, all of them shaped.
//
// Class `chain` (and a quarter of the other cases): the stats interceptor as a member of a chain, see the head of the file.
// Class `reenter` (and `nest=` on a fifth of the ordinary cases): the synchronous transport, see the head of the file.
func c19gencase(r *Rng, tier string, idx int) Case {
	k := idx % 12
	if k == 11 { // rtt, dlrr, counts, compound, mixed: RTCP written and answered
		cs := c19genplainRe(r, tier, r.Pick(2, 2, 3, 3, 0, 4, 7), false, true)
		cs.Class = "reenter"
		nest := "nest=" + strconv.Itoa(r.Pick(1, 2, 3, 6))
		if r.Bool() {
			cs.Ops = c19chain(r, cs.Ops, r.Chance(2, 3), "")
			cs.Ops[0] = ambWith(cs.Ops[0], nest)
		} else {
			cs.Ops = append([]string{ambWith(ambOp("", "", false, false, false, false), nest)}, cs.Ops...)
		}
		return cs
	}
	if k == 10 { // counts / wrap (jitter): traffic that knows the clock through differences of its readings only
		cs := c19genplain(r, tier, r.Pick(0, 1, 1), false)
		cs.Class = "epoch"
		amb := ambWith(ambOp("", "", false, false, false, false), "epoch="+c19EpochNames[r.Intn(len(c19EpochNames))])
		if r.Chance(1, 4) {
			amb = ambWith(amb, ambShapes(r))
		}
		cs.Ops = append([]string{amb}, cs.Ops...)
		return cs
	}
	if k == 8 {
		cs := c19genplain(r, tier, r.Pick(0, 0, 1, 6, 7), true)
		cs.Class = "padding"
		cs.Ops = append([]string{ambWith(ambOp("", "", false, false, false, false), ambShapes(r))}, cs.Ops...)
		return cs
	}
	if k == 9 {
		cs := c19genplain(r, tier, r.Pick(0, 0, 2, 5, 7, 7), false) // counts, rtt, clock, mixed: outgoing RTP in all of them
		cs.Class = "chain"
		cs.Ops = c19chain(r, cs.Ops, true, "")
		return cs
	}
	cs := c19genplain(r, tier, idx/12*8+k, false)
	shapes := ""
	if r.Chance(1, 4) {
		shapes = ambShapes(r)
	}
	if r.Chance(1, 5) { // any sequence of ops gives the same outputs over a synchronous transport
		shapes = ambWith(shapes, "nest="+strconv.Itoa(r.Pick(1, 2, 3, 6)))
		shapes = strings.TrimPrefix(shapes, " ")
	}
	if r.Chance(1, 4) {
		cs.Ops = c19chain(r, cs.Ops, r.Chance(2, 3), shapes)
	} else if shapes != "" {
		cs.Ops = append([]string{ambWith(ambOp("", "", false, false, false, false), shapes)}, cs.Ops...)
	}
	return cs
}

// c19chain puts the case into a chain: below the stats interceptor (nearer to the transport) the TWCC header
// extension interceptor (when `hdr`; every local stream then negotiates the extension) and transparent members,
// above it transparent members only.
func c19chain(r *Rng, ops []string, hdr bool, shapes string) []string {
	closes := false
	for _, op := range ops {
		closes = closes || op == "close"
	}
	below := []string{"", "noop", "dumps", "rtpfb", "resp", "stats", "dumpr"}
	above := []string{"", "", "noop", "dumps", "rtpfb", "resp", "stats", "dumpr"}
	if closes { // traffic after Close: only members without a closed state of their own
		below, above = []string{"", "noop"}, []string{"", "noop"}
	}
	var before []string
	if x := below[r.Intn(len(below))]; x != "" {
		before = append(before, x)
	}
	if hdr {
		before = append(before, "hdr")
		if x := below[r.Intn(len(below))]; x != "" && r.Chance(1, 3) {
			before = append(before, x)
		}
		if r.Bool() { // the extension interceptor directly below, or next to the transport
			before[0], before[len(before)-1] = before[len(before)-1], before[0]
		}
		// the negotiated id: one no generated packet carries (5, 14), or one some packets carry already (1..3)
		id := r.Pick(5, 5, 14, 1, 2, 3)
		for i, op := range ops {
			if strings.HasPrefix(op, "bindL ") && !r.Chance(1, 8) {
				ops[i] = fmt.Sprintf("%s tcc=%d", op, id)
			}
		}
	}
	amb := ambOp(strings.Join(before, ","), above[r.Intn(len(above))], true, false, r.Chance(1, 6), false)
	fail := ""
	if r.Chance(1, 4) {
		fail = "failrtp=" + []string{"1", "2,3", "%2", "%3", "1,%4"}[r.Intn(5)]
	}
	attrs := ""
	if r.Chance(1, 3) {
		attrs = "attrs=1"
	}
	return append([]string{ambWith(amb, shapes, fail, attrs)}, ops...)
}

func c19genplain(r *Rng, tier string, idx int, smallPl bool) Case {
	return c19genplainRe(r, tier, idx, smallPl, false)
}

func c19genplainRe(r *Rng, tier string, idx int, smallPl bool, re bool) Case {
	classes := []string{"counts", "wrap", "rtt", "dlrr", "compound", "clock", "lifecycle", "mixed"}
	cl := classes[idx%len(classes)]
	g := &c19gen{r: r, smallPl: smallPl, re: re, now: c19Start, local: map[uint32]bool{}, rem: map[uint32]bool{}, rate: map[uint32]uint32{},
		seq: map[uint32]int{}, ts: map[uint32]uint32{}}
	cand := []uint32{1, 2, 3, 0x80000001, 0xFFFFFFFF, 0, 65536, uint32(r.U64())}
	np := r.Range(2, 5)
	for len(g.pool) < np {
		c := cand[r.Intn(len(cand))]
		dup := false
		for _, x := range g.pool {
			dup = dup || x == c
		}
		if !dup {
			g.pool = append(g.pool, c)
		}
	}
	nb := r.Range(1, len(g.pool))
	if cl == "counts" || cl == "mixed" {
		nb = max(nb, 2)
	}
	for i := 0; i < nb; i++ {
		switch {
		case cl == "wrap":
			g.bind(false, g.pool[i])
		case cl == "rtt":
			g.bind(true, g.pool[i])
		default:
			switch r.Intn(3) {
			case 0:
				g.bind(true, g.pool[i])
			case 1:
				g.bind(false, g.pool[i])
			default:
				g.bind(true, g.pool[i])
				g.bind(false, g.pool[i])
			}
		}
	}
	pickVia := func(m map[uint32]bool) (uint32, bool) {
		var c []uint32
		for _, s := range g.pool {
			if m[s] {
				c = append(c, s)
			}
		}
		if len(c) == 0 {
			return 0, false
		}
		return c[r.Intn(len(c))], true
	}
	n := r.Range(8, 45)
	for i := 0; i < n; i++ {
		if g.re && r.Chance(1, 3) {
			g.answered()
			i += 2
			continue
		}
		switch cl {
		case "counts":
			switch r.Intn(8) {
			case 0, 1:
				if v, ok := pickVia(g.rem); ok {
					g.rtp("In", v, "")
				}
			case 2, 3:
				if v, ok := pickVia(g.local); ok {
					g.rtp("Out", v, "")
				}
			case 4:
				g.compound(false, []string{"NACK", "PLI", "FIR", "BYE"})
			case 5:
				g.compound(true, []string{"NACK", "PLI", "FIR", "BYE"})
			case 6:
				g.adv("")
			default:
				g.get()
			}
		case "wrap":
			v, _ := pickVia(g.rem)
			mode := []string{"", "", "", "", "dup", "reorder", "jump", "uniform"}[r.Intn(8)]
			if r.Chance(1, 30) {
				mode = "uniform"
			}
			g.rtp("In", v, mode)
			if r.Chance(2, 3) {
				g.adv("")
			}
			if r.Chance(1, 4) {
				g.add("get ssrc=%d", v)
			}
		case "rtt":
			switch r.Intn(7) {
			case 0, 1:
				g.compound(true, []string{"SR", "SR", "SR", "NACK"})
			case 2, 3:
				g.compound(false, []string{"RR", "RR", "SR", "PLI"})
			case 4:
				if v, ok := pickVia(g.local); ok {
					g.rtp("Out", v, "")
				}
			case 5:
				g.adv("")
			default:
				g.get()
			}
		case "dlrr":
			switch r.Intn(6) {
			case 0, 1:
				g.compound(true, []string{"XR", "XR", "SR"})
			case 2, 3:
				g.compound(false, []string{"XR", "XR", "XR", "NACK", "RR"})
			case 4:
				g.adv("")
			default:
				g.get()
			}
		case "compound":
			switch r.Intn(5) {
			case 0:
				// a permutation of all kinds
				k := append([]string{}, c19kinds...)
				for j := len(k) - 1; j > 0; j-- {
					x := r.Intn(j + 1)
					k[j], k[x] = k[x], k[j]
				}
				k = k[:r.Range(2, len(k))]
				var p []string
				out := r.Bool()
				for _, kind := range k {
					p = append(p, g.pkt(kind, out))
				}
				if out {
					g.add("rtcpOut %s", strings.Join(p, " "))
				} else {
					g.add("rtcpIn a=fresh %s", strings.Join(p, " "))
				}
			case 1:
				g.compound(false, c19kinds)
			case 2:
				g.compound(true, c19kinds)
			case 3:
				g.adv("")
			default:
				g.get()
			}
		default: // clock, lifecycle, mixed
			k := r.Intn(12)
			switch {
			case k < 2:
				if v, ok := pickVia(g.rem); ok {
					g.rtp("In", v, []string{"", "", "dup", "reorder", "jump"}[r.Intn(5)])
				}
			case k < 4:
				if v, ok := pickVia(g.local); ok {
					g.rtp("Out", v, "")
				}
			case k < 6:
				g.compound(false, c19kinds)
			case k < 8:
				g.compound(true, c19kinds)
			case k < 10:
				g.adv(cl)
			case k == 10 && cl == "lifecycle":
				switch r.Intn(7) {
				case 0:
					g.add("close")
				case 1:
					g.bind(r.Bool(), g.anySSRC())
				case 2:
					g.add("rtcpInErr")
				case 3:
					g.add("rtcpInShort n=%d", r.Intn(4))
				case 4:
					if v, ok := pickVia(g.rem); ok {
						g.add("rtpInErr via=%d", v)
					}
				case 5:
					if v, ok := pickVia(g.rem); ok {
						g.add("rtpInShort via=%d n=%d", v, r.Intn(12))
					}
				default:
					g.add("get ssrc=%d", uint32(r.U64()))
				}
			default:
				g.get()
			}
		}
	}
	for _, s := range g.pool {
		g.add("get ssrc=%d", s)
	}
	return Case{Class: cl, Ops: g.ops}
}

func init() {
	register("stats", &Comp{
		N: func(tier string) int {
			if tier == "thorough" {
				return 150000
			}
			return 2800
		},
		Gen: c19gencase,
		Run: func(t *testing.T, ops []string, o *Out) {
			synctest.Test(t, func(t *testing.T) { c19run(t, ops, o) })
		},
	})
}

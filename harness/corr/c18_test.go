package corr

// C18 / C02 (queue): pkg/jitterbuffer — components `pqueue` (PriorityQueue), `jbuf` (JitterBuffer)
// and `jbufint` (the receiver interceptor's read path).
// Every call on the real code runs under a 2 s watchdog: an infinite loop prints `HANG`,
// a panic prints `PANIC`, and the rest of the case is abandoned (the model does the same).

import (
	"encoding/binary"
	"errors"
	"fmt"
	"io"
	"strings"
	"testing"
	"time"

	"github.com/pion/interceptor"
	"github.com/pion/interceptor/pkg/jitterbuffer"
	"github.com/pion/rtp"
)

const (
	c18OK = iota
	c18Panic
	c18Hang
)

// c18Guard runs f under a 2 s watchdog and a recover.
func c18Guard(f func()) int { return c18GuardT(2*time.Second, f) }

// c18RunTimeout is the watchdog of a run op (pushrun / readrun) of n packets.
func c18RunTimeout(op string) time.Duration {
	if strings.HasPrefix(op, "pushrun") || strings.HasPrefix(op, "readrun") {
		return 50 * time.Second
	}
	return 2 * time.Second
}

// c18RunSeq is the i-th sequence number of a run (step -1, 0 or 1).
func c18RunSeq(from, step, i int) int {
	switch step {
	case -1:
		return (from + (65536 - i%65536)) & 0xFFFF
	case 0:
		return from & 0xFFFF
	}
	return (from + i) & 0xFFFF
}

// c18RunArgs parses `from= n= step= ts= obj=`.
func c18RunArgs(op string) (from, n, step, ts, obj int, ok bool) {
	_, m := kv(op)
	var ok1, ok2, ok4, ok5 bool
	from, ok1 = c18KV(m, "from", 65536)
	n, ok2 = c18KV(m, "n", 200001)
	ts, ok4 = c18KV(m, "ts", 1<<32)
	obj, ok5 = c18KV(m, "obj", 1<<31)
	switch m["step"] {
	case "-1":
		step = -1
	case "0":
		step = 0
	case "1":
		step = 1
	default:
		return 0, 0, 0, 0, 0, false
	}
	return from, n, step, ts, obj, ok1 && ok2 && ok4 && ok5
}

func c18GuardT(limit time.Duration, f func()) int {
	done := make(chan int, 1)
	go func() {
		st := c18OK
		defer func() {
			if r := recover(); r != nil {
				st = c18Panic
			}
			done <- st
		}()
		f()
	}()
	select {
	case st := <-done:
		return st
	case <-time.After(limit):
		return c18Hang
	}
}

type c18Objs struct{ ids map[*rtp.Packet]int }

func (s *c18Objs) mk(seq, ts, obj int) *rtp.Packet {
	pl := make([]byte, 4)
	binary.BigEndian.PutUint32(pl, uint32(obj))
	p := &rtp.Packet{Header: rtp.Header{Version: 2, SequenceNumber: uint16(seq), Timestamp: uint32(ts)}, Payload: pl}
	s.ids[p] = obj
	return p
}

// show prints the identity of the very object returned.
func (s *c18Objs) show(p *rtp.Packet) string {
	if p == nil {
		return "nil"
	}
	id, ok := s.ids[p]
	if !ok {
		return fmt.Sprintf("pkt %d:unknown", p.SequenceNumber)
	}
	if len(p.Payload) != 4 || int(binary.BigEndian.Uint32(p.Payload)) != id {
		return fmt.Sprintf("pkt %d:corrupt", p.SequenceNumber)
	}
	return fmt.Sprintf("pkt %d:%d", p.SequenceNumber, id)
}

func c18Err(err error) string {
	switch {
	case err == nil:
		return "-"
	case errors.Is(err, jitterbuffer.ErrPopWhileBuffering):
		return "buffering"
	case errors.Is(err, jitterbuffer.ErrNotFound):
		return "notfound"
	case errors.Is(err, jitterbuffer.ErrInvalidOperation):
		return "invalid"
	case errors.Is(err, jitterbuffer.ErrBufferUnderrun):
		return "underrun"
	case errors.Is(err, io.ErrShortBuffer):
		return "short"
	case errors.Is(err, errC18Upstream):
		return "upstream"
	case strings.Contains(err.Error(), "size insufficient"):
		return "unmarshal" // pion/rtp's header errors are unexported
	}
	return "other"
}

var errC18Upstream = errors.New("upstream read failed")

func (s *c18Objs) ret(p *rtp.Packet, err error) string {
	if err != nil {
		return "err " + c18Err(err)
	}
	return s.show(p)
}

func c18Num(f []string, i int, lim int) (int, bool) {
	if i >= len(f) {
		return 0, false
	}
	n := 0
	if f[i] == "" || len(f[i]) > 10 {
		return 0, false
	}
	for _, ch := range f[i] {
		if ch < '0' || ch > '9' {
			return 0, false
		}
		n = n*10 + int(ch-'0')
	}
	return n, n < lim
}

func c18KV(m map[string]string, k string, lim int) (int, bool) {
	v, ok := m[k]
	if !ok {
		return 0, false
	}
	return c18Num([]string{v}, 0, lim)
}

// ---------------------------------------------------------------------------------------
// pqueue

func c18Chain(q *jitterbuffer.PriorityQueue, s *c18Objs, limit int) string {
	prios, vals, complete := q.VerifChain(limit)
	if !complete {
		return fmt.Sprintf("q len=%d chain=loop", q.Length())
	}
	if len(prios) == 0 {
		return fmt.Sprintf("q len=%d chain=-", q.Length())
	}
	if len(prios) > 40 {
		// long chains are printed as a digest: #<count>/<hash over (priority, object id + 1 | 0 for nil)>
		var h uint64
		for i := range prios {
			var ov uint64
			if vals[i] != nil {
				if id, ok := s.ids[vals[i]]; ok {
					ov = uint64(id) + 1
				} else {
					ov = 4294967290
				}
			}
			h = (h*31 + uint64(prios[i])*7 + ov) % 4294967291
		}
		return fmt.Sprintf("q len=%d chain=#%d/%d", q.Length(), len(prios), h)
	}
	parts := make([]string, len(prios))
	for i := range prios {
		if vals[i] == nil {
			parts[i] = fmt.Sprintf("%d:nil", prios[i])
		} else if id, ok := s.ids[vals[i]]; ok {
			parts[i] = fmt.Sprintf("%d:%d", prios[i], id)
		} else {
			parts[i] = fmt.Sprintf("%d:unknown", prios[i])
		}
	}
	return fmt.Sprintf("q len=%d chain=%s", q.Length(), strings.Join(parts, ","))
}

func runPQueue(_ *testing.T, ops []string, o *Out) {
	q := jitterbuffer.NewQueue()
	s := &c18Objs{ids: map[*rtp.Packet]int{}}
	pushes := 0
	for _, op := range ops {
		var lines []string
		st := c18GuardT(c18RunTimeout(op), func() {
			f := strings.Fields(op)
			bad := []string{"bad-op"}
			lines = bad
			switch {
			case f[0] == "push":
				_, m := kv(op)
				seq, ok1 := c18KV(m, "seq", 65536)
				ts, ok2 := c18KV(m, "ts", 1<<32)
				obj, ok3 := c18KV(m, "obj", 1<<31)
				prio, ok4 := c18KV(m, "prio", 65536)
				if !(ok1 && ok2 && ok3 && ok4) {
					return
				}
				pushes++
				q.Push(s.mk(seq, ts, obj), uint16(prio))
				lines = []string{"ok"}
			case f[0] == "pushrun":
				from, n, step, ts, obj, ok := c18RunArgs(op)
				if !ok {
					return
				}
				for i := 0; i < n; i++ {
					sq := c18RunSeq(from, step, i)
					pushes++
					q.Push(s.mk(sq, ts, obj+i), uint16(sq))
				}
				lines = []string{"ok"}
			case op == "pop":
				lines = []string{s.ret(q.Pop())}
			case f[0] == "popat" && len(f) == 2:
				n, ok := c18Num(f, 1, 65536)
				if !ok {
					return
				}
				lines = []string{s.ret(q.PopAt(uint16(n)))}
			case f[0] == "popts" && len(f) == 2:
				n, ok := c18Num(f, 1, 1<<32)
				if !ok {
					return
				}
				lines = []string{s.ret(q.PopAtTimestamp(uint32(n)))}
			case f[0] == "find" && len(f) == 2:
				n, ok := c18Num(f, 1, 65536)
				if !ok {
					return
				}
				lines = []string{s.ret(q.Find(uint16(n)))}
			case op == "len":
				lines = []string{fmt.Sprintf("len %d", q.Length())}
			case op == "clear":
				q.Clear()
				lines = []string{"ok"}
			default:
				return
			}
			lines = append(lines, c18Chain(q, s, pushes+1))
		})
		switch st {
		case c18Hang:
			o.P("HANG")
			return
		case c18Panic:
			o.P("PANIC")
			return
		}
		for _, l := range lines {
			o.P("%s", l)
		}
	}
}

// ---------------------------------------------------------------------------------------
// jbuf

type c18Events struct{ evs []string }

func (e *c18Events) take() string {
	if len(e.evs) == 0 {
		return "ev=-"
	}
	r := "ev=" + strings.Join(e.evs, ",")
	e.evs = nil
	return r
}

func c18NewJB(min int, ev *c18Events) *jitterbuffer.JitterBuffer {
	var jb *jitterbuffer.JitterBuffer
	if min < 0 {
		jb = jitterbuffer.New()
	} else {
		jb = jitterbuffer.New(jitterbuffer.WithMinimumPacketCount(uint16(min)))
	}
	reg := func(e jitterbuffer.Event, name string) {
		jb.Listen(e, func(jitterbuffer.Event, *jitterbuffer.JitterBuffer) { ev.evs = append(ev.evs, name) })
	}
	reg(jitterbuffer.StartBuffering, "start")
	reg(jitterbuffer.BufferOverflow, "overflow")
	reg(jitterbuffer.BeginPlayback, "playing")
	reg(jitterbuffer.BufferUnderflow, "underflow")
	return jb
}

func c18State(jb *jitterbuffer.JitterBuffer) string {
	sn := jb.VerifSnapshot()
	st := "B"
	if sn.State == jitterbuffer.Emitting {
		st = "E"
	} else if sn.State != jitterbuffer.Buffering {
		st = "?"
	}
	rd := 0
	if sn.Ready {
		rd = 1
	}
	return fmt.Sprintf("st head=%d state=%s ready=%d last=%d min=%d len=%d", sn.Head, st, rd, sn.LastSeq, sn.MinStart, sn.Length)
}

func runJBuf(_ *testing.T, ops []string, o *Out) {
	ev := &c18Events{}
	jb := c18NewJB(-1, ev)
	s := &c18Objs{ids: map[*rtp.Packet]int{}}
	for _, op := range ops {
		var lines []string
		st := c18GuardT(c18RunTimeout(op), func() {
			f := strings.Fields(op)
			lines = []string{"bad-op"}
			res := ""
			switch {
			case f[0] == "new":
				if len(f) == 1 {
					ev.evs = nil
					jb = c18NewJB(-1, ev)
					lines = []string{"ok"}
					return
				}
				_, m := kv(op)
				n, ok := c18KV(m, "min", 65536)
				if !ok || len(f) != 2 {
					return
				}
				ev.evs = nil
				jb = c18NewJB(n, ev)
				lines = []string{"ok"}
				return
			case f[0] == "push":
				_, m := kv(op)
				seq, ok1 := c18KV(m, "seq", 65536)
				ts, ok2 := c18KV(m, "ts", 1<<32)
				obj, ok3 := c18KV(m, "obj", 1<<31)
				if !(ok1 && ok2 && ok3) {
					return
				}
				jb.Push(s.mk(seq, ts, obj))
				res = "ok"
			case f[0] == "pushrun":
				from, n, step, ts, obj, ok := c18RunArgs(op)
				if !ok {
					return
				}
				for i := 0; i < n; i++ {
					jb.Push(s.mk(c18RunSeq(from, step, i), ts, obj+i))
				}
				cnt := map[string]int{}
				for _, e := range ev.evs {
					cnt[e]++
				}
				ev.evs = nil
				lines = []string{fmt.Sprintf("ok start=%d overflow=%d playing=%d underflow=%d",
					cnt["start"], cnt["overflow"], cnt["playing"], cnt["underflow"]), c18State(jb)}
				return
			case op == "pop":
				res = s.ret(jb.Pop())
			case f[0] == "popseq" && len(f) == 2:
				n, ok := c18Num(f, 1, 65536)
				if !ok {
					return
				}
				res = s.ret(jb.PopAtSequence(uint16(n)))
			case f[0] == "popts" && len(f) == 2:
				n, ok := c18Num(f, 1, 1<<32)
				if !ok {
					return
				}
				res = s.ret(jb.PopAtTimestamp(uint32(n)))
			case f[0] == "peek" && len(f) == 2 && (f[1] == "0" || f[1] == "1"):
				res = s.ret(jb.Peek(f[1] == "1"))
			case f[0] == "peekseq" && len(f) == 2:
				n, ok := c18Num(f, 1, 65536)
				if !ok {
					return
				}
				res = s.ret(jb.PeekAtSequence(uint16(n)))
			case f[0] == "sethead" && len(f) == 2:
				n, ok := c18Num(f, 1, 65536)
				if !ok {
					return
				}
				jb.SetPlayoutHead(uint16(n))
				res = "ok"
			case op == "head":
				lines = []string{fmt.Sprintf("head %d", jb.PlayoutHead()), c18State(jb)}
				return
			case f[0] == "clear" && len(f) == 2 && (f[1] == "0" || f[1] == "1"):
				jb.Clear(f[1] == "1")
				res = "ok"
			default:
				return
			}
			lines = []string{res + " " + ev.take(), c18State(jb)}
		})
		switch st {
		case c18Hang:
			o.P("HANG")
			return
		case c18Panic:
			o.P("PANIC")
			return
		}
		for _, l := range lines {
			o.P("%s", l)
		}
	}
}

// ---------------------------------------------------------------------------------------
// jbufint

func runJBufInt(t *testing.T, ops []string, o *Out) {
	fac, err := jitterbuffer.NewInterceptor()
	if err != nil {
		t.Fatal(err)
	}
	ic, err := fac.NewInterceptor("")
	if err != nil {
		t.Fatal(err)
	}
	ri := o.Wrap(ic) // the case's ambient: a chain (with or without transparent neighbours), see ambient_test.go
	var cur []byte
	var curErr error
	upstream := interceptor.RTPReaderFunc(func(b []byte, a interceptor.Attributes) (int, interceptor.Attributes, error) {
		if curErr != nil {
			return len(cur), a, curErr
		}
		n := copy(b, cur)
		for i := n; i < len(b); i++ {
			b[i] = 0xAA // stale bytes after n in the scratch buffer
		}
		return n, o.Bottom(a), nil
	})
	reader := ri.BindRemoteStream(&interceptor.StreamInfo{SSRC: 1}, upstream)
	for _, op := range ops {
		var lines []string
		st := c18GuardT(c18RunTimeout(op), func() {
			f := strings.Fields(op)
			lines = []string{"bad-op"}
			switch {
			case f[0] == "read":
				_, m := kv(op)
				seq, ok1 := c18KV(m, "seq", 65536)
				ts, ok2 := c18KV(m, "ts", 1<<32)
				obj, ok3 := c18KV(m, "obj", 1<<31)
				n, ok4 := c18KV(m, "n", 65537)
				blen, ok5 := c18KV(m, "blen", 65537)
				ue, ok6 := c18KV(m, "uerr", 2)
				if !(ok1 && ok2 && ok3 && ok4 && ok5 && ok6) || n > blen {
					return
				}
				// the packet on the wire: 12-byte header + payload whose first 4 bytes are the object id
				full := make([]byte, 12+4)
				if n > 16 {
					full = make([]byte, n)
				}
				full[0] = 0x80
				full[1] = 96
				binary.BigEndian.PutUint16(full[2:], uint16(seq))
				binary.BigEndian.PutUint32(full[4:], uint32(ts))
				binary.BigEndian.PutUint32(full[8:], 1)
				binary.BigEndian.PutUint32(full[12:], uint32(obj))
				for i := 16; i < len(full); i++ {
					full[i] = byte(i)
				}
				cur = full[:n]
				// `wire=<N>`: the datagram on the wire has N > blen bytes and the transport below cuts it to the
				// buffer it is given (a UDP socket): what the interceptor receives is its first n = blen bytes
				if w, okw := c18KV(m, "wire", 65537); okw && m["wire"] != "" && w > blen && n == blen {
					cur = append(append([]byte(nil), full[:n]...), make([]byte, w-n)...)
				}
				curErr = nil
				if ue == 1 {
					curErr = errC18Upstream
				}
				b := make([]byte, blen)
				for i := range b {
					b[i] = 0xEE
				}
				nn, _, err := reader.Read(b, o.Attrs(interceptor.Attributes{}))
				pk := "-"
				if err == nil {
					if nn < 0 || nn > len(b) {
						pk = "out-of-range"
					} else {
						p := &rtp.Packet{}
						if uerr := p.Unmarshal(b[:nn]); uerr != nil {
							pk = "unparsable"
						} else if len(p.Payload) >= 4 {
							pk = fmt.Sprintf("%d:%d", p.SequenceNumber, binary.BigEndian.Uint32(p.Payload))
						} else {
							pk = fmt.Sprintf("%d:short", p.SequenceNumber)
						}
					}
				}
				lines = []string{fmt.Sprintf("n=%d err=%s pkt=%s", nn, c18Err(err), pk)}
			case f[0] == "readrun":
				from, n, step, ts, obj, ok := c18RunArgs(op)
				_, m := kv(op)
				size, ok2 := c18KV(m, "size", 65537)
				blen, ok3 := c18KV(m, "blen", 65537)
				if !(ok && ok2 && ok3) || size < 16 || size > blen {
					return
				}
				delivered, bytes := 0, 0
				b := make([]byte, blen)
				for i := 0; i < n; i++ {
					full := make([]byte, size)
					full[0] = 0x80
					full[1] = 96
					binary.BigEndian.PutUint16(full[2:], uint16(c18RunSeq(from, step, i)))
					binary.BigEndian.PutUint32(full[4:], uint32(ts))
					binary.BigEndian.PutUint32(full[8:], 1)
					binary.BigEndian.PutUint32(full[12:], uint32(obj+i))
					cur = full
					curErr = nil
					nn, _, err := reader.Read(b, o.Attrs(interceptor.Attributes{}))
					if err == nil {
						delivered++
					}
					bytes += nn
				}
				lines = []string{fmt.Sprintf("ok delivered=%d bytes=%d", delivered, bytes)}
			case op == "unbind":
				ri.UnbindRemoteStream(&interceptor.StreamInfo{SSRC: 1})
				lines = []string{"ok ev=-"}
			case op == "close":
				if err := ri.Close(); err != nil {
					lines = []string{"err other"}
				} else {
					lines = []string{"ok ev=-"}
				}
			default:
				return
			}
			lines = append(lines, c18State(ic.(*jitterbuffer.ReceiverInterceptor).VerifBuffer()))
		})
		switch st {
		case c18Hang:
			o.P("HANG")
			return
		case c18Panic:
			o.P("PANIC")
			return
		}
		for _, l := range lines {
			o.P("%s", l)
		}
	}
}

// ---------------------------------------------------------------------------------------
// generators

// c18Arrivals: k consecutive numbers from base (mod 2^16) in the arrival order of the class.
func c18Arrivals(r *Rng, base, k int, order string) []int {
	xs := make([]int, k)
	for i := range xs {
		xs[i] = (base + i) & 0xFFFF
	}
	switch order {
	case "reverse":
		for i, j := 0, k-1; i < j; i, j = i+1, j-1 {
			xs[i], xs[j] = xs[j], xs[i]
		}
	case "shuffle":
		for i := k - 1; i > 0; i-- {
			j := r.Intn(i + 1)
			xs[i], xs[j] = xs[j], xs[i]
		}
	case "swap":
		for i := 0; i+1 < k; i += 1 + r.Intn(3) {
			if r.Chance(1, 2) {
				xs[i], xs[i+1] = xs[i+1], xs[i]
			}
		}
	}
	return xs
}

// c18Dups inserts duplicates of the (numerically) smallest / a middle / the largest number pushed so far.
func c18Dups(r *Rng, xs []int, where string) []int {
	if len(xs) == 0 {
		return xs
	}
	out := []int{}
	for i, x := range xs {
		out = append(out, x)
		if i == 0 && !r.Chance(1, 3) && where != "head" {
			continue
		}
		if r.Chance(1, 3) || (i == 0 && where == "head") {
			seen := out
			mn, mx := seen[0], seen[0]
			for _, y := range seen {
				if y < mn {
					mn = y
				}
				if y > mx {
					mx = y
				}
			}
			switch where {
			case "head":
				out = append(out, mn)
			case "tail":
				out = append(out, mx)
			default:
				out = append(out, seen[r.Intn(len(seen))])
			}
		}
	}
	return out
}

func c18Base(r *Rng, wrap bool) int {
	if wrap {
		return 65536 - r.Range(1, 12)
	}
	return r.Pick(0, 1, 1000, 32760, 65000, r.Intn(65536))
}

var c18PQClasses = []string{"inorder", "reverse", "shuffle", "dup-head", "dup-mid", "dup-tail", "wrap", "clear-traffic", "ts", "prio-mismatch", "small"}

// c18FullSizes: number of packets buffered without popping in the class `fullcycle`: around one
// and at two full sequence-number cycles, where the uint16 `length` of the queue wraps to 0.
var c18FullSizes = []int{65536, 65535, 65537, 131072}

// c18FullRuns pushes n packets so that every insert goes to the list front (cheap): descending
// from 65535, then duplicates of 0.
func c18FullRuns(n int, kind string) []string {
	first := n
	if first > 65536 {
		first = 65536
	}
	ops := []string{fmt.Sprintf("%s from=65535 n=%d step=-1 ts=7 obj=1", kind, first)}
	if n > first {
		ops = append(ops, fmt.Sprintf("%s from=0 n=%d step=0 ts=8 obj=100001", kind, n-first))
	}
	return ops
}

func genPQFull(r *Rng, idx int) Case {
	n := c18FullSizes[idx%len(c18FullSizes)]
	ops := c18FullRuns(n, "pushrun")
	ops = append(ops, "len", fmt.Sprintf("find %d", r.Pick(1234, 0, 65535)))
	if r.Chance(1, 3) {
		ops = append(ops, r.Pick2("pop", "popat 65535"), "len")
	}
	ops = append(ops, "clear", "len", fmt.Sprintf("find %d", r.Pick(1234, 0, 65535)), "popts 7", "pop",
		fmt.Sprintf("popat %d", r.Pick(500, 0, 65535)))
	ops = append(ops, "push seq=10 ts=9 obj=300001 prio=10", "push seq=9 ts=9 obj=300002 prio=9", "popat 10", "pop", "pop", "len")
	return Case{Class: "fullcycle", Ops: ops}
}

func genJBFull(r *Rng, idx int) Case {
	n := c18FullSizes[idx%len(c18FullSizes)]
	reset := (idx / len(c18FullSizes)) % 2
	ops := []string{fmt.Sprintf("new min=%d", r.Pick(50, 1, 0, 60, 65535))}
	if r.Chance(1, 8) {
		ops = []string{"new"}
	}
	ops = append(ops, c18FullRuns(n, "pushrun")...)
	ops = append(ops, "head", fmt.Sprintf("peek %d", r.Intn(2)), "peekseq 1234")
	if r.Chance(1, 3) {
		ops = append(ops, "pop", "head")
	}
	ops = append(ops, fmt.Sprintf("clear %d", reset), "peekseq 1234", "peek 0", "peek 1", "pop", "popts 7", "popseq 2000")
	// a new stream: 1000..1048 and 1050.. (1049 missing): nothing older may fill the gap
	ops = append(ops, "pushrun from=1000 n=49 step=1 ts=9 obj=300001", "pushrun from=1050 n=12 step=1 ts=9 obj=300100")
	if reset == 0 {
		ops = append(ops, "sethead 1000")
	}
	for i := 0; i < 52; i++ {
		ops = append(ops, "pop")
	}
	ops = append(ops, "popts 7", "peekseq 1049", "sethead 1049", "pop", "head")
	return Case{Class: "fullcycle", Ops: ops}
}

func genIntFull(r *Rng, idx int) Case {
	// the interceptor pops while it pushes (minimum 50): descending from 65535 the head moves to 0
	// after the first pop and is not found again, so 65535 reads leave 65534 packets buffered; two
	// duplicates of 1 make it 65536.  Every failing pop walks the whole list: quadratic, thorough tier only.
	ops := []string{"readrun from=65535 n=65535 step=-1 ts=7 obj=1 size=16 blen=16"}
	extra := []int{2, 1, 3}[idx%3]
	ops = append(ops, fmt.Sprintf("readrun from=1 n=%d step=0 ts=8 obj=100001 size=16 blen=16", extra))
	ops = append(ops, r.Pick2("unbind", "close"))
	ops = append(ops, "readrun from=1000 n=49 step=1 ts=9 obj=300001 size=16 blen=1500")
	for i := 0; i < 60; i++ {
		ops = append(ops, fmt.Sprintf("read seq=%d ts=9 obj=%d n=16 blen=1500 uerr=0", 1050+i, 300100+i))
	}
	return Case{Class: "fullcycle", Ops: ops}
}

// number of `fullcycle` cases at the start of the case index range
func c18NFull(comp, tier string) int {
	switch comp {
	case "pqueue":
		return 4
	case "jbuf":
		return 8
	}
	if tier == "thorough" {
		return 3
	}
	return 0
}

func genPQueue(r *Rng, tier string, idx int) Case {
	if idx < c18NFull("pqueue", tier) {
		return genPQFull(r, idx)
	}
	idx -= c18NFull("pqueue", tier)
	if tier == "thorough" && idx < c18ExhN(2) {
		return c18ExhPQ(idx)
	}
	cl := c18PQClasses[idx%len(c18PQClasses)]
	ops := []string{}
	obj := 0
	push := func(seq, prio, ts int) {
		obj++
		ops = append(ops, fmt.Sprintf("push seq=%d ts=%d obj=%d prio=%d", seq, ts, obj, prio))
	}
	if cl == "small" {
		// random walk over a 4-number alphabet
		base := c18Base(r, r.Chance(1, 4))
		al := []int{base, (base + 1) & 0xFFFF, (base + 2) & 0xFFFF, (base + 3) & 0xFFFF}
		n := r.Range(3, 14)
		for i := 0; i < n; i++ {
			x := al[r.Intn(4)]
			switch r.Intn(10) {
			case 0, 1, 2, 3, 4:
				push(x, x, 100+r.Intn(3))
			case 5:
				ops = append(ops, fmt.Sprintf("popat %d", x))
			case 6:
				ops = append(ops, "pop")
			case 7:
				ops = append(ops, fmt.Sprintf("find %d", (x+r.Pick(0, 0, 4))&0xFFFF))
			case 8:
				ops = append(ops, fmt.Sprintf("popts %d", 100+r.Intn(4)))
			case 9:
				ops = append(ops, r.Pick2("clear", "len"))
			}
		}
		ops = append(ops, fmt.Sprintf("find %d", (base+7)&0xFFFF))
		return Case{Class: cl, Ops: ops}
	}
	k := r.Range(2, 14)
	base := c18Base(r, cl == "wrap")
	order := "inorder"
	switch cl {
	case "reverse":
		order = "reverse"
	case "shuffle", "wrap", "clear-traffic", "ts", "prio-mismatch":
		order = r.Pick2("shuffle", "swap")
	case "dup-head", "dup-mid", "dup-tail":
		order = r.Pick2("inorder", "shuffle")
	}
	xs := c18Arrivals(r, base, k, order)
	switch cl {
	case "dup-head":
		xs = c18Dups(r, xs, "head")
	case "dup-mid":
		xs = c18Dups(r, xs, "mid")
	case "dup-tail":
		xs = c18Dups(r, xs, "tail")
	}
	query := func() {
		x := (base + r.Intn(k+2)) & 0xFFFF
		switch r.Intn(8) {
		case 0, 1:
			ops = append(ops, fmt.Sprintf("find %d", x))
		case 2, 3:
			ops = append(ops, fmt.Sprintf("popat %d", x))
		case 4:
			ops = append(ops, "pop")
		case 5:
			ops = append(ops, fmt.Sprintf("popts %d", 500+r.Intn(k+2)))
		case 6:
			ops = append(ops, "len")
		case 7:
			if cl == "clear-traffic" {
				ops = append(ops, "clear")
			} else {
				ops = append(ops, fmt.Sprintf("find %d", (base+k+3)&0xFFFF))
			}
		}
	}
	for i, x := range xs {
		ts := 500 + ((x - base) & 0xFFFF)
		if cl == "ts" {
			ts = 500 + ((x-base)&0xFFFF)/2 // pairs share a timestamp
		}
		prio := x
		if cl == "prio-mismatch" && r.Chance(1, 3) {
			prio = (base + r.Intn(k)) & 0xFFFF
		}
		push(x, prio, ts)
		if r.Chance(1, 3) {
			query()
		}
		if cl == "clear-traffic" && i == len(xs)/2 {
			ops = append(ops, "clear")
		}
	}
	ops = append(ops, fmt.Sprintf("find %d", (base+k+5)&0xFFFF)) // absent: walks the whole list
	for i := r.Intn(k + 2); i > 0; i-- {
		query()
	}
	if r.Chance(1, 2) {
		ops = append(ops, "clear", "len")
		push(base, base, 7)
		ops = append(ops, "pop", "pop")
	}
	return Case{Class: cl, Ops: ops}
}

func (r *Rng) Pick2(a, b string) string {
	if r.Bool() {
		return a
	}
	return b
}

// exhaustive enumeration: all op sequences of length 7 over a 6-op alphabet (4 pushes of the
// numbers A<B<C<D + two further ops per family); every prefix is observed because every op
// prints the state, so this covers all sequences up to length 7.
const c18ExhLen = 7

func c18ExhN(families int) int {
	n := 1
	for i := 0; i < c18ExhLen; i++ {
		n *= 6
	}
	return n * families
}

func c18Digits(idx int) (fam int, ds []int) {
	per := c18ExhN(1)
	fam = idx / per
	idx %= per
	for i := 0; i < c18ExhLen; i++ {
		ds = append(ds, idx%6)
		idx /= 6
	}
	return
}

func c18ExhPQ(idx int) Case {
	fam, ds := c18Digits(idx)
	al := [][]int{{10, 11, 12, 13}, {65534, 65535, 0, 1}}[fam%2]
	extra := [][2]string{{fmt.Sprintf("popat %d", al[1]), "clear"}, {"pop", "popts 102"}}[fam%2]
	ops := []string{}
	for i, d := range ds {
		if d < 4 {
			ops = append(ops, fmt.Sprintf("push seq=%d ts=%d obj=%d prio=%d", al[d], 100+d, i+1, al[d]))
		} else {
			ops = append(ops, extra[d-4])
		}
	}
	ops = append(ops, "find 77")
	return Case{ID: fmt.Sprintf("exh%d-%d", fam, idx), Class: fmt.Sprintf("exhaustive%d", fam), Ops: ops}
}

func c18ExhJB(idx int) Case {
	fam, ds := c18Digits(idx)
	al := [][]int{{10, 11, 12, 13}, {65534, 65535, 0, 1}, {10, 11, 12, 13}}[fam%3]
	extra := [][2]string{{"pop", "clear 0"}, {"pop", "clear 1"}, {fmt.Sprintf("popseq %d", al[1]), fmt.Sprintf("sethead %d", al[2])}}[fam%3]
	ops := []string{fmt.Sprintf("new min=%d", []int{2, 1, 1}[fam%3])}
	for i, d := range ds {
		if d < 4 {
			ops = append(ops, fmt.Sprintf("push seq=%d ts=%d obj=%d", al[d], 100+d, i+1))
		} else {
			ops = append(ops, extra[d-4])
		}
	}
	ops = append(ops, "peekseq 77", "pop")
	return Case{ID: fmt.Sprintf("exh%d-%d", fam, idx), Class: fmt.Sprintf("exhaustive%d", fam), Ops: ops}
}

var c18JBClasses = []string{"inorder", "reorder", "dup-head", "dup-mid", "dup-tail", "wrap", "sethead", "clear0", "clear1-rebind", "small", "ts", "mixed"}

func genJBuf(r *Rng, tier string, idx int) Case {
	if idx < c18NFull("jbuf", tier) {
		return genJBFull(r, idx)
	}
	idx -= c18NFull("jbuf", tier)
	if tier == "thorough" && idx < c18ExhN(3) {
		return c18ExhJB(idx)
	}
	cl := c18JBClasses[idx%len(c18JBClasses)]
	ops := []string{}
	obj := 0
	push := func(seq, ts int) {
		obj++
		ops = append(ops, fmt.Sprintf("push seq=%d ts=%d obj=%d", seq, ts, obj))
	}
	min := r.Range(0, 60)
	if r.Chance(1, 3) {
		min = r.Range(0, 5)
	}
	if cl == "small" {
		min = r.Range(0, 3)
	}
	if r.Chance(1, 12) {
		ops = append(ops, "new")
		min = 50
	} else {
		ops = append(ops, fmt.Sprintf("new min=%d", min))
	}
	base := c18Base(r, cl == "wrap" || r.Chance(1, 8))
	if cl == "small" {
		al := []int{base, (base + 1) & 0xFFFF, (base + 2) & 0xFFFF, (base + 3) & 0xFFFF}
		n := r.Range(4, 16)
		for i := 0; i < n; i++ {
			x := al[r.Intn(4)]
			switch r.Intn(14) {
			case 0, 1, 2, 3, 4:
				push(x, 100+r.Intn(3))
			case 5, 6:
				ops = append(ops, "pop")
			case 7:
				ops = append(ops, fmt.Sprintf("popseq %d", x))
			case 8:
				ops = append(ops, fmt.Sprintf("popts %d", 100+r.Intn(4)))
			case 9:
				ops = append(ops, fmt.Sprintf("peek %d", r.Intn(2)))
			case 10:
				ops = append(ops, fmt.Sprintf("peekseq %d", (x+r.Pick(0, 0, 4))&0xFFFF))
			case 11:
				ops = append(ops, fmt.Sprintf("sethead %d", x))
			case 12:
				ops = append(ops, fmt.Sprintf("clear %d", r.Intn(2)))
			case 13:
				ops = append(ops, "head")
			}
		}
		ops = append(ops, fmt.Sprintf("peekseq %d", (base+9)&0xFFFF), "pop")
		return Case{Class: cl, Ops: ops}
	}
	k := min + r.Range(0, 8)
	if k < 2 {
		k = r.Range(2, 6)
	}
	if cl == "inorder" && r.Chance(1, 4) {
		k += 100 // beyond overflowLen (100): BufferOverflow events
	}
	order := "inorder"
	switch cl {
	case "reorder", "wrap", "sethead", "mixed", "ts", "clear0", "clear1-rebind":
		order = r.Pick2("shuffle", "swap")
	case "dup-head", "dup-mid", "dup-tail":
		order = r.Pick2("inorder", "swap")
	}
	xs := c18Arrivals(r, base, k, order)
	switch cl {
	case "dup-head":
		xs = c18Dups(r, xs, "head")
	case "dup-mid":
		xs = c18Dups(r, xs, "mid")
	case "dup-tail":
		xs = c18Dups(r, xs, "tail")
	}
	query := func(b, span int) {
		x := (b + r.Intn(span+2)) & 0xFFFF
		hi := 10
		if cl == "sethead" || cl == "mixed" {
			hi = 13
		}
		switch r.Intn(hi) {
		case 0, 1, 2, 3:
			ops = append(ops, "pop")
		case 4:
			ops = append(ops, fmt.Sprintf("peek %d", r.Intn(2)))
		case 5:
			ops = append(ops, fmt.Sprintf("peekseq %d", x))
		case 6:
			ops = append(ops, "head")
		case 7:
			if cl == "ts" || cl == "mixed" {
				ops = append(ops, fmt.Sprintf("popts %d", 500+r.Intn(span+2)))
			} else {
				ops = append(ops, "pop")
			}
		case 8:
			if cl == "mixed" || cl == "sethead" {
				ops = append(ops, fmt.Sprintf("popseq %d", x))
			} else {
				ops = append(ops, "peek 1")
			}
		case 9:
			ops = append(ops, fmt.Sprintf("peekseq %d", (b+span+9)&0xFFFF))
		default:
			ops = append(ops, fmt.Sprintf("sethead %d", x))
		}
	}
	ts := func(x, b int) int {
		d := (x - b) & 0xFFFF
		if cl == "ts" {
			d /= 2
		}
		return 500 + d
	}
	for _, x := range xs {
		push(x, ts(x, base))
		if r.Chance(1, 6) {
			query(base, k)
		}
	}
	for i := r.Range(1, k+3); i > 0; i-- {
		query(base, k)
	}
	switch cl {
	case "clear0", "mixed":
		ops = append(ops, "clear 0", "peek 0", "pop", "peekseq "+fmt.Sprint(xs[0]))
		b2 := (base + r.Pick(0, k, 3000)) & 0xFFFF
		k2 := r.Range(1, 8)
		for _, x := range c18Arrivals(r, b2, k2, "swap") {
			push(x, ts(x, b2))
			if r.Chance(1, 3) {
				query(b2, k2)
			}
		}
		ops = append(ops, fmt.Sprintf("sethead %d", b2))
		for i := 0; i < k2+1; i++ {
			ops = append(ops, "pop")
		}
	case "clear1-rebind":
		ops = append(ops, "clear 1", "peek 0", "pop", "peekseq "+fmt.Sprint(xs[0]))
		// Clear(true) resets the minimum to 50: a new stream needs 50 packets to start
		b2 := (base + r.Pick(k, 3000, 40000)) & 0xFFFF
		k2 := 50 + r.Range(0, 4)
		if r.Chance(1, 4) {
			k2 = r.Range(1, 49)
		}
		for _, x := range c18Arrivals(r, b2, k2, r.Pick2("inorder", "swap")) {
			push(x, ts(x, b2))
		}
		for i := r.Range(2, 6); i > 0; i-- {
			ops = append(ops, "pop")
		}
		ops = append(ops, "head")
	}
	return Case{Class: cl, Ops: ops}
}

// `recycle`: Clear is not a terminal operation.  The interceptor's Close and UnbindRemoteStream are both "Clear" for
// the property; the cycle [traffic until the buffer is emitting with packets still buffered; Close or Unbind] is
// repeated two to four times on ONE interceptor object (Close, re-use, Close again, re-use again; Unbind and Close
// mixed; now and then two in a row, or a cycle too short to start playback).  After EVERY one of them nothing
// buffered earlier may be returned and the next stream buffers its own 50 packets — the streams of a case use
// overlapping, adjacent or distant sequence ranges, so a left-over packet would fit into the next stream.
var c18IntClasses = []string{"stream", "reorder", "sizes", "short", "uerr", "smallbuf", "rebind", "dup", "recycle"}

func genJBufInt(r *Rng, tier string, idx int) Case {
	if idx < c18NFull("jbufint", tier) {
		return genIntFull(r, idx)
	}
	idx -= c18NFull("jbufint", tier)
	cl := c18IntClasses[idx%len(c18IntClasses)]
	ops := []string{}
	obj := 0
	base := c18Base(r, r.Chance(1, 4))
	wr := NewRng(r.s ^ 0x77195E)
	read := func(seq int) {
		obj++
		n := 16 + r.Pick(0, 0, 4, 100, 1184, r.Intn(1400))
		ue := 0
		switch cl {
		case "stream", "reorder", "rebind", "dup":
			if r.Chance(2, 3) {
				n = 16 + r.Pick(0, 4, 100)
			}
		case "short":
			if r.Chance(1, 6) {
				n = r.Range(0, 11)
			}
		case "uerr":
			if r.Chance(1, 6) {
				ue = 1
			}
		}
		blen := r.Pick(1500, 1500, 1500, n, n+r.Intn(40))
		if cl == "smallbuf" && r.Chance(1, 3) {
			blen = n
		}
		if cl == "short" && n < 12 {
			blen = r.Pick(1500, n, 12, 16)
			if blen < n {
				blen = n
			}
		}
		op := fmt.Sprintf("read seq=%d ts=%d obj=%d n=%d blen=%d uerr=%d", seq, 1000+obj, obj, n, blen, ue)
		if (cl == "smallbuf" || cl == "sizes") && blen == n && n >= 16 && ue == 0 && wr.Chance(1, 4) {
			op += fmt.Sprintf(" wire=%d", n+wr.Pick(1, 4, 12, 100, 1+wr.Intn(1400))) // the buffer is smaller than the datagram
		}
		ops = append(ops, op)
	}
	k := 50 + r.Range(0, 25)
	if r.Chance(1, 8) {
		k = r.Range(1, 49)
	}
	order := "inorder"
	if cl == "reorder" || cl == "sizes" || cl == "smallbuf" {
		order = r.Pick2("swap", "shuffle")
	}
	xs := c18Arrivals(r, base, k, order)
	if cl == "dup" {
		xs = c18Dups(r, xs, []string{"head", "mid", "tail"}[r.Intn(3)])
	}
	for _, x := range xs {
		read(x)
	}
	if cl == "recycle" {
		cycles := r.Range(2, 4)
		kinds := []string{"close", "close", "unbind"}
		mode := r.Intn(4) // 0: Close every time, 1: Unbind every time, 2/3: mixed
		b := base
		for c := 0; c < cycles; c++ {
			end := kinds[r.Intn(len(kinds))]
			switch mode {
			case 0:
				end = "close"
			case 1:
				end = "unbind"
			}
			ops = append(ops, end)
			if r.Chance(1, 6) {
				ops = append(ops, kinds[r.Intn(len(kinds))]) // two in a row, nothing in between
			}
			// the next stream: the same numbers again, the numbers that follow, numbers just below, or far away
			b = (b + r.Pick(0, 0, k, k-r.Range(1, 49), 65536-r.Range(1, 60), 5000, 40000)) & 0xFFFF
			k = 50 + r.Range(1, 25)
			if c+1 < cycles && r.Chance(1, 8) {
				k = r.Range(1, 49) // this one never starts playback
			}
			for _, x := range c18Arrivals(r, b, k, r.Pick2("inorder", r.Pick2("inorder", "swap"))) {
				read(x)
			}
		}
	}
	if cl == "rebind" {
		ops = append(ops, r.Pick2("unbind", "close"))
		b2 := (base + r.Pick(k, 5000, 40000)) & 0xFFFF
		for _, x := range c18Arrivals(r, b2, 50+r.Range(0, 6), "inorder") {
			read(x)
		}
	}
	return Case{Class: cl, Ops: ops}
}

func init() {
	register("pqueue", &Comp{
		N: func(tier string) int {
			if tier == "thorough" {
				return c18ExhN(2) + 100000
			}
			return 3000
		},
		Gen: genPQueue,
		Run: runPQueue,
	})
	register("jbuf", &Comp{
		N: func(tier string) int {
			if tier == "thorough" {
				return c18ExhN(3) + 100000
			}
			return 3000
		},
		Gen: genJBuf,
		Run: runJBuf,
	})
	// (ambient: in a third of the well-formed cases the interceptor sits in a chain, alone or next to a NoOp; the
	// jitter buffer's observable behaviour must not change.  Real neighbours are not used here: a transparent wrapper
	// returns n=0 with an error, while the jitter buffer reports the bytes it buffered together with
	// ErrPopWhileBuffering, and this component prints n.)
	register("jbufint", &Comp{
		N: func(tier string) int {
			if tier == "thorough" {
				return 60000
			}
			return 1000
		},
		Gen: func(r *Rng, tier string, idx int) Case {
			cs := genJBufInt(r, tier, idx)
			if !strings.Contains(cs.Class, "malformed") && !strings.Contains(cs.Class, "err") && r.Chance(1, 3) {
				cs.Ops = append([]string{ambOp(c05PickS(r, "", "noop"), c05PickS(r, "", "", "noop"), true, false, r.Chance(1, 3), true)}, cs.Ops...)
			}
			return cs
		},
		Run: runJBufInt,
	})
}

package corr

// Component `ccpath` (properties C09 and C17; model = the UNCHANGED `fbadapter` driver): the feedback adapter as an
// application reaches it —
//
//	application Write -> [ambient neighbours] -> cc.Interceptor (pkg/cc) -> gcc.SendSideBWE -> LeakyBucketPacer
//	   (queue, released by the 5 ms tick) -> stream writer of AddStream (sets the TWCC attribute, FeedbackAdapter.OnSent)
//	   -> [ambient neighbours] -> next writer
//
// with SEVERAL streams on one estimator: one or two that negotiated transport-cc (each under its own extension id)
// and any number that did not, whose packets carry other header extensions under the very ids the TWCC streams
// negotiated; the caller passes nil / empty / its own attributes and edits its map after Write returned.  The ops are
// those of `fbadapter` (`sent tw= size= t=`, `sent ssrc= seq= size= t=`, `sentbad t=`, `twcc …`, `ccfb …`, `len`); a
// `sent … t=T` op here means "the application writes this packet so that the pacer releases it at T", T on the 5 ms
// grid of the pacer (the generator takes the cases of `fbadapter` and moves their send times onto the grid).  Everything
// else about a packet (stream, RTP sequence number, other extensions, payload bytes, attributes) is drawn from a hash
// of the op text, so that a shrunk case still means the same packets.  TWCC / RFC 8888 feedback is then given to the
// adapter INSIDE the estimator (verif hook SendSideBWE.VerifFeedbackAdapter): every acknowledgement must name the packet
// really sent, with its recorded size and departure time — what the model says for the `sent` ops.
//
// On top of the comparison with the model the interpreter checks the pacer's own contract (C17) on every tick: the next
// writer gets every packet the pacer accepted exactly once, in acceptance order, at the tick, with the header, payload
// and attributes the application passed (`DELIVERY …` lines, which no model prints).  A key that is sent twice within
// the 250-entry history (classes `resend`, `mixed`: a retransmission on the media SSRC, a repeated transport-wide
// number) is such a packet.
//
// `twin <op>`: a second cc interceptor built from the same factory (its own estimator, pacer and adapter).
//
// Feedback through the RTCP reader chain (round 6).  Most `twcc` / `ccfb` ops whose feedback survives Marshal/Unmarshal
// unchanged are not handed to the adapter by the harness but READ: the bytes come up the chain's RTCP reader, pkg/cc
// parses them (Attributes.GetRTCPPackets: parsed ONCE per read, the parsed packets shared by every reader of the chain)
// and hands them to its estimator's WriteRTCP — the estimator the application supplied through the public
// BandwidthEstimatorFactory: gcc.SendSideBWE with WriteRTCP overridden to feed the very objects it was handed to the
// estimator's adapter and print the acknowledgements (the rate controller is left alone, so release instants stay
// what the pacer classes expect).  The ambient puts rtpfb interceptors — the library's other feedback consumer —
// BEFORE and/or AFTER pkg/cc: the acknowledgements of the adapter must be the model's wherever it sits, every rtpfb of
// the chain must report the same arrivals (`CONSUMER-DIFF`), each of them what the bytes encode, and the parsed
// packets in the attributes must still say what the bytes said after the Read (`INPUT-REWRITTEN`, ambient_rtcp_test.go).

import (
	"bytes"
	"fmt"
	"sort"
	"strings"
	"testing"
	"testing/synctest"
	"time"

	"github.com/pion/interceptor"
	"github.com/pion/interceptor/pkg/cc"
	"github.com/pion/interceptor/pkg/gcc"
	"github.com/pion/interceptor/pkg/rtpfb"
	"github.com/pion/interceptor/pkg/verifhooks"
	"github.com/pion/logging"
	"github.com/pion/rtcp"
	"github.com/pion/rtp"
)

const ccpTick = 5 * time.Millisecond

type ccpDelivery struct {
	at      time.Time
	hdr     rtp.Header
	payload []byte
	attrs   interceptor.Attributes
	hadNil  bool
}

type ccpStream struct {
	info  *interceptor.StreamInfo
	extID uint8 // negotiated transport-cc id, 0 = none
	seq   uint16
	w     interceptor.RTPWriter
}

type ccpPeer struct {
	ic      interceptor.Interceptor
	bwe     *gcc.SendSideBWE
	streams map[uint32]*ccpStream
	got     []ccpDelivery
	est     *ccpEstimator
	reader  interceptor.RTCPReader // the chain's RTCP reader over a transport that returns rtcpIn
	rtcpIn  []byte
	taps    []*ccpTap // one directly above every rtpfb interceptor of the chain, innermost first
}

// ccpEstimator is the estimator pkg/cc is given: gcc.SendSideBWE, except that RTCP handed to it goes to onRTCP.
type ccpEstimator struct {
	*gcc.SendSideBWE
	onRTCP func([]rtcp.Packet)
	calls  int
}

func (e *ccpEstimator) WriteRTCP(pkts []rtcp.Packet, _ interceptor.Attributes) error {
	e.calls++
	if e.onRTCP != nil {
		e.onRTCP(pkts)
	}
	return nil
}

// ccpTap sits directly above an rtpfb interceptor: it takes the report that interceptor attached to the attributes of
// a Read (and removes it, so that the next tap sees the next rtpfb's report or none).
type ccpTap struct {
	interceptor.NoOp
	has    bool
	report rtpfb.Report
}

func (t *ccpTap) BindRTCPReader(reader interceptor.RTCPReader) interceptor.RTCPReader {
	return interceptor.RTCPReaderFunc(func(b []byte, a interceptor.Attributes) (int, interceptor.Attributes, error) {
		n, attr, err := reader.Read(b, a)
		if rep, ok := attr.Get(rtpfb.CCFBAttributesKey).(rtpfb.Report); ok && err == nil {
			t.has, t.report = true, rep
			delete(attr, rtpfb.CCFBAttributesKey)
		}
		return n, attr, err
	})
}

// ccpWrap is o.Wrap with a tap above every `rtpfb` neighbour.
func ccpWrap(o *Out, ic interceptor.Interceptor, pe *ccpPeer) interceptor.Interceptor {
	if o == nil || o.Amb == nil || (!o.Has("rtpfb", true) && !o.Has("rtpfb", false)) {
		return o.Wrap(ic)
	}
	var all []interceptor.Interceptor
	add := func(kinds []string) {
		for _, k := range kinds {
			all = append(all, ambNeighbour(k))
			if k == "rtpfb" {
				tap := &ccpTap{}
				pe.taps = append(pe.taps, tap)
				all = append(all, tap)
			}
		}
	}
	add(o.Amb.Before)
	all = append(all, ic)
	add(o.Amb.After)
	return interceptor.NewChain(all)
}

// ccpFeedbackPacket: the RTCP packet of a `twcc` / `ccfb` op and its wire form, when the wire form carries exactly
// what the op says (hand-made feedback with inconsistent counts, unknown chunks, … does not survive Marshal/Unmarshal
// and goes to the adapter directly).
func ccpFeedbackPacket(name string, m map[string]string) ([]byte, bool) {
	switch name {
	case "twcc":
		fb, ok := c09ParseTWCC(m)
		if !ok {
			return nil, false
		}
		// TransportLayerCC.Marshal writes the header it finds in the struct: fill it in as the library's recorder does
		n := 20 + 2*len(fb.PacketChunks)
		for _, d := range fb.RecvDeltas {
			n++
			if d.Type != rtcp.TypeTCCPacketReceivedSmallDelta {
				n++
			}
		}
		fb.Header = rtcp.Header{Padding: n%4 != 0, Count: rtcp.FormatTCC, Type: rtcp.TypeTransportSpecificFeedback, Length: uint16(fb.MarshalSize()/4 - 1)}
		raw, err := fb.Marshal()
		if err != nil || len(raw) != fb.MarshalSize() || len(raw) > 1400 {
			return nil, false
		}
		back := &rtcp.TransportLayerCC{}
		if err := back.Unmarshal(raw); err != nil || rtcpText(back) != rtcpText(fb) {
			return nil, false
		}
		return raw, true
	case "ccfb":
		fb, ok := c09ParseCCFB(m)
		if !ok || c09ZS(verifhooks.ToTime(uint64(fb.ReportTimestamp)<<16)) != m["ref"] {
			return nil, false
		}
		raw, err := fb.Marshal()
		if err != nil || len(raw) > 1400 {
			return nil, false
		}
		back := &rtcp.CCFeedbackReport{}
		if err := back.Unmarshal(raw); err != nil || rtcpText(back) != rtcpText(fb) {
			return nil, false
		}
		return raw, true
	}
	return nil, false
}

// ccpArrived lists what a report says arrived: one line per packet, in report order, without what depends on the
// position of the reporting interceptor in the chain (its own packet counter, the departure instant).
func ccpArrived(rep rtpfb.Report) []string {
	var out []string
	for _, p := range rep.PacketReports {
		if !p.Arrived {
			continue
		}
		if p.IsTWCC {
			out = append(out, fmt.Sprintf("tw=%d size=%d arr=%s ecn=%d", p.TWCCSequenceNumber, p.Size, c09ZS(p.Arrival), p.ECN))
		} else {
			out = append(out, fmt.Sprintf("ssrc=%d seq=%d size=%d arr=%s ecn=%d", p.SSRC, p.RTPSequenceNumber, p.Size, c09ZS(p.Arrival), p.ECN))
		}
	}
	return out
}

type ccpExpect struct {
	hdr     rtp.Header
	payload []byte
	attrs   interceptor.Attributes // the caller's attributes at the time of Write (a copy)
	twcc    bool
	dropped bool // `sentbad`: the stream writer refuses the packet (no transport-cc extension)
	op      string
}

func ccpHash(s string) *Rng {
	h := uint64(14695981039346656037) // FNV-1a, 64 bit
	for i := 0; i < len(s); i++ {
		h ^= uint64(s[i])
		h *= 1099511628211
	}
	return NewRng(h)
}

func ccpIsSend(op string) (time.Time, bool) {
	rest, _ := twinOp(op)
	if !strings.HasPrefix(rest, "sent ") && !strings.HasPrefix(rest, "sentbad ") {
		return time.Time{}, false
	}
	_, m := kv(rest)
	if m["t"] == "" {
		return time.Time{}, false
	}
	return c09ZT(m["t"]), true
}

func c09RunCCPath(t *testing.T, ops []string, o *Out) {
	synctest.Test(t, func(t *testing.T) {
		start := time.Now()
		lf := logging.NewDefaultLoggerFactory()
		lf.DefaultLogLevel = logging.LogLevelDisabled
		var made []*gcc.SendSideBWE
		// ONE cc factory; every interceptor it builds gets its own estimator from the estimator factory.  The
		// initial rate is high enough for the budget of one tick to cover everything a case queues between two
		// ticks (no feedback reaches the rate controller: the target never changes), so release instants are
		// exactly the next tick; what the pacer does when the budget is short is the subject of component `leaky`.
		var ests []*ccpEstimator
		f, err := cc.NewInterceptor(func() (cc.BandwidthEstimator, error) {
			b, err := gcc.NewSendSideBWE(gcc.SendSideBWEInitialBitrate(1_000_000_000), gcc.WithLoggerFactory(lf))
			if err != nil {
				return nil, err
			}
			made = append(made, b)
			ests = append(ests, &ccpEstimator{SendSideBWE: b})
			return ests[len(ests)-1], nil
		})
		if err != nil {
			o.P("SETUP %v", err)
			return
		}
		var peers [2]*ccpPeer
		for i := range peers {
			ic, err := f.NewInterceptor(fmt.Sprint("pc", i))
			if err != nil || len(made) != i+1 {
				o.P("SETUP %v", err)
				return
			}
			pe := &ccpPeer{bwe: made[i], est: ests[i], streams: map[uint32]*ccpStream{}}
			pe.ic = ccpWrap(o, ic, pe)
			pe.reader = pe.ic.BindRTCPReader(interceptor.RTCPReaderFunc(func(b []byte, a interceptor.Attributes) (int, interceptor.Attributes, error) {
				return copy(b, pe.rtcpIn), o.Bottom(a), nil
			}))
			peers[i] = pe
		}
		// one `twcc` / `ccfb` op read through the chain of `who`
		readFeedback := func(who int, name string, raw []byte) {
			pe := peers[who]
			P := func(format string, a ...any) { o.PW(who, format, a...) }
			handed := 0
			pe.est.onRTCP = func(pkts []rtcp.Packet) {
				for _, pkt := range pkts {
					switch fb := pkt.(type) {
					case *rtcp.TransportLayerCC:
						handed++
						acks, err := pe.bwe.VerifFeedbackAdapter().OnTransportCCFeedback(time.Time{}, fb)
						if err != nil {
							P("err:invalid")
							continue
						}
						c09PrintAcks(P, acks)
					case *rtcp.CCFeedbackReport:
						handed++
						c09PrintAcks(P, pe.bwe.VerifFeedbackAdapter().OnRFC8888Feedback(time.Time{}, fb))
					}
				}
			}
			for _, t := range pe.taps {
				t.has = false
			}
			pe.rtcpIn = raw
			buf := make([]byte, 1500+len(raw))
			var in interceptor.Attributes
			if ccpHash(string(raw)).Bool() {
				in = interceptor.Attributes{} // pion/webrtc passes a fresh map, other callers nil
			}
			n, attrs, err := pe.reader.Read(buf, o.Attrs(in))
			pe.est.onRTCP = nil
			if err != nil || n != len(raw) {
				P("READ the chain answered n=%d err=%v to %d bytes of well-formed %s feedback", n, err, len(raw), name)
			}
			if handed != 1 {
				P("READ the estimator behind pkg/cc was handed %d feedback packets, 1 was read", handed)
			}
			if err != nil {
				return
			}
			o.CheckRTCPInput(who, buf[:n], attrs)
			// the rtpfb interceptors of the chain: all of them saw the same packets leave and the same feedback arrive
			var first []string
			for i, t := range pe.taps {
				var arr []string
				if t.has {
					arr = ccpArrived(t.report)
				}
				if i == 0 {
					first = arr
				} else if strings.Join(arr, "|") != strings.Join(first, "|") {
					P("CONSUMER-DIFF rtpfb interceptor %d of the chain reports arrived [%s], the innermost one [%s]", i,
						strings.ReplaceAll(strings.Join(arr, "|"), " ", "_"), strings.ReplaceAll(strings.Join(first, "|"), " ", "_"))
				}
				if !t.has {
					continue
				}
				// … and each of them what the bytes encode
				fresh, err := rtcp.Unmarshal(buf[:n])
				if err != nil || len(fresh) != 1 {
					continue
				}
				says := map[string]bool{}
				switch fb := fresh[0].(type) {
				case *rtcp.TransportLayerCC:
					for _, a := range rtpfb.VerifConvertTWCC(fb) {
						if a.Arrived {
							says[fmt.Sprintf("tw=%d arr=%s", a.SequenceNumber, c09ZS(a.Arrival))] = true
						}
					}
				case *rtcp.CCFeedbackReport:
					_, res := rtpfb.VerifConvertCCFB(t.report.Arrival, fb)
					for ssrc, acks := range res {
						for _, a := range acks {
							if a.Arrived {
								says[fmt.Sprintf("ssrc=%d seq=%d arr=%s", ssrc, a.SequenceNumber, c09ZS(a.Arrival))] = true
							}
						}
					}
				}
				for _, p := range t.report.PacketReports {
					key := fmt.Sprintf("ssrc=%d seq=%d arr=%s", p.SSRC, p.RTPSequenceNumber, c09ZS(p.Arrival))
					if p.IsTWCC {
						key = fmt.Sprintf("tw=%d arr=%s", p.TWCCSequenceNumber, c09ZS(p.Arrival))
					}
					if p.Arrived && !says[key] {
						P("CONSUMER-DIFF rtpfb interceptor %d of the chain reports %s as arrived; the feedback read does not say so", i, strings.ReplaceAll(key, " ", "_"))
					}
				}
			}
		}
		defer o.EndKept()
		defer func() {
			o.CheckKeptAll()
			for _, pe := range peers {
				for _, st := range pe.streams {
					pe.ic.UnbindLocalStream(o.UnbindInfo(st.info))
				}
				_ = pe.ic.Close()
			}
			synctest.Wait()
		}()

		// SSRCs of the TWCC streams: none that a `sent ssrc=` op of this case uses
		used := map[uint32]bool{}
		for _, op := range ops {
			rest, _ := twinOp(op)
			if name, m := kv(rest); name == "sent" && m["ssrc"] != "" {
				used[uint32(atoi(m["ssrc"]))] = true
			}
		}
		var twSSRC []uint32
		for s := uint32(4000000007); len(twSSRC) < 2; s += 13 {
			if !used[s] {
				twSSRC = append(twSSRC, s)
			}
		}
		x := 0
		if len(ops) > 0 {
			x = ccpHash(ops[0]).Intn(13)
		}
		twExt := []uint8{uint8(1 + x), uint8(1 + (x+5)%13)} // two different ids in 1..13

		stream := func(who int, ssrc uint32, ext uint8, hr *Rng) *ccpStream {
			pe := peers[who]
			if st, ok := pe.streams[ssrc]; ok {
				return st
			}
			info := &interceptor.StreamInfo{SSRC: ssrc, PayloadType: 96, ClockRate: 90000, MimeType: "video/VP8"}
			if ext != 0 {
				info.RTPHeaderExtensions = []interceptor.RTPHeaderExtension{
					{URI: "urn:ietf:params:rtp-hdrext:sdes:mid", ID: 14}, {URI: c09TwccURI, ID: int(ext)}}
				info.RTCPFeedback = []interceptor.RTCPFeedback{{Type: "transport-cc"}}
			} else {
				// a stream WITHOUT transport-cc: the ids the TWCC streams use mean something else here
				info.RTPHeaderExtensions = []interceptor.RTPHeaderExtension{
					{URI: "http://www.webrtc.org/experiments/rtp-hdrext/abs-send-time", ID: int(twExt[0])},
					{URI: "urn:ietf:params:rtp-hdrext:toffset", ID: int(twExt[1])}}
				info.RTCPFeedback = []interceptor.RTCPFeedback{{Type: "ack", Parameter: "ccfb"}}
			}
			st := &ccpStream{info: info, extID: ext, seq: uint16(hr.Intn(65536))}
			g := guardInfo(info)
			st.w = pe.ic.BindLocalStream(info, interceptor.RTPWriterFunc(func(h *rtp.Header, p []byte, a interceptor.Attributes) (int, error) {
				d := ccpDelivery{at: time.Now(), hdr: h.Clone(), payload: append([]byte(nil), p...), hadNil: a == nil}
				if a != nil {
					d.attrs = interceptor.Attributes{}
					for k, v := range a {
						d.attrs[k] = v
					}
				}
				pe.got = append(pe.got, d)
				return h.MarshalSize() + len(p), nil
			}))
			if d := g.Check(); d != "" {
				o.PW(who, "STREAMINFO-EDITED %s", d)
			}
			pe.streams[ssrc] = st
			return st
		}

		// one application Write; returns what the next writer must see
		write := func(who int, op string) *ccpExpect {
			name, m := kv(op)
			hr := ccpHash(op)
			var st *ccpStream
			hdr := rtp.Header{Version: 2, PayloadType: 96, Timestamp: uint32(hr.U64()), Marker: hr.Chance(1, 8)}
			size := 10
			ex := &ccpExpect{op: op}
			switch {
			case name == "sentbad":
				k := hr.Intn(2)
				st = stream(who, twSSRC[k], twExt[k], hr)
				ex.twcc, ex.dropped = true, true
			case m["tw"] != "":
				k := hr.Intn(2)
				st = stream(who, twSSRC[k], twExt[k], hr)
				b, _ := (&rtp.TransportCCExtension{TransportSequence: uint16(atoi(m["tw"]))}).Marshal()
				_ = hdr.SetExtension(st.extID, b) // the only extension: the model's header size is 20
				size = atoi(m["size"])
				ex.twcc = true
			default:
				st = stream(who, uint32(atoi(m["ssrc"])), 0, hr)
				size = atoi(m["size"])
				hdr.SequenceNumber = uint16(atoi(m["seq"]))
				// other header extensions, most of the time under an id that means transport-cc on another stream
				for _, id := range twExt {
					if hr.Chance(3, 4) {
						b := make([]byte, hr.Range(2, 4))
						for i := range b {
							b[i] = byte(hr.U64())
						}
						_ = hdr.SetExtension(id, b)
					}
				}
				if hr.Chance(1, 4) {
					hdr.CSRC = []uint32{uint32(hr.U64())}
				}
			}
			hdr.SSRC = st.info.SSRC
			if ex.twcc {
				hdr.SequenceNumber = st.seq
				st.seq++
			}
			payload := make([]byte, size)
			for i := range payload {
				payload[i] = byte(hr.U64())
			}
			var attrs interceptor.Attributes
			switch hr.Intn(6) {
			case 0, 1, 2: // nil
			case 3, 4:
				attrs = o.Attrs(interceptor.Attributes{})
			default:
				attrs = interceptor.Attributes{"app": int(hr.Intn(1000))}
			}
			ex.hdr, ex.payload = hdr.Clone(), append([]byte(nil), payload...)
			if attrs != nil {
				ex.attrs = interceptor.Attributes{}
				for k, v := range attrs {
					ex.attrs[k] = v
				}
			}
			n, err := st.w.Write(&hdr, payload, attrs)
			if err != nil || n != hdr.MarshalSize()+len(payload) {
				o.PW(who, "WRITE the pacer answered n=%d err=%v to a packet of %d bytes (%s)", n, err, hdr.MarshalSize()+len(payload), op)
			}
			// the application goes on using what it passed
			for i := range payload {
				payload[i] ^= 0xFF
			}
			hdr.SequenceNumber ^= 0x5555
			if attrs != nil && (o.Amb == nil || !o.Amb.Reuse) {
				attrs["app"] = -1
				attrs["later"] = true
			}
			return ex
		}

		showD := func(h *rtp.Header, p []byte) string {
			return fmt.Sprintf("ssrc=%d seq=%d ext=%s len=%d", h.SSRC, h.SequenceNumber, ccpExts(h), len(p))
		}
		// after the tick at T: the next writer of `who` got exactly `want`, in order, at T
		verify := func(who int, T time.Time, want []*ccpExpect) {
			pe := peers[who]
			got := pe.got
			pe.got = nil
			var exp []*ccpExpect
			for _, e := range want {
				if !e.dropped {
					exp = append(exp, e)
				}
			}
			for i := 0; i < len(exp) || i < len(got); i++ {
				switch {
				case i >= len(got):
					o.PW(who, "DELIVERY accepted by the pacer but not handed to the next writer at the tick: %s (%s)", showD(&exp[i].hdr, exp[i].payload), exp[i].op)
				case i >= len(exp):
					o.PW(who, "DELIVERY the next writer got a packet nobody wrote (or a second copy): %s", showD(&got[i].hdr, got[i].payload))
				default:
					e, g := exp[i], got[i]
					eb, _ := e.hdr.Marshal()
					gb, _ := g.hdr.Marshal()
					if !bytes.Equal(eb, gb) || !bytes.Equal(e.payload, g.payload) {
						o.PW(who, "DELIVERY position %d: next writer got %s hdr=%x, the application wrote %s hdr=%x (%s)", i, showD(&g.hdr, g.payload), gb, showD(&e.hdr, e.payload), eb, e.op)
					} else if !g.at.Equal(T) {
						o.PW(who, "DELIVERY %s released at %s, tick %s", showD(&g.hdr, g.payload), c09ZS(g.at), c09ZS(T))
					} else if d := ccpAttrDiff(e, g); d != "" {
						o.PW(who, "DELIVERY %s: attributes at the next writer: %s (%s)", showD(&g.hdr, g.payload), d, e.op)
					}
				}
			}
		}

		for i := 0; i < len(ops); {
			T, isSend := ccpIsSend(ops[i])
			if !isSend {
				op, who := twinOp(ops[i])
				i++
				name, m := kv(op)
				if raw, ok := ccpFeedbackPacket(name, m); ok && ccpHash(op).Chance(3, 4) {
					readFeedback(who, name, raw)
					continue
				}
				o.CheckKept() // the acknowledgment slices returned so far are the caller's (retain_test.go)
				if !c09AdapterFeedbackOp(peers[who].bwe.VerifFeedbackAdapter(), name, m, func(format string, a ...any) { o.PW(who, format, a...) }, o) {
					o.PW(who, "bad-op")
				}
				continue
			}
			// the batch of this tick: consecutive send ops (of either instance) with the same release instant
			j := i
			for j < len(ops) {
				if T2, ok := ccpIsSend(ops[j]); !ok || !T2.Equal(T) {
					break
				}
				j++
			}
			batch := ops[i:j]
			i = j
			now := time.Now()
			if T.Sub(start)%ccpTick != 0 || !T.After(now) {
				// not a case of this component: release instants lie on the pacer's grid and never go back
				for _, b := range batch {
					_, who := twinOp(b)
					o.PW(who, "bad-time")
				}
				continue
			}
			if gap := T.Sub(now); gap > ccpTick {
				time.Sleep(gap - ccpTick + time.Duration(1+ccpHash(batch[0]).Intn(4))*time.Millisecond)
				synctest.Wait()
			}
			var want [2][]*ccpExpect
			for _, b := range batch {
				op, who := twinOp(b)
				if len(peers[who].got) > 0 {
					verify(who, T, nil) // something arrived between ticks
				}
				want[who] = append(want[who], write(who, op))
			}
			synctest.Wait()
			for who := range peers {
				if len(peers[who].got) > 0 {
					verify(who, T, nil) // released before its tick
				}
			}
			time.Sleep(time.Until(T))
			synctest.Wait()
			for who := range peers {
				verify(who, T, want[who])
			}
			for _, b := range batch {
				// the stream writer refuses a packet of a transport-cc stream that lacks the extension: it is neither
				// recorded nor sent (had it reached the next writer, verify has printed a DELIVERY line)
				if op, who := twinOp(b); strings.HasPrefix(op, "sentbad ") {
					o.PW(who, "err:missing-ext")
				}
			}
		}
		// nothing may be left in a pacer: one more tick delivers nothing
		time.Sleep(2 * ccpTick)
		synctest.Wait()
		for who := range peers {
			if len(peers[who].got) > 0 {
				verify(who, time.Now(), nil)
			}
		}
	})
}

func ccpExts(h *rtp.Header) string {
	var s []string
	for _, id := range h.GetExtensionIDs() {
		s = append(s, fmt.Sprintf("%d:%x", id, h.GetExtension(id)))
	}
	if len(s) == 0 {
		return "-"
	}
	return strings.Join(s, ",")
}

// ccpAttrDiff: the next writer sees the caller's attributes as they were at Write (later edits of the caller's map
// and the attributes of other packets do not show), plus — on a transport-cc stream only — the adapter's private
// key with the stream's extension id.
func ccpAttrDiff(e *ccpExpect, g ccpDelivery) string {
	var bad []string
	for k, v := range g.attrs {
		if k == any(verifhooks.TwccExtensionAttributesKey) {
			if !e.twcc {
				bad = append(bad, fmt.Sprintf("transport-cc key (=%v) on a packet of a stream that did not negotiate transport-cc", v))
			}
			continue
		}
		if ev, ok := e.attrs[k]; !ok {
			bad = append(bad, fmt.Sprintf("key %v=%v the caller never passed with this packet", k, v))
		} else if ev != v {
			bad = append(bad, fmt.Sprintf("key %v=%v, the caller passed %v", k, v, ev))
		}
	}
	for k, v := range e.attrs {
		if _, ok := g.attrs[k]; !ok {
			bad = append(bad, fmt.Sprintf("key %v=%v of the caller is missing", k, v))
		}
	}
	sort.Strings(bad)
	return strings.Join(bad, "; ")
}

// ---- generator: the cases of `fbadapter`, send times moved onto the pacer's grid

// ccpRegrid rewrites the `t=` of every sent/sentbad op: the first packet leaves at the first tick, later ones keep
// their distance, rounded up to the 5 ms grid (order and coincidences are preserved; feedback ops are untouched: the
// adapter does not look at the clock).
func ccpRegrid(ops []string) []string {
	out := make([]string, 0, len(ops))
	var t0, last time.Time
	have, between := false, false
	var shift time.Duration
	for _, op := range ops {
		T, ok := ccpIsSend(op)
		if !ok {
			out = append(out, op)
			between = true
			continue
		}
		if !have {
			t0, have = T, true
		}
		d := T.Sub(t0)
		if d < 0 {
			d = 0
		}
		d = (d + ccpTick - 1) / ccpTick * ccpTick
		nt := c09At(0).Add(ccpTick + d + shift)
		// never back in time, and a packet written after feedback was read leaves at a later tick than the
		// packets written before it
		if nt.Before(last) || (between && !nt.After(last)) {
			step := last.Sub(nt)
			if between {
				step += ccpTick
			}
			shift += step
			nt = nt.Add(step)
		}
		last, between = nt, false
		f := strings.Fields(op)
		for i, x := range f {
			if strings.HasPrefix(x, "t=") {
				f[i] = "t=" + c09ZS(nt)
			}
		}
		out = append(out, strings.Join(f, " "))
	}
	return out
}

// ccpMergeByTime merges two regridded op lists into one case with non-decreasing release instants; the second list
// goes to the twin.  An op without a time (feedback, len) stays directly behind its predecessor of the same list.
func ccpMergeByTime(r *Rng, a, b []string) []string {
	type item struct {
		op   string
		t    time.Time
		send bool
		who  int
		pos  int
	}
	var all []item
	for who, l := range [][]string{a, b} {
		cur := time.Time{}
		for i, op := range l {
			T, ok := ccpIsSend(op)
			if ok && T.After(cur) {
				cur = T
			}
			if who == 1 {
				op = "twin " + op
			}
			all = append(all, item{op, cur, ok, who, i})
		}
	}
	// within one instant: the packets of both instances (one tick releases them), then what either reads; each
	// list keeps its order (after ccpRegrid no packet follows a read within the same instant)
	first := r.Intn(2)
	sort.SliceStable(all, func(i, j int) bool {
		x, y := all[i], all[j]
		if !x.t.Equal(y.t) {
			return x.t.Before(y.t)
		}
		if x.send != y.send {
			return x.send
		}
		if x.who != y.who {
			return x.who == first
		}
		return x.pos < y.pos
	})
	out := make([]string, len(all))
	for i, it := range all {
		out[i] = it.op
	}
	return out
}

// ccpVariant: the same traffic as `ops` with other sizes and some ops left out — two connections of one application
// send the same numbers (transport-wide counters and RTP sequence numbers start alike) but not the same packets.
func ccpVariant(r *Rng, ops []string) []string {
	var out []string
	for _, op := range ops {
		if r.Chance(1, 6) {
			continue
		}
		f := strings.Fields(op)
		if f[0] == "sent" {
			for i, x := range f {
				if strings.HasPrefix(x, "size=") {
					f[i] = fmt.Sprintf("size=%d", r.Range(0, 1400))
				}
			}
		}
		out = append(out, strings.Join(f, " "))
	}
	return out
}

// ccpBackground: a case of `fbadapter` whose packets are all of one kind gets a second stream of the OTHER kind on
// the same estimator (a video stream with transport-cc next to an audio stream without, or the reverse): its packets
// are written between the others (same release instants), count from the same numbers, and are acknowledged at the
// end.  The model treats them like any other `sent` op.
func ccpBackground(r *Rng, ops []string) []string {
	hasTW, hasSS, first := false, false, -1
	for _, op := range ops {
		if name, m := kv(op); name == "sent" {
			if m["tw"] != "" {
				hasTW = true
				if first < 0 {
					first = atoi(m["tw"])
				}
			} else {
				hasSS = true
				if first < 0 {
					first = atoi(m["seq"])
				}
			}
		}
	}
	if hasTW == hasSS {
		return ops
	}
	start := r.Pick(first, first, first+r.Range(-5, 5)+65536, r.Intn(65536)) & 0xFFFF
	ssrc := uint32(r.Range(1, 3))
	every := r.Pick(1, 2, 4, 10)
	var out []string
	n := 0
	for _, op := range ops {
		out = append(out, op)
		name, m := kv(op)
		if name != "sent" || n >= 200 || !r.Chance(1, every) {
			continue
		}
		if hasTW {
			out = append(out, fmt.Sprintf("sent ssrc=%d seq=%d size=%d t=%s", ssrc, (start+n)&0xFFFF, r.Range(0, 1400), m["t"]))
		} else {
			out = append(out, fmt.Sprintf("sent tw=%d size=%d t=%s", (start+n)&0xFFFF, r.Range(0, 1400), m["t"]))
		}
		n++
	}
	if n == 0 {
		return out
	}
	if hasTW {
		fb := &rtcp.CCFeedbackReport{ReportTimestamp: verifhooks.ToNTP32(c09At(int64(r.Intn(100000))))}
		rb := rtcp.CCFeedbackReportBlock{MediaSSRC: ssrc, BeginSequence: uint16(start)}
		for i := 0; i < n; i++ {
			rb.MetricBlocks = append(rb.MetricBlocks, rtcp.CCFeedbackMetricBlock{Received: !r.Chance(1, 6), ECN: rtcp.ECN(r.Intn(4)), ArrivalTimeOffset: uint16(r.Intn(0x1FFE))})
		}
		fb.ReportBlocks = append(fb.ReportBlocks, rb)
		out = append(out, "ccfb "+c09CCFBOp(fb, time.Time{}, true))
	} else {
		ds := make([]int, n)
		for i := range ds {
			ds[i] = r.Range(0, 255) * 250
		}
		out = append(out, fmt.Sprintf("twcc base=%d cnt=%d ref=%d chunks=R1x%d deltas=%s", start, n, r.Intn(1<<24), n, joinInts(ds)))
	}
	return append(out, "len")
}

var ccpClasses = append(append([]string{}, c09AdapterClasses...), "twin", "twin")

func c09GenCCPath(r *Rng, tier string, idx int) Case {
	cl := ccpClasses[idx%len(ccpClasses)]
	classIdx := func(name string) int {
		for i, c := range c09AdapterClasses {
			if c == name {
				return i
			}
		}
		return 0
	}
	var ops []string
	gen := func(class string) []string {
		l := c09GenAdapter(r, tier, classIdx(class)).Ops
		if r.Chance(2, 3) {
			l = ccpBackground(r, l)
		}
		return ccpRegrid(l)
	}
	if cl == "twin" {
		base := c09AdapterClasses[r.Intn(len(c09AdapterClasses))]
		for base == "twcc-inflight" && r.Chance(2, 3) {
			base = c09AdapterClasses[r.Intn(len(c09AdapterClasses))]
		}
		a := gen(base)
		var b []string
		if r.Bool() {
			b = ccpVariant(r, a)
		} else {
			b = gen(base)
		}
		ops = ccpMergeByTime(r, a, b)
		cl = "twin-" + base
	} else {
		ops = gen(cl)
	}
	// the ambient: neighbours that are transparent for RTP of any stream and silent
	pick := func(kinds ...string) string {
		var s []string
		for _, k := range kinds {
			if r.Chance(1, 3) {
				s = append(s, k)
			}
		}
		return strings.Join(s, ",")
	}
	switch {
	case r.Chance(1, 3):
		// the library's other feedback consumer, rtpfb, before / after / on both sides of pkg/cc (other neighbours in
		// between): the RTCP readers of the chain share one parse of every feedback packet
		before, after := pick("stats", "noop", "dumps"), pick("noop", "stats")
		join := func(a, b string) string {
			if a == "" || b == "" {
				return a + b
			}
			return a + "," + b
		}
		switch r.Intn(5) {
		case 0:
			before = join("rtpfb", before)
		case 1:
			after = join(after, "rtpfb")
		case 2:
			before, after = join(before, "rtpfb"), join("rtpfb", after)
		case 3:
			before = join("rtpfb,rtpfb", before)
		default:
			before, after = join("rtpfb", before), join(after, "rtpfb")
		}
		ops = append([]string{ambOp(before, after, true, false, r.Chance(1, 3), r.Bool())}, ops...)
	case r.Chance(2, 3):
		ops = append([]string{ambOp(pick("stats", "noop", "dumps"), pick("noop", "stats"), r.Bool(), false, r.Chance(1, 4), r.Bool())}, ops...)
	}
	return Case{Class: cl, Ops: ops}
}

func init() {
	register("ccpath", &Comp{
		N: func(tier string) int {
			if tier == "thorough" {
				return 20000
			}
			return 700
		},
		Gen: c09GenCCPath,
		Run: c09RunCCPath,
	})
}

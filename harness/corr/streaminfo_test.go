package corr

// StreamInfo shapes shared by the harnesses: RTCPFeedback lists named by a decimal code (`fbl=<code>` in an op line,
// one digit per entry, first entry first, `0` = empty list).  The alphabet holds the entries real negotiations
// produce and near-duplicates of the plain `nack` entry; lean/Interceptor/Model/StreamFilter.lean has the same
// table.  What a list MEANS for an interceptor (bound or passed through) is decided by the model, never here.

import (
	"github.com/pion/interceptor"
)

var fbAlphabet = [10]interceptor.RTCPFeedback{
	1: {Type: "nack", Parameter: ""},
	2: {Type: "nack", Parameter: "pli"},
	3: {Type: "goog-remb", Parameter: ""},
	4: {Type: "transport-cc", Parameter: ""},
	5: {Type: "ccm", Parameter: "fir"},
	6: {Type: "nack", Parameter: "rpsi"},
	7: {Type: "NACK", Parameter: ""},
	8: {Type: "", Parameter: "nack"},
	9: {Type: "nack ", Parameter: ""},
}

// feedbackOfCode: the list a code stands for (ok=false for a digit 0 inside a code, or a code of more than 9 digits).
func feedbackOfCode(code int) ([]interceptor.RTCPFeedback, bool) {
	if code == 0 {
		return []interceptor.RTCPFeedback{}, true
	}
	if code < 0 || code > 999999999 {
		return nil, false
	}
	var rev []interceptor.RTCPFeedback
	for ; code > 0; code /= 10 {
		d := code % 10
		if d == 0 {
			return nil, false
		}
		rev = append(rev, fbAlphabet[d])
	}
	out := make([]interceptor.RTCPFeedback, len(rev))
	for i := range rev {
		out[i] = rev[len(rev)-1-i]
	}
	return out, true
}

// genFeedbackCode draws a list of 0..6 entries in random order, with repetitions and near-duplicates; `plain`
// says whether the plain `nack` entry occurs in it (at a random position, possibly twice).
func genFeedbackCode(r *Rng, plain bool) int {
	others := []int{2, 3, 4, 5, 6, 7, 8, 9, 2, 2, 3, 4}
	n := r.Pick(0, 1, 1, 2, 2, 3, 3, 4, 5)
	var ds []int
	for i := 0; i < n; i++ {
		ds = append(ds, others[r.Intn(len(others))])
	}
	if plain {
		for k := r.Pick(1, 1, 1, 2); k > 0; k-- {
			at := r.Intn(len(ds) + 1)
			ds = append(ds[:at], append([]int{1}, ds[at:]...)...)
		}
	}
	code := 0
	for _, d := range ds {
		code = code*10 + d
	}
	return code
}

package corr

// StreamInfo shapes shared by the harnesses: RTCPFeedback lists named by a decimal code (`fbl=<code>` in an op line,
// one digit per entry, first entry first, `0` = empty list).  The alphabet holds the entries real negotiations
// produce and near-duplicates of the plain `nack` entry; lean/Interceptor/Model/StreamFilter.lean has the same
// table.  What a list MEANS for an interceptor (bound or passed through) is decided by the model, never here.

import (
	"fmt"
	"strings"

	"github.com/pion/interceptor"
)

var fbAlphabet = [10]interceptor.RTCPFeedback{
	1: {Type: "nack", Parameter: ""},
	2: {Type: "nack", Parameter: "pli"},
	3: {Type: "goog-remb", Parameter: ""},
	4: {Type: "transport-cc", Parameter: ""},
	5: {Type: "ccm", Parameter: "fir"},
	6: {Type: "nack", Parameter: "rpsi"},
	7: {Type: "NACK", Parameter: ""},
	8: {Type: "", Parameter: "nack"},
	9: {Type: "nack ", Parameter: ""},
}

// feedbackOfCode: the list a code stands for (ok=false for a digit 0 inside a code, or a code of more than 9 digits).
func feedbackOfCode(code int) ([]interceptor.RTCPFeedback, bool) {
	if code == 0 {
		return []interceptor.RTCPFeedback{}, true
	}
	if code < 0 || code > 999999999 {
		return nil, false
	}
	var rev []interceptor.RTCPFeedback
	for ; code > 0; code /= 10 {
		d := code % 10
		if d == 0 {
			return nil, false
		}
		rev = append(rev, fbAlphabet[d])
	}
	out := make([]interceptor.RTCPFeedback, len(rev))
	for i := range rev {
		out[i] = rev[len(rev)-1-i]
	}
	return out, true
}

// genFeedbackCode draws a list of 0..6 entries in random order, with repetitions and near-duplicates; `plain`
// says whether the plain `nack` entry occurs in it (at a random position, possibly twice).
func genFeedbackCode(r *Rng, plain bool) int {
	others := []int{2, 3, 4, 5, 6, 7, 8, 9, 2, 2, 3, 4}
	n := r.Pick(0, 1, 1, 2, 2, 3, 3, 4, 5)
	var ds []int
	for i := 0; i < n; i++ {
		ds = append(ds, others[r.Intn(len(others))])
	}
	if plain {
		for k := r.Pick(1, 1, 1, 2); k > 0; k-- {
			at := r.Intn(len(ds) + 1)
			ds = append(ds[:at], append([]int{1}, ds[at:]...)...)
		}
	}
	code := 0
	for _, d := range ds {
		code = code*10 + d
	}
	return code
}

// ---------------------------------------------------------------------------------------------------------------
// The APPLICATION of a case (`app` op).  The StreamInfo, the option list and the feedback list an application passes
// are the application's: the interface (interceptor.go: "BindLocalStream … is called once per LocalStream",
// "UnbindLocalStream is called when the Stream is removed"; every implementation keys its per-stream state by
// info.SSRC) fixes what an interceptor may conclude from them, and nothing else.  A case may carry, as its first op
// (after `amb`, which the framework strips),
//
//	app seed=<n> unbind=<shapes> after=<habits> fb=<rewrites> opts=1
//
// which every adopting interpreter strips (appOf) and the Lean side ignores (Driver/Util.lean, runLines), exactly
// like `amb`: the model's outputs must not depend on it.  All four are cyclic schedules / switches:
//
//	unbind=  the StreamInfo handed to Unbind*Stream for a bound stream — `same` the very object handed to Bind*,
//	         `copy` an equal value at another address, `ssrc` a value rebuilt from the SSRC alone, `nofb` / `noext` a
//	         copy whose RTCPFeedback / RTPHeaderExtensions list is gone, `reneg` a value in which everything except
//	         the SSRC was renegotiated, `edited` the very object handed to Bind*, edited in place by that
//	         renegotiation just before the call.  The stream is named by its SSRC: all of them unbind it.
//	after=   what the application does with ITS StreamInfo object once Bind* has returned — `keep`, `scrub` (every
//	         scalar and every element of both lists overwritten in place with other values: the object now describes
//	         another stream, in the same memory), `refill` (the lists truncated and refilled in the same backing
//	         arrays with another stream's entries, ids moved).  What the interceptor does for the bound stream was
//	         decided by the values at Bind time.
//	fb=      how the RTCPFeedback list of a Bind* is written down — `asis`, `rev`, `rot`, `dup` (an entry repeated),
//	         `extras` (entries of unrelated capabilities — goog-remb, ccm fir, nack rpsi, near-duplicates of `nack` —
//	         inserted at random places, never the two entries the library consults: {nack,""} and {nack,pli}).  The
//	         same capabilities are negotiated whatever the order.
//	opts=1   functional options that set different fields commute: the option list of a constructor is applied in a
//	         seeded random order (appShuffle).
//
// A nil *App (no `app` op) is the application the harness had before: everything as written.
type App struct {
	Unbind, After, Fb []string
	Opts              bool
	rng               *Rng
	nU, nA, nF        int
}

// appOf splits the `app` op off a case (it is the first op once the framework has taken `amb`).
func appOf(ops []string) (*App, []string) {
	if len(ops) == 0 || !strings.HasPrefix(ops[0], "app ") && ops[0] != "app" {
		return nil, ops
	}
	_, m := kv(ops[0])
	split := func(s string) []string {
		if s == "" || s == "-" {
			return nil
		}
		return strings.Split(s, ",")
	}
	seed := uint64(1)
	if s, ok := m["seed"]; ok {
		seed = uint64(atoi(s))
	}
	return &App{Unbind: split(m["unbind"]), After: split(m["after"]), Fb: split(m["fb"]), Opts: m["opts"] == "1",
		rng: NewRng(seed*0x9E3779B97F4A7C15 + 0xA11)}, ops[1:]
}

func appNext(sched []string, n *int) string {
	if len(sched) == 0 {
		return ""
	}
	x := sched[*n%len(sched)]
	*n++
	return x
}

// copyInfo is a deep copy of a StreamInfo (lists in fresh arrays; nil stays nil; the Attributes bag is shared: it
// is not part of the description).
func copyInfo(info *interceptor.StreamInfo) *interceptor.StreamInfo {
	if info == nil {
		return nil
	}
	c := *info
	if info.RTPHeaderExtensions != nil {
		c.RTPHeaderExtensions = append(make([]interceptor.RTPHeaderExtension, 0, len(info.RTPHeaderExtensions)+2), info.RTPHeaderExtensions...)
	}
	if info.RTCPFeedback != nil {
		c.RTCPFeedback = append(make([]interceptor.RTCPFeedback, 0, len(info.RTCPFeedback)+2), info.RTCPFeedback...)
	}
	return &c
}

// fbExtras: entries of capabilities no interceptor of the library consults, and near-duplicates of `nack`.
var fbExtras = []interceptor.RTCPFeedback{
	{Type: "goog-remb"}, {Type: "ccm", Parameter: "fir"}, {Type: "nack", Parameter: "rpsi"}, {Type: "nack", Parameter: "sli"},
	{Type: "NACK"}, {Type: "", Parameter: "nack"}, {Type: "nack "}, {Type: "nack", Parameter: "PLI"}, {Type: "ccm", Parameter: "tmmbr"},
}

// renegInfo: the stream `ssrc` after a renegotiation that changed everything but the SSRC.
func renegInfo(ssrc uint32) interceptor.StreamInfo {
	return interceptor.StreamInfo{
		SSRC: ssrc, ClockRate: 48000, PayloadType: 111, MimeType: "audio/opus", Channels: 2,
		RTCPFeedback:        []interceptor.RTCPFeedback{{Type: "goog-remb"}},
		RTPHeaderExtensions: []interceptor.RTPHeaderExtension{{URI: "urn:ietf:params:rtp-hdrext:sdes:mid", ID: 9}},
	}
}

// unbindInfoAs: the StreamInfo an application hands to Unbind*Stream for the stream it bound with the description
// `desc` (object handed to Bind*: `live`, may be nil when the harness did not keep it).  Only the SSRC names the
// stream; everything else may be absent or renegotiated.
func unbindInfoAs(desc, live *interceptor.StreamInfo, how string) *interceptor.StreamInfo {
	switch how {
	case "copy":
		return copyInfo(desc)
	case "ssrc":
		return &interceptor.StreamInfo{SSRC: desc.SSRC}
	case "nofb":
		c := copyInfo(desc)
		c.RTCPFeedback = nil
		return c
	case "noext":
		c := copyInfo(desc)
		c.RTPHeaderExtensions = nil
		return c
	case "reneg":
		c := renegInfo(desc.SSRC)
		return &c
	case "edited":
		if live == nil {
			live = copyInfo(desc)
		}
		*live = renegInfo(desc.SSRC)
		return live
	}
	if live != nil && live.SSRC == desc.SSRC { // `same` (an object scrubbed after Bind* names another stream by now)
		return live
	}
	return copyInfo(desc)
}

// appUnbindShapes are the values of `unbind=`.
// (`edited` — the object handed to Bind* edited in place — is understood by UnbindInfo but not generated: like
// `after=scrub` it changes an object that the unchanged NACK responder and TWCC sender still read, DESIGN §8.)
var appUnbindShapes = []string{"same", "copy", "ssrc", "nofb", "noext", "reneg"}

// BindInfo is the object the application hands to Bind* for the stream described by `desc`: its own fresh value,
// the feedback list written down as the schedule says.
func (a *App) BindInfo(desc *interceptor.StreamInfo) *interceptor.StreamInfo {
	live := copyInfo(desc)
	if a == nil {
		return live
	}
	fb := live.RTCPFeedback
	switch appNext(a.Fb, &a.nF) {
	case "rev":
		for i, j := 0, len(fb)-1; i < j; i, j = i+1, j-1 {
			fb[i], fb[j] = fb[j], fb[i]
		}
	case "rot":
		if n := len(fb); n > 1 {
			k := 1 + a.rng.Intn(n-1)
			rot := append(append(make([]interceptor.RTCPFeedback, 0, n), fb[k:]...), fb[:k]...)
			copy(fb, rot)
		}
	case "dup":
		if n := len(fb); n > 0 {
			e, at := fb[a.rng.Intn(n)], a.rng.Intn(n+1)
			fb = append(fb[:at], append([]interceptor.RTCPFeedback{e}, fb[at:]...)...)
		}
	case "extras":
		for k := 1 + a.rng.Intn(3); k > 0; k-- {
			e, at := fbExtras[a.rng.Intn(len(fbExtras))], a.rng.Intn(len(fb)+1)
			fb = append(fb[:at], append([]interceptor.RTCPFeedback{e}, fb[at:]...)...)
		}
	}
	live.RTCPFeedback = fb
	return live
}

// AfterBind: Bind* has returned; the application goes on using its own object.
func (a *App) AfterBind(live *interceptor.StreamInfo) {
	if a == nil || live == nil {
		return
	}
	switch appNext(a.After, &a.nA) {
	case "scrub":
		live.ID, live.MimeType, live.SDPFmtpLine = "scrubbed", "application/scrubbed", "x=1"
		live.SSRC ^= 0x5A5A5A5A
		live.SSRCRetransmission, live.SSRCForwardErrorCorrection = live.SSRC+1, 0
		live.PayloadType, live.PayloadTypeRetransmission, live.PayloadTypeForwardErrorCorrection = 0, 0, 0
		live.ClockRate, live.Channels = 1, 7
		for i := range live.RTCPFeedback {
			live.RTCPFeedback[i] = interceptor.RTCPFeedback{Type: "scrubbed", Parameter: "scrubbed"}
		}
		for i := range live.RTPHeaderExtensions {
			e := &live.RTPHeaderExtensions[i]
			e.ID, e.URI = e.ID%14+1, "urn:scrubbed:"+e.URI
		}
		// the same memory now describes the next stream: the URIs back in place, every id moved
		for i := range live.RTPHeaderExtensions {
			e := &live.RTPHeaderExtensions[i]
			e.URI = strings.TrimPrefix(e.URI, "urn:scrubbed:")
		}
	case "refill":
		other := renegInfo(live.SSRC + 1)
		exts, fbs := live.RTPHeaderExtensions, live.RTCPFeedback
		for i := range exts { // ids rotate among the declared URIs, then another stream's entries go on top
			exts[i].ID = exts[(i+1)%len(exts)].ID%14 + 1
		}
		*live = other
		if exts != nil {
			live.RTPHeaderExtensions = append(exts[:0], other.RTPHeaderExtensions...)
		}
		if fbs != nil {
			live.RTCPFeedback = append(fbs[:0], other.RTCPFeedback...)
		}
	}
}

// UnbindInfo: the value the application hands to Unbind*Stream for the stream it bound as `desc` (with the object
// `live`), by the case's schedule.
func (a *App) UnbindInfo(desc, live *interceptor.StreamInfo) *interceptor.StreamInfo {
	if a == nil {
		return unbindInfoAs(desc, live, "same")
	}
	return unbindInfoAs(desc, live, appNext(a.Unbind, &a.nU))
}

// appShuffle: the option list of a constructor in the order the application happens to write it.
func appShuffle[T any](a *App, opts []T) []T {
	if a == nil || !a.Opts {
		return opts
	}
	out := append([]T(nil), opts...)
	for i := len(out) - 1; i > 0; i-- {
		j := a.rng.Intn(i + 1)
		out[i], out[j] = out[j], out[i]
	}
	return out
}

// genApp draws an `app` op: each habit is present with the given chance out of 4 (0 = never, 4 = always).
func genApp(r *Rng, unbind, after, fb, opts int) string {
	op := fmt.Sprintf("app seed=%d", r.Range(1, 1<<30))
	sched := func(all []string) string {
		n := r.Range(1, 4)
		xs := make([]string, n)
		for i := range xs {
			xs[i] = all[r.Intn(len(all))]
		}
		return strings.Join(xs, ",")
	}
	if r.Chance(unbind, 4) {
		op += " unbind=" + sched(appUnbindShapes)
	}
	if r.Chance(after, 4) {
		// only `keep` is generated: whether the application may edit the StreamInfo it passed to Bind* while the stream
		// is bound is not stated by the interface or by any property (the unchanged NACK responder and TWCC sender
		// read the caller's object at every packet: DESIGN §8). `scrub` / `refill` stay available for replays.
		op += " after=" + sched([]string{"keep"})
	}
	if r.Chance(fb, 4) {
		op += " fb=" + sched([]string{"rev", "rot", "dup", "extras", "extras", "asis"})
	}
	if r.Chance(opts, 4) {
		op += " opts=1"
	}
	return op
}

// withApp puts an `app` op in front of a case's ops, behind an `amb` op if the case starts with one.
func withApp(ops []string, app string) []string {
	if app == "" {
		return ops
	}
	at := 0
	if len(ops) > 0 && strings.HasPrefix(ops[0], "amb ") {
		at = 1
	}
	out := append([]string(nil), ops[:at]...)
	out = append(out, app)
	return append(out, ops[at:]...)
}

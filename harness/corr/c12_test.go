// C12 — memory held per interceptor is bounded regardless of stream length.
//
// Component `sizes`: every stateful interceptor / core is driven through long runs in virtual
// time (testing/synctest) of the workloads the property names (in-order, steady loss,
// duplicates, reordering; with periodic feedback and without any) in equal-length phases.
// After every operation the canonical size vector (the `len` of every internal container, read
// through the verif-tagged `VerifSizes` accessors, keys sorted) is printed.  The Lean driver
// prints the `size` of the model after the same operation: the two must agree op for op.
//
// Ops
//
//	new kind=<k> [ivl=<ms>] [writer=0|1] [size=<n>] [max=<n>] [media=<n>] [fec=<n>] [rate=<bit/s>] [mode=twcc|ccfb] [min=<n>]
//	bind ssrc=<s> [seq0=<first sequence number>]
//	phase workload=inorder|loss|dup|reorder|idle ssrc=<s> [rr=<k: round-robin over streams s..s+k-1>] n=<slots> [p=<period>] [fb=<feedback every k slots, 0 = none>]
//	jump ssrc=<s> d=<the stream's sequence number jumps forward by d>
//	unbind ssrc=<s> [info=same|ssrc|nofb|noext|reneg]
//	close
//
// `info` selects the StreamInfo handed to Unbind*Stream (default `same`: the very value used at
// Bind).  A stream is identified by its SSRC: `ssrc` passes a fresh StreamInfo that carries
// nothing else, `nofb` / `noext` a copy whose RTCP feedback / header-extension list is gone,
// `reneg` a copy in which everything except the SSRC was renegotiated.  The model's unbind takes
// the SSRC only (the Lean driver does not even read `info`): the per-stream containers must be
// released exactly as with the original StreamInfo.  `new kind=nackgen filter=1` installs a
// GeneratorStreamsFilter with an allow-list that is revoked just before the stream is unbound
// (a stateful filter whose answer at Unbind differs from the one at Bind).
//
// The ambient (ambient_test.go): in two of five rounds the interceptor under measurement is one member of a chain, as
// behind interceptor.Registry — with transparent neighbours (NoOp, stats, packetdump) and, in most of those, with a
// neighbour whose Close returns an error placed FIRST (`failclose`).  The sizes are still read from the interceptor
// itself.  Closing the chain must close every member whatever an earlier member's Close returned: the `sizes` line
// after `close` is the model's, and no goroutine of the interceptor is left when the bubble ends (testing/synctest
// reports one that is: `PANIC deadlock: main bubble goroutine has exited but blocked goroutines remain`).  Every
// Bind*/Unbind* call is wrapped in InfoGuard (the caller's StreamInfo comes back unedited).
//
// One slot of a phase = one sequence number of the stream: it is delivered (inorder), skipped
// (loss: every p-th slot), delivered twice (dup: every p-th), or swapped with its neighbour
// (reorder: the last two slots of every period); then virtual time advances by 1 ms (timers of
// the interceptor fire), then — every fb slots — the kind's feedback event happens.
package corr

import (
	"fmt"
	"sort"
	"strings"
	"testing"
	"testing/synctest"
	"time"

	"github.com/pion/interceptor"
	"github.com/pion/interceptor/pkg/flexfec"
	"github.com/pion/interceptor/pkg/gcc"
	"github.com/pion/interceptor/pkg/jitterbuffer"
	"github.com/pion/interceptor/pkg/nack"
	"github.com/pion/interceptor/pkg/pacing"
	"github.com/pion/interceptor/pkg/report"
	"github.com/pion/interceptor/pkg/rfc8888"
	"github.com/pion/interceptor/pkg/rtpfb"
	"github.com/pion/interceptor/pkg/stats"
	"github.com/pion/interceptor/pkg/twcc"
	"github.com/pion/interceptor/pkg/verifhooks"
	"github.com/pion/rtcp"
	"github.com/pion/rtp"
)

const c12TwccURI = "http://www.ietf.org/id/draft-holmer-rmcat-transport-wide-cc-extensions-01"

// c12Kind is one interceptor / core under measurement.
type c12Kind interface {
	bind(ssrc uint32)
	packet(ssrc uint32, seq uint16, lost bool) // one packet of the stream passes (lost: sender side only, the remote never sees it)
	feedback()                                 // the kind's feedback event
	unbind(ssrc uint32, how string)            // how: which StreamInfo is handed to Unbind*Stream, see c12UnbindInfo
	close()
	sizes() map[string]int
}

type c12Env struct {
	start time.Time
	cfg   map[string]string
	o     *Out // the case's output and ambient
	app   *App // the case's application (streaminfo_test.go)
}

func (e *c12Env) nat(k string, def int) int {
	if s, ok := e.cfg[k]; ok {
		return atoi(s)
	}
	return def
}

// c12Header: tw is the transport-wide sequence number carried in the TWCC header extension.
func c12Header(ssrc uint32, seq uint16, twccExt bool, tw uint16) *rtp.Header {
	h := &rtp.Header{Version: 2, PayloadType: 96, SequenceNumber: seq, Timestamp: uint32(seq) * 90, SSRC: ssrc}
	if twccExt {
		b, _ := (&rtp.TransportCCExtension{TransportSequence: tw}).Marshal()
		_ = h.SetExtension(1, b)
	}
	return h
}

func c12Info(ssrc uint32, twccExt bool) *interceptor.StreamInfo {
	info := &interceptor.StreamInfo{
		SSRC: ssrc, ClockRate: 90000, PayloadType: 96,
		RTCPFeedback: []interceptor.RTCPFeedback{{Type: "nack"}},
	}
	if twccExt {
		info.RTPHeaderExtensions = []interceptor.RTPHeaderExtension{{URI: c12TwccURI, ID: 1}}
	}
	return info
}

// c12UnbindInfo: the StreamInfo an application hands to Unbind*Stream for a stream it bound with
// `bound`.  Only the SSRC identifies the stream; everything else may be absent or renegotiated.
func c12UnbindInfo(app *App, bound, live *interceptor.StreamInfo, how string) *interceptor.StreamInfo {
	if how == "" && app != nil {
		return app.UnbindInfo(bound, live) // no `info=` on the op: the application's own schedule
	}
	return unbindInfoAs(bound, live, how) // streaminfo_test.go; "" / "same": the object handed to Bind*
}

var c12Payload = []byte{1, 2, 3, 4}

// c12Feed is an RTPReader / RTCPReader that hands out the bytes put into it.
type c12Feed struct{ buf []byte }

func (f *c12Feed) Read(b []byte, a interceptor.Attributes) (int, interceptor.Attributes, error) {
	n := copy(b, f.buf)
	return n, a, nil
}

type c12Sink struct{ rtpN, rtcpN int }

func (s *c12Sink) rtpWriter() interceptor.RTPWriter {
	return interceptor.RTPWriterFunc(func(h *rtp.Header, p []byte, _ interceptor.Attributes) (int, error) {
		s.rtpN++
		return h.MarshalSize() + len(p), nil
	})
}

func (s *c12Sink) rtcpWriter() interceptor.RTCPWriter {
	return interceptor.RTCPWriterFunc(func(pkts []rtcp.Packet, _ interceptor.Attributes) (int, error) {
		s.rtcpN += len(pkts)
		return 0, nil
	})
}

// receiver-side kinds: packets are read through the reader returned by BindRemoteStream.
type c12Recv struct {
	ic      interceptor.Interceptor
	twccExt bool
	feeds   map[uint32]*c12Feed
	readers map[uint32]interceptor.RTPReader
	infos   map[uint32]*interceptor.StreamInfo
	lives   map[uint32]*interceptor.StreamInfo // the objects the application handed to Bind*
	app     *App
	sz      func() map[string]int
	scratch []byte
	closed  bool
	revoked map[uint32]bool // nackgen filter=1: SSRCs taken off the allow-list of the streams filter
	o       *Out
}

// newC12Recv: `ic` is the interceptor in its ambient chain (env.o.Wrap), `sz` reads the interceptor itself.
func newC12Recv(env *c12Env, ic interceptor.Interceptor, twccExt bool, sz func() map[string]int) *c12Recv {
	return &c12Recv{o: env.o, ic: ic, twccExt: twccExt, feeds: map[uint32]*c12Feed{}, readers: map[uint32]interceptor.RTPReader{},
		infos: map[uint32]*interceptor.StreamInfo{}, lives: map[uint32]*interceptor.StreamInfo{}, app: env.app, sz: sz, scratch: make([]byte, 1500)}
}

func (k *c12Recv) bind(ssrc uint32) {
	delete(k.revoked, ssrc)
	f := &c12Feed{}
	info := c12Info(ssrc, k.twccExt)
	live := k.app.BindInfo(info)
	k.feeds[ssrc], k.infos[ssrc], k.lives[ssrc] = f, info, live
	k.o.InfoGuard("BindRemoteStream", live, func() { k.readers[ssrc] = k.ic.BindRemoteStream(live, f) })
	k.app.AfterBind(live) // Bind has returned: the object is the application's again
}

func (k *c12Recv) packet(ssrc uint32, seq uint16, lost bool) {
	r := k.readers[ssrc]
	if r == nil || lost {
		return
	}
	p := rtp.Packet{Header: *c12Header(ssrc, seq, k.twccExt, seq), Payload: c12Payload}
	b, err := p.Marshal()
	if err != nil {
		panic(err)
	}
	k.feeds[ssrc].buf = b
	_, _, _ = r.Read(k.scratch, k.o.Attrs(interceptor.Attributes{}))
}

func (k *c12Recv) feedback() {}

func (k *c12Recv) unbind(ssrc uint32, how string) {
	if info := k.infos[ssrc]; info != nil {
		if k.revoked != nil {
			k.revoked[ssrc] = true
		}
		ui := c12UnbindInfo(k.app, info, k.lives[ssrc], how)
		k.o.InfoGuard("UnbindRemoteStream", ui, func() { k.ic.UnbindRemoteStream(ui) })
		delete(k.readers, ssrc)
	}
}

func (k *c12Recv) close() {
	if !k.closed {
		k.closed = true
		_ = k.ic.Close()
	}
}
func (k *c12Recv) sizes() map[string]int { return k.sz() }

// sender-side kinds: packets are written through the writer returned by BindLocalStream; a
// simulated remote peer (the real twcc / rfc8888 recorders) produces the feedback.
type c12Send struct {
	ic        interceptor.Interceptor
	env       *c12Env
	twccExt   bool
	sink      *c12Sink
	writers   map[uint32]interceptor.RTPWriter
	infos     map[uint32]*interceptor.StreamInfo
	lives     map[uint32]*interceptor.StreamInfo // the objects the application handed to Bind*
	app       *App
	sz        func() map[string]int
	rtcpFeed  *c12Feed
	rtcpRead  interceptor.RTCPReader
	rtcpWrite interceptor.RTCPWriter
	remoteTW  *twcc.Recorder
	remoteCC  *rfc8888.Recorder
	mkFb      func(k *c12Send) []rtcp.Packet
	lastLost  map[uint32]uint16
	accepted  int
	tw        uint16
	closed    bool
	scratch   []byte
	o         *Out
}

func newC12Send(ic interceptor.Interceptor, env *c12Env, twccExt bool, sz func() map[string]int) *c12Send {
	k := &c12Send{o: env.o, ic: ic, env: env, twccExt: twccExt, sink: &c12Sink{}, writers: map[uint32]interceptor.RTPWriter{},
		infos: map[uint32]*interceptor.StreamInfo{}, lives: map[uint32]*interceptor.StreamInfo{}, app: env.app, sz: sz, rtcpFeed: &c12Feed{}, lastLost: map[uint32]uint16{},
		remoteTW: twcc.NewRecorder(7), remoteCC: rfc8888.NewRecorder(), scratch: make([]byte, 65536)}
	k.rtcpRead = ic.BindRTCPReader(k.rtcpFeed)
	k.rtcpWrite = ic.BindRTCPWriter(k.sink.rtcpWriter())
	return k
}

func (k *c12Send) bind(ssrc uint32) {
	info := c12Info(ssrc, k.twccExt)
	info.SSRCForwardErrorCorrection = ssrc + 1000
	info.PayloadTypeForwardErrorCorrection = 118
	live := k.app.BindInfo(info)
	k.infos[ssrc], k.lives[ssrc] = info, live
	k.o.InfoGuard("BindLocalStream", live, func() { k.writers[ssrc] = k.ic.BindLocalStream(live, k.sink.rtpWriter()) })
	k.app.AfterBind(live) // Bind has returned: the object is the application's again
}

func (k *c12Send) packet(ssrc uint32, seq uint16, lost bool) {
	w := k.writers[ssrc]
	if w == nil {
		return
	}
	// the transport-wide sequence number counts every packet written, over all streams
	tw := k.tw
	k.tw++
	h := c12Header(ssrc, seq, k.twccExt, tw)
	if _, err := w.Write(h, c12Payload, k.o.Attrs(interceptor.Attributes{})); err == nil {
		k.accepted++
	}
	if lost {
		k.lastLost[ssrc] = seq
		return
	}
	now := time.Since(k.env.start)
	k.remoteTW.Record(ssrc, tw, now.Microseconds())
	k.remoteCC.AddPacket(k.env.start.Add(now), ssrc, seq, 0)
}

func (k *c12Send) feedback() {
	if k.mkFb == nil {
		return
	}
	pkts := k.mkFb(k)
	if len(pkts) == 0 {
		return
	}
	b, err := rtcp.Marshal(pkts)
	if err != nil {
		panic(err)
	}
	k.rtcpFeed.buf = b
	_, _, _ = k.rtcpRead.Read(k.scratch, interceptor.Attributes{})
}

func (k *c12Send) unbind(ssrc uint32, how string) {
	if info := k.infos[ssrc]; info != nil {
		ui := c12UnbindInfo(k.app, info, k.lives[ssrc], how)
		k.o.InfoGuard("UnbindLocalStream", ui, func() { k.ic.UnbindLocalStream(ui) })
		delete(k.writers, ssrc)
	}
}

func (k *c12Send) close() {
	if !k.closed {
		k.closed = true
		_ = k.ic.Close()
	}
}
func (k *c12Send) sizes() map[string]int { return k.sz() }

func c12FbTWCC(k *c12Send) []rtcp.Packet { return k.remoteTW.BuildFeedbackPacket() }
func c12FbCCFB(k *c12Send) []rtcp.Packet {
	return []rtcp.Packet{k.remoteCC.BuildReport(time.Now(), 1200)}
}

// the feedback adapter of internal/cc is a plain object, not an interceptor.
type c12Adapter struct {
	env    *c12Env
	fa     *verifhooks.FeedbackAdapter
	remote *twcc.Recorder
}

func (k *c12Adapter) bind(uint32) {}
func (k *c12Adapter) packet(ssrc uint32, seq uint16, lost bool) {
	h := c12Header(ssrc, seq, true, seq)
	_ = k.fa.OnSent(time.Now(), h, len(c12Payload), interceptor.Attributes{verifhooks.TwccExtensionAttributesKey: uint8(1)})
	if !lost {
		k.remote.Record(ssrc, seq, time.Since(k.env.start).Microseconds())
	}
}

func (k *c12Adapter) feedback() {
	for _, p := range k.remote.BuildFeedbackPacket() {
		if fb, ok := p.(*rtcp.TransportLayerCC); ok {
			_, _ = k.fa.OnTransportCCFeedback(time.Now(), fb)
		}
	}
}
func (k *c12Adapter) unbind(uint32, string) {}
func (k *c12Adapter) close()                {}
func (k *c12Adapter) sizes() map[string]int {
	l, m := k.fa.VerifHistoryLen()
	return map[string]int{"list": l, "map": m}
}

// the leaky bucket pacer of gcc is a plain object as well.
type c12Leaky struct {
	p      *gcc.LeakyBucketPacer
	sink   *c12Sink
	closed bool
}

func (k *c12Leaky) bind(ssrc uint32) { k.p.AddStream(ssrc, k.sink.rtpWriter()) }
func (k *c12Leaky) packet(ssrc uint32, seq uint16, _ bool) {
	_, _ = k.p.Write(c12Header(ssrc, seq, false, 0), c12Payload, nil)
}
func (k *c12Leaky) feedback()             {}
func (k *c12Leaky) unbind(uint32, string) {}
func (k *c12Leaky) close() {
	if !k.closed {
		k.closed = true
		_ = k.p.Close()
	}
}
func (k *c12Leaky) sizes() map[string]int { return k.p.VerifSizes() }

func c12New(env *c12Env) c12Kind {
	ivl := time.Duration(env.nat("ivl", 100)) * time.Millisecond
	must := func(err error) {
		if err != nil {
			panic(err)
		}
	}
	switch env.cfg["kind"] {
	case "nackgen":
		opts := []nack.GeneratorOption{nack.GeneratorSize(uint16(env.nat("size", 512))),
			nack.GeneratorInterval(ivl), nack.GeneratorMaxNacksPerPacket(uint16(env.nat("max", 0)))}
		var revoked map[uint32]bool
		if env.nat("filter", 0) == 1 { // a stateful allow-list instead of the default "has nack feedback"
			revoked = map[uint32]bool{}
			opts = append(opts, nack.GeneratorStreamsFilter(func(info *interceptor.StreamInfo) bool { return !revoked[info.SSRC] }))
		}
		f, err := nack.NewGeneratorInterceptor(appShuffle(env.app, opts)...) // options of different fields commute
		must(err)
		ic, err := f.NewInterceptor("")
		must(err)
		g := ic.(*nack.GeneratorInterceptor)
		wic := env.o.Wrap(ic)
		if env.nat("writer", 1) == 1 {
			wic.BindRTCPWriter((&c12Sink{}).rtcpWriter())
		}
		k := newC12Recv(env, wic, false, g.VerifSizes)
		k.revoked = revoked
		return k
	case "nackresp":
		f, err := nack.NewResponderInterceptor(nack.ResponderSize(uint16(env.nat("size", 1024))))
		must(err)
		ic, err := f.NewInterceptor("")
		must(err)
		k := newC12Send(env.o.Wrap(ic), env, false, ic.(*nack.ResponderInterceptor).VerifSizes)
		k.mkFb = func(k *c12Send) []rtcp.Packet { // a NACK for the last lost packet of every stream
			var ssrcs []int
			for s := range k.lastLost {
				ssrcs = append(ssrcs, int(s))
			}
			sort.Ints(ssrcs)
			var out []rtcp.Packet
			for _, s := range ssrcs {
				out = append(out, &rtcp.TransportLayerNack{SenderSSRC: 9, MediaSSRC: uint32(s),
					Nacks: []rtcp.NackPair{{PacketID: k.lastLost[uint32(s)]}}})
			}
			return out
		}
		return k
	case "rr":
		f, err := report.NewReceiverInterceptor(report.ReceiverInterval(ivl))
		must(err)
		ic, err := f.NewInterceptor("")
		must(err)
		wic := env.o.Wrap(ic)
		wic.BindRTCPWriter((&c12Sink{}).rtcpWriter())
		return newC12Recv(env, wic, false, ic.(*report.ReceiverInterceptor).VerifSizes)
	case "sr":
		f, err := report.NewSenderInterceptor(report.SenderInterval(ivl))
		must(err)
		ic, err := f.NewInterceptor("")
		must(err)
		return newC12Send(env.o.Wrap(ic), env, false, ic.(*report.SenderInterceptor).VerifSizes)
	case "twcc":
		f, err := twcc.NewSenderInterceptor(twcc.SendInterval(ivl))
		must(err)
		ic, err := f.NewInterceptor("")
		must(err)
		wic := env.o.Wrap(ic)
		wic.BindRTCPWriter((&c12Sink{}).rtcpWriter())
		return newC12Recv(env, wic, true, ic.(*twcc.SenderInterceptor).VerifSizes)
	case "rfc8888":
		f, err := rfc8888.NewSenderInterceptor(rfc8888.SendInterval(ivl))
		must(err)
		ic, err := f.NewInterceptor("")
		must(err)
		wic := env.o.Wrap(ic)
		wic.BindRTCPWriter((&c12Sink{}).rtcpWriter())
		return newC12Recv(env, wic, false, ic.(*rfc8888.SenderInterceptor).VerifSizes)
	case "rtpfb":
		f, err := rtpfb.NewInterceptor()
		must(err)
		ic, err := f.NewInterceptor("")
		must(err)
		tw := env.cfg["mode"] != "ccfb"
		h := rtpfb.VerifHistoryOf(ic)
		k := newC12Send(env.o.Wrap(ic), env, tw, func() map[string]int {
			p, t, s := h.Sizes()
			return map[string]int{"packets": p, "twcc": t, "ssrcseq": s}
		})
		if tw {
			k.mkFb = c12FbTWCC
		} else {
			k.mkFb = c12FbCCFB
		}
		return k
	case "ccadapter":
		return &c12Adapter{env: env, fa: verifhooks.NewFeedbackAdapter(), remote: twcc.NewRecorder(7)}
	case "stats":
		f, err := stats.NewInterceptor()
		must(err)
		ic, err := f.NewInterceptor("")
		must(err)
		k := newC12Send(env.o.Wrap(ic), env, false, ic.(*stats.Interceptor).VerifSizes)
		return &c12Stats{c12Send: k}
	case "jitter":
		f, err := jitterbuffer.NewInterceptor()
		must(err)
		ic, err := f.NewInterceptor("")
		must(err)
		return newC12Recv(env, env.o.Wrap(ic), false, ic.(*jitterbuffer.ReceiverInterceptor).VerifSizes)
	case "flexfec":
		f, err := flexfec.NewFecInterceptor(appShuffle(env.app, []flexfec.FecOption{flexfec.NumMediaPackets(uint32(env.nat("media", 5))),
			flexfec.NumFECPackets(uint32(env.nat("fec", 2)))})...)
		must(err)
		ic, err := f.NewInterceptor("")
		must(err)
		return newC12Send(env.o.Wrap(ic), env, false, ic.(*flexfec.FecInterceptor).VerifSizes)
	case "leaky":
		return &c12Leaky{p: gcc.NewLeakyBucketPacer(env.nat("rate", 1_000_000)), sink: &c12Sink{}}
	case "pacing":
		f := pacing.NewInterceptor(appShuffle(env.app, []pacing.Option{pacing.InitialRate(env.nat("rate", 1_000_000)), pacing.Interval(5 * time.Millisecond)})...)
		ic, err := f.NewInterceptor("x")
		must(err)
		pi := ic.(*pacing.Interceptor)
		var k *c12Send
		k = newC12Send(env.o.Wrap(ic), env, false, func() map[string]int {
			return map[string]int{"chan": pi.VerifSizes()["chan"], "held": k.accepted - k.sink.rtpN,
				"factory": f.VerifSizes()["interceptors"]}
		})
		return k
	}
	return nil
}

// stats: the feedback event is an outgoing compound RTCP packet (SR + XR/RRTR) per bound stream.
type c12Stats struct {
	*c12Send
	n uint64
}

func (k *c12Stats) feedback() {
	var ssrcs []int
	for s := range k.writers {
		ssrcs = append(ssrcs, int(s))
	}
	sort.Ints(ssrcs)
	for _, si := range ssrcs {
		s := uint32(si)
		k.n++
		n := k.n
		// outgoing compound packet: one or two sender reports and an XR with 1..4 RRTR blocks
		out := []rtcp.Packet{&rtcp.SenderReport{SSRC: s, NTPTime: n << 20}}
		if n%2 == 1 {
			out = append(out, &rtcp.SenderReport{SSRC: s, NTPTime: n<<20 + 1})
		}
		xr := &rtcp.ExtendedReport{SenderSSRC: s}
		for j := uint64(0); j < 1+n%4; j++ {
			xr.Reports = append(xr.Reports, &rtcp.ReceiverReferenceTimeReportBlock{NTPTimestamp: n<<20 + 16 + j})
		}
		out = append(out, xr)
		_, _ = k.rtcpWrite.Write(out, interceptor.Attributes{})
		// incoming compound packet: a receiver report with 1..3 report blocks for the stream
		rr := &rtcp.ReceiverReport{SSRC: 9}
		for j := uint64(0); j < 1+n%3; j++ {
			rr.Reports = append(rr.Reports, rtcp.ReceptionReport{SSRC: s, FractionLost: uint8(n + j), TotalLost: uint32(n % 1000),
				LastSequenceNumber: uint32(n + j), Jitter: uint32(j)})
		}
		b, err := rtcp.Marshal([]rtcp.Packet{rr})
		if err != nil {
			panic(err)
		}
		k.rtcpFeed.buf = b
		_, _, _ = k.rtcpRead.Read(k.scratch, interceptor.Attributes{})
	}
}

func c12Show(m map[string]int) string {
	ks := make([]string, 0, len(m))
	for k := range m {
		ks = append(ks, k)
	}
	sort.Strings(ks)
	var sb strings.Builder
	for i, k := range ks {
		if i > 0 {
			sb.WriteByte(',')
		}
		fmt.Fprintf(&sb, "%s=%d", k, m[k])
	}
	return sb.String()
}

var c12Kinds = []string{"nackgen", "nackresp", "rr", "sr", "twcc", "rfc8888", "rtpfb", "ccadapter", "stats", "jitter", "flexfec", "leaky", "pacing"}

func c12Valid(m map[string]string, keys ...string) bool {
	for _, k := range keys {
		s, ok := m[k]
		if !ok || s == "" || len(s) > 9 {
			return false
		}
		for _, ch := range s {
			if ch < '0' || ch > '9' {
				return false
			}
		}
	}
	return true
}

func runSizes(t *testing.T, ops []string, o *Out) {
	app, ops := appOf(ops)
	synctest.Test(t, func(t *testing.T) {
		env := &c12Env{start: time.Now(), o: o, app: app}
		var k c12Kind
		next := map[uint32]uint16{}
		bound := map[uint32]bool{}
		g := 0
		closed := false
		defer func() {
			if k != nil {
				k.close()
			}
		}()
		for _, op := range ops {
			name, m := kv(op)
			switch name {
			case "new":
				env.cfg = m
				ok := k == nil
				for key, v := range m {
					if key != "kind" && key != "mode" && !c12Valid(m, key) {
						ok = false
					}
					_ = v
				}
				if ok && (env.nat("ivl", 100) < 1 || env.nat("size", 64) > 32768 || env.nat("media", 5) > 100 || env.nat("fec", 2) > 10 ||
					env.nat("fec", 2) < 1 || env.nat("rate", 1) < 1) {
					ok = false
				}
				if sz := env.nat("size", 64); ok && (sz < 64 || sz&(sz-1) != 0) {
					ok = false
				}
				var nk c12Kind
				if ok {
					nk = c12New(env)
				}
				if nk == nil {
					o.P("bad-op")
					continue
				}
				k = nk
			case "bind":
				if k == nil || closed || !c12Valid(m, "ssrc") {
					o.P("bad-op")
					continue
				}
				s := uint32(atoi(m["ssrc"]))
				if _, ok := m["seq0"]; ok {
					if !c12Valid(m, "seq0") {
						o.P("bad-op")
						continue
					}
					next[s] = uint16(atoi(m["seq0"]))
				} else if _, known := next[s]; !known {
					next[s] = 0
				}
				bound[s] = true
				k.bind(s)
			case "phase":
				if k == nil || closed || !c12Valid(m, "ssrc", "n") {
					o.P("bad-op")
					continue
				}
				s0 := uint32(atoi(m["ssrc"]))
				n, p, fb, rr := atoi(m["n"]), 10, 0, 1
				okp := true
				for key, dst := range map[string]*int{"p": &p, "fb": &fb, "rr": &rr} {
					if _, ok := m[key]; ok {
						if !c12Valid(m, key) {
							okp = false
						} else {
							*dst = atoi(m[key])
						}
					}
				}
				w := m["workload"]
				if !okp || p < 2 || rr < 1 || rr > 1000 ||
					(w != "inorder" && w != "loss" && w != "dup" && w != "reorder" && w != "idle") {
					o.P("bad-op")
					continue
				}
				for j := 0; j < rr; j++ {
					if !bound[s0+uint32(j)] {
						okp = false
					}
				}
				if !okp {
					o.P("bad-op")
					continue
				}
				for i := 0; i < n; i++ {
					s := s0 + uint32(g%rr) // round-robin over the streams s0 .. s0+rr-1
					seq := next[s]
					r := g % p
					switch w {
					case "inorder":
						k.packet(s, seq, false)
					case "loss":
						k.packet(s, seq, r == p-1)
					case "dup":
						k.packet(s, seq, false)
						if r == p-1 {
							k.packet(s, seq, false)
						}
					case "reorder":
						switch r {
						case p - 2:
							k.packet(s, seq+1, false)
						case p - 1:
							k.packet(s, seq-1, false)
						default:
							k.packet(s, seq, false)
						}
					case "idle": // a pause: nothing passes, the sequence numbers go on
					}
					next[s] = seq + 1
					g++
					time.Sleep(time.Millisecond)
					synctest.Wait()
					if fb > 0 && g%fb == 0 {
						k.feedback()
						synctest.Wait()
					}
				}
			case "jump": // the stream's sequence number jumps forward by d
				if k == nil || closed || !c12Valid(m, "ssrc", "d") || !bound[uint32(atoi(m["ssrc"]))] || atoi(m["d"]) > 65535 {
					o.P("bad-op")
					continue
				}
				s := uint32(atoi(m["ssrc"]))
				next[s] += uint16(atoi(m["d"]))
			case "unbind":
				if k == nil || closed || !c12Valid(m, "ssrc") || !bound[uint32(atoi(m["ssrc"]))] {
					o.P("bad-op")
					continue
				}
				s := uint32(atoi(m["ssrc"]))
				k.unbind(s, m["info"])
				delete(bound, s)
			case "close":
				if k == nil || closed {
					o.P("bad-op")
					continue
				}
				k.close()
				closed = true
			default:
				o.P("bad-op")
				continue
			}
			synctest.Wait()
			o.P("sizes %s", c12Show(k.sizes()))
		}
	})
}

func init() {
	register("sizes", &Comp{N: c12N, Gen: genSizes, Run: runSizes, Timeout: 20 * time.Minute})
}

func c12N(tier string) int {
	if tier == "thorough" {
		return 65
	}
	return 65
}

// genSizes: one case = one interceptor kind, 1–2 streams, a list of equal-length phases of the
// workloads the property names, with and without feedback, then unbind and close.
func genSizes(r *Rng, tier string, idx int) Case {
	kind := c12Kinds[idx%len(c12Kinds)]
	var ops []string
	cfg := "new kind=" + kind
	ivl := r.Pick(20, 50, 100, 200)
	fb := r.Pick(0, 10, 50, 100, 250)
	// cost classes of the *model* (the Go side is cheap everywhere): histories that genuinely
	// grow are association lists in the models (quadratic), so those runs stay short; long runs
	// are for the kinds whose size is bounded.
	cost := 1 // 0 cheap, 1 medium, 2 growing
	nackFilter := false
	switch kind {
	case "rr", "sr", "nackresp", "ccadapter", "twcc", "flexfec":
		cost = 0
	case "jitter":
		cost = 2
	}
	switch kind {
	case "nackgen":
		cfg += fmt.Sprintf(" size=%d ivl=%d max=%d writer=%d", r.Pick(64, 512, 8192), ivl, r.Pick(0, 0, 2, 5), r.Pick(0, 1, 1, 1))
		nackFilter = true
	case "nackresp":
		cfg += fmt.Sprintf(" size=%d", r.Pick(64, 1024, 8192))
	case "rr", "sr":
		cfg += fmt.Sprintf(" ivl=%d", ivl)
	case "rfc8888": // also report intervals that hold far more packets than one report can describe
		ivl = r.Pick(20, 100, 200, 1000, 2000, 3000)
		cfg += fmt.Sprintf(" ivl=%d", ivl)
	case "twcc":
		cfg += fmt.Sprintf(" ivl=%d", r.Pick(20, 50, 100, 200, 3_600_000))
	case "rtpfb":
		cfg += " mode=" + []string{"twcc", "ccfb"}[r.Intn(2)]
		if fb == 0 {
			cost = 2
		} else {
			cost = 0
		}
	case "flexfec":
		cfg += fmt.Sprintf(" media=%d fec=%d", r.Range(1, 12), r.Range(1, 3))
	case "leaky", "pacing":
		rate := r.Pick(100_000, 1_000_000, 10_000_000)
		cfg += fmt.Sprintf(" rate=%d", rate)
		if rate == 100_000 { // below the offered 128 kbit/s: the queue grows (held = accepted - delivered)
			cost = 2
		}
	}
	var n int
	if tier == "thorough" {
		n = [3]int{r.Range(100_000, 300_000), r.Range(10_000, 25_000), r.Range(1500, 3000)}[cost]
		if cost == 0 && idx%5 == 0 {
			n = 1_000_000
		}
	} else {
		n = [3]int{r.Range(2000, 5000), r.Range(2000, 5000), r.Range(300, 800)}[cost]
	}
	ops = append(ops, cfg)
	// streams: mostly one or two, driven phase by phase; sometimes many, driven round-robin
	// (rfc8888: so many that the per-stream share of the report is zero blocks)
	streams, many := r.Range(1, 2), false
	if r.Chance(1, 4) {
		many = true
		streams = r.Range(5, 12)
		if kind == "rfc8888" && r.Chance(2, 3) {
			streams = r.Range(90, 130)
		}
		if kind == "rtpfb" {
			streams = r.Range(3, 8)
		}
	}
	for s := 1; s <= streams; s++ {
		ops = append(ops, fmt.Sprintf("bind ssrc=%d seq0=%d", s, r.Pick(0, 1000, 65000, 65530)))
	}
	wl := []string{"inorder", "loss", "dup", "reorder"}
	r0 := r.Intn(4)
	phases := r.Range(4, 8)
	p := r.Pick(2, 5, 10, 10, 50)
	// pauses and sequence jumps between phases (not for rtpfb: its simulated remote peer must see
	// every stream continuously, see the hypotheses in props/C12.json)
	gaps := kind != "rtpfb" && r.Chance(1, 2)
	// rtpfb with periodic feedback: in half of the cases the feedback stops for one phase (an outage of 500..2500
	// packets — as long as the model, whose maps are association lists, can follow) and resumes in the next: the sizes
	// are back to what they were.  Outages around and beyond one sequence-number cycle (65535 .. 140000 packets) run on
	// the real code alone, against the theorem's bound: harness/stress/sizes_outage_test.go.
	outageAt := -1
	if kind == "rtpfb" && fb > 0 && r.Chance(1, 2) {
		outageAt = r.Range(1, phases-2)
	}
	for i := 0; i < phases; i++ {
		w := wl[(r0+i/2)%4] // every workload twice in a row: growth between successive equal phases
		pn, pfb := n, fb
		if i == outageAt {
			pn, pfb = r.Pick(500, 1500, 2500), 0
		}
		if many {
			ops = append(ops, fmt.Sprintf("phase workload=%s ssrc=1 rr=%d n=%d p=%d fb=%d", w, streams, pn, p, pfb))
		} else {
			ops = append(ops, fmt.Sprintf("phase workload=%s ssrc=%d n=%d p=%d fb=%d", w, 1+(i%streams), pn, p, pfb))
		}
		if gaps && r.Chance(1, 3) {
			ops = append(ops, fmt.Sprintf("jump ssrc=%d d=%d", r.Range(1, streams), r.Pick(100, 700, 3000, 20000, 40000)))
		}
		if gaps && r.Chance(1, 4) {
			ops = append(ops, fmt.Sprintf("phase workload=idle ssrc=1 n=%d fb=%d", r.Pick(300, 1500, 3000), fb))
		}
	}
	// Unbind: the application identifies the stream by its SSRC; what else the StreamInfo carries
	// (drawn per unbind, for every kind) must not matter for what is released.  The draws come
	// after everything else of the case, so the traffic of a (seed, index) is what it always was.
	unbindOp := func(s int) string {
		how := r.Pick(0, 1, 1, 2, 3, 4, 5, 6)
		if how == 0 {
			return fmt.Sprintf("unbind ssrc=%d", s)
		}
		return fmt.Sprintf("unbind ssrc=%d info=%s", s, []string{"same", "ssrc", "nofb", "noext", "reneg", "copy", "copy"}[how])
	}
	for s := 1; s <= streams; s++ {
		ops = append(ops, unbindOp(s))
	}
	if r.Chance(1, 3) {
		ops = append(ops, "bind ssrc=1", fmt.Sprintf("phase workload=inorder ssrc=1 n=%d fb=%d", n/4, fb), unbindOp(1))
	}
	ops = append(ops, "close")
	if nackFilter && r.Chance(1, 3) {
		ops[0] += " filter=1"
	}
	cl := kind
	if fb == 0 {
		cl += "-nofb"
	}
	// the ambient, drawn last: rounds 1 and 3 of every kind run in a chain whose FIRST member fails to close,
	// round 2 in a chain of well-behaved neighbours (the plain objects ccadapter / leaky have no chain)
	switch round := (idx / len(c12Kinds)) % 5; {
	case kind == "ccadapter" || kind == "leaky":
	case round == 1 || round == 3:
		before := []string{"failclose", "failclose", "failclose,noop", "failclose,stats", "failclose,dumps"}[r.Intn(5)]
		after := []string{"", "", "noop", "stats", "failclose"}[r.Intn(5)]
		ops = append([]string{ambOp(before, after, true, false, false, false)}, ops...)
		cl += "-chain"
	case round == 2:
		before := []string{"", "noop", "stats", "dumps,noop"}[r.Intn(4)]
		after := []string{"", "noop", "stats", "dumpr"}[r.Intn(4)]
		ops = append([]string{ambOp(before, after, true, false, false, false)}, ops...)
		cl += "-chain"
	}
	// the application (streaminfo_test.go), drawn after everything else: how it writes the feedback list down, what it does
	// with its StreamInfo after Bind*, the order of its option list, its StreamInfo for an `unbind` without `info=`
	if r.Chance(2, 3) {
		ops = withApp(ops, genApp(r, 2, 3, 2, 3))
	}
	return Case{Class: cl, Ops: ops}
}

package corr

import (
	"fmt"
	"math"
	"testing"
	"time"

	"github.com/pion/interceptor/pkg/verifhooks"
)

func init() {
	register("ntp", &Comp{
		N: func(tier string) int {
			if tier == "thorough" {
				return 40000
			}
			return 1200
		},
		Gen: func(r *Rng, tier string, idx int) Case {
			classes := []string{"uniform", "secbound", "pow2", "grid256", "pairs", "t32", "totime", "f64", "secbound", "winend"}
			cl := classes[idx%len(classes)]
			const maxNs = int64(2085978495) * 1e9 // 2036-02-07 06:28:15 UTC: NTP era 0 ends
			ops := []string{}
			n := 12
			rnd := func() int64 { return int64(r.U64() % uint64(maxNs)) }
			for i := 0; i < n; i++ {
				switch cl {
				case "uniform":
					ops = append(ops, fmt.Sprintf("ntp %d", rnd()))
				case "secbound":
					s := rnd() / 1e9 * 1e9
					off := int64(r.Range(-3, 3))
					if r.Bool() {
						off = int64(r.Range(-700, 700)) // the float grid is 2^-21 s = 477 ns here
					}
					if s+off < 0 {
						off = 0
					}
					ops = append(ops, fmt.Sprintf("ntp %d", s+off))
				case "pow2":
					e := r.Range(0, 60)
					v := (int64(1) << uint(e)) + int64(r.Range(-600, 600))
					if v < 0 {
						v = 0
					}
					if v >= maxNs {
						v = maxNs - 1
					}
					ops = append(ops, fmt.Sprintf("ntp %d", v))
				case "grid256":
					v := rnd() &^ 255
					ops = append(ops, fmt.Sprintf("ntp %d", v+int64(r.Range(-2, 2))))
				case "pairs":
					a := rnd()
					ops = append(ops, fmt.Sprintf("ntp %d", a), fmt.Sprintf("ntp %d", a+int64(r.Intn(1000000))))
				case "t32":
					ref := rnd()
					off := int64(r.Intn(30000)) * 1e9
					if r.Bool() {
						off = -off
					}
					tt := ref + off + int64(r.Intn(1e9))
					if tt < 0 {
						tt = 0
					}
					ops = append(ops, fmt.Sprintf("t32 %d %d", verifhooks.ToNTP32(time.Unix(0, tt)), ref))
				case "winend":
					// the end of a 2^16-second NTP window: reference and instant within a microsecond of it
					k := int64(r.Range(33707, 65530))
					end := (k*65536 - 2208988800) * 1e9
					if end <= 0 || end >= maxNs {
						end = (40000*65536 - 2208988800) * 1e9
					}
					tt := end - int64(r.Range(0, 700))
					ref := tt + int64(r.Pick(0, 0, -40, 40, -500, 300, 1000))
					ops = append(ops, fmt.Sprintf("ntp %d", tt), fmt.Sprintf("t32 %d %d", verifhooks.ToNTP32(time.Unix(0, tt)), ref))
				case "totime":
					ops = append(ops, fmt.Sprintf("totime %d", r.U64()))
				case "f64":
					op := []string{"add", "sub", "mul", "div", "divmul"}[r.Intn(5)]
					a := int64(r.U64()) >> uint(r.Intn(63))
					b := int64(r.U64()) >> uint(r.Intn(63))
					if r.Chance(1, 4) {
						b = int64(1) << uint(r.Intn(62))
					}
					if (op == "div" || op == "divmul") && b == 0 {
						b = 3
					}
					if op == "mul" || op == "divmul" {
						a >>= 20
						b >>= 20
						if b == 0 {
							b = 7
						}
					}
					ops = append(ops, fmt.Sprintf("f64 %s %d %d", op, a, b))
				}
			}
			return Case{Class: cl, Ops: ops}
		},
		Run: func(t *testing.T, ops []string, o *Out) {
			for _, op := range ops {
				var a, b int64
				var u uint64
				var name string
				switch {
				case scan(op, "ntp %d", &a):
					v := verifhooks.ToNTP(time.Unix(0, a))
					o.P("%d %d %d", v, verifhooks.ToNTP32(time.Unix(0, a)), verifhooks.ToTime(v).UnixNano())
				case scan(op, "totime %d", &u):
					tt := verifhooks.ToTime(u)
					o.P("%d", tt.Sub(time.Unix(0, 0)).Nanoseconds())
				case scan(op, "t32 %d %d", &u, &b):
					o.P("%d", verifhooks.ToTime32(uint32(u), time.Unix(0, b)).UnixNano())
				case scan(op, "f64 %s %d %d", &name, &a, &b):
					x, y := float64(a), float64(b)
					var z float64
					switch name {
					case "add":
						z = x + y
					case "sub":
						z = x - y
					case "mul":
						z = x * y
					case "div":
						z = x / y
					case "divmul":
						z = x / y
						z = z * 1000000007
					}
					if z == 0 {
						z = 0 // signed zero is not modelled (F64 values are rationals)
					}
					o.P("%d", math.Float64bits(z))
				default:
					o.P("bad-op")
				}
			}
		},
	})
}

func scan(s, format string, a ...any) bool {
	n, err := fmt.Sscanf(s, format, a...)
	return err == nil && n == len(a)
}

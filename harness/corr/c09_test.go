package corr

// C09 (+ C02 clause for the feedback decoders): components `fbadapter` (internal/cc
// FeedbackAdapter) and `rtpfb` (pkg/rtpfb decoders, history and processFeedback behind the
// public BindLocalStream).  Feedback is given in PARSED form; all times are integers
// "nanoseconds since Go's zero time.Time" (Z-time), printed with math/big.
//
// RE-ENTRANCY (component `rtpfb`, ambient option `nest=1`, class `loopback`): the transport below the interceptor is
// synchronous.  The `q …` ops and the `fb` that directly follow a `send` are executed by the bottom RTP writer before
// it returns from that Write (same goroutine), and every `fb` whose queued packets survive Marshal/Unmarshal is read
// through the interceptor's own RTCP reader (BindRTCPReader: bytes from the transport, the injected clock reads `now=`,
// the report is the one attached to the returned attributes) instead of the processFeedback hook.  The model runs the
// ops in sequence: a packet handed to the writer below is sent, feedback about it is feedback about a sent packet.

import (
	"fmt"
	"math/big"
	"sort"
	"strings"
	"testing"
	"time"

	"github.com/pion/interceptor"
	"github.com/pion/interceptor/pkg/rfc8888"
	"github.com/pion/interceptor/pkg/rtpfb"
	"github.com/pion/interceptor/pkg/twcc"
	"github.com/pion/interceptor/pkg/verifhooks"
	"github.com/pion/rtcp"
	"github.com/pion/rtp"
)

const c09ZUnix = 62135596800 // seconds from 0001-01-01 to 1970-01-01
const c09TwccURI = "http://www.ietf.org/id/draft-holmer-rmcat-transport-wide-cc-extensions-01"

var c09E9 = big.NewInt(1_000_000_000)

func c09ZT(s string) time.Time {
	v, ok := new(big.Int).SetString(s, 10)
	if !ok {
		panic("bad time " + s)
	}
	q, r := new(big.Int).DivMod(v, c09E9, new(big.Int))
	return time.Unix(q.Int64()-c09ZUnix, r.Int64()).UTC()
}

func c09ZS(t time.Time) string {
	v := big.NewInt(t.Unix() + c09ZUnix)
	v.Mul(v, c09E9)
	v.Add(v, big.NewInt(int64(t.Nanosecond())))
	return v.String()
}

// Z-time of (year 2000 + ms milliseconds)
func c09At(ms int64) time.Time {
	return time.Unix(946684800, 0).UTC().Add(time.Duration(ms) * time.Millisecond)
}

type c09Other struct{}

func (c09Other) Marshal() ([]byte, error) { return []byte{0, 0}, nil }
func (c09Other) Unmarshal([]byte) error   { return nil }

// ---- parsed form <-> rtcp structures

func c09ParseTWCC(m map[string]string) (*rtcp.TransportLayerCC, bool) {
	for _, k := range []string{"base", "cnt", "ref", "chunks", "deltas"} {
		if _, ok := m[k]; !ok {
			return nil, false
		}
	}
	fb := &rtcp.TransportLayerCC{
		BaseSequenceNumber: uint16(atoi(m["base"])),
		PacketStatusCount:  uint16(atoi(m["cnt"])),
		ReferenceTime:      uint32(atoi(m["ref"])),
		PacketChunks:       []rtcp.PacketStatusChunk{},
		RecvDeltas:         []*rtcp.RecvDelta{},
	}
	if m["chunks"] != "-" {
		for _, c := range strings.Split(m["chunks"], "/") {
			switch {
			case c == "X":
				fb.PacketChunks = append(fb.PacketChunks, c09Other{})
			case strings.HasPrefix(c, "R"):
				p := strings.Split(c[1:], "x")
				if len(p) != 2 {
					return nil, false
				}
				fb.PacketChunks = append(fb.PacketChunks, &rtcp.RunLengthChunk{
					Type: rtcp.TypeTCCRunLengthChunk, PacketStatusSymbol: uint16(atoi(p[0])), RunLength: uint16(atoi(p[1])),
				})
			case strings.HasPrefix(c, "V"):
				p := strings.Split(c[1:], ":")
				if len(p) != 2 {
					return nil, false
				}
				sv := &rtcp.StatusVectorChunk{Type: rtcp.TypeTCCStatusVectorChunk, SymbolSize: uint16(atoi(p[0])), SymbolList: []uint16{}}
				if p[1] != "-" {
					for _, s := range strings.Split(p[1], ".") {
						sv.SymbolList = append(sv.SymbolList, uint16(atoi(s)))
					}
				}
				fb.PacketChunks = append(fb.PacketChunks, sv)
			default:
				return nil, false
			}
		}
	}
	for _, d := range parseInts(m["deltas"]) {
		typ := uint16(rtcp.TypeTCCPacketReceivedSmallDelta)
		if d < 0 || d > 255*250 || d%250 != 0 {
			typ = rtcp.TypeTCCPacketReceivedLargeDelta
		}
		fb.RecvDeltas = append(fb.RecvDeltas, &rtcp.RecvDelta{Type: typ, Delta: int64(d)})
	}
	return fb, true
}

func c09ShowTWCC(fb *rtcp.TransportLayerCC) string {
	var cs []string
	for _, pc := range fb.PacketChunks {
		switch c := pc.(type) {
		case *rtcp.RunLengthChunk:
			cs = append(cs, fmt.Sprintf("R%dx%d", c.PacketStatusSymbol, c.RunLength))
		case *rtcp.StatusVectorChunk:
			var ss []string
			for _, s := range c.SymbolList {
				ss = append(ss, fmt.Sprint(s))
			}
			sl := "-"
			if len(ss) > 0 {
				sl = strings.Join(ss, ".")
			}
			cs = append(cs, fmt.Sprintf("V%d:%s", c.SymbolSize, sl))
		default:
			cs = append(cs, "X")
		}
	}
	ch := "-"
	if len(cs) > 0 {
		ch = strings.Join(cs, "/")
	}
	ds := make([]int64, 0, len(fb.RecvDeltas))
	for _, d := range fb.RecvDeltas {
		ds = append(ds, d.Delta)
	}
	return fmt.Sprintf("base=%d cnt=%d ref=%d chunks=%s deltas=%s", fb.BaseSequenceNumber, fb.PacketStatusCount, fb.ReferenceTime, ch, joinInts(ds))
}

func c09ParseCCFB(m map[string]string) (*rtcp.CCFeedbackReport, bool) {
	for _, k := range []string{"rts", "ref", "blocks"} {
		if _, ok := m[k]; !ok {
			return nil, false
		}
	}
	fb := &rtcp.CCFeedbackReport{ReportTimestamp: uint32(atoi(m["rts"])), ReportBlocks: []rtcp.CCFeedbackReportBlock{}}
	if m["blocks"] != "-" {
		for _, b := range strings.Split(m["blocks"], "/") {
			p := strings.Split(b, ":")
			if len(p) != 3 {
				return nil, false
			}
			rb := rtcp.CCFeedbackReportBlock{MediaSSRC: uint32(atoi(p[0])), BeginSequence: uint16(atoi(p[1])), MetricBlocks: []rtcp.CCFeedbackMetricBlock{}}
			if p[2] != "-" {
				for _, ms := range strings.Split(p[2], ".") {
					q := strings.Split(ms, "_")
					if len(q) != 3 {
						return nil, false
					}
					rb.MetricBlocks = append(rb.MetricBlocks, rtcp.CCFeedbackMetricBlock{
						Received: q[0] == "1", ECN: rtcp.ECN(atoi(q[1])), ArrivalTimeOffset: uint16(atoi(q[2])),
					})
				}
			}
			fb.ReportBlocks = append(fb.ReportBlocks, rb)
		}
	}
	return fb, true
}

func c09ShowCCFB(fb *rtcp.CCFeedbackReport, ref time.Time) string {
	var bs []string
	for _, rb := range fb.ReportBlocks {
		var ms []string
		for _, mb := range rb.MetricBlocks {
			r := 0
			if mb.Received {
				r = 1
			}
			ms = append(ms, fmt.Sprintf("%d_%d_%d", r, mb.ECN, mb.ArrivalTimeOffset))
		}
		ml := "-"
		if len(ms) > 0 {
			ml = strings.Join(ms, ".")
		}
		bs = append(bs, fmt.Sprintf("%d:%d:%s", rb.MediaSSRC, rb.BeginSequence, ml))
	}
	bl := "-"
	if len(bs) > 0 {
		bl = strings.Join(bs, "/")
	}
	return fmt.Sprintf("rts=%d ref=%s blocks=%s", fb.ReportTimestamp, c09ZS(ref), bl)
}

// ---- interpreters

func c09RunAdapter(t *testing.T, ops []string, o *Out) {
	fa := verifhooks.NewFeedbackAdapter()
	// the acknowledgment slices the adapter returned are the caller's: kept and re-rendered after every later op
	defer o.EndKept()
	for _, op := range ops {
		o.CheckKept()
		name, m := kv(op)
		switch name {
		case "sent": // sent tw=<seq> size= t=   |  sent ssrc= seq= size= t=
			ts := c09ZT(m["t"])
			if tw, ok := m["tw"]; ok {
				h := rtp.Header{Version: 2, SSRC: 7, SequenceNumber: 1}
				b, _ := (&rtp.TransportCCExtension{TransportSequence: uint16(atoi(tw))}).Marshal()
				_ = h.SetExtension(1, b)
				if err := fa.OnSent(ts, &h, atoi(m["size"]), interceptor.Attributes{verifhooks.TwccExtensionAttributesKey: uint8(1)}); err != nil {
					o.P("err:sent")
				}
			} else {
				h := rtp.Header{Version: 2, SSRC: uint32(atoi(m["ssrc"])), SequenceNumber: uint16(atoi(m["seq"]))}
				if err := fa.OnSent(ts, &h, atoi(m["size"]), interceptor.Attributes{}); err != nil {
					o.P("err:sent")
				}
			}
		case "sentbad": // TWCC attribute set but no extension in the header: rejected, nothing recorded
			h := rtp.Header{Version: 2, SSRC: 7, SequenceNumber: 1}
			if err := fa.OnSent(c09ZT(m["t"]), &h, 10, interceptor.Attributes{verifhooks.TwccExtensionAttributesKey: uint8(1)}); err != nil {
				o.P("err:missing-ext")
			} else {
				o.P("ok")
			}
		default:
			if !c09AdapterFeedbackOp(fa, name, m, o.P, o) {
				o.P("bad-op")
			}
		}
	}
}

// c09PrintAcks prints what the adapter answered to one feedback packet.
func c09PrintAcks(P func(string, ...any), acks []verifhooks.Acknowledgment) {
	P("acks n=%d", len(acks))
	for _, a := range acks {
		P("a seq=%d ssrc=%d size=%d dep=%s arr=%s ecn=%d", a.SequenceNumber, a.SSRC, a.Size, c09ZS(a.Departure), c09ZS(a.Arrival), a.ECN)
	}
}

// c09AdapterFeedbackOp executes the ops of `fbadapter` that READ the adapter (twcc, ccfb, len); false = not one of them.
func c09AdapterFeedbackOp(fa *verifhooks.FeedbackAdapter, name string, m map[string]string, P func(string, ...any), keep ...*Out) bool {
	printAcks := func(acks []verifhooks.Acknowledgment) {
		P("acks n=%d", len(acks))
		for _, a := range acks {
			P("a seq=%d ssrc=%d size=%d dep=%s arr=%s ecn=%d", a.SequenceNumber, a.SSRC, a.Size, c09ZS(a.Departure), c09ZS(a.Arrival), a.ECN)
		}
		if len(keep) > 0 && len(acks) > 0 {
			o := keep[0]
			o.KeepFast(fmt.Sprintf("acks#%d", o.KeptN()+1), 8*len(acks), func() uint64 {
				h := keptFNVInit
				for i := range acks {
					a := &acks[i]
					h = keptMix(h, uint64(a.SSRC)<<32|uint64(a.SequenceNumber)<<8|uint64(a.ECN))
					h = keptMix(h, uint64(a.Size))
					h = keptMix(h, uint64(a.Departure.Unix()))
					h = keptMix(h, uint64(a.Departure.Nanosecond()))
					h = keptMix(h, uint64(a.Arrival.Unix()))
					h = keptMix(h, uint64(a.Arrival.Nanosecond()))
				}
				return keptMix(h, uint64(len(acks)))
			}, func() string {
				var sb strings.Builder
				for _, a := range acks {
					fmt.Fprintf(&sb, "%d/%d/%d/%s/%s/%d;", a.SequenceNumber, a.SSRC, a.Size, c09ZS(a.Departure), c09ZS(a.Arrival), a.ECN)
				}
				return sb.String()
			})
		}
	}
	switch name {
	case "twcc":
		fb, ok := c09ParseTWCC(m)
		if !ok {
			P("bad-op")
			return true
		}
		was := rtcpTexts([]rtcp.Packet{fb})
		acks, err := fa.OnTransportCCFeedback(time.Time{}, fb)
		if now := rtcpTexts([]rtcp.Packet{fb}); now[0] != was[0] {
			P("INPUT-REWRITTEN OnTransportCCFeedback: the feedback was [%s] and is now [%s]", strings.ReplaceAll(was[0], " ", "_"), strings.ReplaceAll(now[0], " ", "_"))
		}
		if err != nil {
			P("err:invalid")
			return true
		}
		printAcks(acks)
	case "ccfb":
		fb, ok := c09ParseCCFB(m)
		if !ok {
			P("bad-op")
			return true
		}
		if c09ZS(verifhooks.ToTime(uint64(fb.ReportTimestamp)<<16)) != m["ref"] {
			P("bad-op") // ref must be the real ntp.ToTime(rts<<16): the NTP conversion is a parameter of the model
			return true
		}
		printAcks(fa.OnRFC8888Feedback(time.Time{}, fb))
	case "len":
		l, ml := fa.VerifHistoryLen()
		P("len list=%d map=%d", l, ml)
	default:
		return false
	}
	return true
}

// c09Peer is one rtpfb interceptor (one peer connection) of a case.
type c09Peer struct {
	ic      interceptor.Interceptor
	hist    *rtpfb.VerifHistory
	writers map[c09WKey]interceptor.RTPWriter
	queue   []rtcp.Packet
	// the arrival instants the REMOTE peer recorded for packets named by queued RFC 8888 reports
	// (`want=` of a `q ccfb` op), to be compared with the decoded arrival of the next `fb`
	wants map[c09WantKey]time.Time
	// option `nest=1`: the ops the bottom RTP writer executes before it returns from the Write of the current `send`;
	// the interceptor's RTCP reader and the bytes the transport below it returns
	nested []string
	reader interceptor.RTCPReader
	rtcpIn []byte
}

// c09Wire returns the wire form of a compound of parsed RTCP packets when it carries exactly what the parsed packets
// say (hand-made feedback with inconsistent counts, unknown chunks, … does not survive Marshal/Unmarshal).
func c09Wire(pk []rtcp.Packet) ([]byte, bool) {
	if len(pk) == 0 {
		return nil, false
	}
	for _, p := range pk {
		if fb, ok := p.(*rtcp.TransportLayerCC); ok {
			// TransportLayerCC.Marshal writes the header it finds in the struct: fill it in as the library's recorder does
			n := 20 + 2*len(fb.PacketChunks)
			for _, d := range fb.RecvDeltas {
				n++
				if d.Type != rtcp.TypeTCCPacketReceivedSmallDelta {
					n++
				}
			}
			fb.Header = rtcp.Header{Padding: n%4 != 0, Count: rtcp.FormatTCC, Type: rtcp.TypeTransportSpecificFeedback, Length: uint16(fb.MarshalSize()/4 - 1)}
		}
	}
	raw, err := rtcp.Marshal(pk)
	if err != nil || len(raw) > 1400 {
		return nil, false
	}
	back, err := rtcp.Unmarshal(raw)
	if err != nil || len(back) != len(pk) {
		return nil, false
	}
	for i := range pk {
		if rtcpText(back[i]) != rtcpText(pk[i]) {
			return nil, false
		}
	}
	return raw, true
}

type c09WKey struct {
	ssrc uint32
	tw   bool
}

type c09WantKey struct {
	ssrc uint32
	seq  uint16
}

// c09ArrivalTolerance: an RFC 8888 arrival time offset has a resolution of 1/1024 s (truncated by the peer) and
// the report timestamp one of 1/65536 s; 2 µs for the binary64 conversions of internal/ntp.
const c09ArrivalTolerance = time.Second/1024 + time.Second/65536 + 2*time.Microsecond

func c09RunRtpfb(t *testing.T, ops []string, o *Out) {
	now := time.Time{}
	// ONE factory; the interceptor under test and its twin (a second peer connection) are both built from it.
	f, _ := rtpfb.NewInterceptor(rtpfb.VerifTimeFactory(func() time.Time { return now }))
	var peers [2]*c09Peer
	for i := range peers {
		ic, _ := f.NewInterceptor("")
		defer ic.Close()
		pe := &c09Peer{ic: ic, hist: rtpfb.VerifHistoryOf(ic), writers: map[c09WKey]interceptor.RTPWriter{}, wants: map[c09WantKey]time.Time{}}
		pe.reader = ic.BindRTCPReader(interceptor.RTCPReaderFunc(func(b []byte, a interceptor.Attributes) (int, interceptor.Attributes, error) {
			return copy(b, pe.rtcpIn), a, nil
		}))
		peers[i] = pe
	}
	payload := make([]byte, 1500)
	// a []PacketReport handed to the application (attached to the RTCP attributes) is the application's: it may queue
	// the report for its congestion controller.  Kept as the slice itself, re-rendered after every later op of either
	// peer (retain_test.go).
	defer o.EndKept()
	nRep := 0
	keepReports := func(who int, prs []rtpfb.PacketReport) {
		nRep++
		if len(prs) > 0 {
			o.KeepFast(fmt.Sprintf("peer%d/report#%d", who, nRep), 8*len(prs), func() uint64 { return c09HashReports(prs) }, func() string { return c09RenderReports(prs) })
		}
	}
	showAck := func(a rtpfb.VerifAck) string {
		ar := 0
		if a.Arrived {
			ar = 1
		}
		return fmt.Sprintf("k seq=%d arrived=%d arr=%s ecn=%d", a.SequenceNumber, ar, c09ZS(a.Arrival), a.ECN)
	}
	parseAck := func(m map[string]string) rtpfb.VerifAck {
		return rtpfb.VerifAck{SequenceNumber: uint16(atoi(m["seq"])), Arrived: m["arrived"] == "1", Arrival: c09ZT(m["arr"]), ECN: rtcp.ECN(atoi(m["ecn"]))}
	}
	checkRef := func(fb *rtcp.CCFeedbackReport, ts time.Time, ref string) bool {
		return c09ZS(verifhooks.ToTime32(fb.ReportTimestamp, ts)) == ref
	}
	// exec executes one op.  It is called by the loop below and — option `nest=1` of the ambient — from INSIDE the bottom
	// RTP writer for the `q …` / `fb` ops that directly follow a `send` (see the head of the file).
	nest := o.Amb != nil && o.Amb.Opts["nest"] == "1"
	var exec func(fullOp string)
	exec = func(fullOp string) {
		o.CheckKept()
		op, who := twinOp(fullOp)
		pe := peers[who]
		P := func(format string, a ...any) { o.PW(who, format, a...) }
		showReports := func(prs []rtpfb.PacketReport) {
			for _, p := range prs {
				ar, tw := 0, 0
				if p.Arrived {
					ar = 1
				}
				if p.IsTWCC {
					tw = 1
				}
				P("r ctr=%d ssrc=%d seq=%d istw=%d tw=%d size=%d dep=%s arrived=%d arr=%s ecn=%d", p.SequenceNumber, p.SSRC,
					p.RTPSequenceNumber, tw, p.TWCCSequenceNumber, p.Size, c09ZS(p.Departure), ar, c09ZS(p.Arrival), p.ECN)
			}
		}
		name, m := kv(op)
		switch name {
		case "ctwcc":
			fb, ok := c09ParseTWCC(m)
			if !ok {
				P("bad-op")
				return
			}
			was := rtcpTexts([]rtcp.Packet{fb})
			acks := rtpfb.VerifConvertTWCC(fb)
			o.CheckRTCPTexts(who, "convertTWCC", was, []rtcp.Packet{fb}) // the feedback is input: the next consumer decodes it too
			P("acks n=%d", len(acks))
			for _, a := range acks {
				P("%s", showAck(a))
			}
		case "cccfb":
			fb, ok := c09ParseCCFB(m)
			if !ok || m["now"] == "" || !checkRef(fb, c09ZT(m["now"]), m["ref"]) {
				P("bad-op")
				return
			}
			was := rtcpTexts([]rtcp.Packet{fb})
			d, res := rtpfb.VerifConvertCCFB(c09ZT(m["now"]), fb)
			o.CheckRTCPTexts(who, "convertCCFB", was, []rtcp.Packet{fb})
			P("delay=%d streams=%d", int64(d), len(res))
			ssrcs := []uint32{}
			for s := range res {
				ssrcs = append(ssrcs, s)
			}
			sort.Slice(ssrcs, func(i, j int) bool { return ssrcs[i] < ssrcs[j] })
			for _, s := range ssrcs {
				P("ssrc=%d n=%d", s, len(res[s]))
				for _, a := range res[s] {
					P("%s", showAck(a))
				}
			}
		case "send": // send ssrc= seq= b=<stream bound with TWCC ext 0|1> tw=<n|-> pl=<payload len> t= [via=<ssrc of the stream>]
			// via=<ssrc>: the packet, whose header says ssrc=, is written through the writer of the stream bound as
			// StreamInfo.SSRC = via (a retransmission, a repair packet or a simulcast layer sent through the media stream's
			// writer chain); without it the stream's own SSRC.  The model keys by what the header says.
			hdrSSRC := uint32(atoi(m["ssrc"]))
			k := c09WKey{hdrSSRC, m["b"] == "1"}
			if v, has := m["via"]; has {
				k.ssrc = uint32(atoi(v))
			}
			w, ok := pe.writers[k]
			if !ok {
				info := &interceptor.StreamInfo{SSRC: k.ssrc}
				if k.tw {
					// every stream negotiates its own extension id (1..13, a function of the SSRC)
					info.RTPHeaderExtensions = []interceptor.RTPHeaderExtension{{URI: c09TwccURI, ID: c09ExtID(k.ssrc)}}
				}
				g := guardInfo(info)
				w = pe.ic.BindLocalStream(info, interceptor.RTPWriterFunc(func(_ *rtp.Header, p []byte, _ interceptor.Attributes) (int, error) {
					// a synchronous transport (in-process loop-back): the peer's feedback about this very packet is read
					// through the interceptor's RTCP reader while this Write is still on the stack
					nested := pe.nested
					pe.nested = nil
					for _, q := range nested {
						exec(q)
					}
					return len(p), nil
				}))
				if d := g.Check(); d != "" {
					P("STREAMINFO-EDITED %s", d)
				}
				pe.writers[k] = w
			}
			h := rtp.Header{Version: 2, SSRC: hdrSSRC, SequenceNumber: uint16(atoi(m["seq"]))}
			if m["tw"] != "-" {
				b, _ := (&rtp.TransportCCExtension{TransportSequence: uint16(atoi(m["tw"]))}).Marshal()
				_ = h.SetExtension(uint8(c09ExtID(k.ssrc)), b)
			}
			now = c09ZT(m["t"])
			if _, err := w.Write(&h, payload[:atoi(m["pl"])], nil); err != nil {
				P("err:write")
			}
		case "q": // q twcc … | q ccfb now=… …   (queue one parsed RTCP packet for the next `fb`)
			f := strings.Fields(op)
			if len(f) < 2 {
				P("bad-op")
				return
			}
			if f[1] == "twcc" {
				fb, ok := c09ParseTWCC(m)
				if !ok {
					P("bad-op")
					return
				}
				pe.queue = append(pe.queue, fb)
			} else if f[1] == "ccfb" {
				fb, ok := c09ParseCCFB(m)
				if !ok || m["now"] == "" || !checkRef(fb, c09ZT(m["now"]), m["ref"]) {
					P("bad-op")
					return
				}
				pe.queue = append(pe.queue, fb)
				// want=<ssrc>:<seq>:<Z-time>/… : what the peer that built this report recorded as arrival instants
				// (its own clock).  No model reads it; the next `fb` compares the decoded arrivals with it.
				// (a later report about the same packet supersedes what an earlier queued one said)
				for _, rb := range fb.ReportBlocks {
					for i := range rb.MetricBlocks {
						delete(pe.wants, c09WantKey{rb.MediaSSRC, rb.BeginSequence + uint16(i)})
					}
				}
				if w := m["want"]; w != "" && w != "-" {
					for _, e := range strings.Split(w, "/") {
						q := strings.Split(e, ":")
						if len(q) == 3 {
							pe.wants[c09WantKey{uint32(atoi(q[0])), uint16(atoi(q[1]))}] = c09ZT(q[2])
						}
					}
				}
			} else if f[1] == "other" && len(f) == 2 {
				// an RTCP packet that is no congestion-control feedback; the kind rotates, the model has one `other`
				switch len(pe.queue) % 3 {
				case 0:
					pe.queue = append(pe.queue, &rtcp.ReceiverReport{SSRC: 9, Reports: []rtcp.ReceptionReport{{SSRC: 1, LastSequenceNumber: 5}}})
				case 1:
					pe.queue = append(pe.queue, &rtcp.PictureLossIndication{SenderSSRC: 9, MediaSSRC: 1})
				default:
					pe.queue = append(pe.queue, &rtcp.TransportLayerNack{SenderSSRC: 9, MediaSSRC: 1, Nacks: []rtcp.NackPair{{PacketID: 0}}})
				}
			} else {
				P("bad-op")
			}
		case "fb": // fb now=  : processFeedback(now, queued packets); what the RTCP reader would attach
			ts := c09ZT(m["now"])
			pk := pe.queue
			pe.queue = nil
			wants := pe.wants
			pe.wants = map[c09WantKey]time.Time{}
			was := rtcpTexts(pk)
			var rtt time.Duration
			var prs []rtpfb.PacketReport
			var raw []byte
			wire := false
			if nest {
				raw, wire = c09Wire(pk)
			}
			if wire {
				// the real RTCP reader: the bytes come from the transport below, the clock reads `now=` when they arrive,
				// the report is what the reader attaches to the attributes it returns
				pe.rtcpIn, now = raw, ts
				buf := make([]byte, len(raw)+100)
				n, attr, err := pe.reader.Read(buf, interceptor.Attributes{})
				if err != nil || n != len(raw) {
					P("READ n=%d err=%v for %d bytes of feedback", n, err, len(raw))
				}
				if rep, ok := attr.Get(rtpfb.CCFBAttributesKey).(rtpfb.Report); ok {
					rtt, prs = rep.RTT, rep.PacketReports
					if !rep.Arrival.Equal(ts) {
						P("REPORT-ARRIVAL %s, the feedback arrived at %s", c09ZS(rep.Arrival), c09ZS(ts))
					}
				}
			} else {
				rtt, prs = rtpfb.VerifProcessFeedback(pe.ic, ts, pk)
			}
			// the parsed packets are shared with every other RTCP reader of a chain (Attributes.GetRTCPPackets): input
			o.CheckRTCPTexts(who, "processFeedback", was, pk)
			if len(prs) == 0 {
				P("report none")
				return
			}
			P("report rtt=%d n=%d", int64(rtt), len(prs))
			showReports(prs)
			keepReports(who, prs)
			for _, p := range prs {
				// the decoded arrival instant is the one the remote peer recorded (on the remote clock), to
				// within the resolution of the format — however far the two clocks are apart
				if w, ok := wants[c09WantKey{p.SSRC, p.RTPSequenceNumber}]; ok && p.Arrived && !p.IsTWCC {
					if d := p.Arrival.Sub(w); d > c09ArrivalTolerance || d < -c09ArrivalTolerance {
						P("ARRIVAL-SKEW ssrc=%d seq=%d decoded=%s peer-recorded=%s diff=%s", p.SSRC, p.RTPSequenceNumber, c09ZS(p.Arrival), c09ZS(w), d)
					}
				}
			}
		case "hack": // direct history.onTWCCFeedback / onCCFBFeedback
			a := parseAck(m)
			var d time.Duration
			var ok bool
			if s, has := m["ssrc"]; has {
				d, ok = pe.hist.OnCCFBFeedback(c09ZT(m["now"]), uint32(atoi(s)), a)
			} else {
				d, ok = pe.hist.OnTWCCFeedback(c09ZT(m["now"]), a)
			}
			if ok {
				P("rtt=%d", int64(d))
			} else {
				P("unknown")
			}
		case "hbuild":
			prs := pe.hist.BuildReport()
			P("built n=%d", len(prs))
			showReports(prs)
			keepReports(who, prs)
		case "hsizes":
			p, tw, ss := pe.hist.Sizes()
			P("sizes packets=%d twcc=%d ssrcseq=%d", p, tw, ss)
		default:
			P("bad-op")
		}
	}
	for i := 0; i < len(ops); i++ {
		if _, who := twinOp(ops[i]); nest && strings.HasPrefix(strings.TrimPrefix(ops[i], "twin "), "send ") {
			// the feedback ops of the same peer that directly follow: zero or more `q`, then one `fb`
			j := i + 1
			for ; j < len(ops); j++ {
				op, w := twinOp(ops[j])
				if w != who || !strings.HasPrefix(op, "q ") {
					break
				}
			}
			if j < len(ops) {
				if op, w := twinOp(ops[j]); w == who && strings.HasPrefix(op, "fb ") {
					peers[who].nested = ops[i+1 : j+1]
					exec(ops[i])
					if len(peers[who].nested) > 0 { // the `send` did not reach the bottom writer (bad-op): in sequence
						nested := peers[who].nested
						peers[who].nested = nil
						for _, q := range nested {
							exec(q)
						}
					}
					i = j
					continue
				}
			}
		}
		exec(ops[i])
	}
}

// c09HashReports fingerprints every field of every entry of a report slice.
func c09HashReports(prs []rtpfb.PacketReport) uint64 {
	h := keptFNVInit
	b := func(x bool) uint64 {
		if x {
			return 1
		}
		return 0
	}
	for i := range prs {
		p := &prs[i]
		h = keptMix(h, p.SequenceNumber)
		h = keptMix(h, uint64(p.SSRC)<<32|uint64(p.RTPSequenceNumber)<<16|uint64(p.TWCCSequenceNumber))
		h = keptMix(h, uint64(p.Size)<<8|b(p.IsTWCC)<<1|b(p.Arrived)|uint64(p.ECN)<<2)
		h = keptMix(h, uint64(p.Departure.Unix()))
		h = keptMix(h, uint64(p.Departure.Nanosecond()))
		h = keptMix(h, uint64(p.Arrival.Unix()))
		h = keptMix(h, uint64(p.Arrival.Nanosecond()))
	}
	return keptMix(h, uint64(len(prs)))
}

// c09RenderReports renders a report slice for the kept-output check (all fields of all entries).
func c09RenderReports(prs []rtpfb.PacketReport) string {
	var sb strings.Builder
	for _, p := range prs {
		fmt.Fprintf(&sb, "%d/%d/%d/%v/%d/%d/%s/%v/%s/%d;", p.SequenceNumber, p.SSRC, p.RTPSequenceNumber, p.IsTWCC, p.TWCCSequenceNumber,
			p.Size, c09ZS(p.Departure), p.Arrived, c09ZS(p.Arrival), p.ECN)
	}
	return sb.String()
}

// ---- generators

type c09Sent struct {
	ssrc uint32
	seq  uint16 // RTP seq
	tw   uint16
	ms   int64
}

var c09Syms = []int{0, 1, 2, 3}

// hand-made TWCC feedback around base; mode selects the inconsistency.
func c09HandTWCC(r *Rng, base int) string {
	nch := r.Range(0, 4)
	var cs []string
	total, recv := 0, 0
	for i := 0; i < nch; i++ {
		switch r.Intn(10) {
		case 0, 1, 2, 3: // run length
			sym := r.Pick(0, 0, 1, 1, 2, 3)
			run := r.Pick(0, 1, 2, 3, 5, 7, 14, r.Range(1, 40), r.Range(1, 300))
			cs = append(cs, fmt.Sprintf("R%dx%d", sym, run))
			total += run
			if sym == 1 || sym == 2 {
				recv += run
			}
		case 4, 5, 6: // one-bit vector, 14 symbols
			var ss []string
			for j := 0; j < 14; j++ {
				s := r.Intn(2)
				ss = append(ss, fmt.Sprint(s))
				recv += s
			}
			total += 14
			cs = append(cs, "V0:"+strings.Join(ss, "."))
		case 7, 8: // two-bit vector, 7 symbols
			var ss []string
			for j := 0; j < 7; j++ {
				s := r.Pick(0, 0, 1, 1, 2, 3)
				ss = append(ss, fmt.Sprint(s))
				if s == 1 || s == 2 {
					recv++
				}
			}
			total += 7
			cs = append(cs, "V1:"+strings.Join(ss, "."))
		default: // odd shapes: empty / short / long vectors, unknown chunk type
			switch r.Intn(4) {
			case 0:
				cs = append(cs, "X")
			case 1:
				cs = append(cs, "V1:-")
			default:
				n := r.Range(1, 20)
				var ss []string
				for j := 0; j < n; j++ {
					s := r.Intn(4)
					ss = append(ss, fmt.Sprint(s))
					if s == 1 || s == 2 {
						recv++
					}
				}
				total += n
				cs = append(cs, "V1:"+strings.Join(ss, "."))
			}
		}
	}
	ch := "-"
	if len(cs) > 0 {
		ch = strings.Join(cs, "/")
	}
	cnt := total
	switch r.Intn(6) {
	case 0:
		cnt = r.Range(0, total+3)
	case 1:
		if total > 0 {
			cnt = total - r.Range(0, min(total, 7)) // padded final chunk / run beyond count
		}
	case 2:
		cnt = r.Pick(0, 1, 65535)
	}
	nd := recv
	switch r.Intn(6) {
	case 0:
		nd = r.Range(0, recv+2)
	case 1:
		if recv > 0 {
			nd = recv - 1
		}
	case 2:
		nd = recv + r.Range(1, 3)
	}
	ds := make([]int, 0, nd)
	for i := 0; i < nd; i++ {
		switch r.Intn(8) {
		case 0:
			ds = append(ds, r.Range(-32768, 32767)*250)
		case 1:
			ds = append(ds, 0)
		default:
			ds = append(ds, r.Range(0, 255)*250)
		}
	}
	return fmt.Sprintf("base=%d cnt=%d ref=%d chunks=%s deltas=%s", base&0xFFFF, cnt, r.Pick(0, 1, r.Intn(1<<24), 1<<24-1), ch, joinInts(ds))
}

func c09HandCCFB(r *Rng, ssrcs []uint32, begin map[uint32]int, now time.Time, adapter bool) string {
	rts := verifhooks.ToNTP32(now)
	if r.Chance(1, 8) {
		rts = uint32(r.U64())
	}
	fb := &rtcp.CCFeedbackReport{ReportTimestamp: rts}
	nb := r.Range(0, 3)
	for i := 0; i < nb; i++ {
		s := ssrcs[r.Intn(len(ssrcs))]
		if r.Chance(1, 10) {
			s = uint32(r.Intn(5)) + 900
		}
		b := begin[s] + r.Range(-3, 10)
		n := r.Pick(0, 1, 2, r.Range(1, 30), r.Range(1, 30))
		rb := rtcp.CCFeedbackReportBlock{MediaSSRC: s, BeginSequence: uint16(b)}
		for j := 0; j < n; j++ {
			mb := rtcp.CCFeedbackMetricBlock{}
			if r.Chance(3, 4) {
				mb.Received = true
				mb.ECN = rtcp.ECN(r.Intn(4))
				mb.ArrivalTimeOffset = uint16(r.Pick(0, 1, r.Intn(0x1FFE), r.Intn(0x1FFE), 0x1FFE, 0x1FFF, r.Intn(65536)))
			} else if r.Chance(1, 10) {
				mb.ECN = rtcp.ECN(r.Intn(4))
				mb.ArrivalTimeOffset = uint16(r.Intn(0x2000))
			}
			rb.MetricBlocks = append(rb.MetricBlocks, mb)
		}
		fb.ReportBlocks = append(fb.ReportBlocks, rb)
	}
	return c09CCFBOp(fb, now, adapter)
}

func c09CCFBOp(fb *rtcp.CCFeedbackReport, now time.Time, adapter bool) string {
	if adapter {
		return c09ShowCCFB(fb, verifhooks.ToTime(uint64(fb.ReportTimestamp)<<16))
	}
	return "now=" + c09ZS(now) + " " + c09ShowCCFB(fb, verifhooks.ToTime32(fb.ReportTimestamp, now))
}

// c09Arrivals draws which of the sent packets arrive, in which order and when (ms).
func c09Arrivals(r *Rng, sent []c09Sent) (idx []int, at []int64) {
	loss := r.Pick(0, 0, 5, 20, 60)
	for i := range sent {
		if r.Intn(100) < loss {
			continue
		}
		idx = append(idx, i)
		if r.Chance(1, 25) {
			idx = append(idx, i) // duplicate
		}
	}
	if r.Chance(1, 2) { // local reordering
		for k := 0; k+1 < len(idx); k++ {
			if r.Chance(1, 6) {
				idx[k], idx[k+1] = idx[k+1], idx[k]
			}
		}
	}
	for k, i := range idx {
		_ = k
		at = append(at, sent[i].ms+int64(r.Range(5, 60)))
	}
	return idx, at
}

func c09RoundTripTWCC(p rtcp.Packet) (*rtcp.TransportLayerCC, bool) {
	b, err := p.Marshal()
	if err != nil {
		return nil, false
	}
	out := &rtcp.TransportLayerCC{}
	if err := out.Unmarshal(b); err != nil {
		return nil, false
	}
	return out, true
}

func c09RoundTripCCFB(p *rtcp.CCFeedbackReport) (*rtcp.CCFeedbackReport, bool) {
	b, err := p.Marshal()
	if err != nil {
		return nil, false
	}
	out := &rtcp.CCFeedbackReport{}
	if err := out.Unmarshal(b); err != nil {
		return nil, false
	}
	sort.SliceStable(out.ReportBlocks, func(i, j int) bool { return out.ReportBlocks[i].MediaSSRC < out.ReportBlocks[j].MediaSSRC })
	return out, true
}

// TWCC feedback of the real twcc.Recorder for the packets sent[lo:hi].
func c09RecorderTWCC(r *Rng, rec *twcc.Recorder, sent []c09Sent) []string {
	idx, at := c09Arrivals(r, sent)
	for k, i := range idx {
		rec.Record(sent[i].ssrc, sent[i].tw, at[k]*1000+int64(r.Intn(1000)))
	}
	var ops []string
	for _, p := range rec.BuildFeedbackPacket() {
		if fb, ok := c09RoundTripTWCC(p); ok {
			ops = append(ops, c09ShowTWCC(fb))
		}
	}
	return ops
}

func c09RecorderCCFB(r *Rng, rec *rfc8888.Recorder, sent []c09Sent, now time.Time, adapter bool) []string {
	idx, at := c09Arrivals(r, sent)
	for k, i := range idx {
		rec.AddPacket(c09At(at[k]), sent[i].ssrc, sent[i].seq, uint8(r.Intn(4)))
	}
	rep := rec.BuildReport(now, r.Pick(1200, 1200, 300, 100))
	fb, ok := c09RoundTripCCFB(rep)
	if !ok {
		return nil
	}
	return []string{c09CCFBOp(fb, now, adapter)}
}

var c09AdapterClasses = []string{"twcc-hand", "twcc-recorder", "twcc-inflight", "ccfb-hand", "ccfb-recorder", "mixed", "resend", "ccfb-collide"}

// c09SSRCPool draws n distinct non-zero SSRCs of concurrent streams with deliberate PARTIAL collisions.  "Each
// acknowledgement is attributed to the right sent packet" quantifies over all 32-bit SSRCs; an SSRC is a random number
// chosen by the peer, and whatever a history does with it (hash it, pack it into a key next to the sequence number,
// truncate it) two streams may agree in any part of it: equal low 16 bits, equal low 8 bits, equal high 16 bits, the
// two halves swapped, only the top bit different, low 16 bits zero (next to a transport-wide stream, whose packets
// the adapter stores under SSRC 0), 0xFFFFFFFF, 0x80000000, a small number equal to another one's low half.
func c09SSRCPool(r *Rng, n int) []uint32 {
	base := uint32(r.U64())
	if r.Chance(1, 4) {
		base = []uint32{1, 0xFFFFFFFF, 0x80000000, 0x00010000, 0x0001FFFF, 0x7FFFFFFF}[r.Intn(6)]
	}
	out := []uint32{}
	have := map[uint32]bool{0: true}
	add := func(x uint32) {
		if !have[x] && len(out) < n {
			have[x] = true
			out = append(out, x)
		}
	}
	if r.Chance(3, 4) {
		add(base)
	}
	for tries := 0; len(out) < n && tries < 100; tries++ {
		ref := base
		if len(out) > 0 && r.Bool() {
			ref = out[r.Intn(len(out))]
		}
		switch r.Intn(11) {
		case 0, 1:
			add(ref ^ uint32(r.Range(1, 0xFFFF))<<16) // equal low 16 bits
		case 2:
			add(ref ^ uint32(r.Range(1, 0xFFFFFF))<<8) // equal low 8 bits
		case 3:
			add(ref ^ uint32(r.Range(1, 0xFFFF))) // equal high 16 bits
		case 4:
			add(uint32(r.Range(1, 0xFFFF)) << 16) // low 16 bits zero
		case 5:
			add(0xFFFFFFFF)
		case 6:
			add(0x80000000)
		case 7:
			add(ref ^ 0x80000000)
		case 8:
			add(ref>>16 | ref<<16)
		case 9:
			add(ref & 0xFFFF)
		default:
			add(uint32(r.U64()))
		}
	}
	for len(out) < n {
		add(uint32(r.U64()))
	}
	return out
}

// c09FullCCFB: an RFC 8888 report with one block per SSRC (in the given order) that covers [begin, begin+n) of each.
func c09FullCCFB(r *Rng, ssrcs []uint32, begin, n int, now time.Time, adapter bool) string {
	fb := &rtcp.CCFeedbackReport{ReportTimestamp: verifhooks.ToNTP32(now)}
	for _, s := range ssrcs {
		rb := rtcp.CCFeedbackReportBlock{MediaSSRC: s, BeginSequence: uint16(begin)}
		for i := 0; i < n; i++ {
			mb := rtcp.CCFeedbackMetricBlock{}
			if r.Chance(5, 6) {
				mb = rtcp.CCFeedbackMetricBlock{Received: true, ECN: rtcp.ECN(r.Intn(4)), ArrivalTimeOffset: uint16(r.Intn(0x1FFE))}
			}
			rb.MetricBlocks = append(rb.MetricBlocks, mb)
		}
		fb.ReportBlocks = append(fb.ReportBlocks, rb)
	}
	return c09CCFBOp(fb, now, adapter)
}

func c09GenAdapter(r *Rng, tier string, idx int) Case {
	cl := c09AdapterClasses[idx%len(c09AdapterClasses)]
	var ops []string
	ms := int64(r.Intn(100000))
	twStart := r.Pick(0, 65000, 65500, r.Intn(65536))
	switch cl {
	case "twcc-hand", "mixed":
		n := r.Range(0, 40)
		tw := twStart
		for i := 0; i < n; i++ {
			if r.Chance(1, 5) {
				tw += r.Range(1, 4) // never-sent numbers
			}
			ops = append(ops, fmt.Sprintf("sent tw=%d size=%d t=%s", tw&0xFFFF, r.Range(0, 1400), c09ZS(c09At(ms))))
			if cl == "mixed" && r.Chance(1, 3) {
				ops = append(ops, fmt.Sprintf("sent ssrc=%d seq=%d size=%d t=%s", r.Pick(0, 1, 2), tw&0xFFFF, r.Range(0, 1400), c09ZS(c09At(ms))))
			}
			tw++
			ms += int64(r.Range(0, 30))
			if r.Chance(1, 12) {
				ops = append(ops, "twcc "+c09HandTWCC(r, twStart+r.Range(-5, n+5)))
			}
		}
		if r.Chance(1, 10) {
			ops = append(ops, "sentbad t="+c09ZS(c09At(ms)))
		}
		for k := r.Range(1, 4); k > 0; k-- {
			ops = append(ops, "twcc "+c09HandTWCC(r, twStart+r.Range(-5, n+5)))
			if cl == "mixed" {
				ops = append(ops, "ccfb "+c09HandCCFB(r, []uint32{0, 1, 2}, map[uint32]int{0: twStart, 1: twStart, 2: twStart}, c09At(ms+50), true))
			}
		}
		ops = append(ops, "len")
	case "twcc-recorder", "twcc-inflight":
		rec := twcc.NewRecorder(5000)
		rounds := r.Range(1, 4)
		tw := twStart
		for ; rounds > 0; rounds-- {
			n := r.Range(1, 120)
			if cl == "twcc-inflight" {
				n = r.Range(200, 420) // more in flight than the 250-entry history holds
			}
			var batch []c09Sent
			for i := 0; i < n; i++ {
				if r.Chance(1, 30) {
					// a packet the receiver sees but the adapter never recorded (e.g. other sender state)
					batch = append(batch, c09Sent{ssrc: 1, tw: uint16(tw), ms: ms})
					tw++
					continue
				}
				ops = append(ops, fmt.Sprintf("sent tw=%d size=%d t=%s", tw&0xFFFF, r.Range(0, 1400), c09ZS(c09At(ms))))
				batch = append(batch, c09Sent{ssrc: 1, tw: uint16(tw), ms: ms})
				tw++
				ms += int64(r.Range(0, 12))
			}
			for _, f := range c09RecorderTWCC(r, rec, batch) {
				ops = append(ops, "twcc "+f)
				if r.Chance(1, 15) {
					ops = append(ops, "twcc "+f) // duplicated feedback
				}
			}
			ms += 100
		}
		ops = append(ops, "len")
	case "ccfb-hand":
		ssrcs := []uint32{uint32(r.Range(1, 5)), uint32(r.Range(6, 9)), uint32(r.U64())}
		begin := map[uint32]int{}
		for _, s := range ssrcs {
			begin[s] = r.Pick(0, 65530, r.Intn(65536))
		}
		cur := map[uint32]int{}
		n := r.Range(0, 60)
		for i := 0; i < n; i++ {
			s := ssrcs[r.Intn(len(ssrcs))]
			ops = append(ops, fmt.Sprintf("sent ssrc=%d seq=%d size=%d t=%s", s, (begin[s]+cur[s])&0xFFFF, r.Range(0, 1400), c09ZS(c09At(ms))))
			cur[s] += r.Pick(1, 1, 1, 2)
			ms += int64(r.Range(0, 30))
			if r.Chance(1, 15) {
				ops = append(ops, "ccfb "+c09HandCCFB(r, ssrcs, begin, c09At(ms+20), true))
			}
		}
		for k := r.Range(1, 3); k > 0; k-- {
			ops = append(ops, "ccfb "+c09HandCCFB(r, ssrcs, begin, c09At(ms+20), true))
		}
		ops = append(ops, "len")
	case "resend":
		// A key (TWCC number, or SSRC + RTP number) that is sent AGAIN while its first record may
		// still be in the 250-entry history: the re-send must count as the newest entry. d1 distinct
		// packets lie between the two sends, d2 after the re-send; both ages sit around 250.
		twcc := r.Bool()
		ssrc := uint32(r.Range(1, 9))
		start := r.Pick(0, 65535, 65400, 65500, 65290, r.Intn(65536)) // the run crosses 65535 -> 0 for most
		next := start
		sendOp := func(n int) string {
			ms += int64(r.Range(0, 9))
			if twcc {
				return fmt.Sprintf("sent tw=%d size=%d t=%s", n&0xFFFF, r.Range(1, 1400), c09ZS(c09At(ms)))
			}
			return fmt.Sprintf("sent ssrc=%d seq=%d size=%d t=%s", ssrc, n&0xFFFF, r.Range(1, 1400), c09ZS(c09At(ms)))
		}
		fresh := func(k int) {
			for ; k > 0; k-- {
				ops = append(ops, sendOp(next))
				next++
			}
		}
		feedback := func(keys []int) {
			lo, hi := keys[0], keys[0]
			for _, k := range keys {
				lo, hi = min(lo, k), max(hi, k)
			}
			lo -= r.Range(0, 2)
			n := hi - lo + 1 + r.Range(0, 2)
			if twcc {
				ds := make([]int, n)
				for i := range ds {
					ds[i] = r.Range(0, 255) * 250
				}
				ops = append(ops, fmt.Sprintf("twcc base=%d cnt=%d ref=%d chunks=R1x%d deltas=%s", lo&0xFFFF, n, r.Intn(1<<24), n, joinInts(ds)))
				return
			}
			fb := &rtcp.CCFeedbackReport{ReportTimestamp: verifhooks.ToNTP32(c09At(ms + 40))}
			rb := rtcp.CCFeedbackReportBlock{MediaSSRC: ssrc, BeginSequence: uint16(lo)}
			for i := 0; i < n; i++ {
				rb.MetricBlocks = append(rb.MetricBlocks, rtcp.CCFeedbackMetricBlock{Received: true, ECN: rtcp.ECN(r.Intn(4)), ArrivalTimeOffset: uint16(r.Intn(0x1FFE))})
			}
			fb.ReportBlocks = append(fb.ReportBlocks, rb)
			ops = append(ops, "ccfb "+c09CCFBOp(fb, c09At(ms+40), true))
		}
		fresh(r.Pick(0, 1, 5, 100, 249, 250, 251, 300))
		var keys []int
		for k := r.Range(1, 3); k > 0; k-- { // the keys that will be re-sent
			keys = append(keys, next)
			ops = append(ops, sendOp(next))
			next++
			if r.Bool() {
				fresh(r.Range(0, 3))
			}
		}
		fresh(r.Pick(0, 0, 1, 2, 10, 100, 200, 248, 249, 250, 251)) // d1
		if r.Chance(1, 6) {
			feedback(keys) // feedback between the two sends
		}
		for _, k := range keys {
			if r.Chance(5, 6) {
				ops = append(ops, sendOp(k)) // the re-send
			}
		}
		for rounds := r.Range(1, 3); rounds > 0; rounds-- {
			fresh(r.Pick(0, 1, 100, 240, 247, 248, 249, 250, 251, 252)) // d2
			feedback(keys)
			ops = append(ops, "len")
			if r.Chance(1, 3) {
				ops = append(ops, sendOp(keys[r.Intn(len(keys))])) // re-sent once more
			}
		}
	case "ccfb-collide":
		// Several RFC 8888 streams (and, in half of the cases, a transport-wide stream) on ONE adapter; the SSRCs
		// collide partially (c09SSRCPool) and all streams use the SAME sequence numbers inside the history window.
		// Every packet has its own size and departure instant, so an acknowledgement attributed to the packet of
		// another stream shows in both.
		ssrcs := c09SSRCPool(r, r.Range(2, 4))
		withTW := r.Bool()
		start := r.Pick(0, 7, 65530, 65535, r.Intn(65536))
		begin := map[uint32]int{}
		for _, s := range ssrcs {
			begin[s] = start
		}
		total := r.Pick(r.Range(2, 12), r.Range(10, 60), r.Range(10, 60), r.Range(200, 260))
		per := max(1, total/(len(ssrcs)+c04b(withTW)))
		for i := 0; i < per; i++ {
			// packet i of every stream, in a fresh order each time
			order := append([]uint32{}, ssrcs...)
			if withTW {
				order = append(order, 0)
			}
			for k := len(order) - 1; k > 0; k-- {
				j := r.Intn(k + 1)
				order[k], order[j] = order[j], order[k]
			}
			for _, s := range order {
				if r.Chance(1, 10) {
					continue // this stream skips the number
				}
				ms += int64(r.Range(1, 9))
				if s == 0 {
					ops = append(ops, fmt.Sprintf("sent tw=%d size=%d t=%s", (start+i)&0xFFFF, r.Range(1, 1400), c09ZS(c09At(ms))))
				} else {
					ops = append(ops, fmt.Sprintf("sent ssrc=%d seq=%d size=%d t=%s", s, (start+i)&0xFFFF, r.Range(1, 1400), c09ZS(c09At(ms))))
				}
			}
			if r.Chance(1, 12) {
				ops = append(ops, "ccfb "+c09HandCCFB(r, ssrcs, begin, c09At(ms+20), true))
			}
			if r.Chance(1, 20) {
				ops = append(ops, "len")
			}
		}
		ops = append(ops, "len")
		for k := r.Range(1, 3); k > 0; k-- {
			// every stream about the same numbers, one stream per report or all in one
			lo := r.Range(-2, max(0, per-1))
			n := r.Range(1, min(per-lo+1, 40))
			if r.Bool() {
				ops = append(ops, "ccfb "+c09FullCCFB(r, ssrcs, start+lo, n, c09At(ms+30), true))
			} else {
				for _, s := range ssrcs {
					ops = append(ops, "ccfb "+c09FullCCFB(r, []uint32{s}, start+lo, n, c09At(ms+30), true))
				}
			}
			if withTW {
				ds := make([]int, n)
				for i := range ds {
					ds[i] = r.Range(0, 255) * 250
				}
				ops = append(ops, fmt.Sprintf("twcc base=%d cnt=%d ref=%d chunks=R1x%d deltas=%s", (start+lo)&0xFFFF, n, r.Intn(1<<24), n, joinInts(ds)))
			}
			ops = append(ops, "ccfb "+c09HandCCFB(r, ssrcs, begin, c09At(ms+40), true))
		}
		ops = append(ops, "len")
	case "ccfb-recorder":
		rec := rfc8888.NewRecorder()
		ssrcs := []uint32{uint32(r.Range(1, 5)), uint32(r.Range(6, 9))}
		seq := map[uint32]int{ssrcs[0]: r.Pick(0, 65500, r.Intn(65536)), ssrcs[1]: r.Intn(65536)}
		for rounds := r.Range(1, 4); rounds > 0; rounds-- {
			n := r.Pick(r.Range(1, 60), r.Range(1, 60), r.Range(200, 350))
			var batch []c09Sent
			for i := 0; i < n; i++ {
				s := ssrcs[r.Intn(2)]
				ops = append(ops, fmt.Sprintf("sent ssrc=%d seq=%d size=%d t=%s", s, seq[s]&0xFFFF, r.Range(0, 1400), c09ZS(c09At(ms))))
				batch = append(batch, c09Sent{ssrc: s, seq: uint16(seq[s]), ms: ms})
				seq[s]++
				ms += int64(r.Range(0, 12))
			}
			ms += 100
			for _, f := range c09RecorderCCFB(r, rec, batch, c09At(ms), true) {
				ops = append(ops, "ccfb "+f)
				if r.Chance(1, 15) {
					ops = append(ops, "ccfb "+f)
				}
			}
		}
		ops = append(ops, "len")
	}
	return Case{Class: cl, Ops: ops}
}

var c09RtpfbClasses = []string{"conv-twcc", "conv-ccfb", "twcc-recorder", "ccfb-recorder", "twcc-hand", "ccfb-hand", "history", "inflight", "idle-reads",
	"ccfb-skew", "ccfb-collide", "twin", "twin", "via", "loopback"}

// the classes a twin case is made of (everything that goes through an interceptor's history)
var c09TwinBases = []string{"twcc-recorder", "ccfb-recorder", "twcc-hand", "ccfb-hand", "history", "idle-reads", "ccfb-skew", "inflight", "ccfb-collide", "via", "loopback"}

func c09GenRtpfb(r *Rng, tier string, idx int) Case {
	cl := c09RtpfbClasses[idx%len(c09RtpfbClasses)]
	// RE-ENTRANCY, "the transport below is synchronous" (option `nest=1` of the case's ambient, an option private to this
	// component; class `loopback`, one case in eight of the other classes that go through an interceptor's history, and
	// the twin cases made of `loopback`): see c09RunRtpfb.
	nestAmb := ambWith(ambOp("", "", false, false, false, false), "nest=1")
	if cl != "twin" {
		ops := c09GenRtpfbClass(r, cl)
		if cl == "loopback" || (cl != "conv-twcc" && cl != "conv-ccfb" && r.Chance(1, 8)) {
			ops = append([]string{nestAmb}, ops...)
		}
		return Case{Class: cl, Ops: ops}
	}
	// Two peer connections: the interceptor under test and a twin built from the same factory each carry a case
	// of their own.  Transport-wide numbers and (SSRC, sequence number) pairs collide as they do in an
	// application (both connections count from the same values): the twin's traffic is either a variant of the
	// first one's (same numbers, other sizes, some packets / reads left out) or an independent case of the class.
	base := c09TwinBases[r.Intn(len(c09TwinBases))]
	for base == "inflight" && r.Chance(2, 3) {
		base = c09TwinBases[r.Intn(len(c09TwinBases))]
	}
	a := c09GenRtpfbClass(r, base)
	var b []string
	if r.Chance(2, 3) {
		b = c09RtpfbVariant(r, a)
	} else {
		b = c09GenRtpfbClass(r, base)
	}
	ops := twinInterleave(r, a, b, r.Pick(1, 3, 10, 40))
	if base == "loopback" {
		ops = append([]string{nestAmb}, ops...)
	}
	return Case{Class: "twin-" + base, Ops: ops}
}

// c09RtpfbVariant: the same numbers as `ops`, other payload sizes and ECN marks, some ops left out.
func c09RtpfbVariant(r *Rng, ops []string) []string {
	var out []string
	for _, op := range ops {
		if r.Chance(1, 6) {
			continue
		}
		f := strings.Fields(op)
		if f[0] == "send" {
			for i, x := range f {
				if strings.HasPrefix(x, "pl=") {
					f[i] = fmt.Sprintf("pl=%d", r.Range(0, 1200))
				}
			}
		}
		out = append(out, strings.Join(f, " "))
	}
	return out
}

func c09GenRtpfbClass(r *Rng, cl string) []string {
	var ops []string
	ms := int64(r.Intn(100000))
	sendOp := func(ssrc uint32, seq int, b bool, tw int, pl int) string {
		bs, tws := "0", "-"
		if b {
			bs = "1"
		}
		if tw >= 0 {
			tws = fmt.Sprint(tw & 0xFFFF)
		}
		return fmt.Sprintf("send ssrc=%d seq=%d b=%s tw=%s pl=%d t=%s", ssrc, seq&0xFFFF, bs, tws, pl, c09ZS(c09At(ms)))
	}
	switch cl {
	case "conv-twcc":
		for k := r.Range(1, 5); k > 0; k-- {
			ops = append(ops, "ctwcc "+c09HandTWCC(r, r.Pick(0, 65530, r.Intn(65536))))
		}
	case "conv-ccfb":
		ssrcs := []uint32{1, 2, uint32(r.U64())}
		begin := map[uint32]int{1: 0, 2: 65530, ssrcs[2]: r.Intn(65536)}
		for k := r.Range(1, 5); k > 0; k-- {
			ops = append(ops, "cccfb "+c09HandCCFB(r, ssrcs, begin, c09At(ms), false))
			ms += 37
		}
	case "twcc-recorder", "twcc-hand", "inflight":
		rec := twcc.NewRecorder(5000)
		tw := r.Pick(0, 65400, r.Intn(65536))
		seqs := map[uint32]int{1: r.Intn(65536), 2: 65530}
		for rounds := r.Range(1, 4); rounds > 0; rounds-- {
			n := r.Range(1, 80)
			if cl == "inflight" {
				n = r.Range(260, 400)
			}
			var batch []c09Sent
			start := tw
			for i := 0; i < n; i++ {
				s := uint32(r.Pick(1, 1, 2))
				if r.Chance(1, 25) {
					// a non-TWCC stream interleaved, or a TWCC stream whose packet lacks the extension
					ops = append(ops, sendOp(3, seqs[1]+7, r.Bool(), -1, r.Range(0, 1200)))
					continue
				}
				ops = append(ops, sendOp(s, seqs[s], true, tw, r.Range(0, 1200)))
				batch = append(batch, c09Sent{ssrc: s, seq: uint16(seqs[s]), tw: uint16(tw), ms: ms})
				seqs[s]++
				tw++
				if r.Chance(1, 40) {
					tw += r.Range(1, 3) // numbers never sent
				}
				ms += int64(r.Range(0, 12))
			}
			ms += 100
			if cl == "twcc-hand" {
				for k := r.Range(1, 3); k > 0; k-- {
					ops = append(ops, "q twcc "+c09HandTWCC(r, start+r.Range(-3, n)))
					if r.Bool() {
						ops = append(ops, "fb now="+c09ZS(c09At(ms)))
					}
				}
				ops = append(ops, "fb now="+c09ZS(c09At(ms)))
			} else {
				for _, f := range c09RecorderTWCC(r, rec, batch) {
					ops = append(ops, "q twcc "+f)
					if r.Chance(1, 12) {
						ops = append(ops, "q twcc "+f)
					}
					if r.Chance(2, 3) {
						ops = append(ops, "fb now="+c09ZS(c09At(ms)))
					}
				}
				ops = append(ops, "fb now="+c09ZS(c09At(ms)))
			}
			ops = append(ops, "hsizes")
		}
	case "ccfb-recorder", "ccfb-hand":
		rec := rfc8888.NewRecorder()
		ssrcs := []uint32{uint32(r.Range(1, 5)), uint32(r.Range(6, 9))}
		seq := map[uint32]int{ssrcs[0]: r.Pick(0, 65500, r.Intn(65536)), ssrcs[1]: r.Intn(65536)}
		begin := map[uint32]int{ssrcs[0]: seq[ssrcs[0]], ssrcs[1]: seq[ssrcs[1]]}
		for rounds := r.Range(1, 4); rounds > 0; rounds-- {
			n := r.Pick(r.Range(1, 60), r.Range(1, 60), r.Range(200, 300))
			var batch []c09Sent
			for i := 0; i < n; i++ {
				s := ssrcs[r.Intn(2)]
				ops = append(ops, sendOp(s, seq[s], false, -1, r.Range(0, 1200)))
				batch = append(batch, c09Sent{ssrc: s, seq: uint16(seq[s]), ms: ms})
				seq[s]++
				ms += int64(r.Range(0, 12))
			}
			ms += 100
			if cl == "ccfb-hand" {
				for k := r.Range(1, 3); k > 0; k-- {
					ops = append(ops, "q ccfb "+c09HandCCFB(r, ssrcs, begin, c09At(ms), false))
				}
				if r.Chance(1, 4) {
					ops = append(ops, "q twcc "+c09HandTWCC(r, r.Intn(65536)))
				}
			} else {
				for _, f := range c09RecorderCCFB(r, rec, batch, c09At(ms), false) {
					ops = append(ops, "q ccfb "+f)
				}
			}
			ops = append(ops, "fb now="+c09ZS(c09At(ms)))
			ops = append(ops, "hsizes")
			for _, s := range ssrcs {
				begin[s] = seq[s] - r.Range(0, 10)
			}
		}
	case "ccfb-collide":
		// concurrent streams whose SSRCs collide partially (c09SSRCPool), all on the SAME sequence numbers; in half of
		// the cases one of them is a transport-wide stream whose transport-wide numbers are those numbers again
		ssrcs := c09SSRCPool(r, r.Range(2, 4))
		tws := uint32(0)
		if r.Bool() {
			tws = ssrcs[len(ssrcs)-1]
			ssrcs = ssrcs[:len(ssrcs)-1]
		}
		start := r.Pick(0, 7, 65530, 65535, r.Intn(65536))
		begin := map[uint32]int{}
		for _, s := range ssrcs {
			begin[s] = start
		}
		i := 0
		for rounds := r.Range(1, 3); rounds > 0; rounds-- {
			first := i
			for n := r.Pick(r.Range(1, 6), r.Range(5, 40), r.Range(5, 40), r.Range(80, 120)); n > 0; n-- {
				order := append([]uint32{}, ssrcs...)
				if tws != 0 {
					order = append(order, tws)
				}
				for k := len(order) - 1; k > 0; k-- {
					j := r.Intn(k + 1)
					order[k], order[j] = order[j], order[k]
				}
				for _, s := range order {
					if r.Chance(1, 10) {
						continue
					}
					ms += int64(r.Range(1, 9))
					if s == tws {
						ops = append(ops, sendOp(s, start+i, true, start+i, r.Range(1, 1200)))
					} else {
						ops = append(ops, sendOp(s, start+i, false, -1, r.Range(1, 1200)))
					}
				}
				i++
			}
			ms += 50
			for k := r.Range(1, 2); k > 0; k-- {
				lo := first + r.Range(-2, max(0, i-first-1))
				n := r.Range(1, min(i-lo+1, 40))
				if r.Bool() {
					ops = append(ops, "q ccfb "+c09FullCCFB(r, ssrcs, start+lo, n, c09At(ms), false))
				} else {
					for _, s := range ssrcs {
						ops = append(ops, "q ccfb "+c09FullCCFB(r, []uint32{s}, start+lo, n, c09At(ms), false))
						if r.Chance(1, 3) {
							ops = append(ops, "fb now="+c09ZS(c09At(ms)))
						}
					}
				}
				if tws != 0 && r.Bool() {
					ds := make([]int, n)
					for j := range ds {
						ds[j] = r.Range(0, 255) * 250
					}
					ops = append(ops, fmt.Sprintf("q twcc base=%d cnt=%d ref=%d chunks=R1x%d deltas=%s", (start+lo)&0xFFFF, n, r.Intn(1<<24), n, joinInts(ds)))
				}
				if r.Chance(1, 3) {
					ops = append(ops, "q ccfb "+c09HandCCFB(r, ssrcs, begin, c09At(ms), false))
				}
				ops = append(ops, "fb now="+c09ZS(c09At(ms)))
				ms += int64(r.Range(1, 30))
			}
			ops = append(ops, "hsizes")
		}
	case "via":
		// "Each acknowledgement is attributed to the packet that was really sent": the packet is named by the SSRC and
		// sequence number in ITS header (RFC 8888 reports name exactly that pair) or by its transport-wide number —
		// whichever stream's writer it went through.  Retransmissions (RTX SSRC), repair packets (FEC SSRC) and simulcast
		// layers are written through the media stream's writer chain; all count from the same sequence numbers here, so a
		// packet filed under the stream's SSRC instead of its own takes the place of a media packet.  The media stream
		// negotiated the transport-wide extension (b=1) or not (b=0); on a b=1 stream each packet carries the extension
		// or lacks it (the extension is added further down the chain, or not at all: the history falls back to the
		// (SSRC, sequence number) key), so RFC 8888 and TWCC feedback both apply.
		pool := c09SSRCPool(r, r.Range(2, 4))
		media, others := pool[0], pool[1:]
		bound := r.Chance(3, 4)                            // the media stream negotiated the extension
		extMode := r.Pick(0, 0, 1, 2)                      // 0: no packet carries it, 1: every packet, 2: drawn per packet
		start := r.Pick(0, 7, 65530, 65535, r.Intn(65536)) // every SSRC counts from here
		tw := r.Pick(0, 65500, r.Intn(65536))
		var second uint32 // a second bound stream (without the extension) that some foreign packets go through instead
		if r.Chance(1, 3) {
			second = others[len(others)-1]
		}
		all := append([]uint32{media}, others...)
		i := 0
		for rounds := r.Range(1, 3); rounds > 0; rounds-- {
			first, firstTw := i, tw
			for n := r.Pick(r.Range(1, 6), r.Range(5, 30), r.Range(5, 30)); n > 0; n-- {
				order := append([]uint32{}, all...)
				for k := len(order) - 1; k > 0; k-- {
					j := r.Intn(k + 1)
					order[k], order[j] = order[j], order[k]
				}
				for _, s := range order {
					if s != media && r.Chance(1, 3) {
						continue
					}
					ms += int64(r.Range(1, 9))
					via, b := media, bound
					if second != 0 && s != media && r.Bool() {
						via, b = second, false
					}
					twn := -1
					if extMode == 1 || (extMode == 2 && r.Bool()) {
						twn = tw
						tw++
					}
					op := sendOp(s, start+i, b, twn, r.Range(1, 1200))
					if via != s {
						op += fmt.Sprintf(" via=%d", via)
					}
					ops = append(ops, op)
				}
				i++
			}
			ms += 50
			for k := r.Range(1, 2); k > 0; k-- {
				lo := first + r.Range(-2, max(0, i-first-1))
				n := r.Range(1, min(i-lo+1, 40))
				switch r.Intn(3) {
				case 0: // one report naming every SSRC
					ops = append(ops, "q ccfb "+c09FullCCFB(r, all, start+lo, n, c09At(ms), false))
				case 1: // one report per SSRC, reads in between
					for _, s := range all {
						ops = append(ops, "q ccfb "+c09FullCCFB(r, []uint32{s}, start+lo, n, c09At(ms), false))
						if r.Chance(1, 3) {
							ops = append(ops, "fb now="+c09ZS(c09At(ms)))
						}
					}
				default: // only the foreign SSRCs, then only the media SSRC
					ops = append(ops, "q ccfb "+c09FullCCFB(r, others, start+lo, n, c09At(ms), false))
					if r.Bool() {
						ops = append(ops, "fb now="+c09ZS(c09At(ms)))
					}
					ops = append(ops, "q ccfb "+c09FullCCFB(r, []uint32{media}, start+lo, n, c09At(ms), false))
				}
				if tw != firstTw && r.Chance(2, 3) {
					cnt := r.Range(1, min(tw-firstTw, 40))
					ds := make([]int, cnt)
					for j := range ds {
						ds[j] = r.Range(0, 255) * 250
					}
					ops = append(ops, fmt.Sprintf("q twcc base=%d cnt=%d ref=%d chunks=R1x%d deltas=%s", firstTw&0xFFFF, cnt, r.Intn(1<<24), cnt, joinInts(ds)))
				}
				ops = append(ops, "fb now="+c09ZS(c09At(ms)))
				ms += int64(r.Range(1, 30))
			}
			ops = append(ops, "hsizes")
		}
	case "history": // arbitrary interleavings of addOutgoing / onFeedback / buildReport
		tw := r.Pick(0, 65530)
		seq := r.Pick(0, 65530, r.Intn(65536))
		var sentTw, sentSeq []int
		for n := r.Range(1, 80); n > 0; n-- {
			switch r.Intn(10) {
			case 0, 1, 2, 3:
				if r.Bool() {
					ops = append(ops, sendOp(1, seq, true, tw, r.Range(0, 1200)))
					sentTw = append(sentTw, tw)
					tw++
				} else {
					ops = append(ops, sendOp(2, seq, false, -1, r.Range(0, 1200)))
					sentSeq = append(sentSeq, seq)
				}
				seq++
				ms += int64(r.Range(0, 20))
			case 4, 5, 6, 7:
				arr := c09ZS(c09At(ms - int64(r.Range(0, 50))))
				ar := r.Pick(1, 1, 1, 0)
				if ar == 0 && r.Bool() {
					arr = "0"
				}
				if r.Bool() && len(sentTw) > 0 {
					s := sentTw[r.Intn(len(sentTw))] + r.Pick(0, 0, 0, 0, 1, 100)
					ops = append(ops, fmt.Sprintf("hack seq=%d arrived=%d arr=%s ecn=%d now=%s", s&0xFFFF, ar, arr, r.Intn(4), c09ZS(c09At(ms))))
				} else if len(sentSeq) > 0 {
					s := sentSeq[r.Intn(len(sentSeq))] + r.Pick(0, 0, 0, 0, 1, 100)
					ops = append(ops, fmt.Sprintf("hack ssrc=%d seq=%d arrived=%d arr=%s ecn=%d now=%s", r.Pick(2, 2, 2, 1), s&0xFFFF, ar, arr, r.Intn(4), c09ZS(c09At(ms))))
				}
			case 8:
				ops = append(ops, "hbuild")
			default:
				ops = append(ops, "hsizes")
			}
		}
		ops = append(ops, "hbuild", "hsizes")
	case "idle-reads":
		// F-40: RTCP reads that carry NO acknowledgement of a sent packet as arrived — an empty compound,
		// receiver reports / PLI / NACK, feedback about unknown SSRCs or never-sent numbers, feedback that
		// only says "not received" — interleaved BEFORE, BETWEEN and AFTER the first real acknowledgements,
		// from the very first packet of the session (history counter 0) on.  The property: such a read
		// reports nothing new and drops nothing; the packets stay reportable by their real acknowledgement.
		useTW := r.Bool()
		ssrc := uint32(r.Range(1, 5))
		seq := r.Pick(0, 1, 65534, r.Intn(65536))
		tw := r.Pick(0, 1, 65534, r.Intn(65536))
		var sent []c09Sent // packets sent and not yet really acknowledged
		send := func(k int) {
			for ; k > 0; k-- {
				if useTW {
					ops = append(ops, sendOp(ssrc, seq, true, tw, r.Range(0, 1200)))
				} else {
					ops = append(ops, sendOp(ssrc, seq, false, -1, r.Range(0, 1200)))
				}
				sent = append(sent, c09Sent{ssrc: ssrc, seq: uint16(seq), tw: uint16(tw), ms: ms})
				seq++
				tw++
				ms += int64(r.Range(0, 12))
			}
		}
		ccfbOp := func(s uint32, begin int, recv []bool) string {
			fb := &rtcp.CCFeedbackReport{ReportTimestamp: verifhooks.ToNTP32(c09At(ms))}
			rb := rtcp.CCFeedbackReportBlock{MediaSSRC: s, BeginSequence: uint16(begin)}
			for _, ok := range recv {
				mb := rtcp.CCFeedbackMetricBlock{Received: ok}
				if ok {
					mb.ECN = rtcp.ECN(r.Intn(4))
					mb.ArrivalTimeOffset = uint16(r.Intn(0x1FFE))
				}
				rb.MetricBlocks = append(rb.MetricBlocks, mb)
			}
			fb.ReportBlocks = append(fb.ReportBlocks, rb)
			return "q ccfb " + c09CCFBOp(fb, c09At(ms), false)
		}
		twccOp := func(base int, recv []bool) string {
			var ss []string
			var ds []int
			for _, ok := range recv {
				if ok {
					ss = append(ss, "1")
					ds = append(ds, r.Range(0, 255)*250)
				} else {
					ss = append(ss, "0")
				}
			}
			return fmt.Sprintf("q twcc base=%d cnt=%d ref=%d chunks=V1:%s deltas=%s", base&0xFFFF, len(recv), r.Intn(1<<24), strings.Join(ss, "."), joinInts(ds))
		}
		flags := func(n int, v bool) []bool {
			out := make([]bool, n)
			for i := range out {
				out[i] = v
			}
			return out
		}
		idle := func(k int) { // k reads without any acknowledgement-as-arrived of a sent packet
			for ; k > 0; k-- {
				ms += int64(r.Range(1, 30))
				for j := r.Pick(0, 1, 1, 2); j > 0; j-- {
					switch r.Intn(6) {
					case 0, 1:
						ops = append(ops, "q other")
					case 2: // RFC 8888 report about a stream that was never sent
						ops = append(ops, ccfbOp(ssrc+100, seq-r.Range(0, 5), flags(r.Range(1, 6), true)))
					case 3: // feedback about numbers that were never sent (far away from the live range)
						if useTW {
							ops = append(ops, twccOp(tw+1000+r.Intn(30000), flags(r.Range(1, 6), true)))
						} else {
							ops = append(ops, ccfbOp(ssrc, seq+1000+r.Intn(30000), flags(r.Range(1, 6), true)))
						}
					case 4: // the other feedback format: its numbers are unknown to this history
						if useTW {
							ops = append(ops, ccfbOp(ssrc, seq-r.Range(0, 5), flags(r.Range(1, 6), true)))
						} else {
							ops = append(ops, twccOp(r.Pick(0, tw-2, r.Intn(65536)), flags(r.Range(1, 6), true)))
						}
					default: // feedback that says "not received" about the oldest outstanding packets
						if len(sent) > 0 && r.Chance(1, 2) {
							n := r.Range(1, min(len(sent), 4))
							if useTW {
								ops = append(ops, twccOp(int(sent[0].tw), flags(n, false)))
							} else {
								ops = append(ops, ccfbOp(ssrc, int(sent[0].seq), flags(n, false)))
							}
						}
					}
				}
				ops = append(ops, "fb now="+c09ZS(c09At(ms)))
			}
		}
		ack := func() { // a real acknowledgement of a prefix of the outstanding packets (some marked lost)
			if len(sent) == 0 {
				return
			}
			n := r.Range(1, len(sent))
			recv := make([]bool, n)
			for i := range recv {
				recv[i] = !r.Chance(1, 5)
			}
			recv[n-1] = r.Chance(9, 10)
			ms += int64(r.Range(1, 30))
			if useTW {
				ops = append(ops, twccOp(int(sent[0].tw), recv))
			} else {
				ops = append(ops, ccfbOp(ssrc, int(sent[0].seq), recv))
			}
			ops = append(ops, "fb now="+c09ZS(c09At(ms)))
			sent = sent[n:]
		}
		idle(r.Pick(0, 0, 1, 2)) // before anything was sent
		send(r.Pick(1, 1, 1, 2, 5))
		idle(r.Pick(1, 1, 2, 3)) // after the first packet(s), before any acknowledgement
		if r.Chance(1, 3) {
			send(r.Range(1, 4))
			idle(r.Range(1, 2))
		}
		for rounds := r.Range(1, 4); rounds > 0; rounds-- {
			ack()
			ops = append(ops, "hsizes")
			idle(r.Pick(0, 1, 1, 2)) // between acknowledgements
			send(r.Pick(0, 1, 2, 6))
			idle(r.Pick(0, 1, 1))
		}
		for len(sent) > 0 && r.Chance(3, 4) {
			ack()
		}
		idle(r.Range(1, 2)) // after the last acknowledgement
		ops = append(ops, "hsizes")
	case "ccfb-skew":
		ops = c09GenSkew(r)
	case "loopback":
		// "Every acknowledgement is attributed to a packet that was really sent": a packet is sent from the moment the
		// interceptor hands it to the writer below.  The transport below is synchronous (an in-process loop-back, a
		// pipe): the peer — the real twcc / rfc8888 recorder — has the packet while that Write is still on the stack and
		// answers at once; the feedback about packets up to and including packet k is read through the interceptor's
		// RTCP reader before Write(k) returns (`nest=1`: the `q` / `fb` ops that follow a `send` are executed inside the
		// bottom RTP writer).  The model runs the same ops in sequence: the report names packet k as arrived.
		useTW := r.Bool()
		recT, recC := twcc.NewRecorder(5000), rfc8888.NewRecorder()
		ssrcs := []uint32{uint32(r.Range(1, 5)), uint32(r.Range(6, 9))}
		seq := map[uint32]int{ssrcs[0]: r.Pick(0, 65500, r.Intn(65536)), ssrcs[1]: r.Intn(65536)}
		tw := r.Pick(0, 65400, r.Intn(65536))
		for n := r.Range(3, 40); n > 0; n-- {
			var batch []c09Sent
			for k := r.Pick(1, 1, 1, 2, 3, 8); k > 0; k-- {
				s := ssrcs[r.Intn(2)]
				if useTW {
					ops = append(ops, sendOp(s, seq[s], true, tw, r.Range(0, 1200)))
				} else {
					ops = append(ops, sendOp(s, seq[s], false, -1, r.Range(0, 1200)))
				}
				batch = append(batch, c09Sent{ssrc: s, seq: uint16(seq[s]), tw: uint16(tw), ms: ms})
				seq[s]++
				tw++
				if k > 1 {
					ms += int64(r.Range(0, 12))
				}
			}
			ms += int64(r.Range(61, 150)) // spent inside the Write of the last packet (arrivals: 5..60 ms after departure)
			if r.Chance(1, 8) {
				ops = append(ops, "q other")
			}
			if useTW {
				for _, f := range c09RecorderTWCC(r, recT, batch) {
					ops = append(ops, "q twcc "+f)
				}
			} else {
				for _, f := range c09RecorderCCFB(r, recC, batch, c09At(ms), false) {
					ops = append(ops, "q ccfb "+f)
				}
			}
			ops = append(ops, "fb now="+c09ZS(c09At(ms)))
			ms += int64(r.Range(0, 30))
			if r.Chance(1, 6) {
				ops = append(ops, "hsizes")
			}
		}
		ops = append(ops, "hsizes")
	}
	return ops
}

// c09NTPWindow returns the bounds [lo, hi) of the 2^16-second window of NTP time (aligned: ntp.ToTime32 takes the
// upper 16 bits of the seconds from its reference) in which t lies.
func c09NTPWindow(t time.Time) (lo, hi time.Time) {
	const ntpUnix = 2208988800
	w := (t.Unix() + ntpUnix) >> 16
	return time.Unix(w<<16-ntpUnix, 0).UTC(), time.Unix((w+1)<<16-ntpUnix, 0).UTC()
}

// c09GenSkew, class `ccfb-skew`: RTP clocks are not synchronised.  The remote peer — the real rfc8888.Recorder —
// records arrivals and stamps its report on ITS clock, which is ahead of or behind the local clock by anything from
// one unit of the report timestamp (1/65536 s) to several hours, inside the same 2^16-second NTP window (the
// precondition of the 32-bit round trip, C20).  The local interceptor reads the report at local time `now`.  The op
// carries what the peer recorded (`want=`, read by the Go interpreter only): every decoded arrival instant must be
// the peer's, to within the 1/1024 s resolution of the arrival time offset.
func c09GenSkew(r *Rng) []string {
	var ops []string
	rec := rfc8888.NewRecorder()
	ssrcs := []uint32{uint32(r.Range(1, 5)), uint32(r.Range(6, 9))}
	seq := map[uint32]int{ssrcs[0]: r.Pick(0, 65500, r.Intn(65536)), ssrcs[1]: r.Intn(65536)}
	// local time: somewhere in the window of 2000-01-01 (13.8 h of it lie before that instant, 4.4 h after it); a
	// case lasts less than 15 s and ends before the window does
	ms := int64(r.Pick(r.Intn(100000), r.Intn(15_000_000), 15_780_000+r.Intn(60_000)))
	// the skew of the peer's clock is a property of the connection: drawn once per case (plus a small drift)
	unit := time.Second / 65536
	skew := time.Duration(r.Pick(0, 1, 1, 2, 3, 65, 66, 655, 65536, 65536*60, 65536*3600, 65536*3*3600, 65536*4*3600, 65536*13*3600,
		r.Intn(65536), r.Intn(65536*600), r.Intn(65536*4*3600))) * unit
	if r.Bool() {
		skew += time.Duration(r.Intn(15258)) // not a multiple of the unit
	}
	if r.Bool() {
		skew = -skew
	}
	// the peer's clock stays inside the window of the local clock for the whole case: otherwise the largest skew
	// of that sign that does
	{
		now0 := c09At(ms)
		lo, hi := c09NTPWindow(now0)
		if !now0.Add(skew).Before(hi.Add(-time.Minute)) {
			skew = hi.Add(-time.Minute).Sub(now0) - time.Duration(r.Intn(1_000_000_000))
		}
		if !now0.Add(skew).After(lo.Add(time.Minute)) {
			skew = lo.Add(time.Minute).Sub(now0) + time.Duration(r.Intn(1_000_000_000))
		}
	}
	for rounds := r.Range(1, 4); rounds > 0; rounds-- {
		n := r.Range(1, 40)
		type arr struct {
			ssrc uint32
			seq  uint16
			at   time.Time // peer clock
			n    int
		}
		var batch []c09Sent
		for i := 0; i < n; i++ {
			s := ssrcs[r.Intn(2)]
			ops = append(ops, fmt.Sprintf("send ssrc=%d seq=%d b=0 tw=- pl=%d t=%s", s, seq[s]&0xFFFF, r.Range(0, 1200), c09ZS(c09At(ms))))
			batch = append(batch, c09Sent{ssrc: s, seq: uint16(seq[s]), ms: ms})
			seq[s]++
			ms += int64(r.Range(0, 12))
		}
		ms += int64(r.Pick(70, 100, 300, 2000))
		now := c09At(ms).Add(time.Duration(r.Intn(1_000_000))) // the local clock when the report is read
		sk := skew + time.Duration(r.Range(-2000, 2000))       // drift
		peerNow := now.Add(sk)
		if lo, hi := c09NTPWindow(now); !peerNow.After(lo) || !peerNow.Before(hi) {
			panic("ccfb-skew generator: the peer's clock left the window of the local clock")
		}
		// arrivals on the peer's clock
		seen := map[c09WantKey]*arr{}
		idx, at := c09Arrivals(r, batch)
		for k, i := range idx {
			a := c09At(at[k]).Add(time.Duration(r.Intn(1_000_000))).Add(sk)
			if a.After(peerNow) {
				a = peerNow.Add(-time.Duration(r.Intn(5_000_000)))
			}
			rec.AddPacket(a, batch[i].ssrc, batch[i].seq, uint8(r.Intn(4)))
			key := c09WantKey{batch[i].ssrc, batch[i].seq}
			if e, ok := seen[key]; ok {
				e.n++
			} else {
				seen[key] = &arr{batch[i].ssrc, batch[i].seq, a, 1}
			}
		}
		rep := rec.BuildReport(peerNow, r.Pick(1200, 1200, 300))
		fb, ok := c09RoundTripCCFB(rep)
		if !ok {
			continue
		}
		var wants []string
		for _, rb := range fb.ReportBlocks {
			for i, mb := range rb.MetricBlocks {
				e, ok := seen[c09WantKey{rb.MediaSSRC, rb.BeginSequence + uint16(i)}]
				// an offset of 0x1FFE is "that long ago or longer", 0x1FFF "unavailable"; a packet recorded twice has two instants
				if ok && e.n == 1 && mb.Received && mb.ArrivalTimeOffset < 0x1FFE {
					wants = append(wants, fmt.Sprintf("%d:%d:%s", e.ssrc, e.seq, c09ZS(e.at)))
				}
			}
		}
		w := "-"
		if len(wants) > 0 {
			w = strings.Join(wants, "/")
		}
		ops = append(ops, "q ccfb "+c09CCFBOp(fb, now, false)+" want="+w)
		ops = append(ops, "fb now="+c09ZS(now))
		ops = append(ops, "hsizes")
	}
	return ops
}

func init() {
	register("fbadapter", &Comp{
		N: func(tier string) int {
			if tier == "thorough" {
				return 40000
			}
			return 1500
		},
		Gen: c09GenAdapter,
		Run: c09RunAdapter,
	})
	register("ccfbskew", &Comp{ // the clock-skew class alone (model `rtpfb`): the 32-bit NTP round trip seen from its user (C20)
		N: func(tier string) int {
			if tier == "thorough" {
				return 20000
			}
			return 600
		},
		Gen: func(r *Rng, tier string, idx int) Case {
			if idx%4 == 3 { // a second connection of the same factory whose peer has another skew
				a, b := c09GenSkew(r), c09GenSkew(r)
				return Case{Class: "twin-ccfb-skew", Ops: twinInterleave(r, a, b, r.Pick(1, 3, 10))}
			}
			return Case{Class: "ccfb-skew", Ops: c09GenSkew(r)}
		},
		Run: c09RunRtpfb,
	})
	register("rtpfb", &Comp{
		N: func(tier string) int {
			if tier == "thorough" {
				return 40000
			}
			return 1500
		},
		Gen: c09GenRtpfb,
		Run: c09RunRtpfb,
	})
}

// c09ExtID is the transport-cc header extension id the stream with this SSRC negotiates.
func c09ExtID(ssrc uint32) int { return 1 + int(ssrc*7%13) }

package corr

// Component `chain` (property C01): a chain built by interceptor.Registry from the real
// non-buffering factories and counting mock members, bound to local/remote streams and RTCP,
// over an instrumented bottom writer/reader that fails when the op says so.  Every case runs
// inside a testing/synctest bubble; everything is closed at the end.
//
// Observables (compared with the Lean model): application packets at the bottom (header bytes,
// payload bytes), (n, err kinds) at the top, bytes handed to the application on the read side,
// Close/Unbind/Bind/seen counters of the mock members, errors.Is on the Close error.
// Packets the interceptors inject themselves (RTX, FEC, reports, NACKs, PLIs, feedback) are
// counted in `#` comment lines only (not compared); the transport-cc number is masked to 0
// because injected packets consume numbers too (C15 covers the numbering).

import (
	"errors"
	"fmt"
	"io"
	"os"
	"reflect"
	"strings"
	"testing"
	"testing/synctest"
	"time"

	"github.com/pion/interceptor"
	"github.com/pion/interceptor/pkg/cc"
	"github.com/pion/interceptor/pkg/flexfec"
	"github.com/pion/interceptor/pkg/gcc"
	"github.com/pion/interceptor/pkg/intervalpli"
	"github.com/pion/interceptor/pkg/mock"
	"github.com/pion/interceptor/pkg/nack"
	"github.com/pion/interceptor/pkg/packetdump"
	"github.com/pion/interceptor/pkg/report"
	"github.com/pion/interceptor/pkg/rfc8888"
	"github.com/pion/interceptor/pkg/rtpfb"
	"github.com/pion/interceptor/pkg/stats"
	"github.com/pion/interceptor/pkg/twcc"
	"github.com/pion/logging"
	"github.com/pion/rtcp"
	"github.com/pion/rtp"
)

// c01Diag adds `#` comment lines with the number of injected packets (diagnostics only: ./check's
// shrinker and replay compare raw lines, so they are off by default).
var c01Diag = os.Getenv("VERIF_C01_DIAG") == "1"

var (
	c01Sentinels  = []error{nil, errors.New("close error 1"), errors.New("close error 2"), errors.New("close error 3")}
	errC01Factory = errors.New("factory failed")
)

func silentLoggers() logging.LoggerFactory {
	return &logging.DefaultLoggerFactory{Writer: io.Discard, DefaultLogLevel: logging.LogLevelDisabled, ScopeLevels: map[string]logging.LogLevel{}}
}

type c01Mock struct {
	idx                                                   int
	close, bindL, bindR, unbindL, unbindR, bindCW, bindCR int
	seenW, seenR, seenCW, seenCR                          int
}

type c01Env struct {
	o        *Out
	mocks    []*c01Mock
	curHdr   *rtp.Header   // header of the application RTP write in progress
	curPkts  []rtcp.Packet // packets of the application RTCP write in progress
	inWrite  bool
	bn       int
	bf, ifl  bool
	injRTP   int
	injRTCP  int
	readData []byte
	readErr  bool
	appSnap  map[any]any // entries of the attributes the application passed with the op in progress
	attrLost bool        // the bottom writer did not receive them
	// a chain with a pacing cc member (`ccpaced`) delivers asynchronously: the application packet is recognised by
	// (SSRC, sequence number, payload) instead of the header pointer
	paced   bool
	pending map[string]int // accepted application packets that have not reached the bottom writer yet
	known   map[string]int // how often each application packet was written
	arrived map[string]int // how often it reached the bottom writer
	pacedBn int
	nFail   int
	failLog []error // values returned by failing bottom calls during the op in progress
	// every error value handed to a (nested) mock member as its Close error
	closeErrs []error
}

// c01BottomErr is the error value of ONE failing call of the bottom writer/reader: it wraps errBottom (so the kind
// printed for the model is unchanged) and is distinct from the value of every other failing call.  When several
// writes fail during one application Write (the application's packet and repair packets injected behind it), the
// error the application gets must answer errors.Is for EVERY one of them.
type c01BottomErr struct {
	n    int
	what string
	rtcp bool
}

func (e *c01BottomErr) Error() string { return fmt.Sprintf("%v (failing call #%d: %s)", errBottom, e.n, e.what) }
func (e *c01BottomErr) Unwrap() error { return errBottom }

func (env *c01Env) fail(what string) error {
	env.nFail++
	e := &c01BottomErr{n: env.nFail, what: what, rtcp: strings.Contains(what, "RTCP")}
	env.failLog = append(env.failLog, e)
	return e
}

// lostErrs prints an ERROR-LOST line for every value a failing bottom call returned during the op that errors.Is
// does not find in the error the application got.
func (env *c01Env) lostErrs(err error, rtcp bool) {
	for _, e := range env.failLog {
		if be, _ := e.(*c01BottomErr); be != nil && be.rtcp == rtcp && !errors.Is(err, e) { //nolint:errorlint // own values
			env.o.P("ERROR-LOST the bottom writer returned %q during this Write; errors.Is does not find it in what the application got: %s",
				e.Error(), strings.ReplaceAll(fmt.Sprint(err), "\n", " | "))
		}
	}
	env.failLog = nil
}

func c01Key(h *rtp.Header, p []byte) string {
	return fmt.Sprintf("%d/%d/%x", h.SSRC, h.SequenceNumber, p)
}

// isApp: is this the application packet (of the Write in progress, or - behind a pacer - one still on its way)?
func (env *c01Env) isApp(h *rtp.Header, p []byte) bool {
	if h == nil {
		return false
	}
	if h == env.curHdr {
		return true
	}
	return env.paced && env.known[c01Key(h, p)] > 0
}

// closeErrOf builds the error a mock's Close returns from its code.
func closeErrOf(code string) (error, bool) {
	one := func(t string) (error, bool) {
		if len(t) < 2 {
			return nil, false
		}
		k := atoi(t[1:])
		if k < 1 || k >= len(c01Sentinels) {
			return nil, false
		}
		switch t[0] {
		case 'e':
			return c01Sentinels[k], true
		case 'w':
			return fmt.Errorf("wrapped: %w", c01Sentinels[k]), true
		}
		return nil, false
	}
	if code == "-" {
		return nil, true
	}
	if strings.HasPrefix(code, "sub") {
		var members []interceptor.Interceptor
		for _, p := range strings.Split(code, "-")[1:] {
			e, ok := one(p)
			if !ok {
				return nil, false
			}
			members = append(members, &mock.Interceptor{CloseFn: func() error { return e }})
		}
		return interceptor.NewChain(members).Close(), true // a nested chain's Close: a multiError or nil
	}
	return one(code)
}

// factoryOf returns the real factory for a member code; opt selects a row of the option table.
func (env *c01Env) factoryOf(code string, idx, opt int) (interceptor.Factory, bool) { //nolint:cyclop
	lf := silentLoggers()
	v := (opt + idx) % 3
	ms := []time.Duration{20 * time.Millisecond, 100 * time.Millisecond, 1 * time.Second}[v]
	parts := strings.Split(code, ":")
	var f interceptor.Factory
	var err error
	switch parts[0] {
	case "noop":
		f = &mock.Factory{NewInterceptorFn: func(string) (interceptor.Interceptor, error) { return &interceptor.NoOp{}, nil }}
	case "fail":
		f = &mock.Factory{NewInterceptorFn: func(string) (interceptor.Interceptor, error) { return nil, errC01Factory }}
	case "nackgen":
		f, err = nack.NewGeneratorInterceptor(nack.GeneratorSize([]uint16{64, 512, 8192}[v]), nack.GeneratorInterval(ms),
			nack.GeneratorSkipLastN(uint16(v)), nack.GeneratorMaxNacksPerPacket(uint16(v)), nack.WithGeneratorLoggerFactory(lf))
	case "nackresp":
		f, err = nack.NewResponderInterceptor(nack.ResponderSize([]uint16{8, 1024, 32768}[v]), nack.WithResponderLoggerFactory(lf))
	case "rr":
		f, err = report.NewReceiverInterceptor(report.ReceiverInterval(ms), report.WithReceiverLoggerFactory(lf))
	case "sr":
		if v == 1 {
			f, err = report.NewSenderInterceptor(report.SenderInterval(ms), report.SenderUseLatestPacket(), report.WithSenderLoggerFactory(lf))
		} else {
			f, err = report.NewSenderInterceptor(report.SenderInterval(ms), report.WithSenderLoggerFactory(lf))
		}
	case "twccsend":
		f, err = twcc.NewSenderInterceptor(twcc.SendInterval(ms), twcc.WithLoggerFactory(lf))
	case "hdrext":
		f, err = twcc.NewHeaderExtensionInterceptor()
	case "rfc8888":
		f, err = rfc8888.NewSenderInterceptor(rfc8888.SendInterval(ms), rfc8888.WithLoggerFactory(lf))
	case "rtpfb":
		f, err = rtpfb.NewInterceptor(rtpfb.WithLoggerFactory(lf))
	case "stats":
		f, err = stats.NewInterceptor(stats.WithLoggerFactory(lf))
	case "pdsend", "pdrecv":
		// the dump output is an io.Writer of the application's (a file, a pipe): in one row of the option table every
		// second write to it fails, with the well-known error values in turn (ambient_test.go) - the interceptor stays
		// transparent for the traffic whatever its log does
		out := io.Writer(io.Discard)
		if v == 1 {
			out = &AmbFailWriter{Sched: parseSched("%2"), Kinds: AmbErrKinds}
		}
		if parts[0] == "pdsend" {
			f, err = packetdump.NewSenderInterceptor(packetdump.RTPWriter(out), packetdump.RTCPWriter(out), packetdump.WithLoggerFactory(lf))
		} else {
			f, err = packetdump.NewReceiverInterceptor(packetdump.RTPWriter(out), packetdump.RTCPWriter(out), packetdump.WithLoggerFactory(lf))
		}
	case "pli":
		f, err = intervalpli.NewReceiverInterceptor(intervalpli.GeneratorInterval(ms*10), intervalpli.WithLoggerFactory(lf))
	case "fec":
		if len(parts) != 3 {
			return nil, false
		}
		f, err = flexfec.NewFecInterceptor(flexfec.NumMediaPackets(uint32(atoi(parts[1]))), flexfec.NumFECPackets(uint32(atoi(parts[2]))))
	case "cc":
		f, err = cc.NewInterceptor(func() (cc.BandwidthEstimator, error) {
			return gcc.NewSendSideBWE(gcc.SendSideBWEPacer(gcc.NewNoOpPacer()), gcc.WithLoggerFactory(lf),
				gcc.SendSideBWEInitialBitrate([]int{100_000, 1_000_000, 5_000_000}[v]))
		})
	case "ccpaced":
		// the congestion controller as an application configures it when it only sets bitrates: the DEFAULT
		// (leaky bucket) pacer, bitrate options init:min:max - also very low ones, init = min, init = max
		if len(parts) != 4 {
			return nil, false
		}
		ini, mn, mx := atoi(parts[1]), atoi(parts[2]), atoi(parts[3])
		f, err = cc.NewInterceptor(func() (cc.BandwidthEstimator, error) {
			return gcc.NewSendSideBWE(gcc.WithLoggerFactory(lf), gcc.SendSideBWEInitialBitrate(ini),
				gcc.SendSideBWEMinBitrate(mn), gcc.SendSideBWEMaxBitrate(mx))
		})
		env.paced, env.pacedBn = true, ini
	case "mock":
		if len(parts) != 2 {
			return nil, false
		}
		closeErr, ok := closeErrOf(parts[1])
		if !ok {
			return nil, false
		}
		m := &c01Mock{idx: idx}
		env.mocks = append(env.mocks, m)
		if strings.HasPrefix(parts[1], "sub") {
			// a Chain that is itself a member of the chain (an application groups interceptors): its first member is
			// the counting mock, the others fail in Close with their own values.  Its Close error is a multi-error
			// INSIDE the outer one, at whatever position the member has, with failing siblings before and after it.
			var leaves []error
			for _, p := range strings.Split(parts[1], "-")[1:] {
				e, _ := closeErrOf(p)
				leaves = append(leaves, e)
			}
			env.closeErrs = append(env.closeErrs, leaves...)
			f = &mock.Factory{NewInterceptorFn: func(string) (interceptor.Interceptor, error) {
				members := []interceptor.Interceptor{env.mockInterceptor(m, nil)}
				for _, e := range leaves {
					members = append(members, &mock.Interceptor{CloseFn: func() error { return e }})
				}
				return interceptor.NewChain(members), nil
			}}
			break
		}
		if closeErr != nil {
			env.closeErrs = append(env.closeErrs, closeErr)
		}
		f = &mock.Factory{NewInterceptorFn: func(string) (interceptor.Interceptor, error) { return env.mockInterceptor(m, closeErr), nil }}
	default:
		return nil, false
	}
	return f, err == nil
}

func (env *c01Env) mockInterceptor(m *c01Mock, closeErr error) interceptor.Interceptor {
	return &mock.Interceptor{
		BindRTCPReaderFn: func(r interceptor.RTCPReader) interceptor.RTCPReader {
			m.bindCR++
			return interceptor.RTCPReaderFunc(func(b []byte, a interceptor.Attributes) (int, interceptor.Attributes, error) {
				n, attr, err := r.Read(b, a)
				if err == nil {
					m.seenCR++
				}
				return n, attr, err
			})
		},
		BindRTCPWriterFn: func(w interceptor.RTCPWriter) interceptor.RTCPWriter {
			m.bindCW++
			return interceptor.RTCPWriterFunc(func(pkts []rtcp.Packet, a interceptor.Attributes) (int, error) {
				if env.isAppRTCP(pkts) {
					m.seenCW++
				}
				return w.Write(pkts, a)
			})
		},
		BindLocalStreamFn: func(_ *interceptor.StreamInfo, w interceptor.RTPWriter) interceptor.RTPWriter {
			m.bindL++
			return interceptor.RTPWriterFunc(func(h *rtp.Header, p []byte, a interceptor.Attributes) (int, error) {
				if env.isApp(h, p) {
					m.seenW++
				}
				return w.Write(h, p, a)
			})
		},
		UnbindLocalStreamFn: func(*interceptor.StreamInfo) { m.unbindL++ },
		BindRemoteStreamFn: func(_ *interceptor.StreamInfo, r interceptor.RTPReader) interceptor.RTPReader {
			m.bindR++
			return interceptor.RTPReaderFunc(func(b []byte, a interceptor.Attributes) (int, interceptor.Attributes, error) {
				n, attr, err := r.Read(b, a)
				if err == nil {
					m.seenR++
				}
				return n, attr, err
			})
		},
		UnbindRemoteStreamFn: func(*interceptor.StreamInfo) { m.unbindR++ },
		CloseFn:              func() error { m.close++; return closeErr },
	}
}

func (env *c01Env) isAppRTCP(pkts []rtcp.Packet) bool {
	return env.curPkts != nil && len(pkts) == len(env.curPkts) && len(pkts) > 0 && pkts[0] == env.curPkts[0]
}

func c01ErrKinds(err error) string {
	if err == nil {
		return "nil"
	}
	var kinds []string
	s := err.Error()
	add := func(cond bool, name string) {
		if cond {
			kinds = append(kinds, name)
		}
	}
	add(errors.Is(err, errBottom), "bottom")
	add(errors.Is(err, io.ErrShortBuffer), "shortbuf")
	add(strings.Contains(s, "padding size exceeds payload size"), "padoverflow")
	add(errors.Is(err, gcc.ErrUnknownStream), "unknownstream")
	add(strings.Contains(s, "missing transport layer cc header extension"), "ccnoext")
	add(strings.Contains(s, "between 1 and 14"), "ext-onebyte-id")
	add(strings.Contains(s, "16bytes or less"), "ext-onebyte-size")
	add(strings.Contains(s, "between 1 and 255"), "ext-twobyte-id")
	add(strings.Contains(s, "255bytes or less"), "ext-twobyte-size")
	add(strings.Contains(s, "must be 0 for non-RFC"), "ext-3550-id")
	if len(kinds) == 0 {
		return "other:" + strings.ReplaceAll(s, " ", "_")
	}
	return strings.Join(kinds, "+")
}

// application-owned attribute keys of several kinds.  The library's own keys are of private types, so none of
// these may ever collide with them, be changed, or make a read or write fail.
type (
	c01PrivKey struct{ name string }
	c01IntKey  int
)

// c01AppAttrs builds the attributes map the application passes for `at=<k>` and a snapshot of its entries.
func c01AppAttrs(at int) (interceptor.Attributes, map[any]any) {
	var a interceptor.Attributes
	switch at {
	case 0:
		return nil, nil
	case 1:
		a = interceptor.Attributes{}
	case 2:
		a = interceptor.Attributes{0: "rxq-3", 1: "eth0", 2: 7}
	case 3:
		a = interceptor.Attributes{"rtp": "x", "": 0, c01PrivKey{"a"}: []int{1, 2}, c01IntKey(0): "k0", c01IntKey(1): "k1"}
	default:
		a = interceptor.Attributes{
			0: "rxq-3", 1: "eth0", int64(0): 1.5, int64(1): "i64", uint8(0): "u8", uint8(1): true, uint32(1): nil,
			"0": "s0", "1": "s1", c01PrivKey{}: "priv", c01IntKey(0): 10, c01IntKey(1): 11, true: "b", [2]int{0, 1}: "arr",
		}
	}
	snap := map[any]any{}
	for k, v := range a {
		snap[k] = v
	}
	return a, snap
}

// c01AttrsHold: every entry of the snapshot is in `a`, unchanged.
func c01AttrsHold(a interceptor.Attributes, snap map[any]any) bool {
	for k, v := range snap {
		got, ok := a[k]
		if !ok || !reflect.DeepEqual(got, v) {
			return false
		}
	}
	return true
}

func c01At(m map[string]string, opi int) int {
	if m["at"] != "" {
		return atoi(m["at"])
	}
	return (opi + 1) % 2 // ops files written before `at=` existed: nil / empty map in turn
}

type c01Stream struct {
	info   *interceptor.StreamInfo
	twID   uint8
	writer interceptor.RTPWriter
	reader interceptor.RTPReader
}

func c01StreamInfo(m map[string]string) (*interceptor.StreamInfo, uint8, bool) {
	decls, ok := parseDecls(m["tw"])
	if !ok || m["ssrc"] == "" {
		return nil, 0, false
	}
	info := &interceptor.StreamInfo{SSRC: uint32(atoi(m["ssrc"])), ClockRate: 90000, PayloadType: 96, RTPHeaderExtensions: decls, MimeType: "video/VP8"}
	if m["nack"] == "1" {
		info.RTCPFeedback = append(info.RTCPFeedback, interceptor.RTCPFeedback{Type: "nack"})
	}
	if m["pli"] == "1" {
		info.RTCPFeedback = append(info.RTCPFeedback, interceptor.RTCPFeedback{Type: "nack", Parameter: "pli"})
	}
	if m["rtx"] == "1" {
		info.SSRCRetransmission, info.PayloadTypeRetransmission = info.SSRC+100000, 97
	}
	if m["fec"] == "1" {
		info.SSRCForwardErrorCorrection, info.PayloadTypeForwardErrorCorrection = uint32(atoi(m["fssrc"])), uint8(atoi(m["fpt"]))
	}
	var id uint8
	for _, d := range decls {
		if d.URI == twccURI {
			id = uint8(d.ID)
			break
		}
	}
	return info, id, true
}

func wireOf(h *rtp.Header, payload []byte) ([]byte, bool) {
	hb, err := h.Marshal()
	if err != nil {
		return nil, false
	}
	out := append(hb, payload...)
	if h.Padding && h.PaddingSize > 0 {
		out = append(out, make([]byte, int(h.PaddingSize)-1)...)
		out = append(out, h.PaddingSize)
	}
	return out, true
}

func c01Run(t *testing.T, ops []string, o *Out) {
	synctest.Test(t, func(t *testing.T) { c01RunBubble(t, ops, o) })
}

func c01RunBubble(t *testing.T, ops []string, o *Out) { //nolint:gocognit,cyclop,maintidx
	env := &c01Env{o: o, pending: map[string]int{}, known: map[string]int{}, arrived: map[string]int{}}
	var chain interceptor.Interceptor
	hasHdrExt := false
	closed := false
	locals, remotes := map[int]*c01Stream{}, map[int]*c01Stream{}
	var rtcpW interceptor.RTCPWriter
	var rtcpR interceptor.RTCPReader
	appBuf := make([]byte, 4096) // the application's read buffer, reused (stale bytes stay)
	rtcpBuf := make([]byte, 4096)
	defer func() {
		if chain != nil && !closed {
			_ = chain.Close()
		}
		synctest.Wait()
	}()
	settle := func() { synctest.Wait() }
	for opi, op := range ops {
		stop := false
		func() {
			defer func() {
				if r := recover(); r != nil {
					if s, ok := r.(string); ok && strings.HasPrefix(s, "bad int") {
						o.P("bad-op")
						return
					}
					msg := fmt.Sprint(r)
					if i := strings.IndexByte(msg, '\n'); i >= 0 {
						msg = msg[:i]
					}
					o.P("PANIC %s", msg)
					stop = true
				}
			}()
			name, m := kv(op)
			if name == "chain" {
				if chain != nil {
					o.P("bad-op")
					return
				}
				reg := &interceptor.Registry{}
				opt := 0
				if m["opt"] != "" {
					opt = atoi(m["opt"])
				}
				n := 0
				if m["m"] != "-" {
					for idx, code := range strings.Split(m["m"], ",") {
						f, ok := env.factoryOf(code, idx, opt)
						if !ok {
							o.P("bad-op")
							return
						}
						if code == "hdrext" {
							hasHdrExt = true
						}
						reg.Add(f)
						n++
					}
				}
				built, err := reg.Build("c01")
				if err != nil {
					o.P("build err")
					stop = true
					return
				}
				chain = built
				_, isNoOp := built.(*interceptor.NoOp)
				if isNoOp != (n == 0) {
					o.P("build kind mismatch")
				}
				o.P("built n=%d", n)
				return
			}
			if chain == nil || closed {
				o.P("bad-op")
				return
			}
			switch name {
			case "rtcpbind":
				rtcpW = chain.BindRTCPWriter(interceptor.RTCPWriterFunc(func(pkts []rtcp.Packet, ba interceptor.Attributes) (int, error) {
					if env.isAppRTCP(pkts) {
						if !c01AttrsHold(ba, env.appSnap) {
							env.attrLost = true
						}
						raw, err := rtcp.Marshal(pkts)
						if err != nil {
							o.P("cb pk=err")
						} else {
							o.P("cb pk=%s", hexs(raw))
						}
						if env.bf {
							return env.bn, env.fail("application RTCP")
						}
						return env.bn, nil
					}
					env.injRTCP++
					if env.ifl {
						return 0, env.fail("injected RTCP")
					}
					return 0, nil
				}))
				rtcpR = chain.BindRTCPReader(interceptor.RTCPReaderFunc(func(b []byte, a interceptor.Attributes) (int, interceptor.Attributes, error) {
					if env.readErr {
						return env.bn, a, errBottom
					}
					return copy(b, env.readData), a, nil
				}))
			case "local":
				info, id, ok := c01StreamInfo(m)
				if !ok || m["s"] == "" {
					o.P("bad-op")
					return
				}
				st := &c01Stream{info: info, twID: id}
				infoWas := cloneInfo(info)
				st.writer = chain.BindLocalStream(info, interceptor.RTPWriterFunc(func(h *rtp.Header, p []byte, ba interceptor.Attributes) (int, error) {
					if env.isApp(h, p) {
						if !c01AttrsHold(ba, env.appSnap) {
							env.attrLost = true
						}
						if env.paced {
							k := c01Key(h, p)
							env.arrived[k]++
							if env.pending[k] > 0 {
								env.pending[k]--
							}
							if env.arrived[k] > env.known[k] {
								o.P("DUPLICATE the pacer handed the application packet ssrc=%d seq=%d to the next writer %d times, it was written %d times",
									h.SSRC, h.SequenceNumber, env.arrived[k], env.known[k])
							}
						}
						c := h.Clone()
						if hasHdrExt && st.twID != 0 {
							if e := c.GetExtension(st.twID); len(e) == 2 {
								// mask the transport-wide number (two-byte profile for the call: it accepts every id >= 1)
								prof := c.ExtensionProfile
								c.ExtensionProfile = rtp.ExtensionProfileTwoByte
								_ = c.SetExtension(st.twID, []byte{0, 0})
								c.ExtensionProfile = prof
							}
						}
						o.P("b hdr=%s pad=%d pl=%s", hdrHex(&c), c.PaddingSize, hexs(p))
						if env.bf {
							return env.bn, env.fail("application packet")
						}
						return env.bn, nil
					}
					env.injRTP++
					if env.ifl {
						what := "injected packet"
						if h != nil {
							what = fmt.Sprintf("injected packet ssrc=%d pt=%d seq=%d", h.SSRC, h.PayloadType, h.SequenceNumber)
						}
						return 0, env.fail(what)
					}
					return len(p), nil
				}))
				locals[atoi(m["s"])] = st
				if d := infoDiff(infoWas, info); d != "" {
					o.P("INFO-MUTATED call=BindLocalStream ssrc=%d %s", infoWas.SSRC, d)
				}
			case "remote":
				info, id, ok := c01StreamInfo(m)
				if !ok || m["s"] == "" {
					o.P("bad-op")
					return
				}
				st := &c01Stream{info: info, twID: id}
				o.InfoGuard("BindRemoteStream", info, func() {
					st.reader = chain.BindRemoteStream(info, interceptor.RTPReaderFunc(func(b []byte, a interceptor.Attributes) (int, interceptor.Attributes, error) {
						if env.readErr {
							return env.bn, a, errBottom
						}
						return copy(b, env.readData), a, nil
					}))
				})
				remotes[atoi(m["s"])] = st
			case "ul", "ur":
				tbl := locals
				if name == "ur" {
					tbl = remotes
				}
				st, ok := tbl[atoi(m["s"])]
				if !ok {
					o.P("bad-op")
					return
				}
				if name == "ul" {
					o.InfoGuard("UnbindLocalStream", st.info, func() { chain.UnbindLocalStream(st.info) })
				} else {
					o.InfoGuard("UnbindRemoteStream", st.info, func() { chain.UnbindRemoteStream(st.info) })
				}
			case "w", "pw":
				// `pw`: a write into a chain that may hold a pacing member.  Delivery to the bottom writer is then
				// asynchronous: the harness lets virtual time pass until the accepted packet has arrived (the `b` line)
				// or a generous bound has expired; the value n is the pacer's own and is not compared.
				st, ok := locals[atoi(m["s"])]
				h, ok2 := parseHdr(m)
				pl, ok3 := unhex(m["pl"])
				if !ok || !ok2 || !ok3 || m["bn"] == "" || m["bf"] == "" || m["if"] == "" {
					o.P("bad-op")
					return
				}
				env.bn, env.bf, env.ifl = atoi(m["bn"]), m["bf"] == "1", m["if"] == "1"
				env.curHdr = h
				attrs, snap := c01AppAttrs(c01At(m, opi))
				env.appSnap, env.attrLost = snap, false
				inj0 := env.injRTP
				env.failLog = nil
				key := c01Key(h, pl)
				if env.paced && name == "pw" {
					env.known[key]++
					env.pending[key]++
				}
				n, err := st.writer.Write(h, pl, attrs)
				env.curHdr = nil
				if name == "pw" {
					if env.paced && err != nil { // refused by a member above the pacer: nothing is on its way
						env.known[key]--
						env.pending[key]--
					}
					if env.paced && err == nil {
						rate := max(env.pacedBn, 1)
						bound := 2*time.Second + 4*time.Duration(8000/rate+1)*time.Millisecond
						for waited := time.Duration(0); env.pending[key] > 0 && waited < bound; waited += 5 * time.Millisecond {
							time.Sleep(5 * time.Millisecond)
							synctest.Wait()
						}
						if env.pending[key] > 0 {
							o.P("UNDELIVERED the accepted application packet ssrc=%d seq=%d did not reach the next writer within %v of virtual time (configured bitrate %d bit/s)",
								h.SSRC, h.SequenceNumber, bound, env.pacedBn)
							env.pending[key] = 0
						}
					}
					o.P("pret err=%s", c01ErrKinds(err))
				} else {
					o.P("ret n=%d err=%s", n, c01ErrKinds(err))
					env.lostErrs(err, false)
				}
				if env.attrLost || !c01AttrsHold(attrs, snap) {
					o.P("ATTR-CHANGED on write: the application's attribute entries did not reach the bottom writer unchanged")
				}
				if c01Diag && env.injRTP != inj0 {
					o.P("# injected during this write: %d", env.injRTP-inj0)
				}
				env.ifl = false
			case "r":
				st, ok := remotes[atoi(m["s"])]
				h, ok2 := parseHdr(m)
				pl, ok3 := unhex(m["pl"])
				if !ok || !ok2 || !ok3 || m["trunc"] == "" || m["bn"] == "" {
					o.P("bad-op")
					return
				}
				data, ok4 := wireOf(h, pl)
				if !ok4 {
					o.P("bad-op")
					return
				}
				if tr := atoi(m["trunc"]); tr >= 0 && tr < len(data) {
					data = data[:tr]
				}
				env.readData, env.readErr, env.bn = data, m["err"] == "1", atoi(m["bn"])
				attrs, snap := c01AppAttrs(c01At(m, opi))
				n, ret, err := st.reader.Read(appBuf, attrs)
				c01PrintRead(o, "rd", n, err, appBuf)
				if !c01AttrsHold(attrs, snap) || (err == nil && !c01AttrsHold(ret, snap)) {
					o.P("ATTR-CHANGED on read: the application's attribute entries did not come back unchanged")
				}
			case "cw":
				raw, ok := unhex(m["pk"])
				if !ok || rtcpW == nil || m["bn"] == "" {
					o.P("bad-op")
					return
				}
				pkts, err := rtcp.Unmarshal(raw)
				if err != nil || len(pkts) == 0 {
					o.P("bad-op")
					return
				}
				env.bn, env.bf = atoi(m["bn"]), m["bf"] == "1"
				env.curPkts = pkts
				at := 1
				if m["at"] != "" {
					at = atoi(m["at"])
				}
				attrs, snap := c01AppAttrs(at)
				env.appSnap, env.attrLost = snap, false
				env.failLog = nil
				n, err := rtcpW.Write(pkts, attrs)
				env.curPkts = nil
				o.P("ret n=%d err=%s", n, c01ErrKinds(err))
				env.lostErrs(err, true)
				if env.attrLost || !c01AttrsHold(attrs, snap) {
					o.P("ATTR-CHANGED on rtcp write: the application's attribute entries did not reach the bottom writer unchanged")
				}
			case "cr":
				raw, ok := unhex(m["data"])
				if !ok || rtcpR == nil || m["bn"] == "" {
					o.P("bad-op")
					return
				}
				env.readData, env.readErr, env.bn = raw, m["err"] == "1", atoi(m["bn"])
				attrs, snap := c01AppAttrs(c01At(m, opi))
				n, ret, err := rtcpR.Read(rtcpBuf, attrs)
				c01PrintRead(o, "crd", n, err, rtcpBuf)
				if !c01AttrsHold(attrs, snap) || (err == nil && !c01AttrsHold(ret, snap)) {
					o.P("ATTR-CHANGED on rtcp read: the application's attribute entries did not come back unchanged")
				}
			case "adv":
				time.Sleep(time.Duration(atoi(m["ms"])) * time.Millisecond)
			case "close":
				settle()
				err := chain.Close()
				closed = true
				settle()
				is := ""
				for k := 1; k <= 3; k++ {
					if errors.Is(err, c01Sentinels[k]) {
						is += "1"
					} else {
						is += "0"
					}
				}
				kind := "nil"
				if err != nil {
					kind = "multi"
				}
				o.P("closed err=%s is=%s", kind, is)
				for _, e := range env.closeErrs {
					// every member's own error VALUE (not only its sentinel) is reported: errors.Is finds each
					if !errors.Is(err, e) {
						o.P("CLOSE-ERROR-LOST a member's Close returned %q; errors.Is does not find it in the chain's Close error", e.Error())
					}
				}
				for _, mk := range env.mocks {
					o.P("mock i=%d close=%d bl=%d br=%d ul=%d ur=%d cw=%d cr=%d sw=%d sr=%d scw=%d scr=%d", mk.idx, mk.close,
						mk.bindL, mk.bindR, mk.unbindL, mk.unbindR, mk.bindCW, mk.bindCR, mk.seenW, mk.seenR, mk.seenCW, mk.seenCR)
				}
				if c01Diag {
					o.P("# injected rtp=%d rtcp=%d", env.injRTP, env.injRTCP)
				}
			default:
				o.P("bad-op")
			}
			settle()
		}()
		if stop {
			break
		}
	}
}

func c01PrintRead(o *Out, tag string, n int, err error, buf []byte) {
	if err != nil {
		kind := "other:" + strings.ReplaceAll(err.Error(), " ", "_")
		switch {
		case errors.Is(err, errBottom):
			kind = "bottom"
		case strings.Contains(err.Error(), "buffer too small"):
			kind = "twccext"
		case tag == "rd" && (strings.Contains(err.Error(), "RTP header size insufficient") || strings.Contains(err.Error(), "size ")):
			kind = "parse"
		case tag == "crd":
			kind = "parse"
		}
		o.P("%s n=%d err=%s data=-", tag, n, kind)
		return
	}
	if n < 0 || n > len(buf) {
		o.P("%s n=%d err=nil data=?", tag, n)
		return
	}
	o.P("%s n=%d err=nil data=%s", tag, n, hexs(buf[:n]))
}

// ---- generator --------------------------------------------------------------------------

var c01Pool = []string{"nackgen", "nackresp", "rr", "sr", "twccsend", "hdrext", "rfc8888", "rtpfb", "stats", "pdsend", "pdrecv", "pli", "fec", "cc", "noop"}

func c01CloseErr(r *Rng) string {
	one := func() string { return fmt.Sprintf("%s%d", []string{"e", "w"}[r.Intn(2)], r.Range(1, 3)) }
	switch r.Intn(6) {
	case 0, 1:
		return "-"
	case 2, 3:
		return one()
	case 4:
		parts := []string{"sub"}
		for i := r.Intn(3); i > 0; i-- {
			parts = append(parts, one())
		}
		return strings.Join(parts, "-")
	}
	return fmt.Sprintf("e%d", r.Range(1, 3))
}

// c01RTCP draws a compound RTCP packet (marshalled by the real pion/rtcp).
func c01RTCP(r *Rng, ssrcs []uint32, seqs map[uint32][]uint16, foreignNack bool) []byte {
	var pkts []rtcp.Packet
	pick := func() uint32 {
		if len(ssrcs) > 0 && !r.Chance(1, 5) {
			return ssrcs[r.Intn(len(ssrcs))]
		}
		return uint32(r.U64())
	}
	n := r.Range(1, 3)
	for i := 0; i < n; i++ {
		switch r.Intn(6) {
		case 0:
			pkts = append(pkts, &rtcp.SenderReport{SSRC: pick(), NTPTime: r.U64(), RTPTime: uint32(r.U64()), PacketCount: uint32(r.Intn(1000)), OctetCount: uint32(r.Intn(100000))})
		case 1:
			pkts = append(pkts, &rtcp.ReceiverReport{SSRC: pick(), Reports: []rtcp.ReceptionReport{{SSRC: pick(), FractionLost: uint8(r.Intn(256)), TotalLost: uint32(r.Intn(1000)), LastSequenceNumber: uint32(r.U64()), Jitter: uint32(r.Intn(5000)), LastSenderReport: uint32(r.U64()), Delay: uint32(r.Intn(65536))}}})
		case 2, 3:
			media := pick()
			if foreignNack {
				media = uint32(r.U64()) | 0x40000000 // local SSRCs of such cases have this bit clear
			}
			var lost []uint16
			if have := seqs[media]; len(have) > 0 && !r.Chance(1, 4) {
				for j := r.Range(1, 4); j > 0; j-- {
					lost = append(lost, have[r.Intn(len(have))])
				}
			} else {
				lost = []uint16{uint16(r.U64()), uint16(r.U64())}
			}
			pkts = append(pkts, &rtcp.TransportLayerNack{SenderSSRC: pick(), MediaSSRC: media, Nacks: rtcp.NackPairsFromSequenceNumbers(lost)})
		case 4:
			pkts = append(pkts, &rtcp.PictureLossIndication{SenderSSRC: pick(), MediaSSRC: pick()})
		case 5:
			pkts = append(pkts, &rtcp.ReceiverEstimatedMaximumBitrate{SenderSSRC: pick(), Bitrate: float32(r.Range(1, 1000) * 1000), SSRCs: []uint32{pick()}})
		}
	}
	raw, err := rtcp.Marshal(pkts)
	if err != nil {
		panic(err)
	}
	return raw
}

func c01Gen(r *Rng, tier string, idx int) Case { //nolint:gocognit,cyclop,maintidx
	r = NewRng(r.U64() ^ 0xC01C01C01) // decorrelate neighbouring cases (see c15Gen)
	// class `rtxpad`: the NACK responder is in the chain, most local streams negotiate NACK and (two of three) RTX, and
	// most application packets carry the Padding flag with PaddingSize 0 - the form in which the padding lives inside
	// the payload and its count is the payload's last byte - with payload lengths 1, 2, 255, 1460, ... and a tail byte
	// below, equal to (a padding-only packet, e.g. a bandwidth probe) and above len(payload).  The responder's RTX
	// packet factory rejects exactly "tail byte > len(payload)" (Model/Chain.lean, responderRejects); every other
	// packet must reach the bottom writer unchanged, whether the stream has RTX or not.
	// class `bigfec`: the FlexFEC interceptor is in the chain (batches of 1..3 packets), most local streams negotiate
	// FEC, and most application packets are as large as packets get: 8..15 CSRCs, header extensions, and a payload
	// chosen so that the marshalled packet has 1488..1530 bytes (around the encoder's pooled 1500-byte scratch buffer,
	// with and without the 12 bytes of the fixed header, and around an Ethernet MTU).  Every one of them must reach
	// the bottom writer unchanged and the write return what the bottom writer returned; the only member that rejects
	// by size is the NACK responder (payload above 1460: `shortbuf`, as the model says).
	// class `paced`: the congestion controller with its DEFAULT pacer (what an application gets that only sets bitrate
	// options) sits in the chain, at unusual but legal bitrates - a few hundred bit/s, init = min, init = max, the
	// package defaults.  Delivery is asynchronous, so the application write is the op `pw`: every accepted packet
	// still reaches the bottom writer exactly once, intact, within a generous bound of virtual time.  Members that can
	// refuse a packet stay above the pacer (their error is the application's); no RTCP is read (a NACK would make
	// the responder resend through the pacer, an estimate would move the rate).
	classes := []string{"write", "read", "rtcp", "mixed", "faults", "malformed", "guards", "close", "empty", "order3", "rtxpad", "bigfec", "paced"}
	cl := classes[idx%len(classes)]
	var ops []string
	pacedTw := false

	// ---- the chain: subset + permutation of the pool, mocks at random positions
	var members []string
	nReal := r.Range(0, 8)
	switch cl {
	case "empty":
		nReal = r.Pick(0, 0, 1)
	case "order3":
		nReal = 3
	case "close":
		nReal = r.Range(0, 4)
	case "rtxpad", "bigfec":
		nReal = r.Range(1, 6)
	}
	pool := append([]string(nil), c01Pool...)
	for i := len(pool) - 1; i > 0; i-- {
		j := r.Intn(i + 1)
		pool[i], pool[j] = pool[j], pool[i]
	}
	for _, k := range pool[:nReal] {
		if k == "fec" {
			nm := r.Pick(2, 3, 5)
			k = fmt.Sprintf("fec:%d:%d", nm, r.Range(1, min(2, nm)))
		}
		members = append(members, k)
	}
	if cl == "rtxpad" {
		hasResp := false
		for _, k := range members {
			hasResp = hasResp || k == "nackresp"
		}
		if !hasResp {
			members[r.Intn(len(members))] = "nackresp"
		}
	}
	if cl == "bigfec" {
		at := -1
		for i, k := range members {
			if strings.HasPrefix(k, "fec:") {
				at = i
			}
		}
		if at < 0 {
			at = r.Intn(len(members))
		}
		nm := r.Pick(1, 2, 2, 3)
		members[at] = fmt.Sprintf("fec:%d:%d", nm, r.Range(1, min(2, nm)))
	}
	if cl == "paced" {
		pick := func(from []string, n int) []string {
			from = append([]string(nil), from...)
			for i := len(from) - 1; i > 0; i-- {
				j := r.Intn(i + 1)
				from[i], from[j] = from[j], from[i]
			}
			return from[:n]
		}
		grid := [][3]int{{800, 500, 1_000_000}, {1000, 1000, 1000}, {1000, 1000, 5_000_000}, {1500, 100, 2000}, {100, 50, 200},
			{10_000, 5_000, 50_000_000}, {64_000, 64_000, 64_000}, {5_000_000, 10_000, 5_000_000}, {2000, 1000, 4000},
			{r.Range(100, 3000), 100, 3000}}
		g := grid[r.Intn(len(grid))]
		members = pick([]string{"noop", "stats", "pdsend", "pdrecv", "sr", "rr", "pli", "nackgen"}, r.Intn(3))
		members = append(members, fmt.Sprintf("ccpaced:%d:%d:%d", g[0], g[1], g[2]))
		above := pick([]string{"noop", "stats", "pdsend", "nackresp", "sr", "rr", "rtpfb", "twccsend", "rfc8888", "pli", "nackgen"}, r.Intn(4))
		if pacedTw = r.Chance(2, 3); pacedTw {
			above = append(above, "hdrext") // transport-cc is negotiated: the numbering interceptor is above cc, as it has to be
			k := r.Intn(len(above))
			above[k], above[len(above)-1] = above[len(above)-1], above[k]
		}
		members = append(members, above...)
	}
	nMock := r.Intn(4)
	if cl == "close" {
		nMock = r.Range(2, 6)
	}
	for i := 0; i < nMock; i++ {
		pos := r.Intn(len(members) + 1)
		members = append(members[:pos], append([]string{"mock:" + c01CloseErr(r)}, members[pos:]...)...)
	}
	if cl == "close" && r.Chance(2, 3) {
		// a Chain that is itself a member, FIRST, in the MIDDLE or LAST, one to three of its own members failing in Close,
		// between siblings that (mostly) fail too: errors.Is on the outer Close error finds every one of them
		leaves := []string{"sub"}
		for i := r.Range(1, 3); i > 0; i-- {
			leaves = append(leaves, fmt.Sprintf("%s%d", []string{"e", "w"}[r.Intn(2)], r.Range(1, 3)))
		}
		pos := r.Pick(0, len(members)/2, len(members))
		members = append(members[:pos], append([]string{"mock:" + strings.Join(leaves, "-")}, members[pos:]...)...)
	}
	if cl == "empty" && r.Chance(1, 3) {
		pos := r.Intn(len(members) + 1)
		members = append(members[:pos], append([]string{"fail"}, members[pos:]...)...)
	}
	has := func(k string) bool {
		for _, m := range members {
			if m == k {
				return true
			}
		}
		return false
	}
	hasFail := has("fail")
	// RTX resends of the NACK responder travel through the members below it; when a FlexFEC encoder sits
	// there they land in its batch (same SSRC without RTX), so the number of repair packets per Write - and with
	// cc further down or a failing bottom writer the application's error value - depends on the responder's
	// buffer, which this model does not carry.  In such chains NACKs read from the network name foreign media
	// SSRCs only (no resend happens); every other composition is unrestricted.
	rtxIntoFec := false
	seenFec := false
	for _, m := range members { // index order: a responder at a higher index is above the encoder
		if strings.HasPrefix(m, "fec:") {
			seenFec = true
		}
		if m == "nackresp" && seenFec {
			rtxIntoFec = true
		}
	}
	mstr := "-"
	if len(members) > 0 {
		mstr = strings.Join(members, ",")
	}
	ops = append(ops, fmt.Sprintf("chain m=%s opt=%d", mstr, r.Intn(3)))
	if hasFail {
		return Case{Class: cl, Ops: ops}
	}
	ops = append(ops, "rtcpbind")

	// ---- streams
	type gs struct {
		ssrc           uint32
		nack, rtx, fec bool
		tw             int
		seq            int
		sent           []uint16
	}
	nl, nr := r.Range(1, 3), r.Range(1, 3)
	used := map[uint32]bool{}
	fresh := func() uint32 {
		for {
			v := uint32(r.U64())
			if r.Chance(1, 6) {
				v = uint32(r.Pick(1, 2, 0xFFFFFFFF, 0x7FFFFFFF))
			}
			if rtxIntoFec {
				v &^= 0x40000000
			}
			if v != 0 && !used[v] && !used[v+100000] {
				used[v] = true
				return v
			}
		}
	}
	mk := func(kind string, s int) *gs {
		g := &gs{ssrc: fresh(), nack: r.Chance(2, 3), rtx: r.Chance(1, 3), fec: r.Chance(1, 2), seq: r.Intn(65536)}
		if cl == "rtxpad" && kind == "local" {
			g.nack, g.rtx = !r.Chance(1, 6), r.Chance(2, 3)
		}
		if cl == "bigfec" && kind == "local" {
			g.fec = !r.Chance(1, 6)
		}
		g.tw = r.Range(1, 14)
		if r.Chance(1, 3) {
			g.tw = r.Pick(0, -1000)
		}
		if cl == "guards" && r.Chance(1, 4) {
			g.tw = r.Pick(15, 200)
		}
		if cl == "paced" && kind == "local" {
			if g.tw = -1000; pacedTw {
				g.tw = r.Range(1, 14)
			}
		}
		tw := "-"
		if g.tw != -1000 {
			tw = c15Decls(r, g.tw)
		} else if r.Chance(1, 2) {
			tw = "o:3"
		}
		line := fmt.Sprintf("%s s=%d ssrc=%d nack=%d rtx=%d tw=%s", kind, s, g.ssrc, b01(g.nack), b01(g.rtx), tw)
		if kind == "local" {
			fs := fresh()
			fpt := r.Pick(49, 118, 0)
			if cl == "bigfec" && !r.Chance(1, 8) {
				fpt = r.Pick(49, 118, 127)
			}
			line += fmt.Sprintf(" fec=%d fssrc=%d fpt=%d", b01(g.fec), fs, fpt)
		} else {
			line += fmt.Sprintf(" pli=%d", b01(r.Bool()))
		}
		ops = append(ops, line)
		return g
	}
	var ls, rs []*gs
	for s := 0; s < nl; s++ {
		ls = append(ls, mk("local", s))
	}
	for s := 0; s < nr; s++ {
		rs = append(rs, mk("remote", s))
	}
	var lssrcs []uint32
	sentSeqs := map[uint32][]uint16{}
	for _, g := range ls {
		lssrcs = append(lssrcs, g.ssrc)
	}
	twOf := func(g *gs) int {
		if g.tw < 0 || g.tw > 255 {
			return 0
		}
		return g.tw
	}
	faultP := 12
	if cl == "faults" {
		faultP = 3
	}

	// ---- traffic
	n := r.Range(10, 70)
	if cl == "close" || cl == "empty" {
		n = r.Range(0, 8)
	}
	if cl == "paced" {
		n = r.Range(4, 24)
	}
	for i := 0; i < n; i++ {
		kind := r.Intn(10)
		switch cl {
		case "write", "guards", "order3":
			kind = r.Pick(0, 0, 0, 0, 1, 5, 7, 9)
		case "read", "malformed":
			kind = r.Pick(1, 1, 1, 1, 0, 6, 9)
		case "rtcp":
			kind = r.Pick(5, 5, 6, 6, 7, 0, 1, 9)
		case "rtxpad": // writes, NACKs read from the network (RTX resends of the padded packets), time
			kind = r.Pick(0, 0, 0, 0, 0, 0, 6, 7, 9)
		case "bigfec":
			kind = r.Pick(0, 0, 0, 0, 0, 0, 0, 1, 7, 9)
		case "paced":
			kind = r.Pick(0, 0, 0, 0, 0, 0, 1, 5, 7, 9)
		}
		switch {
		case kind <= 0 || kind == 2 || kind == 3: // application RTP write
			s := r.Intn(nl)
			g := ls[s]
			hk := -1
			if cl == "guards" && r.Chance(1, 3) {
				hk = r.Pick(3, 4, 1)
			}
			h := genHdr(r, hk, twOf(g))
			if !h.X && len(h.Ext) > 0 {
				// Extension=false with a stale element list: drop a stale element under the negotiated id (the
				// harness could not mask the right one of two elements with the same id; C15's class `stale` has it)
				var keep []extElem
				for _, e := range h.Ext {
					if e.ID != twOf(g) {
						keep = append(keep, e)
					}
				}
				h.Ext = keep
			}
			h.SSRC = int(g.ssrc)
			h.Seq = g.seq & 0xFFFF
			g.seq++
			if r.Chance(1, 12) {
				g.seq += r.Pick(1, 2, 100, -3) // a gap: the FEC batch is not consecutive
			}
			if (cl == "guards" && r.Chance(1, 4)) || (cl != "paced" && r.Chance(1, 40)) {
				// foreign SSRC: never the SSRC of another bound stream (cc's pacer would route it there)
				h.SSRC = int(fresh())
			}
			pl := genPayload(r)
			if cl == "guards" && r.Chance(1, 5) {
				pl = make([]byte, r.Pick(1461, 1500, 1460, 1459))
				for k := range pl {
					pl[k] = byte(r.U64())
				}
			}
			if cl == "guards" && r.Chance(1, 4) {
				h.P, h.Pad = true, 0 // padding bit without size: the RTX form looks at the last payload byte
			}
			if cl == "rtxpad" && !r.Chance(1, 4) {
				h.P, h.Pad = true, 0
				n := r.Pick(1, 2, 255, 1460, 1, 2, 255, 3, 8, 254, 256, r.Range(1, 300))
				pl = make([]byte, n)
				for k := range pl {
					pl[k] = byte(r.U64())
				}
				// the padding count (last payload byte): below, equal to, above the payload length, and the extremes
				tail := r.Pick(n-1, n, n, n+1, 0, 1, 255, r.Intn(256))
				if tail > 255 { // not representable: such a payload can only be "below"
					tail = r.Pick(255, 254, 0)
				}
				pl[n-1] = byte(tail)
			}
			if cl == "bigfec" && !r.Chance(1, 5) {
				// a long header and a payload that brings the marshalled packet to the drawn size
				if len(h.CC) < 8 {
					h.CC = nil
					for k := r.Range(8, 15); k > 0; k-- {
						h.CC = append(h.CC, int(r.U64()&0xFFFFFFFF))
					}
				}
				if !r.Chance(1, 4) {
					h.P, h.Pad = false, 0
				}
				size := r.Pick(1500, 1501, 1502, 1504, 1508, 1511, 1512, 1513, 1499, 1490, 1524, r.Range(1488, 1530))
				n := r.Range(1440, 1472)
				if rh, okh := parseHdr(kvOf(h.String())); okh {
					pad := 0
					if h.P {
						pad = h.Pad
					}
					if k := size - rh.MarshalSize() - pad; k > 0 {
						n = k
					}
				}
				pl = make([]byte, n)
				for k := range pl {
					pl[k] = byte(r.U64())
				}
			}
			sentSeqs[g.ssrc] = append(sentSeqs[g.ssrc], uint16(h.Seq))
			bn := r.Pick(len(pl), len(pl)+12, 0, 1500)
			if cl == "paced" {
				ops = append(ops, fmt.Sprintf("pw s=%d %s pl=%s bn=%d bf=0 if=0 at=%d", s, h.String(), hexs(pl), bn, r.Intn(5)))
				continue
			}
			ops = append(ops, fmt.Sprintf("w s=%d %s pl=%s bn=%d bf=%d if=%d at=%d", s, h.String(), hexs(pl), bn, b01(r.Chance(1, faultP)), b01(r.Chance(1, faultP)), r.Intn(5)))
		case kind == 1 || kind == 4: // RTP read
			s := r.Intn(nr)
			g := rs[s]
			hk := r.Pick(0, 1, 2, 1, 2, 3)
			h := genHdr(r, hk, twOf(g))
			// only shapes that survive marshal -> unmarshal unchanged
			h.V = 2
			if h.PT > 127 {
				h.PT &= 127
			}
			var ext []extElem
			for _, e := range h.Ext {
				if h.Prof == 0xBEDE && len(e.Payload) == 0 {
					continue
				}
				ext = append(ext, e)
			}
			h.Ext = ext
			if hk == 3 && len(h.Ext) > 0 && len(h.Ext[0].Payload)%4 != 0 {
				h.Ext[0].Payload = h.Ext[0].Payload[:0]
			}
			if h.P && h.Pad == 0 {
				h.P = false
			}
			if !h.P {
				h.Pad = 0
			}
			h.SSRC = int(g.ssrc)
			h.Seq = g.seq & 0xFFFF
			g.seq += r.Pick(1, 1, 1, 2, 3, -1)
			pl := genPayload(r)
			// a transport-cc element that is too short for the twcc sender (excluded point)
			if (cl == "malformed" || cl == "guards") && twOf(g) != 0 && h.X && (h.Prof == 0xBEDE || h.Prof == 0x1000) && r.Chance(1, 4) {
				found := false
				for k := range h.Ext {
					if h.Ext[k].ID == twOf(g) {
						h.Ext[k].Payload = []byte{7}
						found = true
					}
				}
				if !found && (h.Prof == 0x1000 || twOf(g) <= 14) {
					h.Ext = append(h.Ext, extElem{ID: twOf(g), Payload: []byte{7}})
				}
			}
			rh, okh := parseHdr(kvOf(h.String()))
			trunc := -1
			ok := 1
			if okh {
				if wire, okw := wireOf(rh, pl); okw {
					if cl == "malformed" && r.Chance(1, 2) {
						hb, _ := rh.Marshal()
						trunc = r.Pick(0, 1, 3, 11, 12, 13, len(hb)-1, len(hb)-4, len(hb), len(hb)+1, r.Intn(len(wire)+1))
						if trunc < 0 {
							trunc = 0
						}
						if trunc > len(wire) {
							trunc = len(wire)
						}
						var ph rtp.Header
						if _, err := ph.Unmarshal(wire[:trunc]); err != nil {
							ok = 0
						}
					}
				}
			}
			ops = append(ops, fmt.Sprintf("r s=%d %s pl=%s trunc=%d ok=%d err=%d bn=%d at=%d", s, h.String(), hexs(pl), trunc, ok, b01(r.Chance(1, faultP)), r.Pick(0, 0, 7, 1500), r.Intn(5)))
			if cl == "malformed" && trunc < 0 && r.Chance(1, 3) {
				// the same packet again, cut inside its header: the application's buffer still holds the rest
				hb, _ := rh.Marshal()
				cut := r.Pick(12, len(hb)-4, len(hb)-1, 13)
				if cut < 0 {
					cut = 0
				}
				wire, _ := wireOf(rh, pl)
				if cut > len(wire) {
					cut = len(wire)
				}
				ok2 := 1
				var ph rtp.Header
				if _, err := ph.Unmarshal(wire[:cut]); err != nil {
					ok2 = 0
				}
				ops = append(ops, fmt.Sprintf("r s=%d %s pl=%s trunc=%d ok=%d err=0 bn=0 at=%d", s, h.String(), hexs(pl), cut, ok2, r.Intn(5)))
			}
		case kind == 5: // application RTCP write
			raw := c01RTCP(r, lssrcs, nil, false)
			ops = append(ops, fmt.Sprintf("cw pk=%s bn=%d bf=%d at=%d", hexs(raw), r.Pick(len(raw), 0, 1), b01(r.Chance(1, faultP)), r.Intn(5)))
		case kind == 6 || kind == 8: // RTCP read
			raw := c01RTCP(r, lssrcs, sentSeqs, rtxIntoFec)
			ok := 1
			if cl == "malformed" && r.Chance(1, 2) {
				switch r.Intn(3) {
				case 0:
					raw = raw[:r.Intn(len(raw))]
				case 1:
					raw[0] ^= 0xC0
				case 2:
					raw = append(raw, 1, 2, 3)
				}
				if len(raw) == 0 {
					raw = []byte{0x80}
				}
				if _, err := rtcp.Unmarshal(raw); err != nil {
					ok = 0
				}
			}
			ops = append(ops, fmt.Sprintf("cr data=%s ok=%d err=%d bn=%d at=%d", hexs(raw), ok, b01(r.Chance(1, faultP)), r.Pick(0, 0, 9, 1500), r.Intn(5)))
		case kind == 7:
			ops = append(ops, fmt.Sprintf("adv ms=%d", r.Pick(1, 20, 100, 100, 1000, 3000, 30000)))
		default:
			ops = append(ops, fmt.Sprintf("adv ms=%d", r.Pick(5, 50, 200)))
		}
	}
	// ---- lifecycle
	for s := 0; s < nl; s++ {
		if r.Chance(1, 2) {
			ops = append(ops, fmt.Sprintf("ul s=%d", s))
		}
	}
	for s := 0; s < nr; s++ {
		if r.Chance(1, 2) {
			ops = append(ops, fmt.Sprintf("ur s=%d", s))
		}
	}
	if r.Chance(1, 3) {
		ops = append(ops, "adv ms=150")
	}
	ops = append(ops, "close")
	return Case{Class: cl, Ops: ops}
}

func kvOf(s string) map[string]string {
	_, m := kv("x " + s)
	return m
}

func init() {
	register("chain", &Comp{
		N: func(tier string) int {
			if tier == "thorough" {
				return 20000
			}
			return 400
		},
		Gen: c01Gen,
		Run: c01Run,
	})
}

package corr

// C14 — FlexFEC-03 encoder (`flexenc`) and FEC interceptor (`flexint`).
//
// Line protocol
//
//	flexenc:  new pt=<0..255> ssrc=<u32> [enc=<k>: several encoders side by side, default 0]
//	          batch fec=<numFec 0..110> pkts=<hex,hex,…|-> [var=<one digit per packet>] [enc=<k>] [bad=<pos>:<kind>,…: see c14Damage]
//	                                                            (each hex = one marshalled RTP packet)
//	            var: how the rtp.Packet VALUE handed to EncodeFec expresses the same marshalled bytes
//	              0 as Unmarshal leaves it   1 padding size only in the deprecated rtp.Packet.PaddingSize
//	              2 Header.PaddingSize set and a different junk value in rtp.Packet.PaddingSize
//	              3 junk in the deprecated Raw / PayloadOffset fields, nil vs empty CSRC swapped
//	              4 (round 10) P bit clear and the trailing zero bytes of the payload expressed as Header.PaddingSize:
//	                pion/rtp counts them in MarshalSize and Marshal() leaves them zero, MarshalTo writes nothing there —
//	                an encoder that marshals into a reused scratch buffer must have cleared it (no-op without trailing zeros)
//	            (the marshalled bytes, hence the model's input, are identical for all of them)
//	            → `nil`                                         EncodeFec returned nil
//	            → `fecs n=<k>` then k × `fec ssrc= pt= seq= ts= m= x= p= cc= payload=<hex>`
//	flexint:  new n=<numMedia> f=<numFec> ssrc=<media ssrc> fpt=<fec pt> fssrc=<fec ssrc> [twid=<1..14: the stream negotiated the TWCC extension with this id>]
//	          w pkt=<hex> [reuse=1] [fail=<i,j,…>] [wire=1: print the calls without the packet bytes]
//	                      [bad=<kind>: the value written is pkt damaged so that pion/rtp cannot marshal it (c14Damage);
//	                       its call of the bottom writer prints `out ssrc= pt= seq= bad=<kind> res=`]
//	            → one `out ssrc= pt= seq= pkt=<hex of the marshalled packet> res=<ok|fail>` per call of
//	              the bottom writer, in order (failed calls included)
//	            → `ret n=<int> err=<number of injected errors in the returned error, 0 = nil>`
//	            fail: the bottom writer returns (0, error) on its i-th, j-th … call during this Write
//	              (0 = the media packet, 1.. = the repair packets that follow it)
//
// The wire check (every flexint case): each repair packet that reaches the bottom writer is parsed per
// draft-ietf-payload-flexible-fec-scheme-03 (SN base + masks) and the draft's recovery is run against the media
// packets AS THEY REACHED THE BOTTOM WRITER, once per named packet; `FEC-DECODE-FAIL …` when a packet is not
// rebuilt byte for byte (the decoder below shares no code with the encoder or the model).
//
// The ambient (class `wire`): the FEC interceptor is one member of a chain, as behind interceptor.Registry, with the
// TWCC header-extension interceptor registered AFTER it on a stream that negotiated the extension (`new … twid=<id>`),
// plus transparent neighbours.  The later-registered member is the outer writer: it stamps the transport-wide
// sequence number first, the FEC interceptor then protects the header exactly as it goes to the network, and the
// repair packets — written by the FEC interceptor to ITS next writer — are not stamped.  The model does not know the
// stamp, so these cases print the calls of the bottom writer without the bytes (`w … wire=1`); the wire check is what
// ties the repair packets to the media packets.  (Registered BEFORE the FEC interceptor the header extension would be
// written after the protection was computed, on media and repair packets alike: an application error, not generated.)
//
// The consumer appends (every case of both components): a payload slice handed out — to the bottom writer of `flexint`,
// media and repair packets alike, and to the caller of EncodeFec for `flexenc` — belongs to its receiver, which builds
// the wire packet in place the way SRTP does, `append(payload, tag...)` with a 16-byte tag (c14AppendTag), right after it
// has recorded what it was handed and before the next packet is written / looked at.  A repair packet must still be
// what the model says whatever was done to the packets delivered before it ("every repair packet recovers …").
//
// With reuse=1 the caller owns ONE raw buffer and ONE rtp.Packet object: the packet is unmarshalled
// into them, written, and the raw buffer and CSRC array are overwritten with 0xEE as soon as Write
// returns (C13: an interceptor must not keep the caller's slices).
//
// Packets whose re-marshalling by pion/rtp differs from the given hex are outside the domain of the
// model (which identifies a media packet with its marshalled bytes): `err:noncanonical`.

import (
	"encoding/binary"
	"encoding/hex"
	"fmt"
	"reflect"
	"strings"
	"testing"

	"github.com/pion/interceptor"
	"github.com/pion/interceptor/pkg/flexfec"
	"github.com/pion/rtp"
)

// ---------------------------------------------------------------------------------------
// packet generation

type c14Shape struct {
	csrcMax, extKind, padMax, payMin, payMax int // extKind: 0 none, 1 random mix, 2 RFC 8285 only (one- or two-byte)
	anyPT                                    bool
}

// c14Packet builds one canonical marshalled RTP packet.
func c14Packet(r *Rng, sh c14Shape, seq uint16, ts, ssrc uint32) []byte {
	p := rtp.Packet{}
	p.Version = 2
	p.SequenceNumber = seq
	p.Timestamp = ts
	p.SSRC = ssrc
	p.Marker = r.Chance(1, 3)
	if sh.anyPT {
		p.PayloadType = uint8(r.Intn(128))
	} else {
		p.PayloadType = 96
	}
	if sh.csrcMax > 0 && r.Chance(1, 2) {
		n := r.Range(1, sh.csrcMax)
		for i := 0; i < n; i++ {
			p.CSRC = append(p.CSRC, uint32(r.U64()))
		}
	}
	if sh.extKind != 0 && r.Chance(1, 2) {
		switch r.Intn(4 - sh.extKind) { // extKind 2: cases 0 and 1 only
		case 0: // RFC 8285 one-byte
			p.Extension = true
			p.ExtensionProfile = rtp.ExtensionProfileOneByte
			k := r.Range(0, 3)
			for i := 0; i < k; i++ {
				_ = p.SetExtension(uint8(1+i*3+r.Intn(3)), c14Bytes(r, r.Range(1, 16)))
			}
		case 1: // RFC 8285 two-byte
			p.Extension = true
			p.ExtensionProfile = rtp.ExtensionProfileTwoByte
			k := r.Range(0, 3)
			for i := 0; i < k; i++ {
				_ = p.SetExtension(uint8(1+i*50+r.Intn(50)), c14Bytes(r, r.Pick(0, 1, 2, 5, 17, 40)))
			}
		default: // RFC 3550 generic extension
			p.Extension = true
			p.ExtensionProfile = uint16(0x2000 + r.Intn(0x1000))
			_ = p.SetExtension(0, c14Bytes(r, 4*r.Range(0, 4)))
		}
	}
	p.Payload = c14Bytes(r, r.Range(sh.payMin, sh.payMax))
	if len(p.Payload) > 0 && r.Chance(1, 5) { // trailing zero bytes (silence, zero-filled tails): what `var` digit 4 re-expresses
		for z := r.Range(1, min(len(p.Payload), 16)); z > 0; z-- {
			p.Payload[len(p.Payload)-z] = 0
		}
	}
	if sh.padMax > 0 && r.Chance(1, 3) {
		p.Padding = true
		p.Header.PaddingSize = byte(r.Range(1, sh.padMax))
	}
	b1, err := p.Marshal()
	if err == nil {
		q := rtp.Packet{}
		if q.Unmarshal(b1) == nil {
			if b2, err2 := q.Marshal(); err2 == nil && string(b1) == string(b2) {
				return b1
			}
		}
	}
	// fallback (never expected): plain packet
	q := rtp.Packet{Header: rtp.Header{Version: 2, PayloadType: 96, SequenceNumber: seq, Timestamp: ts, SSRC: ssrc},
		Payload: []byte{1, 2, 3}}
	b, _ := q.Marshal()
	return b
}

func c14Bytes(r *Rng, n int) []byte {
	b := make([]byte, n)
	for i := 0; i < n; i += 8 {
		v := r.U64()
		for k := 0; k < 8 && i+k < n; k++ {
			b[i+k] = byte(v >> (8 * k))
		}
	}
	return b
}

func c14Batch(r *Rng, sh c14Shape, n int, base uint16, ts, ssrc uint32) string {
	if n == 0 {
		return "-"
	}
	hs := make([]string, n)
	for i := 0; i < n; i++ {
		hs[i] = hex.EncodeToString(c14Packet(r, sh, base+uint16(i), ts+uint32(i)*uint32(r.Range(0, 3000)), ssrc))
	}
	return strings.Join(hs, ",")
}

var (
	c14Plain  = c14Shape{payMin: 0, payMax: 24}
	c14Tiny   = c14Shape{payMin: 0, payMax: 6}
	c14Shapes = c14Shape{csrcMax: 4, extKind: 1, padMax: 24, payMin: 0, payMax: 48, anyPT: true}
	c14Big    = c14Shape{csrcMax: 15, extKind: 1, padMax: 255, payMin: 0, payMax: 1500, anyPT: true}
)

func c14BaseSN(r *Rng, wrap bool, n int) uint16 {
	if wrap {
		return uint16(65536 - r.Range(0, n+1))
	}
	return uint16(r.Intn(65536))
}

// ---------------------------------------------------------------------------------------
// packets pion/rtp cannot marshal, and the short / padded packets that follow them
//
// The property speaks about every repair packet; a media packet that rtp.Packet.MarshalTo rejects cannot be protected
// (the unchanged encoder drops the repair packets that cover it: encodeFlexFecPacket returns false, no repair sequence
// number is consumed), but every OTHER repair packet — of the same batch, of later batches, of other encoders, which
// share nothing but the package-global pool of scratch buffers — must still recover its group byte for byte.  The
// packet VALUES below are what an application can build with the public API of pion/rtp (struct fields, SetExtension):
//
//	pad0     padding bit set, padding size 0                      (rejected before a byte is written)
//	gx<L>    extension under the generic profile 0x1234 with an L-byte payload, L % 4 != 0
//	         (rejected after the fixed header, the CSRCs and the profile were written)
//	gz<L>    the same under profile 0, as a first SetExtension with a payload of 256 bytes or more leaves it
//	ob0 ob15 one-byte extension with id 0 / 15,  tb0: two-byte extension with id 0
//	         (a first SetExtension does not check the id)
//
// The generator keeps a damage only when Marshal of the damaged value really fails with the pion/rtp in use (v1.10.5
// marshals the last three); the interpreter checks it again (`err:marshals`).  The damage keeps sequence number, SSRC,
// CSRCs, payload and payload type of the well-formed packet given in the op.

func c14Damage(p *rtp.Packet, kind string) bool {
	fill := func(n int) []byte {
		b := make([]byte, n)
		for i := range b {
			b[i] = byte(0xA5 + 7*i)
		}
		return b
	}
	reset := func() {
		p.Extension, p.ExtensionProfile, p.Extensions = false, 0, nil
	}
	switch {
	case kind == "pad0":
		p.Padding = true
		p.Header.PaddingSize = 0
		p.PaddingSize = 0 //nolint:staticcheck
	case strings.HasPrefix(kind, "gx"):
		l := atoi(kind[2:])
		if l < 1 || l > 4000 || l%4 == 0 {
			return false
		}
		reset()
		p.Extension, p.ExtensionProfile = true, 0x1234
		if p.SetExtension(0, fill(l)) != nil {
			return false
		}
	case strings.HasPrefix(kind, "gz"):
		l := atoi(kind[2:])
		if l < 256 || l > 4000 || l%4 == 0 {
			return false
		}
		reset()
		if p.SetExtension(0, fill(l)) != nil { // first extension, too long for RFC 8285: the profile stays 0
			return false
		}
	case kind == "ob0" || kind == "ob15":
		reset()
		if p.SetExtension(uint8(atoi(kind[2:])), fill(3)) != nil {
			return false
		}
	case kind == "tb0":
		reset()
		if p.SetExtension(0, fill(40)) != nil {
			return false
		}
	default:
		return false
	}
	return true
}

var c14DamageKinds = []string{"pad0", "pad0", "gx1", "gx2", "gx3", "gx5", "gx6", "gx7", "gx13", "gx258", "gx1499",
	"gz257", "gz258", "gz1501", "ob0", "ob15", "tb0"}

// c14Fails: does pion/rtp refuse to marshal the packet given by the canonical bytes b once damaged?
func c14Fails(b []byte, kind string) bool {
	p := rtp.Packet{}
	if p.Unmarshal(b) != nil || !c14Damage(&p, kind) {
		return false
	}
	_, err := p.Marshal()
	return err != nil
}

// c14Probe: the short and padded packets of a congestion controller's probing and of a stream that idles —
// padding only, one payload byte and 255 bytes of padding, a few bytes with a drawn amount of padding.
func c14Probe(r *Rng, seq uint16, ts, ssrc uint32) []byte {
	p := rtp.Packet{Header: rtp.Header{Version: 2, PayloadType: uint8(r.Pick(96, 96, 97, 127)), SequenceNumber: seq,
		Timestamp: ts, SSRC: ssrc, Padding: true, Marker: r.Chance(1, 4)}}
	switch r.Intn(5) {
	case 0:
		p.Header.PaddingSize = 255
	case 1:
		p.Payload = c14Bytes(r, 1)
		p.Header.PaddingSize = 255
	case 2:
		p.Header.PaddingSize = byte(r.Range(1, 40))
	case 3:
		p.Payload = c14Bytes(r, r.Range(0, 3))
		p.Header.PaddingSize = byte(r.Range(1, 255))
	default:
		p.CSRC = []uint32{uint32(r.U64())}
		p.Header.PaddingSize = byte(r.Range(60, 255))
	}
	b1, err := p.Marshal()
	if err == nil {
		q := rtp.Packet{}
		if q.Unmarshal(b1) == nil {
			if b2, err2 := q.Marshal(); err2 == nil && string(b1) == string(b2) {
				return b1
			}
		}
	}
	return c14Packet(r, c14Tiny, seq, ts, ssrc)
}

// shapes of the packets that get damaged (the damage replaces the extension): CSRCs, padding, short and long payloads
var (
	c14BadBase  = c14Shape{csrcMax: 15, padMax: 40, payMin: 0, payMax: 60, anyPT: true}
	c14BadLong  = c14Shape{csrcMax: 4, padMax: 8, payMin: 1380, payMax: 1600, anyPT: true}
	c14NearMTU  = c14Shape{csrcMax: 3, extKind: 2, padMax: 4, payMin: 1440, payMax: 1475, anyPT: true}
	c14Shortish = c14Shape{csrcMax: 2, extKind: 1, padMax: 255, payMin: 0, payMax: 12, anyPT: true}
)

// c14MixedBatch: n consecutive packets; `bad` of them (at drawn positions) are to be damaged, the others are probes
// (share probes/4) or packets of shape sh.  Returns the pkts= and the bad= values ("" when no damage survived).
func c14MixedBatch(r *Rng, sh c14Shape, n, bad, probes int, base uint16, ts, ssrc uint32) (string, string) {
	if n == 0 {
		return "-", ""
	}
	kinds := make([]string, n)
	for k := 0; k < bad; k++ {
		kinds[r.Intn(n)] = c14DamageKinds[r.Intn(len(c14DamageKinds))]
	}
	hs := make([]string, n)
	var bs []string
	for i := 0; i < n; i++ {
		seq, t := base+uint16(i), ts+uint32(i)*uint32(r.Range(0, 3000))
		var b []byte
		switch {
		case kinds[i] != "":
			bsh := c14BadBase
			if r.Chance(1, 6) {
				bsh = c14BadLong
			}
			b = c14Packet(r, bsh, seq, t, ssrc)
			if c14Fails(b, kinds[i]) {
				bs = append(bs, fmt.Sprintf("%d:%s", i, kinds[i]))
			}
		case r.Intn(4) < probes:
			b = c14Probe(r, seq, t, ssrc)
		default:
			b = c14Packet(r, sh, seq, t, ssrc)
		}
		hs[i] = hex.EncodeToString(b)
	}
	return strings.Join(hs, ","), strings.Join(bs, ",")
}

// ---------------------------------------------------------------------------------------
// flexenc

func c14GenEnc(r *Rng, tier string, idx int) Case {
	classes := []string{"small", "shapes", "sweep", "long", "big", "wide", "wrap", "reject", "shapes", "small", "sweep", "reuse",
		"unmarsh", "unmarsh", "unmarsh"}
	cl := classes[idx%len(classes)]
	if cl == "unmarsh" {
		return c14GenEncUnmarsh(r)
	}
	ops := []string{fmt.Sprintf("new pt=%d ssrc=%d", r.Pick(0, 49, 118, 127, 255, r.Intn(256)), uint32(r.U64()))}
	ssrc := uint32(r.U64())
	ts := uint32(r.U64())
	batch := func(sh c14Shape, n, f int, base uint16) {
		ops = append(ops, fmt.Sprintf("batch fec=%d pkts=%s", f, c14Batch(r, sh, n, base, ts, ssrc))+c14DrawVariants(r, n))
		ts += uint32(r.Intn(100000))
	}
	switch cl {
	case "small":
		base := c14BaseSN(r, false, 0)
		for k := r.Range(1, 4); k > 0; k-- {
			n := r.Range(1, 14)
			batch(c14Plain, n, r.Range(0, n+2), base)
			base += uint16(n)
		}
	case "shapes":
		base := c14BaseSN(r, r.Chance(1, 4), 10)
		for k := r.Range(1, 3); k > 0; k-- {
			n := r.Range(1, 10)
			batch(c14Shapes, n, r.Range(1, n+1), base)
			base += uint16(n)
		}
	case "sweep": // systematic walk over (n, f), tiny payloads
		k := idx / len(classes)
		n := (k*7)%110 + 1
		f := []int{1, 2, 3, 5, n / 2, n - 1, n, n + 1, 110, 0, (k * 13) % 111}[k%11]
		if f < 0 {
			f = 0
		}
		batch(c14Tiny, n, f, c14BaseSN(r, k%5 == 0, n))
	case "long": // >= 50 successive batches through one encoder, (n, f) varying and repeating
		base := c14BaseSN(r, r.Chance(1, 3), 200)
		n, f := r.Range(1, 6), r.Range(1, 3)
		for k := r.Range(50, 56); k > 0; k-- {
			if r.Chance(1, 3) {
				n, f = r.Range(1, 7), r.Range(0, 8)
			}
			sh := c14Tiny
			if r.Chance(1, 5) {
				sh = c14Shape{csrcMax: 2, extKind: 1, padMax: 12, payMin: 0, payMax: 16, anyPT: true}
			}
			batch(sh, n, f, base)
			base += uint16(n)
			if r.Chance(1, 10) {
				base += uint16(r.Range(1, 500)) // a new window; each batch itself stays consecutive
			}
		}
	case "big": // payload 0..1500 differing within the batch, all header shapes
		n := r.Range(1, 5)
		base := c14BaseSN(r, r.Chance(1, 4), n)
		batch(c14Big, n, r.Range(1, n), base)
		if r.Chance(1, 2) { // pooled scratch buffers: a second, shorter batch through the same encoder
			batch(c14Shape{padMax: 200, payMin: 0, payMax: 300, csrcMax: 2, extKind: 1}, n, r.Range(1, n), base+uint16(n))
		}
	case "wide":
		n := r.Pick(46, 47, 63, 64, 65, 90, 108, 109, 109, 110, r.Range(40, 110))
		f := r.Pick(1, 1, 2, 3, 7, n, 110, r.Range(1, 110))
		batch(c14Tiny, n, f, c14BaseSN(r, r.Chance(1, 3), n))
		if r.Chance(1, 3) {
			batch(c14Tiny, r.Range(1, 20), r.Range(1, 4), uint16(r.Intn(65536)))
		}
	case "wrap":
		n := r.Range(2, 20)
		base := uint16(65536 - r.Range(1, n))
		batch(c14Plain, n, r.Range(1, 4), base)
		batch(c14Plain, n, r.Range(1, 4), base+uint16(n))
	case "reuse": // equal shapes in a row (coverage table reused), then a change, then back
		n, f := r.Range(2, 16), r.Range(1, 5)
		base := c14BaseSN(r, false, 0)
		for _, d := range [][2]int{{n, f}, {n, f}, {n, f}, {n + 1, f}, {n, f}, {n, f + 1}, {n, f}, {n, f}} {
			batch(c14Plain, d[0], d[1], base)
			base += uint16(d[0])
		}
	case "reject": // outside the accepted inputs: must return nil and leave the encoder usable
		n := r.Range(2, 8)
		base := c14BaseSN(r, false, 0)
		batch(c14Plain, n, 2, base)
		hs := strings.Split(c14Batch(r, c14Plain, n, base+20, ts, ssrc), ",")
		switch r.Intn(4) {
		case 0: // swapped
			hs[0], hs[1] = hs[1], hs[0]
		case 1: // duplicate
			hs[1] = hs[0]
		case 2: // gap
			hs = append(hs[:1], hs[2:]...)
			if len(hs) < 2 {
				hs = append(hs, hs[0])
			}
		default: // empty
			hs = nil
		}
		if len(hs) == 0 {
			ops = append(ops, "batch fec=2 pkts=-")
		} else {
			ops = append(ops, "batch fec=2 pkts="+strings.Join(hs, ","))
		}
		batch(c14Plain, n, 2, base+40)
		if r.Chance(1, 2) { // more than the 109 packets the FlexFEC-03 mask can name
			batch(c14Tiny, r.Pick(110, 111, 120), r.Range(1, 3), base+100)
			batch(c14Plain, n, 2, base+300)
		}
	}
	return Case{Class: cl, Ops: ops}
}

// c14GenEncUnmarsh — class `unmarsh`: one to three encoders (streams) side by side; batches with packets pion/rtp cannot
// marshal — every way it can fail, at every position of the batch, next to well-formed packets of every shape including
// those larger than the scratch buffer — are followed by batches of short and padded packets on the same and on the
// other encoders.
func c14GenEncUnmarsh(r *Rng) Case {
	type stream struct {
		seq  uint16
		ts   uint32
		ssrc uint32
	}
	nEnc := r.Range(1, 3)
	var ops []string
	st := make([]stream, nEnc)
	for k := range st {
		ops = append(ops, fmt.Sprintf("new pt=%d ssrc=%d enc=%d", r.Pick(49, 118, 127, r.Intn(256)), uint32(r.U64()), k))
		st[k] = stream{seq: c14BaseSN(r, r.Chance(1, 4), 20), ts: uint32(r.U64()), ssrc: uint32(r.U64())}
	}
	afterBad := false
	for round := r.Range(2, 7); round > 0; round-- {
		k := r.Intn(nEnc)
		s := &st[k]
		n := r.Range(1, 8)
		f := r.Range(1, n+1)
		if r.Chance(1, 8) {
			n, f = r.Pick(15, 16, 47, 60), r.Range(1, 4)
		}
		what := r.Intn(5)
		if afterBad && r.Chance(3, 4) {
			what = 3
		}
		var pk, bad string
		switch what {
		case 0, 1: // unmarshallable packets among well-formed ones
			sh := []c14Shape{c14Shapes, c14Shortish, c14Tiny, c14NearMTU, c14Big}[r.Intn(5)]
			if n > 8 {
				sh = c14Shortish
			}
			pk, bad = c14MixedBatch(r, sh, n, r.Range(1, 2), r.Intn(3), s.seq, s.ts, s.ssrc)
		case 2: // every packet of the batch
			pk, bad = c14MixedBatch(r, c14Tiny, n, 3*n, 0, s.seq, s.ts, s.ssrc)
		case 3: // short and padded packets only
			pk, _ = c14MixedBatch(r, c14Shortish, n, 0, r.Range(2, 4), s.seq, s.ts, s.ssrc)
		default:
			pk, _ = c14MixedBatch(r, c14Shapes, n, 0, 1, s.seq, s.ts, s.ssrc)
		}
		op := fmt.Sprintf("batch fec=%d pkts=%s enc=%d", f, pk, k) + c14DrawVariants(r, n)
		if bad != "" {
			op += " bad=" + bad
		}
		afterBad = bad != ""
		ops = append(ops, op)
		s.seq += uint16(n)
		s.ts += uint32(r.Intn(100000))
	}
	return Case{Class: "unmarsh", Ops: ops}
}

func c14ParsePkts(s string) ([]rtp.Packet, bool) {
	if s == "-" || s == "" {
		return nil, true
	}
	var ps []rtp.Packet
	for _, h := range strings.Split(s, ",") {
		b, err := hex.DecodeString(h)
		if err != nil {
			return nil, false
		}
		p := rtp.Packet{}
		if p.Unmarshal(b) != nil {
			return nil, false
		}
		if b2, err := p.Marshal(); err != nil || string(b2) != string(b) {
			return nil, false
		}
		ps = append(ps, p)
	}
	return ps, true
}

// c14ApplyVariants rewrites each packet VALUE into another representation of the same marshalled
// bytes (checked), as drawn per packet by the generator.
func c14ApplyVariants(ps []rtp.Packet, vs string) bool {
	if vs == "" {
		return true
	}
	if len(vs) != len(ps) {
		return false
	}
	for i := range ps {
		p := &ps[i]
		want, err := p.Marshal()
		if err != nil {
			return false
		}
		switch vs[i] {
		case '0':
		case '1':
			if p.Header.Padding {
				p.PaddingSize = p.Header.PaddingSize //nolint:staticcheck
				p.Header.PaddingSize = 0
			}
		case '2':
			if p.Header.Padding {
				p.PaddingSize = p.Header.PaddingSize ^ 0x5A //nolint:staticcheck
			}
		case '3':
			p.Raw = []byte{0xDE, 0xAD, 0xBE, 0xEF} //nolint:staticcheck
			p.PayloadOffset = 7                    //nolint:staticcheck
			if len(p.CSRC) == 0 {
				if p.CSRC == nil {
					p.CSRC = []uint32{}
				} else {
					p.CSRC = nil
				}
			}
		case '4':
			if !p.Header.Padding && p.Header.PaddingSize == 0 && p.PaddingSize == 0 { //nolint:staticcheck
				z := 0
				for z < len(p.Payload) && z < 255 && p.Payload[len(p.Payload)-1-z] == 0 {
					z++
				}
				if z > 0 {
					p.Payload = p.Payload[:len(p.Payload)-z]
					p.Header.PaddingSize = byte(z)
				}
			}
		default:
			return false
		}
		got, err := p.Marshal()
		if err != nil || string(got) != string(want) {
			return false
		}
	}
	return true
}

// c14DrawVariants draws the representation of every packet of a batch.
func c14DrawVariants(r *Rng, n int) string {
	if n == 0 {
		return ""
	}
	mode := r.Intn(4) // 0: all as parsed, 1: all legacy padding, 2/3: mixed
	b := make([]byte, n)
	for i := range b {
		switch mode {
		case 0:
			b[i] = '0'
		case 1:
			b[i] = '1'
		default:
			b[i] = byte('0' + r.Intn(5))
		}
	}
	return " var=" + string(b)
}

func b2i(b bool) int {
	if b {
		return 1
	}
	return 0
}

func c14RunEnc(t *testing.T, ops []string, o *Out) {
	encs := map[int]*flexfec.FlexEncoder03{} // `enc=<k>`, default 0: several encoders (streams) side by side
	// the repair packets EncodeFec returned are the caller's (it may pace them out after encoding later batches): every
	// packet is kept as the element of the returned slice — header and payload by reference — and re-rendered after
	// every later op (retain_test.go)
	defer o.EndKept()
	nBatch := 0
	for _, op := range ops {
		o.CheckKept()
		name, m := kv(op)
		switch name {
		case "new":
			pt, ssrc := atoi(m["pt"]), atoi(m["ssrc"])
			if pt < 0 || pt > 255 || ssrc < 0 || ssrc > 0xFFFFFFFF {
				o.P("bad-op")
				continue
			}
			ek := 0
			if v, ok := m["enc"]; ok {
				ek = atoi(v)
			}
			encs[ek] = flexfec.NewFlexEncoder03(uint8(pt), uint32(ssrc))
		case "batch":
			f := atoi(m["fec"])
			ek := 0
			if v, ok := m["enc"]; ok {
				ek = atoi(v)
			}
			enc := encs[ek]
			if enc == nil || f < 0 || f > 110 {
				o.P("bad-op")
				continue
			}
			ps, ok := c14ParsePkts(m["pkts"])
			if !ok {
				o.P("err:noncanonical")
				continue
			}
			if !c14ApplyVariants(ps, m["var"]) {
				o.P("err:noncanonical")
				continue
			}
			// bad=<pos>:<kind>,…: these packet values are damaged so that pion/rtp cannot marshal them
			badOK := true
			if bs, ok := m["bad"]; ok && bs != "-" {
				for _, e := range strings.Split(bs, ",") {
					pos, kind, found := strings.Cut(e, ":")
					i := atoi(pos)
					if !found || i < 0 || i >= len(ps) || !c14Damage(&ps[i], kind) {
						badOK = false
						break
					}
					if _, err := ps[i].Marshal(); err == nil {
						badOK = false
						o.P("err:marshals")
						break
					}
				}
			}
			if !badOK {
				o.P("bad-op")
				continue
			}
			fecs := enc.EncodeFec(ps, uint32(f))
			if fecs == nil {
				o.P("nil")
				continue
			}
			o.P("fecs n=%d", len(fecs))
			for _, fp := range fecs {
				o.P("fec ssrc=%d pt=%d seq=%d ts=%d m=%d x=%d p=%d cc=%d payload=%s", fp.SSRC, fp.PayloadType,
					fp.SequenceNumber, fp.Timestamp, b2i(fp.Marker), b2i(fp.Extension), b2i(fp.Padding), len(fp.CSRC), hexs(fp.Payload))
				// the packet is the caller's now: it builds the wire packet in place (SRTP-style `append(payload, tag...)`)
				// before it looks at the next one.  The other packets of the batch are unaffected.
				c14AppendTag(fp.Payload)
			}
			nBatch++
			for i := range fecs {
				fp := &fecs[i]
				o.keepCost(fmt.Sprintf("batch#%d/fec%d", nBatch, i), len(fp.Payload), func() string { return renderRTPKept(&fp.Header, fp.Payload) })
			}
		default:
			o.P("bad-op")
		}
	}
}

// ---------------------------------------------------------------------------------------
// flexint

func c14GenInt(r *Rng, tier string, idx int) Case {
	classes := []string{"plain", "shapes", "scribble", "foreign", "gaps", "passthrough", "scribble", "widebatch",
		"faults", "faults", "wire", "unmarsh", "unmarsh"}
	cl := classes[idx%len(classes)]
	if cl == "unmarsh" {
		return c14GenIntUnmarsh(r)
	}
	n := r.Range(1, 9)
	f := r.Range(0, n+1)
	if cl == "widebatch" {
		n = r.Pick(46, 64, 100, 109, 110)
		f = r.Pick(1, 2, 5)
	}
	ssrc := uint32(r.U64())
	fssrc := uint32(r.U64()) | 1
	fpt := r.Range(1, 127)
	if cl == "passthrough" || (cl == "faults" && r.Chance(1, 8)) {
		if r.Bool() {
			fpt = 0
		} else {
			fssrc = 0
		}
	}
	ops := []string{fmt.Sprintf("new n=%d f=%d ssrc=%d fpt=%d fssrc=%d", n, f, ssrc, fpt, fssrc)}
	sh := c14Plain
	wire := ""
	if cl == "wire" {
		// in a chain; the TWCC header-extension interceptor registered after the FEC interceptor (= further out)
		ops[0] += fmt.Sprintf(" twid=%d", r.Range(1, 14))
		before := []string{"", "", "noop", "stats", "dumps"}[r.Intn(5)]
		after := []string{"hdr", "hdr", "hdr,noop", "stats,hdr", "hdr,stats", "noop,hdr,dumps"}[r.Intn(6)]
		ops = append([]string{ambOp(before, after, true, false, false, false)}, ops...)
		wire = " wire=1"
		if r.Chance(2, 3) {
			sh = c14Shape{csrcMax: 3, extKind: 2, padMax: 16, payMin: 0, payMax: 40, anyPT: true}
		}
	}
	switch cl {
	case "shapes", "scribble":
		sh = c14Shape{csrcMax: 3, extKind: 1, padMax: 16, payMin: 0, payMax: 40, anyPT: true}
	case "faults":
		if r.Bool() {
			sh = c14Shape{csrcMax: 2, extKind: 1, padMax: 8, payMin: 0, payMax: 24, anyPT: true}
		}
	case "widebatch":
		sh = c14Tiny
	}
	total := n*r.Range(1, 4) + r.Range(0, n-1)
	if cl == "widebatch" {
		total = n + r.Range(0, 5)
	}
	seq := c14BaseSN(r, r.Chance(1, 4), total)
	ts := uint32(r.U64())
	suffix := ""
	if cl == "scribble" {
		suffix = " reuse=1"
	}
	// faults: the next writer fails at drawn calls — on media writes inside a batch, on the media
	// write that completes a batch, on any subset of the repair-packet writes that follow it, on
	// packets of other SSRCs and on unconfigured streams.
	drawFail := func(completing bool) string {
		pick := func(xs ...string) string { return xs[r.Intn(len(xs))] }
		if completing {
			last := fmt.Sprintf("%d", f)
			var sub []string
			for k := 0; k <= f; k++ {
				if r.Chance(1, 3) {
					sub = append(sub, fmt.Sprintf("%d", k))
				}
			}
			subset := strings.Join(sub, ",")
			if subset == "" {
				subset = "0"
			}
			return pick("", "", " fail=0", " fail=0", " fail=1", " fail=0,1", " fail="+last, " fail="+subset, " fail=0,"+last)
		}
		return pick("", "", "", " fail=0", " fail=1", " fail=0,1", " fail=7")
	}
	for i := 0; i < total; i++ {
		if (cl == "foreign" || cl == "faults" || cl == "wire") && r.Chance(1, 4) {
			fs := wire
			if cl == "faults" {
				fs = drawFail(false)
			}
			ops = append(ops, "w pkt="+hex.EncodeToString(c14Packet(r, sh, uint16(r.Intn(65536)), ts, ssrc+1+uint32(r.Intn(3))))+fs)
		}
		if cl == "wire" {
			suffix = wire
			if r.Chance(1, 4) {
				suffix += drawFail((i+1)%n == 0)
			}
			if r.Chance(1, 6) {
				suffix += " reuse=1"
			}
		}
		if cl == "faults" {
			suffix = drawFail((i+1)%n == 0)
			if r.Chance(1, 6) {
				suffix += " reuse=1"
			}
		}
		if cl == "gaps" && r.Chance(1, 6) {
			seq += uint16(r.Range(1, 3))
		}
		ops = append(ops, "w pkt="+hex.EncodeToString(c14Packet(r, sh, seq, ts, ssrc))+suffix)
		seq++
		ts += uint32(r.Intn(3000))
	}
	return Case{Class: cl, Ops: ops}
}

// c14GenIntUnmarsh — class `unmarsh`: the application writes packet values pion/rtp cannot marshal (see c14Damage) in
// between well-formed ones, followed by short and padded packets; on the protected stream, on other SSRCs through the
// same writer, with a next writer that fails at drawn calls.  The interceptor forwards them like any packet; the repair
// packets that would cover one are not produced, all others recover their group (wire check) and equal the model's.
func c14GenIntUnmarsh(r *Rng) Case {
	n := r.Range(1, 7)
	f := r.Range(1, n+1)
	ssrc := uint32(r.U64())
	fssrc := uint32(r.U64()) | 1
	fpt := r.Range(1, 127)
	ops := []string{fmt.Sprintf("new n=%d f=%d ssrc=%d fpt=%d fssrc=%d", n, f, ssrc, fpt, fssrc)}
	total := n*r.Range(2, 6) + r.Range(0, n-1)
	seq := c14BaseSN(r, r.Chance(1, 4), total)
	ts := uint32(r.U64())
	pBad := r.Pick(1, 1, 2, 3) // of 8
	for i := 0; i < total; i++ {
		if r.Chance(1, 6) { // another SSRC through the same writer, possibly unmarshallable too
			b := c14Packet(r, c14BadBase, uint16(r.Intn(65536)), ts, ssrc+1+uint32(r.Intn(3)))
			op := "w pkt=" + hex.EncodeToString(b)
			if k := c14DamageKinds[r.Intn(len(c14DamageKinds))]; r.Bool() && c14Fails(b, k) {
				op += " bad=" + k
			}
			ops = append(ops, op)
		}
		var op string
		switch x := r.Intn(8); {
		case x < pBad:
			sh := c14BadBase
			if r.Chance(1, 8) {
				sh = c14BadLong
			}
			b := c14Packet(r, sh, seq, ts, ssrc)
			op = "w pkt=" + hex.EncodeToString(b)
			if k := c14DamageKinds[r.Intn(len(c14DamageKinds))]; c14Fails(b, k) {
				op += " bad=" + k
			}
		case x < 5:
			op = "w pkt=" + hex.EncodeToString(c14Probe(r, seq, ts, ssrc))
		default:
			sh := []c14Shape{c14Shortish, c14Shapes, c14Tiny, c14NearMTU}[r.Intn(4)]
			op = "w pkt=" + hex.EncodeToString(c14Packet(r, sh, seq, ts, ssrc))
		}
		if r.Chance(1, 8) {
			op += c14PickS(r, " fail=0", " fail=1", " fail=0,1", fmt.Sprintf(" fail=%d", f))
		}
		if r.Chance(1, 6) && !strings.Contains(op, " bad=") {
			op += " reuse=1"
		}
		ops = append(ops, op)
		seq++
		ts += uint32(r.Intn(3000))
	}
	return Case{Class: "unmarsh", Ops: ops}
}

func c14PickS(r *Rng, xs ...string) string { return xs[r.Intn(len(xs))] }

// c14InjectedError is what the failing bottom writer returns.
type c14InjectedError struct{ call int }

func (e *c14InjectedError) Error() string { return fmt.Sprintf("injected failure of call %d", e.call) }

// c14CountInjected counts the injected errors carried by err (through errors.Join / wrapping);
// a non-nil error that carries none counts as 1000 (never produced by the model).
func c14CountInjected(err error) int {
	if err == nil {
		return 0
	}
	if _, ok := err.(*c14InjectedError); ok { //nolint:errorlint
		return 1
	}
	n := 0
	switch u := err.(type) { //nolint:errorlint
	case interface{ Unwrap() []error }:
		for _, e := range u.Unwrap() {
			n += c14CountInjected(e)
		}
	case interface{ Unwrap() error }:
		n = c14CountInjected(u.Unwrap())
	}
	if n == 0 {
		return 1000
	}
	return n
}

// c14Protected parses the FlexFEC-03 header at the start of a repair packet's payload: the sequence numbers named
// by SN base + masks, and the header length (draft-ietf-payload-flexible-fec-scheme-03, section 4.2).
func c14Protected(p []byte, mediaSSRC uint32) (seqs []uint16, hdrLen int, err string) {
	if len(p) < 20 {
		return nil, 0, "shorter than the 20-byte FEC header"
	}
	if p[0]&0xC0 != 0 {
		return nil, 0, "R/F bits set"
	}
	if p[8] != 1 || binary.BigEndian.Uint32(p[12:16]) != mediaSSRC {
		return nil, 0, fmt.Sprintf("SSRC count %d / protected SSRC %d", p[8], binary.BigEndian.Uint32(p[12:16]))
	}
	base := binary.BigEndian.Uint16(p[16:18])
	m1 := binary.BigEndian.Uint16(p[18:20])
	for j := 0; j < 15; j++ {
		if m1&(1<<(14-j)) != 0 {
			seqs = append(seqs, base+uint16(j))
		}
	}
	hdrLen = 20
	if m1&0x8000 == 0 {
		if len(p) < 24 {
			return nil, 0, "k bit clear but no second mask"
		}
		m2 := binary.BigEndian.Uint32(p[20:24])
		for j := 0; j < 31; j++ {
			if m2&(1<<(30-j)) != 0 {
				seqs = append(seqs, base+15+uint16(j))
			}
		}
		hdrLen = 24
		if m2&0x80000000 == 0 {
			if len(p) < 32 {
				return nil, 0, "k bit clear but no third mask"
			}
			m3 := binary.BigEndian.Uint64(p[24:32])
			for j := 0; j < 63; j++ {
				if m3&(1<<(62-j)) != 0 {
					seqs = append(seqs, base+46+uint16(j))
				}
			}
			hdrLen = 32
		}
	}
	if len(seqs) == 0 {
		return nil, 0, "empty mask"
	}
	return seqs, hdrLen, ""
}

// c14Recover: section 6.3 of the draft — rebuild the packet `missing` from the repair payload and the other
// protected packets (marshalled, as they went to the network).
func c14Recover(repair []byte, hdrLen int, others [][]byte, missing uint16) []byte {
	var b01 [2]byte
	var ts [4]byte
	copy(b01[:], repair[0:2])
	copy(ts[:], repair[4:8])
	length := binary.BigEndian.Uint16(repair[2:4])
	body := append([]byte(nil), repair[hdrLen:]...)
	for _, m := range others {
		b01[0] ^= m[0]
		b01[1] ^= m[1]
		length ^= uint16(len(m) - 12)
		for i := 0; i < 4; i++ {
			ts[i] ^= m[4+i]
		}
		for i := 12; i < len(m) && i-12 < len(body); i++ {
			body[i-12] ^= m[i]
		}
	}
	if int(length) > len(body) {
		return nil
	}
	out := make([]byte, 12, 12+int(length))
	out[0] = b01[0]&0x3F | 0x80
	out[1] = b01[1]
	binary.BigEndian.PutUint16(out[2:4], missing)
	copy(out[4:8], ts[:])
	copy(out[8:12], repair[12:16])
	return append(out, body[:length]...)
}

func c14RunInt(t *testing.T, ops []string, o *Out) {
	var w interceptor.RTPWriter
	var icpt interceptor.Interceptor
	var mediaSSRC, fecSSRC uint32
	var fecPT uint8
	onWire := map[uint16][]byte{} // media packets of the protected stream as they reached the bottom writer, by sequence number
	wireMode := false             // the current Write prints its calls without the bytes
	// wireCheck: a repair packet must rebuild each packet it names from the others — the packets as sent
	wireCheck := func(seq uint16, payload []byte) {
		seqs, hl, perr := c14Protected(payload, mediaSSRC)
		if perr != "" {
			o.P("FEC-DECODE-FAIL repair seq=%d: %s", seq, perr)
			return
		}
		for _, s := range seqs {
			if onWire[s] == nil {
				o.P("FEC-DECODE-FAIL repair seq=%d names media packet %d, which never reached the writer", seq, s)
				return
			}
		}
		for _, miss := range seqs {
			var others [][]byte
			for _, s := range seqs {
				if s != miss {
					others = append(others, onWire[s])
				}
			}
			if got := c14Recover(payload, hl, others, miss); string(got) != string(onWire[miss]) {
				o.P("FEC-DECODE-FAIL repair seq=%d protecting %s: media packet %d as sent is %s, recovered %s",
					seq, joinInts(seqs), miss, hexs(onWire[miss]), hexs(got))
				return
			}
		}
	}
	raw := make([]byte, 4096) // the caller's single buffer (reuse=1)
	shared := &rtp.Packet{}   // the caller's single packet object (reuse=1)
	var failAt map[int]bool   // calls of the bottom writer that fail during the current Write
	call := 0
	nRepair := 0
	defer o.EndKept()
	// the packet value of a `w … bad=<kind>`: pion/rtp cannot marshal it, so the call that forwards it is printed by its
	// kind, once the header and payload handed down are seen to be the ones written
	var curBad string
	var curBadPkt *rtp.Packet
	bottom := interceptor.RTPWriterFunc(func(h *rtp.Header, p []byte, _ interceptor.Attributes) (int, error) {
		idx := call
		call++
		if curBad != "" && idx == 0 {
			res := "ok"
			if failAt[idx] {
				res = "fail"
			}
			want := curBadPkt.Header
			if !reflect.DeepEqual(c14NormHdr(*h), c14NormHdr(want)) || string(p) != string(curBadPkt.Payload) {
				o.P("MEDIA-ALTERED seq=%d: the unmarshallable packet reached the next writer as %+v / %s", h.SequenceNumber, *h, hexs(p))
			}
			o.P("out ssrc=%d pt=%d seq=%d bad=%s res=%s", h.SSRC, h.PayloadType, h.SequenceNumber, curBad, res)
			if failAt[idx] {
				return 0, &c14InjectedError{idx}
			}
			return len(p), nil
		}
		buf := make([]byte, h.MarshalSize()+len(p)+int(h.PaddingSize))
		k, err := rtp.MarshalPacketTo(buf, h, p) //nolint:staticcheck
		if err != nil {
			o.P("out err:marshal")
			return 0, nil
		}
		res := "ok"
		if failAt[idx] {
			res = "fail"
		}
		if wireMode {
			o.P("out ssrc=%d pt=%d seq=%d res=%s", h.SSRC, h.PayloadType, h.SequenceNumber, res)
		} else {
			o.P("out ssrc=%d pt=%d seq=%d pkt=%s res=%s", h.SSRC, h.PayloadType, h.SequenceNumber, hexs(buf[:k]), res)
		}
		switch {
		case fecSSRC == 0 || fecPT == 0: // FEC not configured for the stream
		case h.SSRC == mediaSSRC:
			onWire[h.SequenceNumber] = append([]byte(nil), buf[:k]...)
		case h.SSRC == fecSSRC && h.PayloadType == fecPT:
			wireCheck(h.SequenceNumber, append([]byte(nil), p...))
			// a repair packet is made by the interceptor, for this one Write: what reached the writer stays what it was
			// while later media packets are protected (retain_test.go)
			nRepair++
			o.KeepRTP(fmt.Sprintf("repair#%d/seq%d", nRepair, h.SequenceNumber), h, p)
		}
		// the consumer below builds the wire packet in place (SRTP-style `append(payload, tag...)`), for media and repair
		// packets alike, before the next packet is written: packets written later are unaffected
		c14AppendTag(p)
		if failAt[idx] {
			return 0, &c14InjectedError{idx}
		}
		return len(p), nil
	})
	defer func() {
		o.CheckKeptAll()
		if icpt != nil {
			_ = icpt.Close()
		}
	}()
	for _, op := range ops {
		o.CheckKept()
		name, m := kv(op)
		switch name {
		case "new":
			n, f, ssrc, fpt, fssrc := atoi(m["n"]), atoi(m["f"]), atoi(m["ssrc"]), atoi(m["fpt"]), atoi(m["fssrc"])
			if n < 1 || n > 200 || f < 0 || f > 110 || fpt < 0 || fpt > 255 ||
				ssrc < 0 || ssrc > 0xFFFFFFFF || fssrc < 0 || fssrc > 0xFFFFFFFF {
				o.P("bad-op")
				continue
			}
			if icpt != nil {
				_ = icpt.Close()
				icpt, w = nil, nil
			}
			fac, err := flexfec.NewFecInterceptor(flexfec.NumMediaPackets(uint32(n)), flexfec.NumFECPackets(uint32(f)))
			if err != nil {
				o.P("err:factory")
				continue
			}
			ic0, err := fac.NewInterceptor("")
			if err != nil {
				o.P("err:new")
				continue
			}
			icpt = o.Wrap(ic0) // the case's ambient (ambient_test.go)
			info := &interceptor.StreamInfo{SSRC: uint32(ssrc),
				PayloadTypeForwardErrorCorrection: uint8(fpt), SSRCForwardErrorCorrection: uint32(fssrc)}
			if id, ok := m["twid"]; ok && atoi(id) >= 1 && atoi(id) <= 14 {
				info.RTPHeaderExtensions = []interceptor.RTPHeaderExtension{
					{URI: "http://www.ietf.org/id/draft-holmer-rmcat-transport-wide-cc-extensions-01", ID: atoi(id)}}
			}
			mediaSSRC, fecSSRC, fecPT = uint32(ssrc), uint32(fssrc), uint8(fpt)
			onWire = map[uint16][]byte{}
			o.InfoGuard("BindLocalStream", info, func() { w = icpt.BindLocalStream(info, bottom) })
		case "w":
			if w == nil {
				o.P("bad-op")
				continue
			}
			b, err := hex.DecodeString(m["pkt"])
			if err != nil {
				o.P("bad-op")
				continue
			}
			chk := rtp.Packet{}
			if chk.Unmarshal(b) != nil {
				o.P("err:noncanonical")
				continue
			}
			if b2, err := chk.Marshal(); err != nil || string(b2) != string(b) {
				o.P("err:noncanonical")
				continue
			}
			failAt = map[int]bool{}
			for _, i := range parseInts(m["fail"]) {
				failAt[i] = true
			}
			call = 0
			wireMode = m["wire"] == "1"
			var n int
			curBad, curBadPkt = "", nil
			if kind, ok := m["bad"]; ok {
				p := rtp.Packet{}
				_ = p.Unmarshal(b)
				if !c14Damage(&p, kind) {
					o.P("bad-op")
					continue
				}
				if _, merr := p.Marshal(); merr == nil {
					o.P("err:marshals")
					continue
				}
				cp := p.Clone()
				curBad, curBadPkt = kind, cp
				n, err = w.Write(&p.Header, p.Payload, o.Attrs(nil))
				curBad, curBadPkt = "", nil
			} else if m["reuse"] == "1" && len(b) <= len(raw) {
				copy(raw, b)
				if shared.Unmarshal(raw[:len(b)]) != nil {
					o.P("err:noncanonical")
					continue
				}
				n, err = w.Write(&shared.Header, shared.Payload, o.Attrs(nil))
				for i := range raw { // the caller reuses its memory as soon as Write has returned
					raw[i] = 0xEE
				}
				for i := range shared.CSRC {
					shared.CSRC[i] = 0xEEEEEEEE
				}
			} else {
				p := rtp.Packet{}
				_ = p.Unmarshal(b)
				n, err = w.Write(&p.Header, p.Payload, o.Attrs(nil))
			}
			o.P("ret n=%d err=%d", n, c14CountInjected(err))
		default:
			o.P("bad-op")
		}
	}
}

// c14AppendTag: what a consumer that was handed a payload slice may do with it — append its 16-byte authentication tag
// (into the slice's spare capacity when there is some, as `append` does).  The bytes inside len(p) stay what they were.
func c14AppendTag(p []byte) {
	_ = append(p, 0xA5, 0xA5, 0xA5, 0xA5, 0xA5, 0xA5, 0xA5, 0xA5, 0xA5, 0xA5, 0xA5, 0xA5, 0xA5, 0xA5, 0xA5, 0xA5)
}

// c14NormHdr: nil and empty CSRC / extension lists are the same header.
func c14NormHdr(h rtp.Header) rtp.Header {
	if len(h.CSRC) == 0 {
		h.CSRC = nil
	}
	if len(h.Extensions) == 0 {
		h.Extensions = nil
	}
	return h
}

func init() {
	register("flexenc", &Comp{
		N: func(tier string) int {
			if tier == "thorough" {
				return 40000
			}
			return 900
		},
		Gen: c14GenEnc,
		Run: c14RunEnc,
	})
	register("flexint", &Comp{
		N: func(tier string) int {
			if tier == "thorough" {
				return 25000
			}
			return 500
		},
		Gen: c14GenInt,
		Run: c14RunInt,
	})
}

package corr

// C02 byte-level stream: arbitrary (valid, consistently-broken and mutated) bytes are delivered through
// every Bind*Reader path of every interceptor, and outgoing packets of any size through every
// BindLocalStream.  Observable per input: `ok` (the call returned, reported no more bytes than it
// was given, did not panic or hang) and, after each input, a well-formed probe packet must still be
// handled (`probe ok`).  The Lean side predicts exactly this for every input (the decoders are
// total: Props/C02*.lean), so any PANIC / HANG / n-out>n-in line is a disagreement.
//
// The caller's read buffer has any size (`cap=<bytes>` on an `rtp` / `rtcp` op, default 1500; `short=err`: a
// transport that answers a buffer smaller than the datagram with io.ErrShortBuffer instead of truncating like a
// UDP socket): exactly the datagram's size, a few bytes more, fewer.  Whatever the size, a Read reports at most
// len(buffer) bytes (`n-out>buf` - the caller slices b[:n]); a Read without error hands over the bytes the transport
// delivered (`READ-ALTERED`), or - with the jitter buffer in the chain, which hands on an OLDER packet - bytes that
// parse as an RTP packet (`READ-UNPARSABLE`).  The Lean driver does not read the two fields: the answer stays `ok`.

import (
	"encoding/hex"
	"fmt"
	"io"
	"sort"
	"strings"
	"testing"
	"testing/synctest"
	"time"

	"github.com/pion/interceptor"
	"github.com/pion/rtcp"
	"github.com/pion/rtp"
)

func c02Kinds() []string {
	ks := lcKindNames()
	sort.Strings(ks)
	return ks
}

// a consistent compound RTCP packet of a given flavour, as bytes
func c02ValidRTCP(r *Rng, ssrc uint32) []byte {
	var pk []rtcp.Packet
	switch r.Intn(8) {
	case 0:
		pk = []rtcp.Packet{&rtcp.SenderReport{SSRC: ssrc, NTPTime: r.U64(), RTPTime: uint32(r.U64()), PacketCount: 3, OctetCount: 9,
			Reports: []rtcp.ReceptionReport{{SSRC: ssrc, LastSequenceNumber: uint32(r.U64()), LastSenderReport: uint32(r.U64()), Delay: uint32(r.U64()), FractionLost: uint8(r.Intn(256)), TotalLost: uint32(r.Intn(1 << 24))}}}}
	case 1:
		pk = []rtcp.Packet{&rtcp.ReceiverReport{SSRC: 9, Reports: []rtcp.ReceptionReport{{SSRC: ssrc, LastSequenceNumber: uint32(r.U64()), Jitter: uint32(r.U64()), LastSenderReport: uint32(r.U64()), Delay: uint32(r.U64())}}}}
	case 2:
		n := r.Range(1, 6)
		var np []rtcp.NackPair
		for i := 0; i < n; i++ {
			np = append(np, rtcp.NackPair{PacketID: uint16(r.U64()), LostPackets: rtcp.PacketBitmap(r.U64())})
		}
		pk = []rtcp.Packet{&rtcp.TransportLayerNack{SenderSSRC: 9, MediaSSRC: ssrc, Nacks: np}}
	case 3:
		// TWCC with drawn (possibly inconsistent) counts: run lengths beyond the status count, fewer deltas than symbols
		cnt := uint16(r.Pick(0, 1, 2, 7, 14, 100, 8191, 65535))
		var chunks []rtcp.PacketStatusChunk
		var deltas []*rtcp.RecvDelta
		for i := 0; i < r.Range(1, 4); i++ {
			if r.Bool() {
				chunks = append(chunks, &rtcp.RunLengthChunk{PacketStatusSymbol: uint16(r.Intn(3)), RunLength: uint16(r.Pick(0, 1, 2, 50, 8191))})
			} else {
				sl := make([]uint16, r.Pick(7, 14))
				sz := uint16(rtcp.TypeTCCSymbolSizeTwoBit)
				if len(sl) == 14 {
					sz = rtcp.TypeTCCSymbolSizeOneBit
				}
				for j := range sl {
					if sz == rtcp.TypeTCCSymbolSizeOneBit {
						sl[j] = uint16(r.Intn(2))
					} else {
						sl[j] = uint16(r.Intn(3))
					}
				}
				chunks = append(chunks, &rtcp.StatusVectorChunk{SymbolSize: sz, SymbolList: sl})
			}
		}
		for i := 0; i < r.Range(0, 5); i++ {
			if r.Bool() {
				deltas = append(deltas, &rtcp.RecvDelta{Type: rtcp.TypeTCCPacketReceivedSmallDelta, Delta: int64(r.Intn(255)) * 250})
			} else {
				deltas = append(deltas, &rtcp.RecvDelta{Type: rtcp.TypeTCCPacketReceivedLargeDelta, Delta: int64(r.Range(-32768, 32767)) * 250})
			}
		}
		pk = []rtcp.Packet{&rtcp.TransportLayerCC{SenderSSRC: 9, MediaSSRC: ssrc, BaseSequenceNumber: uint16(r.U64()), PacketStatusCount: cnt,
			ReferenceTime: uint32(r.Intn(1 << 24)), FbPktCount: uint8(r.U64()), PacketChunks: chunks, RecvDeltas: deltas}}
	case 4:
		pk = []rtcp.Packet{&rtcp.PictureLossIndication{SenderSSRC: 9, MediaSSRC: ssrc}, &rtcp.FullIntraRequest{SenderSSRC: 9, MediaSSRC: ssrc, FIR: []rtcp.FIREntry{{SSRC: ssrc, SequenceNumber: 1}}}}
	case 5:
		var blocks []rtcp.CCFeedbackReportBlock
		for i := 0; i < r.Range(1, 3); i++ {
			n := r.Pick(0, 1, 2, 3, 16, 200)
			mb := make([]rtcp.CCFeedbackMetricBlock, n)
			for j := range mb {
				mb[j] = rtcp.CCFeedbackMetricBlock{Received: r.Bool(), ECN: rtcp.ECN(r.Intn(4)), ArrivalTimeOffset: uint16(r.Pick(0, 1, 0x1FFE, 0x1FFF, 100))}
			}
			blocks = append(blocks, rtcp.CCFeedbackReportBlock{MediaSSRC: ssrc + uint32(i), BeginSequence: uint16(r.Pick(0, 65535, 65400, 1)), MetricBlocks: mb})
		}
		pk = []rtcp.Packet{&rtcp.CCFeedbackReport{SenderSSRC: 9, ReportTimestamp: uint32(r.U64()), ReportBlocks: blocks}}
	case 6:
		pk = []rtcp.Packet{&rtcp.ExtendedReport{SenderSSRC: ssrc, Reports: []rtcp.ReportBlock{
			&rtcp.DLRRReportBlock{Reports: []rtcp.DLRRReport{{SSRC: ssrc, LastRR: uint32(r.U64()), DLRR: uint32(r.U64())}}},
			&rtcp.ReceiverReferenceTimeReportBlock{NTPTimestamp: r.U64()}}}}
	default:
		pk = []rtcp.Packet{&rtcp.Goodbye{Sources: []uint32{ssrc}}, &rtcp.SourceDescription{Chunks: []rtcp.SourceDescriptionChunk{{Source: ssrc,
			Items: []rtcp.SourceDescriptionItem{{Type: rtcp.SDESCNAME, Text: "x"}}}}}}
	}
	b, err := rtcp.Marshal(pk)
	if err != nil {
		return []byte{0x80, 0xc9, 0, 1, 0, 0, 0, 9}
	}
	return b
}

func c02ValidRTP(r *Rng, ssrc uint32) []byte {
	h := rtp.Header{Version: 2, SSRC: ssrc, PayloadType: uint8(r.Pick(96, 97, 98, 0, 127)), SequenceNumber: uint16(r.U64()), Timestamp: uint32(r.U64()), Marker: r.Bool()}
	for i := 0; i < r.Pick(0, 0, 1, 15); i++ {
		h.CSRC = append(h.CSRC, uint32(r.U64()))
	}
	switch r.Intn(4) {
	case 1:
		h.Extension, h.ExtensionProfile = true, 0xBEDE
		_ = h.SetExtension(5, []byte{byte(r.U64()), byte(r.U64())})
		if r.Bool() {
			_ = h.SetExtension(uint8(r.Range(1, 14)), make([]byte, r.Range(1, 16)))
		}
	case 2:
		h.Extension, h.ExtensionProfile = true, 0x1000
		_ = h.SetExtension(5, []byte{byte(r.U64()), byte(r.U64())})
		_ = h.SetExtension(uint8(r.Range(15, 255)), make([]byte, r.Range(0, 40)))
	case 3:
		h.Extension, h.ExtensionProfile = true, uint16(r.U64())
		_ = h.SetExtension(0, make([]byte, 4*r.Range(0, 3)))
	}
	payload := make([]byte, r.Pick(0, 1, 8, 100, 1000, 1400))
	for i := range payload {
		payload[i] = byte(r.U64())
	}
	p := rtp.Packet{Header: h, Payload: payload}
	if r.Chance(1, 5) && len(payload) > 0 {
		p.Header.Padding = true
		p.PaddingSize = uint8(r.Range(1, 8))
	}
	b, err := p.Marshal()
	if err != nil {
		return []byte{0x80, 96, 0, 1, 0, 0, 0, 1, 0, 0, 0, byte(ssrc)}
	}
	return b
}

func c02Mutate(r *Rng, b []byte) []byte {
	b = append([]byte(nil), b...)
	switch r.Intn(7) {
	case 0: // truncate
		b = b[:r.Intn(len(b)+1)]
	case 1: // flip bits
		for i := 0; i < r.Range(1, 6) && len(b) > 0; i++ {
			b[r.Intn(len(b))] ^= 1 << uint(r.Intn(8))
		}
	case 2: // overwrite a 16-bit field with an extreme
		if len(b) >= 4 {
			i := r.Intn(len(b) - 1)
			v := r.Pick(0, 0xFFFF, 0x8000, 0x7FFF, 1)
			b[i], b[i+1] = byte(v>>8), byte(v)
		}
	case 3: // random bytes
		b = make([]byte, r.Pick(0, 1, 3, 4, 8, 11, 12, 13, 20, 64, 1500))
		for i := range b {
			b[i] = byte(r.U64())
		}
	case 4: // extend with garbage
		for i := 0; i < r.Range(1, 40); i++ {
			b = append(b, byte(r.U64()))
		}
	case 5: // lie in the length/count byte
		if len(b) >= 4 {
			b[0] = b[0]&0xE0 | byte(r.Intn(32))
			if r.Bool() {
				b[3] = byte(r.Intn(256))
			}
		}
	case 6: // set X/P/CC bits of an RTP header without the data
		if len(b) >= 1 {
			b[0] |= byte(r.Pick(0x10, 0x20, 0x0F, 0x3F))
		}
	}
	if len(b) > 1500 {
		b = b[:1500]
	}
	return b
}

type c02State struct {
	kind    string
	ic      interceptor.Interceptor
	rtcpIn  []byte
	rtpIn   map[uint32][]byte
	rtcpR   interceptor.RTCPReader
	readers map[uint32]interceptor.RTPReader
	writers map[uint32]interceptor.RTPWriter
}

func c02Run(t *testing.T, ops []string, o *Out) {
	defer func() {
		if r := recover(); r != nil {
			msg := fmt.Sprint(r)
			o.P("PANIC %.120s", msg)
		}
	}()
	synctest.Test(t, func(t *testing.T) {
		s := &c02State{rtpIn: map[uint32][]byte{}, readers: map[uint32]interceptor.RTPReader{}, writers: map[uint32]interceptor.RTPWriter{}}
		probe := NewRng(7)
		bufCap, shortErr := 1500, false
		deliver := func(what string, ssrc uint32, data []byte, stale bool) {
			buf := make([]byte, bufCap)
			// what the transport hands over: the datagram, cut to the buffer
			handed := data
			if len(handed) > len(buf) {
				handed = handed[:len(buf)]
			}
			if stale {
				for i := range buf {
					buf[i] = 0xA5 // stale bytes after n from an earlier, larger packet
				}
			}
			var n int
			var err error
			var ra interceptor.Attributes
			done := make(chan struct{})
			go func() {
				defer close(done)
				defer func() {
					if r := recover(); r != nil {
						o.P("PANIC %s %.120s", what, fmt.Sprint(r))
						n = -1
					}
				}()
				switch what {
				case "rtcp":
					s.rtcpIn = data
					n, ra, err = s.rtcpR.Read(buf, interceptor.Attributes{})
				case "rtp":
					s.rtpIn[ssrc] = data
					n, ra, err = s.readers[ssrc].Read(buf, interceptor.Attributes{})
				}
				// the attributes a Read returns describe the bytes it returns (Props/C02Attrs.chain_coherent): what
				// the parse cache answers for them is what a fresh parse answers
				if err == nil && ra != nil && n >= 0 && n <= len(buf) {
					if stale := c02Stale(what, ra, buf[:n]); stale != "" {
						o.P("ATTR-STALE %s %s", what, stale)
						n = -1
					}
				}
			}()
			synctest.Wait()
			select {
			case <-done:
			default:
				o.P("BLOCKED %s", what)
				return
			}
			switch {
			case n == -1:
			case n > len(buf):
				o.P("n-out>buf %s %d>%d", what, n, len(buf))
			case n > len(data) && !(what == "rtp" && n <= 1500 && s.jitter()):
				o.P("n-out>n-in %s %d>%d", what, n, len(data))
			case err == nil && n >= 0 && !(what == "rtp" && s.jitter()) && hexs(buf[:n]) != hexs(handed[:min(n, len(handed))]):
				o.P("READ-ALTERED %s got=%s delivered=%s", what, hexs(buf[:n]), hexs(handed))
			case err == nil && n >= 0 && what == "rtp" && s.jitter() && (&rtp.Packet{}).Unmarshal(buf[:n]) != nil && (&rtp.Packet{}).Unmarshal(handed) == nil:
				o.P("READ-UNPARSABLE rtp got=%s", hexs(buf[:n]))
			default:
				o.P("ok")
			}
		}
		for _, op := range ops {
			name, a := kv(op)
			if s.ic == nil && name != "new" && name != "end" {
				o.P("bad-op")
				continue
			}
			switch name {
			case "new":
				// `kind=a+b+c`: a chain of the named interceptors (first = innermost reader, outermost writer)
				var members []interceptor.Interceptor
				for _, k := range strings.Split(a["kind"], "+") {
					mk := lcKinds[k]
					if mk == nil {
						o.P("err:new")
						return
					}
					f, err := mk()
					if err != nil {
						o.P("err:new")
						return
					}
					ic, err := f.NewInterceptor("c02")
					if err != nil {
						o.P("err:new")
						return
					}
					members = append(members, ic)
				}
				if len(members) == 1 {
					s.ic = members[0]
				} else {
					s.ic = interceptor.NewChain(members)
				}
				s.kind = a["kind"]
				s.ic.BindRTCPWriter(interceptor.RTCPWriterFunc(func([]rtcp.Packet, interceptor.Attributes) (int, error) { return 0, nil }))
				s.rtcpR = s.ic.BindRTCPReader(interceptor.RTCPReaderFunc(func(b []byte, at interceptor.Attributes) (int, interceptor.Attributes, error) {
					if shortErr && len(b) < len(s.rtcpIn) {
						return 0, at, io.ErrShortBuffer
					}
					return copy(b, s.rtcpIn), at, nil
				}))
				for ssrc := uint32(1); ssrc <= 2; ssrc++ {
					ssrc := ssrc
					s.readers[ssrc] = s.ic.BindRemoteStream(lcInfo(ssrc), interceptor.RTPReaderFunc(func(b []byte, at interceptor.Attributes) (int, interceptor.Attributes, error) {
						if shortErr && len(b) < len(s.rtpIn[ssrc]) {
							return 0, at, io.ErrShortBuffer
						}
						return copy(b, s.rtpIn[ssrc]), at, nil
					}))
					s.writers[ssrc] = s.ic.BindLocalStream(lcInfo(ssrc), interceptor.RTPWriterFunc(func(h *rtp.Header, p []byte, _ interceptor.Attributes) (int, error) {
						return len(p), nil
					}))
				}
			case "rtcp", "rtp":
				data, err := hex.DecodeString(a["b"])
				if a["b"] == "-" {
					data, err = nil, nil
				}
				if err != nil {
					o.P("bad-op")
					continue
				}
				ssrc := uint32(atoi(a["ssrc"]))
				if name == "rtp" && s.readers[ssrc] == nil {
					o.P("bad-op")
					continue
				}
				bufCap, shortErr = 1500, a["short"] == "err"
				slack := 1500
				if a["cap"] != "" {
					if bufCap = atoi(a["cap"]); bufCap < 0 || bufCap > 65536 {
						o.P("bad-op")
						continue
					}
					slack = bufCap - len(data)
				}
				deliver(name, ssrc, data, a["stale"] == "1")
				// a well-formed probe must still be handled; the application reads it the way it read the input (a
				// buffer with the same slack over the datagram, never too small for the probe itself)
				pb := c02ValidRTCP
				if name == "rtp" {
					pb = c02ValidRTP
				}
				pdata := pb(probe, map[string]uint32{"rtcp": 1, "rtp": ssrc}[name])
				bufCap = 1500
				if a["cap"] != "" && slack >= 0 && slack < 1500 {
					bufCap = len(pdata) + slack
				}
				if name == "rtcp" {
					deliver("rtcp", 0, pdata, false)
				} else {
					deliver("rtp", ssrc, pdata, false)
				}
				bufCap, shortErr = 1500, false
			case "out":
				ssrc := uint32(atoi(a["ssrc"]))
				w := s.writers[ssrc]
				if w == nil {
					o.P("bad-op")
					continue
				}
				n := atoi(a["len"])
				h := &rtp.Header{Version: 2, SSRC: ssrc, PayloadType: 96, SequenceNumber: uint16(atoi(a["seq"])), Timestamp: 1}
				for i := 0; i < atoi(a["csrc"]); i++ {
					h.CSRC = append(h.CSRC, uint32(i))
				}
				if a["ext"] == "1" {
					h.Extension, h.ExtensionProfile = true, 0xBEDE
					_ = h.SetExtension(5, []byte{0, 1})
				}
				done := make(chan struct{})
				go func() {
					defer close(done)
					defer func() {
						if r := recover(); r != nil {
							o.P("PANIC out %.120s", fmt.Sprint(r))
						}
					}()
					_, _ = w.Write(h, make([]byte, n), nil)
				}()
				synctest.Wait()
				select {
				case <-done:
					o.P("ok")
				default:
					o.P("BLOCKED out")
				}
				// let pacers run: a panic in a background goroutine kills the process and is reported as a crash
				time.Sleep(20 * time.Millisecond)
				synctest.Wait()
			case "end":
			default:
				o.P("bad-op")
			}
		}
		if s.ic != nil {
			_ = s.ic.Close()
		}
		_ = io.Discard
	})
}

// c02Stale compares the parse cache of the returned attributes with a fresh parse of the returned bytes.
func c02Stale(what string, ra interceptor.Attributes, b []byte) string {
	if what == "rtp" {
		var fresh rtp.Header
		_, ferr := fresh.Unmarshal(b)
		got, gerr := ra.GetRTPHeader(b)
		switch {
		case ferr != nil && gerr == nil:
			return "a header is cached for bytes that do not parse"
		case ferr == nil && gerr != nil:
			return "error for bytes that parse"
		case ferr == nil:
			x, _ := fresh.Marshal()
			y, _ := got.Marshal()
			if hexs(x) != hexs(y) {
				return fmt.Sprintf("cached %s fresh %s", hexs(y), hexs(x))
			}
		}
		return ""
	}
	fresh, ferr := rtcp.Unmarshal(b)
	got, gerr := ra.GetRTCPPackets(b)
	switch {
	case ferr != nil && gerr == nil:
		return "packets are cached for bytes that do not parse"
	case ferr == nil && gerr != nil:
		return "error for bytes that parse"
	case ferr == nil:
		x, e1 := rtcp.Marshal(fresh)
		y, e2 := rtcp.Marshal(got)
		if (e1 == nil) != (e2 == nil) || hexs(x) != hexs(y) {
			return fmt.Sprintf("cached %s fresh %s", hexs(y), hexs(x))
		}
	}
	return ""
}

func (s *c02State) jitter() bool { return strings.Contains(s.kind, "jitter") }

func init() {
	register("rawbytes", &Comp{
		Timeout: 40 * time.Second,
		N: func(tier string) int {
			if tier == "thorough" {
				return 60000
			}
			return 1600
		},
		Gen: func(r *Rng, tier string, idx int) Case {
			r = NewRng(r.U64() ^ 0xC02C02)
			kinds := c02Kinds()
			kind := kinds[idx%len(kinds)]
			cls := []string{"valid", "mutated", "random", "outgoing"}[(idx/len(kinds))%4]
			// every other round of the kinds: the interceptor sits in a chain with one or two others (what one
			// member leaves in the attributes, the buffer or the header is what the next one works on)
			label := kind
			chained := (idx/(4*len(kinds)))%2 == 1
			if chained {
				extra := []string{kinds[r.Intn(len(kinds))]}
				if r.Bool() {
					extra = append(extra, kinds[r.Intn(len(kinds))])
				}
				pos := r.Intn(len(extra) + 1)
				all := append(append(append([]string{}, extra[:pos]...), kind), extra[pos:]...)
				if r.Chance(1, 3) {
					// a member that hands on a different packet than the one it read, between two others
					all = []string{kind, "jitter", extra[0]}
					if r.Bool() {
						all = []string{extra[0], "jitter", kind}
					}
				}
				kind = strings.Join(all, "+")
				label = "chain"
			}
			ops := []string{"new kind=" + kind}
			// the application's read buffers: in half of the cases of the reading classes every Read of the case
			// gets a buffer sized after the datagram (exact, a little more, less), else the usual 1500 bytes
			br := NewRng(r.s ^ 0xB0FFE5)
			tight := br.Bool()
			sized := func(op string, b []byte) string {
				if !tight {
					return op
				}
				n := len(b)
				c := br.Pick(n, n, n, n+1, n+br.Range(2, 40), 1500, n-1, n-br.Range(1, 12), n/2, 12, 11, br.Intn(1501))
				if c < 0 {
					c = 0
				}
				return op + fmt.Sprintf(" cap=%d short=%s", c, br.Pick2("trunc", "err"))
			}
			var ssrcSeq map[uint32]int
			burstLen := 0
			nops := r.Range(6, 14)
			if cls == "outgoing" {
				nops = r.Range(8, 18)
			}
			seqRun := -1
			if strings.Contains(kind, "jitter") && cls != "outgoing" && r.Bool() {
				nops = r.Range(40, 70) // enough packets for the jitter buffer to start emitting
				seqRun = r.Pick(0, 65500, 30000)
			}
			// consecutive sequence numbers (the probes in between use other numbers)
			run := func(b []byte) []byte {
				if seqRun >= 0 && len(b) >= 4 {
					b[2], b[3] = byte(seqRun>>8), byte(seqRun)
					seqRun = (seqRun + 1) & 0xFFFF
				}
				return b
			}
			for i := 0; i < nops; i++ {
				ssrc := uint32(r.Range(1, 2))
				switch cls {
				case "valid":
					if r.Bool() && (seqRun < 0 || r.Chance(1, 4)) {
						b := c02ValidRTCP(r, ssrc)
						ops = append(ops, sized(fmt.Sprintf("rtcp b=%s", hexs(b)), b))
					} else {
						b := run(c02ValidRTP(r, ssrc))
						ops = append(ops, sized(fmt.Sprintf("rtp ssrc=%d b=%s stale=%d", ssrc, hexs(b), r.Intn(2)), b))
					}
				case "mutated":
					if r.Bool() {
						b := c02Mutate(r, c02ValidRTCP(r, ssrc))
						ops = append(ops, sized(fmt.Sprintf("rtcp b=%s", hexs(b)), b))
					} else {
						b := c02Mutate(r, run(c02ValidRTP(r, ssrc)))
						ops = append(ops, sized(fmt.Sprintf("rtp ssrc=%d b=%s stale=%d", ssrc, hexs(b), r.Intn(2)), b))
					}
				case "random":
					b := make([]byte, r.Pick(0, 1, 2, 4, 7, 8, 12, 16, 33, 200, 1500))
					for j := range b {
						b[j] = byte(r.U64())
					}
					if len(b) > 0 && r.Bool() {
						b[0] = 0x80 | b[0]&0x3F // plausible version bits
					}
					if r.Bool() {
						ops = append(ops, sized(fmt.Sprintf("rtcp b=%s", hexs(b)), b))
					} else {
						ops = append(ops, sized(fmt.Sprintf("rtp ssrc=%d b=%s stale=1", ssrc, hexs(b)), b))
					}
				case "outgoing":
					// consecutive numbers per stream (FEC batches need them); sizes around every buffer boundary:
					// 1460 (pooled payload), 1488..1500 (+12 header = 1500 scratch), MTU, far beyond
					if i == 0 {
						ssrcSeq = map[uint32]int{1: r.Pick(1, 65530, 30000), 2: r.Pick(1, 65533)}
						burstLen = r.Pick(0, 1, 1200, 1458, 1459, 1460, 1461, 1487, 1488, 1489, 1495, 1500, 1501, 4000, 65535)
					}
					ln := burstLen
					if r.Chance(1, 3) {
						ln = r.Pick(0, 1, 1200, 1458, 1459, 1460, 1461, 1488, 1489, 1500, 1501, 4000, 65535)
					}
					ops = append(ops, fmt.Sprintf("out ssrc=%d seq=%d len=%d csrc=%d ext=%d", ssrc, ssrcSeq[ssrc]&0xFFFF,
						ln, r.Pick(0, 0, 0, 1, 15), r.Intn(2)))
					ssrcSeq[ssrc]++
				}
			}
			ops = append(ops, "end")
			return Case{Class: label + "-" + cls, Ops: ops}
		},
		Run: c02Run,
	})
}

package corr

// C07 — sender reports.  Component `senderreport`: the public SenderInterceptor is driven inside a
// testing/synctest bubble (virtual clock, starts 2000-01-01 00:00:00 UTC) with the SenderNow and
// SenderTicker options; every field of every rtcp.SenderReport reaching the RTCP writer is printed.
//
// ops:
//   bind ssrc=<u32> rate=<u32> latest=<0|1>   BindLocalStream (the interceptor is created by the first bind;
//                                             `latest` is an interceptor option: a later bind with another
//                                             value is `bad-op`).  An optional `skew=<ns>` on the FIRST bind:
//                                             the clock configured with SenderNow runs that much ahead of
//                                             (negative: behind) the bubble's clock, whose time is what the
//                                             ticker channel delivers; packet times and report times are the
//                                             configured clock's.  The model's clock is moved by skew there.
//   write ssrc=<u32> seq=<u16> ts=<u32> len=<n> dt=<ns>   advance the clock by dt, then write one packet
//                                             optional `hs=<u32>`: the SSRC in the packet's RTP header (default: the
//                                             stream's).  "Packets written on the stream are counted": the stream is the
//                                             writer the packet goes through (BindLocalStream's return value), whatever
//                                             SSRC its header carries — the stream's own RTX / FEC SSRC (optional
//                                             `rtx=` / `fec=` on bind fill StreamInfo.SSRCRetransmission /
//                                             SSRCForwardErrorCorrection; that is how the NACK responder above resends),
//                                             the SSRC of another bound stream, an unrelated one.  The unchanged code
//                                             (sender_interceptor.go: the closure calls ITS stream's processRTP and never
//                                             looks at header.SSRC) agrees, so the model ignores hs / rtx / fec.
//   tick dt=<ns>                              advance the clock by dt, then deliver one tick
//   step ns=<+-n>                             the clock configured with SenderNow is a WALL clock: from now on it reads n ns
//                                             more (negative: less) than before — an NTP correction between two reports —
//                                             while the ticker (monotonic) keeps its pace.  "The report instant is what the
//                                             configured clock says": the model's clock moves by n, nothing else happens.
//   unbind ssrc=<u32>                         UnbindLocalStream
//   stale ssrc=<u32> k=<n> seq= ts= len= dt=  advance the clock by dt, then write one packet through a STALE handle: the
//                                             RTPWriter returned by an earlier BindLocalStream of this SSRC whose stream
//                                             has since been unbound or replaced by a new bind (the k-th such handle,
//                                             modulo their number; `bad-op` when there is none).  A pacer draining its
//                                             queue or a retransmission in flight does exactly this.  The reports of
//                                             the CURRENT binding count what was written through the current binding:
//                                             for the model the op only lets time pass.
// output: per tick, one line per stream sorted by SSRC: `sr ssrc= ntp= rtp= pc= oc=`.
//
// The ambient of a case (first op `amb …`, ambient_test.go): the interceptor sits in a chain with transparent, silent
// neighbours, and the RTP writer below it refuses chosen calls (`failrtp=`).  On the unchanged code a packet is
// counted when it is handed to the interceptor, whatever the transport below answers (sender_interceptor.go:
// processRTP runs before writer.Write and nothing is taken back), so the model has nothing to learn about failures;
// the error is returned to the caller, who goes on writing.

import (
	"errors"
	"fmt"
	"sort"
	"sync"
	"sync/atomic"
	"testing"
	"testing/synctest"
	"time"

	"github.com/pion/interceptor"
	"github.com/pion/interceptor/pkg/report"
	"github.com/pion/rtcp"
	"github.com/pion/rtp"
)

type c07Ticker struct{ ch chan time.Time }

func (t *c07Ticker) Ch() <-chan time.Time { return t.ch }
func (t *c07Ticker) Stop()                {}

func c07Sleep(ns int) {
	if ns > 0 {
		time.Sleep(time.Duration(ns))
		synctest.Wait()
	}
}

func c07Run(t *testing.T, ops []string, o *Out) {
	synctest.Test(t, func(t *testing.T) {
		var (
			icpt    interceptor.Interceptor
			latest  string
			ticker  = &c07Ticker{ch: make(chan time.Time)}
			mu      sync.Mutex
			pending []*rtcp.SenderReport
			writers = map[uint32]interceptor.RTPWriter{}
			retired = map[uint32][]interceptor.RTPWriter{} // handles of earlier bindings, per SSRC, oldest first
			skew    atomic.Int64                           // configured clock minus bubble clock, ns (bind skew= and step ns=)
		)
		// every packet handed to the RTCP writer is the writer's (it may queue it): kept by pointer and re-rendered
		// after every later op, before Close and after Close (retain_test.go)
		defer o.EndKept()
		defer func() {
			o.CheckKeptAll()
			if icpt != nil {
				_ = icpt.Close()
				synctest.Wait()
			}
		}()
		nWritten := 0
		flush := func() {
			mu.Lock()
			ps := pending
			pending = nil
			mu.Unlock()
			sort.SliceStable(ps, func(i, j int) bool { return ps[i].SSRC < ps[j].SSRC })
			for _, sr := range ps {
				o.P("sr ssrc=%d ntp=%d rtp=%d pc=%d oc=%d", sr.SSRC, sr.NTPTime, sr.RTPTime, sr.PacketCount, sr.OctetCount)
			}
		}
		for _, op := range ops {
			o.CheckKept()
			name, m := kv(op)
			need := func(keys ...string) bool {
				for _, k := range keys {
					if _, ok := m[k]; !ok {
						return false
					}
				}
				return true
			}
			switch {
			case name == "bind" && need("ssrc", "rate", "latest") && (m["latest"] == "0" || m["latest"] == "1"):
				if icpt == nil {
					latest = m["latest"]
					if need("skew") {
						skew.Add(int64(atoi(m["skew"])))
					}
					opts := []report.SenderOption{
						report.SenderNow(func() time.Time { return time.Now().Add(time.Duration(skew.Load())) }),
						report.SenderTicker(func(time.Duration) report.Ticker { return ticker }),
					}
					if latest == "1" {
						opts = append(opts, report.SenderUseLatestPacket())
					}
					f, err := report.NewSenderInterceptor(opts...)
					if err != nil {
						panic(err)
					}
					icpt, err = f.NewInterceptor("")
					if err != nil {
						panic(err)
					}
					icpt = o.Wrap(icpt) // the case's ambient: transparent, silent neighbours (ambient_test.go)
					icpt.BindRTCPWriter(interceptor.RTCPWriterFunc(func(pkts []rtcp.Packet, _ interceptor.Attributes) (int, error) {
						mu.Lock()
						defer mu.Unlock()
						for _, p := range pkts {
							nWritten++
							o.KeepRTCP(fmt.Sprintf("written#%d", nWritten), p)
							if sr, ok := p.(*rtcp.SenderReport); ok {
								pending = append(pending, sr)
							}
						}
						return 0, nil
					}))
					synctest.Wait()
				} else if m["latest"] != latest {
					o.P("bad-op")
					continue
				}
				ssrc := uint32(atoi(m["ssrc"]))
				// the chain hands ONE *StreamInfo to every member: what the sender interceptor reads from it (the clock rate,
				// 0 = "not announced" included) must be what the caller wrote, and the caller's struct comes back unedited
				info := &interceptor.StreamInfo{SSRC: ssrc, ClockRate: uint32(atoi(m["rate"])),
					SSRCRetransmission: uint32(atoi(m["rtx"])), SSRCForwardErrorCorrection: uint32(atoi(m["fec"]))}
				if need("rtx") {
					info.PayloadTypeRetransmission = 97
				}
				if need("fec") {
					info.PayloadTypeForwardErrorCorrection = 98
				}
				if w, ok := writers[ssrc]; ok {
					retired[ssrc] = append(retired[ssrc], w) // the application may still hold (and use) the old handle
				}
				o.InfoGuard("BindLocalStream", info, func() {
					writers[ssrc] = icpt.BindLocalStream(info,
						interceptor.RTPWriterFunc(func(*rtp.Header, []byte, interceptor.Attributes) (int, error) { return 0, o.RTPWriteErr() }))
				})
			case name == "write" && need("ssrc", "seq", "ts", "len", "dt"):
				w, ok := writers[uint32(atoi(m["ssrc"]))]
				if !ok {
					o.P("bad-op")
					continue
				}
				c07Sleep(atoi(m["dt"]))
				h := &rtp.Header{Version: 2, SequenceNumber: uint16(atoi(m["seq"])), Timestamp: uint32(atoi(m["ts"])), SSRC: uint32(atoi(m["ssrc"]))}
				if need("hs") {
					h.SSRC = uint32(atoi(m["hs"]))
				}
				payload := make([]byte, atoi(m["len"]))
				if _, err := w.Write(h, payload, o.Attrs(interceptor.Attributes{})); err != nil && !errors.Is(err, errAmbWrite) {
					panic(err)
				}
				// rep=N: N further packets of the same frame (same timestamp, same instant, consecutive numbers) — long
				// streams make the 32-bit packet and octet counters wrap
				for i := 0; i < atoi(m["rep"]) && m["rep"] != ""; i++ {
					h.SequenceNumber++
					if _, err := w.Write(h, payload, o.Attrs(interceptor.Attributes{})); err != nil && !errors.Is(err, errAmbWrite) {
						panic(err)
					}
				}
			case name == "tick" && need("dt"):
				c07Sleep(atoi(m["dt"]))
				if icpt != nil {
					ticker.ch <- time.Now()
					synctest.Wait()
				}
				flush()
			case name == "step" && need("ns"):
				skew.Add(int64(atoi(m["ns"])))
			case name == "unbind" && need("ssrc"):
				ssrc := uint32(atoi(m["ssrc"]))
				if _, ok := writers[ssrc]; !ok {
					o.P("bad-op")
					continue
				}
				info := &interceptor.StreamInfo{SSRC: ssrc}
				o.InfoGuard("UnbindLocalStream", info, func() { icpt.UnbindLocalStream(info) })
				retired[ssrc] = append(retired[ssrc], writers[ssrc])
				delete(writers, ssrc) // later writes through the orphaned handle: op `stale`
			case name == "stale" && need("ssrc", "k", "seq", "ts", "len", "dt"):
				ssrc := uint32(atoi(m["ssrc"]))
				old := retired[ssrc]
				if len(old) == 0 {
					o.P("bad-op")
					continue
				}
				c07Sleep(atoi(m["dt"]))
				h := &rtp.Header{Version: 2, SequenceNumber: uint16(atoi(m["seq"])), Timestamp: uint32(atoi(m["ts"])), SSRC: ssrc}
				if need("hs") {
					h.SSRC = uint32(atoi(m["hs"]))
				}
				if _, err := old[atoi(m["k"])%len(old)].Write(h, make([]byte, atoi(m["len"])), o.Attrs(interceptor.Attributes{})); err != nil && !errors.Is(err, errAmbWrite) {
					panic(err)
				}
			default:
				o.P("bad-op")
			}
		}
	})
}

// c07FailSched draws the calls of the RTP writer below the interceptor that fail: the first, one, two in a row,
// scattered ones, every k-th, all.
func c07FailSched(r *Rng) string {
	a := r.Range(1, 8)
	switch r.Intn(7) {
	case 0:
		return "failrtp=1"
	case 1:
		return fmt.Sprintf("failrtp=%d", a)
	case 2:
		return fmt.Sprintf("failrtp=%d,%d", a, a+1)
	case 3:
		return fmt.Sprintf("failrtp=1,%d,%d", a+r.Range(1, 4), a+r.Range(5, 20))
	case 4:
		return fmt.Sprintf("failrtp=%%%d", r.Range(2, 5))
	case 5:
		return fmt.Sprintf("failrtp=1,2,%%%d", r.Range(3, 7))
	}
	return "failrtp=%1"
}

// c07Ambient: a chain with neighbours that neither write SenderReports nor touch the counted packets (the stats
// interceptor, the NACK responder — the streams negotiate no NACK —, the TWCC header-extension interceptor — no
// extension negotiated —, packetdump to io.Discard, a NoOp) and, for `fail`, an RTP writer that refuses some calls.
func c07Ambient(r *Rng, ops []string, fail bool) []string {
	pick := func(xs ...string) string { return xs[r.Intn(len(xs))] }
	amb := ambOp(pick("", "", "stats", "noop", "dumps", "resp,stats", "hdr"), pick("", "", "stats", "noop", "resp", "dumps"), r.Bool(), false, false, false)
	if fail {
		amb = ambWith(amb, c07FailSched(r))
	}
	return append([]string{amb}, ops...)
}

func c07Gen(r *Rng, tier string, idx int) Case {
	cs := c07GenPlain(r, tier, idx)
	switch {
	case cs.Class == "writefail":
		cs.Ops = c07Ambient(r, cs.Ops, true)
	case cs.Class != "bigcount" && r.Chance(1, 4):
		cs.Ops = c07Ambient(r, cs.Ops, r.Chance(1, 3))
	case cs.Class == "bigcount" && r.Chance(1, 2):
		cs.Ops = append([]string{ambWith(ambOp("", "", false, false, false, false), c07FailSched(r))}, cs.Ops...)
	}
	return cs
}

func c07GenPlain(r *Rng, tier string, idx int) Case {
	classes := []string{"inorder", "seqwrap", "ooo", "frames", "tswrap", "ts0first", "payload", "rates",
		"multi", "tickfirst", "rebind", "longgap", "mixed", "stale", "clockstep", "hdrssrc", "writefail"}
	class := classes[idx%len(classes)]
	cl := class
	if cl == "writefail" { // traffic of one of the other classes over a transport that refuses some RTP writes
		cl = classes[r.Intn(len(classes)-1)]
	}
	// class `clockstep` — "the report instant is what the configured clock says": SenderNow is a wall clock, and a wall
	// clock is stepped (NTP correction, the user sets the time) between two reports while the ticker keeps its pace:
	// back by more than the time since the last report, back by less, forward; before the first packet, between a packet
	// and the report after it (the report instant may then lie BEFORE the newest packet's time), between two reports
	// with no packet in between.  Traffic of any ordinary class.
	stepping := cl == "clockstep"
	if stepping {
		cl = classes[r.Intn(len(classes)-3)]
	}
	stepOp := func() string {
		return fmt.Sprintf("step ns=%d", r.Pick(-1, -1000000, -500000000, -999999999, -1000000000, -1000000001, -1500000000, -5000000000,
			-60000000000, -3600000000000, -86400000000000, 1, 1000000, 999999999, 1000000000, 5000000000, 3600000000000, 86400000000000))
	}
	// class `hdrssrc` — "packets written on the stream are counted": the stream is the writer returned by
	// BindLocalStream; what goes through it is counted (and is the timestamp reference) whatever SSRC its header
	// carries: the stream's own retransmission SSRC (the NACK responder above resends RTX packets through the very same
	// writer) or FEC SSRC, the SSRC (or RTX SSRC) of another bound stream, an unrelated one.
	foreign := cl == "hdrssrc"
	if foreign {
		cl = []string{"multi", "multi", "mixed", "stale", "inorder", "ooo", "frames", "rebind"}[r.Intn(8)]
	}
	if idx%211 == 7 {
		// counters beyond 2^32 octets: one long stream, reports before and after the wrap
		n := r.Pick(2941758, 2941759, 2950000, 3100000)
		return Case{Class: "bigcount", Ops: []string{
			fmt.Sprintf("bind ssrc=5 rate=90000 latest=%d", r.Intn(2)),
			"write ssrc=5 seq=65530 ts=1000 len=1460 dt=1000",
			"tick dt=1000",
			fmt.Sprintf("write ssrc=5 seq=65531 ts=1000 len=1460 dt=10 rep=%d", n),
			"tick dt=5000",
			fmt.Sprintf("write ssrc=5 seq=%d ts=4000 len=%d dt=10", (65532+n)&0xFFFF, r.Pick(0, 1, 1460)),
			"tick dt=20000000",
		}}
	}
	latest := r.Intn(2)
	if cl == "ooo" {
		latest = (idx / len(classes)) % 2
	}
	rates := []int{1, 8000, 48000, 90000, 4294967295, 0}
	dts := []int{0, 0, 1, 999, 1000000, 20000000, 33333333, 999999999, 1000000000, 1000000001, 5000000000}
	ops := []string{}
	nstreams := 1
	if cl == "multi" || cl == "mixed" || cl == "stale" {
		nstreams = r.Range(1, 3)
	}
	// class `stale` (and now and then `rebind`, `mixed`): a stream is replaced (UnbindLocalStream + BindLocalStream of the
	// same SSRC, or a second Bind alone) while the application still holds the writer of the first binding and uses it
	// for late packets; "packet count = number of RTP packets written on that stream" is about the stream of the
	// CURRENT binding, so those packets change no report.  Their sequence numbers / timestamps lie before, inside and
	// ahead of what the new binding sends.
	hasStale := map[int]bool{}
	var hsStale func(ssrc int) int // class hdrssrc: the header SSRC of a late packet through an old handle
	staleOp := func(ssrc, seq, ts int) string {
		x := ""
		if hsStale != nil && r.Chance(1, 3) {
			x = fmt.Sprintf(" hs=%d", hsStale(ssrc))
		}
		return fmt.Sprintf("stale ssrc=%d k=%d seq=%d ts=%d len=%d dt=%d%s", ssrc, r.Intn(4), seq&0xFFFF, ts, r.Pick(0, 1, 100, 1200, 1460),
			r.Pick(0, 0, 1, 999, 1000000, 20000000, 1000000000), x)
	}
	if foreign && nstreams < 2 && r.Chance(2, 3) {
		nstreams = r.Range(2, 3)
	}
	type st struct{ ssrc, rate, seq, ts, tsStep, rtx, fec, rtxSeq int }
	streams := []*st{}
	for i := 0; i < nstreams; i++ {
		s := &st{ssrc: r.Pick(1, 2, 3, 0, 4294967295, 123456) + i*7, rate: rates[r.Intn(len(rates))], seq: r.Intn(65536), ts: int(r.U64() % (1 << 32))}
		if s.ssrc > 4294967295 {
			s.ssrc -= 100
		}
		if cl != "rates" && cl != "mixed" && r.Chance(2, 3) {
			s.rate = r.Pick(8000, 48000, 90000)
		}
		s.tsStep = r.Pick(0, 1, 160, 960, 3000, 90000, 1<<31, (1<<32)-3000)
		switch cl {
		case "seqwrap":
			s.seq = 65536 - r.Range(1, 20)
		case "tswrap":
			s.ts = (1 << 32) - r.Range(1, 5)*3000
			s.tsStep = r.Pick(3000, 960, 1<<31)
		case "ts0first":
			s.ts = 0
			if r.Bool() {
				s.tsStep = r.Pick(0, 3000)
			}
		}
		if foreign {
			if r.Chance(3, 4) {
				s.rtx = (s.ssrc + r.Pick(1, 1000, 2147483648) + i) & 0xFFFFFFFF
			}
			if r.Chance(1, 2) {
				s.fec = (s.ssrc + r.Pick(2, 2000, 3000000000) + i) & 0xFFFFFFFF
			}
			s.rtxSeq = r.Intn(65536)
		}
		streams = append(streams, s)
	}
	// what StreamInfo says beside SSRC and clock rate
	bindExtra := func(s *st) string {
		x := ""
		if s.rtx != 0 {
			x += fmt.Sprintf(" rtx=%d", s.rtx)
		}
		if s.fec != 0 {
			x += fmt.Sprintf(" fec=%d", s.fec)
		}
		return x
	}
	// a header SSRC that is not the stream's
	hsPick := func(s *st) int {
		o := streams[r.Intn(len(streams))]
		c := []int{s.rtx, s.rtx, s.rtx, s.fec, o.ssrc, o.ssrc, o.rtx, o.fec, r.Pick(0, 4294967295, 555555, s.ssrc^1, s.ssrc^0x80000000)}
		if v := c[r.Intn(len(c))]; v != 0 || r.Chance(1, 8) {
			return v
		}
		return o.ssrc
	}
	if foreign {
		hsStale = func(ssrc int) int {
			for _, s := range streams {
				if s.ssrc == ssrc {
					return hsPick(s)
				}
			}
			return ssrc
		}
	}
	if cl == "tickfirst" {
		for i := r.Range(1, 3); i > 0; i-- {
			ops = append(ops, fmt.Sprintf("tick dt=%d", dts[r.Intn(len(dts))]))
		}
	}
	for i, s := range streams {
		if i == 0 && r.Chance(1, 4) {
			// a configured clock that is not the ticker's: a millisecond to decades, both signs (inside NTP era 0)
			ops = append(ops, fmt.Sprintf("bind ssrc=%d rate=%d latest=%d skew=%d%s", s.ssrc, s.rate, latest, r.Pick(1000000, -1000000,
				999999999, -1000000000, 3600000000000, -86400000000000, 315576000000000000, -315576000000000000,
				1104537600000000000, -2900000000000000000), bindExtra(s)))
			continue
		}
		if stepping && r.Chance(1, 4) {
			ops = append(ops, stepOp()) // before the interceptor exists / before the stream is bound
		}
		ops = append(ops, fmt.Sprintf("bind ssrc=%d rate=%d latest=%d%s", s.ssrc, s.rate, latest, bindExtra(s)))
		if cl == "tickfirst" && r.Bool() {
			ops = append(ops, fmt.Sprintf("tick dt=%d", dts[r.Intn(len(dts))]))
		}
	}
	n := r.Range(3, 40)
	for i := 0; i < n; i++ {
		s := streams[r.Intn(len(streams))]
		dt := dts[r.Intn(len(dts))]
		if cl == "longgap" && r.Chance(1, 4) {
			dt = r.Pick(3600000000000, 86400000000000, 4000000000000000, 123456789012)
		}
		ln := r.Pick(0, 1, 100, 1200, 1459, 1460)
		if cl == "payload" || cl == "mixed" {
			ln = r.Range(0, 1460)
		}
		seq, ts := s.seq, s.ts
		switch {
		case (cl == "ooo" || cl == "mixed") && r.Chance(1, 3):
			// an older (or far newer) packet: does not advance the stream position
			seq = (s.seq + 65536 - r.Pick(1, 2, 5, 100, 32767, 32768, 32769, 40000)) % 65536
			ts = (s.ts + (1 << 32) - r.Pick(0, 3000, 6000)) % (1 << 32)
		case (cl == "frames" || cl == "mixed" || cl == "ts0first") && r.Chance(1, 2):
			// another packet of the same frame: same timestamp
			s.seq = (s.seq + 1) % 65536
			seq = s.seq
		default:
			s.seq = (s.seq + r.Pick(1, 1, 1, 1, 2, 3, 0)) % 65536
			s.ts = (s.ts + s.tsStep) % (1 << 32)
			seq, ts = s.seq, s.ts
		}
		w := fmt.Sprintf("write ssrc=%d seq=%d ts=%d len=%d dt=%d", s.ssrc, seq, ts, ln, dt)
		if foreign && r.Chance(1, 4) {
			w += fmt.Sprintf(" hs=%d", hsPick(s))
		}
		ops = append(ops, w)
		if foreign && r.Chance(1, 3) {
			// resends / repair packets as a NACK responder or FEC encoder above hands them to this writer: their own SSRC and
			// numbering, the timestamp of an earlier (or the newest) packet, two bytes more (the original sequence number)
			for k := r.Pick(1, 1, 2, 3); k > 0; k-- {
				s.rtxSeq = (s.rtxSeq + 1) % 65536
				ops = append(ops, fmt.Sprintf("write ssrc=%d seq=%d ts=%d len=%d dt=%d hs=%d", s.ssrc, s.rtxSeq,
					(s.ts+(1<<32)-r.Pick(0, 1, 2, 5)*s.tsStep%(1<<32))%(1<<32), ln+2, r.Pick(0, 0, 1000, 1000000, 20000000), hsPick(s)))
			}
		}
		if stepping && r.Chance(1, 5) {
			ops = append(ops, stepOp()) // between a packet and the next packet / report
		}
		if hasStale[s.ssrc] && (cl == "stale" || r.Chance(1, 3)) {
			for k := r.Pick(0, 1, 1, 2, 3); k > 0; k-- {
				// the late packet continues the OLD numbering (anything), or would be the next / an older / a far
				// newer packet of the new binding
				ops = append(ops, staleOp(s.ssrc, s.seq+r.Pick(1, 1, 2, 0, 65535, 65436, 100, 32767, 32768, 40000),
					(s.ts+r.Pick(0, s.tsStep, 3000, (1<<32)-3000, 1<<31))%(1<<32)))
			}
		}
		if r.Chance(1, 4) {
			ops = append(ops, fmt.Sprintf("tick dt=%d", dts[r.Intn(len(dts))]))
			if stepping && r.Chance(1, 2) {
				// two successive reports of the same loop with a step between them and nothing else
				ops = append(ops, stepOp(), fmt.Sprintf("tick dt=%d", dts[r.Intn(len(dts))]))
			}
		}
		if (cl == "rebind" && r.Chance(1, 8)) || (cl == "stale" && r.Chance(1, 4)) || (cl == "mixed" && r.Chance(1, 16)) {
			if r.Bool() {
				ops = append(ops, fmt.Sprintf("unbind ssrc=%d", s.ssrc), fmt.Sprintf("tick dt=%d", dts[r.Intn(len(dts))]))
				if cl == "stale" && r.Bool() {
					ops = append(ops, staleOp(s.ssrc, s.seq+1, s.ts), fmt.Sprintf("tick dt=%d", dts[r.Intn(len(dts))]))
				}
			}
			rate := rates[r.Intn(len(rates))]
			if cl == "stale" && r.Chance(2, 3) {
				rate = s.rate
			}
			ops = append(ops, fmt.Sprintf("bind ssrc=%d rate=%d latest=%d%s", s.ssrc, rate, latest, bindExtra(s)))
			hasStale[s.ssrc] = true
			if cl == "stale" {
				// late packets before the new binding has sent anything (its first packet is still to come)
				for k := r.Pick(0, 1, 2); k > 0; k-- {
					ops = append(ops, staleOp(s.ssrc, s.seq+k, (s.ts+k*s.tsStep)%(1<<32)))
				}
				if r.Chance(1, 3) {
					ops = append(ops, fmt.Sprintf("tick dt=%d", dts[r.Intn(len(dts))]))
				}
				if r.Chance(1, 3) { // the new binding starts its own numbering
					s.seq, s.ts = r.Intn(65536), int(r.U64()%(1<<32))
				}
			}
		}
	}
	ops = append(ops, fmt.Sprintf("tick dt=%d", dts[r.Intn(len(dts))]))
	if stepping {
		ops = append(ops, stepOp(), fmt.Sprintf("tick dt=%d", dts[r.Intn(len(dts))]))
	}
	return Case{Class: class, Ops: ops}
}

func init() {
	register("senderreport", &Comp{
		N: func(tier string) int {
			if tier == "thorough" {
				return 100000
			}
			return 2800
		},
		Gen: c07Gen,
		Run: c07Run,
	})
}

package corr

// C11 lifecycle correspondence: every interceptor is driven through sequences of lifecycle calls
// (Bind*/Unbind*/traffic/Close) inside a testing/synctest bubble; every API call is issued from its
// own goroutine so that a call that blocks forever is observed (BLOCKED) instead of wedging the
// harness.  Observables: which calls returned, which SSRCs the periodic RTCP emissions mention,
// emissions after Close / about unbound streams, and goroutines left behind at the end.

import (
	"fmt"
	"io"
	"runtime"
	"sort"
	"strings"
	"sync"
	"sync/atomic"
	"testing"
	"testing/synctest"
	"time"

	"github.com/pion/interceptor"
	"github.com/pion/interceptor/pkg/cc"
	"github.com/pion/interceptor/pkg/flexfec"
	"github.com/pion/interceptor/pkg/gcc"
	"github.com/pion/interceptor/pkg/intervalpli"
	"github.com/pion/interceptor/pkg/jitterbuffer"
	"github.com/pion/interceptor/pkg/nack"
	"github.com/pion/interceptor/pkg/pacing"
	"github.com/pion/interceptor/pkg/packetdump"
	"github.com/pion/interceptor/pkg/report"
	"github.com/pion/interceptor/pkg/rfc8888"
	"github.com/pion/interceptor/pkg/rtpfb"
	"github.com/pion/interceptor/pkg/stats"
	"github.com/pion/interceptor/pkg/twcc"
	"github.com/pion/rtcp"
	"github.com/pion/rtp"
)

const lcTwccURI = "http://www.ietf.org/id/draft-holmer-rmcat-transport-wide-cc-extensions-01"

// lcInterval is the virtual reporting interval every timer-driven interceptor is configured with.
const lcInterval = 10 * time.Millisecond

var lcKinds = map[string]func() (interceptor.Factory, error){
	"rr": func() (interceptor.Factory, error) {
		return report.NewReceiverInterceptor(report.ReceiverInterval(lcInterval))
	},
	"sr": func() (interceptor.Factory, error) {
		return report.NewSenderInterceptor(report.SenderInterval(lcInterval))
	},
	"pli": func() (interceptor.Factory, error) {
		return intervalpli.NewReceiverInterceptor(intervalpli.GeneratorInterval(lcInterval))
	},
	// periodic PLIs switched off (a legal option value): only the PLI on bind / ForcePLI remains
	"pli0": func() (interceptor.Factory, error) {
		return intervalpli.NewReceiverInterceptor(intervalpli.GeneratorInterval(0))
	},
	"nackgen": func() (interceptor.Factory, error) {
		return nack.NewGeneratorInterceptor(nack.GeneratorInterval(lcInterval), nack.GeneratorSize(64))
	},
	"nackresp": func() (interceptor.Factory, error) { return nack.NewResponderInterceptor(nack.ResponderSize(8)) },
	"twcc":     func() (interceptor.Factory, error) { return twcc.NewSenderInterceptor(twcc.SendInterval(lcInterval)) },
	"twcchdr":  func() (interceptor.Factory, error) { return twcc.NewHeaderExtensionInterceptor() },
	"rfc8888": func() (interceptor.Factory, error) {
		return rfc8888.NewSenderInterceptor(rfc8888.SendInterval(lcInterval))
	},
	"rtpfb": func() (interceptor.Factory, error) { return rtpfb.NewInterceptor() },
	"stats": func() (interceptor.Factory, error) { return stats.NewInterceptor() },
	"dumps": func() (interceptor.Factory, error) {
		return packetdump.NewSenderInterceptor(packetdump.RTPWriter(io.Discard), packetdump.RTCPWriter(io.Discard))
	},
	"dumpr": func() (interceptor.Factory, error) {
		return packetdump.NewReceiverInterceptor(packetdump.RTPWriter(io.Discard), packetdump.RTCPWriter(io.Discard))
	},
	"flexfec": func() (interceptor.Factory, error) {
		return flexfec.NewFecInterceptor(flexfec.NumMediaPackets(3), flexfec.NumFECPackets(1))
	},
	"jitter": func() (interceptor.Factory, error) { return jitterbuffer.NewInterceptor() },
	"pacing": func() (interceptor.Factory, error) {
		return pacing.NewInterceptor(pacing.InitialRate(10_000_000), pacing.Interval(5*time.Millisecond)), nil
	},
	"ccgcc": func() (interceptor.Factory, error) {
		return cc.NewInterceptor(func() (cc.BandwidthEstimator, error) {
			return gcc.NewSendSideBWE(gcc.SendSideBWEInitialBitrate(1_000_000))
		})
	},
}

// lcKindsApp: the kinds whose constructor takes more than one functional option, with the option list in the order
// the case's application writes it (streaminfo_test.go, appShuffle): options that set different fields commute.
var lcKindsApp = map[string]func(a *App) (interceptor.Factory, error){
	"nackgen": func(a *App) (interceptor.Factory, error) {
		return nack.NewGeneratorInterceptor(appShuffle(a, []nack.GeneratorOption{nack.GeneratorInterval(lcInterval), nack.GeneratorSize(64)})...)
	},
	"dumps": func(a *App) (interceptor.Factory, error) {
		return packetdump.NewSenderInterceptor(appShuffle(a, []packetdump.PacketDumperOption{packetdump.RTPWriter(io.Discard), packetdump.RTCPWriter(io.Discard)})...)
	},
	"dumpr": func(a *App) (interceptor.Factory, error) {
		return packetdump.NewReceiverInterceptor(appShuffle(a, []packetdump.PacketDumperOption{packetdump.RTPWriter(io.Discard), packetdump.RTCPWriter(io.Discard)})...)
	},
	"flexfec": func(a *App) (interceptor.Factory, error) {
		return flexfec.NewFecInterceptor(appShuffle(a, []flexfec.FecOption{flexfec.NumMediaPackets(3), flexfec.NumFECPackets(1)})...)
	},
	"pacing": func(a *App) (interceptor.Factory, error) {
		return pacing.NewInterceptor(appShuffle(a, []pacing.Option{pacing.InitialRate(10_000_000), pacing.Interval(5 * time.Millisecond)})...), nil
	},
}

// a chain member whose Close fails: the remaining members must still be closed
type lcFailCloser struct{ interceptor.NoOp }

func (*lcFailCloser) Close() error { return io.ErrUnexpectedEOF }

type lcChainFactory struct {
	inner func() (interceptor.Factory, error)
	first bool
}

func (c lcChainFactory) NewInterceptor(id string) (interceptor.Interceptor, error) {
	f, err := c.inner()
	if err != nil {
		return nil, err
	}
	ic, err := f.NewInterceptor(id)
	if err != nil {
		return nil, err
	}
	if c.first {
		return interceptor.NewChain([]interceptor.Interceptor{&lcFailCloser{}, ic}), nil
	}
	return interceptor.NewChain([]interceptor.Interceptor{ic, &lcFailCloser{}}), nil
}

func init() {
	rr, pli := lcKinds["rr"], lcKinds["pli"]
	lcKinds["chainrr"] = func() (interceptor.Factory, error) { return lcChainFactory{inner: rr, first: true}, nil }
	lcKinds["chainpli"] = func() (interceptor.Factory, error) { return lcChainFactory{inner: pli, first: false}, nil }
}

func lcKindNames() []string {
	var ks []string
	for k := range lcKinds {
		ks = append(ks, k)
	}
	sort.Strings(ks)
	return ks
}

func lcInfo(ssrc uint32) *interceptor.StreamInfo {
	return &interceptor.StreamInfo{
		SSRC: ssrc, SSRCRetransmission: ssrc + 1000, SSRCForwardErrorCorrection: ssrc + 2000,
		PayloadType: 96, PayloadTypeRetransmission: 97, PayloadTypeForwardErrorCorrection: 98,
		ClockRate: 90000, MimeType: "video/VP8",
		RTPHeaderExtensions: []interceptor.RTPHeaderExtension{{URI: lcTwccURI, ID: 5}},
		RTCPFeedback: []interceptor.RTCPFeedback{{Type: "nack"}, {Type: "nack", Parameter: "pli"},
			{Type: "transport-cc"}, {Type: "ack", Parameter: "ccfb"}},
	}
}

// media SSRCs an RTCP packet is about (what "a report about that SSRC" means).
func lcMentioned(p rtcp.Packet) []uint32 {
	switch x := p.(type) {
	case *rtcp.ReceiverReport:
		var r []uint32
		for _, b := range x.Reports {
			r = append(r, b.SSRC)
		}
		return r
	case *rtcp.SenderReport:
		return []uint32{x.SSRC}
	case *rtcp.TransportLayerNack:
		return []uint32{x.MediaSSRC}
	case *rtcp.PictureLossIndication:
		return []uint32{x.MediaSSRC}
	case *rtcp.TransportLayerCC:
		return []uint32{x.MediaSSRC}
	case *rtcp.CCFeedbackReport:
		var r []uint32
		for _, b := range x.ReportBlocks {
			r = append(r, b.MediaSSRC)
		}
		return r
	}
	return p.DestinationSSRC()
}

type lcState struct {
	mu         sync.Mutex
	ic         interceptor.Interceptor
	emitted    map[uint32]bool // media SSRCs mentioned by RTCP emissions since the last op
	rtcpN      int
	failAt     map[int]bool
	errKinds   []string // WHICH error the failing writers return (ambient_test.go, AmbErrOf), in turn
	nFail      int64
	rtpFail    ambSched // calls of the stream writers that fail
	rtpN       int64
	rtpOut     []string
	writers    map[uint32]interceptor.RTPWriter
	readers    map[uint32]interceptor.RTPReader
	rtcpR      interceptor.RTCPReader
	rseq       map[uint32]uint16
	rtcpSeen   int
	blocked    int
	exact      bool
	closedAt   bool // set by the harness right after Close returned
	lateRTP    int  // RTP writes that reached a stream writer after Close returned
	lastSeq    map[uint32]uint16
	nackFor    *[2]uint32    // if set, the next RTCP read delivers a NACK for (ssrc, seq)
	gate       chan struct{} // when non-nil, stream writers block on it (a slow downstream)
	inGate     int
	appWriting bool
	nackMask   uint16
	rtcpGate   chan struct{} // when non-nil, the RTCP writer blocks on it
	inRtcpGate int
	// RTP writes that reached a stream writer for an SSRC after its Unbind returned
	rtpAfterUnbind map[uint32]int
	unbound        map[uint32]bool
	// the application of the case (streaminfo_test.go) and the StreamInfo objects it handed to Bind*
	app          *App
	liveL, liveR map[uint32]*interceptor.StreamInfo
}

// bound: Bind* is called with the application's own object for the stream; once the call has returned the
// application goes on using that object as it likes.
func (s *lcState) bound(o *Out, live map[uint32]*interceptor.StreamInfo, ssrc uint32, bind func(info *interceptor.StreamInfo)) {
	info := s.app.BindInfo(lcInfo(ssrc))
	was := s.blocked
	s.call(o, func() { bind(info) })
	if s.blocked == was {
		s.app.AfterBind(info)
		live[ssrc] = info
	}
}

func (s *lcState) call(o *Out, f func()) {
	done := make(chan struct{})
	panicked := ""
	go func() {
		defer close(done)
		defer func() {
			if r := recover(); r != nil {
				panicked = fmt.Sprint(r)
			}
		}()
		f()
	}()
	synctest.Wait()
	select {
	case <-done:
		if panicked != "" {
			o.P("PANIC %s", panicked)
		} else {
			o.P("ret")
		}
	default:
		s.blocked++
		o.P("BLOCKED")
	}
}

// failErr is the value the next failing writer call returns: io.ErrClosedPipe unless the case names its kinds
// (`new … err=osclosed,eof!`); the interceptor is still bound and must keep working whatever the value.
func (s *lcState) failErr() error {
	if len(s.errKinds) == 0 {
		return io.ErrClosedPipe
	}
	n := atomic.AddInt64(&s.nFail, 1)
	return AmbErrOf(s.errKinds[int(n-1)%len(s.errKinds)], n)
}

func (s *lcState) flush(o *Out, tag string) {
	s.mu.Lock()
	var ss []uint32
	for k := range s.emitted {
		ss = append(ss, k)
	}
	s.emitted = map[uint32]bool{}
	s.mu.Unlock()
	sort.Slice(ss, func(i, j int) bool { return ss[i] < ss[j] })
	if !s.exact && tag != "afterclose" {
		ss = nil // data-dependent emitters: only emissions after Close are compared
	}
	if !s.exact && tag == "afterclose" && len(ss) > 0 {
		o.P("%s LATE-EMISSION %s", tag, joinInts(ss))
		return
	}
	o.P("%s %s", tag, joinInts(ss))
}

func lcRun(t *testing.T, ops []string, o *Out) {
	app, ops := appOf(ops)
	base := runtime.NumGoroutine()
	residual := "clean"
	func() {
		defer func() {
			if r := recover(); r != nil {
				msg := fmt.Sprint(r)
				if strings.Contains(msg, "deadlock") || strings.Contains(msg, "blocked") {
					residual = "stuck-goroutines"
				} else {
					panic(r)
				}
			}
		}()
		synctest.Test(t, func(t *testing.T) {
			s := &lcState{emitted: map[uint32]bool{}, failAt: map[int]bool{}, writers: map[uint32]interceptor.RTPWriter{},
				readers: map[uint32]interceptor.RTPReader{}, rseq: map[uint32]uint16{}, lastSeq: map[uint32]uint16{},
				rtpAfterUnbind: map[uint32]int{}, unbound: map[uint32]bool{},
				app: app, liveL: map[uint32]*interceptor.StreamInfo{}, liveR: map[uint32]*interceptor.StreamInfo{}}
			closed := false
			sawEnd := false
			for _, op := range ops {
				name, a := kv(op)
				if s.ic == nil && name != "new" && name != "end" {
					o.P("bad-op")
					continue
				}
				switch name {
				case "new":
					if k := a["err"]; k != "" {
						s.errKinds = strings.Split(k, ",")
					}
					s.rtpFail = parseSched(a["rtpfailat"])
					mk := lcKinds[a["kind"]]
					if mka, ok := lcKindsApp[a["kind"]]; ok && app != nil {
						mk = func() (interceptor.Factory, error) { return mka(app) }
					}
					if df := a["dumpfail"]; df != "" && (a["kind"] == "dumps" || a["kind"] == "dumpr") {
						// the dump output (an io.Writer the application supplied: a file, a pipe) fails at chosen calls
						mk = func() (interceptor.Factory, error) {
							out := &AmbFailWriter{Sched: parseSched(df), Kinds: s.errKinds}
							if a["kind"] == "dumps" {
								return packetdump.NewSenderInterceptor(packetdump.RTPWriter(out), packetdump.RTCPWriter(out))
							}
							return packetdump.NewReceiverInterceptor(packetdump.RTPWriter(out), packetdump.RTCPWriter(out))
						}
					}
					f, err := mk()
					if err != nil {
						o.P("err:new")
						return
					}
					s.ic, err = f.NewInterceptor("lc")
					if err != nil {
						o.P("err:new")
						return
					}
					switch a["kind"] {
					case "rr", "sr", "pli", "pli0", "nackgen", "chainrr", "chainpli":
						s.exact = true
					}
					for _, k := range parseInts(a["failat"]) {
						s.failAt[k] = true
					}
				case "bindw":
					s.call(o, func() {
						s.ic.BindRTCPWriter(interceptor.RTCPWriterFunc(func(pkts []rtcp.Packet, _ interceptor.Attributes) (int, error) {
							s.mu.Lock()
							s.rtcpN++
							for _, p := range pkts {
								for _, m := range lcMentioned(p) {
									s.emitted[m] = true
								}
							}
							fail := s.failAt[s.rtcpN]
							g := s.rtcpGate
							if g != nil {
								s.inRtcpGate++
							}
							s.mu.Unlock()
							if g != nil {
								<-g
							}
							if fail {
								return 0, s.failErr()
							}
							return 0, nil
						}))
					})
				case "bindr":
					s.call(o, func() {
						s.rtcpR = s.ic.BindRTCPReader(interceptor.RTCPReaderFunc(func(b []byte, at interceptor.Attributes) (int, interceptor.Attributes, error) {
							s.rtcpSeen++
							k := s.rtcpSeen
							var pk []rtcp.Packet
							if s.nackFor != nil {
								pk = []rtcp.Packet{&rtcp.TransportLayerNack{SenderSSRC: 9, MediaSSRC: s.nackFor[0], Nacks: []rtcp.NackPair{{PacketID: uint16(s.nackFor[1]), LostPackets: rtcp.PacketBitmap(s.nackMask)}}}}
								s.nackFor = nil
								s.nackMask = 0
								raw, _ := rtcp.Marshal(pk)
								return copy(b, raw), at, nil
							}
							switch k % 3 {
							case 0:
								pk = []rtcp.Packet{&rtcp.SenderReport{SSRC: uint32(1 + k%3), NTPTime: uint64(k) << 32}}
							case 1:
								pk = []rtcp.Packet{&rtcp.TransportLayerNack{SenderSSRC: 9, MediaSSRC: uint32(1 + k%3), Nacks: []rtcp.NackPair{{PacketID: 1}}}}
							default:
								pk = []rtcp.Packet{&rtcp.ReceiverReport{SSRC: 9, Reports: []rtcp.ReceptionReport{{SSRC: uint32(1 + k%3)}}}}
							}
							raw, _ := rtcp.Marshal(pk)
							return copy(b, raw), at, nil
						}))
					})
				case "bl":
					ssrc := uint32(atoi(a["ssrc"]))
					s.bound(o, s.liveL, ssrc, func(info *interceptor.StreamInfo) {
						s.writers[ssrc] = s.ic.BindLocalStream(info, interceptor.RTPWriterFunc(
							func(h *rtp.Header, p []byte, _ interceptor.Attributes) (int, error) {
								s.mu.Lock()
								g := s.gate
								if g != nil {
									s.inGate++
								}
								s.mu.Unlock()
								if g != nil {
									<-g
								}
								s.mu.Lock()
								if s.unbound[ssrc] && !s.appWriting {
									s.rtpAfterUnbind[ssrc]++
								}
								if s.closedAt && !s.appWriting {
									s.lateRTP++ // not the pass-through of an application write: sent by the interceptor itself
								}
								s.rtpN++
								fail := s.rtpFail.hit(s.rtpN)
								s.mu.Unlock()
								if fail {
									return 0, s.failErr()
								}
								return len(p), nil
							}))
					})
				case "br":
					ssrc := uint32(atoi(a["ssrc"]))
					s.bound(o, s.liveR, ssrc, func(info *interceptor.StreamInfo) {
						s.readers[ssrc] = s.ic.BindRemoteStream(info, interceptor.RTPReaderFunc(
							func(b []byte, at interceptor.Attributes) (int, interceptor.Attributes, error) {
								s.rseq[ssrc] += 2 // every second number is lost: keeps the NACK generator talking
								h := rtp.Header{Version: 2, SSRC: ssrc, PayloadType: 96, SequenceNumber: s.rseq[ssrc],
									Timestamp: uint32(s.rseq[ssrc]) * 90, Extension: true, ExtensionProfile: 0xBEDE}
								_ = h.SetExtension(5, []byte{byte(s.rseq[ssrc] >> 8), byte(s.rseq[ssrc])})
								n, err := h.MarshalTo(b)
								if err != nil {
									return 0, nil, err
								}
								n += copy(b[n:], []byte{1, 2, 3, 4})
								return n, at, nil
							}))
					})
				case "busybind":
					// two remote streams are bound while the loop is kept busy inside a slow RTCP writer: the request
					// made for the second one must not be lost (it is served as soon as the writer returns)
					g := make(chan struct{})
					s.mu.Lock()
					s.rtcpGate = g
					s.mu.Unlock()
					for _, k := range []string{"a", "b"} {
						ssrc := uint32(atoi(a[k]))
						s.bound(o, s.liveR, ssrc, func(info *interceptor.StreamInfo) {
							s.readers[ssrc] = s.ic.BindRemoteStream(info, interceptor.RTPReaderFunc(
								func(b []byte, at interceptor.Attributes) (int, interceptor.Attributes, error) {
									return 0, at, io.EOF
								}))
						})
						synctest.Wait()
					}
					s.mu.Lock()
					s.rtcpGate = nil
					s.mu.Unlock()
					close(g)
					synctest.Wait()
					s.flush(o, "busy")
				case "ul":
					ssrc := uint32(atoi(a["ssrc"]))
					// a stream is named by its SSRC: whatever else the StreamInfo says by now (app op, `unbind=`)
					ui := s.app.UnbindInfo(lcInfo(ssrc), s.liveL[ssrc])
					s.call(o, func() { s.ic.UnbindLocalStream(ui) })
				case "ur":
					ssrc := uint32(atoi(a["ssrc"]))
					ui := s.app.UnbindInfo(lcInfo(ssrc), s.liveR[ssrc])
					s.call(o, func() { s.ic.UnbindRemoteStream(ui) })
				case "w":
					ssrc := uint32(atoi(a["ssrc"]))
					w := s.writers[ssrc]
					if w == nil {
						o.P("unbound")
						continue
					}
					seq := uint16(atoi(a["seq"]))
					s.lastSeq[ssrc] = seq
					s.call(o, func() {
						s.mu.Lock()
						s.appWriting = true
						s.mu.Unlock()
						_, _ = w.Write(&rtp.Header{Version: 2, SSRC: ssrc, PayloadType: 96, SequenceNumber: seq, Timestamp: uint32(seq) * 90}, []byte{1, 2, 3}, nil)
						s.mu.Lock()
						s.appWriting = false
						s.mu.Unlock()
					})
				case "r":
					ssrc := uint32(atoi(a["ssrc"]))
					r := s.readers[ssrc]
					if r == nil {
						o.P("unbound")
						continue
					}
					s.call(o, func() { buf := make([]byte, 1500); _, _, _ = r.Read(buf, interceptor.Attributes{}) })
				case "rtcp":
					if s.rtcpR == nil {
						o.P("unbound")
						continue
					}
					s.call(o, func() { buf := make([]byte, 1500); _, _, _ = s.rtcpR.Read(buf, interceptor.Attributes{}) })
				case "adv":
					s.flush(o, "pre")
					time.Sleep(time.Duration(atoi(a["ms"])) * time.Millisecond)
					synctest.Wait()
					s.flush(o, "emit")
				case "close":
					s.call(o, func() { _ = s.ic.Close(); s.mu.Lock(); s.closedAt = true; s.mu.Unlock() })
					closed = true
				case "gateclose2":
					// the RTCP writer is slow: a tick leaves the loop inside Write; two Close calls from two goroutines
					// must both wait for it
					g := make(chan struct{})
					s.mu.Lock()
					s.rtcpGate = g
					s.mu.Unlock()
					time.Sleep(time.Duration(atoi(a["ms"])) * time.Millisecond)
					synctest.Wait()
					s.mu.Lock()
					stuck := s.inRtcpGate > 0
					s.mu.Unlock()
					c1, c2 := make(chan struct{}), make(chan struct{})
					go func() { _ = s.ic.Close(); close(c1) }()
					synctest.Wait()
					go func() { _ = s.ic.Close(); close(c2) }()
					synctest.Wait()
					early := func(c chan struct{}) bool {
						select {
						case <-c:
							return true
						default:
							return false
						}
					}
					e1, e2 := early(c1), early(c2)
					s.mu.Lock()
					s.rtcpGate = nil
					s.mu.Unlock()
					close(g)
					synctest.Wait()
					<-c1
					<-c2
					s.mu.Lock()
					s.closedAt = true
					s.mu.Unlock()
					closed = true
					o.P("stuck=%v early1=%v early2=%v", stuck, e1 && stuck, e2 && stuck)
				case "nackgateunbind":
					// a multi-packet retransmission is inside a slow downstream Write while the stream is unbound: after
					// Unbind returns at most the packet in flight may still be written for that SSRC
					ssrc := uint32(atoi(a["ssrc"]))
					if s.rtcpR == nil {
						o.P("unbound")
						continue
					}
					g := make(chan struct{})
					s.mu.Lock()
					s.gate = g
					s.inGate = 0
					s.mu.Unlock()
					last := s.lastSeq[ssrc]
					s.nackFor = &[2]uint32{ssrc, uint32(last - 3)}
					s.nackMask = 0x7
					buf := make([]byte, 1500)
					_, _, _ = s.rtcpR.Read(buf, interceptor.Attributes{})
					synctest.Wait()
					s.mu.Lock()
					inflight := s.inGate
					s.mu.Unlock()
					ud := make(chan struct{})
					ui := s.app.UnbindInfo(lcInfo(ssrc), s.liveL[ssrc])
					go func() { s.ic.UnbindLocalStream(ui); close(ud) }()
					synctest.Wait()
					select {
					case <-ud:
					default:
						o.P("BLOCKED")
					}
					s.mu.Lock()
					s.unbound[ssrc] = true
					s.gate = nil
					s.mu.Unlock()
					close(g)
					synctest.Wait()
					s.mu.Lock()
					n := s.rtpAfterUnbind[ssrc]
					s.mu.Unlock()
					o.P("inflight %d after-unbind %d", inflight, n)
				case "nackgateclose":
					// a retransmission is inside a slow downstream Write while Close is called: Close must wait for it
					ssrc := uint32(atoi(a["ssrc"]))
					if s.rtcpR == nil {
						o.P("unbound")
						continue
					}
					s.mu.Lock()
					s.gate = make(chan struct{})
					s.mu.Unlock()
					s.nackFor = &[2]uint32{ssrc, uint32(s.lastSeq[ssrc])}
					buf := make([]byte, 1500)
					_, _, _ = s.rtcpR.Read(buf, interceptor.Attributes{})
					synctest.Wait()
					s.mu.Lock()
					inflight := s.inGate
					s.mu.Unlock()
					closeDone := make(chan struct{})
					go func() {
						_ = s.ic.Close()
						s.mu.Lock()
						s.closedAt = true
						s.mu.Unlock()
						close(closeDone)
					}()
					synctest.Wait()
					returnedEarly := false
					select {
					case <-closeDone:
						returnedEarly = true
					default:
					}
					s.mu.Lock()
					g := s.gate
					s.gate = nil
					s.mu.Unlock()
					close(g)
					synctest.Wait()
					<-closeDone
					closed = true
					o.P("inflight %d close-waited %v", inflight, !(returnedEarly && inflight > 0))
				case "nackclose":
					// an RTCP read carrying a NACK for the last packet written on ssrc, then Close straight away from the
					// same goroutine: anything the interceptor still sends afterwards is a write after Close
					ssrc := uint32(atoi(a["ssrc"]))
					if s.rtcpR == nil {
						o.P("unbound")
						continue
					}
					s.nackFor = &[2]uint32{ssrc, uint32(s.lastSeq[ssrc])}
					s.call(o, func() {
						buf := make([]byte, 1500)
						_, _, _ = s.rtcpR.Read(buf, interceptor.Attributes{})
						_ = s.ic.Close()
						s.mu.Lock()
						s.closedAt = true
						s.mu.Unlock()
					})
					closed = true
				case "end":
					sawEnd = true
				default:
					o.P("bad-op")
				}
			}
			if !sawEnd {
				if !closed && s.ic != nil {
					_ = s.ic.Close()
				}
				return
			}
			s.flush(o, "tail")
			if !closed && s.ic != nil {
				s.call(o, func() { _ = s.ic.Close(); s.mu.Lock(); s.closedAt = true; s.mu.Unlock() })
			}
			time.Sleep(3 * lcInterval)
			synctest.Wait()
			s.flush(o, "afterclose")
			o.P("late-rtp %d", s.lateRTP)
			o.P("blocked %d", s.blocked)
		})
	}()
	if residual != "clean" || endSeen(ops) {
		o.P("end %s", residual)
	}
	_ = base
}

func init() {
	register("lifecycle", &Comp{
		Serial: false,
		N: func(tier string) int {
			if tier == "thorough" {
				return 40000
			}
			return 1600
		},
		Gen: func(r *Rng, tier string, idx int) Case {
			r = NewRng(r.U64() ^ 0xC11C11C11)
			kinds := lcKindNames()
			kind := kinds[idx%len(kinds)]
			ops := []string{"new kind=" + kind}
			if r.Chance(1, 4) {
				ops[0] += fmt.Sprintf(" failat=%d,%d", r.Range(1, 4), r.Range(5, 9))
			}
			// which error, and when: the failing writers (RTCP writer, stream writers, the dump output of packetdump)
			// return well-known sentinel values; the interceptor stays bound and traffic goes on
			if wr := NewRng(r.U64()); wr.Chance(2, 3) {
				if !strings.Contains(ops[0], "failat=") {
					ops[0] += " failat=" + []string{"1", "2", "1,2,3", "2,4,6,8", "1,3,5,7,9"}[wr.Intn(5)]
				}
				ops[0] += " " + strings.Replace(ambErrKinds(wr), "errs=", "err=", 1)
				if wr.Chance(1, 2) {
					ops[0] += " rtpfailat=" + []string{"1", "2", "1,2", "%2", "%3", "%1", "%1", "%2"}[wr.Intn(8)]
				}
				if kind == "dumps" || kind == "dumpr" {
					ops[0] += " dumpfail=" + []string{"1", "2", "1,2", "%2", "%3", "%1", "%1", "%2"}[wr.Intn(8)]
				}
			}
			templ := idx / len(kinds) % 9
			seq := 1
			traffic := func(ssrcs []int) {
				for _, s := range ssrcs {
					ops = append(ops, fmt.Sprintf("w ssrc=%d seq=%d", s, seq), fmt.Sprintf("r ssrc=%d", s))
					seq++
				}
			}
			switch templ {
			case 0: // the normal order
				ops = append(ops, "bindw", "bindr", "bl ssrc=1", "br ssrc=1", "bl ssrc=2", "br ssrc=2")
				traffic([]int{1, 2})
				ops = append(ops, "adv ms=25", "rtcp")
				traffic([]int{1, 2})
				ops = append(ops, "ur ssrc=1", "ul ssrc=1", "adv ms=5")
				traffic([]int{2})
				ops = append(ops, "adv ms=25", "close", "w ssrc=2 seq=99", "r ssrc=2", "rtcp", "adv ms=25")
			case 1: // streams before the RTCP writer exists
				ops = append(ops, "br ssrc=1", "br ssrc=2", "bl ssrc=1", "bl ssrc=2", "bindw", "adv ms=15", "ur ssrc=2", "adv ms=25", "close")
			case 2: // close first, then everything (and Close once more where that is defined)
				ops = append(ops, "close", "bindw", "bindr", "bl ssrc=1", "br ssrc=1", "w ssrc=1 seq=1", "r ssrc=1", "rtcp", "ul ssrc=1", "ur ssrc=1", "adv ms=25")
				if kind != "pacing" && kind != "ccgcc" {
					ops = append(ops, "close", "adv ms=5")
				}
			case 3: // re-bind the same SSRC
				ops = append(ops, "bindw", "br ssrc=1", "bl ssrc=1")
				traffic([]int{1})
				ops = append(ops, "adv ms=15", "ur ssrc=1", "ul ssrc=1", "adv ms=25", "br ssrc=1", "bl ssrc=1")
				traffic([]int{1})
				ops = append(ops, "adv ms=25")
			case 4: // a NACK is being answered while Close runs
				ops = append(ops, "bindw", "bindr", "bl ssrc=1", "bl ssrc=2")
				traffic2 := []string{"w ssrc=1 seq=7", "w ssrc=2 seq=8", "w ssrc=1 seq=9"}
				ops = append(ops, traffic2[:r.Range(1, 3)]...)
				switch r.Intn(3) {
				case 0:
					ops = append(ops, fmt.Sprintf("nackclose ssrc=%d", r.Range(1, 2)), "adv ms=25")
				case 1:
					ops = append(ops, fmt.Sprintf("nackgateclose ssrc=%d", r.Range(1, 2)), "adv ms=25")
				default:
					ops = append(ops, "w ssrc=1 seq=11", "w ssrc=1 seq=12", "w ssrc=1 seq=13", "w ssrc=1 seq=14",
						"nackgateunbind ssrc=1", "adv ms=25")
				}
			case 5: // a slow RTCP writer, then two overlapping Close calls
				ops = append(ops, "bindw", "br ssrc=1", "bl ssrc=1", "br ssrc=2")
				traffic([]int{1})
				traffic([]int{1})
				ops = append(ops, "adv ms=3")
				switch kind {
				case "rr", "sr", "pli", "pli0", "nackgen", "chainrr", "chainpli":
					ops = append(ops, fmt.Sprintf("gateclose2 ms=%d", r.Pick(4, 12, 25)))
				default:
					ops = append(ops, "close")
				}
				ops = append(ops, "adv ms=25")
			case 8: // busy
				// requests made while the loop is busy in a slow writer
				if r.Chance(3, 4) {
					ops = append(ops, "bindw")
				}
				if r.Chance(1, 3) {
					ops = append(ops, "br ssrc=3")
				}
				if r.Chance(1, 4) {
					ops = append(ops, fmt.Sprintf("adv ms=%d", r.Pick(3, 12, 25)))
				}
				ops = append(ops, fmt.Sprintf("busybind a=%d b=%d", r.Pick(1, 2), r.Pick(2, 4, 5)))
				if r.Chance(1, 2) {
					ops = append(ops, "busybind a=6 b=7")
				}
				ops = append(ops, fmt.Sprintf("adv ms=%d", r.Pick(3, 12, 25)))
			default: // random
				alphabet := []string{"bindw", "bindr", "bl ssrc=1", "br ssrc=1", "bl ssrc=2", "br ssrc=2", "bl ssrc=3", "br ssrc=3",
					"ul ssrc=1", "ur ssrc=1", "ul ssrc=2", "ur ssrc=2", "w ssrc=1 seq=%d", "w ssrc=2 seq=%d", "r ssrc=1", "r ssrc=2", "r ssrc=3",
					"rtcp", "adv ms=12", "adv ms=25", "adv ms=3", "close"}
				n := r.Range(4, 14)
				if !r.Chance(1, 3) {
					ops = append(ops, "bindw")
				}
				closedAlready := false
				for i := 0; i < n; i++ {
					op := alphabet[r.Intn(len(alphabet))]
					// a second Close is generated except where the unchanged code panics on it (pacing, gcc: close of a
					// closed channel — io.Closer leaves it undefined; recorded in DESIGN §8): it must not block either
					if op == "close" && ((closedAlready && (kind == "pacing" || kind == "ccgcc" || r.Chance(1, 2))) || (!closedAlready && r.Chance(1, 2))) {
						op = "adv ms=12"
					}
					if op == "close" {
						closedAlready = true
					}
					if strings.Contains(op, "%d") {
						op = fmt.Sprintf(op, seq)
						seq++
					}
					ops = append(ops, op)
				}
			}
			ops = append(ops, "end")
			// the application of the case: which StreamInfo it hands to Unbind*, how it writes the feedback list, what
			// it does with its StreamInfo after Bind*, the order of its option list (streaminfo_test.go)
			if ar := NewRng(r.U64() ^ 0xA9911); ar.Chance(2, 3) {
				ops = withApp(ops, genApp(ar, 3, 2, 2, 2))
			}
			return Case{Class: fmt.Sprintf("%s-t%d", kind, templ), Ops: ops}
		},
		Run: lcRun,
	})
}

func endSeen(ops []string) bool {
	for _, op := range ops {
		if op == "end" {
			return true
		}
	}
	return false
}

package corr

// C04 — NACK responder: components `rtpbuffer` (unit: Add/Get/Clear + reference counts),
// `pktfactory` (unit: PacketFactoryCopy.NewPacket) and `responder` (public ResponderInterceptor
// inside a testing/synctest bubble).

import (
	"errors"
	"fmt"
	"io"
	"sort"
	"strings"
	"sync"
	"testing"
	"testing/synctest"

	"github.com/pion/interceptor"
	"github.com/pion/interceptor/pkg/nack"
	"github.com/pion/interceptor/pkg/verifhooks"
	"github.com/pion/rtcp"
	"github.com/pion/rtp"
)

// ---------------------------------------------------------------------------------------
// shared: header <-> op fields

type c04ext struct {
	id int
	pl []byte
}

func c04unhex(s string) ([]byte, bool) {
	if s == "-" {
		return []byte{}, true
	}
	if len(s)%2 != 0 {
		return nil, false
	}
	out := make([]byte, len(s)/2)
	for i := 0; i < len(out); i++ {
		var v int
		for _, ch := range s[2*i : 2*i+2] {
			switch {
			case ch >= '0' && ch <= '9':
				v = v*16 + int(ch-'0')
			case ch >= 'a' && ch <= 'f':
				v = v*16 + int(ch-'a') + 10
			default:
				return nil, false
			}
		}
		out[i] = byte(v)
	}
	return out, true
}

func c04num(m map[string]string, k string, bound uint64) (uint64, bool) {
	s, ok := m[k]
	if !ok || s == "" || len(s) > 12 {
		return 0, false
	}
	var n uint64
	for _, ch := range s {
		if ch < '0' || ch > '9' {
			return 0, false
		}
		n = n*10 + uint64(ch-'0')
	}
	return n, n < bound
}

func c04bool(m map[string]string, k string) (bool, bool) {
	switch m[k] {
	case "0":
		return false, true
	case "1":
		return true, true
	}
	return false, false
}

// c04parseHdr builds the rtp.Header described by the op fields (nil when ill-formed).
func c04parseHdr(m map[string]string) *rtp.Header {
	h := &rtp.Header{}
	ok := true
	num := func(k string, bound uint64) uint64 {
		n, o := c04num(m, k, bound)
		ok = ok && o
		return n
	}
	bl := func(k string) bool {
		b, o := c04bool(m, k)
		ok = ok && o
		return b
	}
	h.Version = uint8(num("v", 256))
	h.Padding = bl("p")
	h.Extension = bl("x")
	h.Marker = bl("m")
	h.PayloadType = uint8(num("pt", 256))
	h.SequenceNumber = uint16(num("seq", 65536))
	h.Timestamp = uint32(num("ts", 1<<32))
	h.SSRC = uint32(num("ssrc", 1<<32))
	h.ExtensionProfile = uint16(num("prof", 65536))
	h.PaddingSize = byte(num("ps", 256))
	if !ok {
		return nil
	}
	cs, has := m["csrc"]
	if !has {
		return nil
	}
	if cs != "-" {
		for _, p := range strings.Split(cs, ",") {
			n, o := c04num(map[string]string{"x": p}, "x", 1<<62)
			if !o {
				return nil
			}
			h.CSRC = append(h.CSRC, uint32(n))
		}
	}
	es, has := m["ext"]
	if !has {
		return nil
	}
	if es != "-" {
		if !h.Extension {
			return nil
		}
		for _, e := range strings.Split(es, ";") {
			f := strings.Split(e, ":")
			if len(f) != 2 {
				return nil
			}
			id, o := c04num(map[string]string{"x": f[0]}, "x", 256)
			pl, o2 := c04unhex(f[1])
			if !o || !o2 {
				return nil
			}
			if err := h.SetExtension(uint8(id), pl); err != nil {
				return nil
			}
		}
	}
	return h
}

func c04payload(m map[string]string) ([]byte, bool) {
	s, ok := m["pl"]
	if !ok {
		return nil, false
	}
	if s == "nil" {
		return nil, true
	}
	return c04unhex(s)
}

func c04b(b bool) int {
	if b {
		return 1
	}
	return 0
}

func c04showPkt(h *rtp.Header, pl []byte) string {
	exts := "-"
	if ids := h.GetExtensionIDs(); len(ids) > 0 {
		var parts []string
		for _, id := range ids {
			parts = append(parts, fmt.Sprintf("%d:%s", id, hexs(h.GetExtension(id))))
		}
		exts = strings.Join(parts, ";")
	}
	return fmt.Sprintf("ssrc=%d pt=%d seq=%d ts=%d m=%d p=%d ps=%d v=%d x=%d prof=%d csrc=%s ext=%s pl=%s",
		h.SSRC, h.PayloadType, h.SequenceNumber, h.Timestamp, c04b(h.Marker), c04b(h.Padding), h.PaddingSize,
		h.Version, c04b(h.Extension), h.ExtensionProfile, joinInts(h.CSRC), exts, hexs(pl))
}

func c04err(err error) string {
	switch {
	case errors.Is(err, errC04Injected):
		return "err:write"
	case errors.Is(err, io.ErrShortBuffer):
		return "err:short"
	case strings.Contains(err.Error(), "padding"):
		return "err:padding"
	}
	return "err:other"
}

// scribble overwrites everything the caller still owns after handing a packet over, so that a
// shallow copy inside the library shows up as a changed observable.
func c04scribble(h *rtp.Header, pl []byte) {
	for i := range pl {
		pl[i] ^= 0xFF
	}
	for i := range h.CSRC {
		h.CSRC[i] ^= 0xFFFFFFFF
	}
	for _, id := range h.GetExtensionIDs() {
		e := h.GetExtension(id)
		for i := range e {
			e[i] ^= 0xFF
		}
	}
	h.SequenceNumber ^= 0xFFFF
	h.SSRC ^= 0xFFFFFFFF
	h.Timestamp ^= 0xFFFFFFFF
	h.Marker = !h.Marker
}

// header generation -----------------------------------------------------------------------

type c04hdr struct {
	ssrc, pt, seq int
	ts            uint32
	m, p, x       bool
	ps, prof      int
	csrc          []uint32
	exts          []c04ext
}

func (h c04hdr) fields() string {
	exts := "-"
	if len(h.exts) > 0 {
		var parts []string
		for _, e := range h.exts {
			parts = append(parts, fmt.Sprintf("%d:%s", e.id, hexs(e.pl)))
		}
		exts = strings.Join(parts, ";")
	}
	return fmt.Sprintf("v=2 p=%d x=%d m=%d pt=%d seq=%d ts=%d ssrc=%d csrc=%s prof=%d ext=%s ps=%d",
		c04b(h.p), c04b(h.x), c04b(h.m), h.pt, h.seq&0xFFFF, h.ts, h.ssrc, joinInts(h.csrc), h.prof, exts, h.ps)
}

func c04bytes(r *Rng, n int) []byte {
	b := make([]byte, n)
	for i := 0; i < n; i += 8 {
		v := r.U64()
		for j := 0; j < 8 && i+j < n; j++ {
			b[i+j] = byte(v >> (8 * j))
		}
	}
	return b
}

// c04genHdr draws the parts of a header that the responder must carry through untouched.
func c04genHdr(r *Rng, ssrc, seq int) c04hdr {
	h := c04hdr{ssrc: ssrc, pt: r.Pick(96, 96, 96, 111, 0, 127), seq: seq, ts: uint32(r.U64()), m: r.Chance(1, 4)}
	if r.Chance(1, 5) {
		for i := r.Range(1, 2); i > 0; i-- {
			h.csrc = append(h.csrc, uint32(r.U64()))
		}
	}
	if r.Chance(1, 4) {
		h.x = true
		if r.Bool() {
			h.prof = 0xBEDE
			ids := []int{1, 5, 14}
			for i := 0; i < r.Range(0, 2); i++ {
				h.exts = append(h.exts, c04ext{ids[i], c04bytes(r, r.Range(1, 4))})
			}
		} else {
			h.prof = 0x1000
			ids := []int{1, 200}
			for i := 0; i < r.Range(0, 2); i++ {
				h.exts = append(h.exts, c04ext{ids[i], c04bytes(r, r.Pick(0, 1, 20))})
			}
		}
	}
	return h
}

// c04genHdrShape: a header of one of the four shapes 0 = neither CSRCs nor extensions, 1 = CSRCs only, 2 = extensions
// only, 3 = both (one to three CSRCs; one or two extension elements of either profile).
func c04genHdrShape(r *Rng, ssrc, seq, shape int) c04hdr {
	h := c04hdr{ssrc: ssrc, pt: r.Pick(96, 96, 111, 0, 127), seq: seq, ts: uint32(r.U64()), m: r.Chance(1, 4)}
	if shape&1 != 0 {
		for i := r.Range(1, 3); i > 0; i-- {
			h.csrc = append(h.csrc, uint32(r.U64()))
		}
	}
	if shape&2 != 0 {
		h.x = true
		if r.Bool() {
			h.prof = 0xBEDE
			ids := []int{1, 5, 14}
			for i, n := 0, r.Range(1, 2); i < n; i++ {
				h.exts = append(h.exts, c04ext{ids[i], c04bytes(r, r.Range(1, 4))})
			}
		} else {
			h.prof = 0x1000
			ids := []int{1, 200}
			for i, n := 0, r.Range(1, 2); i < n; i++ {
				h.exts = append(h.exts, c04ext{ids[i], c04bytes(r, r.Pick(1, 2, 20))})
			}
		}
	}
	return h
}

// c04genPayload draws payload and padding form. forms: none | ps (Header.PaddingSize) |
// legacy (padding inside the payload) | empty (padding flag, empty payload) | overflow (legacy
// padding count larger than the payload).
func c04genPayload(r *Rng, h *c04hdr, form string, length int) string {
	pl := c04bytes(r, length)
	switch form {
	case "ps":
		h.p, h.ps = true, r.Pick(1, 4, 255)
	case "legacy":
		if length == 0 {
			pl = []byte{1}
			length = 1
		}
		h.p = true
		n := r.Range(1, min(length, 255))
		if r.Chance(1, 4) {
			n = min(length, 255)
		}
		pl[length-1] = byte(n)
	case "empty":
		h.p = true
		if r.Bool() {
			return "nil"
		}
		return "-"
	case "overflow":
		if length == 0 || length > 250 {
			pl = c04bytes(r, 3)
			length = 3
		}
		h.p = true
		pl[length-1] = byte(min(255, length+r.Pick(1, 2, 3, 4, 100)))
	case "zero":
		if length == 0 {
			pl = []byte{0}
			length = 1
		}
		h.p = true
		pl[length-1] = 0
	}
	if length == 0 && r.Bool() {
		return "nil"
	}
	return hexs(pl)
}

func c04pickLen(r *Rng, big bool) int {
	if big {
		return r.Pick(1458, 1459, 1460, 1461, 1457, 1200)
	}
	return r.Pick(0, 1, 1, 2, 3, 5, 8, 12, 20, 32)
}

func c04pickForm(r *Rng, cl string) string {
	if cl == "padding" {
		return []string{"ps", "legacy", "legacy", "empty", "overflow", "zero", "none"}[r.Intn(7)]
	}
	if r.Chance(1, 12) {
		return []string{"ps", "legacy", "empty"}[r.Intn(3)]
	}
	return "none"
}

var c04sizes = []int{1, 2, 4, 8, 16, 32, 64, 128, 256, 512, 1024, 2048, 4096, 8192, 16384, 32768}

func c04pickSize(r *Rng, cl string) int {
	switch cl {
	case "bigsize":
		return c04sizes[r.Range(9, 15)]
	case "inflight", "closewait":
		return r.Pick(1, 1, 2, 4)
	case "writefail":
		return r.Pick(1, 4, 8, 8, 16, 32, 64)
	}
	if r.Chance(1, 10) {
		return c04sizes[r.Intn(len(c04sizes))]
	}
	return r.Pick(1, 2, 4, 8, 8, 16, 32, 64)
}

// c04seqGen produces the send order of a class. cur is the highest number sent so far.
type c04seqGen struct {
	cl      string
	size    int
	cur     int
	started bool
	hist    []int
}

func (g *c04seqGen) next(r *Rng) int {
	if !g.started {
		g.started = true
		g.hist = append(g.hist, g.cur)
		return g.cur
	}
	mode := g.cl
	if mode == "mixed" || mode == "" {
		mode = []string{"inorder", "gaps", "late", "dup", "inorder"}[r.Intn(5)]
	}
	s := g.cur
	switch mode {
	case "gaps":
		switch r.Intn(8) {
		case 0:
			s = g.cur + r.Pick(g.size, g.size+1, g.size-1, 2*g.size, 3*g.size+1)
		case 1:
			s = g.cur + r.Pick(1000, 32767, 32766, 20000)
		default:
			s = g.cur + r.Range(1, 5)
		}
	case "late":
		switch r.Intn(6) {
		case 0:
			s = g.cur - r.Range(1, max(1, g.size-1)) // late, inside the window (or just at its edge)
		case 1:
			s = g.cur - r.Pick(g.size, g.size+1, 2*g.size, g.size-1, 32768, 32767, 12) // around / outside
		case 2:
			s = g.cur + r.Range(2, 4)
		default:
			s = g.cur + 1
		}
	case "dup":
		if r.Bool() || len(g.hist) == 0 {
			s = g.cur
		} else {
			s = g.hist[len(g.hist)-1-r.Intn(min(len(g.hist), 4))]
		}
	default:
		s = g.cur + 1
	}
	s &= 0xFFFF
	if d := (s - g.cur) & 0xFFFF; d != 0 && d < 32768 {
		g.cur = s
	}
	g.hist = append(g.hist, s)
	return s
}

// target draws a sequence number to ask for.
func (g *c04seqGen) target(r *Rng, kind string) int {
	if kind == "" {
		kind = []string{"sent", "sent", "sent", "never", "outside"}[r.Intn(5)]
	}
	switch kind {
	case "sent":
		if len(g.hist) > 0 {
			return g.hist[len(g.hist)-1-r.Intn(min(len(g.hist), 2*g.size+2))]
		}
	case "never":
		return (g.cur + r.Range(1, 20)) & 0xFFFF
	case "outside":
		return (g.cur - r.Pick(g.size, g.size+1, g.size-1, 2*g.size, 32768, 32767, 32769, 65535)) & 0xFFFF
	}
	return (g.cur - r.Intn(g.size+2)) & 0xFFFF
}

func (g *c04seqGen) pairs(r *Rng, cl string) string {
	kind := ""
	switch cl {
	case "neversent":
		kind = "never"
	case "outside":
		kind = "outside"
	}
	n := r.Range(1, 3)
	var parts []string
	for i := 0; i < n; i++ {
		pid := g.target(r, kind)
		blp := 0
		switch r.Intn(4) {
		case 0:
			blp = int(r.U64() & 0xFFFF)
		case 1:
			blp = r.Pick(1, 3, 0x8000, 0xFFFF, 7)
		}
		parts = append(parts, fmt.Sprintf("%d:%d", pid, blp))
		if cl == "dupreq" && r.Bool() {
			parts = append(parts, fmt.Sprintf("%d:%d", pid, r.Pick(blp, 0, 1)))
		}
	}
	return strings.Join(parts, ",")
}

// ---------------------------------------------------------------------------------------
// component rtpbuffer

func init() {
	register("rtpbuffer", &Comp{
		N: func(tier string) int {
			if tier == "thorough" {
				return 150000
			}
			return 1500
		},
		Gen: func(r *Rng, tier string, idx int) Case {
			classes := []string{"inorder", "gaps", "late", "wrap", "dup", "clear", "holdrel", "bigsize", "mixed", "badsize"}
			cl := classes[idx%len(classes)]
			if cl == "badsize" {
				ops := []string{fmt.Sprintf("new size=%d", r.Pick(0, 3, 5, 6, 100, 1000, 32767, 40000, 65535)),
					"add seq=1 id=0", "get seq=1", "clear"}
				return Case{Class: cl, Ops: ops}
			}
			size := c04pickSize(r, cl)
			ops := []string{fmt.Sprintf("new size=%d", size)}
			g := &c04seqGen{cl: cl, size: size, cur: r.Intn(65536)}
			switch cl {
			case "wrap":
				g.cur = 65536 - r.Range(1, 2*size+3)
				g.cl = "mixed"
			case "clear", "holdrel", "bigsize":
				g.cl = "mixed"
			}
			g.cur &= 0xFFFF
			n := r.Range(5, 50)
			id := 0
			var held []int
			for i := 0; i < n; i++ {
				switch k := r.Intn(10); {
				case k < 5:
					ops = append(ops, fmt.Sprintf("add seq=%d id=%d", g.next(r), id))
					id++
				case k < 8:
					if cl == "holdrel" && r.Bool() {
						ops = append(ops, fmt.Sprintf("get seq=%d hold=1", g.target(r, "sent")))
						held = append(held, -1) // resolved at run time: rel uses `last`
					} else {
						ops = append(ops, fmt.Sprintf("get seq=%d", g.target(r, "")))
					}
				case k == 8 && (cl == "clear" || cl == "holdrel" || cl == "mixed"):
					ops = append(ops, "clear")
					g.started = false
					g.hist = nil
				default:
					if len(held) > 0 {
						ops = append(ops, "rel last")
						held = held[:len(held)-1]
					} else {
						ops = append(ops, fmt.Sprintf("get seq=%d", g.target(r, "")))
					}
				}
			}
			// sweep the whole neighbourhood of the window at the end
			for d := -2; d <= min(size, 12)+2; d++ {
				ops = append(ops, fmt.Sprintf("get seq=%d", (g.cur-d)&0xFFFF))
			}
			for len(held) > 0 {
				ops = append(ops, "rel last")
				held = held[:len(held)-1]
			}
			ops = append(ops, "clear")
			return Case{Class: cl, Ops: ops}
		},
		Run: func(t *testing.T, ops []string, o *Out) {
			var buf *verifhooks.RTPBuffer
			pf := verifhooks.NewPacketFactoryCopy()
			pkts := map[int]*verifhooks.RetainablePacket{}
			ids := map[*verifhooks.RetainablePacket]int{}
			freedSeen := map[int]bool{}
			var held []int // ids of references we still hold (a `get … hold=1` that found nothing holds nothing)
			freed := func() string {
				var out []int
				for id, p := range pkts {
					if !freedSeen[id] && p.VerifCount() == 0 {
						freedSeen[id] = true
						out = append(out, id)
					}
				}
				sort.Ints(out)
				return "freed=" + joinInts(out)
			}
			for _, op := range ops {
				name, m := kv(op)
				switch {
				case name == "new":
					n, ok := c04num(m, "size", 65536)
					if !ok {
						o.P("bad-op")
						continue
					}
					b, err := verifhooks.NewRTPBuffer(uint16(n))
					if err != nil {
						buf = nil
						o.P("err:size")
						continue
					}
					buf = b
					pkts = map[int]*verifhooks.RetainablePacket{}
					ids = map[*verifhooks.RetainablePacket]int{}
					freedSeen = map[int]bool{}
					held = nil
					o.P("ok")
				case name == "add" && buf != nil:
					seq, ok1 := c04num(m, "seq", 65536)
					id, ok2 := c04num(m, "id", 1<<31)
					if _, dup := pkts[int(id)]; !ok1 || !ok2 || dup {
						o.P("bad-op")
						continue
					}
					p, err := pf.NewPacket(&rtp.Header{SequenceNumber: uint16(seq), Timestamp: uint32(id)}, []byte{byte(id)}, 0, 0)
					if err != nil {
						o.P("err:other")
						continue
					}
					pkts[int(id)] = p
					ids[p] = int(id)
					buf.Add(p)
					o.P("%s", freed())
				case name == "get" && buf != nil:
					seq, ok := c04num(m, "seq", 65536)
					if !ok {
						o.P("bad-op")
						continue
					}
					p := buf.Get(uint16(seq))
					if p == nil {
						o.P("none")
						continue
					}
					o.P("pkt id=%d seq=%d", ids[p], p.Header().SequenceNumber)
					if m["hold"] == "1" {
						held = append(held, ids[p])
					} else {
						p.Release()
					}
				case op == "rel last" && buf != nil:
					// release the most recent reference still held; a no-op line when none is held
					if len(held) == 0 {
						o.P("freed=-")
						continue
					}
					id := held[len(held)-1]
					held = held[:len(held)-1]
					pkts[id].Release()
					o.P("%s", freed())
				case op == "clear" && buf != nil:
					buf.Clear()
					o.P("%s", freed())
				default:
					o.P("bad-op")
				}
			}
		},
	})
}

// ---------------------------------------------------------------------------------------
// component pktfactory

func init() {
	register("pktfactory", &Comp{
		N: func(tier string) int {
			if tier == "thorough" {
				return 100000
			}
			return 1500
		},
		Gen: func(r *Rng, tier string, idx int) Case {
			classes := []string{"copy", "rtx", "padding", "big", "rtxbig", "halfrtx", "mixed"}
			cl := classes[idx%len(classes)]
			ops := []string{fmt.Sprintf("fac start=%d", r.Pick(0, 1, 65535, 65534, r.Intn(65536)))}
			for i := r.Range(3, 12); i > 0; i-- {
				rssrc, rpt := 0, 0
				switch cl {
				case "rtx", "rtxbig", "padding":
					rssrc, rpt = r.Pick(2000, 1, 0xFFFFFFFF), r.Pick(97, 1, 127, 255)
				case "halfrtx":
					if r.Bool() {
						rssrc = 2000
					} else {
						rpt = 97
					}
				case "mixed", "big":
					if r.Bool() {
						rssrc, rpt = 2000, 97
					}
				}
				h := c04genHdr(r, r.Pick(1000, 0, 0xFFFFFFFF), r.Pick(r.Intn(65536), 0, 1, 2, 255, 256, 258, 65535))
				form := c04pickForm(r, cl)
				if cl == "padding" && r.Chance(1, 6) {
					rssrc, rpt = 0, 0
				}
				pl := c04genPayload(r, &h, form, c04pickLen(r, cl == "big" || cl == "rtxbig"))
				ops = append(ops, fmt.Sprintf("np %s pl=%s rssrc=%d rpt=%d", h.fields(), pl, rssrc, rpt))
			}
			return Case{Class: cl, Ops: ops}
		},
		Run: func(t *testing.T, ops []string, o *Out) {
			var pf *verifhooks.PacketFactoryCopy
			for _, op := range ops {
				name, m := kv(op)
				switch {
				case name == "fac":
					n, ok := c04num(m, "start", 65536)
					if !ok {
						o.P("bad-op")
						continue
					}
					pf = verifhooks.NewPacketFactoryCopySeq(rtp.NewFixedSequencer(uint16(n)))
				case name == "np" && pf != nil:
					h := c04parseHdr(m)
					pl, ok := c04payload(m)
					rssrc, ok2 := c04num(m, "rssrc", 1<<32)
					rpt, ok3 := c04num(m, "rpt", 256)
					if h == nil || !ok || !ok2 || !ok3 {
						o.P("bad-op")
						continue
					}
					key := h.SequenceNumber
					p, err := pf.NewPacket(h, pl, uint32(rssrc), uint8(rpt))
					if err != nil {
						o.P("%s", c04err(err))
						continue
					}
					c04scribble(h, pl) // a deep copy must not notice
					o.P("pkt key=%d %s", key, c04showPkt(p.Header(), p.Payload()))
					p.Release()
				default:
					o.P("bad-op")
				}
			}
		},
	})
}

// ---------------------------------------------------------------------------------------
// component responder

type c04harn struct {
	mu          sync.Mutex
	lines       []string
	mainWriting bool
	hold        bool
	blocked     bool
	resumeCh    chan struct{}
	rtcpIn      []byte
	// a Close issued while a resend is held runs in its own goroutine
	closeWaiting  bool
	closeReturned bool
	late          int // resend writes that reached the bottom writer after that Close had returned
	// write-fault injection: the next failRtx retransmission writes / failOut original writes fail
	failRtx, failOut int
	// the bottom writer also overwrites the payload bytes it was handed (op `scribblepl`)
	scribblePayload bool
}

var errC04Injected = errors.New("injected write failure")

type c04bottom struct {
	h *c04harn
	w int
}

func (b *c04bottom) Write(hdr *rtp.Header, payload []byte, _ interceptor.Attributes) (int, error) {
	h := b.h
	h.mu.Lock()
	tag := "rtx"
	if h.mainWriting {
		tag = "out"
	} else if h.hold {
		// a resend goroutine: keep it inside the downstream Write until `resume`, then look at
		// the bytes it was given (they must still be the bytes that were stored)
		h.blocked = true
		ch := h.resumeCh
		h.mu.Unlock()
		<-ch
		h.mu.Lock()
	}
	if tag == "rtx" && h.closeReturned {
		h.late++
	}
	fail := false
	if tag == "rtx" && h.failRtx > 0 {
		h.failRtx--
		fail = true
	} else if tag == "out" && h.failOut > 0 {
		h.failOut--
		fail = true
	}
	if fail {
		tag += "!"
	}
	h.lines = append(h.lines, fmt.Sprintf("%s w=%d %s", tag, b.w, c04showPkt(hdr, payload)))
	h.mu.Unlock()
	// The writer below owns what it is handed for the duration of the call and may edit it in place meanwhile (the
	// TWCC header-extension interceptor stamps an extension, FlexFEC and SRTP work on the header): now that the packet
	// is recorded, overwrite everything reachable from the header.  What the responder keeps for the next
	// retransmission of the same packet must not be reachable from here.
	c04bottomScribble(hdr, payload, h.scribblePayload)
	if fail {
		return 0, errC04Injected
	}
	return len(payload), nil
}

// c04bottomScribble is what a writer below the responder may do to the header it was handed: every scalar field, every
// CSRC entry, every extension element (id and payload slice) and every byte of every extension payload is overwritten
// in place.  With `pl` the payload bytes are overwritten as well (`scribblepl` op; see the note at the generator).
func c04bottomScribble(h *rtp.Header, payload []byte, pl bool) {
	x := h.Extension
	h.Extension = true // GetExtensionIDs / GetExtension look at the elements only when the flag is set
	for _, id := range h.GetExtensionIDs() {
		p := h.GetExtension(id)
		for i := range p {
			p[i] ^= 0xA5
		}
	}
	h.Extension = x
	for i := range h.Extensions {
		h.Extensions[i] = rtp.Extension{}
	}
	for i := range h.CSRC {
		h.CSRC[i] = 0xDEADBEEF
	}
	h.Version, h.Padding, h.Extension, h.Marker = 3, !h.Padding, !h.Extension, !h.Marker
	h.PayloadType ^= 0x7F
	h.SequenceNumber ^= 0xFFFF
	h.Timestamp ^= 0xFFFFFFFF
	h.SSRC ^= 0xFFFFFFFF
	h.ExtensionProfile ^= 0xFFFF
	h.PaddingSize ^= 0xFF
	if pl {
		for i := range payload {
			payload[i] ^= 0x5A
		}
	}
}

func (h *c04harn) flush(o *Out) {
	h.mu.Lock()
	for _, l := range h.lines {
		o.P("%s", l)
	}
	h.lines = nil
	h.mu.Unlock()
}

func c04runResponder(t *testing.T, ops []string, o *Out) {
	h := &c04harn{resumeCh: make(chan struct{})}
	h.scribblePayload = o != nil && o.Amb != nil && o.Amb.Opts["scribblepl"] == "1"
	var icpt interceptor.Interceptor
	var reader interceptor.RTCPReader
	var writers []interceptor.RTPWriter
	resume := func() {
		h.mu.Lock()
		h.hold = false
		h.blocked = false
		close(h.resumeCh)
		h.resumeCh = make(chan struct{})
		h.mu.Unlock()
		synctest.Wait()
	}
	defer func() {
		resume()
		if icpt != nil {
			_ = icpt.Close()
		}
		synctest.Wait()
	}()
	for _, op := range ops {
		name, m := kv(op)
		switch {
		case name == "new":
			n, ok := c04num(m, "size", 65536)
			r0, ok2 := c04num(m, "rtx0", 65536)
			if !ok || !ok2 {
				o.P("bad-op")
				continue
			}
			pf := verifhooks.NewPacketFactoryCopySeq(rtp.NewFixedSequencer(uint16(r0)))
			f, _ := nack.NewResponderInterceptor(nack.ResponderSize(uint16(n)), nack.VerifResponderPacketFactoryCopy(pf))
			i, err := f.NewInterceptor("")
			if icpt != nil {
				resume()
				_ = icpt.Close()
			}
			icpt, reader, writers = nil, nil, nil
			h.mu.Lock()
			h.failRtx, h.failOut = 0, 0
			h.mu.Unlock()
			if err != nil {
				o.P("err:size")
				continue
			}
			icpt = i
			reader = icpt.BindRTCPReader(interceptor.RTCPReaderFunc(
				func(b []byte, a interceptor.Attributes) (int, interceptor.Attributes, error) {
					return copy(b, h.rtcpIn), a, nil
				}))
			o.P("ok")
		case name == "bind" && icpt != nil:
			ssrc, ok := c04num(m, "ssrc", 1<<32)
			rs, ok2 := c04num(m, "rssrc", 1<<32)
			rp, ok3 := c04num(m, "rpt", 256)
			// the stream's RTCPFeedback: `fbl=<code>` (any list over the alphabet of streaminfo_test.go, in any
			// order) or the two fixed lists `fb=0|1`
			var fbl []interceptor.RTCPFeedback
			ok4 := false
			if cs, has := m["fbl"]; has {
				if code, okc := c04num(m, "fbl", 1000000000); okc && cs != "" {
					fbl, ok4 = feedbackOfCode(int(code))
				}
			} else if fb, okb := c04bool(m, "fb"); okb {
				ok4 = true
				if fb {
					fbl = []interceptor.RTCPFeedback{{Type: "goog-remb"}, {Type: "nack", Parameter: ""}}
				} else {
					fbl = []interceptor.RTCPFeedback{{Type: "nack", Parameter: "pli"}}
				}
			}
			if !ok || !ok2 || !ok3 || !ok4 {
				o.P("bad-op")
				continue
			}
			info := &interceptor.StreamInfo{SSRC: uint32(ssrc), SSRCRetransmission: uint32(rs), PayloadTypeRetransmission: uint8(rp),
				RTCPFeedback: fbl}
			before := *info
			before.RTCPFeedback = append([]interceptor.RTCPFeedback(nil), fbl...)
			writers = append(writers, icpt.BindLocalStream(info, &c04bottom{h, len(writers)}))
			// the StreamInfo is the caller's: Bind must not edit it
			if info.SSRC != before.SSRC || info.SSRCRetransmission != before.SSRCRetransmission ||
				info.PayloadTypeRetransmission != before.PayloadTypeRetransmission || len(info.RTCPFeedback) != len(before.RTCPFeedback) {
				o.P("streaminfo-modified")
			} else {
				for i := range before.RTCPFeedback {
					if info.RTCPFeedback[i] != before.RTCPFeedback[i] {
						o.P("streaminfo-modified")
						break
					}
				}
			}
		case name == "write" && icpt != nil:
			w, ok := c04num(m, "w", 1<<31)
			hdr := c04parseHdr(m)
			pl, ok2 := c04payload(m)
			if !ok || hdr == nil || !ok2 || int(w) >= len(writers) {
				o.P("bad-op")
				continue
			}
			h.mu.Lock()
			h.mainWriting = true
			h.mu.Unlock()
			_, err := writers[w].Write(hdr, pl, nil)
			h.mu.Lock()
			h.mainWriting = false
			h.mu.Unlock()
			if err != nil {
				o.P("%s", c04err(err))
			}
			h.flush(o)
			c04scribble(hdr, pl) // the caller reuses its buffers after Write returns
		case name == "nack" && icpt != nil:
			ssrc, ok := c04num(m, "ssrc", 1<<32)
			ps, has := m["pairs"]
			var pairs []rtcp.NackPair
			if has && ps != "-" {
				for _, e := range strings.Split(ps, ",") {
					f := strings.Split(e, ":")
					if len(f) != 2 {
						ok = false
						break
					}
					a, o1 := c04num(map[string]string{"x": f[0]}, "x", 65536)
					b, o2 := c04num(map[string]string{"x": f[1]}, "x", 65536)
					ok = ok && o1 && o2
					pairs = append(pairs, rtcp.NackPair{PacketID: uint16(a), LostPackets: rtcp.PacketBitmap(b)})
				}
			}
			if !ok || len(pairs) == 0 {
				o.P("bad-op")
				continue
			}
			h.mu.Lock()
			busy := h.hold && h.blocked
			h.mu.Unlock()
			if busy {
				o.P("busy")
				continue
			}
			pk := []rtcp.Packet{}
			if m["rr"] == "1" {
				pk = append(pk, &rtcp.ReceiverReport{SSRC: 5})
			}
			pk = append(pk, &rtcp.TransportLayerNack{SenderSSRC: 5, MediaSSRC: uint32(ssrc), Nacks: pairs})
			raw, err := rtcp.Marshal(pk)
			if err != nil {
				o.P("err:rtcp")
				continue
			}
			h.rtcpIn = raw
			if _, _, err := reader.Read(make([]byte, 1500), interceptor.Attributes{}); err != nil {
				o.P("err:read")
			}
			synctest.Wait() // the resend goroutine has finished or sits in the held downstream Write
			h.flush(o)
		case name == "unbind" && icpt != nil:
			ssrc, ok := c04num(m, "ssrc", 1<<32)
			if !ok {
				o.P("bad-op")
				continue
			}
			icpt.UnbindLocalStream(&interceptor.StreamInfo{SSRC: uint32(ssrc)})
		case op == "close" && icpt != nil:
			h.mu.Lock()
			waiting, held := h.closeWaiting, h.hold && h.blocked
			h.mu.Unlock()
			if waiting {
				o.P("busy")
				continue
			}
			if !held {
				_ = icpt.Close()
				continue
			}
			// a resend goroutine sits inside the downstream Write: Close must not return before it
			// is done, so it is called from its own goroutine
			h.mu.Lock()
			h.closeWaiting = true
			h.mu.Unlock()
			ic := icpt
			go func() {
				_ = ic.Close()
				h.mu.Lock()
				h.closeReturned = true
				h.mu.Unlock()
			}()
			synctest.Wait()
			h.mu.Lock()
			ret := h.closeReturned
			h.mu.Unlock()
			if ret {
				o.P("close-waited=false")
			} else {
				o.P("close-blocked")
			}
		case name == "fail" && icpt != nil:
			a, ok := c04num(m, "rtx", 1000)
			b, ok2 := c04num(m, "out", 1000)
			if !ok || !ok2 {
				o.P("bad-op")
				continue
			}
			h.mu.Lock()
			h.failRtx, h.failOut = int(a), int(b)
			h.mu.Unlock()
		case op == "hold" && icpt != nil:
			h.mu.Lock()
			h.hold = true
			h.mu.Unlock()
		case op == "resume" && icpt != nil:
			resume()
			h.flush(o)
			h.mu.Lock()
			if h.closeWaiting {
				o.P("close-waited=%v late=%d", h.closeReturned, h.late)
				h.closeWaiting = false
			}
			h.mu.Unlock()
		default:
			o.P("bad-op")
		}
	}
}

func init() {
	register("responder", &Comp{
		N: func(tier string) int {
			if tier == "thorough" {
				return 150000
			}
			return 1500
		},
		Gen: func(r *Rng, tier string, idx int) Case {
			classes := []string{"inorder", "gaps", "late", "wrap", "dupreq", "neversent", "outside", "otherssrc",
				"rtx", "padding", "bigpayload", "unbind", "close", "rebind", "inflight", "bigsize", "mixed", "badsize", "dup", "closewait", "writefail", "writefail", "rtxtwice"}
			cl := classes[idx%len(classes)]
			if cl == "badsize" {
				return Case{Class: cl, Ops: []string{
					fmt.Sprintf("new size=%d rtx0=0", r.Pick(0, 3, 5, 100, 1000, 32767, 40000, 65535)),
					"bind ssrc=1000 rssrc=0 rpt=0 fb=1", "nack ssrc=1000 pairs=1:0", "close"}}
			}
			size := c04pickSize(r, cl)
			ops := []string{fmt.Sprintf("new size=%d rtx0=%d", size, r.Pick(0, 1, 65530, 65535, r.Intn(65536)))}
			rtx := r.Chance(2, 5)
			if cl == "rtx" || cl == "padding" {
				rtx = true
			}
			nstreams := r.Pick(1, 1, 2)
			if cl == "otherssrc" || cl == "rebind" {
				nstreams = 2
			}
			type stream struct {
				ssrc int
				g    *c04seqGen
				fb   bool
			}
			var streams []*stream
			bind := func(ssrc int, fb bool) {
				rs, rp := 0, 0
				if rtx {
					rs, rp = ssrc+1000, 97
				}
				if r.Chance(1, 4) {
					ops = append(ops, fmt.Sprintf("bind ssrc=%d rssrc=%d rpt=%d fb=%d", ssrc, rs, rp, c04b(fb)))
				} else {
					// the feedback list in any order, with near-duplicates of the plain `nack` entry before/after it
					ops = append(ops, fmt.Sprintf("bind ssrc=%d rssrc=%d rpt=%d fbl=%d", ssrc, rs, rp, genFeedbackCode(r, fb)))
				}
				g := &c04seqGen{cl: "mixed", size: size, cur: r.Intn(65536)}
				switch cl {
				case "inorder", "gaps", "late", "dup":
					g.cl = cl
				case "wrap":
					g.cur = (65536 - r.Range(1, 2*min(size, 40)+3)) & 0xFFFF
				case "neversent", "outside", "dupreq", "rtx", "padding", "bigpayload", "inflight", "closewait", "writefail", "rtxtwice":
					g.cl = []string{"inorder", "mixed"}[r.Intn(2)]
				}
				streams = append(streams, &stream{ssrc, g, fb})
			}
			for i := 0; i < nstreams; i++ {
				bind(1000+i, !(cl == "otherssrc" && i == 1 && r.Bool()))
			}
			write := func(w int) {
				st := streams[w]
				ssrc := st.ssrc
				foreign := (cl == "otherssrc" || cl == "mixed") && r.Chance(1, 6)
				if foreign {
					ssrc = st.ssrc + 7
				}
				seq := 0
				if foreign {
					seq = st.g.target(r, "")
				} else {
					seq = st.g.next(r)
				}
				h := c04genHdr(r, ssrc, seq)
				if cl == "rtxtwice" {
					h = c04genHdrShape(r, ssrc, seq, r.Intn(4))
				}
				pl := c04genPayload(r, &h, c04pickForm(r, cl), c04pickLen(r, cl == "bigpayload" && r.Chance(2, 3)))
				ops = append(ops, fmt.Sprintf("write w=%d %s pl=%s", w, h.fields(), pl))
			}
			nackOp := func() {
				w := r.Intn(len(streams))
				st := streams[w]
				ssrc := st.ssrc
				if cl == "otherssrc" && r.Chance(1, 3) {
					ssrc = r.Pick(9999, st.ssrc+7, st.ssrc+1000, 0)
				}
				s := fmt.Sprintf("nack ssrc=%d pairs=%s", ssrc, st.g.pairs(r, cl))
				if r.Chance(1, 8) {
					s += " rr=1"
				}
				ops = append(ops, s)
			}
			if cl == "writefail" {
				// failing downstream writes: every NACK of a buffered in-window packet is one more
				// retransmission attempt, whatever earlier attempts (or the original write) returned
				st := streams[0]
				for i := r.Range(2, min(size, 6)+1); i > 0; i-- {
					if r.Chance(1, 5) {
						ops = append(ops, fmt.Sprintf("fail rtx=0 out=%d", r.Pick(1, 1, 2)))
					}
					write(0)
				}
				for round := r.Range(2, 4); round > 0; round-- {
					var parts []string
					for k := r.Range(1, 2); k > 0; k-- {
						pid := st.g.hist[len(st.g.hist)-1-r.Intn(min(len(st.g.hist), size))]
						parts = append(parts, fmt.Sprintf("%d:%d", pid, r.Pick(0, 0, 1, 3, 0x8001)))
					}
					pairs := strings.Join(parts, ",")
					ops = append(ops, fmt.Sprintf("fail rtx=%d out=0", r.Pick(1, 1, 2, 3, 20)))
					// the same numbers again and again while they are still in the window
					for rep := r.Range(2, 4); rep > 0; rep-- {
						ops = append(ops, fmt.Sprintf("nack ssrc=%d pairs=%s", st.ssrc, pairs))
						if r.Chance(1, 3) {
							// new packets take storage from the pool; the old ones must be untouched
							for j := r.Range(1, max(1, min(size/2, 3))); j > 0; j-- {
								write(r.Intn(len(streams)))
							}
						}
					}
					ops = append(ops, "fail rtx=0 out=0", fmt.Sprintf("nack ssrc=%d pairs=%s", st.ssrc, pairs))
					for j := r.Range(0, 2); j > 0; j-- {
						write(0)
					}
				}
			}
			if cl == "rtxtwice" {
				// "A retransmission equals the packet as sent" holds for EVERY retransmission of a packet: the same
				// sequence number is asked for two or three times (in separate NACKs and twice within one), with headers
				// of all four shapes (CSRCs / extensions / both / neither), while the writer below edits what it is handed.
				for round := r.Range(2, 4); round > 0; round-- {
					w := r.Intn(len(streams))
					st := streams[w]
					for i := r.Range(1, min(size, 4)); i > 0; i-- {
						write(w)
					}
					var parts []string
					for k := r.Range(1, 3); k > 0; k-- {
						pid := st.g.hist[len(st.g.hist)-1-r.Intn(min(len(st.g.hist), size))]
						parts = append(parts, fmt.Sprintf("%d:%d", pid, r.Pick(0, 0, 0, 1, 3)))
						if r.Chance(1, 3) {
							parts = append(parts, fmt.Sprintf("%d:0", pid))
						}
					}
					pairs := strings.Join(parts, ",")
					for rep := r.Range(2, 3); rep > 0; rep-- {
						ops = append(ops, fmt.Sprintf("nack ssrc=%d pairs=%s", st.ssrc, pairs))
						if r.Chance(1, 4) {
							write(r.Intn(len(streams)))
						}
					}
				}
			}
			n := r.Range(8, 45)
			if cl == "writefail" || cl == "rtxtwice" {
				n = r.Range(0, 10)
			}
			holding := false
			pendingNack := false
			closeIssued := false // a Close is waiting behind the held resend
			for i := 0; i < n; i++ {
				k := r.Intn(20)
				if (cl == "writefail" || cl == "mixed" || cl == "inflight") && r.Chance(1, 12) {
					ops = append(ops, fmt.Sprintf("fail rtx=%d out=%d", r.Pick(0, 1, 2, 5), r.Pick(0, 0, 1)))
				}
				switch {
				case cl == "closewait" && pendingNack && !closeIssued && k >= 10:
					// Close while a resend is held inside the downstream Write: it has to wait
					ops = append(ops, "close")
					closeIssued = true
					if r.Bool() {
						bind(1000+len(streams), true)
					}
				case k < 11:
					write(r.Intn(len(streams)))
				case k < 17:
					if holding && pendingNack {
						write(r.Intn(len(streams)))
						continue
					}
					nackOp()
					if holding {
						pendingNack = true
					}
				case k == 17 && (cl == "unbind" || cl == "mixed" || cl == "inflight" || cl == "rebind"):
					ops = append(ops, fmt.Sprintf("unbind ssrc=%d", streams[r.Intn(len(streams))].ssrc))
					if cl == "rebind" || r.Chance(1, 3) {
						bind(streams[r.Intn(len(streams))].ssrc, true)
					}
				case k == 18 && (cl == "close" || cl == "mixed" || cl == "inflight"):
					if pendingNack && closeIssued {
						write(r.Intn(len(streams)))
						continue
					}
					// with a resend held inside the downstream Write this Close has to wait for it
					ops = append(ops, "close")
					if pendingNack {
						closeIssued = true
					}
					if r.Bool() {
						bind(1000+len(streams), true)
					}
				case k == 19 && cl == "rebind":
					bind(streams[r.Intn(len(streams))].ssrc, true)
				case cl == "inflight" || cl == "closewait" || (cl == "mixed" && k == 19):
					if holding {
						ops = append(ops, "resume")
						holding, pendingNack, closeIssued = false, false, false
					} else {
						ops = append(ops, "hold")
						holding = true
					}
				default:
					write(r.Intn(len(streams)))
				}
			}
			if holding {
				ops = append(ops, "resume")
			}
			// ask for the whole neighbourhood of every window at the end
			for _, st := range streams {
				hi := st.g.cur
				var parts []string
				for base := hi + 2; base > hi-min(size, 40)-3; base -= 17 {
					parts = append(parts, fmt.Sprintf("%d:65535", (base-16)&0xFFFF))
				}
				ops = append(ops, fmt.Sprintf("nack ssrc=%d pairs=%s", st.ssrc, strings.Join(parts, ",")))
			}
			if r.Bool() {
				ops = append(ops, fmt.Sprintf("unbind ssrc=%d", streams[0].ssrc), fmt.Sprintf("nack ssrc=%d pairs=%d:65535", streams[0].ssrc, (streams[0].g.cur-16)&0xFFFF))
			}
			ops = append(ops, "close", fmt.Sprintf("nack ssrc=%d pairs=%d:65535", streams[len(streams)-1].ssrc, (streams[len(streams)-1].g.cur-16)&0xFFFF))
			return Case{Class: cl, Ops: ops}
		},
		Run: func(t *testing.T, ops []string, o *Out) {
			synctest.Test(t, func(t *testing.T) { c04runResponder(t, ops, o) })
		},
	})
}

package corr

// C05 — component `twccsnd`, scenario classes `streams` / `streamsmix`: SEVERAL remote streams bound on one
// twcc.SenderInterceptor, each negotiating the transport-wide-cc header extension under its OWN id (a
// function of the SSRC, c05ExtID; as audio and video m-lines may), some of them without the extension,
// bound at the start or in the middle of the traffic, re-bound with the other setting, with other header
// extensions negotiated — and present in every packet — under the ids the other streams use for
// transport-cc.  The property (C05: the feedback reports exactly what was received) does not mention ids:
// the model records a packet of a stream that has the extension under the stream's SSRC and nothing for
// a stream (or packet) without it, so an implementation that reads a stream under another stream's id
// (records the bytes of a foreign extension, misses the real number, or fails the Read on a one-byte
// extension) differs in the feedback or in the `err:read` lines.

import (
	"fmt"

	"github.com/pion/interceptor"
	"github.com/pion/rtp"
)

const c05TccURI = "http://www.ietf.org/id/draft-holmer-rmcat-transport-wide-cc-extensions-01"

// other header extension URIs a session negotiates next to transport-cc (the -02 draft of transport-cc is a
// different extension: the interceptor only reads -01)
var c05OtherURIs = []string{
	"http://www.webrtc.org/experiments/rtp-hdrext/abs-send-time",
	"urn:ietf:params:rtp-hdrext:sdes:mid",
	"urn:ietf:params:rtp-hdrext:toffset",
	"http://www.webrtc.org/experiments/rtp-hdrext/transport-wide-cc-02",
	"urn:ietf:params:rtp-hdrext:ssrc-audio-level",
	"urn:3gpp:video-orientation",
}

// c05ExtID is the id (1..14, one-byte header form) under which the stream with this SSRC negotiates
// transport-cc.
func c05ExtID(ssrc uint32) int { return 1 + int(ssrc%14) }

// c05StreamInfo: all 14 ids are negotiated, listed in an order that depends on the SSRC (the transport-cc
// entry is first, last or in the middle); without `tcc` the stream's id carries another extension too.
func c05StreamInfo(ssrc uint32, tcc bool) *interceptor.StreamInfo {
	info := &interceptor.StreamInfo{SSRC: ssrc}
	own := c05ExtID(ssrc)
	for k := 0; k < 14; k++ {
		id := 1 + (int(ssrc/14%14)+k)%14
		uri := c05OtherURIs[(id+int(ssrc%5))%len(c05OtherURIs)]
		if id == own && tcc {
			uri = c05TccURI
		}
		info.RTPHeaderExtensions = append(info.RTPHeaderExtensions, interceptor.RTPHeaderExtension{URI: uri, ID: id})
	}
	return info
}

// c05SetExtensions fills the header of a packet of stream h.SSRC.  When the stream negotiated transport-cc
// (`tcc`) its own id carries the extension with number `seq`, or nothing when this packet lacks it (`present`
// false).  Every other id of 1..14 (and the own id of a stream without transport-cc) carries a foreign
// extension of 1, 2 or 3 bytes whose content, read as a transport-wide number, is unrelated to `seq`.
func c05SetExtensions(h *rtp.Header, seq uint16, tcc, present bool) error {
	own := c05ExtID(h.SSRC)
	for id := 1; id <= 14; id++ {
		if id == own && tcc {
			if !present {
				continue
			}
			ext, _ := (&rtp.TransportCCExtension{TransportSequence: seq}).Marshal()
			if err := h.SetExtension(uint8(id), ext); err != nil {
				return err
			}
			continue
		}
		v := seq*31 + uint16(id)*4099 + 12345
		b := []byte{byte(v >> 8), byte(v), byte(id)}
		if err := h.SetExtension(uint8(id), b[:1+(int(seq)+id)%3]); err != nil {
			return err
		}
	}
	return nil
}

func c05SndStreamsCase(r *Rng, cl string) Case {
	var ops []string
	media := uint32(c05Media)
	if r.Chance(1, 2) {
		media = uint32(r.U64())
		ops = append(ops, fmt.Sprintf("cfg interval=%d media=%d", r.Pick(100, 100, 50, 20, 250), media))
	}
	type strm struct {
		ssrc       uint32
		tcc, bound bool
	}
	streams := []*strm{{media, true, true}}
	for k := r.Range(1, 4); k > 0; k-- {
		var ssrc uint32
		for ok := false; !ok; {
			switch r.Intn(4) {
			case 0: // the same id as an existing stream
				ssrc = streams[r.Intn(len(streams))].ssrc + 14*uint32(r.Range(1, 1000))
			case 1:
				ssrc = streams[r.Intn(len(streams))].ssrc + uint32(r.Range(1, 13))
			default:
				ssrc = uint32(r.U64())
			}
			ok = true
			for _, s := range streams {
				ok = ok && s.ssrc != ssrc
			}
		}
		streams = append(streams, &strm{ssrc: ssrc, tcc: cl == "streams" || r.Chance(1, 2)})
	}
	bindOp := func(s *strm) {
		s.bound = true
		ops = append(ops, fmt.Sprintf("bind ssrc=%d tcc=%d", s.ssrc, b2i(s.tcc)))
	}
	for _, s := range streams[1:] {
		if r.Chance(2, 3) { // the others are bound later, between packets of the bound ones
			bindOp(s)
		}
	}
	if r.Chance(1, 4) {
		ops = append(ops, fmt.Sprintf("adv us=%d", r.Pick(1, 1000, 250000)))
	}
	seq := r.Intn(65536) // ONE transport-wide counter over all streams
	if r.Chance(1, 6) {
		seq = 65536 - r.Range(1, 40)
	}
	for n := r.Range(10, 90); n > 0; n-- {
		s := streams[r.Intn(len(streams))]
		switch {
		case !s.bound:
			bindOp(s)
		case cl == "streamsmix" && r.Chance(1, 25): // renegotiated with the other setting, without an unbind
			s.tcc = !s.tcc
			bindOp(s)
		case r.Chance(1, 40): // bound again, unchanged
			bindOp(s)
		}
		for k := r.Pick(1, 1, 1, 2, 5); k > 0; k-- {
			op := fmt.Sprintf("pkt seq=%d ssrc=%d", seq&0xFFFF, s.ssrc)
			if s == streams[0] && r.Bool() {
				op = fmt.Sprintf("pkt seq=%d", seq&0xFFFF)
			}
			carries := s.tcc
			if cl == "streamsmix" && r.Chance(1, 12) {
				op = fmt.Sprintf("pkt seq=%d ssrc=%d ext=%d", seq&0xFFFF, s.ssrc, r.Pick(0, 0, 1))
				carries = carries && op[len(op)-1] == '1'
			}
			ops = append(ops, op)
			if carries {
				seq += r.Pick(1, 1, 1, 1, 2, 6)
			}
		}
		ops = append(ops, fmt.Sprintf("adv us=%d", r.Pick(0, 250, 1000, 5000, 20000, 64000, 100000, 100001)))
	}
	ops = append(ops, fmt.Sprintf("adv us=%d", r.Pick(100000, 250000, 1000000)))
	if r.Chance(1, 10) {
		ops = append(ops, c05PickS(r, "bind ssrc=1", "bind ssrc=1 tcc=2", "bind ssrc=4294967296 tcc=1", "bind tcc=1 ssrc=7",
			fmt.Sprintf("pkt seq=1 ssrc=%d", streams[0].ssrc+99991), "pkt seq=1 ssrc=4294967296", "pkt seq=1 ext=0",
			fmt.Sprintf("pkt seq=1 ssrc=%d ext=2", media), fmt.Sprintf("pkt seq=1 ssrc=%d ext=0 x=1", media)),
			"adv us=100000")
	}
	return Case{Class: cl, Ops: c05Ambient(r, ops)}
}

package corr

// "What one reader parses, the next one shares."  Attributes.GetRTCPPackets parses the bytes of an RTCP read once and
// caches the []rtcp.Packet in the attributes that travel up the reader chain: every RTCP reader of a chain — and the
// application, which gets the attributes back from Read — looks at the SAME objects.  They are input: a reader must not
// modify them (pop elements off a slice, sort a list, patch a field), or the consumers after it decode something the
// peer never sent.  Two general checks, usable by any component that reads RTCP:
//
//   - o.CheckRTCPInput(raw, attrs): after a Read through the chain, the cached parsed packets, marshalled again, must
//     be what a FRESH parse of the bytes that were read marshals to; a difference prints `INPUT-REWRITTEN …`, which no
//     model prints.
//   - rtcpTexts / o.CheckRTCPTexts: for packets handed over in parsed form (no bytes): a canonical text of every
//     packet taken before the call must equal the text taken after it.

import (
	"bytes"
	"fmt"
	"strings"
	"time"

	"github.com/pion/interceptor"
	"github.com/pion/rtcp"
)

// rtcpText renders one parsed RTCP packet completely (pointers followed): the two congestion-control feedback formats
// field by field — they need not be marshallable: hand-made feedback is deliberately inconsistent —, everything else
// through Marshal.
func rtcpText(p rtcp.Packet) string {
	switch fb := p.(type) {
	case *rtcp.TransportLayerCC:
		return fmt.Sprintf("twcc sender=%d media=%d fbcount=%d %s", fb.SenderSSRC, fb.MediaSSRC, fb.FbPktCount, c09ShowTWCC(fb))
	case *rtcp.CCFeedbackReport:
		return fmt.Sprintf("ccfb sender=%d %s", fb.SenderSSRC, c09ShowCCFB(fb, time.Time{}))
	case nil:
		return "nil"
	}
	b, err := p.Marshal()
	if err != nil {
		return fmt.Sprintf("%T err=%v", p, err)
	}
	return fmt.Sprintf("%T %x", p, b)
}

func rtcpTexts(pkts []rtcp.Packet) []string {
	out := make([]string, len(pkts))
	for i, p := range pkts {
		out[i] = rtcpText(p)
	}
	return out
}

// CheckRTCPTexts compares the texts taken before a call with the packets as they are after it.
func (o *Out) CheckRTCPTexts(who int, call string, before []string, pkts []rtcp.Packet) {
	after := rtcpTexts(pkts)
	if len(after) != len(before) {
		o.PW(who, "INPUT-REWRITTEN %s: %d parsed packets went in, %d are left", call, len(before), len(after))
		return
	}
	for i := range before {
		if before[i] != after[i] {
			o.PW(who, "INPUT-REWRITTEN %s: parsed packet %d was [%s] and is now [%s]", call, i,
				strings.ReplaceAll(before[i], " ", "_"), strings.ReplaceAll(after[i], " ", "_"))
		}
	}
}

// CheckRTCPInput: `raw` are the bytes a Read through the chain returned, `attrs` the attributes it returned.  The
// parsed packets cached in the attributes (parsed now if no reader of the chain asked for them) must still say what
// the bytes say.
func (o *Out) CheckRTCPInput(who int, raw []byte, attrs interceptor.Attributes) {
	if attrs == nil {
		return
	}
	fresh, err := rtcp.Unmarshal(raw)
	if err != nil {
		return // not parseable: nothing is cached
	}
	cached, err := attrs.GetRTCPPackets(raw)
	if err != nil {
		o.PW(who, "INPUT-REWRITTEN the parsed packets cached in the attributes are unusable: %v", err)
		return
	}
	want, got := rtcpTexts(fresh), rtcpTexts(cached)
	if len(want) != len(got) {
		o.PW(who, "INPUT-REWRITTEN the bytes read hold %d RTCP packets, the attributes cache %d", len(want), len(got))
		return
	}
	for i := range want {
		if want[i] != got[i] {
			o.PW(who, "INPUT-REWRITTEN cached parsed packet %d is [%s], the bytes read say [%s]", i,
				strings.ReplaceAll(got[i], " ", "_"), strings.ReplaceAll(want[i], " ", "_"))
			continue
		}
		wb, err1 := fresh[i].Marshal()
		gb, err2 := cached[i].Marshal()
		if (err1 == nil) != (err2 == nil) || !bytes.Equal(wb, gb) {
			o.PW(who, "INPUT-REWRITTEN cached parsed packet %d marshals to %x (err %v), a fresh parse of the bytes read to %x (err %v)", i, gb, err2, wb, err1)
		}
	}
}

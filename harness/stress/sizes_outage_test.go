package stress

// C12 — "memory does not grow with the number of packets processed (with periodic feedback)": feedback OUTAGES.
//
// Periodic feedback may stop for a while (a network blackout: the packets of that time never reach the peer, no
// report comes back) and resume.  An outage is part of the workload "with periodic feedback" — it only makes one
// period long — and the bound the theorem `rtpfb_size_le_unreported_partial` (Props/C12.lean) states does not depend
// on its length: len(packets) <= counter - nextReport, the packets sent and not yet reported.  A feedback that
// acknowledges the LATEST packet makes the interceptor report everything up to it, so afterwards every container of
// the history (VerifHistory.Sizes: the uint64-keyed packets map and both 16-bit lookup maps) is back to the size it
// had after the acknowledgement that preceded the outage — whatever the outage's length, in particular around and
// beyond one cycle of the 16-bit sequence-number spaces (65535 / 65536 / 65537 / 100000 / 140000 packets), and
// however often it happens.
//
// The op-for-op `sizes` correspondence cannot run these lengths: the Lean model's containers are association lists
// (an outage of 20000 packets takes the compiled model 37 s, 140000 would take half an hour), so the check is made
// here on the real code alone, against the theorem's bound.  Single goroutine, deterministic; `-ms` only selects how
// many outage lengths and repetitions are run (quick: 65536 and 100000, twice each; thorough: all five, three times).

import (
	"fmt"
	"testing"
	"time"

	"github.com/pion/interceptor"
	"github.com/pion/interceptor/pkg/rfc8888"
	"github.com/pion/interceptor/pkg/rtpfb"
	"github.com/pion/interceptor/pkg/twcc"
	"github.com/pion/rtcp"
	"github.com/pion/rtp"
)

type outageSizes struct{ packets, twcc, ssrcseq int }

func TestConserveSizesRtpfbOutage(t *testing.T) {
	lengths, reps := []int{65536, 100000}, 2
	if *fMillis >= 1000 {
		lengths, reps = []int{65535, 65536, 65537, 100000, 140000}, 3
	}
	for _, mode := range []string{"twcc", "ccfb"} {
		runRtpfbOutage(t, mode, lengths, reps)
	}
}

func runRtpfbOutage(t *testing.T, mode string, lengths []int, reps int) {
	f := must(rtpfb.NewInterceptor())
	ic := must(f.NewInterceptor("c"))
	defer func() { _ = ic.Close() }()
	si := info(1)
	if mode == "ccfb" {
		si.RTPHeaderExtensions = nil // no transport-cc extension negotiated: the history is keyed by (SSRC, sequence number)
	}
	w := ic.BindLocalStream(si, interceptor.RTPWriterFunc(func(h *rtp.Header, p []byte, _ interceptor.Attributes) (int, error) {
		return h.MarshalSize() + len(p), nil
	}))
	var pending []byte
	rd := ic.BindRTCPReader(interceptor.RTCPReaderFunc(func(b []byte, a interceptor.Attributes) (int, interceptor.Attributes, error) {
		return copy(b, pending), a, nil
	}))
	h := rtpfb.VerifHistoryOf(ic)
	start := time.Now()
	scratch := make([]byte, 65536)
	payload := []byte{1, 2, 3, 4}

	var seq, tw uint16
	sent := 0
	// the peer's recorders: what arrived since the last feedback it sent
	remoteTW := twcc.NewRecorder(7)
	remoteCC := rfc8888.NewRecorder()
	send := func(arrives bool) {
		hd := &rtp.Header{Version: 2, PayloadType: 96, SSRC: 1, SequenceNumber: seq, Timestamp: uint32(sent) * 90}
		if mode == "twcc" {
			_ = hd.SetExtension(5, must((&rtp.TransportCCExtension{TransportSequence: tw}).Marshal()))
		}
		_, _ = w.Write(hd, payload, interceptor.Attributes{})
		if arrives {
			now := time.Since(start)
			if mode == "twcc" {
				remoteTW.Record(1, tw, now.Microseconds())
			} else {
				remoteCC.AddPacket(start.Add(now), 1, seq, 0)
			}
		}
		seq++
		tw++
		sent++
	}
	feedback := func() {
		var pkts []rtcp.Packet
		if mode == "twcc" {
			pkts = remoteTW.BuildFeedbackPacket()
		} else {
			pkts = []rtcp.Packet{remoteCC.BuildReport(time.Now(), 1200)}
		}
		if len(pkts) == 0 {
			t.Fatalf("the simulated peer built no feedback (mode %s)", mode)
		}
		pending = must(rtcp.Marshal(pkts))
		_, _, _ = rd.Read(scratch, interceptor.Attributes{})
	}
	sizes := func() outageSizes {
		p, tws, ss := h.Sizes()
		return outageSizes{p, tws, ss}
	}
	// periodic feedback: 20 packets arrive, the peer acknowledges them (the last one included)
	period := func() {
		for i := 0; i < 20; i++ {
			send(true)
		}
		feedback()
	}
	for i := 0; i < 5; i++ {
		period()
	}
	base := sizes()
	if base != (outageSizes{}) {
		t.Errorf("CONSERVATION sizes-rtpfb-outage (%s): after a feedback that acknowledges the last of %d packets the history holds packets=%d twcc=%d ssrcseq=%d (bound: packets sent and not yet reported = 0)",
			mode, sent, base.packets, base.twcc, base.ssrcseq)
	}
	for _, n := range lengths {
		for rep := 1; rep <= reps; rep++ {
			for i := 0; i < n; i++ {
				send(false) // the blackout: sent, never arrives, no feedback
			}
			during := sizes()
			// a peer that comes back after a blackout longer than half a sequence-number cycle cannot tell how many
			// cycles went by: it starts its records afresh (its feedback names the packets it has seen since)
			remoteTW = twcc.NewRecorder(7)
			remoteCC = rfc8888.NewRecorder()
			period()
			after := sizes()
			fmt.Printf("stress conserve-sizes-rtpfb-outage mode=%s outage=%d rep=%d during=%d/%d/%d after=%d/%d/%d\n",
				mode, n, rep, during.packets, during.twcc, during.ssrcseq, after.packets, after.twcc, after.ssrcseq)
			if after != base {
				t.Errorf("CONSERVATION sizes-rtpfb-outage (%s): feedback outage of %d packets (repetition %d), then a feedback that acknowledges the latest packet: the history holds packets=%d twcc=%d ssrcseq=%d, before the outage packets=%d twcc=%d ssrcseq=%d — records of the outage are kept for ever",
					mode, n, rep, after.packets, after.twcc, after.ssrcseq, base.packets, base.twcc, base.ssrcseq)
			}
			// and ordinary periodic feedback goes on as before
			period()
			if s := sizes(); s != base {
				t.Errorf("CONSERVATION sizes-rtpfb-outage (%s): one feedback period after the outage of %d packets (repetition %d) the history holds packets=%d twcc=%d ssrcseq=%d (baseline %d/%d/%d)",
					mode, n, rep, s.packets, s.twcc, s.ssrcseq, base.packets, base.twcc, base.ssrcseq)
			}
		}
	}
}

package stress

// Conservation checks with real goroutines: counters and sums that the properties define as recounts
// must come out exact when readers/writers run concurrently with the interceptors' own timers.
// They are sampling (search support), never a proof.

import (
	"fmt"
	"sync"
	"sync/atomic"
	"testing"
	"time"

	"github.com/pion/interceptor"
	"github.com/pion/interceptor/pkg/pacing"
	"github.com/pion/interceptor/pkg/report"
	"github.com/pion/interceptor/pkg/stats"
	"github.com/pion/interceptor/pkg/twcc"
	"github.com/pion/rtcp"
	"github.com/pion/rtp"
)

// receiver reports: the cumulative loss of the last report equals the number of sequence numbers never
// delivered, although reports are generated while packets keep arriving.
func TestConserveReceiverReport(t *testing.T) {
	f, err := report.NewReceiverInterceptor(report.ReceiverInterval(time.Millisecond))
	if err != nil {
		t.Fatal(err)
	}
	ic, _ := f.NewInterceptor("c")
	var mu sync.Mutex
	var last *rtcp.ReceptionReport
	ic.BindRTCPWriter(interceptor.RTCPWriterFunc(func(p []rtcp.Packet, _ interceptor.Attributes) (int, error) {
		for _, x := range p {
			if rr, ok := x.(*rtcp.ReceiverReport); ok && len(rr.Reports) == 1 {
				r := rr.Reports[0]
				mu.Lock()
				last = &r
				mu.Unlock()
			}
		}
		return 0, nil
	}))
	var seq uint32 = 100
	lost := 0
	r := ic.BindRemoteStream(info(1), interceptor.RTPReaderFunc(func(b []byte, a interceptor.Attributes) (int, interceptor.Attributes, error) {
		seq++
		if seq%5 == 0 {
			seq++
			lost++
		}
		h := rtp.Header{Version: 2, SSRC: 1, PayloadType: 96, SequenceNumber: uint16(seq), Timestamp: seq * 90}
		n, err := h.MarshalTo(b)
		return n, a, err
	}))
	deadline := time.Now().Add(time.Duration(*fMillis) * time.Millisecond)
	buf := make([]byte, 1500)
	n := 0
	for time.Now().Before(deadline) {
		if _, _, err := r.Read(buf, interceptor.Attributes{}); err != nil {
			t.Fatal(err)
		}
		n++
		if n%2000 == 0 {
			time.Sleep(100 * time.Microsecond) // keep report intervals well below the 8192-packet history
		}
	}
	time.Sleep(20 * time.Millisecond)
	_ = ic.Close()
	mu.Lock()
	defer mu.Unlock()
	if last == nil {
		t.Fatal("no report")
	}
	fmt.Printf("stress conserve-receiver-report packets=%d lost=%d\n", n, lost)
	if last.LastSequenceNumber&0xFFFF != seq&0xFFFF || int(last.TotalLost) != lost {
		t.Errorf("CONSERVATION report-receiver: last report says highest=%d lost=%d, delivered highest=%d never-delivered=%d",
			last.LastSequenceNumber, last.TotalLost, seq, lost)
	}
}

// sender reports and statistics: packet counts equal the number of writes, with RTCP written concurrently.
func TestConserveCounters(t *testing.T) {
	sf, err := report.NewSenderInterceptor(report.SenderInterval(time.Millisecond))
	if err != nil {
		t.Fatal(err)
	}
	sr, _ := sf.NewInterceptor("c")
	var srCount atomic.Uint32
	sr.BindRTCPWriter(interceptor.RTCPWriterFunc(func(p []rtcp.Packet, _ interceptor.Attributes) (int, error) {
		for _, x := range p {
			if s, ok := x.(*rtcp.SenderReport); ok && s.SSRC == 1 {
				srCount.Store(s.PacketCount)
			}
		}
		return 0, nil
	}))
	stf, err := stats.NewInterceptor()
	if err != nil {
		t.Fatal(err)
	}
	var getter atomic.Value
	stf.OnNewPeerConnection(func(_ string, g stats.Getter) { getter.Store(g) })
	st, _ := stf.NewInterceptor("c")
	chain := interceptor.NewChain([]interceptor.Interceptor{sr, st})
	w := chain.BindLocalStream(info(1), interceptor.RTPWriterFunc(func(*rtp.Header, []byte, interceptor.Attributes) (int, error) { return 0, nil }))
	rw := chain.BindRTCPWriter(interceptor.RTCPWriterFunc(func([]rtcp.Packet, interceptor.Attributes) (int, error) { return 0, nil }))
	time.Sleep(20 * time.Millisecond) // the recorder becomes active asynchronously after Bind (the recount starts then)
	stop := make(chan struct{})
	var wg sync.WaitGroup
	wg.Add(1)
	go func() { // outgoing RTCP about the same stream, concurrently
		defer wg.Done()
		for i := 0; ; i++ {
			select {
			case <-stop:
				return
			default:
			}
			_, _ = rw.Write([]rtcp.Packet{&rtcp.ReceiverReport{SSRC: 1}, &rtcp.PictureLossIndication{SenderSSRC: 1, MediaSSRC: 9},
				&rtcp.SenderReport{SSRC: 1, NTPTime: uint64(i)}}, nil)
		}
	}()
	writes := 0
	deadline := time.Now().Add(time.Duration(*fMillis) * time.Millisecond)
	for time.Now().Before(deadline) {
		h := &rtp.Header{Version: 2, SSRC: 1, PayloadType: 96, SequenceNumber: uint16(writes), Timestamp: uint32(writes)}
		if _, err := w.Write(h, []byte{1, 2, 3, 4}, nil); err != nil {
			t.Fatal(err)
		}
		writes++
	}
	close(stop)
	wg.Wait()
	time.Sleep(30 * time.Millisecond)
	g, _ := getter.Load().(stats.Getter)
	var sent uint64
	for i := 0; i < 100; i++ { // the recorder applies its queue asynchronously
		if s := g.Get(1); s != nil {
			sent = s.OutboundRTPStreamStats.PacketsSent
		}
		if int(sent) == writes {
			break
		}
		time.Sleep(5 * time.Millisecond)
	}
	_ = chain.Close()
	fmt.Printf("stress conserve-counters writes=%d\n", writes)
	if int(sent) != writes {
		t.Errorf("CONSERVATION stats: PacketsSent=%d after %d writes", sent, writes)
	}
	if int(srCount.Load()) != writes {
		t.Errorf("CONSERVATION report-sender: last sender report counts %d packets after %d writes", srCount.Load(), writes)
	}
}

// pacing: on the real clock the cumulative bits released never exceed burst + rate x elapsed.
func TestConservePacingEnvelope(t *testing.T) {
	const rate = 20_000_000
	const interval = time.Millisecond
	ic, err := pacing.NewInterceptor(pacing.InitialRate(rate), pacing.Interval(interval)).NewInterceptor("c")
	if err != nil {
		t.Fatal(err)
	}
	burst := int64(rate) * int64(interval) / int64(time.Second) * 8 / 8
	if burst < 12000 {
		burst = 12000
	}
	var mu sync.Mutex
	start := time.Now()
	var bits, worst int64
	w := ic.BindLocalStream(info(1), interceptor.RTPWriterFunc(func(h *rtp.Header, p []byte, _ interceptor.Attributes) (int, error) {
		mu.Lock()
		bits += int64(8 * (h.MarshalSize() + len(p)))
		allowed := 2*burst + int64(float64(rate)*time.Since(start).Seconds()*1.02)
		if ex := bits - allowed; ex > worst {
			worst = ex
		}
		mu.Unlock()
		return len(p), nil
	}))
	payload := make([]byte, 1000)
	deadline := time.Now().Add(time.Duration(*fMillis) * time.Millisecond * 3)
	i := 0
	for time.Now().Before(deadline) {
		h := &rtp.Header{Version: 2, SSRC: 1, PayloadType: 96, SequenceNumber: uint16(i)}
		_, _ = w.Write(h, payload[:700+i%300], nil)
		i++
		if i%50 == 0 {
			time.Sleep(200 * time.Microsecond) // keep the queue saturated but bounded
		}
	}
	_ = ic.Close()
	mu.Lock()
	defer mu.Unlock()
	fmt.Printf("stress conserve-pacing-envelope bits=%d\n", bits)
	if worst > 0 {
		t.Errorf("CONSERVATION pacing: released %d bits more than 2*burst + 1.02*rate*elapsed allows", worst)
	}
}

// transport-wide sequence numbers: across the 16-bit wrap, with several streams writing at the same
// moment, every number is handed out exactly once (C10: no lost update; C15: unique and consecutive).
// The counter is preset just below the wrap (hook VerifSetNextSequenceNr), then eight goroutines released
// together allocate across it.
func TestConserveTwccWrapUnique(t *testing.T) {
	deadline := time.Now().Add(time.Duration(*fMillis) * time.Millisecond)
	trials := 0
	const writers = 8
	const per = 6
	for trials == 0 || time.Now().Before(deadline) {
		trials++
		f, err := twcc.NewHeaderExtensionInterceptor()
		if err != nil {
			t.Fatal(err)
		}
		ic, _ := f.NewInterceptor("c")
		var got [writers][]uint16
		var ws [writers]interceptor.RTPWriter
		for i := 0; i < writers; i++ {
			i := i
			si := info(uint32(i + 1))
			si.RTPHeaderExtensions = []interceptor.RTPHeaderExtension{{URI: "http://www.ietf.org/id/draft-holmer-rmcat-transport-wide-cc-extensions-01", ID: 3}}
			ws[i] = ic.BindLocalStream(si, interceptor.RTPWriterFunc(func(h *rtp.Header, _ []byte, _ interceptor.Attributes) (int, error) {
				var ext rtp.TransportCCExtension
				if err := ext.Unmarshal(h.GetExtension(3)); err != nil {
					return 0, err
				}
				got[i] = append(got[i], ext.TransportSequence)
				return 0, nil
			}))
		}
		first := uint32(65536 - 1 - trials%(writers*per/2))
		ic.(*twcc.HeaderExtensionInterceptor).VerifSetNextSequenceNr(first)
		var start, wg sync.WaitGroup
		start.Add(1)
		for i := 0; i < writers; i++ {
			wg.Add(1)
			go func(i int) {
				defer wg.Done()
				start.Wait()
				for n := 0; n < per; n++ {
					_, _ = ws[i].Write(&rtp.Header{Version: 2, SSRC: uint32(i + 1), PayloadType: 96, SequenceNumber: uint16(n)}, nil, interceptor.Attributes{})
				}
			}(i)
		}
		start.Done()
		wg.Wait()
		_ = ic.Close()
		count := map[uint16]int{}
		for i := range got {
			for _, x := range got[i] {
				count[x]++
			}
		}
		for k := 0; k < writers*per; k++ {
			x := uint16(first + uint32(k))
			if count[x] != 1 {
				t.Errorf("CONSERVATION twcc-seq: %d parallel writers allocated %d numbers starting at %d (trial %d): number %d was handed out %d times, want once",
					writers, writers*per, first, trials, x, count[x])
				return
			}
		}
	}
	fmt.Printf("stress conserve-twcc-wrap trials=%d\n", trials)
}

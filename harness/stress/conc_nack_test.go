package stress

// C03 with real goroutines: "a sequence number that was received inside the window is never requested,
// numbers ahead of the highest received are never requested, streams are independent" must also hold
// when the reporting tick runs WHILE packets keep arriving (the property quantifies over "any
// interleaving of ticks with arrivals"; the correspondence runs interleave whole ticks with whole
// arrivals in a synctest bubble and cannot put an arrival in the middle of a tick's scan).
//
// Construction that makes the check independent of timing: per stream a fixed predicate `lost` over
// 16-bit sequence numbers decides which numbers are NEVER delivered, in any cycle; one goroutine per
// stream delivers every other number in strictly increasing order, round and round across the 16-bit
// wrap.  `lost` contains isolated numbers (so that the log's cursor stays at the far end of the window
// and every tick scans the whole window), long runs (= big forward jumps < 2^15, larger and smaller
// than the window) and a run across 65535 -> 0.  Because delivery is in order and gaps are never
// filled, at every instant  {u : first < u <= highest, u not received}  is a set of never-delivered
// numbers; so by the property EVERY number of EVERY NACK must satisfy `lost`, whenever the NACK was
// built.  A number that does not satisfy `lost` was either received before the NACK was built or lay
// ahead of the highest received: both are forbidden.  Before the first wrap the bounds are checked
// too: first < s <= highest handed to the interceptor so far.
//
// Sampling / search support, never a proof: the theorems (Props/C03.lean) are about the sequential
// model; that missingSeqNumbers is atomic w.r.t. add is the lock's job (C10 facts), this run observes it.

import (
	"fmt"
	"sync"
	"sync/atomic"
	"testing"
	"time"

	"github.com/pion/interceptor"
	"github.com/pion/interceptor/pkg/nack"
	"github.com/pion/rtcp"
	"github.com/pion/rtp"
)

type nackPlan struct {
	ssrc  uint32
	first uint16
	lost  func(s uint16) bool
}

func inRun(s, from uint16, n uint16) bool { return s-from < n } // [from, from+n) modulo 2^16

func nackPlans() []nackPlan {
	return []nackPlan{
		// sparse single losses; a run of 15000 (jump larger than an 8192 window); a short run across the wrap
		{ssrc: 1, first: 100, lost: func(s uint16) bool {
			return s%7 == 3 || inRun(s, 20000, 15000) || inRun(s, 65500, 90)
		}},
		// starts just below the wrap; bursts of three every 64; a run of 1200 across the wrap
		{ssrc: 2, first: 65300, lost: func(s uint16) bool {
			return s%5 == 1 || s%64 < 3 || inRun(s, 65400, 1200)
		}},
		// dense losses; one run of 30000 (nearly the largest forward jump, wipes a 32768 window)
		{ssrc: 3, first: 40000, lost: func(s uint16) bool {
			return s%3 == 0 || inRun(s, 50000, 30000)
		}},
	}
}

func runConserveNack(t *testing.T, size uint16, d time.Duration) {
	f, err := nack.NewGeneratorInterceptor(nack.GeneratorInterval(time.Millisecond), nack.GeneratorSize(size))
	if err != nil {
		t.Fatal(err)
	}
	ic, err := f.NewInterceptor("c")
	if err != nil {
		t.Fatal(err)
	}
	plans := nackPlans()
	type state struct {
		plan      nackPlan
		published atomic.Uint64 // unwrapped highest number handed to the interceptor (stored BEFORE the hand-over)
		nacks     atomic.Int64
		requested atomic.Int64
	}
	states := map[uint32]*state{}
	for _, p := range plans {
		if p.lost(p.first) {
			t.Fatalf("plan %d: the first number must be delivered", p.ssrc)
		}
		states[p.ssrc] = &state{plan: p}
	}
	var failOnce sync.Once
	fail := func(format string, args ...any) {
		failOnce.Do(func() {
			t.Errorf("CONSERVATION nack-never-received (size %d): "+format, append([]any{size}, args...)...)
		})
	}
	ic.BindRTCPWriter(interceptor.RTCPWriterFunc(func(pkts []rtcp.Packet, _ interceptor.Attributes) (int, error) {
		for _, pkt := range pkts {
			n, ok := pkt.(*rtcp.TransportLayerNack)
			if !ok {
				continue
			}
			st := states[n.MediaSSRC]
			if st == nil {
				fail("NACK for SSRC %d, which was never bound", n.MediaSSRC)
				continue
			}
			hi := st.published.Load() // >= the log's highest number when this NACK was built
			st.nacks.Add(1)
			for _, pair := range n.Nacks {
				for _, s := range pair.PacketList() {
					st.requested.Add(1)
					if !st.plan.lost(s) {
						fail("SSRC %d: NACK requests %d, which is not one of the never-delivered numbers: it was received before the NACK was built or is ahead of the highest received (highest handed over so far: %d = %d mod 2^16; the NACK lists %d pairs)",
							n.MediaSSRC, s, hi, uint16(hi), len(n.Nacks))
						return 0, nil
					}
					if hi < 65536 && (uint64(s) > hi || s <= st.plan.first) {
						fail("SSRC %d: NACK requests %d before the first wrap, outside (first=%d, highest handed over=%d]",
							n.MediaSSRC, s, st.plan.first, hi)
						return 0, nil
					}
				}
			}
		}
		return 0, nil
	}))
	stop := make(chan struct{})
	var wg sync.WaitGroup
	var delivered atomic.Int64
	for _, p := range plans {
		st := states[p.ssrc]
		next := uint64(p.first)
		r := ic.BindRemoteStream(info(p.ssrc), interceptor.RTPReaderFunc(func(b []byte, a interceptor.Attributes) (int, interceptor.Attributes, error) {
			for st.plan.lost(uint16(next)) {
				next++
			}
			h := rtp.Header{Version: 2, SSRC: st.plan.ssrc, PayloadType: 96, SequenceNumber: uint16(next), Timestamp: uint32(next) * 90}
			st.published.Store(next)
			next++
			n, err := h.MarshalTo(b)
			return n, a, err
		}))
		wg.Add(1)
		go func() { // the ONE goroutine that reads this stream: arrivals are in order
			defer wg.Done()
			buf := make([]byte, 1500)
			for i := 0; ; i++ {
				select {
				case <-stop:
					return
				default:
				}
				if _, _, err := r.Read(buf, interceptor.Attributes{}); err != nil {
					fail("read: %v", err)
					return
				}
				delivered.Add(1)
			}
		}()
	}
	time.Sleep(d)
	// not vacuous: wait (bounded) until every stream has been asked for something
	for w := 0; w < 400; w++ {
		all := true
		for _, st := range states {
			all = all && st.nacks.Load() > 0
		}
		if all {
			break
		}
		time.Sleep(5 * time.Millisecond)
	}
	close(stop)
	wg.Wait()
	_ = ic.Close()
	var nacks, req int64
	for _, st := range states {
		nacks += st.nacks.Load()
		req += st.requested.Load()
	}
	fmt.Printf("stress conserve-nack-never-received/%d delivered=%d nacks=%d requested=%d\n", size, delivered.Load(), nacks, req)
}

func TestConserveNackNeverReceived(t *testing.T) {
	d := time.Duration(*fMillis) * time.Millisecond
	for _, size := range []uint16{8192, 32768} {
		size := size
		t.Run(fmt.Sprint(size), func(t *testing.T) { runConserveNack(t, size, d) })
	}
}

package stress

// C10 / C15 with real goroutines (sampling / search support, never a proof): the NACK responder ABOVE the
// transport-wide-CC header-extension interceptor (application -> responder -> twcc -> transport: retransmissions
// get a fresh transport-wide number) and the SAME sequence number requested by two NACKs of one compound packet
// (two receivers, or a repeated request).  Each NACK is answered by its own goroutine, so two retransmissions of
// one stored packet are written at the same time; the writers below stamp the header they are given.
// Invariants: no data race; every packet at the transport carries a transport-wide number of its own (each number
// once, one run of consecutive values); every requested packet is retransmitted once per request.
// Witness of finding F-41 (the responder handed the stored header itself to every retransmission).

import (
	"fmt"
	"sync"
	"testing"
	"time"

	"github.com/pion/interceptor"
	"github.com/pion/interceptor/pkg/nack"
	"github.com/pion/interceptor/pkg/twcc"
	"github.com/pion/rtcp"
	"github.com/pion/rtp"
)

func TestConserveTwccNackChainDuplicateNack(t *testing.T) {
	const uri = "http://www.ietf.org/id/draft-holmer-rmcat-transport-wide-cc-extensions-01"
	const n = 120
	deadline := time.Now().Add(time.Duration(*fMillis) * time.Millisecond)
	trials := 0
	for trials == 0 || time.Now().Before(deadline) {
		trials++
		twi := must(must(twcc.NewHeaderExtensionInterceptor()).NewInterceptor("c"))
		resp := must(must(nack.NewResponderInterceptor(nack.ResponderSize(256))).NewInterceptor("c"))
		chain := interceptor.NewChain([]interceptor.Interceptor{twi, resp}) // the first member is next to the transport
		var mu sync.Mutex
		seen := map[uint16]int{}
		total := 0
		w := chain.BindLocalStream(&interceptor.StreamInfo{SSRC: 1, RTCPFeedback: []interceptor.RTCPFeedback{{Type: "nack"}},
			RTPHeaderExtensions: []interceptor.RTPHeaderExtension{{URI: uri, ID: 5}}},
			interceptor.RTPWriterFunc(func(h *rtp.Header, p []byte, _ interceptor.Attributes) (int, error) {
				time.Sleep(10 * time.Microsecond) // a slow transport that reads the header when it is done waiting
				var e rtp.TransportCCExtension
				if err := e.Unmarshal(h.GetExtension(5)); err != nil {
					return 0, err
				}
				mu.Lock()
				seen[e.TransportSequence]++
				total++
				mu.Unlock()
				return len(p), nil
			}))
		var in []byte
		r := chain.BindRTCPReader(interceptor.RTCPReaderFunc(func(b []byte, a interceptor.Attributes) (int, interceptor.Attributes, error) {
			return copy(b, in), a, nil
		}))
		for seq := uint16(0); seq < n; seq++ {
			_, _ = w.Write(&rtp.Header{Version: 2, SSRC: 1, SequenceNumber: seq}, []byte{1}, nil)
		}
		for seq := uint16(0); seq < n; seq++ {
			raw, err := rtcp.Marshal([]rtcp.Packet{
				&rtcp.TransportLayerNack{SenderSSRC: 2, MediaSSRC: 1, Nacks: []rtcp.NackPair{{PacketID: seq}}},
				&rtcp.TransportLayerNack{SenderSSRC: 3, MediaSSRC: 1, Nacks: []rtcp.NackPair{{PacketID: seq}}},
			})
			if err != nil {
				t.Fatal(err)
			}
			in = raw
			_, _, _ = r.Read(make([]byte, 1500), nil)
		}
		// retransmissions run on their own goroutines: wait until all have reached the transport (a NACK that is
		// still queued when Close runs is legitimately dropped), at most two seconds
		for wait := time.Now().Add(2 * time.Second); time.Now().Before(wait); time.Sleep(200 * time.Microsecond) {
			mu.Lock()
			done := total >= 3*n
			mu.Unlock()
			if done {
				break
			}
		}
		_ = chain.Close()
		mu.Lock()
		if total != 3*n {
			t.Errorf("CONSERVATION twcc-nack-dup: %d packets reached the transport, want %d (every packet once, every request answered once)", total, 3*n)
		}
		for k := 0; k < 3*n && !t.Failed(); k++ {
			if seen[uint16(k)] != 1 {
				t.Errorf("CONSERVATION twcc-nack-dup: transport-wide number %d left %d times (two retransmissions of one stored packet shared a header), trial %d", k, seen[uint16(k)], trials)
			}
		}
		mu.Unlock()
		if t.Failed() {
			return
		}
	}
	fmt.Printf("stress conserve-twcc-nack-dup trials=%d\n", trials)
}

package stress

// C17 — "every packet a pacer accepts (Write returned no error) is handed to its stream's next writer exactly once,
// in order, for as long as the pacer is open": backlogs around the DECLARED queue capacity of the pacing interceptor.
//
// The pacing interceptor declares one capacity, `queueSize` = 1,000,000 packets (pkg/pacing/interceptor.go): the
// hand-over channel between Write and the pacing goroutine has that many slots, and a Write that finds it full
// returns errPacerOverflow - the only way the interceptor may refuse a packet while it is open.  Exactly-once is a
// statement about every ACCEPTED packet, whatever the number waiting, and a declared capacity is the classical place
// for an off-by-one or for a second, silent limit.  So the backlog (accepted and not yet delivered) is driven to
// queueSize-1, queueSize and queueSize+400 at a near-zero rate (a congestion controller that cut the rate while the
// application keeps sending; an overflow error is allowed and that packet does not count), then the rate is raised
// through the public SetRate and the next writer must receive every accepted packet, once, in the order accepted
// (every packet carries its acceptance number).
//
// A million waiting packets are ~0.4 GB of live heap (more under the race detector) and several seconds, so the
// quick tier (-ms < 1000) runs the largest backlog only and the thorough tier all three.

import (
	"fmt"
	"runtime"
	"runtime/debug"
	"sync/atomic"
	"testing"
	"time"

	"github.com/pion/interceptor"
	"github.com/pion/interceptor/pkg/pacing"
	"github.com/pion/rtp"
)

const pacingDeclaredQueueSize = 1_000_000

func TestDeepBacklogPacing(t *testing.T) {
	backlogs := []int64{pacingDeclaredQueueSize + 400}
	if *fMillis >= 1000 {
		backlogs = []int64{pacingDeclaredQueueSize - 1, pacingDeclaredQueueSize, pacingDeclaredQueueSize + 400}
	}
	for _, b := range backlogs {
		runDeepBacklog(t, b)
		runtime.GC()
		debug.FreeOSMemory()
	}
}

func runDeepBacklog(t *testing.T, backlog int64) {
	start := time.Now()
	f := pacing.NewInterceptor(pacing.Interval(time.Millisecond), pacing.InitialRate(1))
	ic := must(f.NewInterceptor("pc"))
	defer func() { _ = ic.Close() }()
	var (
		delivered atomic.Int64
		firstBad  atomic.Int64 // delivery index of the first packet out of sequence, -1 = none
		badNumber atomic.Int64
	)
	firstBad.Store(-1)
	w := ic.BindLocalStream(info(1), interceptor.RTPWriterFunc(func(h *rtp.Header, p []byte, _ interceptor.Attributes) (int, error) {
		d := delivered.Load()
		if int64(h.Timestamp) != d && firstBad.Load() < 0 {
			firstBad.Store(d)
			badNumber.Store(int64(h.Timestamp))
		}
		delivered.Store(d + 1)
		return h.MarshalSize() + len(p), nil
	}))
	payload := []byte{1, 2, 3, 4}
	var accepted, refused int64
	fill := func() bool {
		for accepted-delivered.Load() < backlog {
			_, err := w.Write(&rtp.Header{Version: 2, SSRC: 1, PayloadType: 96, SequenceNumber: uint16(accepted), Timestamp: uint32(accepted)}, payload, nil)
			switch {
			case err == nil:
				accepted++
			case err.Error() == "pacer queue overflow": // errPacerOverflow is not exported
				// the hand-over channel is full: allowed, the packet does not count; let the pacing goroutine take some
				refused++
				runtime.Gosched()
			default:
				t.Errorf("CONSERVATION deep-backlog-pacing: Write %d returned %v while the interceptor is open", accepted, err)
				return false
			}
			if time.Since(start) > 120*time.Second {
				t.Errorf("CONSERVATION deep-backlog-pacing: could not build a backlog of %d in 120 s (accepted %d, refused %d)", backlog, accepted, refused)
				return false
			}
		}
		return true
	}
	// the first ticks release what the initial bucket holds (a few dozen packets): top up until the backlog stands
	for {
		if !fill() {
			return
		}
		time.Sleep(5 * time.Millisecond)
		if accepted-delivered.Load() >= backlog {
			break
		}
	}
	// the backlog has to stand in the pacing queue proper: wait until the pacing goroutine has taken everything out of
	// the hand-over channel (verif hook VerifSizes: len of the channel)
	if sz, ok := ic.(interface{ VerifSizes() map[string]int }); ok {
		for sz.VerifSizes()["chan"] != 0 && time.Since(start) < 120*time.Second {
			time.Sleep(time.Millisecond)
		}
	} else {
		time.Sleep(2 * time.Second)
	}
	early := delivered.Load()
	built := time.Since(start)
	f.SetRate("pc", 4_000_000_000_000) // every tick may release the whole backlog
	last, lastAt := delivered.Load(), time.Now()
	for delivered.Load() < accepted {
		time.Sleep(2 * time.Millisecond)
		if d := delivered.Load(); d != last {
			last, lastAt = d, time.Now()
		} else if time.Since(lastAt) > 3*time.Second {
			break // nothing arrives any more
		}
	}
	time.Sleep(20 * time.Millisecond) // a duplicate would come now
	got := delivered.Load()
	fmt.Printf("stress deep-backlog-pacing backlog=%d accepted=%d refused=%d delivered=%d (before the rate was raised: %d) build=%v total=%v\n",
		backlog, accepted, refused, got, early, built.Round(time.Millisecond), time.Since(start).Round(time.Millisecond))
	if fb := firstBad.Load(); fb >= 0 {
		t.Errorf("CONSERVATION deep-backlog-pacing: backlog %d (declared queue size %d): delivery %d to the next writer is accepted packet %d: accepted packets are lost, duplicated or reordered",
			backlog, pacingDeclaredQueueSize, fb, badNumber.Load())
	}
	if got != accepted {
		t.Errorf("CONSERVATION deep-backlog-pacing: backlog %d (declared queue size %d): Write returned nil for %d packets, the next writer got %d after the rate was raised to 4 Tbit/s and 3 s without a delivery (%d missing)",
			backlog, pacingDeclaredQueueSize, accepted, got, accepted-got)
	}
}

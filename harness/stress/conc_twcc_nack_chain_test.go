package stress

// C15 / C10 / C04 with real goroutines (sampling / search support, never a proof): the transport-wide-CC
// header-extension interceptor in one chain with the NACK responder, an application that RE-USES one rtp.Header
// value, one CSRC array, one extension payload buffer and one payload buffer per stream for every packet it
// writes (it may: whoever keeps a packet beyond Write keeps a copy), and NACKs that trigger retransmissions while
// the writers go on and while media packets are still inside a slow transport writer.
//
// The chain is bound in both orders (trial by trial):
//   inner: application -> twcc -> responder -> transport   (the order pion/webrtc registers them in): a
//          retransmission is the stored packet as it went out first, number included;
//   outer: application -> responder -> twcc -> transport   (retransmissions get a fresh transport-wide number).
// Invariants, for every interleaving:
//   * every packet at the transport - media or retransmission - carries the CSRC, the application's own
//     extension element and the payload that were written under ITS RTP sequence number (a shallow copy kept by
//     anybody in the chain shows a later packet's values);
//   * inner: the numbers of the media packets are each handed out exactly once and form one run of consecutive
//     values; along a stream they increase; a retransmission carries the number its packet first left with;
//   * outer: the numbers of ALL packets (media and retransmissions) are handed out exactly once, one run;
//   * every requested packet is retransmitted exactly once (each sequence number is asked for at most once, so
//     no two retransmission goroutines ever hold the same stored packet).
// The transport reads the header AFTER its slow part, as a socket write would.

import (
	"fmt"
	"runtime"
	"sync"
	"sync/atomic"
	"testing"
	"time"

	"github.com/pion/interceptor"
	"github.com/pion/interceptor/pkg/nack"
	"github.com/pion/interceptor/pkg/stats"
	"github.com/pion/interceptor/pkg/twcc"
	"github.com/pion/rtcp"
	"github.com/pion/rtp"
)

func TestConserveTwccNackChainReusedHeader(t *testing.T) {
	const streams = 2
	const per = 240
	const twccID = 5
	const ownID = 1
	deadline := time.Now().Add(time.Duration(*fMillis) * time.Millisecond)
	trials := 0
	packets := 0
	for trials == 0 || time.Now().Before(deadline) {
		trials++
		inner := trials%2 == 1
		hdrIc := must(must(twcc.NewHeaderExtensionInterceptor()).NewInterceptor("c")).(*twcc.HeaderExtensionInterceptor)
		resp := must(must(nack.NewResponderInterceptor(nack.ResponderSize(1024))).NewInterceptor("c"))
		// binding order: the FIRST member is next to the transport
		var members []interceptor.Interceptor
		if inner {
			members = []interceptor.Interceptor{resp, hdrIc}
		} else {
			members = []interceptor.Interceptor{hdrIc, resp}
		}
		if trials%3 == 0 {
			members = append(members, must(must(stats.NewInterceptor()).NewInterceptor("c")))
		}
		chain := interceptor.NewChain(members)
		var first uint32
		switch trials % 3 {
		case 0:
			first = uint32(65536 - 1 - (trials*37)%(streams*per)) // the run crosses the 16-bit wrap
		case 1:
			first = uint32(trials*521) % 30000
		}
		hdrIc.VerifSetNextSequenceNr(first)

		base := func(s int) uint16 { return uint16(s*(65536-120) + trials%50) } // stream 1 crosses the RTP wrap
		csrcOf := func(s, k int) uint32 { return uint32(s)<<24 | uint32(k)*2654435761>>8 }
		ownOf := func(s, k int) [2]byte { return [2]byte{byte(k*7 + s), byte(k >> 3)} }
		payLen := func(s, k int) int { return 20 + (k*13+s)%40 }
		payByte := func(s, k, i int) byte { return byte(k*31 + i*7 + s) }

		type got struct {
			k       int // index of the packet in its stream (from the RTP sequence number)
			tw      int // transport-wide number, -1: none
			intact  bool
			problem string
		}
		var mu sync.Mutex
		var wire [streams][]got
		var calls atomic.Int64
		bottom := func(s int) interceptor.RTPWriter {
			return interceptor.RTPWriterFunc(func(h *rtp.Header, p []byte, _ interceptor.Attributes) (int, error) {
				// a slow transport: the header is looked at after the wait
				switch c := calls.Add(1); {
				case c%16 == 0:
					time.Sleep(50 * time.Microsecond)
				case c%2 == 0:
					runtime.Gosched()
				}
				k := int(h.SequenceNumber - base(s))
				g := got{k: k, tw: -1}
				if e := h.GetExtension(twccID); e != nil {
					var ext rtp.TransportCCExtension
					if err := ext.Unmarshal(e); err == nil {
						g.tw = int(ext.TransportSequence)
					}
				}
				if k < 0 || k >= per {
					g.problem = fmt.Sprintf("RTP sequence number %d was never written on stream %d", h.SequenceNumber, s)
				} else {
					own, want := h.GetExtension(ownID), ownOf(s, k)
					g.intact = h.SSRC == uint32(s+1) && len(h.CSRC) == 1 && h.CSRC[0] == csrcOf(s, k) &&
						len(own) == 2 && own[0] == want[0] && own[1] == want[1] && len(p) == payLen(s, k) &&
						h.Timestamp == uint32(k)*3000 && h.Marker == (k%5 == 0)
					for i := range p {
						if p[i] != payByte(s, k, i) {
							g.intact = false
						}
					}
				}
				mu.Lock()
				wire[s] = append(wire[s], g)
				mu.Unlock()
				return len(p), nil
			})
		}
		var ws [streams]interceptor.RTPWriter
		for s := 0; s < streams; s++ {
			si := info(uint32(s + 1))
			si.SSRCRetransmission, si.PayloadTypeRetransmission = 0, 0 // retransmissions under the stream's own SSRC
			si.RTPHeaderExtensions = []interceptor.RTPHeaderExtension{{URI: "urn:ietf:params:rtp-hdrext:sdes:mid", ID: ownID}, {URI: twccURI, ID: twccID}}
			si.RTCPFeedback = []interceptor.RTCPFeedback{{Type: "nack", Parameter: "pli"}, {Type: "transport-cc"}, {Type: "nack"}}
			ws[s] = chain.BindLocalStream(si, bottom(s))
		}
		var rtcpIn []byte
		rtcpReader := chain.BindRTCPReader(interceptor.RTCPReaderFunc(
			func(b []byte, a interceptor.Attributes) (int, interceptor.Attributes, error) {
				return copy(b, rtcpIn), a, nil
			}))

		var written [streams]atomic.Int64 // packets of the stream whose Write has returned
		var failed atomic.Bool
		var wg sync.WaitGroup
		var start sync.WaitGroup
		start.Add(1)
		var werr [streams]error
		for s := 0; s < streams; s++ {
			wg.Add(1)
			go func(s int) {
				defer wg.Done()
				// everything the application owns is allocated once and filled in place for every packet
				h := &rtp.Header{Version: 2, SSRC: uint32(s + 1), PayloadType: 96, Extension: true, ExtensionProfile: 0xBEDE}
				csrc := make([]uint32, 1)
				own := make([]byte, 2)
				pay := make([]byte, 64)
				h.CSRC = csrc
				_ = h.SetExtension(ownID, own)
				start.Wait()
				for k := 0; k < per; k++ {
					h.SequenceNumber = base(s) + uint16(k)
					h.Timestamp = uint32(k) * 3000
					h.Marker = k%5 == 0
					csrc[0] = csrcOf(s, k)
					o := ownOf(s, k)
					own[0], own[1] = o[0], o[1]
					p := pay[:payLen(s, k)]
					for i := range p {
						p[i] = payByte(s, k, i)
					}
					if _, err := ws[s].Write(h, p, interceptor.Attributes{}); err != nil {
						werr[s] = err
						failed.Store(true)
						return
					}
					written[s].Store(int64(k + 1))
					if k%8 == 7 {
						runtime.Gosched()
					}
				}
			}(s)
		}
		// the RTCP read loop: asks for packets that have been written, every sequence number at most once
		asked := [streams]map[int]bool{{}, {}}
		wg.Add(1)
		go func() {
			defer wg.Done()
			var cursor [streams]int
			buf := make([]byte, 1500)
			start.Wait()
			for round := 0; ; round++ {
				progress, finished := false, true
				for s := 0; s < streams; s++ {
					w := int(written[s].Load())
					if k := cursor[s]; k+1 < w { // both packets of the request have been written
						raw, err := rtcp.Marshal([]rtcp.Packet{&rtcp.TransportLayerNack{SenderSSRC: 77, MediaSSRC: uint32(s + 1),
							Nacks: []rtcp.NackPair{{PacketID: base(s) + uint16(k), LostPackets: 1}}}}) // k and k+1
						if err != nil {
							panic(err)
						}
						rtcpIn = raw
						if _, _, err := rtcpReader.Read(buf, interceptor.Attributes{}); err != nil {
							panic(err)
						}
						asked[s][k], asked[s][k+1] = true, true
						cursor[s] += 2 + (k+round)%4
						progress = true
					}
					if (w < per && !failed.Load()) || cursor[s]+1 < w {
						finished = false
					}
				}
				if finished {
					return
				}
				if !progress {
					runtime.Gosched()
				}
			}
		}()
		start.Done()
		wg.Wait()
		// a NACK read just before Close may find the responder closed: let the requested retransmissions arrive
		wantWire := streams * per
		for s := 0; s < streams; s++ {
			wantWire += len(asked[s])
		}
		for limit := time.Now().Add(20 * time.Second); time.Now().Before(limit); time.Sleep(100 * time.Microsecond) {
			mu.Lock()
			n := len(wire[0]) + len(wire[1])
			mu.Unlock()
			if n >= wantWire || failed.Load() {
				break
			}
		}
		_ = chain.Close() // waits for the retransmissions in flight

		var problems []string
		problem := func(format string, a ...any) {
			if len(problems) < 4 {
				problems = append(problems, fmt.Sprintf(format, a...))
			}
		}
		order := "application -> twcc -> responder -> transport"
		if !inner {
			order = "application -> responder -> twcc -> transport"
		}
		count := map[uint16]int{}
		total := 0
		mu.Lock()
		for s := 0; s < streams; s++ {
			if werr[s] != nil {
				problem("write on stream %d returned %v", s, werr[s])
			}
			firstTw := map[int]int{}
			rtx := map[int]int{}
			prev := -1
			for _, g := range wire[s] {
				packets++
				if g.problem != "" {
					problem("%s", g.problem)
					continue
				}
				if !g.intact {
					what := "media packet"
					if _, seen := firstTw[g.k]; seen {
						what = "retransmission"
					}
					problem("stream %d: the %s with RTP sequence number %d reached the transport with a CSRC / extension element / payload / timestamp that is not the one written under that number (the application re-uses one header and one buffer for all packets)", s, what, base(s)+uint16(g.k))
				}
				if g.tw < 0 {
					problem("stream %d packet %d: no transport-wide CC extension", s, g.k)
					continue
				}
				tw0, seen := firstTw[g.k]
				if !seen {
					// the media packet (a request is only made after its Write has returned)
					firstTw[g.k] = g.tw
					count[uint16(g.tw)]++
					total++
					rel := int(uint16(g.tw) - uint16(first))
					if rel <= prev {
						problem("stream %d packet %d: transport-wide number %d does not follow the stream's previous media packet", s, g.k, g.tw)
					}
					prev = rel
					continue
				}
				rtx[g.k]++
				if inner {
					if g.tw != tw0 {
						problem("stream %d: packet with RTP sequence number %d first left with transport-wide number %d, its retransmission carries %d", s, base(s)+uint16(g.k), tw0, g.tw)
					}
				} else {
					count[uint16(g.tw)]++
					total++
				}
			}
			if len(firstTw) != per {
				problem("stream %d: %d of %d media packets reached the transport", s, len(firstTw), per)
			}
			for k := 0; k < per; k++ {
				want := 0
				if asked[s][k] {
					want = 1
				}
				if rtx[k] != want {
					problem("stream %d: packet %d was asked for %d time(s) and retransmitted %d time(s)", s, k, want, rtx[k])
					break
				}
			}
		}
		mu.Unlock()
		for k := 0; k < total; k++ {
			x := uint16(first + uint32(k))
			if count[x] != 1 {
				problem("%d transport-wide numbers were handed out starting at %d: number %d left %d times, want exactly once (one run of consecutive values, no gaps, no duplicates)",
					total, uint16(first), x, count[x])
				break
			}
		}
		if len(problems) > 0 {
			for _, m := range problems {
				t.Errorf("CONSERVATION twcc-nack-chain-reused-header (trial %d, %s): %s", trials, order, m)
			}
			return
		}
	}
	fmt.Printf("stress conserve-twcc-nack-chain-reused-header trials=%d packets=%d\n", trials, packets)
}

package stress

// C16 — "the value passed to the change callback is the value subsequently returned by the getter, and the pacer is
// told the same rate", with an APPLICATION THAT IS SLOW: the OnTargetBitrateChange callback (registered before any
// traffic) blocks or sleeps while feedback keeps arriving and the target keeps changing; and "feeding feedback never
// blocks indefinitely" with reports the feedback adapter REJECTS in between (more received symbols than receive
// deltas, a chunk of an unknown type): the call returns an error and the session simply goes on.
//
// The sequential correspondence (component gccbwe, classes slowcb / rejected) does this in virtual time; here the
// same is sampled with real goroutines on the real clock under the race detector.  One feeder per estimator (the
// order of the target changes is then the order of the recording pacer's SetTargetBitrate calls, which onDelayUpdate
// makes under the estimator's lock).
//
// Reported:
//   - `DEADLOCK gcc-callback`: a WriteRTCP / RTP write / Close that does not return within 20 s;
//   - `CONSERVATION gcc-callback`, at quiescence (feeder done, every callback released and returned, 50 ms of
//     silence): the values the callback was given are, as a multiset, the rates the pacer was told — no change is
//     lost because the application was busy, none is delivered twice —, and GetTargetBitrate() is the last rate the
//     pacer was told; a rejected report returned an error; a well-formed one did not.
// Real goroutines on the real clock: sampling / search support, never a proof.

import (
	"fmt"
	"math/rand"
	"sort"
	"sync"
	"sync/atomic"
	"testing"
	"time"

	"github.com/pion/interceptor"
	"github.com/pion/interceptor/pkg/gcc"
	"github.com/pion/rtcp"
	"github.com/pion/rtp"
)

type gccCbPacer struct {
	gcc.Pacer
	mu    sync.Mutex
	rates []int
}

func (p *gccCbPacer) SetTargetBitrate(r int) {
	p.mu.Lock()
	p.rates = append(p.rates, r)
	p.mu.Unlock()
	p.Pacer.SetTargetBitrate(r)
}

type gccCbOther struct{}

func (gccCbOther) Marshal() ([]byte, error) { return []byte{0, 0}, nil }
func (gccCbOther) Unmarshal([]byte) error   { return nil }

// gccCbReport acknowledges packets [from, to): packet k arrived one second (receiver clock) after it left.
func gccCbReport(sentAt []time.Duration, from, to uint16) *rtcp.TransportLayerCC {
	arrival := func(k uint16) time.Duration { return time.Second + sentAt[k].Truncate(250*time.Microsecond) }
	ref := arrival(from) / (64 * time.Millisecond)
	prev := ref * 64 * time.Millisecond
	deltas := make([]*rtcp.RecvDelta, 0, to-from)
	for k := from; k != to; k++ {
		d := (arrival(k) - prev).Microseconds()
		typ := uint16(rtcp.TypeTCCPacketReceivedSmallDelta)
		if d < 0 || d > 255*250 {
			typ = rtcp.TypeTCCPacketReceivedLargeDelta
		}
		deltas = append(deltas, &rtcp.RecvDelta{Type: typ, Delta: d})
		prev = arrival(k)
	}
	return &rtcp.TransportLayerCC{
		MediaSSRC: 1, BaseSequenceNumber: from, PacketStatusCount: to - from, ReferenceTime: uint32(ref), //nolint:gosec
		PacketChunks: []rtcp.PacketStatusChunk{&rtcp.RunLengthChunk{Type: rtcp.TypeTCCRunLengthChunk,
			PacketStatusSymbol: rtcp.TypeTCCPacketReceivedSmallDelta, RunLength: to - from}},
		RecvDeltas: deltas,
	}
}

type gccCbResult struct{ trials, changes, rejected, conclusive int64 }

func gccCallbackTrial(t *testing.T, trial int, rng *rand.Rand, res *gccCbResult) {
	mode := trial % 3 // 0: the first invocation blocks until released; 1: every invocation sleeps; 2: every invocation blocks
	noop := (trial/3)%2 == 0
	withRejected := (trial/6)%2 == 0 || trial%5 == 0
	tag := fmt.Sprintf("trial %d (callback mode %d, noop-pacer=%v, rejected reports=%v)", trial, mode, noop, withRejected)
	var once sync.Once
	fail := func(format string, a ...any) {
		once.Do(func() { t.Errorf(format+" — "+tag, a...) })
	}
	var inner gcc.Pacer = gcc.NewNoOpPacer()
	if !noop {
		inner = gcc.NewLeakyBucketPacer(1_000_000)
	}
	pacer := &gccCbPacer{Pacer: inner}
	bwe, err := gcc.NewSendSideBWE(gcc.SendSideBWEPacer(pacer), gcc.SendSideBWEInitialBitrate(1_000_000),
		gcc.SendSideBWEMinBitrate(100_000), gcc.SendSideBWEMaxBitrate(50_000_000))
	if err != nil {
		t.Errorf("NewSendSideBWE: %v", err)
		return
	}
	var mu sync.Mutex
	var got []int
	var entered, exited atomic.Int64
	release := make(chan struct{})
	nap := time.Duration(30+rng.Intn(270)) * time.Millisecond
	bwe.OnTargetBitrateChange(func(b int) {
		n := entered.Add(1)
		mu.Lock()
		got = append(got, b)
		mu.Unlock()
		switch {
		case mode == 0 && n == 1, mode == 2:
			<-release
		case mode == 1:
			time.Sleep(nap)
		}
		exited.Add(1)
	})
	st := &interceptor.StreamInfo{SSRC: 1, RTPHeaderExtensions: []interceptor.RTPHeaderExtension{{URI: twccURI, ID: 1}}}
	w := bwe.AddStream(st, interceptor.RTPWriterFunc(func(*rtp.Header, []byte, interceptor.Attributes) (int, error) { return 0, nil }))

	// guarded: a call that does not come back is a finding, not a hung test binary
	guarded := func(what string, f func()) bool {
		done := make(chan struct{})
		go func() { defer close(done); f() }()
		select {
		case <-done:
			return true
		case <-time.After(20 * time.Second):
			fail("DEADLOCK gcc-callback: %s did not return within 20 s", what)
			dumpStacks()
			return false
		}
	}
	var sentAt []time.Duration
	var next, acked uint16
	start := time.Now()
	changes := func() int {
		pacer.mu.Lock()
		defer pacer.mu.Unlock()
		return len(pacer.rates)
	}
	alive := true
	deadline := time.Now().Add(4 * time.Second)
	var rejected int64
	for round := 0; alive && changes() < 4 && time.Now().Before(deadline); round++ {
		for i := 0; i < 3 && alive; i++ {
			ext, _ := (&rtp.TransportCCExtension{TransportSequence: next}).Marshal()
			h := &rtp.Header{Version: 2, SSRC: 1, SequenceNumber: next}
			_ = h.SetExtension(1, ext)
			sentAt = append(sentAt, time.Since(start))
			next++
			alive = guarded("an RTP write after a rejected report", func() { _, _ = w.Write(h, make([]byte, 1000), nil) })
			time.Sleep(6 * time.Millisecond)
		}
		if !alive {
			break
		}
		if !noop {
			time.Sleep(15 * time.Millisecond) // the leaky bucket hands the packets to the estimator on its own ticker
		}
		if withRejected && round%2 == 1 {
			bad := gccCbReport(sentAt, acked, next)
			if rng.Intn(2) == 0 {
				bad.RecvDeltas = bad.RecvDeltas[:len(bad.RecvDeltas)-1]
			} else {
				bad.PacketChunks = append(bad.PacketChunks, gccCbOther{})
			}
			var err error
			alive = guarded("WriteRTCP of a report the adapter rejects", func() { err = bwe.WriteRTCP([]rtcp.Packet{bad}, nil) })
			if alive && err == nil {
				fail("CONSERVATION gcc-callback: a TWCC report with more received symbols than deltas / an unknown chunk was accepted")
			}
			rejected++
			if !alive {
				break
			}
		}
		good := gccCbReport(sentAt, acked, next)
		var err error
		alive = guarded("WriteRTCP of a well-formed report (after a rejected one)", func() { err = bwe.WriteRTCP([]rtcp.Packet{good}, nil) })
		if alive && err != nil {
			fail("CONSERVATION gcc-callback: WriteRTCP of a well-formed report returned %v", err)
		}
		acked = next
		time.Sleep(5 * time.Millisecond)
	}
	close(release)
	if !alive {
		return // the blocked call keeps the estimator; nothing more to learn from this trial
	}
	// quiescence: nothing is fed any more; every invocation returns; then a little silence
	quiet := time.Now().Add(5 * time.Second)
	for time.Now().Before(quiet) {
		if entered.Load() == exited.Load() && int(entered.Load()) >= changes() {
			break
		}
		time.Sleep(5 * time.Millisecond)
	}
	time.Sleep(50 * time.Millisecond)
	pacer.mu.Lock()
	rates := append([]int(nil), pacer.rates...)
	pacer.mu.Unlock()
	mu.Lock()
	told := append([]int(nil), got...)
	mu.Unlock()
	getter := bwe.GetTargetBitrate()
	if entered.Load() != exited.Load() {
		fail("CONSERVATION gcc-callback: %d change callbacks have not returned 5 s after they were released", entered.Load()-exited.Load())
	}
	a, b := append([]int(nil), rates...), append([]int(nil), told...)
	sort.Ints(a)
	sort.Ints(b)
	if fmt.Sprint(a) != fmt.Sprint(b) {
		fail("CONSERVATION gcc-callback: at quiescence the pacer had been told %v (GetTargetBitrate()=%d) but the change callback only %v — a change was lost or repeated while the application was busy", rates, getter, told)
	}
	if len(rates) > 0 && rates[len(rates)-1] != getter {
		fail("CONSERVATION gcc-callback: GetTargetBitrate()=%d at quiescence, the last rate the pacer was told is %d", getter, rates[len(rates)-1])
	}
	guarded("Close", func() { _ = bwe.Close() })
	atomic.AddInt64(&res.trials, 1)
	atomic.AddInt64(&res.changes, int64(len(rates)))
	atomic.AddInt64(&res.rejected, rejected)
	if len(rates) >= 3 {
		atomic.AddInt64(&res.conclusive, 1)
	}
}

func TestConcGccSlowCallback(t *testing.T) {
	const workers = 6
	deadline := time.Now().Add(time.Duration(*fMillis) * time.Millisecond)
	var next atomic.Int64
	var res gccCbResult
	var wg sync.WaitGroup
	for wk := 0; wk < workers; wk++ {
		wg.Add(1)
		go func(wk int) {
			defer wg.Done()
			rng := rand.New(rand.NewSource(int64(wk)*104729 + time.Now().UnixNano())) //nolint:gosec
			for first := true; first || time.Now().Before(deadline); first = false {
				gccCallbackTrial(t, int(next.Add(1))-1, rng, &res)
				if t.Failed() {
					return
				}
			}
		}(wk)
	}
	wg.Wait()
	fmt.Printf("stress conc-gcc-slow-callback trials=%d with>=3changes=%d rate-changes=%d rejected-reports=%d\n",
		res.trials, res.conclusive, res.changes, res.rejected)
}

package stress

// F-43 witness (C06, "delay-since-last-SR reflects the most recent sender report"): the report loop takes its time
// once per tick, before it walks the streams.  A sender report that is read while the tick is still writing (the
// transport below is inside Write for another stream's report) is stamped with a LATER time; the stream's report of
// the same tick computed uint32(negative seconds x 65536): a delay of about 18 hours for a report received a
// moment ago.  Here the bottom RTCP writer reads sender reports for every stream re-entrantly during the first
// report of each tick (what a second goroutine does with unlucky timing); every DLSR of a report whose LSR is set
// must not exceed the time since the test began.

import (
	"fmt"
	"sync"
	"testing"
	"time"

	"github.com/pion/interceptor"
	"github.com/pion/interceptor/pkg/report"
	"github.com/pion/rtcp"
	"github.com/pion/rtp"
)

func TestConserveReceiverReportDLSR(t *testing.T) {
	start := time.Now()
	f, err := report.NewReceiverInterceptor(report.ReceiverInterval(2 * time.Millisecond))
	if err != nil {
		t.Fatal(err)
	}
	ic, _ := f.NewInterceptor("dlsr")
	var mu sync.Mutex
	var cur []byte
	rtcpR := ic.BindRTCPReader(interceptor.RTCPReaderFunc(func(b []byte, a interceptor.Attributes) (int, interceptor.Attributes, error) {
		mu.Lock()
		defer mu.Unlock()
		return copy(b, cur), a, nil
	}))
	ssrcs := []uint32{1, 2, 3}
	for _, ssrc := range ssrcs {
		ssrc := ssrc
		rd := ic.BindRemoteStream(info(ssrc), interceptor.RTPReaderFunc(func(b []byte, a interceptor.Attributes) (int, interceptor.Attributes, error) {
			h := rtp.Header{Version: 2, SSRC: ssrc, PayloadType: 96, SequenceNumber: 5, Timestamp: 1}
			n, err := h.MarshalTo(b)
			return n, a, err
		}))
		_, _, _ = rd.Read(make([]byte, 1500), interceptor.Attributes{})
	}
	var bad []string
	reports, writes := 0, 0
	ic.BindRTCPWriter(interceptor.RTCPWriterFunc(func(pkts []rtcp.Packet, _ interceptor.Attributes) (int, error) {
		mu.Lock()
		writes++
		feed := writes%len(ssrcs) == 1 // the first report of a tick
		if feed {
			var srs []rtcp.Packet
			for _, s := range ssrcs {
				srs = append(srs, &rtcp.SenderReport{SSRC: s, NTPTime: uint64(writes) << 32})
			}
			cur, _ = rtcp.Marshal(srs)
		}
		mu.Unlock()
		if feed {
			time.Sleep(200 * time.Microsecond) // the transport takes its time; meanwhile sender reports arrive
			_, _, _ = rtcpR.Read(make([]byte, 1500), interceptor.Attributes{})
		}
		limit := uint64(time.Since(start).Seconds()*65536) + 65536
		mu.Lock()
		defer mu.Unlock()
		for _, p := range pkts {
			if rr, ok := p.(*rtcp.ReceiverReport); ok {
				for _, r := range rr.Reports {
					reports++
					if r.LastSenderReport != 0 && uint64(r.Delay) > limit && len(bad) < 3 {
						bad = append(bad, time.Duration(float64(r.Delay)/65536*float64(time.Second)).String())
					}
				}
			}
		}
		return 0, nil
	}))
	time.Sleep(time.Duration(*fMillis) * time.Millisecond)
	_ = ic.Close()
	mu.Lock()
	defer mu.Unlock()
	if reports == 0 {
		t.Fatalf("no reports were written")
	}
	fmt.Printf("stress receiver-report-dlsr reports=%d\n", reports)
	for _, b := range bad {
		t.Errorf("CONSERVATION receiver-report dlsr: a report says its last sender report arrived %s ago; the test began %s ago", b, time.Since(start).Round(time.Millisecond))
	}
}

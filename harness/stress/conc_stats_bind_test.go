package stress

// C10 — "counters lose no updates", Bind racing with Bind.
//
// The stats interceptor keeps ONE recorder per SSRC value and feeds it from both directions: the writer returned by
// BindLocalStream(ssrc) counts what is sent, the reader returned by BindRemoteStream(ssrc) what is received, and
// Get(ssrc) reports both.  pion/webrtc binds the streams of a connection from several goroutines (SetLocalDescription /
// AddTrack on one side, the receive loops on the other), and nothing in the Interceptor interface orders two Bind calls:
// two of them for the same SSRC value may be in flight at once.  Whatever the interleaving, afterwards every packet
// that goes through either handle is counted by THE recorder that Get(ssrc) reads — a recorder created by the loser
// of a check-then-act race would swallow one direction.
//
// Each round: two goroutines leave a barrier together and call Bind{Local,Remote}Stream for the same SSRC (all three
// pairings), then a known number of packets is written and read, then Get(ssrc) must count exactly those:
//
//   - with an application RecorderFactory (public option SetRecorderFactory) that takes a few milliseconds — an
//     application recorder may allocate, open a file, register a metric — and counts every packet it is handed;
//   - with the library's own recorder, which starts counting asynchronously after Bind: both directions are fed until
//     each has counted a packet, then the difference of two snapshots around a known burst must be the burst.
//
// Real goroutines under -race: sampling / search support, never a proof.

import (
	"fmt"
	"sync"
	"sync/atomic"
	"testing"
	"time"

	"github.com/pion/interceptor"
	"github.com/pion/interceptor/pkg/stats"
	"github.com/pion/logging"
	"github.com/pion/rtcp"
	"github.com/pion/rtp"
)

// countingRecorder is an application recorder: it counts what it is handed.
type countingRecorder struct {
	in, out, started, stopped atomic.Int64
}

func (c *countingRecorder) QueueIncomingRTP(time.Time, []byte, interceptor.Attributes)  { c.in.Add(1) }
func (c *countingRecorder) QueueIncomingRTCP(time.Time, []byte, interceptor.Attributes) {}
func (c *countingRecorder) QueueOutgoingRTP(time.Time, *rtp.Header, []byte, interceptor.Attributes) {
	c.out.Add(1)
}
func (c *countingRecorder) QueueOutgoingRTCP(time.Time, []rtcp.Packet, interceptor.Attributes) {}
func (c *countingRecorder) Start()                                                             { c.started.Add(1) }
func (c *countingRecorder) Stop()                                                              { c.stopped.Add(1) }
func (c *countingRecorder) GetStats() stats.Stats {
	var s stats.Stats
	s.InboundRTPStreamStats.PacketsReceived = uint64(c.in.Load()) //nolint:gosec
	s.OutboundRTPStreamStats.PacketsSent = uint64(c.out.Load())   //nolint:gosec
	return s
}

type statsBindHandle struct {
	w interceptor.RTPWriter
	r interceptor.RTPReader
}

// statsBindPair binds the same SSRC twice, concurrently; kinds: 'L' = BindLocalStream, 'R' = BindRemoteStream.
func statsBindPair(ic interceptor.Interceptor, ssrc uint32, kinds [2]byte) [2]statsBindHandle {
	var hs [2]statsBindHandle
	var seq atomic.Uint32
	payload := make([]byte, 50)
	start := make(chan struct{})
	var wg sync.WaitGroup
	for i := range kinds {
		wg.Add(1)
		go func(i int) {
			defer wg.Done()
			<-start
			if kinds[i] == 'L' {
				hs[i].w = ic.BindLocalStream(info(ssrc), interceptor.RTPWriterFunc(func(*rtp.Header, []byte, interceptor.Attributes) (int, error) { return 0, nil }))
				return
			}
			hs[i].r = ic.BindRemoteStream(info(ssrc), interceptor.RTPReaderFunc(func(b []byte, a interceptor.Attributes) (int, interceptor.Attributes, error) {
				s := seq.Add(1)
				p := rtp.Packet{Header: rtp.Header{Version: 2, SSRC: ssrc, PayloadType: 96, SequenceNumber: uint16(s), Timestamp: s * 3000}, Payload: payload} //nolint:gosec
				n, err := p.MarshalTo(b)
				return n, a, err
			}))
		}(i)
	}
	close(start)
	wg.Wait()
	return hs
}

// use sends/receives n packets through a handle.
func (h statsBindHandle) use(n int, seq *uint16, ssrc uint32) error {
	buf := make([]byte, 1500)
	for i := 0; i < n; i++ {
		if h.w != nil {
			*seq++
			if _, err := h.w.Write(&rtp.Header{Version: 2, SSRC: ssrc, PayloadType: 96, SequenceNumber: *seq, Timestamp: uint32(*seq) * 3000}, buf[:50], interceptor.Attributes{}); err != nil {
				return err
			}
		} else if _, _, err := h.r.Read(buf, interceptor.Attributes{}); err != nil {
			return err
		}
	}
	return nil
}

func statsBindName(k byte) string {
	if k == 'L' {
		return "BindLocalStream"
	}
	return "BindRemoteStream"
}

var statsBindPairings = [][2]byte{{'L', 'R'}, {'R', 'L'}, {'L', 'L'}, {'R', 'R'}, {'L', 'R'}}

func TestConserveStatsConcurrentBindSameSSRC(t *testing.T) {
	lf := logging.NewDefaultLoggerFactory()
	lf.DefaultLogLevel = logging.LogLevelDisabled
	var reported atomic.Int32
	report := func(format string, a ...any) {
		if reported.Add(1) <= 5 {
			fmt.Printf(format+"\n", a...)
		}
	}
	defer func() {
		if reported.Load() > 0 {
			t.Errorf("%d conservation failures (see the CONSERVATION lines)", reported.Load())
		}
	}()
	deadline := time.Now().Add(time.Duration(*fMillis) * time.Millisecond)

	// ---- an application recorder factory that takes its time
	t.Run("SlowFactory", func(t *testing.T) {
		for round := 0; round == 0 || (time.Now().Before(deadline.Add(-time.Duration(*fMillis)*time.Millisecond/2)) && reported.Load() == 0); round++ {
			var mu sync.Mutex
			made := map[uint32][]*countingRecorder{}
			delay := time.Duration(1+round%3) * time.Millisecond
			stf, err := stats.NewInterceptor(stats.WithLoggerFactory(lf), stats.SetRecorderFactory(func(ssrc uint32, _ float64) stats.Recorder {
				time.Sleep(delay)
				c := &countingRecorder{}
				mu.Lock()
				made[ssrc] = append(made[ssrc], c)
				mu.Unlock()
				return c
			}))
			if err != nil {
				t.Fatal(err)
			}
			var getter stats.Getter
			stf.OnNewPeerConnection(func(_ string, g stats.Getter) { getter = g })
			ic, err := stf.NewInterceptor("c")
			if err != nil || getter == nil {
				t.Fatal("no stats interceptor / Getter", err)
			}
			ssrc := uint32(0x10000 + round)
			kinds := statsBindPairings[round%len(statsBindPairings)]
			hs := statsBindPair(ic, ssrc, kinds)
			n := [2]int{3 + round%5, 4 + round%7}
			var seq uint16
			wantOut, wantIn := 0, 0
			for i, h := range hs {
				if err := h.use(n[i], &seq, ssrc); err != nil {
					t.Fatal(err)
				}
				if h.w != nil {
					wantOut += n[i]
				} else {
					wantIn += n[i]
				}
			}
			s := getter.Get(ssrc)
			mu.Lock()
			recs := len(made[ssrc])
			mu.Unlock()
			switch {
			case s == nil:
				report("CONSERVATION stats-bind: Get(%d) = nil after %s and %s of that SSRC", ssrc, statsBindName(kinds[0]), statsBindName(kinds[1]))
			case s.OutboundRTPStreamStats.PacketsSent != uint64(wantOut) || s.InboundRTPStreamStats.PacketsReceived != uint64(wantIn): //nolint:gosec
				report("CONSERVATION stats-bind: %s and %s of SSRC %d ran concurrently (application RecorderFactory taking %s); then %d packets were written and %d read through the returned handles, "+
					"Get(%d) counts %d sent / %d received (the factory was asked for %d recorders for the one SSRC)", statsBindName(kinds[0]), statsBindName(kinds[1]), ssrc, delay, wantOut, wantIn, ssrc,
					s.OutboundRTPStreamStats.PacketsSent, s.InboundRTPStreamStats.PacketsReceived, recs)
			}
			if err := ic.Close(); err != nil {
				t.Fatal(err)
			}
		}
	})

	// ---- the library's own recorder
	t.Run("DefaultFactory", func(t *testing.T) {
		if reported.Load() > 0 {
			return
		}
		stf, err := stats.NewInterceptor(stats.WithLoggerFactory(lf))
		if err != nil {
			t.Fatal(err)
		}
		var getter stats.Getter
		stf.OnNewPeerConnection(func(_ string, g stats.Getter) { getter = g })
		ic, err := stf.NewInterceptor("c")
		if err != nil || getter == nil {
			t.Fatal("no stats interceptor / Getter", err)
		}
		defer func() { _ = ic.Close() }()
		for round := 0; round == 0 || (time.Now().Before(deadline) && reported.Load() == 0); round++ {
			ssrc := uint32(0x20000 + round)
			kinds := statsBindPairings[round%len(statsBindPairings)]
			hs := statsBindPair(ic, ssrc, kinds)
			var seq uint16
			needOut, needIn := kinds[0] == 'L' || kinds[1] == 'L', kinds[0] == 'R' || kinds[1] == 'R'
			// the recorder starts counting asynchronously after Bind: feed every handle until its direction shows
			active := false
			begin := time.Now()
			for i := 0; !active; i++ {
				for _, h := range hs {
					if err := h.use(1, &seq, ssrc); err != nil {
						t.Fatal(err)
					}
				}
				s := getter.Get(ssrc)
				active = s != nil && (!needOut || s.OutboundRTPStreamStats.PacketsSent > 0) && (!needIn || s.InboundRTPStreamStats.PacketsReceived > 0)
				if !active && time.Since(begin) > 30*time.Second {
					sent, recv := uint64(0), uint64(0)
					if s != nil {
						sent, recv = s.OutboundRTPStreamStats.PacketsSent, s.InboundRTPStreamStats.PacketsReceived
					}
					report("CONSERVATION stats-bind: %s and %s of SSRC %d ran concurrently; %d packets later went through EACH returned handle over 30 s, Get(%d) counts %d sent / %d received: one handle's packets are never counted",
						statsBindName(kinds[0]), statsBindName(kinds[1]), ssrc, i+1, ssrc, sent, recv)
					return
				}
				if !active && i > 50 {
					time.Sleep(100 * time.Microsecond)
				}
			}
			// both handles feed one running recorder now: a known burst is counted exactly
			s0 := getter.Get(ssrc)
			n := [2]int{2 + round%4, 3 + round%5}
			wantOut, wantIn := uint64(0), uint64(0)
			for i, h := range hs {
				if err := h.use(n[i], &seq, ssrc); err != nil {
					t.Fatal(err)
				}
				if h.w != nil {
					wantOut += uint64(n[i]) //nolint:gosec
				} else {
					wantIn += uint64(n[i]) //nolint:gosec
				}
			}
			s1 := getter.Get(ssrc)
			if dOut, dIn := s1.OutboundRTPStreamStats.PacketsSent-s0.OutboundRTPStreamStats.PacketsSent, s1.InboundRTPStreamStats.PacketsReceived-s0.InboundRTPStreamStats.PacketsReceived; dOut != wantOut || dIn != wantIn {
				report("CONSERVATION stats-bind: after concurrent %s / %s of SSRC %d, %d packets were written and %d read; Get(%d) moved by %d sent / %d received",
					statsBindName(kinds[0]), statsBindName(kinds[1]), ssrc, wantOut, wantIn, ssrc, dOut, dIn)
			}
		}
	})
}

package stress

// C12 — end-of-run size assertions with real goroutines (sampling / search support, never a proof):
// after some hundred milliseconds of concurrent traffic the `len` of the internal containers, read
// through the verif-tagged VerifSizes accessors, must be within the bound the theorems of
// Props/C12.lean state for the sequential models.  A violation prints `CONSERVATION sizes-…`.
// The sequential correspondence (harness/corr/c12_test.go) cannot reach interleavings inside one
// Write/Read; these tests do (two writers on one stream, feedback concurrent with traffic, …).

import (
	"fmt"
	"runtime"
	"sync"
	"sync/atomic"
	"testing"
	"time"

	"github.com/pion/interceptor"
	"github.com/pion/interceptor/pkg/flexfec"
	"github.com/pion/interceptor/pkg/jitterbuffer"
	"github.com/pion/interceptor/pkg/nack"
	"github.com/pion/interceptor/pkg/rtpfb"
	"github.com/pion/interceptor/pkg/stats"
	"github.com/pion/interceptor/pkg/twcc"
	"github.com/pion/rtcp"
	"github.com/pion/rtp"
)

func sizesDeadline() time.Time { return time.Now().Add(time.Duration(*fMillis) * time.Millisecond) }

// a downstream writer that yields: widens every window between "decided" and "done" upstream.
func yieldingWriter(n *atomic.Int64) interceptor.RTPWriter {
	return interceptor.RTPWriterFunc(func(h *rtp.Header, p []byte, _ interceptor.Attributes) (int, error) {
		n.Add(1)
		runtime.Gosched()
		return h.MarshalSize() + len(p), nil
	})
}

// writers: k goroutines write consecutive sequence numbers of one SSRC through w until the deadline.
func concurrentWriters(k int, ssrc uint32, w interceptor.RTPWriter, mkHeader func(seq uint32) *rtp.Header) int64 {
	var seq atomic.Uint32
	var wg sync.WaitGroup
	deadline := sizesDeadline()
	for g := 0; g < k; g++ {
		wg.Add(1)
		go func() {
			defer wg.Done()
			payload := []byte{1, 2, 3, 4, 5, 6, 7, 8}
			for time.Now().Before(deadline) {
				for i := 0; i < 50; i++ {
					s := seq.Add(1)
					h := mkHeader(s)
					h.SSRC = ssrc
					_, _ = w.Write(h, payload, interceptor.Attributes{})
				}
			}
		}()
	}
	wg.Wait()
	return int64(seq.Load())
}

func plainHeader(seq uint32) *rtp.Header {
	return &rtp.Header{Version: 2, PayloadType: 96, SequenceNumber: uint16(seq), Timestamp: seq * 90}
}

// FlexFEC: the pending batch of a stream stays below NumMediaPackets, also with two writers on the stream.
func TestConserveSizesFlexfec(t *testing.T) {
	const media = 5
	f := must(flexfec.NewFecInterceptor(flexfec.NumMediaPackets(media), flexfec.NumFECPackets(2)))
	ic := must(f.NewInterceptor("c"))
	var down atomic.Int64
	w := ic.BindLocalStream(info(1), yieldingWriter(&down))
	n := concurrentWriters(2, 1, w, plainHeader)
	sz := ic.(*flexfec.FecInterceptor).VerifSizes()
	fmt.Printf("stress conserve-sizes-flexfec writes=%d downstream=%d pending=%d\n", n, down.Load(), sz["pending"])
	if sz["pending"] >= media || sz["streams"] != 1 {
		t.Errorf("CONSERVATION sizes-flexfec: %d media packets pending in the batch after %d writes by two goroutines (bound: < NumMediaPackets = %d), streams=%d",
			sz["pending"], n, media, sz["streams"])
	}
	ic.UnbindLocalStream(info(1))
	if sz := ic.(*flexfec.FecInterceptor).VerifSizes(); sz["pending"] != 0 || sz["streams"] != 0 {
		t.Errorf("CONSERVATION sizes-flexfec: after Unbind pending=%d streams=%d", sz["pending"], sz["streams"])
	}
	_ = ic.Close()
}

// NACK responder: the ring of a stream never holds more than its size, with two writers and
// retransmission requests in parallel; Unbind releases it.
func TestConserveSizesResponder(t *testing.T) {
	const size = 64
	f := must(nack.NewResponderInterceptor(nack.ResponderSize(size)))
	ic := must(f.NewInterceptor("c"))
	var down atomic.Int64
	w1 := ic.BindLocalStream(info(1), yieldingWriter(&down))
	w2 := ic.BindLocalStream(info(2), yieldingWriter(&down))
	stop := make(chan struct{})
	var wg sync.WaitGroup
	wg.Add(1)
	go func() { // NACKs for recent numbers of both streams
		defer wg.Done()
		var k uint16
		buf := make([]byte, 1500)
		r := ic.BindRTCPReader(interceptor.RTCPReaderFunc(func(b []byte, a interceptor.Attributes) (int, interceptor.Attributes, error) {
			k += 7
			pkt, _ := rtcp.Marshal([]rtcp.Packet{&rtcp.TransportLayerNack{SenderSSRC: 9, MediaSSRC: 1 + uint32(k%2),
				Nacks: []rtcp.NackPair{{PacketID: k, LostPackets: 0xff}}}})
			return copy(b, pkt), a, nil
		}))
		for {
			select {
			case <-stop:
				return
			default:
				_, _, _ = r.Read(buf, interceptor.Attributes{})
				time.Sleep(200 * time.Microsecond)
			}
		}
	}()
	var n2 int64
	var wg2 sync.WaitGroup
	wg2.Add(1)
	go func() { defer wg2.Done(); n2 = concurrentWriters(1, 2, w2, plainHeader) }()
	n1 := concurrentWriters(2, 1, w1, plainHeader)
	wg2.Wait()
	close(stop)
	wg.Wait()
	ri := ic.(*nack.ResponderInterceptor)
	sz := ri.VerifSizes()
	fmt.Printf("stress conserve-sizes-responder writes=%d used=%d slots=%d\n", n1+n2, sz["used"], sz["slots"])
	if sz["streams"] != 2 || sz["slots"] != 2*size || sz["used"] > sz["slots"] {
		t.Errorf("CONSERVATION sizes-responder: streams=%d slots=%d used=%d (bound: 2 streams of %d slots)", sz["streams"], sz["slots"], sz["used"], size)
	}
	ic.UnbindLocalStream(info(1))
	if sz := ri.VerifSizes(); sz["streams"] != 1 || sz["slots"] != size || sz["used"] > size {
		t.Errorf("CONSERVATION sizes-responder: after Unbind of one stream streams=%d slots=%d used=%d", sz["streams"], sz["slots"], sz["used"])
	}
	_ = ic.Close()
	if sz := ri.VerifSizes(); sz["streams"] != 0 || sz["used"] != 0 {
		t.Errorf("CONSERVATION sizes-responder: after Close streams=%d used=%d", sz["streams"], sz["used"])
	}
}

// NACK generator: one receive log per bound stream, counters only for numbers inside the log window.
func TestConserveSizesGenerator(t *testing.T) {
	const size = 512
	f := must(nack.NewGeneratorInterceptor(nack.GeneratorSize(size), nack.GeneratorInterval(time.Millisecond), nack.GeneratorMaxNacksPerPacket(3)))
	ic := must(f.NewInterceptor("c"))
	ic.BindRTCPWriter(interceptor.RTCPWriterFunc(func([]rtcp.Packet, interceptor.Attributes) (int, error) { return 0, nil }))
	var wg sync.WaitGroup
	deadline := sizesDeadline()
	for s := uint32(1); s <= 3; s++ {
		var seq uint32
		r := ic.BindRemoteStream(info(s), interceptor.RTPReaderFunc(func(b []byte, a interceptor.Attributes) (int, interceptor.Attributes, error) {
			seq++
			if seq%7 == 0 { // steady loss
				seq++
			}
			h := rtp.Header{Version: 2, SSRC: s, PayloadType: 96, SequenceNumber: uint16(seq)}
			n, err := h.MarshalTo(b)
			return n, a, err
		}))
		wg.Add(1)
		go func() {
			defer wg.Done()
			buf := make([]byte, 1500)
			for i := 0; time.Now().Before(deadline); i++ {
				_, _, _ = r.Read(buf, interceptor.Attributes{})
				if i%200 == 0 {
					time.Sleep(100 * time.Microsecond)
				}
			}
		}()
	}
	wg.Wait()
	gi := ic.(*nack.GeneratorInterceptor)
	sz := gi.VerifSizes()
	fmt.Printf("stress conserve-sizes-generator logs=%d counts=%d countents=%d\n", sz["logs"], sz["counts"], sz["countents"])
	if sz["logs"] != 3 || sz["counts"] > 3 || sz["countents"] > 3*size || sz["logwords"] != 3*size/64 {
		t.Errorf("CONSERVATION sizes-generator: logs=%d counts=%d countents=%d logwords=%d (3 streams bound, size %d)",
			sz["logs"], sz["counts"], sz["countents"], sz["logwords"], size)
	}
	for s := uint32(1); s <= 3; s++ {
		ic.UnbindRemoteStream(info(s))
	}
	time.Sleep(5 * time.Millisecond)
	if sz := gi.VerifSizes(); sz["logs"] != 0 || sz["counts"] != 0 || sz["countents"] != 0 {
		t.Errorf("CONSERVATION sizes-generator: after Unbind of all streams logs=%d counts=%d countents=%d", sz["logs"], sz["counts"], sz["countents"])
	}
	_ = ic.Close()
}

// rtpfb: with feedback running concurrently with traffic the history holds only packets in flight;
// after a final feedback that acknowledges the last packet it is empty.
func TestConserveSizesRtpfb(t *testing.T) {
	f := must(rtpfb.NewInterceptor())
	ic := must(f.NewInterceptor("c"))
	var down atomic.Int64
	w := ic.BindLocalStream(info(1), yieldingWriter(&down))
	var mu sync.Mutex // the simulated remote peer
	remote := twcc.NewRecorder(7)
	start := time.Now()
	var pending []byte
	rd := ic.BindRTCPReader(interceptor.RTCPReaderFunc(func(b []byte, a interceptor.Attributes) (int, interceptor.Attributes, error) {
		return copy(b, pending), a, nil
	}))
	feedback := func() {
		mu.Lock()
		pkts := remote.BuildFeedbackPacket()
		mu.Unlock()
		if len(pkts) == 0 {
			return
		}
		pending = must(rtcp.Marshal(pkts))
		_, _, _ = rd.Read(make([]byte, 65536), interceptor.Attributes{})
	}
	stop := make(chan struct{})
	var wg sync.WaitGroup
	wg.Add(1)
	go func() {
		defer wg.Done()
		for {
			select {
			case <-stop:
				return
			default:
				time.Sleep(2 * time.Millisecond)
				feedback()
			}
		}
	}()
	h := rtpfb.VerifHistoryOf(ic)
	deadline := sizesDeadline()
	var tw uint16
	maxSeen := 0
	n := 0
	for time.Now().Before(deadline) {
		for i := 0; i < 20; i++ {
			tw++
			n++
			hd := plainHeader(uint32(n))
			hd.SSRC = 1
			ext := must((&rtp.TransportCCExtension{TransportSequence: tw}).Marshal())
			_ = hd.SetExtension(5, ext)
			_, _ = w.Write(hd, []byte{1, 2, 3, 4}, interceptor.Attributes{})
			if n%13 != 0 { // steady loss on the way to the remote peer
				mu.Lock()
				remote.Record(1, tw, time.Since(start).Microseconds())
				mu.Unlock()
			}
		}
		if p, _, _ := h.Sizes(); p > maxSeen {
			maxSeen = p
		}
		time.Sleep(100 * time.Microsecond)
	}
	close(stop)
	wg.Wait()
	// the last packet arrives, the final feedback acknowledges it
	mu.Lock()
	remote.Record(1, tw, time.Since(start).Microseconds())
	mu.Unlock()
	feedback()
	p, tws, ss := h.Sizes()
	fmt.Printf("stress conserve-sizes-rtpfb packets=%d max-in-flight=%d final=%d/%d/%d\n", n, maxSeen, p, tws, ss)
	if p != 0 || tws != 0 || ss != 0 {
		t.Errorf("CONSERVATION sizes-rtpfb: after a feedback that acknowledges the last of %d packets the history holds packets=%d twcc=%d ssrcseq=%d", n, p, tws, ss)
	}
	if maxSeen > 20000 {
		t.Errorf("CONSERVATION sizes-rtpfb: %d records held while feedback arrived every 2 ms", maxSeen)
	}
	_ = ic.Close()
}

// stats: a recorder remembers at most 5 sender-report times and 5 receiver-reference times, whatever the
// shape of the compound packets (several SRs, XRs with several RRTR blocks) and the concurrency.
func TestConserveSizesStats(t *testing.T) {
	f := must(stats.NewInterceptor())
	ic := must(f.NewInterceptor("c"))
	var down atomic.Int64
	w := ic.BindLocalStream(info(1), yieldingWriter(&down))
	_ = ic.BindRemoteStream(info(2), interceptor.RTPReaderFunc(func(b []byte, a interceptor.Attributes) (int, interceptor.Attributes, error) {
		return 0, a, nil
	}))
	rw := ic.BindRTCPWriter(interceptor.RTCPWriterFunc(func([]rtcp.Packet, interceptor.Attributes) (int, error) { return 0, nil }))
	var k atomic.Uint64
	rr := ic.BindRTCPReader(interceptor.RTCPReaderFunc(func(b []byte, a interceptor.Attributes) (int, interceptor.Attributes, error) {
		n := k.Add(1)
		xr := &rtcp.ExtendedReport{SenderSSRC: 2}
		for j := uint64(0); j <= n%4; j++ {
			xr.Reports = append(xr.Reports, &rtcp.ReceiverReferenceTimeReportBlock{NTPTimestamp: n<<8 + j},
				&rtcp.DLRRReportBlock{Reports: []rtcp.DLRRReport{{SSRC: 1, LastRR: uint32(n), DLRR: 1}}})
		}
		pkt := must(rtcp.Marshal([]rtcp.Packet{&rtcp.SenderReport{SSRC: 2, NTPTime: n << 8}, &rtcp.SenderReport{SSRC: 2, NTPTime: n<<8 + 1}, xr,
			&rtcp.ReceiverReport{SSRC: 9, Reports: []rtcp.ReceptionReport{{SSRC: 1}, {SSRC: 1, LastSequenceNumber: uint32(n)}}}}))
		return copy(b, pkt), a, nil
	}))
	var wg sync.WaitGroup
	deadline := sizesDeadline()
	wg.Add(2)
	go func() { // outgoing RTCP: several SRs and XRs with several RRTR blocks per compound packet
		defer wg.Done()
		for i := uint64(1); time.Now().Before(deadline); i++ {
			xr := &rtcp.ExtendedReport{SenderSSRC: 1}
			for j := uint64(0); j <= i%4; j++ {
				xr.Reports = append(xr.Reports, &rtcp.ReceiverReferenceTimeReportBlock{NTPTimestamp: i<<8 + j})
			}
			_, _ = rw.Write([]rtcp.Packet{&rtcp.SenderReport{SSRC: 1, NTPTime: i << 8}, xr, &rtcp.SenderReport{SSRC: 1, NTPTime: i<<8 + 1},
				&rtcp.ExtendedReport{SenderSSRC: 1, Reports: []rtcp.ReportBlock{&rtcp.ReceiverReferenceTimeReportBlock{NTPTimestamp: i<<8 + 9}}}}, interceptor.Attributes{})
			if i%50 == 0 {
				time.Sleep(100 * time.Microsecond)
			}
		}
	}()
	go func() { // incoming RTCP
		defer wg.Done()
		buf := make([]byte, 1500)
		for i := 0; time.Now().Before(deadline); i++ {
			_, _, _ = rr.Read(buf, interceptor.Attributes{})
			if i%50 == 0 {
				time.Sleep(100 * time.Microsecond)
			}
		}
	}()
	n := concurrentWriters(2, 1, w, plainHeader)
	wg.Wait()
	time.Sleep(30 * time.Millisecond) // the recorders drain their queues
	sz := ic.(*stats.Interceptor).VerifSizes()
	fmt.Printf("stress conserve-sizes-stats writes=%d recorders=%d srs=%d rrts=%d\n", n, sz["recorders"], sz["srs"], sz["rrts"])
	if sz["recorders"] != 2 || sz["srs"] > 5*sz["recorders"] || sz["rrts"] > 5*sz["recorders"] {
		t.Errorf("CONSERVATION sizes-stats: recorders=%d remembered sender reports=%d reference times=%d (bound: 5 of each per recorder)",
			sz["recorders"], sz["srs"], sz["rrts"])
	}
	_ = ic.Close()
}

// jitter buffer interceptor with a consumer that pops (every Read pushes one packet and, once
// playing, pops one): on an in-order stream the queue stays at the start-up depth.
func TestConserveSizesJitter(t *testing.T) {
	f := must(jitterbuffer.NewInterceptor())
	ic := must(f.NewInterceptor("c"))
	var seq uint32
	r := ic.BindRemoteStream(info(1), interceptor.RTPReaderFunc(func(b []byte, a interceptor.Attributes) (int, interceptor.Attributes, error) {
		seq++
		p := rtp.Packet{Header: rtp.Header{Version: 2, SSRC: 1, PayloadType: 96, SequenceNumber: uint16(seq), Timestamp: seq * 90}, Payload: []byte{1, 2, 3}}
		n, err := p.MarshalTo(b)
		return n, a, err
	}))
	ji := ic.(*jitterbuffer.ReceiverInterceptor)
	stop := make(chan struct{})
	var wg sync.WaitGroup
	wg.Add(1)
	maxLen := 0
	go func() { // an observer running concurrently with the reader
		defer wg.Done()
		for {
			select {
			case <-stop:
				return
			default:
				if l := ji.VerifSizes()["nodes"]; l > maxLen {
					maxLen = l
				}
				time.Sleep(50 * time.Microsecond)
			}
		}
	}()
	deadline := sizesDeadline()
	buf := make([]byte, 1500)
	n := 0
	for time.Now().Before(deadline) {
		_, _, _ = r.Read(buf, interceptor.Attributes{})
		n++
	}
	close(stop)
	wg.Wait()
	sz := ji.VerifSizes()
	fmt.Printf("stress conserve-sizes-jitter reads=%d nodes=%d max=%d\n", n, sz["nodes"], maxLen)
	if sz["nodes"] > 50 || maxLen > 50 || sz["length"] != sz["nodes"] {
		t.Errorf("CONSERVATION sizes-jitter: queue holds %d nodes (length field %d, maximum seen %d) after %d in-order reads with a popping consumer (bound: start-up depth 50)",
			sz["nodes"], sz["length"], maxLen, n)
	}
	ic.UnbindRemoteStream(info(1))
	if sz := ji.VerifSizes(); sz["nodes"] != 0 {
		t.Errorf("CONSERVATION sizes-jitter: %d nodes after Unbind", sz["nodes"])
	}
	_ = ic.Close()
}

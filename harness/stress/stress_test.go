// Package stress drives every interceptor with real goroutines (no virtual time) so that the
// race detector and a deadlock watchdog can observe it.  It is search support and sampling
// for C10/C11 — never a proof: N writers and M readers per stream, K RTCP read loops, the
// interceptor's own tickers, a lifecycle goroutine binding/unbinding streams, an observer, and a
// Close racing with the traffic.
package stress

import (
	"flag"
	"fmt"
	"io"
	"os"
	"runtime"
	"sync"
	"sync/atomic"
	"testing"
	"time"

	"github.com/pion/interceptor"
	"github.com/pion/interceptor/pkg/cc"
	"github.com/pion/interceptor/pkg/flexfec"
	"github.com/pion/interceptor/pkg/gcc"
	"github.com/pion/interceptor/pkg/intervalpli"
	"github.com/pion/interceptor/pkg/jitterbuffer"
	"github.com/pion/interceptor/pkg/nack"
	"github.com/pion/interceptor/pkg/pacing"
	"github.com/pion/interceptor/pkg/packetdump"
	"github.com/pion/interceptor/pkg/report"
	"github.com/pion/interceptor/pkg/rfc8888"
	"github.com/pion/interceptor/pkg/rtpfb"
	"github.com/pion/interceptor/pkg/stats"
	"github.com/pion/interceptor/pkg/twcc"
	"github.com/pion/rtcp"
	"github.com/pion/rtp"
)

var (
	fMillis = flag.Int("ms", 400, "milliseconds of traffic per interceptor")
	fOnly   = flag.String("only", "", "run only this factory")
)

const twccURI = "http://www.ietf.org/id/draft-holmer-rmcat-transport-wide-cc-extensions-01"

type entry struct {
	name string
	mk   func() (interceptor.Factory, error)
	// observe is called concurrently with traffic (public getters)
	observe func(i interceptor.Interceptor)
}

func must[T any](v T, err error) T {
	if err != nil {
		panic(err)
	}
	return v
}

func factories() []entry {
	var statsGetter atomic.Value
	var bwe atomic.Value
	return []entry{
		{name: "nack-generator", mk: func() (interceptor.Factory, error) {
			return nack.NewGeneratorInterceptor(nack.GeneratorInterval(time.Millisecond), nack.GeneratorSize(64), nack.GeneratorMaxNacksPerPacket(2))
		}},
		{name: "nack-responder", mk: func() (interceptor.Factory, error) {
			return nack.NewResponderInterceptor(nack.ResponderSize(8))
		}},
		{name: "report-receiver", mk: func() (interceptor.Factory, error) {
			return report.NewReceiverInterceptor(report.ReceiverInterval(time.Millisecond))
		}},
		{name: "report-sender", mk: func() (interceptor.Factory, error) {
			return report.NewSenderInterceptor(report.SenderInterval(time.Millisecond))
		}},
		{name: "twcc-sender", mk: func() (interceptor.Factory, error) {
			return twcc.NewSenderInterceptor(twcc.SendInterval(time.Millisecond))
		}},
		{name: "twcc-hdrext", mk: func() (interceptor.Factory, error) { return twcc.NewHeaderExtensionInterceptor() }},
		{name: "rfc8888", mk: func() (interceptor.Factory, error) {
			return rfc8888.NewSenderInterceptor(rfc8888.SendInterval(time.Millisecond))
		}},
		{name: "rtpfb", mk: func() (interceptor.Factory, error) { return rtpfb.NewInterceptor() }},
		{name: "stats", mk: func() (interceptor.Factory, error) {
			f, err := stats.NewInterceptor()
			if err != nil {
				return nil, err
			}
			f.OnNewPeerConnection(func(_ string, g stats.Getter) { statsGetter.Store(g) })
			return f, nil
		}, observe: func(interceptor.Interceptor) {
			if g, ok := statsGetter.Load().(stats.Getter); ok && g != nil {
				for ssrc := uint32(1); ssrc <= 6; ssrc++ {
					_ = g.Get(ssrc)
				}
			}
		}},
		{name: "packetdump-sender", mk: func() (interceptor.Factory, error) {
			return packetdump.NewSenderInterceptor(packetdump.RTPWriter(io.Discard), packetdump.RTCPWriter(io.Discard))
		}},
		{name: "packetdump-receiver", mk: func() (interceptor.Factory, error) {
			return packetdump.NewReceiverInterceptor(packetdump.RTPWriter(io.Discard), packetdump.RTCPWriter(io.Discard))
		}},
		{name: "intervalpli", mk: func() (interceptor.Factory, error) {
			return intervalpli.NewReceiverInterceptor(intervalpli.GeneratorInterval(time.Millisecond))
		}},
		{name: "flexfec", mk: func() (interceptor.Factory, error) {
			return flexfec.NewFecInterceptor(flexfec.NumMediaPackets(5), flexfec.NumFECPackets(2))
		}},
		{name: "jitterbuffer", mk: func() (interceptor.Factory, error) { return jitterbuffer.NewInterceptor() }},
		{name: "pacing", mk: func() (interceptor.Factory, error) {
			return pacing.NewInterceptor(pacing.InitialRate(50_000_000), pacing.Interval(time.Millisecond)), nil
		}},
		{name: "cc-gcc", mk: func() (interceptor.Factory, error) {
			f, err := cc.NewInterceptor(func() (cc.BandwidthEstimator, error) {
				return gcc.NewSendSideBWE(gcc.SendSideBWEInitialBitrate(1_000_000), gcc.SendSideBWEMinBitrate(50_000), gcc.SendSideBWEMaxBitrate(50_000_000))
			})
			if err != nil {
				return nil, err
			}
			f.OnNewPeerConnection(func(_ string, e cc.BandwidthEstimator) { bwe.Store(e) })
			return f, nil
		}, observe: func(interceptor.Interceptor) {
			if e, ok := bwe.Load().(cc.BandwidthEstimator); ok && e != nil {
				_ = e.GetTargetBitrate()
				_ = e.GetStats()
			}
		}},
	}
}

func info(ssrc uint32) *interceptor.StreamInfo {
	return &interceptor.StreamInfo{
		SSRC: ssrc, SSRCRetransmission: ssrc + 1000, SSRCForwardErrorCorrection: ssrc + 2000,
		PayloadType: 96, PayloadTypeRetransmission: 97, PayloadTypeForwardErrorCorrection: 98,
		ClockRate: 90000, MimeType: "video/VP8",
		RTPHeaderExtensions: []interceptor.RTPHeaderExtension{{URI: twccURI, ID: 5}},
		RTCPFeedback: []interceptor.RTCPFeedback{{Type: "nack"}, {Type: "nack", Parameter: "pli"},
			{Type: "transport-cc"}, {Type: "ack", Parameter: "ccfb"}},
	}
}

func rtcpBytes(k int, ssrc uint32) []byte {
	var pkts []rtcp.Packet
	switch k % 6 {
	case 0:
		pkts = []rtcp.Packet{&rtcp.SenderReport{SSRC: ssrc, NTPTime: uint64(k) << 32, RTPTime: uint32(k), PacketCount: 1, OctetCount: 2}}
	case 1:
		pkts = []rtcp.Packet{&rtcp.ReceiverReport{SSRC: 77, Reports: []rtcp.ReceptionReport{{SSRC: ssrc, LastSequenceNumber: uint32(k), LastSenderReport: 1, Delay: 2}}}}
	case 2:
		pkts = []rtcp.Packet{&rtcp.TransportLayerNack{SenderSSRC: 77, MediaSSRC: ssrc, Nacks: []rtcp.NackPair{{PacketID: uint16(k), LostPackets: 0x5}}}}
	case 3:
		pkts = []rtcp.Packet{&rtcp.TransportLayerCC{Header: rtcp.Header{Count: rtcp.FormatTCC, Type: rtcp.TypeTransportSpecificFeedback, Length: 5}, SenderSSRC: 77, MediaSSRC: ssrc, BaseSequenceNumber: uint16(k), PacketStatusCount: 2,
			ReferenceTime: uint32(k), FbPktCount: uint8(k),
			PacketChunks: []rtcp.PacketStatusChunk{&rtcp.RunLengthChunk{PacketStatusSymbol: rtcp.TypeTCCPacketReceivedSmallDelta, RunLength: 2}},
			RecvDeltas:   []*rtcp.RecvDelta{{Type: rtcp.TypeTCCPacketReceivedSmallDelta, Delta: 250}, {Type: rtcp.TypeTCCPacketReceivedSmallDelta, Delta: 500}}}}
	case 4:
		pkts = []rtcp.Packet{&rtcp.PictureLossIndication{SenderSSRC: 77, MediaSSRC: ssrc}, &rtcp.ReceiverReport{SSRC: 77}}
	case 5:
		pkts = []rtcp.Packet{&rtcp.CCFeedbackReport{SenderSSRC: 77, ReportTimestamp: uint32(k), ReportBlocks: []rtcp.CCFeedbackReportBlock{{
			MediaSSRC: ssrc, BeginSequence: uint16(k), MetricBlocks: []rtcp.CCFeedbackMetricBlock{{Received: true, ArrivalTimeOffset: 10}, {Received: false}}}}}}
	}
	b, err := rtcp.Marshal(pkts)
	if err != nil {
		panic(err)
	}
	return b
}

func runOne(t *testing.T, e entry, d time.Duration) {
	f, err := e.mk()
	if err != nil {
		t.Fatalf("%s: %v", e.name, err)
	}
	ic, err := f.NewInterceptor("stress")
	if err != nil {
		t.Fatalf("%s: %v", e.name, err)
	}
	var rtcpOut, rtpOut, afterClose atomic.Int64
	var closed atomic.Bool
	rtcpW := ic.BindRTCPWriter(interceptor.RTCPWriterFunc(func(p []rtcp.Packet, _ interceptor.Attributes) (int, error) {
		rtcpOut.Add(1)
		if closed.Load() {
			afterClose.Add(1)
		}
		return 0, nil
	}))
	_ = rtcpW
	var rtcpK atomic.Int64
	rtcpR := ic.BindRTCPReader(interceptor.RTCPReaderFunc(func(b []byte, a interceptor.Attributes) (int, interceptor.Attributes, error) {
		k := int(rtcpK.Add(1))
		src := rtcpBytes(k, uint32(1+k%3))
		return copy(b, src), a, nil
	}))
	stop := make(chan struct{})
	var wg sync.WaitGroup
	spawn := func(fn func(i int)) {
		wg.Add(1)
		go func() {
			defer wg.Done()
			for i := 0; ; i++ {
				select {
				case <-stop:
					return
				default:
				}
				fn(i)
				if i%64 == 0 {
					runtime.Gosched()
				}
			}
		}()
	}
	var corrupt atomic.Int64
	mkWriter := func(ssrc uint32) interceptor.RTPWriter {
		return ic.BindLocalStream(info(ssrc), interceptor.RTPWriterFunc(func(h *rtp.Header, p []byte, _ interceptor.Attributes) (int, error) {
			rtpOut.Add(1)
			// every application payload is filled with one byte value: a payload that reaches the bottom with mixed
			// bytes was altered (or its buffer recycled) on the way.  Reading it also lets the race detector see it.
			if h.PayloadType == 96 && len(p) > 1 {
				for _, b := range p[1:] {
					if b != p[0] {
						corrupt.Add(1)
						break
					}
				}
			}
			runtime.Gosched()
			return len(p), nil
		}))
	}
	mkReader := func(ssrc uint32) interceptor.RTPReader {
		var seq atomic.Uint32
		return ic.BindRemoteStream(info(ssrc), interceptor.RTPReaderFunc(func(b []byte, a interceptor.Attributes) (int, interceptor.Attributes, error) {
			s := seq.Add(1)
			if s%7 == 0 {
				s = seq.Add(1) // loss
			}
			h := rtp.Header{Version: 2, SSRC: ssrc, PayloadType: 96, SequenceNumber: uint16(s), Timestamp: s * 3000,
				Extension: true, ExtensionProfile: 0xBEDE}
			_ = h.SetExtension(5, []byte{byte(s >> 8), byte(s)})
			n, err := h.MarshalTo(b)
			if err != nil {
				return 0, nil, err
			}
			n += copy(b[n:], []byte{1, 2, 3, 4, 5, 6, 7, 8})
			return n, a, nil
		}))
	}
	type reused struct {
		h   *rtp.Header
		buf []byte
	}
	reuseHdr := map[uint32]*reused{}
	for ssrc := uint32(1); ssrc <= 3; ssrc++ {
		reuseHdr[ssrc] = &reused{h: &rtp.Header{Version: 2, SSRC: ssrc, PayloadType: 96, Extension: true, ExtensionProfile: 0xBEDE,
			CSRC: []uint32{7}}, buf: []byte{0, 0}}
	}
	for ssrc := uint32(1); ssrc <= 3; ssrc++ {
		w := mkWriter(ssrc)
		r := mkReader(ssrc)
		ssrc := ssrc
		for g := 0; g < 2; g++ {
			g := g
			spawn(func(i int) {
				// odd writers reuse ONE header object and ONE extension buffer for every packet and overwrite them
				// in place after each Write returned (the caller owns them again: C13); even writers allocate afresh
				var h *rtp.Header
				if g == 1 {
					rh := reuseHdr[ssrc]
					rh.buf[0], rh.buf[1] = byte(i>>8), byte(i)
					rh.h.SequenceNumber, rh.h.Timestamp = uint16(i*2+g), uint32(i)*3000
					rh.h.CSRC[0] = uint32(i)
					_ = rh.h.SetExtension(5, rh.buf)
					h = rh.h
				} else {
					h = &rtp.Header{Version: 2, SSRC: ssrc, PayloadType: 96, SequenceNumber: uint16(i*2 + g), Timestamp: uint32(i) * 3000,
						Extension: true, ExtensionProfile: 0xBEDE}
					_ = h.SetExtension(5, []byte{byte(i >> 8), byte(i)})
				}
				payload := make([]byte, 40+i%200)
				for k := range payload {
					payload[k] = byte(i*2 + g)
				}
				_, _ = w.Write(h, payload, nil)
			})
			spawn(func(i int) {
				buf := make([]byte, 1500)
				_, _, _ = r.Read(buf, interceptor.Attributes{})
			})
		}
	}
	for k := 0; k < 3; k++ {
		spawn(func(i int) {
			buf := make([]byte, 1500)
			_, _, _ = rtcpR.Read(buf, interceptor.Attributes{})
		})
	}
	// lifecycle goroutine: extra streams come and go
	spawn(func(i int) {
		ssrc := uint32(4 + i%3)
		w := mkWriter(ssrc)
		r := mkReader(ssrc)
		h := &rtp.Header{Version: 2, SSRC: ssrc, PayloadType: 96, SequenceNumber: uint16(i)}
		_, _ = w.Write(h, []byte{1}, nil)
		buf := make([]byte, 1500)
		_, _, _ = r.Read(buf, interceptor.Attributes{})
		ic.UnbindLocalStream(info(ssrc))
		ic.UnbindRemoteStream(info(ssrc))
		time.Sleep(200 * time.Microsecond)
	})
	if e.observe != nil {
		spawn(func(i int) { e.observe(ic); time.Sleep(100 * time.Microsecond) })
	}
	time.Sleep(d)
	// Close races with the traffic
	done := make(chan error, 1)
	go func() { done <- ic.Close() }()
	select {
	case <-done:
	case <-time.After(20 * time.Second):
		t.Errorf("DEADLOCK %s: Close did not return within 20 s while traffic was running", e.name)
		dumpStacks()
		close(stop)
		return
	}
	closed.Store(true)
	time.Sleep(20 * time.Millisecond)
	close(stop)
	fin := make(chan struct{})
	go func() { wg.Wait(); close(fin) }()
	select {
	case <-fin:
	case <-time.After(20 * time.Second):
		t.Errorf("DEADLOCK %s: traffic goroutines did not return within 20 s after Close", e.name)
		dumpStacks()
		return
	}
	time.Sleep(10 * time.Millisecond)
	if n := corrupt.Load(); n > 0 {
		t.Errorf("CONSERVATION %s: %d application payloads reached the next writer altered", e.name, n)
	}
	if n := afterClose.Load(); n > 0 {
		t.Errorf("WRITE-AFTER-CLOSE %s: %d RTCP writes after Close returned", e.name, n)
	}
	fmt.Printf("stress %-20s rtp-out=%d rtcp-out=%d\n", e.name, rtpOut.Load(), rtcpOut.Load())
}

func dumpStacks() {
	buf := make([]byte, 1<<20)
	n := runtime.Stack(buf, true)
	os.Stdout.Write(buf[:n])
}

func TestStress(t *testing.T) {
	d := time.Duration(*fMillis) * time.Millisecond
	for _, e := range factories() {
		if *fOnly != "" && *fOnly != e.name {
			continue
		}
		e := e
		t.Run(e.name, func(t *testing.T) { runOne(t, e, d) })
	}
}

package stress

// C10 — "counters lose no updates": ONE SSRC, every path of the stats interceptor at once.
//
// TestConserveCounters drives RTP writes against small outgoing RTCP batches.  A peer connection does more
// at the same time, all of it for one stream's SSRC when that SSRC is used in both directions (or, equally,
// when the RTCP is about the stream being read): the transport's reader goroutine reads RTP, the
// application writes RTP, an RTCP reader goroutine reads feedback, and other interceptors' tickers write
// RTCP — here LARGE compound packets (65 picture loss indications each, most of them about this SSRC, some
// about another one), so that the walk over one outgoing batch overlaps many RTP packets.  Every one of
// these paths updates counters of the same recorder.  When the traffic has stopped, Get(ssrc) must count
// every packet and every indication exactly (relative to a snapshot taken, at rest, before the traffic):
//
//	InboundRTPStreamStats.PacketsReceived   = RTP reads         BytesReceived / HeaderBytesReceived likewise
//	OutboundRTPStreamStats.PacketsSent      = RTP writes        BytesSent / HeaderBytesSent likewise
//	InboundRTPStreamStats.PLICount          = outgoing PLIs about the SSRC
//	OutboundRTPStreamStats.PLICount         = incoming PLIs about the SSRC
//
// Real goroutines under the race detector: sampling / search support, never a proof.

import (
	"encoding/binary"
	"fmt"
	"sync"
	"sync/atomic"
	"testing"
	"time"

	"github.com/pion/interceptor"
	"github.com/pion/interceptor/pkg/stats"
	"github.com/pion/rtcp"
	"github.com/pion/rtp"
)

func TestConserveStatsOneSSRC(t *testing.T) {
	const (
		ssrc       = uint32(4711)
		other      = uint32(4712)
		payloadLen = 100
		plisPerPkt = 65
	)
	stf, err := stats.NewInterceptor()
	if err != nil {
		t.Fatal(err)
	}
	var getter atomic.Value
	stf.OnNewPeerConnection(func(_ string, g stats.Getter) { getter.Store(g) })
	ic, err := stf.NewInterceptor("one-ssrc")
	if err != nil {
		t.Fatal(err)
	}
	defer func() { _ = ic.Close() }()
	g, _ := getter.Load().(stats.Getter)
	if g == nil {
		t.Fatal("no stats.Getter")
	}

	// the transport below: RTP and RTCP readers that always have a packet, writers that accept everything
	rawRTP, err := (&rtp.Packet{Header: rtp.Header{Version: 2, PayloadType: 96, SSRC: ssrc}, Payload: make([]byte, payloadLen)}).Marshal()
	if err != nil {
		t.Fatal(err)
	}
	var rseq uint16 // only the RTP reader goroutine calls the bottom reader
	rd := ic.BindRemoteStream(info(ssrc), interceptor.RTPReaderFunc(func(b []byte, a interceptor.Attributes) (int, interceptor.Attributes, error) {
		n := copy(b, rawRTP)
		binary.BigEndian.PutUint16(b[2:], rseq)
		rseq++
		return n, a, nil
	}))
	wr := ic.BindLocalStream(info(ssrc), interceptor.RTPWriterFunc(func(h *rtp.Header, p []byte, _ interceptor.Attributes) (int, error) {
		return h.MarshalSize() + len(p), nil
	}))
	rawPLI, err := rtcp.Marshal([]rtcp.Packet{&rtcp.PictureLossIndication{SenderSSRC: 9, MediaSSRC: ssrc}})
	if err != nil {
		t.Fatal(err)
	}
	crd := ic.BindRTCPReader(interceptor.RTCPReaderFunc(func(b []byte, a interceptor.Attributes) (int, interceptor.Attributes, error) {
		return copy(b, rawPLI), a, nil
	}))
	cwr := ic.BindRTCPWriter(interceptor.RTCPWriterFunc(func(p []rtcp.Packet, _ interceptor.Attributes) (int, error) { return len(p), nil }))

	// one outgoing compound packet: 65 PLIs, every fifth about another stream
	var compound []rtcp.Packet
	plisAboutSSRC := 0
	for i := 0; i < plisPerPkt; i++ {
		if i%5 == 4 {
			compound = append(compound, &rtcp.PictureLossIndication{SenderSSRC: 9, MediaSSRC: other})
		} else {
			compound = append(compound, &rtcp.PictureLossIndication{SenderSSRC: 9, MediaSSRC: ssrc})
			plisAboutSSRC++
		}
	}

	// the recorder of a stream starts on a goroutine of its own after Bind: wait until it counts, then take the
	// snapshot the traffic is measured against (nothing is in flight at that moment)
	payload := make([]byte, payloadLen)
	wseq := uint16(0)
	write := func() {
		h := &rtp.Header{Version: 2, PayloadType: 96, SSRC: ssrc, SequenceNumber: wseq, Timestamp: uint32(wseq) * 90}
		wseq++
		if _, err := wr.Write(h, payload, nil); err != nil {
			t.Error(err)
		}
	}
	started := false
	for i := 0; i < 2000 && !started; i++ {
		write()
		if s := g.Get(ssrc); s != nil && s.OutboundRTPStreamStats.PacketsSent > 0 {
			started = true
		} else {
			time.Sleep(time.Millisecond)
		}
	}
	if !started {
		t.Fatal("the recorder of the stream never started counting")
	}
	base := *g.Get(ssrc)

	var reads, writes, batches, creads atomic.Uint64
	deadline := time.Now().Add(time.Duration(*fMillis) * time.Millisecond)
	done := make(chan struct{})
	var rtpWG, wg sync.WaitGroup
	rtpWG.Add(2)
	go func() { // the transport's RTP reader goroutine
		defer rtpWG.Done()
		buf := make([]byte, 1500)
		for time.Now().Before(deadline) {
			for k := 0; k < 64; k++ {
				if _, _, err := rd.Read(buf, interceptor.Attributes{}); err != nil {
					t.Error(err)
					return
				}
				reads.Add(1)
			}
		}
	}()
	go func() { // the application writes RTP
		defer rtpWG.Done()
		for time.Now().Before(deadline) {
			for k := 0; k < 64; k++ {
				write()
				writes.Add(1)
			}
		}
	}()
	wg.Add(2)
	go func() { // large outgoing RTCP for as long as RTP flows
		defer wg.Done()
		for {
			select {
			case <-done:
				return
			default:
			}
			if _, err := cwr.Write(compound, nil); err != nil {
				t.Error(err)
				return
			}
			batches.Add(1)
		}
	}()
	go func() { // incoming RTCP for as long as RTP flows
		defer wg.Done()
		buf := make([]byte, 1500)
		for {
			select {
			case <-done:
				return
			default:
			}
			if _, _, err := crd.Read(buf, interceptor.Attributes{}); err != nil {
				t.Error(err)
				return
			}
			creads.Add(1)
			time.Sleep(50 * time.Microsecond)
		}
	}()
	rtpWG.Wait()
	close(done)
	wg.Wait()

	s := g.Get(ssrc)
	if s == nil {
		t.Fatal("CONSERVATION stats-one-ssrc: Get returned nil for a bound stream")
	}
	in, out := s.InboundRTPStreamStats, s.OutboundRTPStreamStats
	bin, bout := base.InboundRTPStreamStats, base.OutboundRTPStreamStats
	r, w, b, c := reads.Load(), writes.Load(), batches.Load(), creads.Load()
	fmt.Printf("stress conserve-stats-one-ssrc reads=%d writes=%d rtcp-out=%d x %d PLIs rtcp-in=%d\n", r, w, b, plisPerPkt, c)
	check := func(what string, got, was, want uint64) {
		if got-was != want {
			t.Errorf("CONSERVATION stats-one-ssrc: %s grew by %d during the traffic, %d were handed in (%d updates lost)",
				what, got-was, want, int64(want)-int64(got-was))
		}
	}
	check("inbound PacketsReceived", in.PacketsReceived, bin.PacketsReceived, r)
	check("inbound BytesReceived", in.BytesReceived, bin.BytesReceived, r*uint64(12+payloadLen))
	check("inbound HeaderBytesReceived", in.HeaderBytesReceived, bin.HeaderBytesReceived, r*12)
	check("outbound PacketsSent", out.PacketsSent, bout.PacketsSent, w)
	check("outbound BytesSent", out.BytesSent, bout.BytesSent, w*uint64(12+payloadLen))
	check("outbound HeaderBytesSent", out.HeaderBytesSent, bout.HeaderBytesSent, w*12)
	check("inbound PLICount (outgoing PLIs)", uint64(in.PLICount), uint64(bin.PLICount), b*uint64(plisAboutSSRC))
	check("outbound PLICount (incoming PLIs)", uint64(out.PLICount), uint64(bout.PLICount), c)
}

package stress

// C18 — the jitter buffer under real concurrency: every exported call is ONE atomic step.
//
// Props/C18.lean proves the ordering clauses for every SEQUENTIAL history of exported calls
// (props/C18.json: "mutexes of JitterBuffer are not modelled").  What the mutex adds is that each call
// takes effect at one instant between its invocation and its return (linearizability), so every
// concurrent history must be explainable by SOME sequential history that respects real-time order —
// and for that sequential history the theorems apply.  This test records concurrent histories of
//
//	Pop()                (one or two popper goroutines)
//	SetPlayoutHead(h)    (a mover that jumps the head forward to a number that is normally still buffered)
//	PlayoutHead()        (the mover, before each jump)
//	Push(p)              (in some trials: fresh numbers above the pre-filled range)
//
// on a pre-filled buffer (base..base+n-1, across the 16-bit wrap in every other trial) with a global
// atomic clock (call / return stamps) and decides linearizability against the sequential specification
// of exactly these calls (the Pop / SetPlayoutHead / Push clauses of Model/JitterBuffer.lean once
// playback has started):
//
//	Pop:  head buffered  -> returns the packet numbered head, removes it, head := head+1
//	      head missing   -> fails (not found), nothing changes;   never "pop while buffering"
//	SetPlayoutHead(h): head := h        PlayoutHead(): returns head        Push(p): buffers p
//
// Nothing else is asserted: e.g. "after a jump to H the next successful pop returns H" is NOT demanded
// of a Pop that overlaps the jump, only of histories in which no admissible order explains what was
// returned.  Consequences of the specification that are reported by name when they fail: no number is
// popped twice; a Pop fails only at an instant at which the head packet is missing; the packet at a
// freshly set head is not skipped; each returned object is the one pushed with that number.
//
// The checker is exact, not heuristic: goroutine-local histories are sequences, so a set of linearized
// calls is a vector of per-goroutine prefix lengths; the buffered set is a function of that vector
// (which numbers have been pushed / popped by linearized calls), and together with the head it is the
// whole state — the search memoises on (vector, head) without hashing.  A self-test feeds it
// hand-written admissible and inadmissible histories on every run.
// Real goroutines: sampling / search support, never a proof.

import (
	"errors"
	"fmt"
	"math/rand"
	"runtime"
	"sort"
	"strings"
	"sync"
	"sync/atomic"
	"testing"
	"time"

	"github.com/pion/interceptor/pkg/jitterbuffer"
	"github.com/pion/rtp"
)

const (
	jbPop  = iota // ok: val = number returned; !ok: failed (not found / empty)
	jbSet         // arg
	jbHead        // val = number returned
	jbPush        // arg
)

const jbMaxThreads = 4

type jbOp struct {
	kind      uint8
	ok        bool
	buffering bool // Pop refused with ErrPopWhileBuffering: never admissible once playback has started
	arg, val  uint16
	call, ret int64
}

func (o jbOp) String() string {
	switch o.kind {
	case jbPop:
		if o.buffering {
			return fmt.Sprintf("Pop()=ErrPopWhileBuffering [%d,%d]", o.call, o.ret)
		}
		if o.ok {
			return fmt.Sprintf("Pop()=%d [%d,%d]", o.val, o.call, o.ret)
		}
		return fmt.Sprintf("Pop()=not-found [%d,%d]", o.call, o.ret)
	case jbSet:
		return fmt.Sprintf("SetPlayoutHead(%d) [%d,%d]", o.arg, o.call, o.ret)
	case jbHead:
		return fmt.Sprintf("PlayoutHead()=%d [%d,%d]", o.val, o.call, o.ret)
	default:
		return fmt.Sprintf("Push(%d) [%d,%d]", o.arg, o.call, o.ret)
	}
}

type jbRef struct {
	thread, idx int32
	set         bool
}

type jbKey struct {
	c    [jbMaxThreads]int32
	head uint16
}

// jbLinearizable decides whether the per-goroutine histories `threads` (each in program order, with
// call/ret stamps from one atomic clock) have a linearization starting from head0 with exactly the
// numbers in `initial` buffered.  It returns "" or a description of why not.
func jbLinearizable(threads [][]jbOp, names []string, initial map[uint16]bool, head0 uint16) string {
	if len(threads) > jbMaxThreads {
		return "checker: too many goroutines"
	}
	var popBy, pushBy [65536]jbRef
	total := 0
	for t, ops := range threads {
		total += len(ops)
		for i, o := range ops {
			switch {
			case o.kind == jbPop && o.buffering:
				return fmt.Sprintf("%s: %v although playback had started (at least the minimum packet count was buffered before the first call)", names[t], o)
			case o.kind == jbPop && o.ok:
				if p := popBy[o.val]; p.set {
					return fmt.Sprintf("number %d was popped twice: %s %v and %s %v (each number was pushed once)",
						o.val, names[p.thread], threads[p.thread][p.idx], names[t], o)
				}
				popBy[o.val] = jbRef{int32(t), int32(i), true}
			case o.kind == jbPush:
				if pushBy[o.arg].set || initial[o.arg] {
					return "checker: the harness pushed a number twice"
				}
				pushBy[o.arg] = jbRef{int32(t), int32(i), true}
			}
		}
	}
	buffered := func(v uint16, c *[jbMaxThreads]int32) bool {
		in := initial[v]
		if p := pushBy[v]; p.set && p.idx < c[p.thread] {
			in = true
		}
		if p := popBy[v]; p.set && p.idx < c[p.thread] {
			in = false
		}
		return in
	}
	type frame struct {
		k    jbKey
		next int // next goroutine to try
	}
	seen := map[jbKey]struct{}{}
	start := jbKey{head: head0}
	stack := []frame{{k: start}}
	seen[start] = struct{}{}
	best, bestKey := -1, start
	for len(stack) > 0 {
		f := &stack[len(stack)-1]
		done, sum := 0, 0
		minRet := int64(1) << 62
		for t := range threads {
			sum += int(f.k.c[t])
			if int(f.k.c[t]) == len(threads[t]) {
				done++
			} else if r := threads[t][f.k.c[t]].ret; r < minRet {
				minRet = r
			}
		}
		if done == len(threads) {
			return ""
		}
		if sum > best {
			best, bestKey = sum, f.k
		}
		advanced := false
		for f.next < len(threads) {
			t := f.next
			f.next++
			if int(f.k.c[t]) == len(threads[t]) {
				continue
			}
			o := threads[t][f.k.c[t]]
			if o.call > minRet { // some pending call had already returned when o was invoked: o cannot come first
				continue
			}
			nk := f.k
			switch o.kind {
			case jbPop:
				have := buffered(f.k.head, &f.k.c)
				if o.ok {
					if !have || o.val != f.k.head {
						continue
					}
					nk.head = f.k.head + 1
				} else if have {
					continue
				}
			case jbSet:
				nk.head = o.arg
			case jbHead:
				if o.val != f.k.head {
					continue
				}
			}
			nk.c[t]++
			if _, dup := seen[nk]; dup {
				continue
			}
			seen[nk] = struct{}{}
			stack = append(stack, frame{k: nk})
			advanced = true
			break
		}
		if !advanced {
			stack = stack[:len(stack)-1]
		}
	}
	// no admissible order: describe the longest admissible prefix and what could not follow it
	var sb strings.Builder
	fmt.Fprintf(&sb, "the %d recorded calls have no sequential order that respects real time and the specification; "+
		"the longest admissible prefix has %d calls and ends with playout head %d (buffered there: %v); calls that come next per goroutine:",
		total, best, bestKey.head, buffered(bestKey.head, &bestKey.c))
	have := buffered(bestKey.head, &bestKey.c)
	for t := range threads {
		if i := int(bestKey.c[t]); i < len(threads[t]) {
			fmt.Fprintf(&sb, " %s: %v", names[t], threads[t][i])
			switch o := threads[t][i]; {
			case o.kind == jbPop && o.ok && have && o.val != bestKey.head:
				fmt.Fprintf(&sb, " (returns %d while the buffered packet at the playout head %d has not been returned: skipped)", o.val, bestKey.head)
			case o.kind == jbPop && !o.ok && have:
				fmt.Fprintf(&sb, " (fails although the packet at the playout head %d is buffered)", bestKey.head)
			case o.kind == jbPop && o.ok && !have:
				fmt.Fprintf(&sb, " (returns a packet although number %d at the playout head is not buffered)", bestKey.head)
			}
			if i+1 < len(threads[t]) {
				fmt.Fprintf(&sb, ", then %v", threads[t][i+1])
			}
			sb.WriteString(";")
		}
	}
	return sb.String()
}

// the checker accepts and rejects what it should (hand-written histories; stamps are the atomic clock)
func TestConcJitterBufferCheckerSelfTest(t *testing.T) {
	init := map[uint16]bool{}
	for v := 0; v < 10; v++ {
		init[uint16(v)] = true
	}
	for v := 1000; v < 1010; v++ {
		init[uint16(v)] = true
	}
	names := []string{"popper0", "popper1", "mover"}
	pop := func(v uint16, c, r int64) jbOp { return jbOp{kind: jbPop, ok: true, val: v, call: c, ret: r} }
	miss := func(c, r int64) jbOp { return jbOp{kind: jbPop, call: c, ret: r} }
	set := func(h uint16, c, r int64) jbOp { return jbOp{kind: jbSet, arg: h, call: c, ret: r} }
	cases := []struct {
		name string
		h    [][]jbOp
		want bool
	}{
		{"sequential", [][]jbOp{{pop(0, 1, 2), pop(1, 3, 4), pop(1000, 9, 10), pop(1001, 11, 12)}, {}, {set(1000, 5, 6)}}, true},
		{"set overlaps a pop, takes effect after it", [][]jbOp{{pop(0, 1, 2), pop(1, 3, 8), pop(1000, 9, 10)}, {}, {set(1000, 4, 7)}}, true},
		{"set overlaps a pop, takes effect before it", [][]jbOp{{pop(0, 1, 2), pop(1000, 3, 8), pop(1001, 9, 10)}, {}, {set(1000, 4, 7)}}, true},
		{"two poppers interleave", [][]jbOp{{pop(0, 1, 6), pop(3, 9, 12)}, {pop(1, 2, 5), pop(2, 7, 8)}, {}}, true},
		{"pop at a missing head fails, later set repairs", [][]jbOp{{pop(0, 1, 2), miss(5, 6), pop(1000, 9, 10)}, {}, {set(500, 3, 4), set(1000, 7, 8)}}, true},
		{"head skipped: 1000 set while popping 1, then 1001", [][]jbOp{{pop(0, 1, 2), pop(1, 3, 8), pop(1001, 9, 10)}, {}, {set(1000, 4, 7)}}, false},
		{"pop fails although the head is buffered", [][]jbOp{{pop(0, 1, 6), pop(2, 9, 10)}, {miss(2, 5), pop(1, 7, 8)}, {}}, false},
		{"popped twice", [][]jbOp{{pop(0, 1, 4)}, {pop(0, 2, 3)}, {}}, false},
		{"real-time order violated", [][]jbOp{{pop(1, 1, 2)}, {pop(0, 3, 4)}, {}}, false},
		{"stale head after set returned", [][]jbOp{{pop(0, 1, 2), pop(1, 5, 6)}, {}, {set(1000, 3, 4)}}, false},
	}
	for _, c := range cases {
		msg := jbLinearizable(c.h, names, init, 0)
		if (msg == "") != c.want {
			t.Errorf("CONSERVATION jitterbuffer-checker-selftest: history %q: admissible=%v, want %v (%s)", c.name, msg == "", c.want, msg)
		}
	}
	fmt.Printf("stress conc-jitterbuffer-selftest histories=%d\n", len(cases))
}

type jbTrialStats struct{ calls, pops, fails, jumps int }

func jbTrial(t *testing.T, trial int, rng *rand.Rand) (st jbTrialStats, ok bool) {
	n := 600 + rng.Intn(1000)
	base := uint16(rng.Intn(30000))
	if trial%2 == 1 {
		base = uint16(65536 - n/2 - rng.Intn(n/4)) // the range crosses 65535 -> 0
	}
	poppers := 2
	if trial%4 == 0 {
		poppers = 1
	}
	withPusher := trial%3 == 2
	tag := fmt.Sprintf("trial %d (numbers %d..%d pre-filled, %d poppers, pusher=%v)", trial, base, base+uint16(n-1), poppers, withPusher)

	jb := jitterbuffer.New(jitterbuffer.WithMinimumPacketCount(1))
	pkts := map[uint16]*rtp.Packet{}
	mk := func(v uint16) *rtp.Packet {
		p := &rtp.Packet{Header: rtp.Header{Version: 2, SequenceNumber: v, Timestamp: uint32(v) * 90}, Payload: []byte{byte(v)}}
		pkts[v] = p
		return p
	}
	initial := map[uint16]bool{}
	// base first (the first push defines the playout head), the rest by descending raw value: every insert is
	// O(1) in the sorted list (pre-filling in ascending order would walk the whole list on every push)
	jb.Push(mk(base))
	initial[base] = true
	rest := make([]uint16, 0, n)
	for i := 1; i < n; i++ {
		rest = append(rest, base+uint16(i))
	}
	sort.Slice(rest, func(i, j int) bool { return rest[i] > rest[j] })
	for _, v := range rest {
		jb.Push(mk(v))
		initial[v] = true
	}
	if h := jb.PlayoutHead(); h != base {
		t.Errorf("CONSERVATION jitterbuffer-linearizable: playout head %d after pre-filling from %d — %s", h, base, tag)
		return st, false
	}
	top := base + uint16(n) // first number above the pre-filled range
	fresh := make([]*rtp.Packet, 0, 64)
	if withPusher {
		for i := 0; i < 64; i++ {
			fresh = append(fresh, mk(top+uint16(i)))
		}
	}

	var clock atomic.Int64
	var stop, moverDone atomic.Bool
	var wrongObject atomic.Value
	nthreads := poppers + 1
	if withPusher {
		nthreads++
	}
	threads := make([][]jbOp, nthreads)
	names := make([]string, 0, jbMaxThreads)
	var wg sync.WaitGroup
	var gate sync.WaitGroup
	gate.Add(1)
	maxOps := 6 * n
	for p := 0; p < poppers; p++ {
		names = append(names, fmt.Sprintf("popper%d", p))
		wg.Add(1)
		go func(p int) {
			defer wg.Done()
			ops := make([]jbOp, 0, 2*n)
			defer func() { threads[p] = ops }()
			gate.Wait()
			failsAfterDone := 0
			for !stop.Load() && len(ops) < maxOps {
				o := jbOp{kind: jbPop, call: clock.Add(1)}
				pkt, err := jb.Pop()
				o.ret = clock.Add(1)
				switch {
				case err == nil:
					o.ok, o.val = true, pkt.SequenceNumber
					if pkt != pkts[pkt.SequenceNumber] {
						wrongObject.CompareAndSwap(nil, fmt.Sprintf("%s: Pop returned an object numbered %d that is not the object pushed with that number", names[p], pkt.SequenceNumber))
					}
				case errors.Is(err, jitterbuffer.ErrPopWhileBuffering):
					o.buffering = true
				}
				ops = append(ops, o)
				if err != nil {
					if moverDone.Load() {
						if failsAfterDone++; failsAfterDone >= 3 {
							return
						}
					}
					runtime.Gosched()
				}
			}
		}(p)
	}
	names = append(names, "mover")
	wg.Add(1)
	mrng := rand.New(rand.NewSource(rng.Int63())) //nolint:gosec
	go func() {
		defer wg.Done()
		defer moverDone.Store(true)
		ops := make([]jbOp, 0, n)
		defer func() { threads[poppers] = ops }()
		gate.Wait()
		sink, idle := 0, 0
		last, need := base, uint16(0)
		for !stop.Load() && len(ops) < maxOps {
			o := jbOp{kind: jbHead, call: clock.Add(1)}
			h := jb.PlayoutHead()
			o.val, o.ret = h, clock.Add(1)
			ops = append(ops, o)
			if left := top - h; left < 48 || left > uint16(n) { // close to the end (or past it)
				return
			}
			// let the poppers advance a few numbers between two jumps (unless they are stuck on a missing head)
			if h-last < need && idle < 40 {
				idle++
				if idle%8 == 0 {
					runtime.Gosched()
				}
				for i, k := 0, 20+mrng.Intn(100); i < k; i++ {
					sink += i
				}
				continue
			}
			idle = 0
			target := h + 2 + uint16(mrng.Intn(12)) // normally still buffered: the poppers advance by a few per jump
			o = jbOp{kind: jbSet, arg: target, call: clock.Add(1)}
			jb.SetPlayoutHead(target)
			o.ret = clock.Add(1)
			ops = append(ops, o)
			last, need = target, uint16(1+mrng.Intn(10))
			for i, k := 0, mrng.Intn(400); i < k; i++ { // vary the moment of the next poll
				sink += i
			}
		}
		_ = sink
	}()
	if withPusher {
		names = append(names, "pusher")
		wg.Add(1)
		go func() {
			defer wg.Done()
			ops := make([]jbOp, 0, len(fresh))
			defer func() { threads[poppers+1] = ops }()
			gate.Wait()
			for _, p := range fresh {
				if stop.Load() {
					return
				}
				o := jbOp{kind: jbPush, arg: p.SequenceNumber, call: clock.Add(1)}
				jb.Push(p)
				o.ret = clock.Add(1)
				ops = append(ops, o)
				runtime.Gosched()
			}
		}()
	}
	fin := make(chan struct{})
	go func() { wg.Wait(); close(fin) }()
	gate.Done()
	select {
	case <-fin:
	case <-time.After(10 * time.Second): // the history recorded so far is still a complete history once everybody returned
		stop.Store(true)
		select {
		case <-fin:
		case <-time.After(20 * time.Second):
			t.Errorf("DEADLOCK jitterbuffer: Pop / SetPlayoutHead / Push goroutines did not return within 30 s — %s", tag)
			dumpStacks()
			return st, false
		}
	}
	for _, ops := range threads {
		st.calls += len(ops)
		for _, o := range ops {
			switch {
			case o.kind == jbPop && o.ok:
				st.pops++
			case o.kind == jbPop:
				st.fails++
			case o.kind == jbSet:
				st.jumps++
			}
		}
	}
	if msg, _ := wrongObject.Load().(string); msg != "" {
		t.Errorf("CONSERVATION jitterbuffer-linearizable: %s — %s", msg, tag)
		return st, false
	}
	if msg := jbLinearizable(threads, names, initial, base); msg != "" {
		t.Errorf("CONSERVATION jitterbuffer-linearizable: %s — %s", msg, tag)
		return st, false
	}
	if testing.Verbose() {
		fmt.Printf("  %s: %+v\n", tag, st)
	}
	return st, true
}

func TestConcJitterBufferLinearizable(t *testing.T) {
	deadline := time.Now().Add(time.Duration(*fMillis) * time.Millisecond)
	rng := rand.New(rand.NewSource(time.Now().UnixNano())) //nolint:gosec
	var sum jbTrialStats
	trials := 0
	for trials < 4 || time.Now().Before(deadline) {
		st, ok := jbTrial(t, trials, rng)
		trials++
		sum.calls += st.calls
		sum.pops += st.pops
		sum.fails += st.fails
		sum.jumps += st.jumps
		if !ok {
			break
		}
	}
	fmt.Printf("stress conc-jitterbuffer-linearizable trials=%d calls=%d pops=%d failed-pops=%d jumps=%d\n", trials, sum.calls, sum.pops, sum.fails, sum.jumps)
}

package stress

// C01 (and C15/C10) with real goroutines (sampling / search support, never a proof: the theorems of Props/C01
// are about sequential chains of wrapper models; this test samples schedules of parallel writers).
//
// A chain of pass-through interceptors containing twcc.HeaderExtensionInterceptor is bound to eight local
// streams (six negotiated the transport-wide-CC extension, two did not); eight goroutines released together
// write through it.  C01 says every application packet reaches the next writer exactly once, in order, with
// identical payload and header fields, and that only the DOCUMENTED transport-wide-CC extension may be
// added - documented as one session-wide sequence number that increases by one with every packet.  Hence,
// at the bottom of the chain:
//   * per stream: exactly the packets written, in the order written, same payload, same header fields
//     (marker, payload type, timestamp, SSRC, CSRC, the application's own extension);
//   * streams that did not negotiate the extension carry no added extension;
//   * over all negotiated streams the added numbers are each handed out exactly once and form one run of
//     consecutive values modulo 2^16 starting at the counter's value (preset through the hook
//     VerifSetNextSequenceNr: away from the 16-bit wrap in some trials, across it in others), and along
//     every stream they increase.
// The composition of the chain changes from trial to trial.

import (
	"bytes"
	"fmt"
	"io"
	"sync"
	"testing"
	"time"

	"github.com/pion/interceptor"
	"github.com/pion/interceptor/pkg/nack"
	"github.com/pion/interceptor/pkg/packetdump"
	"github.com/pion/interceptor/pkg/report"
	"github.com/pion/interceptor/pkg/rtpfb"
	"github.com/pion/interceptor/pkg/stats"
	"github.com/pion/interceptor/pkg/twcc"
	"github.com/pion/rtp"
)

func TestConserveChainTwccParallelWriters(t *testing.T) {
	const writers = 8    // streams 1..6 negotiated the extension (id 5), 7..8 did not
	const negotiated = 6 //
	const per = 250
	mk := func(name string) interceptor.Interceptor {
		var f interceptor.Factory
		switch name {
		case "report-sender":
			f = must(report.NewSenderInterceptor(report.SenderInterval(time.Millisecond)))
		case "stats":
			f = must(stats.NewInterceptor())
		case "packetdump":
			f = must(packetdump.NewSenderInterceptor(packetdump.RTPWriter(io.Discard), packetdump.RTCPWriter(io.Discard)))
		case "nack-responder":
			f = must(nack.NewResponderInterceptor(nack.ResponderSize(64)))
		case "rtpfb":
			f = must(rtpfb.NewInterceptor())
		}
		return must(f.NewInterceptor("c"))
	}
	// members in binding order: the LAST one is the first to see an application packet; "twcc" marks the place
	// of the header-extension interceptor
	compositions := [][]string{
		{"twcc"},
		{"report-sender", "twcc", "stats"},
		{"rtpfb", "twcc", "packetdump"},
		{"nack-responder", "stats", "twcc"},
		{"rtpfb", "report-sender", "twcc", "nack-responder"},
	}
	deadline := time.Now().Add(time.Duration(*fMillis) * time.Millisecond)
	trials := 0
	for trials == 0 || time.Now().Before(deadline) {
		trials++
		comp := compositions[trials%len(compositions)]
		hdr := must(must(twcc.NewHeaderExtensionInterceptor()).NewInterceptor("c")).(*twcc.HeaderExtensionInterceptor)
		var members []interceptor.Interceptor
		for _, name := range comp {
			if name == "twcc" {
				members = append(members, hdr)
			} else {
				members = append(members, mk(name))
			}
		}
		chain := interceptor.NewChain(members)
		var first uint32
		switch trials % 3 {
		case 0:
			first = uint32(65536 - 1 - (trials*37)%(negotiated*per)) // the run crosses the wrap
		case 1:
			first = uint32(trials*521) % 30000 // far from the wrap
		default:
			first = 0 // the counter's initial value
		}
		hdr.VerifSetNextSequenceNr(first)

		type got struct {
			seq     uint16
			twcc    int // -1: no element under id 5
			same    bool
			payload []byte
		}
		var mu [writers + 1]sync.Mutex
		var out [writers + 1][]got
		header := func(w, k int) *rtp.Header {
			h := &rtp.Header{Version: 2, SSRC: uint32(w), PayloadType: 96, SequenceNumber: uint16(60000 + k), Timestamp: uint32(k) * 3000,
				Marker: k%3 == 0, CSRC: []uint32{uint32(w), uint32(k)}, Extension: true, ExtensionProfile: 0xBEDE}
			_ = h.SetExtension(1, []byte{byte(w), byte(k)})
			return h
		}
		payload := func(w, k int) []byte {
			p := make([]byte, (w*131+k*17)%1200)
			for i := range p {
				p[i] = byte(w*7 + k + i)
			}
			return p
		}
		var ws [writers + 1]interceptor.RTPWriter
		for w := 1; w <= writers; w++ {
			w := w
			si := info(uint32(w))
			if w > negotiated {
				si.RTPHeaderExtensions = nil
			}
			ws[w] = chain.BindLocalStream(si, interceptor.RTPWriterFunc(func(h *rtp.Header, p []byte, _ interceptor.Attributes) (int, error) {
				if h.SSRC < 1 || h.SSRC > writers || h.PayloadType != 96 {
					return len(p), nil // not an application packet
				}
				g := got{seq: h.SequenceNumber, twcc: -1, payload: append([]byte(nil), p...)}
				if e := h.GetExtension(5); e != nil {
					var ext rtp.TransportCCExtension
					if err := ext.Unmarshal(e); err != nil {
						return 0, err
					}
					g.twcc = int(ext.TransportSequence)
				}
				k := int(h.SequenceNumber - 60000)
				want := header(int(h.SSRC), k)
				g.same = h.Version == want.Version && h.Padding == want.Padding && h.Marker == want.Marker && h.Timestamp == want.Timestamp &&
					len(h.CSRC) == 2 && h.CSRC[0] == want.CSRC[0] && h.CSRC[1] == want.CSRC[1] &&
					h.Extension && bytes.Equal(h.GetExtension(1), want.GetExtension(1)) && len(h.GetExtensionIDs()) == 1+btoi(g.twcc >= 0)
				mu[h.SSRC].Lock()
				out[h.SSRC] = append(out[h.SSRC], g)
				mu[h.SSRC].Unlock()
				return len(p), nil
			}))
		}
		var start, wg sync.WaitGroup
		start.Add(1)
		var werr [writers + 1]error
		for w := 1; w <= writers; w++ {
			wg.Add(1)
			go func(w int) {
				defer wg.Done()
				start.Wait()
				for k := 0; k < per; k++ {
					if _, err := ws[w].Write(header(w, k), payload(w, k), interceptor.Attributes{}); err != nil {
						werr[w] = err
						return
					}
				}
			}(w)
		}
		start.Done()
		wg.Wait()
		_ = chain.Close()
		var problems []string
		problem := func(format string, a ...any) {
			if len(problems) < 4 {
				problems = append(problems, fmt.Sprintf(format, a...))
			}
		}
		count := map[uint16]int{}
		for w := 1; w <= writers; w++ {
			if werr[w] != nil {
				problem("write on stream %d returned %v", w, werr[w])
			}
			mu[w].Lock()
			if len(out[w]) != per {
				problem("stream %d: %d application packets reached the next writer, %d were written", w, len(out[w]), per)
			}
			prev := -1
			for k, g := range out[w] {
				if g.seq != uint16(60000+k) {
					problem("stream %d: packet #%d at the next writer has sequence number %d, want %d (order/duplication)", w, k, g.seq, uint16(60000+k))
					break
				}
				if !g.same || !bytes.Equal(g.payload, payload(w, k)) {
					problem("stream %d packet #%d: header fields or payload differ from what was written", w, k)
				}
				switch {
				case w > negotiated && g.twcc >= 0:
					problem("stream %d did not negotiate transport-wide CC but packet #%d carries the extension", w, k)
				case w <= negotiated && g.twcc < 0:
					problem("stream %d packet #%d: no transport-wide CC extension", w, k)
				case w <= negotiated:
					count[uint16(g.twcc)]++
					rel := int(uint16(g.twcc) - uint16(first)) // position in the run
					if rel <= prev {
						problem("stream %d packet #%d: transport-wide number %d does not follow the stream's previous one (positions %d then %d in the run from %d)", w, k, g.twcc, prev, rel, uint16(first))
					}
					prev = rel
				}
			}
			mu[w].Unlock()
		}
		for k := 0; k < negotiated*per; k++ {
			x := uint16(first + uint32(k))
			if count[x] != 1 {
				problem("chain %v: %d parallel writers got %d transport-wide numbers starting at %d: number %d was handed out %d times, want exactly once (one run of consecutive values)",
					comp, negotiated, negotiated*per, uint16(first), x, count[x])
				break
			}
		}
		if len(problems) > 0 {
			for _, m := range problems {
				t.Errorf("CONSERVATION chain-twcc-parallel-writers (trial %d): %s", trials, m)
			}
			return
		}
	}
	fmt.Printf("stress conserve-chain-twcc-parallel-writers trials=%d packets=%d\n", trials, trials*writers*per)
}

func btoi(b bool) int {
	if b {
		return 1
	}
	return 0
}

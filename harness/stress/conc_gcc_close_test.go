package stress

// C16 — "feeding feedback never blocks indefinitely or panics, and after Close it fails with the
// documented closed error", with Close called WHILE several goroutines are inside WriteRTCP.
//
// props/C16.json trusts that closeLock makes the closed check and the two pipeline sends of WriteRTCP
// one step with respect to Close (the model has one atomic step per call).  The sequential
// correspondence cannot see a Close that lands between the check and the send; this test samples
// exactly that: many short-lived estimators, each with several feeders (TWCC and RFC 8888 feedback,
// duplicated, with loss) and an observer, closed after a random short delay — on SendSideBWE directly
// and through the cc interceptor's RTCP reader, with both pacers and several (min, initial, max).
//
// Reported: a panic in any call (`panic:`), a call that does not return (`DEADLOCK`), and the clauses
// of the property that must hold for every interleaving (`CONSERVATION gcc-close`):
//   - every WriteRTCP returns nil or ErrSendSideBWEClosed, and once Close has RETURNED only the latter;
//   - a feeder that has seen ErrSendSideBWEClosed never sees nil again (closed is final);
//   - GetTargetBitrate — during the race, in every change callback, and after Close — is within
//     [min, max] of the configuration.
// Real goroutines on the real clock: sampling / search support, never a proof.

import (
	"errors"
	"fmt"
	"math/rand"
	"runtime/debug"
	"sync"
	"sync/atomic"
	"testing"
	"time"

	"github.com/pion/interceptor"
	"github.com/pion/interceptor/pkg/cc"
	"github.com/pion/interceptor/pkg/gcc"
	"github.com/pion/interceptor/pkg/twcc"
	"github.com/pion/rtcp"
	"github.com/pion/rtp"
)

type gccCloseCfg struct{ min, init, max int }

var gccCloseCfgs = []gccCloseCfg{
	{50_000, 1_000_000, 50_000_000},
	{200_000, 300_000, 400_000}, // min above the loss estimator's own 100 kbit/s floor (F-20)
	{150_000, 2_000_000, 2_500_000},
	{10_000, 10_000, 20_000},
}

// gccCloseTraffic sends n packets on a TWCC stream (ssrc 1) and n on a stream without the extension
// (ssrc 2, acknowledged by RFC 8888 reports), gap apart, and returns feedback batches about them.
func gccCloseTraffic(w1, w2 interceptor.RTPWriter, n int, gap time.Duration) [][]rtcp.Packet {
	full := twcc.NewRecorder(5000)
	lossy := twcc.NewRecorder(5000)
	arrival := int64(64_000)
	payload := make([]byte, 900)
	blocksAll := make([]rtcp.CCFeedbackMetricBlock, 0, n)
	blocksLoss := make([]rtcp.CCFeedbackMetricBlock, 0, n)
	for i := 0; i < n; i++ {
		seq := uint16(i)
		ext, _ := (&rtp.TransportCCExtension{TransportSequence: seq}).Marshal()
		h := &rtp.Header{Version: 2, SSRC: 1, PayloadType: 96, SequenceNumber: seq, Timestamp: uint32(i) * 3000}
		_ = h.SetExtension(5, ext)
		_, _ = w1.Write(h, payload, interceptor.Attributes{})
		_, _ = w2.Write(&rtp.Header{Version: 2, SSRC: 2, PayloadType: 96, SequenceNumber: seq, Timestamp: uint32(i) * 3000}, payload, interceptor.Attributes{})
		full.Record(1, seq, arrival)
		if i%3 != 1 {
			lossy.Record(1, seq, arrival+int64(i)*900) // growing delay and loss
		}
		blocksAll = append(blocksAll, rtcp.CCFeedbackMetricBlock{Received: true, ArrivalTimeOffset: uint16(8 * (n - i))})
		blocksLoss = append(blocksLoss, rtcp.CCFeedbackMetricBlock{Received: i%4 != 2, ArrivalTimeOffset: uint16(5 * (n - i))})
		arrival += gap.Microseconds()
		if gap > 0 {
			time.Sleep(gap)
		}
	}
	ccfb := func(b []rtcp.CCFeedbackMetricBlock) []rtcp.Packet {
		return []rtcp.Packet{&rtcp.CCFeedbackReport{SenderSSRC: 77, ReportTimestamp: 1 << 16,
			ReportBlocks: []rtcp.CCFeedbackReportBlock{{MediaSSRC: 2, BeginSequence: 0, MetricBlocks: b}}}}
	}
	return [][]rtcp.Packet{full.BuildFeedbackPacket(), ccfb(blocksAll), lossy.BuildFeedbackPacket(), ccfb(blocksLoss),
		{&rtcp.ReceiverReport{SSRC: 77}}} // the last one is ignored by the estimator (no pipeline send)
}

type gccCloseResult struct {
	feeds, closedSeen, changes int64
}

// one estimator: traffic, feeders + observer, Close after `delay`, then the after-Close clauses.
func gccCloseTrial(t *testing.T, trial int, rng *rand.Rand, res *gccCloseResult) {
	cfg := gccCloseCfgs[trial%len(gccCloseCfgs)]
	viaInterceptor := trial%2 == 1
	noop := (trial/2)%2 == 0
	feeders := 2 + trial%3
	delay := time.Duration(rng.Intn(400)) * time.Microsecond
	tag := fmt.Sprintf("trial %d (min=%d init=%d max=%d, %d feeders, via-interceptor=%v, noop-pacer=%v, close after %v)",
		trial, cfg.min, cfg.init, cfg.max, feeders, viaInterceptor, noop, delay)
	var once sync.Once
	fail := func(format string, a ...any) {
		once.Do(func() { t.Errorf(format+" — "+tag, a...) })
	}
	inBounds := func(where string, v int) {
		if v < cfg.min || v > cfg.max || v <= 0 {
			fail("CONSERVATION gcc-close: target bitrate %d %s is outside the configured [%d, %d]", v, where, cfg.min, cfg.max)
		}
	}

	opts := []gcc.Option{gcc.SendSideBWEInitialBitrate(cfg.init), gcc.SendSideBWEMinBitrate(cfg.min), gcc.SendSideBWEMaxBitrate(cfg.max)}
	if noop {
		opts = append(opts, gcc.SendSideBWEPacer(gcc.NewNoOpPacer()))
	}
	bwe, err := gcc.NewSendSideBWE(opts...)
	if err != nil {
		t.Errorf("NewSendSideBWE: %v", err)
		return
	}
	var changes atomic.Int64
	bwe.OnTargetBitrateChange(func(b int) { changes.Add(1); inBounds("passed to the change callback", b) })

	sink := interceptor.RTPWriterFunc(func(h *rtp.Header, p []byte, _ interceptor.Attributes) (int, error) { return len(p), nil })
	plain := info(2)
	plain.RTPHeaderExtensions = nil
	var w1, w2 interceptor.RTPWriter
	var closer func() error
	// write(k): feed batch k; direct call or one Read of the cc interceptor's RTCP reader
	var write func(k int, batches [][]rtcp.Packet, raw [][]byte) error
	if viaInterceptor {
		f, err := cc.NewInterceptor(func() (cc.BandwidthEstimator, error) { return bwe, nil })
		if err != nil {
			t.Errorf("cc.NewInterceptor: %v", err)
			return
		}
		ic, err := f.NewInterceptor("c")
		if err != nil {
			t.Errorf("cc NewInterceptor: %v", err)
			return
		}
		w1, w2 = ic.BindLocalStream(info(1), sink), ic.BindLocalStream(plain, sink)
		closer = ic.Close
		write = func(k int, _ [][]rtcp.Packet, raw [][]byte) error {
			src := raw[k%len(raw)]
			rd := ic.BindRTCPReader(interceptor.RTCPReaderFunc(func(b []byte, a interceptor.Attributes) (int, interceptor.Attributes, error) {
				return copy(b, src), a, nil
			}))
			_, _, err := rd.Read(make([]byte, 1500), interceptor.Attributes{})
			return err
		}
	} else {
		w1, w2 = bwe.AddStream(info(1), sink), bwe.AddStream(plain, sink)
		closer = bwe.Close
		write = func(k int, batches [][]rtcp.Packet, _ [][]byte) error {
			return bwe.WriteRTCP(batches[k%len(batches)], nil)
		}
	}
	gap := time.Duration(0)
	if trial%4 < 2 {
		gap = 6 * time.Millisecond // every packet its own arrival group: the estimator publishes rates
	}
	batches := gccCloseTraffic(w1, w2, 6, gap)
	raw := make([][]byte, len(batches))
	for i, b := range batches {
		if raw[i], err = rtcp.Marshal(b); err != nil {
			t.Errorf("marshal feedback: %v", err)
			return
		}
	}
	// guarded call: a panic becomes a finding, the stack goes to the log
	feed := func(k int) (err error) {
		defer func() {
			if r := recover(); r != nil {
				fail("panic: WriteRTCP concurrent with Close panicked: %v\n%s", r, debug.Stack())
				err = fmt.Errorf("panicked: %v", r)
			}
		}()
		return write(k, batches, raw)
	}

	var closeReturned atomic.Bool
	var feeds, closedSeen atomic.Int64
	var wg sync.WaitGroup
	stop := make(chan struct{})
	for g := 0; g < feeders; g++ {
		wg.Add(1)
		go func(g int) {
			defer wg.Done()
			sawClosed := false
			for k := g; ; k++ {
				select {
				case <-stop:
					return
				default:
				}
				after := closeReturned.Load() // read BEFORE the call: Close had returned before the call began
				err := feed(k)
				feeds.Add(1)
				switch {
				case err == nil:
					if after {
						fail("CONSERVATION gcc-close: WriteRTCP returned nil after Close had returned (want ErrSendSideBWEClosed)")
					}
					if sawClosed {
						fail("CONSERVATION gcc-close: WriteRTCP returned nil after an earlier call of the same goroutine had returned ErrSendSideBWEClosed")
					}
				case errors.Is(err, gcc.ErrSendSideBWEClosed):
					sawClosed = true
					if closedSeen.Add(1) > 64 {
						return
					}
				default:
					if after || sawClosed {
						fail("CONSERVATION gcc-close: WriteRTCP after Close returned %v (want ErrSendSideBWEClosed)", err)
					}
				}
			}
		}(g)
	}
	wg.Add(1)
	go func() { // observer
		defer wg.Done()
		for {
			select {
			case <-stop:
				return
			default:
			}
			inBounds("returned by GetTargetBitrate while feedback and Close race", bwe.GetTargetBitrate())
			_ = bwe.GetStats()
			time.Sleep(20 * time.Microsecond)
		}
	}()
	time.Sleep(delay)
	done := make(chan error, 1)
	go func() {
		defer func() {
			if r := recover(); r != nil {
				fail("panic: Close concurrent with WriteRTCP panicked: %v\n%s", r, debug.Stack())
				done <- nil
			}
		}()
		done <- closer()
	}()
	select {
	case err := <-done:
		if err != nil {
			fail("CONSERVATION gcc-close: Close returned %v", err)
		}
	case <-time.After(20 * time.Second):
		fail("DEADLOCK gcc-close: Close did not return within 20 s while %d goroutines were feeding feedback", feeders)
		dumpStacks()
		close(stop)
		return
	}
	closeReturned.Store(true)
	// the after-Close clauses, from this goroutine (strictly after Close returned) ...
	for k := 0; k < len(batches)-1; k++ {
		if err := feed(k); !errors.Is(err, gcc.ErrSendSideBWEClosed) {
			fail("CONSERVATION gcc-close: WriteRTCP (batch %d) after Close returned %v, want ErrSendSideBWEClosed", k, err)
		}
	}
	inBounds("returned by GetTargetBitrate after Close", bwe.GetTargetBitrate())
	// ... and from the feeders, which keep going until each has seen the closed error a few times
	time.Sleep(200 * time.Microsecond)
	close(stop)
	fin := make(chan struct{})
	go func() { wg.Wait(); close(fin) }()
	select {
	case <-fin:
	case <-time.After(20 * time.Second):
		fail("DEADLOCK gcc-close: feeders did not return within 20 s after Close")
		dumpStacks()
		return
	}
	atomic.AddInt64(&res.feeds, feeds.Load())
	atomic.AddInt64(&res.closedSeen, closedSeen.Load())
	atomic.AddInt64(&res.changes, changes.Load())
}

func TestConcGccCloseRace(t *testing.T) {
	const workers = 8
	deadline := time.Now().Add(time.Duration(*fMillis) * time.Millisecond)
	var next atomic.Int64
	var res gccCloseResult
	var wg sync.WaitGroup
	for wk := 0; wk < workers; wk++ {
		wg.Add(1)
		go func(wk int) {
			defer wg.Done()
			rng := rand.New(rand.NewSource(int64(wk)*7919 + time.Now().UnixNano())) //nolint:gosec
			for first := true; first || time.Now().Before(deadline); first = false {
				gccCloseTrial(t, int(next.Add(1))-1, rng, &res)
				if t.Failed() {
					return
				}
			}
		}(wk)
	}
	wg.Wait()
	fmt.Printf("stress conc-gcc-close trials=%d feeds=%d closed-errors=%d rate-changes=%d\n", next.Load(), res.feeds, res.closedSeen, res.changes)
}

package stress

// C03 "streams are independent" across interceptors: a registry builds one interceptor per PeerConnection from ONE
// factory (and its option list is applied once per interceptor).  Two NACK generators built from one factory, with
// a per-packet NACK limit, see the same SSRC with the same loss; each must request the missing number exactly
// `limit` times, whatever the other one does.  Deterministic (virtual time in a synctest bubble).

import (
	"fmt"
	"testing"
	"testing/synctest"
	"time"

	"github.com/pion/interceptor"
	"github.com/pion/interceptor/pkg/nack"
	"github.com/pion/rtcp"
	"github.com/pion/rtp"
)

func TestConserveNackNeverReceivedTwins(t *testing.T) {
	for _, limit := range []uint16{1, 2, 3} {
		for _, n := range []int{2, 3} {
			limit, n := limit, n
			synctest.Test(t, func(t *testing.T) {
				f, err := nack.NewGeneratorInterceptor(nack.GeneratorInterval(10*time.Millisecond), nack.GeneratorSize(64),
					nack.GeneratorMaxNacksPerPacket(limit))
				if err != nil {
					t.Fatal(err)
				}
				type peer struct {
					ic    interceptor.Interceptor
					rd    interceptor.RTPReader
					next  []byte
					asked map[uint16]int
				}
				peers := make([]*peer, n)
				for i := range peers {
					p := &peer{asked: map[uint16]int{}}
					p.ic, _ = f.NewInterceptor(fmt.Sprint("pc", i))
					p.ic.BindRTCPWriter(interceptor.RTCPWriterFunc(func(pk []rtcp.Packet, _ interceptor.Attributes) (int, error) {
						for _, x := range pk {
							if nk, ok := x.(*rtcp.TransportLayerNack); ok {
								for _, pair := range nk.Nacks {
									for _, s := range pair.PacketList() {
										p.asked[s]++
									}
								}
							}
						}
						return 0, nil
					}))
					p.rd = p.ic.BindRemoteStream(&interceptor.StreamInfo{SSRC: 7, ClockRate: 90000,
						RTCPFeedback: []interceptor.RTCPFeedback{{Type: "nack"}}},
						interceptor.RTPReaderFunc(func(b []byte, a interceptor.Attributes) (int, interceptor.Attributes, error) {
							return copy(b, p.next), a, nil
						}))
					peers[i] = p
				}
				feed := func(p *peer, seq uint16) {
					h := rtp.Header{Version: 2, SSRC: 7, PayloadType: 96, SequenceNumber: seq}
					p.next, _ = h.Marshal()
					_, _, _ = p.rd.Read(make([]byte, 1500), interceptor.Attributes{})
				}
				// every peer receives 1 and 3 (2 is missing), a little apart in time, then 4 ticks pass, then 5 and 7
				for i, p := range peers {
					feed(p, 1)
					feed(p, 3)
					time.Sleep(time.Duration(i+1) * time.Millisecond)
				}
				time.Sleep(45 * time.Millisecond)
				synctest.Wait()
				for _, p := range peers {
					feed(p, 5)
					feed(p, 7)
				}
				time.Sleep(45 * time.Millisecond)
				synctest.Wait()
				for i, p := range peers {
					for _, miss := range []uint16{2, 4, 6} {
						if p.asked[miss] != int(limit) {
							t.Errorf("CONSERVATION nack-twins (limit %d, %d interceptors from one factory): interceptor %d requested the missing number %d %d times, want %d",
								limit, n, i, miss, p.asked[miss], limit)
						}
					}
				}
				for _, p := range peers {
					_ = p.ic.Close()
				}
			})
		}
	}
	fmt.Println("stress nack-twins ok")
}

package stress

// C13 search support: real goroutines under the race detector.  Every caller goroutine owns ONE
// header object (with one CSRC array and one extension payload buffer), ONE payload buffer, ONE
// read buffer and ONE attributes map, reuses them for every call and overwrites them as soon as
// the call has returned.  An interceptor that hands caller memory to one of its goroutines
// without copying (F-25) shows up as a data race.  Sampling only, never a proof.

import (
	"fmt"
	"sync"
	"sync/atomic"
	"testing"
	"time"

	"github.com/pion/interceptor"
	"github.com/pion/rtcp"
	"github.com/pion/rtp"
)

var scribbleNames = map[string]bool{
	"nack-responder": true, "report-receiver": true, "report-sender": true, "twcc-sender": true, "rtpfb": true,
	"stats": true, "packetdump-sender": true, "packetdump-receiver": true, "flexfec": true, "jitterbuffer": true,
	"pacing": true, "cc-gcc": true,
}

func runScribble(t *testing.T, e entry, d time.Duration) {
	f, err := e.mk()
	if err != nil {
		t.Fatalf("%s: %v", e.name, err)
	}
	ic, err := f.NewInterceptor("scribble")
	if err != nil {
		t.Fatalf("%s: %v", e.name, err)
	}
	var rtpOut, rtcpOut atomic.Int64
	_ = ic.BindRTCPWriter(interceptor.RTCPWriterFunc(func(p []rtcp.Packet, _ interceptor.Attributes) (int, error) {
		rtcpOut.Add(1)
		return 0, nil
	}))
	var rtcpK atomic.Int64
	rtcpR := ic.BindRTCPReader(interceptor.RTCPReaderFunc(func(b []byte, a interceptor.Attributes) (int, interceptor.Attributes, error) {
		k := int(rtcpK.Add(1))
		return copy(b, rtcpBytes(k, uint32(1+k%2))), a, nil
	}))
	stop := make(chan struct{})
	var wg sync.WaitGroup
	spawn := func(fn func(i int)) {
		wg.Add(1)
		go func() {
			defer wg.Done()
			for i := 0; ; i++ {
				select {
				case <-stop:
					return
				default:
				}
				fn(i)
			}
		}()
	}
	for ssrc := uint32(1); ssrc <= 2; ssrc++ {
		ssrc := ssrc
		w := ic.BindLocalStream(info(ssrc), interceptor.RTPWriterFunc(func(h *rtp.Header, p []byte, _ interceptor.Attributes) (int, error) {
			rtpOut.Add(1)
			return len(p), nil
		}))
		var seq atomic.Uint32
		r := ic.BindRemoteStream(info(ssrc), interceptor.RTPReaderFunc(func(b []byte, a interceptor.Attributes) (int, interceptor.Attributes, error) {
			s := seq.Add(1)
			h := rtp.Header{Version: 2, SSRC: ssrc, PayloadType: 96, SequenceNumber: uint16(s), Timestamp: s * 3000,
				Extension: true, ExtensionProfile: 0xBEDE}
			_ = h.SetExtension(5, []byte{byte(s >> 8), byte(s)})
			n, err := h.MarshalTo(b)
			if err != nil {
				return 0, nil, err
			}
			n += copy(b[n:], []byte{1, 2, 3, 4, 5, 6, 7, 8})
			return n, a, nil
		}))
		// the writing caller: one header, payload, attributes for every packet
		hdr := &rtp.Header{}
		csrc := make([]uint32, 2)
		ext := make([]byte, 2)
		pay := make([]byte, 64)
		wattr := interceptor.Attributes{}
		spawn(func(i int) {
			*hdr = rtp.Header{Version: 2, SSRC: ssrc, PayloadType: 96, SequenceNumber: uint16(i), Timestamp: uint32(i) * 3000,
				Extension: true, ExtensionProfile: 0xBEDE, CSRC: csrc}
			csrc[0], csrc[1] = uint32(i), ssrc
			ext[0], ext[1] = byte(i>>8), byte(i)
			_ = hdr.SetExtension(5, ext)
			for k := range pay {
				pay[k] = byte(i + k)
			}
			clear(wattr)
			wattr[1] = i
			_, _ = w.Write(hdr, pay, wattr)
			for k := range pay {
				pay[k] = 0xEE
			}
			csrc[0], csrc[1] = 0xEEEEEEEE, 0xEEEEEEEE
			ext[0], ext[1] = 0xEE, 0xEE
			hdr.SequenceNumber ^= 0x5555
			clear(wattr)
			wattr[0xEE] = 0xEE
			if i%16 == 0 {
				time.Sleep(50 * time.Microsecond)
			}
		})
		// the reading caller: one buffer, one attributes map
		buf := make([]byte, 1500)
		rattr := interceptor.Attributes{}
		spawn(func(i int) {
			clear(rattr)
			_, _, _ = r.Read(buf, rattr)
			for k := range buf {
				buf[k] = 0xEE
			}
			clear(rattr)
			if i%16 == 0 {
				time.Sleep(50 * time.Microsecond)
			}
		})
	}
	cbuf := make([]byte, 1500)
	cattr := interceptor.Attributes{}
	spawn(func(i int) {
		clear(cattr)
		_, _, _ = rtcpR.Read(cbuf, cattr)
		for k := range cbuf {
			cbuf[k] = 0xEE
		}
		clear(cattr)
		time.Sleep(20 * time.Microsecond)
	})
	time.Sleep(d)
	close(stop)
	wg.Wait()
	done := make(chan error, 1)
	go func() { done <- ic.Close() }()
	select {
	case <-done:
	case <-time.After(20 * time.Second):
		t.Errorf("DEADLOCK %s: Close did not return within 20 s", e.name)
		dumpStacks()
		return
	}
	fmt.Printf("stress %-20s scribble rtp-out=%d rtcp-out=%d\n", e.name, rtpOut.Load(), rtcpOut.Load())
}

func TestScribbleStress(t *testing.T) {
	d := time.Duration(*fMillis) * time.Millisecond
	for _, e := range factories() {
		if !scribbleNames[e.name] || (*fOnly != "" && *fOnly != e.name) {
			continue
		}
		e := e
		t.Run(e.name, func(t *testing.T) { runScribble(t, e, d) })
	}
}

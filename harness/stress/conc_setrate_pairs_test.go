package stress

// C10 — "no two goroutines access interceptor state without synchronisation ... lose no updates", for the public
// setter pacing.InterceptorFactory.SetRate.
//
// SetRate(id, r) is ONE update of the interceptor's token bucket: it gives it the rate r and the burst that belongs
// to r (what one pacing interval may send at that rate; at least one 1500-byte packet).  A bandwidth estimator reports
// every change of its target from a goroutine of its own (gcc: `go e.onTargetBitrateChange(rate)`), so two quick
// changes are two concurrent SetRate calls for the same interceptor.  Whatever their order, once all of them have
// returned the bucket must be in the state ONE of them asked for: a rate of one call with the burst of another is a
// torn update - it is the result of no serial order of the calls, and it stays until the next SetRate (a 100 Mbit/s
// bucket with a 20 kbit burst never releases more than 4 Mbit/s and never a packet of 2500 bytes).
//
// The race detector cannot see this (the limiter is internally locked, every single access is synchronised), and
// the lock-set facts cannot either (the PAIR is no field).  So: 2..4 goroutines spin on a barrier, are released at
// the same instant, call SetRate for the same id with different rates; when all have returned (quiescent) the pair
// is read (verif hook Interceptor.VerifLimiter: Limiter.Limit() and Limiter.Burst()) and compared with the rates of
// this round and with the burst formula of the package's documentation, recomputed here.  Repeated for the time
// given (a torn pair needs the two limiter calls of one SetRate to straddle those of another: the window is one
// assignment, a hit needs ~1e3..1e4 aligned rounds).  Besides the pair, every round checks "no lost update" in its
// plain form: the final rate is the rate of one of this round's calls, never the one of the round before.

import (
	"fmt"
	"runtime"
	"sync/atomic"
	"testing"
	"time"

	"github.com/pion/interceptor/pkg/pacing"
)

// burstFor is the burst the package documents for a rate: "the minimal burst size required to reach the given rate
// and pacing interval", at least one packet of 1500 bytes.
func burstFor(rate int, interval time.Duration) int {
	perSecond := int(time.Second / interval)
	b := rate / perSecond
	if b < 8*1500 {
		b = 8 * 1500
	}
	return b
}

func TestConserveSetRatePairs(t *testing.T) {
	procs := runtime.GOMAXPROCS(0)
	if procs < 2 {
		fmt.Println("stress conserve-setrate-pairs skipped: one CPU")
		return
	}
	d := 2500 * time.Millisecond
	if *fMillis >= 1000 {
		d = 10 * time.Second
	}
	const interval = 5 * time.Millisecond
	f := pacing.NewInterceptor(pacing.Interval(interval), pacing.InitialRate(2_000_000))
	ic := must(f.NewInterceptor("pc"))
	defer func() { _ = ic.Close() }()
	other := must(f.NewInterceptor("other")) // a second peer connection of the same factory: never touched
	defer func() { _ = other.Close() }()
	type limiterView interface {
		VerifLimiter() (float64, int, bool)
	}
	lv, ok := ic.(limiterView)
	if !ok {
		t.Fatal("pacing interceptor without VerifLimiter hook")
	}
	lvOther, _ := other.(limiterView)

	// rates with pairwise different bursts (interval 5 ms: burst = rate/200, at least 12000)
	rates := []int{4_000_000, 100_000_000, 30_000_000, 1_000_000, 250_000_000, 12_345_678, 64_000_000, 2_500_000}
	maxWorkers := 4
	if procs < 5 {
		maxWorkers = procs - 1
		if maxWorkers < 2 {
			maxWorkers = 2
		}
	}

	var (
		gen    atomic.Int64 // barrier: workers wait for gen to change
		done   atomic.Int64
		stop   atomic.Bool
		assign [4]atomic.Int64 // rate of worker k in the round named by turn[k]
		turn   [4]atomic.Int64 // the generation in which worker k calls SetRate (exactly once)
	)
	exited := make(chan struct{}, maxWorkers)
	for k := 0; k < maxWorkers; k++ {
		go func(k int) {
			defer func() { exited <- struct{}{} }()
			seen := int64(0)
			for {
				spins := 0
				for gen.Load() == seen {
					if stop.Load() {
						return
					}
					spins++
					if spins&1023 == 0 {
						runtime.Gosched()
					}
				}
				seen = gen.Load()
				if turn[k].Load() == seen {
					f.SetRate("pc", int(assign[k].Load()))
					done.Add(1)
				}
			}
		}(k)
	}

	deadline := time.Now().Add(d)
	rounds, torn, lost := 0, 0, 0
	var first string
	seed := uint64(0x9E3779B97F4A7C15)
	next := func(n int) int {
		seed ^= seed << 13
		seed ^= seed >> 7
		seed ^= seed << 17
		return int(seed % uint64(n))
	}
	for time.Now().Before(deadline) {
		for burstRounds := 0; burstRounds < 256; burstRounds++ {
			// 2 participants most of the time (tightest alignment), sometimes all workers
			n := 2
			if maxWorkers > 2 && next(4) == 0 {
				n = 2 + next(maxWorkers-1)
			}
			base := next(len(rates))
			var round []int
			for k := 0; k < maxWorkers; k++ {
				if k < n {
					r := rates[(base+k*3)%len(rates)] // distinct for k < 4 (3 is coprime to 8)
					round = append(round, r)
					assign[k].Store(int64(r))
					turn[k].Store(gen.Load() + 1)
				}
			}
			done.Store(0)
			gen.Add(1)
			spins := 0
			for done.Load() != int64(n) {
				if done.Load() > int64(n) {
					t.Fatalf("harness error: %d SetRate calls in a round of %d", done.Load(), n)
				}
				spins++
				if spins&255 == 0 {
					runtime.Gosched()
				}
			}
			// quiescent: every SetRate of this round has returned
			rate, burst, _ := lv.VerifLimiter()
			rounds++
			fromThisRound := false
			for _, r := range round {
				if float64(r) == rate {
					fromThisRound = true
				}
			}
			switch {
			case !fromThisRound:
				lost++
				if first == "" {
					first = fmt.Sprintf("round %d: after concurrent SetRate(pc, r) for r in %v the limiter's rate is %.0f bit/s: the rate of none of them (lost update)", rounds, round, rate)
				}
			case burst != burstFor(int(rate), interval):
				torn++
				if first == "" {
					first = fmt.Sprintf("round %d: after concurrent SetRate(pc, r) for r in %v had all returned the limiter has rate %.0f bit/s with burst %d bit; the burst of that rate at a %v interval is %d bit (the burst is the one of SetRate(%d)): rate and burst come from different calls, the state of no serial order",
						rounds, round, rate, burst, interval, burstFor(int(rate), interval), burstOwner(round, burst, interval))
				}
			}
		}
	}
	stop.Store(true)
	for k := 0; k < maxWorkers; k++ {
		<-exited
	}
	// the twin interceptor of the same factory was never addressed
	if lvOther != nil {
		if r, b, _ := lvOther.VerifLimiter(); r != 2_000_000 || b != burstFor(2_000_000, interval) {
			t.Errorf("CONSERVATION setrate-pairs: SetRate(\"pc\", ...) changed the limiter of interceptor \"other\" of the same factory: rate %.0f burst %d", r, b)
		}
	}
	fmt.Printf("stress conserve-setrate-pairs rounds=%d workers<=%d torn=%d lost=%d\n", rounds, maxWorkers, torn, lost)
	if torn+lost != 0 {
		t.Errorf("CONSERVATION setrate-pairs: %d torn and %d lost updates in %d barrier-released rounds of concurrent SetRate on one interceptor; first: %s", torn, lost, rounds, first)
	}
}

func burstOwner(round []int, burst int, interval time.Duration) int {
	for _, r := range round {
		if burstFor(r, interval) == burst {
			return r
		}
	}
	return -1
}

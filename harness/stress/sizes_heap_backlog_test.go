package stress

// C12 — "memory retained in steady state is bounded by configuration / bound streams and does not grow with the
// number of packets processed": NEVER-QUITE-DRAINED steady states, measured in heap bytes.
//
// The `sizes` correspondence and the other TestConserveSizes* tests count the entries of the containers a VerifSizes
// accessor can reach.  What C12 promises is about MEMORY, and two things escape an entry count: containers that are
// locals of a goroutine (the pacing queue of the pacing interceptor's loop) and the capacity behind a container that
// holds few entries (a slice that is only ever re-sliced, a free list).  Both only matter in one kind of workload,
// which is also the ordinary one for a sender under congestion control: the queue is busy for a long time without
// ever becoming completely empty (the application offers at least the pacing rate), so "start again from an empty
// container" never happens.  For every interceptor kind with a queue or a history such a steady state is run for
// several hundred thousand packets and the live heap (runtime.ReadMemStats.HeapAlloc after two runtime.GC()) is
// taken after a warm-up, after half of the run and at its end, each time in the SAME logical state (same number of
// packets waiting).  The growth over either half must stay below 2 MiB - the states hold a few thousand small
// packets; a container that keeps 8 bytes per processed packet would show 1 MiB per half in the quick tier already.
//
//   pacing interceptor   rate R (the bottleneck: far below what the pacing goroutine can move), a producer that keeps written-delivered between a low and a high mark, both well
//                        above what one tick may release (the bucket's burst), so that the loop's queue is non-empty
//                        at the end of every tick.  For a measurement the rate is lowered to 1 bit/s through the
//                        public SetRate (a congestion controller cutting the rate; nothing is released any more, the
//                        backlog stays), the backlog is topped up to exactly the high mark, the heap is read, the rate
//                        is restored.  At the end the rate is raised and every accepted packet must have arrived at
//                        the next writer exactly once and in order (C17's recount, for free).
//   gcc.LeakyBucketPacer the same with SetTargetBitrate(0) as the freeze (pooled payload buffers, list queue).
//   jitter buffer        an endless stream with small reorderings and a consumer that pops: start-up depth waiting.
//   NACK responder       an endless stream with NACKs for recent packets: a full ring per stream.
//
// The runs are deterministic in what they hold at the measuring points; goroutine scheduling only decides whether
// the backlog was really sustained (the lowest written-delivered seen by the next writer is printed: `minout`).

import (
	"fmt"
	"runtime"
	"sync/atomic"
	"testing"
	"time"

	"github.com/pion/interceptor"
	"github.com/pion/interceptor/pkg/gcc"
	"github.com/pion/interceptor/pkg/jitterbuffer"
	"github.com/pion/interceptor/pkg/nack"
	"github.com/pion/interceptor/pkg/pacing"
	"github.com/pion/rtcp"
	"github.com/pion/rtp"
)

const heapGrowthBound = 2 << 20

func liveHeap() int64 {
	runtime.GC()
	runtime.GC()
	var m runtime.MemStats
	runtime.ReadMemStats(&m)
	return int64(m.HeapAlloc)
}

func heapPhases() (warm, half int) {
	if *fMillis >= 1000 {
		return 20000, 400000
	}
	return 20000, 150000
}

func checkHeapGrowth(t *testing.T, name string, h0, h1, h2 int64, half int, extra string) {
	fmt.Printf("stress conserve-sizes-heap-%s packets=2x%d heap0=%d first-half=%+d second-half=%+d %s\n", name, half, h0, h1-h0, h2-h1, extra)
	if h1-h0 > heapGrowthBound || h2-h1 > heapGrowthBound || h2-h0 > heapGrowthBound {
		t.Errorf("CONSERVATION sizes-heap-%s: the live heap (HeapAlloc after GC, same number of packets waiting at every measuring point) grew by %d bytes over the first %d packets and by %d bytes over the second %d packets of a never-drained steady state (bound %d): memory grows with the number of packets processed (%s)",
			name, h1-h0, half, h2-h1, half, heapGrowthBound, extra)
	}
}

// backlogSystem: a queueing component driven through its public API.
type backlogSystem struct {
	name      string
	write     func(n uint32) error // packet number n (carried in the timestamp)
	freeze    func()               // nothing is released any more; the backlog stays
	resume    func()               // back to the steady rate
	flush     func()               // release everything that waits
	delivered *atomic.Int64
	low, high int64 // marks for written-delivered; low is well above what one tick may release
	scale     float64 // of the number of packets (slow consumers run fewer)
}

func runSustainedBacklog(t *testing.T, s backlogSystem, minOut *atomic.Int64, accepted *atomic.Int64) {
	warm, half := heapPhases()
	half = int(float64(half) * s.scale)
	var n uint32
	writeOne := func() {
		if err := s.write(n); err != nil {
			t.Fatalf("%s: Write %d: %v", s.name, n, err)
		}
		n++
		accepted.Add(1)
	}
	stalled := func(since time.Time) bool {
		if time.Since(since) > 20*time.Second {
			t.Errorf("CONSERVATION sizes-heap-%s: no progress for 20 s: accepted=%d delivered=%d", s.name, accepted.Load(), s.delivered.Load())
			return true
		}
		return false
	}
	phase := func(count int) bool {
		target := accepted.Load() + int64(count)
		last := time.Now()
		for accepted.Load() < target {
			out := accepted.Load() - s.delivered.Load()
			if out < s.low {
				for k := out; k < s.high; k++ {
					writeOne()
				}
				last = time.Now()
			} else {
				runtime.Gosched()
				if stalled(last) {
					return false
				}
			}
		}
		return true
	}
	measure := func() int64 {
		s.freeze()
		// wait until nothing moves any more
		for d := s.delivered.Load(); ; {
			time.Sleep(12 * time.Millisecond)
			d2 := s.delivered.Load()
			if d2 == d {
				break
			}
			d = d2
		}
		for accepted.Load()-s.delivered.Load() < s.high {
			writeOne()
		}
		time.Sleep(5 * time.Millisecond) // hand-over to the component's goroutine
		h := liveHeap()
		s.resume()
		return h
	}
	if !phase(warm) {
		return
	}
	minOut.Store(1 << 40) // from here on the backlog has to hold
	h0 := measure()
	if !phase(half) {
		return
	}
	h1 := measure()
	if !phase(half) {
		return
	}
	h2 := measure()
	low := minOut.Load()
	s.flush()
	start := time.Now()
	for s.delivered.Load() < accepted.Load() && !stalled(start) {
		time.Sleep(time.Millisecond)
	}
	time.Sleep(10 * time.Millisecond)
	checkHeapGrowth(t, s.name, h0, h1, h2, half, fmt.Sprintf("accepted=%d delivered=%d minout=%d", accepted.Load(), s.delivered.Load(), low))
	if s.delivered.Load() != accepted.Load() {
		t.Errorf("CONSERVATION sizes-heap-%s: %d packets accepted, %d delivered to the next writer after the rate was raised", s.name, accepted.Load(), s.delivered.Load())
	}
}

// next writer shared by the two pacers: counts, checks the order, tracks the lowest written-delivered it saw.
func backlogSink(t *testing.T, name string, delivered, accepted, minOut *atomic.Int64) interceptor.RTPWriter {
	var failed atomic.Bool
	return interceptor.RTPWriterFunc(func(h *rtp.Header, p []byte, _ interceptor.Attributes) (int, error) {
		d := delivered.Load()
		if int64(h.Timestamp) != d&0xFFFFFFFF && !failed.Swap(true) {
			t.Errorf("CONSERVATION sizes-heap-%s: delivery %d carries packet number %d (out of order, lost or duplicated)", name, d, h.Timestamp)
		}
		a := accepted.Load()
		delivered.Store(d + 1)
		if out := a - (d + 1); out < minOut.Load() {
			minOut.Store(out)
		}
		return h.MarshalSize() + len(p), nil
	})
}

func TestConserveSizesHeapPacingBacklog(t *testing.T) {
	// 1 ms ticks: burst 24000 bit = 93 packets of 32 bytes per tick, 93000 packets/s: the RATE must be what limits the
	// interceptor (far below what its goroutine can move, also under the race detector), otherwise the packets wait
	// in the hand-over channel and the pacing queue proper runs empty at every tick
	const rate = 24_000_000
	f := pacing.NewInterceptor(pacing.Interval(time.Millisecond), pacing.InitialRate(rate))
	ic := must(f.NewInterceptor("pc"))
	defer func() { _ = ic.Close() }()
	var delivered, accepted, minOut atomic.Int64
	w := ic.BindLocalStream(info(1), backlogSink(t, "pacing", &delivered, &accepted, &minOut))
	payload := make([]byte, 20)
	runSustainedBacklog(t, backlogSystem{
		name: "pacing",
		write: func(n uint32) error {
			_, err := w.Write(&rtp.Header{Version: 2, SSRC: 1, PayloadType: 96, SequenceNumber: uint16(n), Timestamp: n}, payload, nil)
			return err
		},
		freeze:    func() { f.SetRate("pc", 1) },
		resume:    func() { f.SetRate("pc", rate) },
		flush:     func() { f.SetRate("pc", 2_000_000_000) },
		delivered: &delivered, low: 3000, high: 5000, scale: 0.67,
	}, &minOut, &accepted)
}

func TestConserveSizesHeapLeakyBacklog(t *testing.T) {
	const rate = 32_000_000 // 5 ms ticks: 20000 bytes = 625 packets of 32 bytes per tick (125000 packets/s)
	p := gcc.NewLeakyBucketPacer(rate)
	defer func() { _ = p.Close() }()
	var delivered, accepted, minOut atomic.Int64
	p.AddStream(1, backlogSink(t, "leaky", &delivered, &accepted, &minOut))
	payload := make([]byte, 20)
	set := func(r int) { p.SetTargetBitrate(int(float64(r) / 1.5)) } // the pacer sends at 1.5 times its target
	runSustainedBacklog(t, backlogSystem{
		name: "leaky",
		write: func(n uint32) error {
			_, err := p.Write(&rtp.Header{Version: 2, SSRC: 1, PayloadType: 96, SequenceNumber: uint16(n), Timestamp: n}, payload, nil)
			return err
		},
		freeze: func() { p.SetTargetBitrate(0) },
		resume: func() {
			// the budget of the first tick after a pause is (time since the last packet) x rate: restart slowly
			d := delivered.Load()
			set(8000)
			for until := time.Now().Add(200 * time.Millisecond); delivered.Load() == d && time.Now().Before(until); {
				time.Sleep(time.Millisecond)
			}
			time.Sleep(6 * time.Millisecond)
			set(rate)
		},
		flush:     func() { set(2_000_000_000) },
		delivered: &delivered, low: 8000, high: 12000, scale: 0.6,
	}, &minOut, &accepted)
}

// jitter buffer interceptor: an endless stream in which every tenth pair of packets arrives swapped; every Read
// pushes one packet and (once playing) pops one, so the start-up depth of 50 packets waits for ever.  The three
// measuring points are whole cycles of the 16-bit sequence number apart: what the queue keeps is periodic in the
// sequence number (a popped head node stays linked from its successor's prev pointer until the numbers wrap: up to
// 65536 empty nodes, 2 MiB - bounded, an observation, not a violation), so equal phases are compared.
func TestConserveSizesHeapJitter(t *testing.T) {
	warm, half := heapPhases()
	half = (half + 65535) / 65536 * 65536
	f := must(jitterbuffer.NewInterceptor())
	ic := must(f.NewInterceptor("c"))
	defer func() { _ = ic.Close() }()
	var k uint32
	r := ic.BindRemoteStream(info(1), interceptor.RTPReaderFunc(func(b []byte, a interceptor.Attributes) (int, interceptor.Attributes, error) {
		k++
		seq := k
		switch k % 20 { // 10 <-> 11 swapped
		case 10:
			seq = k + 1
		case 11:
			seq = k - 1
		}
		p := rtp.Packet{Header: rtp.Header{Version: 2, SSRC: 1, PayloadType: 96, SequenceNumber: uint16(seq), Timestamp: seq * 90}, Payload: []byte{1, 2, 3, 4, 5, 6, 7, 8}}
		n, err := p.MarshalTo(b)
		return n, a, err
	}))
	ji, _ := ic.(*jitterbuffer.ReceiverInterceptor)
	buf := make([]byte, 1500)
	popped := 0
	run := func(n int) {
		for i := 0; i < n; i++ {
			if _, _, err := r.Read(buf, interceptor.Attributes{}); err == nil {
				popped++
			}
		}
	}
	run(warm)
	h0 := liveHeap()
	run(half)
	h1 := liveHeap()
	run(half)
	h2 := liveHeap()
	checkHeapGrowth(t, "jitter", h0, h1, h2, half, fmt.Sprintf("reads=%d popped=%d waiting=%d", k, popped, ji.VerifSizes()["nodes"]))
}

// NACK responder: an endless stream on two bound streams, a NACK for eight recent packets every 64 packets (the
// retransmissions go to the next writer): one full ring per stream for ever.
func TestConserveSizesHeapResponder(t *testing.T) {
	warm, half := heapPhases()
	f := must(nack.NewResponderInterceptor(nack.ResponderSize(1024)))
	ic := must(f.NewInterceptor("c"))
	defer func() { _ = ic.Close() }()
	var down atomic.Int64
	sink := interceptor.RTPWriterFunc(func(h *rtp.Header, p []byte, _ interceptor.Attributes) (int, error) {
		down.Add(1)
		return h.MarshalSize() + len(p), nil
	})
	ws := []interceptor.RTPWriter{ic.BindLocalStream(info(1), sink), ic.BindLocalStream(info(2), sink)}
	var pending []byte
	rd := ic.BindRTCPReader(interceptor.RTCPReaderFunc(func(b []byte, a interceptor.Attributes) (int, interceptor.Attributes, error) {
		return copy(b, pending), a, nil
	}))
	scratch := make([]byte, 1500)
	payload := make([]byte, 40)
	var n uint32
	run := func(count int) {
		for i := 0; i < count; i++ {
			n++
			s := int(n % 2)
			seq := uint16(n / 2)
			_, _ = ws[s].Write(&rtp.Header{Version: 2, SSRC: uint32(s + 1), PayloadType: 96, SequenceNumber: seq, Timestamp: n * 45}, payload, interceptor.Attributes{})
			if n%64 == 0 {
				pending = must(rtcp.Marshal([]rtcp.Packet{&rtcp.TransportLayerNack{SenderSSRC: 9, MediaSSRC: uint32(s + 1),
					Nacks: []rtcp.NackPair{{PacketID: seq - 20, LostPackets: 0x7f}}}}))
				_, _, _ = rd.Read(scratch, interceptor.Attributes{})
			}
		}
	}
	run(warm)
	h0 := liveHeap()
	run(half)
	h1 := liveHeap()
	run(half)
	h2 := liveHeap()
	ri, _ := ic.(*nack.ResponderInterceptor)
	checkHeapGrowth(t, "responder", h0, h1, h2, half, fmt.Sprintf("writes=%d to-next-writer=%d used=%d", n, down.Load(), ri.VerifSizes()["used"]))
}

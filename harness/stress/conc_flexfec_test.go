package stress

// C14 with real goroutines: several goroutines write media packets of the SAME bound local stream
// through the FEC interceptor with the real FlexFEC-03 encoder (the per-stream mutex of the interceptor
// exists for exactly this use; the encoder itself keeps state across batches: coverage table, repair
// sequence counter, pooled scratch buffers).  The clauses of the property that must survive it:
//   - "XOR-decoding a repair packet per the FlexFEC-03 procedure with all but one of the packets named
//     in its mask reconstructs the missing packet byte for byte" and "the mask names exactly the packets
//     that were combined": every repair packet that reaches the next writer is parsed (SN base + masks)
//     and the draft's recovery is run against the media packets it names, once per named packet;
//   - "repair packets carry the FEC SSRC and payload type with sequence numbers increasing by one":
//     over the whole run the repair sequence numbers are 1000, 1001, ... each exactly once;
//   - "media packets pass through unmodified".
// Every media packet is a function of its sequence number (header shape, timestamp, CSRCs, extension,
// payload length and bytes), so the checker needs no record of what was written.  With NumMediaPackets = 1
// every batch is consecutive whatever the interleaving; with 2 and 3 the writers (which draw sequence
// numbers from one atomic counter) produce consecutive batches only some of the time, the encoder
// rejects the others (no repair packet, no sequence number consumed) and the same checks apply to what
// is emitted.  The recovery below is written from draft-ietf-payload-flexible-fec-scheme-03 section 6.3
// and shares no code with the encoder.
//
// Sampling / search support, never a proof: Props/C14.lean proves recovery for the sequential encoder
// model; that at most one batch is inside the encoder at a time is the lock's job, this run observes it.

import (
	"encoding/binary"
	"fmt"
	"sync"
	"sync/atomic"
	"testing"
	"time"

	"github.com/pion/interceptor"
	"github.com/pion/interceptor/pkg/flexfec"
	"github.com/pion/rtp"
)

const (
	fecMediaSSRC = uint32(1)
	fecFirstSeq  = uint32(64000) // the media sequence numbers cross the 16-bit wrap early
)

// fecMedia is media packet number seq: everything is a function of the 16-bit sequence number.
func fecMedia(seq uint16) *rtp.Packet {
	h := rtp.Header{Version: 2, SSRC: fecMediaSSRC, PayloadType: 96, SequenceNumber: seq,
		Timestamp: 0x9E3779B1 * (uint32(seq) + 1), Marker: seq%5 == 0}
	for c := 0; c < int(seq%3); c++ {
		h.CSRC = append(h.CSRC, uint32(seq)*31+uint32(c))
	}
	if seq%2 == 1 {
		h.Extension, h.ExtensionProfile = true, 0xBEDE
		_ = h.SetExtension(5, []byte{byte(seq >> 8), byte(seq)})
	}
	payload := make([]byte, 40+int(seq%7)*150+int(seq%13))
	x := uint32(seq)*2654435761 + 12345
	for i := range payload {
		x = x*1664525 + 1013904223
		payload[i] = byte(x >> 24)
	}
	return &rtp.Packet{Header: h, Payload: payload}
}

type fecRepair struct {
	seq     uint16
	pt      uint8
	payload []byte
}

// fecProtected parses the FlexFEC-03 header: sequence numbers named by SN base + masks, header length.
func fecProtected(p []byte) (seqs []uint16, hdrLen int, err string) {
	if len(p) < 20 {
		return nil, 0, "shorter than the 20-byte FEC header"
	}
	if p[0]&0xC0 != 0 {
		return nil, 0, "R/F bits set"
	}
	if p[8] != 1 || binary.BigEndian.Uint32(p[12:16]) != fecMediaSSRC {
		return nil, 0, fmt.Sprintf("SSRC count %d / protected SSRC %d", p[8], binary.BigEndian.Uint32(p[12:16]))
	}
	base := binary.BigEndian.Uint16(p[16:18])
	m1 := binary.BigEndian.Uint16(p[18:20])
	for j := 0; j < 15; j++ {
		if m1&(1<<(14-j)) != 0 {
			seqs = append(seqs, base+uint16(j))
		}
	}
	hdrLen = 20
	if m1&0x8000 == 0 {
		if len(p) < 24 {
			return nil, 0, "k bit clear but no second mask"
		}
		m2 := binary.BigEndian.Uint32(p[20:24])
		for j := 0; j < 31; j++ {
			if m2&(1<<(30-j)) != 0 {
				seqs = append(seqs, base+15+uint16(j))
			}
		}
		hdrLen = 24
		if m2&0x80000000 == 0 {
			if len(p) < 32 {
				return nil, 0, "k bit clear but no third mask"
			}
			m3 := binary.BigEndian.Uint64(p[24:32])
			for j := 0; j < 63; j++ {
				if m3&(1<<(62-j)) != 0 {
					seqs = append(seqs, base+46+uint16(j))
				}
			}
			hdrLen = 32
		}
	}
	if len(seqs) == 0 {
		return nil, 0, "empty mask"
	}
	return seqs, hdrLen, ""
}

// fecRecover: draft-03 section 6.3 - rebuild the packet `missing` from the repair payload and the other protected packets.
func fecRecover(repair []byte, hdrLen int, others [][]byte, missing uint16) []byte {
	var b01 [2]byte
	var ts [4]byte
	copy(b01[:], repair[0:2])
	copy(ts[:], repair[4:8])
	length := binary.BigEndian.Uint16(repair[2:4])
	body := append([]byte(nil), repair[hdrLen:]...)
	for _, m := range others {
		b01[0] ^= m[0]
		b01[1] ^= m[1]
		length ^= uint16(len(m) - 12)
		for i := 0; i < 4; i++ {
			ts[i] ^= m[4+i]
		}
		for i := 12; i < len(m) && i-12 < len(body); i++ {
			body[i-12] ^= m[i]
		}
	}
	if int(length) > len(body) {
		return nil
	}
	out := make([]byte, 12, 12+int(length))
	out[0] = b01[0]&0x3F | 0x80
	out[1] = b01[1]
	binary.BigEndian.PutUint16(out[2:4], missing)
	copy(out[4:8], ts[:])
	copy(out[8:12], repair[12:16])
	return append(out, body[:length]...)
}

func runConserveFlexFec(t *testing.T, media, fec uint32, writers int, d time.Duration) {
	name := fmt.Sprintf("%dx%d", media, fec)
	f, err := flexfec.NewFecInterceptor(flexfec.NumMediaPackets(media), flexfec.NumFECPackets(fec))
	if err != nil {
		t.Fatal(err)
	}
	ic, err := f.NewInterceptor("c")
	if err != nil {
		t.Fatal(err)
	}
	var mu sync.Mutex
	var repairs []fecRepair
	var mediaOut, mediaAltered, foreign int
	si := info(fecMediaSSRC)
	w := ic.BindLocalStream(si, interceptor.RTPWriterFunc(func(h *rtp.Header, p []byte, _ interceptor.Attributes) (int, error) {
		switch h.SSRC {
		case si.SSRCForwardErrorCorrection:
			cp := append([]byte(nil), p...)
			mu.Lock()
			repairs = append(repairs, fecRepair{seq: h.SequenceNumber, pt: h.PayloadType, payload: cp})
			mu.Unlock()
		case fecMediaSSRC:
			want := fecMedia(h.SequenceNumber)
			same := h.Timestamp == want.Timestamp && h.Marker == want.Marker && len(h.CSRC) == len(want.CSRC) && string(p) == string(want.Payload)
			mu.Lock()
			mediaOut++
			if !same {
				mediaAltered++
			}
			mu.Unlock()
		default:
			mu.Lock()
			foreign++
			mu.Unlock()
		}
		return len(p), nil
	}))
	var next atomic.Uint32
	next.Store(fecFirstSeq)
	deadline := time.Now().Add(d)
	var wg sync.WaitGroup
	start := make(chan struct{})
	for g := 0; g < writers; g++ {
		wg.Add(1)
		go func() {
			defer wg.Done()
			<-start
			for time.Now().Before(deadline) {
				for i := 0; i < 20; i++ {
					// at most 60000 packets per run: a 16-bit media number then names one packet of the run
					s := next.Add(1) - 1
					if s >= fecFirstSeq+60000 {
						return
					}
					m := fecMedia(uint16(s))
					_, _ = w.Write(&m.Header, m.Payload, interceptor.Attributes{})
				}
			}
		}()
	}
	close(start)
	wg.Wait()
	_ = ic.Close()
	written := next.Load() - fecFirstSeq
	if written > 60000 {
		written = 60000
	}
	fail := func(format string, args ...any) {
		t.Errorf("CONSERVATION flexfec-parallel-writers (%d media x %d FEC, %d writers on one stream): "+format,
			append([]any{media, fec, writers}, args...)...)
	}
	fmt.Printf("stress conserve-flexfec-parallel/%s writers=%d media=%d repair=%d\n", name, writers, written, len(repairs))
	if mediaOut != int(written) || mediaAltered != 0 || foreign != 0 {
		fail("%d media packets written, %d reached the next writer, %d of them altered, %d packets with a foreign SSRC", written, mediaOut, mediaAltered, foreign)
	}
	// (a) repair sequence numbers: 1000, 1001, ... each once
	count := map[uint16]int{}
	for _, r := range repairs {
		count[r.seq]++
	}
	if len(repairs) >= 65536 {
		t.Logf("more than 65535 repair packets: sequence check skipped")
	} else {
		dup, missing := 0, 0
		example := -1
		for i := 0; i < len(repairs); i++ {
			switch n := count[uint16(1000+i)]; {
			case n == 0:
				missing++
				if example < 0 {
					example = 1000 + i
				}
			case n > 1:
				dup += n - 1
				if example < 0 {
					example = 1000 + i
				}
			}
		}
		if dup != 0 || missing != 0 {
			fail("the %d repair packets do not carry the sequence numbers 1000..%d once each: %d duplicates, %d missing (e.g. %d, seen %d times)",
				len(repairs), 1000+len(repairs)-1, dup, missing, example, count[uint16(example)])
		}
	}
	// (b) every repair packet recovers each packet it names from the others
	bad := 0
	firstBad := ""
	note := func(r fecRepair, msg string) {
		bad++
		if firstBad == "" {
			firstBad = fmt.Sprintf("repair packet seq=%d: %s", r.seq, msg)
		}
	}
	marshalled := map[uint16][]byte{}
	get := func(s uint16) []byte {
		if b, ok := marshalled[s]; ok {
			return b
		}
		b, err := fecMedia(s).Marshal()
		if err != nil {
			panic(err)
		}
		marshalled[s] = b
		return b
	}
	for _, r := range repairs {
		if r.pt != si.PayloadTypeForwardErrorCorrection {
			note(r, fmt.Sprintf("payload type %d", r.pt))
			continue
		}
		seqs, hdrLen, perr := fecProtected(r.payload)
		if perr != "" {
			note(r, perr)
			continue
		}
		ok := true
		maxBody := 0
		for _, s := range seqs {
			if uint32(s-uint16(fecFirstSeq)) >= written {
				note(r, fmt.Sprintf("names media packet %d, which was never written", s))
				ok = false
				break
			}
			if n := len(get(s)) - 12; n > maxBody {
				maxBody = n
			}
		}
		if !ok {
			continue
		}
		if uint32(len(seqs)) > media {
			note(r, fmt.Sprintf("names %d packets, a batch has %d", len(seqs), media))
			continue
		}
		if len(r.payload) != hdrLen+maxBody {
			note(r, fmt.Sprintf("names %v: payload has %d bytes after the FEC header, the longest named packet has %d after its fixed header", seqs, len(r.payload)-hdrLen, maxBody))
			continue
		}
		for i, miss := range seqs {
			var others [][]byte
			for j, s := range seqs {
				if j != i {
					others = append(others, get(s))
				}
			}
			if rec := fecRecover(r.payload, hdrLen, others, miss); string(rec) != string(get(miss)) {
				note(r, fmt.Sprintf("names %v: recovering %d from the repair packet and the other named packets does not give packet %d back (%d bytes recovered, %d sent)",
					seqs, miss, miss, len(rec), len(get(miss))))
				break
			}
		}
	}
	if bad != 0 {
		fail("%d of %d repair packets do not recover the media packets their header names; first: %s", bad, len(repairs), firstBad)
	}
}

func TestConserveFlexFecParallelWriters(t *testing.T) {
	d := time.Duration(*fMillis) * time.Millisecond
	for _, c := range []struct {
		media, fec uint32
		writers    int
	}{{1, 1, 4}, {2, 1, 3}, {3, 2, 2}} {
		c := c
		t.Run(fmt.Sprintf("%dx%d", c.media, c.fec), func(t *testing.T) { runConserveFlexFec(t, c.media, c.fec, c.writers, d) })
	}
}

package stress

// C14 with real goroutines, several streams, and one application that writes packets pion/rtp cannot marshal.
//
// "Each repair packet XOR-decodes to the missing media packet byte for byte" is said about every repair packet of every
// stream.  The encoders of different streams (and of different peer connections) share nothing but the package-global
// sync.Pool of scratch buffers; what one stream is offered must not show in the repair packets of another.  Here
//   - healthy streams — two FlexEncoder03 driven directly, two bound streams of two FEC interceptors made by one
//     factory — encode batch after batch of well-formed packets of every size (padding-only probes, one payload byte
//     plus 255 bytes of padding, CSRCs, extensions, payloads up to beyond the 1500-byte scratch buffer), each on its
//     own goroutine;
//   - one or two sick streams keep offering batches in which one packet cannot be marshalled, in the ways
//     rtp.Packet.MarshalTo can fail: before a byte is written (padding bit, padding size 0) and after the fixed header,
//     the CSRCs and the extension profile were written (generic-profile extension whose payload is not a multiple of
//     four bytes; a first SetExtension of 256 bytes or more).
// Every repair packet that any stream emits is parsed (SN base + masks) and the draft's recovery (section 6.3; shares no
// code with the encoder) is run against the packets it names, once per named packet; a repair packet of a sick stream
// may not name the packet that could not be marshalled (the unchanged encoder does not emit it).  The repair sequence
// numbers of every stream are 1000, 1001, … without gaps.
//
// Sampling / search support, never a proof.

import (
	"fmt"
	"sync"
	"sync/atomic"
	"testing"
	"time"

	"github.com/pion/interceptor"
	"github.com/pion/interceptor/pkg/flexfec"
	"github.com/pion/rtp"
)

// fecMediaU is media packet number seq of stream w: a function of (w, seq).  A third of the packets are the short and
// padded ones (their padding area is where bytes of a foreign packet would show), some exceed the scratch buffer.
func fecMediaU(w int, seq uint16) *rtp.Packet {
	x := uint32(seq)*2654435761 + uint32(w)*40503 + 977
	next := func() uint32 { x = x*1664525 + 1013904223; return x >> 8 }
	h := rtp.Header{Version: 2, SSRC: fecMediaSSRC, PayloadType: uint8(96 + w%8), SequenceNumber: seq,
		Timestamp: 0x9E3779B1*(uint32(seq)+1) + uint32(w), Marker: next()%5 == 0}
	var payload []byte
	fill := func(n int) {
		payload = make([]byte, n)
		for i := range payload {
			payload[i] = byte(next())
		}
	}
	switch next() % 9 {
	case 0: // padding-only probe
		h.Padding, h.PaddingSize = true, 255
	case 1:
		fill(1)
		h.Padding, h.PaddingSize = true, 255
	case 2:
		h.Padding, h.PaddingSize = true, byte(1+next()%200)
	case 3: // near and beyond the scratch buffer
		for c := 0; c < int(next()%3); c++ {
			h.CSRC = append(h.CSRC, next())
		}
		h.Extension, h.ExtensionProfile = true, 0xBEDE
		_ = h.SetExtension(3, []byte{byte(next()), byte(next()), byte(next())})
		fill(1455 + int(next()%60))
	default:
		for c := 0; c < int(next()%4); c++ {
			h.CSRC = append(h.CSRC, next())
		}
		if next()%2 == 1 {
			h.Extension, h.ExtensionProfile = true, 0xBEDE
			_ = h.SetExtension(5, []byte{byte(seq >> 8), byte(seq)})
		}
		fill(int(next() % 300))
		if next()%3 == 0 {
			h.Padding, h.PaddingSize = true, byte(1+next()%60)
		}
	}
	return &rtp.Packet{Header: h, Payload: payload}
}

// fecSpoil turns a well-formed packet into one pion/rtp cannot marshal (public API only).
func fecSpoil(p *rtp.Packet, how int) {
	ext := func(n int) []byte {
		b := make([]byte, n)
		for i := range b {
			b[i] = byte(0xC3 + 5*i)
		}
		return b
	}
	switch how % 4 {
	case 0:
		p.Padding, p.Header.PaddingSize = true, 0
	case 1:
		p.Extension, p.ExtensionProfile, p.Extensions = true, 0x4321, nil
		p.CSRC = []uint32{0xDEADBEEF, 0xCAFEF00D, 0x0BADF00D}
		_ = p.SetExtension(0, ext(3))
	case 2:
		p.Extension, p.ExtensionProfile, p.Extensions = false, 0, nil
		_ = p.SetExtension(0, ext(257))
	default:
		p.Extension, p.ExtensionProfile, p.Extensions = true, 0xABCD, nil
		p.CSRC = append(p.CSRC[:0:0], 0xFFFFFFFF, 0xEEEEEEEE, 0xDDDDDDDD, 0xCCCCCCCC, 0xBBBBBBBB, 0xAAAAAAAA, 0x99999999)
		_ = p.SetExtension(0, ext(1501))
	}
}

// fecUStream is one stream of the run: what it offered (marshalled, nil = could not be marshalled) and what it found.
type fecUStream struct {
	name      string
	sent      map[uint16][]byte
	unmarsh   map[uint16]bool
	repairs   int
	checked   int
	nextFec   uint16
	seqBroken string
	bad       int
	firstBad  string
}

func newFecUStream(name string) *fecUStream {
	return &fecUStream{name: name, sent: map[uint16][]byte{}, unmarsh: map[uint16]bool{}, nextFec: 1000}
}

func (s *fecUStream) note(format string, args ...any) {
	s.bad++
	if s.firstBad == "" {
		s.firstBad = fmt.Sprintf(format, args...)
	}
}

// offer records the packet the stream is about to hand to the encoder.
func (s *fecUStream) offer(p *rtp.Packet) {
	b, err := p.Marshal()
	if err != nil {
		s.unmarsh[p.SequenceNumber] = true
		delete(s.sent, p.SequenceNumber)
	} else {
		s.sent[p.SequenceNumber] = b
		delete(s.unmarsh, p.SequenceNumber)
	}
	delete(s.sent, p.SequenceNumber-300) // the wire check looks back one batch only
	delete(s.unmarsh, p.SequenceNumber-300)
}

// repair checks one repair packet at the moment it is emitted.
func (s *fecUStream) repair(seq uint16, payload []byte) {
	s.repairs++
	if seq != s.nextFec && s.seqBroken == "" {
		s.seqBroken = fmt.Sprintf("repair packet number %d carries sequence number %d, expected %d", s.repairs, seq, s.nextFec)
	}
	s.nextFec = seq + 1
	seqs, hdrLen, perr := fecProtected(payload)
	if perr != "" {
		s.note("repair seq=%d: %s", seq, perr)
		return
	}
	maxBody := 0
	for _, m := range seqs {
		if s.unmarsh[m] {
			s.note("repair seq=%d names media packet %d, which pion/rtp could not marshal", seq, m)
			return
		}
		if s.sent[m] == nil {
			s.note("repair seq=%d names media packet %d, which was not offered", seq, m)
			return
		}
		if n := len(s.sent[m]) - 12; n > maxBody {
			maxBody = n
		}
	}
	if len(payload) != hdrLen+maxBody {
		s.note("repair seq=%d names %v: %d bytes after the FEC header, the longest named packet has %d after its fixed header", seq, seqs, len(payload)-hdrLen, maxBody)
		return
	}
	for i, miss := range seqs {
		var others [][]byte
		for j, m := range seqs {
			if j != i {
				others = append(others, s.sent[m])
			}
		}
		rec := fecRecover(payload, hdrLen, others, miss)
		if string(rec) != string(s.sent[miss]) {
			at := 0
			for at < len(rec) && at < len(s.sent[miss]) && rec[at] == s.sent[miss][at] {
				at++
			}
			s.note("repair seq=%d names %v: recovering %d from it and the other named packets gives %d bytes, sent were %d, first difference at byte %d",
				seq, seqs, miss, len(rec), len(s.sent[miss]), at)
			return
		}
	}
	s.checked++
}

func TestConserveFlexFecUnmarshallable(t *testing.T) {
	d := time.Duration(*fMillis) * time.Millisecond
	deadline := time.Now().Add(d)
	var wg sync.WaitGroup
	start := make(chan struct{})
	var streams []*fecUStream
	var spoiled atomic.Int64

	// a stream that drives FlexEncoder03 directly; sick > 0: one packet of every sick-th batch cannot be marshalled
	direct := func(w, n int, f uint32, sick int) {
		s := newFecUStream(fmt.Sprintf("encoder#%d(%dx%d,sick=%d)", w, n, f, sick))
		streams = append(streams, s)
		wg.Add(1)
		go func() {
			defer wg.Done()
			enc := flexfec.NewFlexEncoder03(uint8(100+w), uint32(5000+w))
			seq := uint16(65000 + w*7)
			<-start
			for batch := 0; time.Now().Before(deadline) && batch < 200000; batch++ {
				ps := make([]rtp.Packet, n)
				for i := range ps {
					ps[i] = *fecMediaU(w, seq)
					seq++
				}
				if sick > 0 && batch%sick == 0 {
					fecSpoil(&ps[(batch/sick)%n], batch/sick/n)
					spoiled.Add(1)
				}
				for i := range ps {
					s.offer(&ps[i])
				}
				for _, r := range enc.EncodeFec(ps, f) {
					if r.SSRC != uint32(5000+w) || r.PayloadType != uint8(100+w) {
						s.note("repair packet with SSRC %d payload type %d", r.SSRC, r.PayloadType)
					}
					s.repair(r.SequenceNumber, r.Payload)
				}
			}
		}()
	}
	// a bound stream of an interceptor: two interceptors from ONE factory, one stream each
	fac, err := flexfec.NewFecInterceptor(flexfec.NumMediaPackets(4), flexfec.NumFECPackets(2))
	if err != nil {
		t.Fatal(err)
	}
	var closers []interceptor.Interceptor
	bound := func(w int, sick int) {
		s := newFecUStream(fmt.Sprintf("interceptor#%d(4x2,sick=%d)", w, sick))
		streams = append(streams, s)
		ic, err := fac.NewInterceptor(fmt.Sprintf("pc%d", w))
		if err != nil {
			t.Fatal(err)
		}
		closers = append(closers, ic)
		si := info(fecMediaSSRC)
		wr := ic.BindLocalStream(si, interceptor.RTPWriterFunc(func(h *rtp.Header, p []byte, _ interceptor.Attributes) (int, error) {
			if h.SSRC == si.SSRCForwardErrorCorrection {
				if h.PayloadType != si.PayloadTypeForwardErrorCorrection {
					s.note("repair packet with payload type %d", h.PayloadType)
				}
				s.repair(h.SequenceNumber, append([]byte(nil), p...))
			}
			return len(p), nil
		}))
		wg.Add(1)
		go func() {
			defer wg.Done()
			seq := uint16(300 * w)
			<-start
			for k := 0; time.Now().Before(deadline) && k < 800000; k++ {
				p := fecMediaU(w, seq)
				seq++
				if sick > 0 && k%sick == 0 {
					fecSpoil(p, k/sick)
					spoiled.Add(1)
				}
				s.offer(p)
				_, _ = wr.Write(&p.Header, p.Payload, interceptor.Attributes{})
			}
		}()
	}
	direct(0, 5, 2, 0)
	direct(1, 3, 3, 0)
	bound(2, 0)
	bound(3, 0)
	direct(4, 4, 2, 1) // every batch has one unmarshallable packet
	bound(5, 3)        // every third packet
	direct(6, 1, 1, 2)
	close(start)
	wg.Wait()
	for _, ic := range closers {
		_ = ic.Close()
	}
	total, checked := 0, 0
	for _, s := range streams {
		total += s.repairs
		checked += s.checked
		if s.bad != 0 {
			t.Errorf("CONSERVATION flexfec-unmarshallable (%d streams encode concurrently, %d unmarshallable packets offered by the sick ones): stream %s: "+
				"%d of %d repair packets do not recover the media packets their header names; first: %s",
				len(streams), spoiled.Load(), s.name, s.bad, s.repairs, s.firstBad)
		}
		if s.seqBroken != "" {
			t.Errorf("CONSERVATION flexfec-unmarshallable: stream %s: repair sequence numbers are not 1000, 1001, …: %s", s.name, s.seqBroken)
		}
		if s.repairs == 0 {
			t.Errorf("CONSERVATION flexfec-unmarshallable: stream %s emitted no repair packet at all", s.name)
		}
	}
	fmt.Printf("stress conserve-flexfec-unmarshallable streams=%d spoiled=%d repair=%d recovered=%d\n", len(streams), spoiled.Load(), total, checked)
}

package stress

// C17 with real goroutines and the real clock (sampling / search support, never a proof): the transport below the
// leaky bucket pacer is SYNCHRONOUS.  While the pacer hands a packet of stream A to A's next writer - in the middle of
// a tick's drain - a stream B is registered (AddStream) and B's first packet is written through the pacer:
//
//	nested   : by A's next writer itself, re-entrantly, on the pacer's goroutine;
//	blocked  : by another goroutine, while A's next writer blocks until that goroutine is done (a slow transport);
//	re-added : as `blocked`, but B was registered before with another writer: B's packet belongs to the NEW writer.
//
// AddStream has returned before the packet is written, and Write accepted the packet (no error), so by C17 "every
// accepted packet is handed to its stream's next writer exactly once while the pacer is open" B's packet reaches B's
// (new) writer exactly once and no other writer.  The trials are hand-shaken, so every one of them hits the window.

import (
	"fmt"
	"sync/atomic"
	"testing"
	"time"

	"github.com/pion/interceptor"
	"github.com/pion/interceptor/pkg/gcc"
	"github.com/pion/rtp"
)

func TestConserveLeakyReenter(t *testing.T) {
	variants := []string{"nested", "blocked", "re-added"}
	hdr := func(ssrc uint32, seq int) *rtp.Header {
		return &rtp.Header{Version: 2, SSRC: ssrc, PayloadType: 96, SequenceNumber: uint16(seq), Timestamp: 90}
	}
	deadline := time.Now().Add(time.Duration(*fMillis) * time.Millisecond)
	trials := 0
	for n := 0; n < len(variants) || time.Now().Before(deadline); n++ {
		variant := variants[n%len(variants)]
		const ssrcA, ssrcB = 1001, 1002
		p := gcc.NewLeakyBucketPacer(400_000_000)
		var gotB, gotOld, gotWrong, gotA atomic.Int32
		var werr atomic.Value
		wB := interceptor.RTPWriterFunc(func(h *rtp.Header, b []byte, _ interceptor.Attributes) (int, error) {
			if h.SSRC == ssrcB {
				gotB.Add(1)
			} else {
				gotWrong.Add(1)
			}
			return h.MarshalSize() + len(b), nil
		})
		wOld := interceptor.RTPWriterFunc(func(h *rtp.Header, b []byte, _ interceptor.Attributes) (int, error) {
			gotOld.Add(1)
			return h.MarshalSize() + len(b), nil
		})
		addB := func() {
			p.AddStream(ssrcB, wB)
			if _, err := p.Write(hdr(ssrcB, n), []byte{9, 8, 7, byte(n)}, interceptor.Attributes{}); err != nil {
				werr.Store(err)
			}
		}
		entered, resume := make(chan struct{}), make(chan struct{})
		wA := interceptor.RTPWriterFunc(func(h *rtp.Header, b []byte, _ interceptor.Attributes) (int, error) {
			if h.SSRC != ssrcA {
				gotWrong.Add(1)
			}
			if gotA.Add(1) == 1 {
				if variant == "nested" {
					addB()
				} else {
					close(entered)
					<-resume // the transport takes its time
				}
			}
			return h.MarshalSize() + len(b), nil
		})
		p.AddStream(ssrcA, wA)
		if variant == "re-added" {
			p.AddStream(ssrcB, wOld)
		}
		done := make(chan struct{})
		go func() {
			defer close(done)
			if variant == "nested" {
				return
			}
			select {
			case <-entered:
			case <-time.After(3 * time.Second):
				close(resume)
				return
			}
			addB()
			close(resume)
		}()
		_, errA := p.Write(hdr(ssrcA, n), []byte{1, 2, 3}, interceptor.Attributes{})
		<-done
		for limit := time.Now().Add(3 * time.Second); gotB.Load() == 0 && time.Now().Before(limit); {
			time.Sleep(500 * time.Microsecond)
		}
		time.Sleep(6 * time.Millisecond) // a second copy would follow at the next tick
		_ = p.Close()
		trials++
		var problem string
		switch {
		case errA != nil || gotA.Load() != 1:
			problem = fmt.Sprintf("stream A's own packet: Write err=%v, handed to A's next writer %d times", errA, gotA.Load())
		case werr.Load() != nil:
			problem = fmt.Sprintf("the write of B's packet after AddStream(B) had returned was refused: %v", werr.Load())
		case gotB.Load() != 1:
			problem = fmt.Sprintf("B's accepted packet (ssrc %d, written after AddStream(B) had returned, while A's next writer was being handed a packet) reached B's next writer %d times, B's previous writer %d times",
				ssrcB, gotB.Load(), gotOld.Load())
		case gotOld.Load() != 0:
			problem = fmt.Sprintf("B's packet was also handed to the writer B had before it was re-added (%d times)", gotOld.Load())
		case gotWrong.Load() != 0:
			problem = fmt.Sprintf("%d packets reached the next writer of another stream", gotWrong.Load())
		}
		if problem != "" {
			t.Errorf("CONSERVATION leaky-reenter (%s, trial %d): %s", variant, n, problem)
			return
		}
	}
	fmt.Printf("stress conserve-leaky-reenter trials=%d\n", trials)
}

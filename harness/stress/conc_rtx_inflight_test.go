package stress

// C13 with real goroutines, the emission that is IN FLIGHT: "once a Write has returned the caller may
// immediately overwrite or reuse the payload slice and header it passed without affecting anything the
// interceptor later emits (retransmissions)".  TestScribbleStress hands the interceptors a caller that
// reuses and scribbles its one header/payload; its downstream writer returns at once, so an emission
// never overlaps later Writes of the caller.  Here the downstream writer is SLOW for emissions that the
// interceptor makes from its own goroutines: a retransmission stays inside the downstream Write while
// the caller writes several times ResponderSize newer packets (each from the same, overwritten, header
// object and payload buffer), so the retransmitted packet leaves the responder's window and whatever
// storage it lived in is recycled for the caller's new packets.  Invariant (from the property): the
// header and payload the downstream writer was handed are, for the whole duration of that Write, the
// bytes of the packet as it was originally sent - checked at the END of the slow Write against a
// content function of the (original) sequence number.  Both retransmission forms are driven: RFC 4588
// (RTX SSRC/PT, original sequence number in front of the payload) and plain re-send.
// The race detector watches the same window (downstream reads vs. the interceptor recycling the storage).
//
// Sampling / search support, never a proof: Props/C13.lean proves noninterference for copying stores on
// a heap model; the lifetime of the responder's pooled copies is C04's refcount theorem.

import (
	"fmt"
	"sync"
	"sync/atomic"
	"testing"
	"time"

	"github.com/pion/interceptor"
	"github.com/pion/interceptor/pkg/nack"
	"github.com/pion/rtcp"
	"github.com/pion/rtp"
)

const rtxOrigKey = "verif-original-write"

func rtxPayloadLen(seq uint16) int   { return 20 + int(seq%200) }
func rtxByte(seq uint16, k int) byte { return byte(int(seq)*13 + k*7 + 1) }
func rtxTimestamp(seq uint16) uint32 { return uint32(seq)*3000 + 7 }

// rtxCheck compares what the downstream writer holds with the packet originally sent as `seq`.
func rtxCheck(h *rtp.Header, payload []byte, seq uint16) string {
	switch {
	case h.Timestamp != rtxTimestamp(seq):
		return fmt.Sprintf("timestamp %d, sent %d", h.Timestamp, rtxTimestamp(seq))
	case h.Marker != (seq&1 == 1):
		return fmt.Sprintf("marker %v, sent %v", h.Marker, seq&1 == 1)
	case len(h.CSRC) != 1 || h.CSRC[0] != uint32(seq)*7:
		return fmt.Sprintf("CSRC %v, sent [%d]", h.CSRC, uint32(seq)*7)
	case len(payload) != rtxPayloadLen(seq):
		return fmt.Sprintf("payload length %d, sent %d", len(payload), rtxPayloadLen(seq))
	}
	if e := h.GetExtension(5); len(e) != 2 || e[0] != byte(seq>>8) || e[1] != byte(seq) {
		return fmt.Sprintf("extension 5 = %x, sent %02x%02x", e, byte(seq>>8), byte(seq))
	}
	for k, b := range payload {
		if b != rtxByte(seq, k) {
			return fmt.Sprintf("payload byte %d = %#x, sent %#x (payload now looks like the packet with sequence number %d)", k, b, rtxByte(seq, k), guessSeq(payload))
		}
	}
	return ""
}

func guessSeq(payload []byte) int {
	for s := 0; s < 65536; s++ {
		if len(payload) == rtxPayloadLen(uint16(s)) && len(payload) > 1 && payload[0] == rtxByte(uint16(s), 0) && payload[1] == rtxByte(uint16(s), 1) {
			return s
		}
	}
	return -1
}

func runRtxInFlight(t *testing.T, size uint16, d time.Duration) {
	f, err := nack.NewResponderInterceptor(nack.ResponderSize(size))
	if err != nil {
		t.Fatal(err)
	}
	ic, err := f.NewInterceptor("c")
	if err != nil {
		t.Fatal(err)
	}
	type stream struct {
		ssrc    uint32
		rtx     bool
		written atomic.Int64 // packets the caller has written (returned Writes)
	}
	streams := []*stream{{ssrc: 1, rtx: true}, {ssrc: 2, rtx: false}}
	stop := make(chan struct{})
	var resent, overlapped atomic.Int64
	var failOnce sync.Once
	fail := func(format string, args ...any) {
		failOnce.Do(func() { t.Errorf("CONSERVATION rtx-in-flight (size %d): "+format, append([]any{size}, args...)...) })
	}
	var wg sync.WaitGroup
	for _, st := range streams {
		st := st
		si := info(st.ssrc)
		if !st.rtx {
			si.SSRCRetransmission, si.PayloadTypeRetransmission = 0, 0
		}
		w := ic.BindLocalStream(si, interceptor.RTPWriterFunc(func(h *rtp.Header, p []byte, a interceptor.Attributes) (int, error) {
			if a.Get(rtxOrigKey) != nil {
				return len(p), nil // the caller's own write passing through
			}
			// a retransmission, on a goroutine of the interceptor: be slow - stay in this Write until the
			// caller has written 3 x size newer packets (bounded), then look at what we were handed
			seq, payload := h.SequenceNumber, p
			if st.rtx {
				if h.SSRC != st.ssrc+1000 || h.PayloadType != 97 || len(p) < 2 {
					fail("SSRC %d: retransmission not in RTX form: ssrc=%d pt=%d len=%d", st.ssrc, h.SSRC, h.PayloadType, len(p))
					return len(p), nil
				}
				seq, payload = uint16(p[0])<<8|uint16(p[1]), p[2:]
			}
			if msg := rtxCheck(h, payload, seq); msg != "" {
				fail("SSRC %d: retransmission of %d differs from the packet sent already when it reaches the next writer: %s", st.ssrc, seq, msg)
				return len(p), nil
			}
			from := st.written.Load()
			deadline := time.Now().Add(3 * time.Millisecond)
		wait:
			for st.written.Load() < from+3*int64(size) && time.Now().Before(deadline) {
				select {
				case <-stop:
					break wait
				default:
					time.Sleep(20 * time.Microsecond)
				}
			}
			if st.written.Load() >= from+int64(size) {
				overlapped.Add(1)
			}
			resent.Add(1)
			if st.rtx {
				if got := uint16(p[0])<<8 | uint16(p[1]); got != seq {
					fail("SSRC %d: the original sequence number in front of the RTX payload changed from %d to %d while the retransmission was inside the next writer (%d newer packets written meanwhile)",
						st.ssrc, seq, got, st.written.Load()-from)
					return len(p), nil
				}
			}
			if msg := rtxCheck(h, payload, seq); msg != "" {
				fail("SSRC %d: retransmission of %d changed while it was inside the next writer (%d newer packets written meanwhile): %s",
					st.ssrc, seq, st.written.Load()-from, msg)
			}
			return len(p), nil
		}))
		// the caller: ONE header object, ONE CSRC array, ONE extension buffer, ONE payload buffer, ONE attributes map
		hdr := &rtp.Header{}
		csrc := make([]uint32, 1)
		ext := make([]byte, 2)
		pay := make([]byte, 256)
		attr := interceptor.Attributes{}
		wg.Add(1)
		go func() {
			defer wg.Done()
			for i := 0; ; i++ {
				select {
				case <-stop:
					return
				default:
				}
				seq := uint16(i)
				*hdr = rtp.Header{Version: 2, SSRC: st.ssrc, PayloadType: 96, SequenceNumber: seq, Timestamp: rtxTimestamp(seq),
					Marker: seq&1 == 1, Extension: true, ExtensionProfile: 0xBEDE, CSRC: csrc}
				csrc[0] = uint32(seq) * 7
				ext[0], ext[1] = byte(seq>>8), byte(seq)
				_ = hdr.SetExtension(5, ext)
				p := pay[:rtxPayloadLen(seq)]
				for k := range p {
					p[k] = rtxByte(seq, k)
				}
				clear(attr)
				attr[rtxOrigKey] = true
				_, _ = w.Write(hdr, p, attr)
				// the call has returned: everything is the caller's again
				for k := range p {
					p[k] = 0xEE
				}
				csrc[0] = 0xEEEEEEEE
				ext[0], ext[1] = 0xEE, 0xEE
				hdr.SequenceNumber ^= 0x5555
				hdr.Timestamp ^= 0x55555555
				st.written.Add(1)
				if i%64 == 0 {
					time.Sleep(20 * time.Microsecond)
				}
			}
		}()
	}
	// NACKs for packets written a moment ago (still inside the window when the request is served)
	var k atomic.Int64
	rtcpR := ic.BindRTCPReader(interceptor.RTCPReaderFunc(func(b []byte, a interceptor.Attributes) (int, interceptor.Attributes, error) {
		i := k.Add(1)
		st := streams[i%2]
		last := uint16(st.written.Load() - 1)
		pkt := &rtcp.TransportLayerNack{SenderSSRC: 77, MediaSSRC: st.ssrc, Nacks: []rtcp.NackPair{{PacketID: last - 2, LostPackets: rtcp.PacketBitmap(i % 4)}}}
		raw, err := rtcp.Marshal([]rtcp.Packet{pkt})
		if err != nil {
			return 0, nil, err
		}
		return copy(b, raw), a, nil
	}))
	wg.Add(1)
	go func() {
		defer wg.Done()
		buf := make([]byte, 1500)
		for {
			select {
			case <-stop:
				return
			default:
			}
			_, _, _ = rtcpR.Read(buf, interceptor.Attributes{})
			time.Sleep(100 * time.Microsecond) // bounds the number of resend goroutines waiting in the slow writer
		}
	}()
	time.Sleep(d)
	close(stop)
	wg.Wait()
	done := make(chan error, 1)
	go func() { done <- ic.Close() }()
	select {
	case <-done:
	case <-time.After(20 * time.Second):
		t.Errorf("DEADLOCK rtx-in-flight: Close did not return within 20 s")
		dumpStacks()
		return
	}
	fmt.Printf("stress rtx-in-flight/%d scribble written=%d+%d retransmissions=%d of-which-outlived-the-window=%d\n",
		size, streams[0].written.Load(), streams[1].written.Load(), resent.Load(), overlapped.Load())
}

// The name starts with TestScribbleStress: C13's stress regex runs it together with the table-driven run.
func TestScribbleStressRtxInFlight(t *testing.T) {
	if *fOnly != "" && *fOnly != "nack-responder" {
		return
	}
	d := time.Duration(*fMillis) * time.Millisecond
	for _, size := range []uint16{8, 64} {
		size := size
		t.Run(fmt.Sprint(size), func(t *testing.T) { runRtxInFlight(t, size, d) })
	}
}

package stress

// C19 — "at EVERY query the counters equal a recount": snapshots taken WHILE traffic flows.
//
// TestConserveCounters compares the counters with the number of writes after the traffic has stopped.
// This test queries during the traffic: one goroutine reads and writes packets of ONE fixed shape
// (12 header bytes, fixed payload) through the stats interceptor, several goroutines call Getter.Get
// all the time.  A recount of every prefix of that traffic satisfies
//
//	BytesReceived       = PacketsReceived x (12 + payload)     BytesSent       = PacketsSent x (12 + payload)
//	HeaderBytesReceived = PacketsReceived x 12                 HeaderBytesSent = PacketsSent x 12
//	PacketsLost         = 0   (consecutive sequence numbers)
//
// so a snapshot that is the recount of SOME prefix (what the property promises for a query that runs
// concurrently with a packet: the packet is either counted or not, in all counters) satisfies them too,
// and successive snapshots seen by one goroutine are recounts of growing prefixes (monotone counters;
// never more than the packets handed in so far).  A snapshot assembled from two different moments
// (torn) breaks the products.  Real goroutines: sampling / search support, never a proof — the
// theorems of Props/C19.lean are about sequential histories.

import (
	"fmt"
	"sync"
	"sync/atomic"
	"testing"
	"time"

	"github.com/pion/interceptor"
	"github.com/pion/interceptor/pkg/stats"
	"github.com/pion/rtcp"
	"github.com/pion/rtp"
)

func TestConcStatsSnapshots(t *testing.T) {
	const (
		ssrc       = uint32(1)
		payloadLen = 100
		pktLen     = 12 + payloadLen
		getters    = 6
	)
	stf, err := stats.NewInterceptor()
	if err != nil {
		t.Fatal(err)
	}
	var getter atomic.Value
	stf.OnNewPeerConnection(func(_ string, g stats.Getter) { getter.Store(g) })
	ic, err := stf.NewInterceptor("c")
	if err != nil {
		t.Fatal(err)
	}
	g, _ := getter.Load().(stats.Getter)
	if g == nil {
		t.Fatal("no stats.Getter")
	}
	payload := make([]byte, payloadLen)
	// handedIn/handedOut: packets given to the interceptor so far (upper bound of every recount)
	var handedIn, handedOut atomic.Uint64
	var rseq uint32
	r := ic.BindRemoteStream(info(ssrc), interceptor.RTPReaderFunc(func(b []byte, a interceptor.Attributes) (int, interceptor.Attributes, error) {
		rseq++
		p := rtp.Packet{Header: rtp.Header{Version: 2, SSRC: ssrc, PayloadType: 96, SequenceNumber: uint16(rseq), Timestamp: rseq * 3000}, Payload: payload}
		n, err := p.MarshalTo(b)
		handedIn.Add(1)
		return n, a, err
	}))
	w := ic.BindLocalStream(info(ssrc), interceptor.RTPWriterFunc(func(*rtp.Header, []byte, interceptor.Attributes) (int, error) { return 0, nil }))
	rw := ic.BindRTCPWriter(interceptor.RTCPWriterFunc(func([]rtcp.Packet, interceptor.Attributes) (int, error) { return 0, nil }))
	// the recorder becomes active asynchronously after Bind (the recount starts then): feed packets until one is counted
	warm := make([]byte, 1500)
	for i := 0; ; i++ {
		if _, _, err := r.Read(warm, interceptor.Attributes{}); err != nil {
			t.Fatal(err)
		}
		if s := g.Get(ssrc); s != nil && s.InboundRTPStreamStats.PacketsReceived > 0 {
			break
		}
		if i > 20000 {
			t.Fatal("the recorder did not become active within 20 s")
		}
		time.Sleep(time.Millisecond)
	}
	base := *g.Get(ssrc)

	var stop atomic.Bool
	var wg sync.WaitGroup
	var reads, writes int
	wg.Add(1)
	go func() { // the traffic: ONE goroutine, so the history is a sequence and "prefix" is well defined
		defer wg.Done()
		buf := make([]byte, 1500)
		for i := 0; !stop.Load(); i++ {
			n, _, err := r.Read(buf, interceptor.Attributes{})
			if err != nil || n != pktLen {
				t.Errorf("read: n=%d err=%v", n, err)
				return
			}
			reads++
			h := &rtp.Header{Version: 2, SSRC: ssrc, PayloadType: 96, SequenceNumber: uint16(i), Timestamp: uint32(i) * 3000}
			handedOut.Add(1)
			if _, err := w.Write(h, payload, nil); err != nil {
				t.Errorf("write: %v", err)
				return
			}
			writes++
			if i%16 == 0 { // RTCP about the stream in between: bumps other counters of the same snapshot
				_, _ = rw.Write([]rtcp.Packet{&rtcp.PictureLossIndication{SenderSSRC: 9, MediaSSRC: ssrc}}, nil)
			}
		}
	}()

	var bad, queries atomic.Int64
	var once sync.Once
	report := func(format string, a ...any) {
		bad.Add(1)
		once.Do(func() { t.Errorf(format, a...) })
	}
	for q := 0; q < getters; q++ {
		wg.Add(1)
		go func(q int) {
			defer wg.Done()
			var prev stats.Stats
			for !stop.Load() {
				s := g.Get(ssrc)
				// read AFTER the query: every packet counted in s had been handed in before this point
				maxIn, maxOut := handedIn.Load(), handedOut.Load()
				if s == nil {
					report("CONSERVATION stats-snapshot: Get(%d) = nil for a bound stream", ssrc)
					return
				}
				queries.Add(1)
				in, out := s.InboundRTPStreamStats, s.OutboundRTPStreamStats
				if in.BytesReceived != in.PacketsReceived*pktLen || in.HeaderBytesReceived != in.PacketsReceived*12 || in.PacketsLost != 0 {
					report("CONSERVATION stats-snapshot: a query during traffic of %d-byte packets (12 header bytes, consecutive numbers) returned "+
						"PacketsReceived=%d BytesReceived=%d (recount: %d) HeaderBytesReceived=%d (recount: %d) PacketsLost=%d (recount: 0): the recount of no prefix of the traffic",
						pktLen, in.PacketsReceived, in.BytesReceived, in.PacketsReceived*pktLen, in.HeaderBytesReceived, in.PacketsReceived*12, in.PacketsLost)
				}
				if out.BytesSent != out.PacketsSent*pktLen || out.HeaderBytesSent != out.PacketsSent*12 {
					report("CONSERVATION stats-snapshot: a query during traffic of %d-byte packets (12 header bytes) returned "+
						"PacketsSent=%d BytesSent=%d (recount: %d) HeaderBytesSent=%d (recount: %d): the recount of no prefix of the traffic",
						pktLen, out.PacketsSent, out.BytesSent, out.PacketsSent*pktLen, out.HeaderBytesSent, out.PacketsSent*12)
				}
				if in.PacketsReceived < prev.InboundRTPStreamStats.PacketsReceived || out.PacketsSent < prev.OutboundRTPStreamStats.PacketsSent ||
					in.BytesReceived < prev.InboundRTPStreamStats.BytesReceived || out.BytesSent < prev.OutboundRTPStreamStats.BytesSent ||
					in.PLICount < prev.InboundRTPStreamStats.PLICount {
					report("CONSERVATION stats-snapshot: successive queries of one goroutine went backwards: received %d -> %d, sent %d -> %d, bytes received %d -> %d, bytes sent %d -> %d, PLI %d -> %d",
						prev.InboundRTPStreamStats.PacketsReceived, in.PacketsReceived, prev.OutboundRTPStreamStats.PacketsSent, out.PacketsSent,
						prev.InboundRTPStreamStats.BytesReceived, in.BytesReceived, prev.OutboundRTPStreamStats.BytesSent, out.BytesSent,
						prev.InboundRTPStreamStats.PLICount, in.PLICount)
				}
				if in.PacketsReceived > maxIn || out.PacketsSent > maxOut {
					report("CONSERVATION stats-snapshot: the query counts %d received / %d sent packets, only %d / %d had been handed to the interceptor when it returned",
						in.PacketsReceived, out.PacketsSent, maxIn, maxOut)
				}
				prev = *s
			}
		}(q)
	}
	time.Sleep(time.Duration(*fMillis) * time.Millisecond)
	stop.Store(true)
	wg.Wait()
	// quiescent: the final figures are the recount of the whole traffic
	s := g.Get(ssrc)
	_ = ic.Close()
	fmt.Printf("stress conc-stats-snapshots reads=%d writes=%d queries=%d inconsistent=%d\n", reads, writes, queries.Load(), bad.Load())
	if s == nil {
		t.Fatalf("CONSERVATION stats-snapshot: Get(%d) = nil after the traffic", ssrc)
	}
	gotIn := s.InboundRTPStreamStats.PacketsReceived - base.InboundRTPStreamStats.PacketsReceived
	gotOut := s.OutboundRTPStreamStats.PacketsSent - base.OutboundRTPStreamStats.PacketsSent
	if int(gotIn) != reads || int(gotOut) != writes ||
		s.InboundRTPStreamStats.BytesReceived != s.InboundRTPStreamStats.PacketsReceived*pktLen || s.OutboundRTPStreamStats.BytesSent != s.OutboundRTPStreamStats.PacketsSent*pktLen {
		t.Errorf("CONSERVATION stats-snapshot: after %d reads and %d writes of %d-byte packets the counters grew by received=%d sent=%d (totals %d packets / %d bytes received, %d packets / %d bytes sent)",
			reads, writes, pktLen, gotIn, gotOut, s.InboundRTPStreamStats.PacketsReceived, s.InboundRTPStreamStats.BytesReceived,
			s.OutboundRTPStreamStats.PacketsSent, s.OutboundRTPStreamStats.BytesSent)
	}
}
